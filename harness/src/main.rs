// Rust side of the correspondence check: executes requests on the real q_compress library
// (path dependency on /repo/q_compress, built from the working tree, overflow checks and
// debug assertions on). One request per line on stdin, one answer per line on stdout.
// Every request runs under catch_unwind; a panic is reported as `panic <message>`.

use std::convert::TryFrom;
use std::io::{BufRead, Write};
use std::panic::{catch_unwind, AssertUnwindSafe};
use std::time::{Duration, SystemTime, UNIX_EPOCH};

use q_compress::data_types::{NumberLike, TimestampMicros, TimestampMicros96, TimestampNanos, TimestampNanos96};
use q_compress::errors::{ErrorKind, QCompressError};
use q_compress::{
  ChunkMetadata, Compressor, CompressorConfig, DecompressedItem, Decompressor, DecompressorConfig, Flags, Prefix,
  PrefixMetadata,
};

// ---------------------------------------------------------------------------------------------
// value patterns: every data type is handled through its W-bit pattern (see Qco/DType/Maps.lean)

pub trait Ty: NumberLike {
  fn from_pat(p: u128) -> Self;
  fn to_pat(self) -> u128;
  fn u_to_u128(u: Self::Unsigned) -> u128;
  fn u_from_u128(u: u128) -> Self::Unsigned;
}

macro_rules! impl_ty_int {
  ($t:ty, $u:ty) => {
    impl Ty for $t {
      fn from_pat(p: u128) -> Self { p as $u as $t }
      fn to_pat(self) -> u128 { self as $u as u128 }
      fn u_to_u128(u: $u) -> u128 { u as u128 }
      fn u_from_u128(u: u128) -> $u { u as $u }
    }
  };
}
impl_ty_int!(i16, u16);
impl_ty_int!(i32, u32);
impl_ty_int!(i64, u64);
impl_ty_int!(i128, u128);
impl_ty_int!(u16, u16);
impl_ty_int!(u32, u32);
impl_ty_int!(u64, u64);
impl_ty_int!(u128, u128);

impl Ty for f32 {
  fn from_pat(p: u128) -> Self { f32::from_bits(p as u32) }
  fn to_pat(self) -> u128 { self.to_bits() as u128 }
  fn u_to_u128(u: u32) -> u128 { u as u128 }
  fn u_from_u128(u: u128) -> u32 { u as u32 }
}
impl Ty for f64 {
  fn from_pat(p: u128) -> Self { f64::from_bits(p as u64) }
  fn to_pat(self) -> u128 { self.to_bits() as u128 }
  fn u_to_u128(u: u64) -> u128 { u as u128 }
  fn u_from_u128(u: u128) -> u64 { u as u64 }
}
impl Ty for bool {
  fn from_pat(p: u128) -> Self { p != 0 }
  fn to_pat(self) -> u128 { self as u128 }
  fn u_to_u128(u: u8) -> u128 { u as u128 }
  fn u_from_u128(u: u128) -> u8 { u as u8 }
}
macro_rules! impl_ty_ts64 {
  ($t:ty) => {
    impl Ty for $t {
      fn from_pat(p: u128) -> Self { <$t>::new(p as u64 as i64) }
      fn to_pat(self) -> u128 { self.to_total_parts() as u64 as u128 }
      fn u_to_u128(u: u64) -> u128 { u as u128 }
      fn u_from_u128(u: u128) -> u64 { u as u64 }
    }
  };
}
impl_ty_ts64!(TimestampNanos);
impl_ty_ts64!(TimestampMicros);
macro_rules! impl_ty_ts96 {
  ($t:ty) => {
    impl Ty for $t {
      // from_signed is the only public constructor that accepts every i128
      fn from_pat(p: u128) -> Self { <$t as NumberLike>::from_signed(p as i128) }
      fn to_pat(self) -> u128 { self.to_total_parts() as u128 }
      fn u_to_u128(u: u128) -> u128 { u }
      fn u_from_u128(u: u128) -> u128 { u }
    }
  };
}
impl_ty_ts96!(TimestampNanos96);
impl_ty_ts96!(TimestampMicros96);

macro_rules! dispatch {
  ($dt:expr, $f:ident, $($arg:expr),*) => {
    match $dt {
      "i16" => $f::<i16>($($arg),*),
      "i32" => $f::<i32>($($arg),*),
      "i64" => $f::<i64>($($arg),*),
      "i128" => $f::<i128>($($arg),*),
      "u16" => $f::<u16>($($arg),*),
      "u32" => $f::<u32>($($arg),*),
      "u64" => $f::<u64>($($arg),*),
      "u128" => $f::<u128>($($arg),*),
      "f32" => $f::<f32>($($arg),*),
      "f64" => $f::<f64>($($arg),*),
      "bool" => $f::<bool>($($arg),*),
      "nanos" => $f::<TimestampNanos>($($arg),*),
      "micros" => $f::<TimestampMicros>($($arg),*),
      "nanos96" => $f::<TimestampNanos96>($($arg),*),
      "micros96" => $f::<TimestampMicros96>($($arg),*),
      _ => "bad-dtype".to_string(),
    }
  };
}

// ---------------------------------------------------------------------------------------------
// text helpers

fn hex_to_bytes(s: &str) -> Vec<u8> {
  let b = s.as_bytes();
  let mut out = Vec::with_capacity(b.len() / 2);
  let v = |c: u8| -> u8 {
    match c {
      b'0'..=b'9' => c - b'0',
      b'a'..=b'f' => c - b'a' + 10,
      b'A'..=b'F' => c - b'A' + 10,
      _ => 0,
    }
  };
  let mut i = 0;
  while i + 1 < b.len() {
    out.push(v(b[i]) * 16 + v(b[i + 1]));
    i += 2;
  }
  out
}

fn bytes_to_hex(b: &[u8]) -> String {
  let mut s = String::with_capacity(b.len() * 2);
  for x in b {
    s.push_str(&format!("{:02x}", x));
  }
  s
}

fn parse_nums<T: Ty>(s: &str) -> Vec<T> {
  if s.is_empty() || s == "-" {
    return Vec::new();
  }
  s.split(',').map(|t| T::from_pat(u128::from_str_radix(t, 16).unwrap())).collect()
}

fn vals_str<T: Ty>(v: &[T]) -> String {
  let mut s = String::new();
  for (i, x) in v.iter().enumerate() {
    if i > 0 {
      s.push(',');
    }
    s.push_str(&format!("{:x}", x.to_pat()));
  }
  s
}

fn kind_str(e: &QCompressError) -> &'static str {
  match e.kind {
    ErrorKind::Compatibility => "Compatibility",
    ErrorKind::Corruption => "Corruption",
    ErrorKind::InsufficientData => "InsufficientData",
    ErrorKind::InvalidArgument => "InvalidArgument",
  }
}

fn flags_str(f: &Flags) -> String {
  format!(
    "{},{},{},{}",
    f.use_5_bit_code_len as u8, f.delta_encoding_order, f.use_min_count_encoding as u8, f.use_gcds as u8
  )
}

fn code_str(code: &[bool]) -> String {
  code.iter().map(|&b| if b { '1' } else { '0' }).collect()
}

fn prefix_str<S: Ty>(p: &Prefix<S>) -> String {
  format!(
    "{}:{:x}:{:x}:{}:{}:{:x}",
    p.count,
    S::u_to_u128(p.lower.to_unsigned()),
    S::u_to_u128(p.upper.to_unsigned()),
    code_str(&p.code),
    match p.run_len_jumpstart {
      None => "-".to_string(),
      Some(j) => j.to_string(),
    },
    S::u_to_u128(p.gcd)
  )
}

fn meta_str<T: Ty>(m: &ChunkMetadata<T>) -> String
where
  T::Signed: Ty,
{
  let (moments, prefixes) = match &m.prefix_metadata {
    PrefixMetadata::Simple { prefixes } => (String::new(), prefixes.iter().map(prefix_str::<T>).collect::<Vec<_>>().join(";")),
    PrefixMetadata::Delta { prefixes, delta_moments } => (
      vals_str::<T::Signed>(&delta_moments.moments),
      prefixes.iter().map(prefix_str::<T::Signed>).collect::<Vec<_>>().join(";"),
    ),
  };
  format!("n={} body={} moments={} prefixes={}", m.n, m.compressed_body_size, moments, prefixes)
}

fn panic_msg(e: Box<dyn std::any::Any + Send>) -> String {
  let s = if let Some(s) = e.downcast_ref::<&str>() {
    s.to_string()
  } else if let Some(s) = e.downcast_ref::<String>() {
    s.clone()
  } else {
    "?".to_string()
  };
  s.replace('\n', " ").replace(' ', "_")
}

// ---------------------------------------------------------------------------------------------
// compress <dt> <level> <order> <gcds> <drain:0|1> <chunk1> <chunk2> ...
//   -> ok bytes=<hex> sizes=<byte_size after each call> | <meta1> | <meta2> ...

fn cmd_compress<T: Ty>(args: &[&str]) -> String
where
  T::Signed: Ty,
{
  let level: usize = args[0].parse().unwrap();
  let order: usize = args[1].parse().unwrap();
  let gcds = args[2] == "1";
  let drain = args[3] == "1";
  let config = CompressorConfig::default()
    .with_compression_level(level)
    .with_delta_encoding_order(order)
    .with_use_gcds(gcds);
  let mut c = Compressor::<T>::from_config(config);
  let mut bytes = Vec::new();
  if let Err(e) = c.header() {
    return format!("err {} at=header", kind_str(&e));
  }
  let mut metas = Vec::new();
  for (i, ch) in args[4..].iter().enumerate() {
    if drain {
      bytes.extend(c.drain_bytes());
    }
    let nums = parse_nums::<T>(ch);
    match c.chunk(&nums) {
      Ok(m) => metas.push(meta_str(&m)),
      Err(e) => return format!("err {} at=chunk{}", kind_str(&e), i),
    }
  }
  if let Err(e) = c.footer() {
    return format!("err {} at=footer", kind_str(&e));
  }
  bytes.extend(c.drain_bytes());
  format!("ok bytes={} | {}", bytes_to_hex(&bytes), metas.join(" | "))
}

// ---------------------------------------------------------------------------------------------
// decompressor operations
//   dops <dt> <limit> <op> <op> ...
//   ops: W<hex> H M B S N F D I G
//   answer: one token group per op, separated by " ; ", each "<result>@<bit_idx>"

fn debug_hash<T: Ty>(d: &Decompressor<T>) -> u64 {
  // FNV-1a over the Debug rendering: the whole observable state
  let s = format!("{:?}", d);
  let mut h: u64 = 0xcbf29ce484222325;
  for b in s.as_bytes() {
    h ^= *b as u64;
    h = h.wrapping_mul(0x100000001b3);
  }
  h
}

fn cmd_dops<T: Ty>(args: &[&str]) -> String
where
  T::Signed: Ty,
{
  let limit: usize = args[0].parse().unwrap();
  let mut d = Decompressor::<T>::from_config(DecompressorConfig::default().with_numbers_limit_per_item(limit));
  let mut out: Vec<String> = Vec::new();
  for op in &args[1..] {
    let (head, rest) = op.split_at(1);
    let r = catch_unwind(AssertUnwindSafe(|| -> String {
      match head {
        "W" => {
          d.write_all(&hex_to_bytes(rest)).unwrap();
          "ok".to_string()
        }
        "H" => match d.header() {
          Ok(f) => format!("ok flags={}", flags_str(&f)),
          Err(e) => format!("err {}", kind_str(&e)),
        },
        "M" => match d.chunk_metadata() {
          Ok(Some(m)) => format!("ok meta {}", meta_str(&m)),
          Ok(None) => "ok none".to_string(),
          Err(e) => format!("err {}", kind_str(&e)),
        },
        "B" => match d.chunk_body() {
          Ok(v) => format!("ok vals={}", vals_str(&v)),
          Err(e) => format!("err {}", kind_str(&e)),
        },
        "S" => match d.skip_chunk_body() {
          Ok(()) => "ok".to_string(),
          Err(e) => format!("err {}", kind_str(&e)),
        },
        "N" => {
          let item = (&mut d).next();
          match item {
            None => "none".to_string(),
            Some(Ok(DecompressedItem::Flags(f))) => format!("flags {}", flags_str(&f)),
            Some(Ok(DecompressedItem::ChunkMetadata(m))) => format!("meta {}", meta_str(&m)),
            Some(Ok(DecompressedItem::Numbers(v))) => format!("nums {}", vals_str(&v)),
            Some(Ok(DecompressedItem::Footer)) => "footer".to_string(),
            Some(Err(e)) => format!("err {}", kind_str(&e)),
          }
        }
        // R: drain the iterator until it yields nothing (or an error); items joined by " , "
        "R" => {
          let mut items: Vec<String> = Vec::new();
          let mut guard = 0usize;
          loop {
            guard += 1;
            if guard > 20_000_000 {
              items.push("hang".to_string());
              break;
            }
            match (&mut d).next() {
              None => break,
              Some(Ok(DecompressedItem::Flags(f))) => items.push(format!("flags {}", flags_str(&f))),
              Some(Ok(DecompressedItem::ChunkMetadata(m))) => items.push(format!("meta {}", meta_str(&m))),
              Some(Ok(DecompressedItem::Numbers(v))) => items.push(format!("nums {}", vals_str(&v))),
              Some(Ok(DecompressedItem::Footer)) => items.push("footer".to_string()),
              Some(Err(e)) => {
                items.push(format!("err {}", kind_str(&e)));
                break;
              }
            }
          }
          if items.is_empty() { "drained".to_string() } else { format!("drained {}", items.join(" , ")) }
        }
        "F" => {
          d.free_compressed_memory();
          "ok".to_string()
        }
        "D" => match d.simple_decompress() {
          Ok(v) => format!("ok vals={}", vals_str(&v)),
          Err(e) => format!("err {}", kind_str(&e)),
        },
        "I" => "ok".to_string(),
        // count-only variants for fuzzing (outputs can be millions of numbers)
        "d" => match d.simple_decompress() {
          Ok(v) => format!("ok n={}", v.len()),
          Err(e) => format!("err {}", kind_str(&e)),
        },
        "b" => match d.chunk_body() {
          Ok(v) => format!("ok n={}", v.len()),
          Err(e) => format!("err {}", kind_str(&e)),
        },
        "m" => match d.chunk_metadata() {
          Ok(Some(m)) => format!("ok meta n={}", m.n),
          Ok(None) => "ok none".to_string(),
          Err(e) => format!("err {}", kind_str(&e)),
        },
        "r" => {
          let mut count = 0usize;
          let mut items = 0usize;
          let mut last = "none".to_string();
          loop {
            items += 1;
            if items > 40_000_000 {
              last = "hang".to_string();
              break;
            }
            match (&mut d).next() {
              None => break,
              Some(Ok(DecompressedItem::Numbers(v))) => count += v.len(),
              Some(Ok(DecompressedItem::Footer)) => last = "footer".to_string(),
              Some(Ok(_)) => (),
              Some(Err(e)) => {
                last = format!("err {}", kind_str(&e));
                break;
              }
            }
          }
          format!("drained n={} last={}", count, last)
        }
        "G" => format!("dbg {:016x}", debug_hash(&d)),
        _ => "bad-op".to_string(),
      }
    }));
    match r {
      Ok(s) => out.push(format!("{}@{}", s, d.bit_idx())),
      Err(e) => {
        out.push(format!("panic {}@0", panic_msg(e)));
        break;
      }
    }
  }
  out.join(" ; ")
}

// ---------------------------------------------------------------------------------------------
// compressor operations
//   cops <dt> <level> <order> <gcds> <op> ...
//   ops: H  C<nums>  E (empty chunk)  X<count> (oversized chunk of <count> zeros)  F  D (drain)  Z (byte_size)

fn cmd_cops<T: Ty>(args: &[&str]) -> String
where
  T::Signed: Ty,
{
  let level: usize = args[0].parse().unwrap();
  let order: usize = args[1].parse().unwrap();
  let gcds = args[2] == "1";
  let config = CompressorConfig::default()
    .with_compression_level(level)
    .with_delta_encoding_order(order)
    .with_use_gcds(gcds);
  let mut c = Compressor::<T>::from_config(config);
  let mut out: Vec<String> = Vec::new();
  for op in &args[3..] {
    let (head, rest) = op.split_at(1);
    let r = catch_unwind(AssertUnwindSafe(|| -> String {
      match head {
        "H" => match c.header() {
          Ok(()) => "ok".to_string(),
          Err(e) => format!("err {}", kind_str(&e)),
        },
        "C" => match c.chunk(&parse_nums::<T>(rest)) {
          Ok(m) => format!("ok meta {}", meta_str(&m)),
          Err(e) => format!("err {}", kind_str(&e)),
        },
        "E" => match c.chunk(&[]) {
          Ok(m) => format!("ok meta {}", meta_str(&m)),
          Err(e) => format!("err {}", kind_str(&e)),
        },
        "X" => {
          let n: usize = rest.parse().unwrap();
          let nums = vec![T::from_pat(0); n];
          match c.chunk(&nums) {
            Ok(m) => format!("ok meta n={} body={}", m.n, m.compressed_body_size),
            Err(e) => format!("err {}", kind_str(&e)),
          }
        }
        "F" => match c.footer() {
          Ok(()) => "ok".to_string(),
          Err(e) => format!("err {}", kind_str(&e)),
        },
        "D" => format!("bytes {}", bytes_to_hex(&c.drain_bytes())),
        "Z" => "ok".to_string(),
        _ => "bad-op".to_string(),
      }
    }));
    match r {
      Ok(s) => out.push(format!("{}@{}", s, c.byte_size())),
      Err(e) => {
        out.push(format!("panic {}@0", panic_msg(e)));
        break;
      }
    }
  }
  out.join(" ; ")
}

// ---------------------------------------------------------------------------------------------
// map <dt> <pattern>  -> toU toS bytes fromU(toU) fromS(toS) frombytes(tobytes)
// mapu <dt> <u>       -> fromU(u) as pattern, toU(fromU(u))

fn cmd_map<T: Ty>(args: &[&str]) -> String
where
  T::Signed: Ty,
{
  let x = T::from_pat(u128::from_str_radix(args[0], 16).unwrap());
  let u = x.to_unsigned();
  let s = x.to_signed();
  let bytes = x.to_bytes();
  let back_u = T::from_unsigned(u);
  let back_s = T::from_signed(s);
  let back_b = match T::from_bytes(bytes.clone()) {
    Ok(v) => format!("{:x}", v.to_pat()),
    Err(e) => format!("err:{}", kind_str(&e)),
  };
  format!(
    "u={:x} s={:x} bytes={} fu={:x} fs={:x} fb={}",
    T::u_to_u128(u),
    s.to_pat(),
    bytes_to_hex(&bytes),
    back_u.to_pat(),
    back_s.to_pat(),
    back_b
  )
}

fn cmd_mapu<T: Ty>(args: &[&str]) -> String {
  let u = T::u_from_u128(u128::from_str_radix(args[0], 16).unwrap());
  let x = T::from_unsigned(u);
  format!("x={:x} u={:x}", x.to_pat(), T::u_to_u128(x.to_unsigned()))
}

// rawbytes <dt> <hex of P/8 bytes> -> from_bytes result
fn cmd_rawbytes<T: Ty>(args: &[&str]) -> String {
  match T::from_bytes(hex_to_bytes(args[0])) {
    Ok(v) => format!("ok {:x}", T::u_to_u128(v.to_unsigned())),
    Err(e) => format!("err {}", kind_str(&e)),
  }
}

// ---------------------------------------------------------------------------------------------
// timestamps
//   ts <type> fromst <sign> <secs> <nanos>   SystemTime = EPOCH +/- Duration(secs, nanos) -> parts
//   ts <type> tost <parts as signed decimal>  -> sign secs nanos
//   ts <type> rt <sign> <secs> <nanos>       SystemTime -> ts -> SystemTime, printed as sign secs nanos

fn mk_st(sign: &str, secs: u64, nanos: u32) -> Option<SystemTime> {
  let d = Duration::new(secs, nanos);
  if sign == "+" {
    UNIX_EPOCH.checked_add(d)
  } else {
    UNIX_EPOCH.checked_sub(d)
  }
}

fn st_str(t: SystemTime) -> String {
  match t.duration_since(UNIX_EPOCH) {
    Ok(d) => format!("+ {} {}", d.as_secs(), d.subsec_nanos()),
    Err(e) => {
      let d = e.duration();
      format!("- {} {}", d.as_secs(), d.subsec_nanos())
    }
  }
}

fn cmd_ts(args: &[&str]) -> String {
  let ty = args[0];
  let op = args[1];
  match op {
    "fromst" | "rt" => {
      let secs: u64 = args[3].parse().unwrap();
      let nanos: u32 = args[4].parse().unwrap();
      let st = match mk_st(args[2], secs, nanos) {
        Some(t) => t,
        None => return "unrepresentable".to_string(),
      };
      macro_rules! go64 {
        ($t:ty) => {{
          match <$t>::try_from(st) {
            Ok(v) => {
              if op == "fromst" {
                format!("ok {}", v.to_total_parts())
              } else {
                format!("ok {}", st_str(SystemTime::from(v)))
              }
            }
            Err(e) => format!("err {}", kind_str(&e)),
          }
        }};
      }
      macro_rules! go96 {
        ($t:ty) => {{
          let v = <$t>::from(st);
          if op == "fromst" {
            format!("ok {}", v.to_total_parts())
          } else {
            match SystemTime::try_from(v) {
              Ok(t) => format!("ok {}", st_str(t)),
              Err(e) => format!("err {}", kind_str(&e)),
            }
          }
        }};
      }
      match ty {
        "nanos" => go64!(TimestampNanos),
        "micros" => go64!(TimestampMicros),
        "nanos96" => go96!(TimestampNanos96),
        "micros96" => go96!(TimestampMicros96),
        _ => "bad-type".to_string(),
      }
    }
    "tost" => {
      let parts: i128 = args[2].parse().unwrap();
      match ty {
        "nanos" => format!("ok {}", st_str(SystemTime::from(TimestampNanos::new(parts as i64)))),
        "micros" => format!("ok {}", st_str(SystemTime::from(TimestampMicros::new(parts as i64)))),
        "nanos96" => match TimestampNanos96::new(parts) {
          Ok(v) => match SystemTime::try_from(v) {
            Ok(t) => format!("ok {}", st_str(t)),
            Err(e) => format!("err {}", kind_str(&e)),
          },
          Err(e) => format!("err {}", kind_str(&e)),
        },
        "micros96" => match TimestampMicros96::new(parts) {
          Ok(v) => match SystemTime::try_from(v) {
            Ok(t) => format!("ok {}", st_str(t)),
            Err(e) => format!("err {}", kind_str(&e)),
          },
          Err(e) => format!("err {}", kind_str(&e)),
        },
        _ => "bad-type".to_string(),
      }
    }
    // validate96 <parts>: from_signed (unchecked constructor) then validate / TryFrom
    "validate" => {
      let parts: i128 = args[2].parse().unwrap();
      macro_rules! v96 {
        ($t:ty) => {{
          let v = <$t as NumberLike>::from_signed(parts);
          let a = match v.validate() {
            Ok(()) => "ok".to_string(),
            Err(e) => format!("err:{}", kind_str(&e)),
          };
          let b = match <$t>::new(parts) {
            Ok(_) => "ok".to_string(),
            Err(e) => format!("err:{}", kind_str(&e)),
          };
          let c = match SystemTime::try_from(v) {
            Ok(_) => "ok".to_string(),
            Err(e) => format!("err:{}", kind_str(&e)),
          };
          format!("validate={} new={} tryfrom={}", a, b, c)
        }};
      }
      match ty {
        "nanos96" => v96!(TimestampNanos96),
        "micros96" => v96!(TimestampMicros96),
        _ => "bad-type".to_string(),
      }
    }
    _ => "bad-op".to_string(),
  }
}

// ---------------------------------------------------------------------------------------------
// auto <dt> <level> <nums>  -> ok order=<o> level=<l> gcds=<g> rt=<0|1> sizes=<trial sizes>

fn cmd_auto<T: Ty>(args: &[&str]) -> String
where
  T::Signed: Ty,
{
  let level: usize = args[0].parse().unwrap();
  let nums = parse_nums::<T>(args[1]);
  let cfg = q_compress::auto_compressor_config(&nums, level);
  let bytes = q_compress::auto_compress(&nums, level);
  let rt = match q_compress::auto_decompress::<T>(&bytes) {
    Ok(v) => (v.len() == nums.len() && v.iter().zip(nums.iter()).all(|(a, b)| a.to_pat() == b.to_pat())) as u8,
    Err(_) => 0,
  };
  // trial sizes through the public API, as auto_delta_encoding_order computes them
  let head = if nums.len() < 1000 { &nums[..] } else { &nums[..1000] };
  let mut sizes = Vec::new();
  for order in 0..8 {
    let config = CompressorConfig::default()
      .with_delta_encoding_order(order)
      .with_compression_level(std::cmp::min(level, 6))
      .with_use_gcds(false);
    let mut c = Compressor::<T>::from_config(config);
    let s = match c.header().and_then(|_| c.chunk(head)) {
      Ok(_) => c.byte_size().to_string(),
      Err(_) => "x".to_string(),
    };
    sizes.push(s);
  }
  format!(
    "ok order={} level={} gcds={} rt={} sizes={} bytes={}",
    cfg.delta_encoding_order,
    cfg.compression_level,
    cfg.use_gcds as u8,
    rt,
    sizes.join(","),
    bytes_to_hex(&bytes)
  )
}

// ---------------------------------------------------------------------------------------------
// roundtrip oracles that stay inside the harness (sizes the Lean driver is not fed)
//   rt <dt> <level> <order> <gcds> <chunked:0|1> <nums>   -> ok 1 / ok 0 <first mismatch> / err

fn cmd_rt<T: Ty>(args: &[&str]) -> String
where
  T::Signed: Ty,
{
  let level: usize = args[0].parse().unwrap();
  let order: usize = args[1].parse().unwrap();
  let gcds = args[2] == "1";
  let nums = parse_nums::<T>(args[4]);
  let config = CompressorConfig::default()
    .with_compression_level(level)
    .with_delta_encoding_order(order)
    .with_use_gcds(gcds);
  let bytes = Compressor::<T>::from_config(config).simple_compress(&nums);
  let mut d = Decompressor::<T>::default();
  d.write_all(&bytes).unwrap();
  match d.simple_decompress() {
    Ok(v) => {
      if v.len() != nums.len() {
        return format!("ok 0 len {} vs {}", v.len(), nums.len());
      }
      for i in 0..v.len() {
        if v[i].to_pat() != nums[i].to_pat() {
          return format!("ok 0 idx {}", i);
        }
      }
      format!("ok 1 size={}", bytes.len())
    }
    Err(e) => format!("err {}", kind_str(&e)),
  }
}

// gen-based big round trips: bigrt <dt> <level> <order> <gcds> <kind> <n> <seed>
//   kinds: zeros+outlier, runs, uniform, lattice
fn splitmix(s: &mut u64) -> u64 {
  *s = s.wrapping_add(0x9E3779B97F4A7C15);
  let mut z = *s;
  z = (z ^ (z >> 30)).wrapping_mul(0xBF58476D1CE4E5B9);
  z = (z ^ (z >> 27)).wrapping_mul(0x94D049BB133111EB);
  z ^ (z >> 31)
}

fn cmd_bigrt<T: Ty>(args: &[&str]) -> String
where
  T::Signed: Ty,
{
  let level: usize = args[0].parse().unwrap();
  let order: usize = args[1].parse().unwrap();
  let gcds = args[2] == "1";
  let kind = args[3];
  let n: usize = args[4].parse().unwrap();
  let mut seed: u64 = args[5].parse().unwrap();
  let w = T::PHYSICAL_BITS.min(64) as u32;
  let mask: u128 = if T::PHYSICAL_BITS == 8 { 1 } else { (1u128 << w) - 1 };
  let mut nums: Vec<T> = Vec::with_capacity(n);
  match kind {
    "zeros_outlier" => {
      for _ in 0..n - 1 {
        nums.push(T::from_pat(0));
      }
      nums.push(T::from_pat(1));
    }
    "outlier_zeros" => {
      nums.push(T::from_pat(1));
      for _ in 0..n - 1 {
        nums.push(T::from_pat(0));
      }
    }
    "sparse" => {
      // long runs of one value separated by single outliers
      let mut i = 0;
      while i < n {
        let run = (splitmix(&mut seed) % 200000) as usize + 1;
        for _ in 0..run.min(n - i) {
          nums.push(T::from_pat(0));
        }
        i += run.min(n - i);
        if i < n {
          nums.push(T::from_pat((splitmix(&mut seed) as u128 & mask).max(1)));
          i += 1;
        }
      }
    }
    "uniform" => {
      for _ in 0..n {
        nums.push(T::from_pat(splitmix(&mut seed) as u128 & mask));
      }
    }
    "lattice" => {
      let g = (splitmix(&mut seed) % 1000 + 2) as u128;
      for _ in 0..n {
        nums.push(T::from_pat(((splitmix(&mut seed) % 100000) as u128 * g) & mask));
      }
    }
    _ => return "bad-kind".to_string(),
  }
  let config = CompressorConfig::default()
    .with_compression_level(level)
    .with_delta_encoding_order(order)
    .with_use_gcds(gcds);
  let mut c = Compressor::<T>::from_config(config);
  if let Err(e) = c.header() {
    return format!("err {}", kind_str(&e));
  }
  if let Err(e) = c.chunk(&nums) {
    return format!("err {}", kind_str(&e));
  }
  c.footer().unwrap();
  let bytes = c.drain_bytes();
  let mut d = Decompressor::<T>::default();
  d.write_all(&bytes).unwrap();
  match d.simple_decompress() {
    Ok(v) => {
      if v.len() != nums.len() {
        return format!("ok 0 len {} vs {}", v.len(), nums.len());
      }
      for i in 0..v.len() {
        if v[i].to_pat() != nums[i].to_pat() {
          return format!("ok 0 idx {}", i);
        }
      }
      format!("ok 1 size={}", bytes.len())
    }
    Err(e) => format!("err {}", kind_str(&e)),
  }
}


// ---------------------------------------------------------------------------------------------
// bigsimple <dt> <level> <order> <gcds> <kind> <n> <seed>: Compressor::simple_compress (which splits the input into
// chunks of DEFAULT_CHUNK_SIZE numbers) on inputs longer than one chunk, decoded by auto_decompress
//   -> ok rt=<0|1> len=<decoded length> n=<n> size=<bytes>

fn cmd_bigsimple<T: Ty>(args: &[&str]) -> String
where
  T::Signed: Ty,
{
  let level: usize = args[0].parse().unwrap();
  let order: usize = args[1].parse().unwrap();
  let gcds = args[2] == "1";
  let kind = args[3];
  let n: usize = args[4].parse().unwrap();
  let mut seed: u64 = args[5].parse().unwrap();
  let w = T::PHYSICAL_BITS.min(64) as u32;
  let mask: u128 = if T::PHYSICAL_BITS == 8 { 1 } else { (1u128 << w) - 1 };
  let mut nums: Vec<T> = Vec::with_capacity(n);
  for i in 0..n {
    let pat = match kind {
      "uniform" => splitmix(&mut seed) as u128 & mask,
      "smooth" => ((i as u128) * 3 + (splitmix(&mut seed) % 3) as u128) & mask & (mask >> 1),
      "sparse" => if splitmix(&mut seed) % 50 == 0 { (splitmix(&mut seed) as u128 & mask).max(1) } else { 0 },
      _ => return "bad-kind".to_string(),
    };
    nums.push(T::from_pat(pat));
  }
  let config = CompressorConfig::default()
    .with_compression_level(level)
    .with_delta_encoding_order(order)
    .with_use_gcds(gcds);
  let bytes = Compressor::<T>::from_config(config).simple_compress(&nums);
  let (rt, len) = match q_compress::auto_decompress::<T>(&bytes) {
    Ok(v) => ((v.len() == nums.len() && v.iter().zip(nums.iter()).all(|(a, b)| a.to_pat() == b.to_pat())) as u8, v.len()),
    Err(_) => (0, 0),
  };
  format!("ok rt={} len={} n={} size={}", rt, len, n, bytes.len())
}

// ---------------------------------------------------------------------------------------------
// bigspread <dt> <level> <n_bulk> <n_spike_values> <spike_reps> <lone_reps> <seed>: one chunk with an extreme spread of
// range weights — a uniform bulk over almost the whole type, a few hundred heavily repeated small values sprinkled
// through it, one lone smallest value followed (in sorted order) by a long run of a single value — sizes only
//   -> ok n=<n> body=<bytes> total=<bytes> nprefs=<k> maxcode=<bits> rt=<0|1>

fn cmd_bigspread<T: Ty>(args: &[&str]) -> String
where
  T::Signed: Ty,
{
  let level: usize = args[0].parse().unwrap();
  let n_bulk: usize = args[1].parse().unwrap();
  let n_spike_values: usize = args[2].parse().unwrap();
  let spike_reps: usize = args[3].parse().unwrap();
  let lone_reps: usize = args[4].parse().unwrap();
  let mut seed: u64 = args[5].parse().unwrap();
  let w = T::PHYSICAL_BITS.min(64) as u32;
  let mask: u128 = (1u128 << w) - 1;
  let mut nums: Vec<T> = Vec::with_capacity(n_bulk + n_spike_values * spike_reps + lone_reps + 1);
  let spikes: Vec<u128> = (0..n_spike_values).map(|_| 1000 + (splitmix(&mut seed) % 1_000_000) as u128).collect();
  let n_spikes = n_spike_values * spike_reps;
  let stride = std::cmp::max(1, n_bulk / std::cmp::max(1, n_spikes));
  let mut spike_idx = 0;
  for i in 0..n_bulk {
    let mut x = splitmix(&mut seed) as u128 & mask;
    while x < (1 << 20) {
      x = splitmix(&mut seed) as u128 & mask;
    }
    nums.push(T::from_pat(x));
    if i % stride == 0 && spike_idx < n_spikes {
      nums.push(T::from_pat(spikes[spike_idx % n_spike_values]));
      spike_idx += 1;
    }
  }
  nums.push(T::from_pat(0));
  for _ in 0..lone_reps {
    nums.push(T::from_pat(500));
  }
  let config = CompressorConfig::default().with_compression_level(level);
  let mut c = Compressor::<T>::from_config(config);
  if let Err(e) = c.header() {
    return format!("err {}", kind_str(&e));
  }
  let meta = match c.chunk(&nums) {
    Ok(m) => m,
    Err(e) => return format!("err {}", kind_str(&e)),
  };
  c.footer().unwrap();
  let bytes = c.drain_bytes();
  let (nprefs, maxcode) = match &meta.prefix_metadata {
    PrefixMetadata::Simple { prefixes } => (prefixes.len(), prefixes.iter().map(|p| p.code.len()).max().unwrap_or(0)),
    PrefixMetadata::Delta { prefixes, .. } => (prefixes.len(), prefixes.iter().map(|p| p.code.len()).max().unwrap_or(0)),
  };
  let rt = match q_compress::auto_decompress::<T>(&bytes) {
    Ok(v) => (v.len() == nums.len() && v.iter().zip(nums.iter()).all(|(a, b)| a.to_pat() == b.to_pat())) as u8,
    Err(_) => 0,
  };
  format!("ok n={} body={} total={} nprefs={} maxcode={} rt={}", nums.len(), meta.compressed_body_size, bytes.len(), nprefs, maxcode, rt)
}

// ---------------------------------------------------------------------------------------------
// bigfmt <dt> <level> <order> <gcds> <v*len,v*len,...>: one chunk given as runs (too long for a request line), compressed
// through the chunk API; answers the bytes and a digest of the input (h = h*31 + pattern + 1 mod 2^61-1) so that an
// independent decoder can be compared without shipping the numbers
//   -> ok n=<n> digest=<d> bytes=<hex>

fn cmd_bigfmt<T: Ty>(args: &[&str]) -> String
where
  T::Signed: Ty,
{
  let level: usize = args[0].parse().unwrap();
  let order: usize = args[1].parse().unwrap();
  let gcds = args[2] == "1";
  let mut nums: Vec<T> = Vec::new();
  let mut h: u128 = 0;
  const M: u128 = (1u128 << 61) - 1;
  for part in args[3].split(',') {
    let mut it = part.split('*');
    let v = u128::from_str_radix(it.next().unwrap(), 16).unwrap();
    let len: usize = it.next().unwrap_or("1").parse().unwrap();
    for _ in 0..len {
      nums.push(T::from_pat(v));
      h = (h * 31 + v + 1) % M;
    }
  }
  let config = CompressorConfig::default()
    .with_compression_level(level)
    .with_delta_encoding_order(order)
    .with_use_gcds(gcds);
  let mut c = Compressor::<T>::from_config(config);
  if let Err(e) = c.header() {
    return format!("err {}", kind_str(&e));
  }
  if let Err(e) = c.chunk(&nums) {
    return format!("err {}", kind_str(&e));
  }
  c.footer().unwrap();
  format!("ok n={} digest={} bytes={}", nums.len(), h, bytes_to_hex(&c.drain_bytes()))
}

// ---------------------------------------------------------------------------------------------
// bigauto <dt> <level> <kind> <n> <seed>: auto_compressor_config / auto_compress / auto_decompress on inputs too long
// for a request line (more than DEFAULT_CHUNK_SIZE numbers: several chunks)
//   -> ok order=<o> level=<l> rt=<0|1> len=<decoded length> n=<n> size=<bytes>

fn cmd_bigauto<T: Ty>(args: &[&str]) -> String
where
  T::Signed: Ty,
{
  let level: usize = args[0].parse().unwrap();
  let kind = args[1];
  let n: usize = args[2].parse().unwrap();
  let mut seed: u64 = args[3].parse().unwrap();
  let w = T::PHYSICAL_BITS.min(64) as u32;
  let mask: u128 = if T::PHYSICAL_BITS == 8 { 1 } else { (1u128 << w) - 1 };
  let mut nums: Vec<T> = Vec::with_capacity(n);
  for i in 0..n {
    let pat = match kind {
      "uniform" => splitmix(&mut seed) as u128 & mask,
      "smooth" => ((i as u128) * 3 + (splitmix(&mut seed) % 3) as u128) & mask & (mask >> 1),
      "sparse" => if splitmix(&mut seed) % 50 == 0 { (splitmix(&mut seed) as u128 & mask).max(1) } else { 0 },
      _ => return "bad-kind".to_string(),
    };
    nums.push(T::from_pat(pat));
  }
  let cfg = q_compress::auto_compressor_config(&nums, level);
  let bytes = q_compress::auto_compress(&nums, level);
  let (rt, len) = match q_compress::auto_decompress::<T>(&bytes) {
    Ok(v) => ((v.len() == nums.len() && v.iter().zip(nums.iter()).all(|(a, b)| a.to_pat() == b.to_pat())) as u8, v.len()),
    Err(_) => (0, 0),
  };
  format!("ok order={} level={} rt={} len={} n={} size={}", cfg.delta_encoding_order, cfg.compression_level, rt, len, n, bytes.len())
}

// ---------------------------------------------------------------------------------------------
// mt <dt> <level> <order> <gcds> <threads> <nums>: the same chunk compressed concurrently in several
// threads (each with its own Compressor, after a different number of warm-up chunks)
//   -> ok same=<0|1> bytes=<chunk bytes of thread 0>

fn cmd_mt<T: Ty + Send + Sync>(args: &[&str]) -> String
where
  T::Signed: Ty,
{
  let level: usize = args[0].parse().unwrap();
  let order: usize = args[1].parse().unwrap();
  let gcds = args[2] == "1";
  let threads: usize = args[3].parse().unwrap();
  let nums = std::sync::Arc::new(parse_nums::<T>(args[4]));
  let mut handles = Vec::new();
  for t in 0..threads {
    let nums = nums.clone();
    handles.push(std::thread::spawn(move || -> Result<Vec<u8>, String> {
      let config = CompressorConfig::default()
        .with_compression_level(level)
        .with_delta_encoding_order(order)
        .with_use_gcds(gcds);
      let mut c = Compressor::<T>::from_config(config);
      c.header().map_err(|e| kind_str(&e).to_string())?;
      // different histories per thread: t warm-up chunks of other data
      for w in 0..(t % 4) {
        let warm: Vec<T> = (0..(10 + w * 7)).map(|i| T::from_pat(((i * 37 + t) % 2) as u128)).collect();
        c.chunk(&warm).map_err(|e| kind_str(&e).to_string())?;
      }
      if t % 2 == 0 {
        c.drain_bytes();
      }
      let before = c.byte_size();
      c.chunk(&nums).map_err(|e| kind_str(&e).to_string())?;
      let all = c.drain_bytes();
      Ok(all[before..].to_vec())
    }));
  }
  let mut outs = Vec::new();
  for h in handles {
    match h.join() {
      Ok(Ok(b)) => outs.push(b),
      Ok(Err(e)) => return format!("err {}", e),
      Err(_) => return "panic thread".to_string(),
    }
  }
  let same = outs.iter().all(|b| *b == outs[0]);
  format!("ok same={} bytes={}", same as u8, bytes_to_hex(&outs[0]))
}


// ---------------------------------------------------------------------------------------------
// bit-level machinery through the guarded hooks (q_compress::verif)
//   bwords <piece,piece,...> <free,free,...>   -> words=<hex,...> bits=<n>
//   bread  <piece,piece,...> <op> <op> ...     -> answers joined by " ; "
//   bwrite <op> <op> ...                        -> answers joined by " ; "

// the run-length arm of training, observed through the public API only: a u32 chunk of `count` zeros and n - count
// distinct, far-apart values at level 12 without GCDs; the range holding exactly the zeros has a jumpstart or not
//   -> "1 <jumpstart>" | "0 0"
fn runlen_public(count: usize, n: usize) -> String {
  let mut nums: Vec<u32> = vec![0; count];
  for i in 0..(n - count) {
    nums.push(1000 + (i as u32) * 200);
  }
  let config = CompressorConfig::default().with_compression_level(12).with_use_gcds(false);
  let mut c = Compressor::<u32>::from_config(config);
  if c.header().is_err() {
    return "err".to_string();
  }
  match c.chunk(&nums) {
    Ok(meta) => {
      let ps = match &meta.prefix_metadata {
        PrefixMetadata::Simple { prefixes } => prefixes.clone(),
        _ => return "err".to_string(),
      };
      for p in ps {
        if p.lower == 0 {
          return match p.run_len_jumpstart {
            Some(j) if p.upper == 0 => format!("1 {}", j),
            Some(_) => "wide".to_string(),
            None => "0 0".to_string(),
          };
        }
      }
      "none".to_string()
    }
    Err(e) => format!("err {}", kind_str(&e)),
  }
}

#[cfg(mwlon_quantile_compression_verif)]
fn cmd_bits(toks: &[&str]) -> String {
  let pieces = |s: &str| -> Vec<Vec<u8>> {
    if s == "-" { Vec::new() } else { s.split(',').map(|p| if p == "_" { Vec::new() } else { hex_to_bytes(p) }).collect() }
  };
  match toks[0] {
    "bwords" => {
      let free: Vec<usize> = if toks.len() > 2 && toks[2] != "-" { toks[2].split(',').map(|x| x.parse().unwrap()).collect() } else { Vec::new() };
      let (words, bits) = q_compress::verif::words_script(&pieces(toks[1]), &free);
      format!("words={} bits={}", words.iter().map(|w| format!("{:x}", w)).collect::<Vec<_>>().join(","), bits)
    }
    "bread" => {
      let ops: Vec<String> = toks[2..].iter().map(|s| s.to_string()).collect();
      q_compress::verif::reader_script(&pieces(toks[1]), &ops).join(" ; ")
    }
    "bwrite" => {
      let ops: Vec<String> = toks[1..].iter().map(|s| s.to_string()).collect();
      q_compress::verif::writer_script(&ops).join(" ; ")
    }
    // floatfns kinfo <bits> <lower> <upper> <gcd> | gcdbits <bits> <range> | countbits <n> <0|1>
    //        | jumpstart <count> <n> | maxn <level> <n> | runlen <count> <n>     (kinfo/gcdbits arguments in hex)
    "floatfns" => {
      let op = toks[1];
      let (bits, args): (usize, Vec<u128>) = match op {
        "kinfo" | "gcdbits" => (toks[2].parse().unwrap(), toks[3..].iter().map(|x| u128::from_str_radix(x, 16).unwrap()).collect()),
        _ => (0, toks[2..].iter().map(|x| x.parse::<u128>().unwrap()).collect()),
      };
      q_compress::verif::float_fns_script(op, bits, &args)
    }
    // bodywrite <bits> <unsigneds hex,..|-> <count:lower:upper:code:jump:gcd> ...
    "bodywrite" => {
      let bits: usize = toks[1].parse().unwrap();
      let us: Vec<u128> = if toks[2] == "-" { Vec::new() } else { toks[2].split(',').map(|x| u128::from_str_radix(x, 16).unwrap()).collect() };
      let ps: Vec<q_compress::verif::VPrefix> = toks[3..].iter().map(|t| vprefix(t)).collect();
      q_compress::verif::body_writer_script(bits, &ps, &us)
    }
    // ndbounds <bits> <n> <prefix> ...
    "ndbounds" => {
      let bits: usize = toks[1].parse().unwrap();
      let n: usize = toks[2].parse().unwrap();
      let ps: Vec<q_compress::verif::VPrefix> = toks[3..].iter().map(|t| vprefix(t)).collect();
      q_compress::verif::num_decompressor_bounds_script(bits, &ps, n)
    }
    // numdec <bits> <n> <n_processed> <inc idx:reps|-> <limit> <eoi> <bit_idx> <bytes hex|-> <prefix> ...
    "numdec" => {
      let bits: usize = toks[1].parse().unwrap();
      let n: usize = toks[2].parse().unwrap();
      let np: usize = toks[3].parse().unwrap();
      let inc = if toks[4] == "-" { None } else {
        let mut it = toks[4].split(':');
        Some((it.next().unwrap().parse::<usize>().unwrap(), it.next().unwrap().parse::<usize>().unwrap()))
      };
      let limit: usize = toks[5].parse().unwrap();
      let eoi = toks[6] == "1";
      let bit_idx: usize = toks[7].parse().unwrap();
      let bytes = if toks[8] == "-" { Vec::new() } else { hex_to_bytes(toks[8]) };
      let ps: Vec<q_compress::verif::VPrefix> = toks[9..].iter().map(|t| vprefix(t)).collect();
      q_compress::verif::num_decompressor_script(bits, &ps, n, np, inc, limit, eoi, &bytes, bit_idx)
    }
    _ => "bad-op".to_string(),
  }
}

#[cfg(mwlon_quantile_compression_verif)]
fn vprefix(t: &str) -> q_compress::verif::VPrefix {
  let f: Vec<&str> = t.split(':').collect();
  (
    f[0].parse().unwrap(),
    u128::from_str_radix(f[1], 16).unwrap(),
    u128::from_str_radix(f[2], 16).unwrap(),
    f[3].chars().map(|c| c == '1').collect(),
    if f[4] == "-" { None } else { Some(f[4].parse().unwrap()) },
    u128::from_str_radix(f[5], 16).unwrap(),
  )
}

#[cfg(not(mwlon_quantile_compression_verif))]
fn cmd_bits(_toks: &[&str]) -> String {
  "no-hooks".to_string()
}

// ---------------------------------------------------------------------------------------------
// `consts`: what the COMPILED library says about its data types, defaults and flag layout (public API only);
// the translator (tools/extract_constants.py) writes lean/Qco/Generated/Constants.lean from this.

fn dt_row<T: NumberLike>(name: &str) -> String {
  format!("dt:{}:{}:{}:{}", name, T::HEADER_BYTE, T::PHYSICAL_BITS, std::mem::size_of::<T::Unsigned>() * 8)
}

fn flag_bytes(order: usize, gcds: bool) -> String {
  let cfg = CompressorConfig::default().with_delta_encoding_order(order).with_use_gcds(gcds);
  let mut c = Compressor::<i32>::from_config(cfg);
  c.header().unwrap();
  let bytes = c.drain_bytes();
  bytes[5..].iter().map(|b| format!("{:02x}", b)).collect::<String>()
}

fn cmd_consts() -> String {
  let mut out: Vec<String> = Vec::new();
  out.push(dt_row::<i16>("i16")); out.push(dt_row::<i32>("i32")); out.push(dt_row::<i64>("i64")); out.push(dt_row::<i128>("i128"));
  out.push(dt_row::<u16>("u16")); out.push(dt_row::<u32>("u32")); out.push(dt_row::<u64>("u64")); out.push(dt_row::<u128>("u128"));
  out.push(dt_row::<f32>("f32")); out.push(dt_row::<f64>("f64")); out.push(dt_row::<bool>("bool"));
  out.push(dt_row::<TimestampNanos>("nanos")); out.push(dt_row::<TimestampMicros>("micros"));
  out.push(dt_row::<TimestampNanos96>("nanos96")); out.push(dt_row::<TimestampMicros96>("micros96"));
  // parts per second, from the conversions themselves
  let one = UNIX_EPOCH + Duration::from_secs(1);
  out.push(format!("pps:nanos:{}", TimestampNanos::try_from(one).map(|t| t.to_total_parts() as i128).unwrap_or(-1)));
  out.push(format!("pps:micros:{}", TimestampMicros::try_from(one).map(|t| t.to_total_parts() as i128).unwrap_or(-1)));
  out.push(format!("pps:nanos96:{}", TimestampNanos96::from_secs_and_nanos(1, 0).to_total_parts()));
  out.push(format!("pps:micros96:{}", TimestampMicros96::from_secs_and_nanos(1, 0).to_total_parts()));
  out.push(format!("default_limit:{}", DecompressorConfig::default().numbers_limit_per_item));
  out.push(format!("default_level:{}", q_compress::DEFAULT_COMPRESSION_LEVEL));
  // the header's flag section for every delta order and GCD setting the public configuration can express
  for gcds in [false, true] {
    for order in 0..8 {
      out.push(format!("flags:{}:{}:{}", order, gcds as u8, flag_bytes(order, gcds)));
    }
  }
  out.join(" ")
}

fn answer(line: &str) -> String {
  let toks: Vec<&str> = line.split(' ').filter(|t| !t.is_empty()).collect();
  if toks.is_empty() {
    return "bad-op".to_string();
  }
  let r = catch_unwind(AssertUnwindSafe(|| -> String {
    match toks[0] {
      "compress" => dispatch!(toks[1], cmd_compress, &toks[2..]),
      "dops" => dispatch!(toks[1], cmd_dops, &toks[2..]),
      "cops" => dispatch!(toks[1], cmd_cops, &toks[2..]),
      "map" => dispatch!(toks[1], cmd_map, &toks[2..]),
      "mapu" => dispatch!(toks[1], cmd_mapu, &toks[2..]),
      "rawbytes" => dispatch!(toks[1], cmd_rawbytes, &toks[2..]),
      "auto" => dispatch!(toks[1], cmd_auto, &toks[2..]),
      "rt" => dispatch!(toks[1], cmd_rt, &toks[2..]),
      "mt" => dispatch!(toks[1], cmd_mt, &toks[2..]),
      "bigrt" => dispatch!(toks[1], cmd_bigrt, &toks[2..]),
      "bigauto" => dispatch!(toks[1], cmd_bigauto, &toks[2..]),
      "bigfmt" => dispatch!(toks[1], cmd_bigfmt, &toks[2..]),
      "bigsimple" => dispatch!(toks[1], cmd_bigsimple, &toks[2..]),
      "bigspread" => dispatch!(toks[1], cmd_bigspread, &toks[2..]),
      "ts" => cmd_ts(&toks[1..]),
      "consts" => cmd_consts(),
      "floatfns" if toks.len() > 3 && toks[1] == "runlen" => runlen_public(toks[2].parse().unwrap(), toks[3].parse().unwrap()),
      "bwords" | "bread" | "bwrite" | "bodywrite" | "numdec" | "ndbounds" | "floatfns" => cmd_bits(&toks),
      _ => "bad-op".to_string(),
    }
  }));
  match r {
    Ok(s) => s,
    Err(e) => format!("panic {}", panic_msg(e)),
  }
}

fn main() {
  std::panic::set_hook(Box::new(|_| {}));
  let stdin = std::io::stdin();
  let stdout = std::io::stdout();
  let mut out = std::io::BufWriter::new(stdout.lock());
  for line in stdin.lock().lines() {
    let line = match line {
      Ok(l) => l,
      Err(_) => break,
    };
    let a = answer(line.trim_end());
    writeln!(out, "{}", a).unwrap();
    out.flush().unwrap();
  }
}
