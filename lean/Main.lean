/-
Line-protocol driver: one request per line on stdin, one answer per line on stdout.
Runs the *model's* executable definitions; the Rust harness runs the real library on the same
requests and the orchestrator diffs the answers (DESIGN.md 3.2, Appendix B).
-/
import Qco.Driver.Cmds
open Qco

partial def loop (h : IO.FS.Stream) (out : IO.FS.Stream) : IO Unit := do
  let line ← h.getLine
  if line.isEmpty then return ()
  out.putStrLn (Driver.answer line)
  loop h out

def main : IO Unit := do
  let out ← IO.getStdout
  loop (← IO.getStdin) out
  out.flush
