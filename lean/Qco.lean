import Qco.Spec.Bits
import Qco.Spec.Parser
import Qco.Spec.Prim
import Qco.Spec.Delta
import Qco.Op.Units
import Qco.Train.Cuts
import Qco.Spec.Body
