def hello := "world"
