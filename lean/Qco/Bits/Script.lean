import Qco.Bits.Words
import Qco.Driver.Hex
/-
Script runners reproducing the output of `q_compress::verif::{words_script, reader_script, writer_script}`
as formatted by the harness (`bwords`, `bread`, `bwrite`).  A panic anywhere makes the whole answer `panic`.
-/
namespace Qco.WB

def hex (n : Nat) : String := Qco.Hex.ofNat n

def hex2 (b : Nat) : String := String.ofList [Qco.Hex.digit (b / 16 % 16), Qco.Hex.digit (b % 16)]

def hexBytes (bs : List Nat) : String := String.join (bs.map hex2)

/-- `str::parse::<usize>()`: optional `+`, at least one decimal digit, no overflow -/
def parseUsize (cs : List Char) : Option Nat :=
  let ds := match cs with
    | '+' :: rest => rest
    | _ => cs
  if ds.isEmpty || !(ds.all Char.isDigit) then none
  else
    let v := ds.foldl (fun a c => a * 10 + (c.toNat - '0'.toNat)) 0
    if v < USIZE then some v else none

def isHexDigit (c : Char) : Bool :=
  ('0' ≤ c && c ≤ '9') || ('a' ≤ c && c ≤ 'f') || ('A' ≤ c && c ≤ 'F')

/-- `uN::from_str_radix(s, 16)`: optional `+`, at least one hex digit, no overflow of `bits` bits -/
def parseHex (bits : Nat) (cs : List Char) : Option Nat :=
  let ds := match cs with
    | '+' :: rest => rest
    | _ => cs
  if ds.isEmpty || !(ds.all isHexDigit) then none
  else
    let v := Qco.Hex.toNat (String.ofList ds)
    if v < 2^bits then some v else none

def splitColon (cs : List Char) : List (List Char) :=
  let (cur, acc) := cs.foldl (fun (st : List Char × List (List Char)) c =>
    if c = ':' then ([], st.1.reverse :: st.2) else (c :: st.1, st.2)) ([], [])
  (cur.reverse :: acc).reverse

/-! ### `words_script` -/

def wordsScriptLoop : List (List Nat) → Nat → List Nat → Words → R Words
  | [], _, _, w => .ok w
  | piece :: rest, i, free, w =>
    let w1 := w.extend piece
    let k := free.getD i 0
    if k > 0 && k ≤ w1.ws.length then
      match w1.truncateLeftR k with
      | .ok w2 => wordsScriptLoop rest (i + 1) free w2
      | .err e => .err e
      | .panic => .panic
    else wordsScriptLoop rest (i + 1) free w1

def wordsScript (pieces : List (List Nat)) (free : List Nat) : String :=
  match wordsScriptLoop pieces 0 free {} with
  | .ok w => "words=" ++ ",".intercalate (w.ws.map hex) ++ " bits=" ++ toString w.total
  | _ => "panic"

/-! ### `reader_script` -/

def fmtR {α : Type} (f : α → String) : R α → Option String
  | .ok a => some (f a)
  | .err k => some ("err " ++ k)
  | .panic => none

def bitsStr (bs : List Bool) : String := String.ofList (bs.map fun b => if b then '1' else '0')

/-- one reader operation: answer (without the `@idx` suffix; `none` = panic) and the new reader -/
def readerOp (w : Words) (r : Reader) (op : String) : Option String × Reader :=
  match op.toList with
  | [] => (none, r)
  | head :: rest =>
    let n := (parseUsize rest).getD 0
    let run {α : Type} (f : α → String) (x : R α × Reader) : Option String × Reader := (fmtR f x.1, x.2)
    match head with
    | 's' => (some "ok", Reader.seekTo n)
    | 'k' => run (fun _ => "ok") (seek r n)
    | 'w' => run (fun _ => "ok") (rewind r n)
    | 'o' => run (fun b => if b then "1" else "0") (readOne w r)
    | 'r' => run (fun bs => bitsStr bs ++ "_") (read w r n)
    | 'd' => run hex (readDiff 128 w r n)
    | 'z' => run hex (readUsize w r n)
    | 'v' => run hex (readVarint w r n)
    | 't' => run (fun (p : Nat × Nat) => toString p.1 ++ ":" ++ hex p.2) (readPrefixTableIdx w r n)
    | 'a' => run (fun bs => hexBytes bs ++ "_") (readAlignedBytes w r n)
    | 'e' => run (fun _ => "ok") (drainEmptyByte w r)
    | 'b' => (fmtR toString (bitsRemaining w r), r)
    | 'x' => (fmtR toString (alignedByteIdx r), r)
    | 'O' => run (fun b => if b then "1" else "0") (uncheckedReadOne w r)
    | 'D' => run hex (uncheckedReadDiff 128 w r n)
    | 'Z' => run hex (uncheckedReadDiff 64 w r n)
    | 'V' => run hex (uncheckedReadVarint w r n)
    | 'T' => run hex (uncheckedReadPrefixTableIdx w r n)
    | _ => (some "bad-op", r)

def readerLoop (w : Words) : List String → Reader → List String → Option (List String)
  | [], _, acc => some acc.reverse
  | op :: ops, r, acc =>
    match readerOp w r op with
    | (none, _) => none
    | (some ans, r') =>
      if r'.bitIdx ≥ USIZE then none
      else readerLoop w ops r' ((ans ++ "@" ++ toString r'.bitIdx) :: acc)

def readerScript (pieces : List (List Nat)) (ops : List String) : String :=
  let w := pieces.foldl Words.extend {}
  match readerLoop w ops {} [] with
  | some out => " ; ".intercalate out
  | none => "panic"

/-! ### `writer_script` -/

def okW : R Writer → Writer → Option String × Writer
  | .ok wr', _ => (some "ok", wr')
  | .err k, wr => (some ("err " ++ k), wr)
  | .panic, wr => (none, wr)

def parseByteList : List Char → List Nat
  | a :: b :: rest => (parseHex 8 [a, b]).getD 0 :: parseByteList rest
  | _ => []

def writerOp (wr : Writer) (op : String) : Option String × Writer :=
  match op.toList with
  | [] => (none, wr)
  | head :: rest =>
    let parts := splitColon rest
    let hexArg (k : Nat) : Option Nat := (parts[k]?).map fun s => (parseHex 128 s).getD 0
    let numArg (k : Nat) : Option Nat := (parts[k]?).bind parseUsize
    match head with
    | 'o' => (some "ok", wr.writeOne (rest = ['1']))
    | 'u' =>
      match hexArg 1, numArg 0 with
      | some x, some n => okW (wr.writeUsize (x % USIZE) n) wr
      | _, _ => (none, wr)
    | 'd' =>
      match hexArg 1, numArg 0 with
      | some x, some n => okW (wr.writeDiff 128 x n) wr
      | _, _ => (none, wr)
    | 'v' =>
      match hexArg 1, numArg 0 with
      | some x, some n => okW (wr.writeVarint (x % USIZE) n) wr
      | _, _ => (none, wr)
    | 'f' => (some "ok", wr.finishByte)
    | 'a' => okW (wr.writeAlignedBytes (parseByteList rest)) wr
    | 'w' =>
      match numArg 0, hexArg 2, numArg 1 with
      | some idx, some x, some n => okW (wr.overwriteUsize idx (x % USIZE) n) wr
      | _, _, _ => (none, wr)
    | 'D' =>
      let (bs, wr') := wr.drainBytes
      (some ("bytes " ++ hexBytes bs), wr')
    | 'z' => (some (toString wr.byteSize), wr)
    | _ => (some "bad-op", wr)

def writerLoop : List String → Writer → List String → Option (List String)
  | [], _, acc => some acc.reverse
  | op :: ops, wr, acc =>
    match writerOp wr op with
    | (none, _) => none
    | (some ans, wr') => writerLoop ops wr' ((ans ++ "@" ++ toString wr'.bitSize) :: acc)

def writerScript (ops : List String) : String :=
  match writerLoop ops {} [] with
  | some out => " ; ".intercalate out
  | none => "panic"

end Qco.WB
