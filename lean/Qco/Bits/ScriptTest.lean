import Qco.Bits.Script
/-
Regression checks of the script runners against outputs of the real library
(`qco_harness` commands `bwords`, `bread`, `bwrite`; a panic message is reduced to `panic`).
-/
namespace Qco.WB

#guard wordsScript [[1,2],[3],[4,5,6,7,8,9,10,11]] [] = "words=102030405060708,90a0b0000000000 bits=88"

#guard readerScript [[1,2],[3],[4,5,6,7,8,9,10,11]] ["o","r7","d16","t6","b","a1","e","z64","o"]
  = "0@1 ; 0000001_@8 ; 203@24 ; 6:1@30 ; 58@30 ; err InvalidArgument@30 ; ok@32 ; err InsufficientData@32 ; 0@33"

#guard writerScript ["o1","u5:1f","d70:123456789abcdef0123","f","v3:64","a0102","z","D"]
  = "ok@1 ; ok@6 ; ok@76 ; ok@80 ; ok@92 ; err InvalidArgument@92 ; 12@92 ; bytes fe3456789abcdef0123095e0@0"

/-! quirks, all confirmed on the real library -/

-- `overwrite_usize` cannot clear a bit
#guard writerScript ["u8:ff","w0:8:0","D"] = "ok@8 ; ok@8 ; bytes ff@0"
-- `read(0)` at the end of word-aligned data with a normalised reader, and on empty data
#guard readerScript [[1,2,3,4,5,6,7,8]] ["s64","r0"] = "panic"
#guard readerScript [] ["r0"] = "panic"
-- `read_prefix_table_idx(0)` at `j = 0`: `>> 64`
#guard readerScript [[1]] ["t0"] = "panic"
-- `read_prefix_table_idx` across the end of the last word parks the reader beyond `total_bits`
#guard readerScript [[1,2,3,4,5,6,7,8]] ["s60","t6","o"] = "ok@60 ; 4:20@128 ; err InsufficientData@128"
#guard readerScript [[1,2,3,4,5,6,7,8]] ["s60","t6","b"] = "panic"
-- `truncate_left` of a partial last word underflows `total_bits`
#guard wordsScript [[1]] [1] = "panic"

end Qco.WB
