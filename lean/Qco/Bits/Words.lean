import Qco.Spec.Bits
/-
Layer B, executable word-level model of `q_compress::{bit_words, bit_reader, bit_writer}`.

Words are `Nat`s `< 2^64` (`usize` on the 64-bit target; `WORD_SIZE = 64`, `BYTES_PER_WORD = 8`).
The model mirrors the Rust control flow statement by statement.  Bit twiddling on `usize` is
written in div/mod form (see `low`, `shr`, `shl64`, `bitFromWord`; `Qco.Lemmas.WordsProofs` proves that
these are the bitwise operations `&`, `>>`, `<<` of the source); `|=` stays `|||` because whether an OR
behaves like an addition depends on invariants of the caller.

Outcomes: `R.ok`, `R.err kind` (a `QCompressError` of that kind), `R.panic` (index out of
bounds, `unwrap` on `None`, and — the harness builds with `overflow-checks = true` — arithmetic and
shift overflow).
-/
namespace Qco.WB

inductive R (α : Type) where
  | ok (a : α)
  | err (kind : String)
  | panic
  deriving Repr, DecidableEq

def R.bind {α β : Type} : R α → (α → R β) → R β
  | .ok a, f => f a
  | .err k, _ => .err k
  | .panic, _ => .panic

instance : Monad R where
  pure := R.ok
  bind := R.bind

/-- `usize::MAX + 1` -/
abbrev USIZE : Nat := 2^64

/-- `bits::ceil_div` -/
def ceilDiv (x d : Nat) : Nat := (x + d - 1) / d

/-- `x & (usize::MAX >> (64 - k))` for `k ≤ 64`: the low `k` bits -/
def low (x k : Nat) : Nat := x % 2^k
/-- `x >> s` (`s < 64` is checked by the callers) -/
def shr (x s : Nat) : Nat := x / 2^s
/-- `x << s` on `usize` (`s < 64` is checked by the callers; high bits fall off) -/
def shl64 (x s : Nat) : Nat := x * 2^s % 2^64
/-- `bits::bit_from_word`: `(word & (BASE_BIT_MASK >> j)) > 0`, `j < 64` -/
def bitFromWord (word j : Nat) : Bool := word / 2^(63 - j) % 2 == 1

/-! ## `BitWords` -/

structure Words where
  ws : List Nat := []
  total : Nat := 0
  deriving Repr, DecidableEq

/-- `usize::from_be_bytes` (also used for shorter lists in the proofs) -/
def beWord (bs : List Nat) : Nat := bs.foldl (fun a b => a * 256 + b) 0

/-- `*words.last_mut().unwrap() |= v`.  On an empty vector Rust panics; this is unreachable
from `BitWords::default()`/`BitWriter::default()` (see `WF`/`WInv`), the model leaves the empty list alone. -/
def orLast : List Nat → Nat → List Nat
  | [], _ => []
  | [x], v => [x ||| v]
  | x :: y :: rest, v => x :: orLast (y :: rest) v

/-- `for i in 0..first_word_end { *last |= (bytes[i] as usize) << (8 * (alignment - i - 1)) }`,
the list argument is `bytes[i..first_word_end]` -/
def orLoop (alignment : Nat) : List Nat → Nat → List Nat → List Nat
  | [], _, ws => ws
  | b :: bs, i, ws => orLoop alignment bs (i + 1) (orLast ws (b * 2^(8 * (alignment - i - 1))))

/-- `chunks_exact(8)` -/
def chunks8 (l : List Nat) : List (List Nat) :=
  if _h : l.length < 8 then [] else l.take 8 :: chunks8 (l.drop 8)
termination_by l.length
decreasing_by simp only [List.length_drop]; omega

/-- `while last_bytes.len() < 8 { last_bytes.push(0) }` -/
def pad8 (l : List Nat) : List Nat := l ++ List.replicate (8 - l.length) 0

/-- `bit_words::extend` + `extend_bytes` -/
def Words.extend (w : Words) (bytes : List Nat) : Words :=
  let totalBits := w.total + 8 * bytes.length
  let nWords := ceilDiv totalBits 64
  let initialBytes := w.total / 8
  let alignment := (8 - initialBytes % 8) % 8
  let firstWordEnd := min alignment bytes.length
  let lastAlignedByte := alignment + (bytes.length - firstWordEnd) / 8 * 8
  let ws1 := orLoop alignment (bytes.take firstWordEnd) 0 w.ws
  let ws2 :=
    if firstWordEnd < bytes.length then
      ws1 ++ (chunks8 ((bytes.take lastAlignedByte).drop firstWordEnd)).map beWord
    else ws1
  let ws3 :=
    if ws2.length < nWords then ws2 ++ [beWord (pad8 (bytes.drop lastAlignedByte))] else ws2
  { ws := ws3, total := totalBits }

/-- `truncate_left` with `Nat` subtraction -/
def Words.truncateLeft (w : Words) (k : Nat) : Words :=
  { ws := w.ws.drop k, total := w.total - k * 64 }

/-- `truncate_left` with the two panics of the source: slice start out of range,
`total_bits -= words_to_free * WORD_SIZE` underflow -/
def Words.truncateLeftR (w : Words) (k : Nat) : R Words :=
  if k > w.ws.length then .panic
  else if k * 64 > w.total then .panic
  else .ok (w.truncateLeft k)

/-- `words.to_be_bytes()` -/
def wordBytes (x : Nat) : List Nat :=
  [x / 2^56 % 256, x / 2^48 % 256, x / 2^40 % 256, x / 2^32 % 256,
   x / 2^24 % 256, x / 2^16 % 256, x / 2^8 % 256, x % 256]

/-- `bits::words_to_bytes` -/
def wordsToBytes (ws : List Nat) : List Nat := ws.flatMap wordBytes

/-! ## `BitReader` -/

structure Reader where
  i : Nat := 0
  j : Nat := 0
  deriving Repr, DecidableEq

namespace Reader

def bitIdx (r : Reader) : Nat := 64 * r.i + r.j

def refresh (r : Reader) : Reader := if r.j = 64 then { i := r.i + 1, j := 0 } else r

def seekTo (idx : Nat) : Reader := { i := idx / 64, j := idx % 64 }

end Reader

def alignedByteIdx (r : Reader) : R Nat :=
  if r.j % 8 = 0 then .ok (r.i * 8 + r.j / 8) else .err "InvalidArgument"

def bitsRemaining (w : Words) (r : Reader) : R Nat :=
  if r.bitIdx ≤ w.total then .ok (w.total - r.bitIdx) else .panic

def byteSize (w : Words) : Nat := ceilDiv w.total 8

def insufficientDataCheck (w : Words) (r : Reader) (n : Nat) : R Unit :=
  if r.bitIdx + n ≥ USIZE then .panic
  else if r.bitIdx + n > w.total then .err "InsufficientData"
  else .ok ()

/-- `seek`: `seek_to(bit_idx + n)` -/
def seek (r : Reader) (n : Nat) : R Unit × Reader :=
  if r.bitIdx + n ≥ USIZE then (.panic, r) else (.ok (), Reader.seekTo (r.bitIdx + n))

/-- `rewind`: `seek_to(bit_idx - n)` -/
def rewind (r : Reader) (n : Nat) : R Unit × Reader :=
  if n > r.bitIdx then (.panic, r) else (.ok (), Reader.seekTo (r.bitIdx - n))

def readAlignedBytes (w : Words) (r0 : Reader) (n : Nat) : R (List Nat) × Reader :=
  let r := r0.refresh
  match alignedByteIdx r with
  | .err k => (.err k, r)
  | .panic => (.panic, r)
  | .ok byteIdx =>
    let newByteIdx := byteIdx + n
    if newByteIdx ≥ USIZE then (.panic, r)
    else if newByteIdx > byteSize w then (.err "InsufficientData", r)
    else
      let endWordIdx := ceilDiv newByteIdx 8
      if endWordIdx > w.ws.length then (.panic, r)
      else
        let padded := wordsToBytes ((w.ws.take endWordIdx).drop (byteIdx / 8))
        let start := byteIdx % 8
        match seek r (n * 8) with
        | (.ok (), r') => (.ok ((padded.drop start).take n), r')
        | (_, r') => (.panic, r')

def readOne (w : Words) (r0 : Reader) : R Bool × Reader :=
  match insufficientDataCheck w r0 1 with
  | .err k => (.err k, r0)
  | .panic => (.panic, r0)
  | .ok () =>
    let r := r0.refresh
    match w.ws[r.i]? with
    | none => (.panic, r)
    | some word => (.ok (bitFromWord word r.j), { r with j := r.j + 1 })

/-- the loop of `read`; `word` is the cached current word -/
def readLoop (w : Words) : Nat → Reader → Nat → List Bool → R (List Bool) × Reader
  | 0, r, _, acc => (.ok acc.reverse, r)
  | n + 1, r, word, acc =>
    if r.j = 64 then
      let r1 : Reader := { i := r.i + 1, j := 0 }
      match w.ws[r1.i]? with
      | none => (.panic, r1)
      | some word1 => readLoop w n { r1 with j := 1 } word1 (bitFromWord word1 0 :: acc)
    else readLoop w n { r with j := r.j + 1 } word (bitFromWord word r.j :: acc)

/-- `read`.  Note `let mut word = self.unchecked_word()` *before* the loop and without a refresh:
out of range `i` panics even for `n = 0`. -/
def read (w : Words) (r : Reader) (n : Nat) : R (List Bool) × Reader :=
  match insufficientDataCheck w r n with
  | .err k => (.err k, r)
  | .panic => (.panic, r)
  | .ok () =>
    match w.ws[r.i]? with
    | none => (.panic, r)
    | some word => readLoop w n r word []

/-- the tail of the multi-word branch of `unchecked_read_diff::<U>` (`U::BITS = ub`):
```
while remaining >= 64 { i += 1; remaining -= 64; res |= U::from_word(word) << remaining }
if remaining > 0 { i += 1; res |= U::from_word(word >> (64 - remaining)); j = remaining } else { j = 64 }
``` -/
def diffTail (ub : Nat) (ws : List Nat) (i remaining res : Nat) : R Nat × Reader :=
  if _h : remaining ≥ 64 then
    match ws[i + 1]? with
    | none => (.panic, { i := i + 1, j := 0 })
    | some word =>
      if remaining - 64 ≥ ub then (.panic, { i := i + 1, j := 0 })
      else diffTail ub ws (i + 1) (remaining - 64) (res ||| (word % 2^ub) * 2^(remaining - 64) % 2^ub)
  else if remaining > 0 then
    match ws[i + 1]? with
    | none => (.panic, { i := i + 1, j := 0 })
    | some word => (.ok (res ||| shr word (64 - remaining) % 2^ub), { i := i + 1, j := remaining })
  else (.ok res, { i := i, j := 64 })
termination_by remaining
decreasing_by omega

/-- `unchecked_read_diff::<U>` with `U::BITS = ub` -/
def uncheckedReadDiff (ub : Nat) (w : Words) (r0 : Reader) (n : Nat) : R Nat × Reader :=
  if n = 0 then (.ok 0, r0)
  else
    let r := r0.refresh
    let nPlusJ := n + r.j
    if nPlusJ ≥ USIZE then (.panic, r)
    else if nPlusJ ≤ 64 then
      match w.ws[r.i]? with
      | none => (.panic, r)
      | some word =>
        (.ok (shr (low word (64 - r.j)) (64 - nPlusJ) % 2^ub), { r with j := nPlusJ })
    else
      let remaining := nPlusJ - 64
      match w.ws[r.i]? with
      | none => (.panic, r)
      | some word =>
        if remaining ≥ ub then (.panic, r)
        else diffTail ub w.ws r.i remaining ((low word (64 - r.j) % 2^ub) * 2^remaining % 2^ub)

def readDiff (ub : Nat) (w : Words) (r : Reader) (n : Nat) : R Nat × Reader :=
  match insufficientDataCheck w r n with
  | .err k => (.err k, r)
  | .panic => (.panic, r)
  | .ok () => uncheckedReadDiff ub w r n

def readUsize (w : Words) (r : Reader) (n : Nat) : R Nat × Reader := readDiff 64 w r n

def readPrefixTableIdx (w : Words) (r0 : Reader) (t : Nat) : R (Nat × Nat) × Reader :=
  let bitIdx := r0.bitIdx
  if bitIdx ≥ w.total then (.err "InsufficientData", r0)
  else
    let r := r0.refresh
    let nPlusJ := t + r.j
    if nPlusJ ≥ USIZE then (.panic, r)
    else if nPlusJ ≤ 64 then
      let rshift := 64 - nPlusJ
      match w.ws[r.i]? with
      | none => (.panic, r)
      | some word =>
        if rshift ≥ 64 then (.panic, r)
        else
          let res := shr (low word (64 - r.j)) rshift
          let bitsRead := min t (w.total - bitIdx)
          (.ok (bitsRead, res), { r with j := r.j + bitsRead })
    else
      let remaining := nPlusJ - 64
      match w.ws[r.i]? with
      | none => (.panic, r)
      | some word =>
        if remaining ≥ 64 then (.panic, r)
        else
          let res := shl64 (low word (64 - r.j)) remaining
          let i1 := r.i + 1
          if i1 < w.ws.length then
            match w.ws[i1]? with
            | none => (.panic, r)
            | some word1 => (.ok (t, res ||| shr word1 (64 - remaining)), { i := i1, j := remaining })
          else (.ok (t - remaining, res), { i := i1, j := 64 })

/-- `for i in jumpstart..24` of `read_varint`, `fuel = 24 - i` -/
def varintLoop (w : Words) : Nat → Nat → Reader → Nat → R Nat × Reader
  | 0, _, r, res => (.ok res, r)
  | fuel + 1, i, r, res =>
    match readOne w r with
    | (.err k, r1) => (.err k, r1)
    | (.panic, r1) => (.panic, r1)
    | (.ok false, r1) => (.ok res, r1)
    | (.ok true, r1) =>
      match readOne w r1 with
      | (.err k, r2) => (.err k, r2)
      | (.panic, r2) => (.panic, r2)
      | (.ok b, r2) => varintLoop w fuel (i + 1) r2 (if b then res ||| 2^i else res)

def readVarint (w : Words) (r : Reader) (jumpstart : Nat) : R Nat × Reader :=
  match readUsize w r jumpstart with
  | (.err k, r1) => (.err k, r1)
  | (.panic, r1) => (.panic, r1)
  | (.ok res, r1) => varintLoop w (24 - jumpstart) jumpstart r1 res

def uncheckedReadOne (w : Words) (r0 : Reader) : R Bool × Reader :=
  let r := r0.refresh
  match w.ws[r.i]? with
  | none => (.panic, r)
  | some word => (.ok (bitFromWord word r.j), { r with j := r.j + 1 })

def uncheckedReadPrefixTableIdx (w : Words) (r0 : Reader) (t : Nat) : R Nat × Reader :=
  let r := r0.refresh
  let nPlusJ := t + r.j
  if nPlusJ ≥ USIZE then (.panic, r)
  else if nPlusJ ≤ 64 then
    let shift := 64 - nPlusJ
    match w.ws[r.i]? with
    | none => (.panic, r)
    | some word =>
      if shift ≥ 64 then (.panic, r)
      else (.ok (shr (low word (64 - r.j)) shift), { r with j := nPlusJ })
  else
    let remaining := nPlusJ - 64
    match w.ws[r.i]? with
    | none => (.panic, r)
    | some word =>
      if remaining ≥ 64 then (.panic, r)
      else
        let res := shl64 (low word (64 - r.j)) remaining
        match w.ws[r.i + 1]? with
        | none => (.panic, { r with i := r.i + 1 })
        | some word1 => (.ok (res ||| shr word1 (64 - remaining)), { i := r.i + 1, j := remaining })

def uncheckedVarintLoop (w : Words) : Nat → Nat → Reader → Nat → R Nat × Reader
  | 0, _, r, res => (.ok res, r)
  | fuel + 1, i, r, res =>
    match uncheckedReadOne w r with
    | (.err k, r1) => (.err k, r1)
    | (.panic, r1) => (.panic, r1)
    | (.ok false, r1) => (.ok res, r1)
    | (.ok true, r1) =>
      match uncheckedReadOne w r1 with
      | (.err k, r2) => (.err k, r2)
      | (.panic, r2) => (.panic, r2)
      | (.ok b, r2) => uncheckedVarintLoop w fuel (i + 1) r2 (if b then res ||| 2^i else res)

def uncheckedReadVarint (w : Words) (r : Reader) (jumpstart : Nat) : R Nat × Reader :=
  match uncheckedReadDiff 64 w r jumpstart with
  | (.err k, r1) => (.err k, r1)
  | (.panic, r1) => (.panic, r1)
  | (.ok res, r1) => uncheckedVarintLoop w (24 - jumpstart) jumpstart r1 res

/-- `drain_empty_byte` (the error closure of the hook yields `Corruption`) -/
def drainEmptyByte (w : Words) (r : Reader) : R Unit × Reader :=
  if r.j % 8 ≠ 0 then
    let endJ := 8 * ceilDiv r.j 8
    match w.ws[r.i]? with
    | none => (.panic, r)
    | some word =>
      -- `word & (MAX >> j) & (MAX << (64 - end_j)) > 0`
      if shr (low word (64 - r.j)) (64 - endJ) > 0 then (.err "Corruption", r)
      else (.ok (), { r with j := endJ })
  else (.ok (), r)

/-! ## `BitWriter` -/

structure Writer where
  ws : List Nat := []
  j : Nat := 64
  deriving Repr, DecidableEq

namespace Writer

def byteSize (wr : Writer) : Nat := wr.ws.length * 8 - (64 - wr.j) / 8
def bitSize (wr : Writer) : Nat := wr.ws.length * 64 - (64 - wr.j)

def refresh (wr : Writer) : Writer := if wr.j = 64 then { ws := wr.ws ++ [0], j := 0 } else wr

def writeOne (wr0 : Writer) (b : Bool) : Writer :=
  let wr := wr0.refresh
  { ws := if b then orLast wr.ws (2^(63 - wr.j)) else wr.ws, j := wr.j + 1 }

def write (wr : Writer) (bs : List Bool) : Writer := bs.foldl writeOne wr

/-- `x.lshift_word(s)` for `U` of `ub` bits -/
def lshiftWord (ub x s : Nat) : R Nat := if s ≥ max ub 64 then .panic else .ok (x * 2^s % 2^64)
/-- `x.rshift_word(s)` for `U` of `ub` bits -/
def rshiftWord (ub x s : Nat) : R Nat := if s ≥ max ub 64 then .panic else .ok (x / 2^s % 2^64)

/-- the tail of the multi-word branch of `write_diff`:
```
while remaining > 64 { words.push(x.rshift_word(remaining - 64)); remaining -= 64 }
words.push(x.lshift_word(64 - remaining)); j = remaining
```
returns the words and the new `j` -/
def pushRest (ub x : Nat) (ws : List Nat) (remaining : Nat) : R (List Nat × Nat) :=
  if _h : remaining > 64 then
    match rshiftWord ub x (remaining - 64) with
    | .ok v => pushRest ub x (ws ++ [v]) (remaining - 64)
    | .err k => .err k
    | .panic => .panic
  else
    match lshiftWord ub x (64 - remaining) with
    | .ok v => .ok (ws ++ [v], remaining)
    | .err k => .err k
    | .panic => .panic
termination_by remaining
decreasing_by omega

/-- `write_diff::<U>` with `U::BITS = ub`, `x < 2^ub` -/
def writeDiff (ub : Nat) (wr0 : Writer) (x n : Nat) : R Writer :=
  if n = 0 then .ok wr0
  else
    let wr := wr0.refresh
    let nPlusJ := n + wr.j
    if nPlusJ ≥ USIZE then .panic
    else if nPlusJ ≤ 64 then
      match lshiftWord ub x (64 - nPlusJ) with
      | .ok v => .ok { ws := orLast wr.ws (low v (64 - wr.j)), j := nPlusJ }
      | .err k => .err k
      | .panic => .panic
    else
      match rshiftWord ub x (nPlusJ - 64) with
      | .err k => .err k
      | .panic => .panic
      | .ok v =>
        match pushRest ub x (orLast wr.ws (low v (64 - wr.j))) (n + wr.j - 64) with
        | .err k => .err k
        | .panic => .panic
        | .ok (ws2, j2) => .ok { ws := ws2, j := j2 }

def writeUsize (wr : Writer) (x n : Nat) : R Writer := writeDiff 64 wr x n

/-- the `for _ in jumpstart..24` loop of `write_varint`, `fuel = 24 - jumpstart` -/
def varintLoop : Nat → Writer → Nat → Writer
  | 0, wr, _ => wr
  | fuel + 1, wr, x =>
    if x > 0 then varintLoop fuel ((wr.writeOne true).writeOne (x % 2 == 1)) (x / 2)
    else wr.writeOne false

def writeVarint (wr : Writer) (x jumpstart : Nat) : R Writer :=
  if x > 2^24 - 1 then .panic
  else
    match writeUsize wr x jumpstart with
    | .err k => .err k
    | .panic => .panic
    | .ok wr1 =>
      if jumpstart ≥ 64 then .panic   -- `x >>= jumpstart`
      else .ok (varintLoop (24 - jumpstart) wr1 (x / 2^jumpstart))

def finishByte (wr : Writer) : Writer := { wr with j := ceilDiv wr.j 8 * 8 }

def alignedLoop : List Nat → Writer → Writer
  | [], wr => wr
  | b :: bs, wr0 =>
    let wr := wr0.refresh
    alignedLoop bs { ws := orLast wr.ws (b * 2^(64 - 8 - wr.j)), j := wr.j + 8 }

def writeAlignedBytes (wr : Writer) (bytes : List Nat) : R Writer :=
  if wr.j % 8 = 0 then .ok (alignedLoop bytes wr) else .err "InvalidArgument"

/-- loop body of `overwrite_usize`:
`if words[i] & mask != shifted_bit { words[i] ^= shifted_bit }`.
With `b = false` this is a no-op whatever the old bit is (`x ^ 0`); with `b = true` it sets the bit. -/
def overwriteLoop (x n : Nat) : Nat → Nat → Nat → Nat → List Nat → R (List Nat)
  | 0, _, _, _, ws => .ok ws
  | fuel + 1, k, i, j, ws =>
    if n - k - 1 ≥ 64 then .panic
    else
      let b := x / 2^(n - k - 1) % 2
      -- `if j == WORD_SIZE { i += 1; j = 0 }`
      let i1 := if j = 64 then i + 1 else i
      let j1 := if j = 64 then 0 else j
      let shift := 64 - 1 - j1
      let mask := 2^shift
      let shiftedBit := b * 2^shift
      match ws[i1]? with
      | none => .panic
      | some word =>
        let word' := if word &&& mask ≠ shiftedBit then word ^^^ shiftedBit else word
        overwriteLoop x n fuel (k + 1) i1 (j1 + 1) (ws.set i1 word')

def overwriteUsize (wr : Writer) (bitIdx x n : Nat) : R Writer :=
  match overwriteLoop x n n 0 (bitIdx / 64) (bitIdx % 64) wr.ws with
  | .ok ws => .ok { wr with ws := ws }
  | .err k => .err k
  | .panic => .panic

def drainBytes (wr : Writer) : List Nat × Writer :=
  ((wordsToBytes wr.ws).take wr.byteSize, { ws := [], j := 64 })

end Writer

end Qco.WB
