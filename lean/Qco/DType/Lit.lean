/-
Layer DT, executable literal (statement-level) model of the data-type implementations of `q_compress`:

* `data_types/floats.rs`         macro `impl_float_number!` (instances `f32`, `f64`)
* `data_types/signeds.rs`        macro `impl_signed!` (`SignedLike` + `NumberLike`; `i16 i32 i64 i128`)
* `data_types/unsigneds.rs`      macros `impl_unsigned!` (`UnsignedLike`; `u8 u16 u32 u64 u128`) and
                                 `impl_unsigned_number!` (`NumberLike`; `u16 u32 u64 u128`)
* `data_types/boolean.rs`        `SignedLike for bool`, `NumberLike for bool`
* `data_types/timestamps.rs`     macro `impl_timestamp!`: `new`, `to_total_parts` and the `NumberLike` impl
                                 (`TimestampNanos`, `TimestampMicros`)
* `data_types/timestamps_96.rs`  macro `impl_timestamp_96!`: `MIN`, `MAX`, `is_valid`, `new`, `validate` and
                                 the `NumberLike` impl (`TimestampNanos96`, `TimestampMicros96`)
* `data_types/mod.rs`            the provided methods `NumberLike::num_eq`, `read_from`, `write_to` (given
                                 the bits `reader.read(PHYSICAL_BITS)` returned / up to `writer.write`)
* `bits.rs`                      `bits_to_bytes`, `bytes_to_bits`

one definition per Rust method per macro, parametrised as the macros are, following the Rust text.

REPRESENTATION OF RUST VALUES
* `uW` (and the IEEE bits of a float, `f.to_bits()`): a `Nat` `< 2^W`.
* `iW`: the mathematical integer, an `Int` in `[-2^(W-1), 2^(W-1))`.  The operations on `iW` are the
  *documented* ones (`wrapping_add`: "computes `self + rhs`, wrapping around at the boundary of the type";
  `as uW`: reduction modulo `2^W`; `uW as iW`: the value congruent modulo `2^W` that is in range;
  unchecked `+`/`-`: panic on overflow — the harness builds with `overflow-checks = true`), NOT operations
  on two's-complement patterns: that the two agree is a theorem (`Qco/Lemmas/DTypeLit/*`), not built in.
* `bool`: `Bool`.  A timestamp struct: the `Int` it wraps.  `Vec<u8>`: `List Nat` (entries `< 256`).
* `QCompressResult<T>`, panics: `Qco.WB.R` (`ok | err kind | panic`).

WHAT IS NOT MODELLED
* `f32/f64::to_bits`, `from_bits` are the identity on IEEE bit patterns (a float *is* its pattern here, as
  in `Qco.DType`); `to_be_bytes`/`from_be_bytes` of a float are those of its bits.
* `UnsignedLike::to_f64` (`self as f64`, a hardware rounding) is not modelled.
* `Display`, `Default`, `Debug`, the `SystemTime` conversions (the latter are in `Qco/DType/Timestamps.lean`).
* the text of error messages (only the error kind is kept).

`NumImpl` (at the end) packages each macro instance as functions on the *patterns* `Qco.DType` uses
(two's-complement pattern of a signed integer / of the wrapped part count, `0/1` for bool); the 15
invocations in the source are `rustImpls`.
-/
import Qco.Bits.Words
namespace Qco.DTLit
open Qco.WB (R)

/-! ## Rust integer primitives -/

/-- `uW::MAX` -/
def uMax (W : Nat) : Nat := 2^W - 1
/-- `!x` on `uW`: every one of the `W` bits flipped -/
def bnot (W x : Nat) : Nat := x ^^^ uMax W
/-- `iW::MIN` -/
def iMin (W : Nat) : Int := -(2^(W-1) : Int)
/-- `iW::MAX` -/
def iMax (W : Nat) : Int := (2^(W-1) : Int) - 1
/-- is the mathematical integer representable in `iW` -/
def inI (W : Nat) (z : Int) : Bool := decide (iMin W ≤ z) && decide (z ≤ iMax W)
/-- `z as uW` for an integer `z` (`iW as uW`, and truncation of a wider value) -/
def asU (W : Nat) (z : Int) : Nat := (z % (2^W : Int)).toNat
/-- `x as uW` for an unsigned `x` of any width (`usize as Self`, `u128 as usize`) -/
def truncU (W x : Nat) : Nat := x % 2^W
/-- `x as iW` for `x : uW` (also: the low `W` bits of a wider unsigned, reinterpreted) -/
def asI (W x : Nat) : Int :=
  if x % 2^W < 2^(W-1) then ((x % 2^W : Nat) : Int) else ((x % 2^W : Nat) : Int) - (2^W : Int)
/-- the representative of `z` modulo `2^W` inside `iW` -/
def wrapI (W : Nat) (z : Int) : Int := (z + (2^(W-1) : Int)) % (2^W : Int) - (2^(W-1) : Int)
/-- `iW::wrapping_add` -/
def wrappingAddI (W : Nat) (a b : Int) : Int := wrapI W (a + b)
/-- `iW::wrapping_sub` -/
def wrappingSubI (W : Nat) (a b : Int) : Int := wrapI W (a - b)
/-- unchecked `a + b` on `iW` -/
def addI (W : Nat) (a b : Int) : R Int := if inI W (a + b) then .ok (a + b) else .panic
/-- unchecked `a - b` on `iW` -/
def subI (W : Nat) (a b : Int) : R Int := if inI W (a - b) then .ok (a - b) else .panic
/-- `x >> s` on `uW`: shift amounts `≥ W` overflow -/
def shrU (W x s : Nat) : R Nat := if s ≥ W then .panic else .ok (x >>> s)
/-- `x << s` on `uW`: shift amounts `≥ W` overflow, bits shifted out are lost -/
def shlU (W x s : Nat) : R Nat := if s ≥ W then .panic else .ok ((x <<< s) % 2^W)

/-! ## bytes -/

/-- `x.to_be_bytes()` of an `n`-byte unsigned -/
def toBeBytes : Nat → Nat → List Nat
  | 0, _ => []
  | n + 1, x => toBeBytes n (x / 256) ++ [x % 256]
/-- `uN::from_be_bytes(array)` -/
def fromBeBytes (bs : List Nat) : Nat := Qco.WB.beWord bs
/-- `bytes.try_into().unwrap()` into `[u8; n]`: panics unless the vector has exactly `n` entries -/
def tryIntoArray (n : Nat) (bytes : List Nat) : R (List Nat) :=
  if bytes.length = n then .ok bytes else .panic

/-- the body of `for _ in 0..8` in `bits_to_bytes`, `k` iterations left; state = (`byte`, `bits[i..]`) -/
def b2bInner : Nat → Nat × List Bool → Nat × List Bool
  | 0, s => s
  | k + 1, (byte, bits) =>
    let byte := byte * 2 % 256                      -- `byte <<= 1` on `u8`
    match bits with
    | [] => b2bInner k (byte, [])                   -- `i < bits.len()` is false
    | b :: rest => b2bInner k ((if b then byte ||| 1 else byte), rest)   -- `byte |= 1`, `i += 1`

/-- `while i < bits.len() { …; res.push(byte) }`; the fuel is the number of bits left (every iteration
consumes at least one, `bitsToBytesF_fuel` in `Qco/Lemmas/DTypeLit/Bytes.lean`) -/
def bitsToBytesF : Nat → List Bool → List Nat
  | 0, _ => []
  | f + 1, bits =>
    if bits.isEmpty then []
    else
      let s := b2bInner 8 (0, bits)
      s.1 :: bitsToBytesF f s.2

/-- `bits::bits_to_bytes` -/
def bitsToBytes (bits : List Bool) : List Nat := bitsToBytesF bits.length bits

/-- `bits::bytes_to_bits`: `for b in bytes { for i in 0..8 { res.push(b & (1 << (7 - i)) > 0) } }` -/
def bytesToBits (bytes : List Nat) : List Bool :=
  bytes.flatMap fun b => (List.range 8).map fun i => decide (b &&& (1 <<< (7 - i)) > 0)

/-! ## `impl_float_number!($t, $signed, $unsigned, $bits, $sign_bit_mask, $header_byte)`
`W` = the width of `$t` = of `$unsigned` = of `$signed` (the casts and `from_bits` type-check only then). -/
namespace FloatM

/-- `self.to_bits() as Self::Signed` -/
def toSigned (W : Nat) (self : Nat) : Int := asI W self
/-- `Self::from_bits(signed as Self::Unsigned)` -/
def fromSigned (W : Nat) (signed : Int) : Nat := asU W signed
/-- `to_unsigned` -/
def toUnsigned (W mask : Nat) (self : Nat) : Nat :=
  let memLayout := self
  if memLayout &&& mask > 0 then bnot W memLayout      -- negative float
  else memLayout ^^^ mask                              -- positive float
/-- `from_unsigned` -/
def fromUnsigned (W mask : Nat) (off : Nat) : Nat :=
  if off &&& mask > 0 then off ^^^ mask                -- positive float
  else bnot W off                                      -- negative float
/-- `self.to_be_bytes().to_vec()` -/
def toBytes (W : Nat) (self : Nat) : List Nat := toBeBytes (W / 8) self
/-- `Ok(Self::from_be_bytes(bytes.try_into().unwrap()))` -/
def fromBytes (W : Nat) (bytes : List Nat) : R Nat :=
  match tryIntoArray (W / 8) bytes with
  | .ok a => .ok (fromBeBytes a)
  | .err k => .err k
  | .panic => .panic

end FloatM

/-! ## `impl_signed!($t, $unsigned, $header_byte)`; `W = $t::BITS` -/
namespace SignedM

/-- `SignedLike::ZERO` -/
def zero : Int := 0
/-- `SignedLike::wrapping_add` -/
def wrappingAdd (W : Nat) (self other : Int) : Int := wrappingAddI W self other
/-- `SignedLike::wrapping_sub` -/
def wrappingSub (W : Nat) (self other : Int) : Int := wrappingSubI W self other
/-- `const PHYSICAL_BITS: usize = Self::BITS as usize` -/
def physicalBits (W : Nat) : Nat := W
def toSigned (self : Int) : Int := self
def fromSigned (signed : Int) : Int := signed
/-- `self.wrapping_sub(Self::MIN) as $unsigned` -/
def toUnsigned (W : Nat) (self : Int) : Nat := asU W (wrappingSubI W self (iMin W))
/-- `Self::MIN.wrapping_add(off as $t)` -/
def fromUnsigned (W : Nat) (off : Nat) : Int := wrappingAddI W (iMin W) (asI W off)
/-- `self.to_be_bytes().to_vec()` (the bytes of the two's-complement pattern `self as uW`) -/
def toBytes (W : Nat) (self : Int) : List Nat := toBeBytes (W / 8) (asU W self)
/-- `Ok(Self::from_be_bytes(bytes.try_into().unwrap()))` -/
def fromBytes (W : Nat) (bytes : List Nat) : R Int :=
  match tryIntoArray (W / 8) bytes with
  | .ok a => .ok (asI W (fromBeBytes a))
  | .err k => .err k
  | .panic => .panic

end SignedM

/-! ## `impl_unsigned!($t)`: `UnsignedLike`; `W = $t::BITS`, `usize::BITS = 64` -/
namespace UnsignedLikeM

def zero : Nat := 0
def one : Nat := 1
/-- `const MAX: Self = Self::MAX` -/
def max (W : Nat) : Nat := uMax W
/-- `const BITS: usize = Self::BITS as usize` -/
def bits (W : Nat) : Nat := W
/-- `from_word(word: usize) = word as Self` — an `as` cast: it truncates, it never panics (the trait's doc
comment "Panics if the conversion is impossible" does not describe this implementation) -/
def fromWord (W : Nat) (word : Nat) : Nat := truncU W word

/-- `rshift_word` -/
def rshiftWord (W : Nat) (self shift : Nat) : R Nat :=
  if W ≤ 64 then                                            -- `Self::BITS <= usize::BITS`
    shrU 64 (truncU 64 self) shift                          -- `(self as usize) >> shift`
  else
    match shrU W self shift with                            -- `self >> shift`
    | .ok y => .ok (truncU 64 (y &&& truncU W (uMax 64)))   -- `(… & (usize::MAX as Self)) as usize`
    | .err k => .err k
    | .panic => .panic

/-- `lshift_word` -/
def lshiftWord (W : Nat) (self shift : Nat) : R Nat :=
  if W ≤ 64 then
    shlU 64 (truncU 64 self) shift                          -- `(self as usize) << shift`
  else
    match shlU W self shift with                            -- `self << shift`
    | .ok y => .ok (truncU 64 (y &&& truncU W (uMax 64)))
    | .err k => .err k
    | .panic => .panic

end UnsignedLikeM

/-! ## `impl_unsigned_number!($t, $signed, $header_byte)`; `W = $t::BITS` -/
namespace UnsignedM

def physicalBits (W : Nat) : Nat := W
/-- `(self as $signed).wrapping_add(<$signed>::MIN)` -/
def toSigned (W : Nat) (self : Nat) : Int := wrappingAddI W (asI W self) (iMin W)
/-- `signed.wrapping_sub(<$signed>::MIN) as Self` -/
def fromSigned (W : Nat) (signed : Int) : Nat := asU W (wrappingSubI W signed (iMin W))
def toUnsigned (self : Nat) : Nat := self
def fromUnsigned (off : Nat) : Nat := off
def toBytes (W : Nat) (self : Nat) : List Nat := toBeBytes (W / 8) self
def fromBytes (W : Nat) (bytes : List Nat) : R Nat :=
  match tryIntoArray (W / 8) bytes with
  | .ok a => .ok (fromBeBytes a)
  | .err k => .err k
  | .panic => .panic

end UnsignedM

/-! ## `boolean.rs` -/
namespace BoolM

def zero : Bool := false
/-- `self ^ other` -/
def wrappingAdd (self other : Bool) : Bool := self ^^ other
/-- `self ^ other` -/
def wrappingSub (self other : Bool) : Bool := self ^^ other
def headerByte : Nat := 7
def physicalBits : Nat := 8
/-- `self as u8` -/
def toUnsigned (self : Bool) : Nat := self.toNat
/-- `off > 0` -/
def fromUnsigned (off : Nat) : Bool := decide (off > 0)
def toSigned (self : Bool) : Bool := self
def fromSigned (signed : Bool) : Bool := signed
/-- `vec![self as u8]` -/
def toBytes (self : Bool) : List Nat := [self.toNat]
/-- `Ok(u8::from_be_bytes(bytes.try_into().unwrap()) != 0)` -/
def fromBytes (bytes : List Nat) : R Bool :=
  match tryIntoArray 1 bytes with
  | .ok a => .ok (fromBeBytes a != 0)
  | .err k => .err k
  | .panic => .panic

end BoolM

/-! ## `impl_timestamp!($t, $parts_per_sec, $header_byte, $precision)`: the struct wraps an `i64` -/
namespace Ts64M

/-- `pub fn new(parts: i64) -> Self { Self(parts) }` -/
def new (parts : Int) : Int := parts
/-- `to_total_parts` -/
def toTotalParts (self : Int) : Int := self
def physicalBits : Nat := 64
/-- `self.0.wrapping_sub(i64::MIN) as u64` -/
def toUnsigned (self : Int) : Nat := asU 64 (wrappingSubI 64 self (iMin 64))
/-- `Self(i64::MIN.wrapping_add(off as i64))` -/
def fromUnsigned (off : Nat) : Int := wrappingAddI 64 (iMin 64) (asI 64 off)
def toSigned (self : Int) : Int := self
def fromSigned (signed : Int) : Int := signed
/-- `self.0.to_be_bytes().to_vec()` -/
def toBytes (self : Int) : List Nat := toBeBytes 8 (asU 64 self)
/-- `Ok(Self(i64::from_be_bytes(bytes.try_into().unwrap())))` -/
def fromBytes (bytes : List Nat) : R Int :=
  match tryIntoArray 8 bytes with
  | .ok a => .ok (asI 64 (fromBeBytes a))
  | .err k => .err k
  | .panic => .panic

end Ts64M

/-! ## `impl_timestamp_96!($t, $parts_per_sec, $header_byte, $precision)`: the struct wraps an `i128`;
`pps = $parts_per_sec` (a `u32`) -/
namespace Ts96M

/-- `const MAX: i128 = $parts_per_sec as i128 * (i64::MAX as i128 + 1) - 1` (a constant expression:
an overflow would be a compile error; there is none for `pps < 2^32`) -/
def max (pps : Nat) : Int := (pps : Int) * (iMax 64 + 1) - 1
/-- `const MIN: i128 = $parts_per_sec as i128 * (i64::MIN as i128)` -/
def min (pps : Nat) : Int := (pps : Int) * iMin 64
/-- `parts <= Self::MAX && parts >= Self::MIN` -/
def isValid (pps : Nat) (parts : Int) : Bool := decide (parts ≤ max pps) && decide (parts ≥ min pps)
/-- `new`: `invalid_argument` outside the range -/
def new (pps : Nat) (parts : Int) : R Int :=
  if isValid pps parts then .ok parts else .err "InvalidArgument"
/-- `validate`: `corruption` outside the range -/
def validate (pps : Nat) (self : Int) : R Unit :=
  if isValid pps self then .ok () else .err "Corruption"
def toTotalParts (self : Int) : Int := self
def physicalBits : Nat := 96
/-- `self.0.wrapping_sub(i128::MIN) as u128` -/
def toUnsigned (self : Int) : Nat := asU 128 (wrappingSubI 128 self (iMin 128))
/-- `Self(i128::MIN.wrapping_add(off as i128))` — no range check -/
def fromUnsigned (off : Nat) : Int := wrappingAddI 128 (iMin 128) (asI 128 off)
def toSigned (self : Int) : Int := self
/-- `Self(signed)` — no range check -/
def fromSigned (signed : Int) : Int := signed
/-- `((self.0 - Self::MIN) as u128).to_be_bytes()[4..].to_vec()`: the subtraction is unchecked `i128`
arithmetic; the 4 most significant of the 16 bytes are dropped whatever they hold -/
def toBytes (pps : Nat) (self : Int) : R (List Nat) :=
  match subI 128 self (min pps) with
  | .ok diff => .ok ((toBeBytes 16 (asU 128 diff)).drop 4)
  | .err k => .err k
  | .panic => .panic
/-- ```
let mut full_bytes = vec![0; 4];
full_bytes.extend(bytes);
let parts = (u128::from_be_bytes(full_bytes.try_into().unwrap()) as i128) + Self::MIN;
Self::new(parts)
``` -/
def fromBytes (pps : Nat) (bytes : List Nat) : R Int :=
  let fullBytes := List.replicate 4 0 ++ bytes
  match tryIntoArray 16 fullBytes with
  | .err k => .err k
  | .panic => .panic
  | .ok a =>
    match addI 128 (asI 128 (fromBeBytes a)) (min pps) with
    | .err k => .err k
    | .panic => .panic
    | .ok parts => new pps parts

end Ts96M

/-! ## the provided methods of `NumberLike` (`data_types/mod.rs`) -/

/-- an implementation of `NumberLike` (with the `SignedLike` operations of its `Signed` companion) on
*patterns*: a value of the type, and a value of its signed companion, is given as the `Nat` pattern
`Qco.DType` uses — the IEEE bits of a float, the value of an unsigned, `asU W` (two's complement) of a
signed integer or of the part count a timestamp wraps, `0/1` for a bool. -/
structure NumImpl where
  /-- `$t` as written in the macro invocation -/
  rustName : String
  headerByte : Nat
  physicalBits : Nat
  /-- `<Self::Unsigned as UnsignedLike>::BITS` -/
  unsignedBits : Nat
  toUnsigned : Nat → Nat
  fromUnsigned : Nat → Nat
  toSigned : Nat → Nat
  fromSigned : Nat → Nat
  toBytes : Nat → R (List Nat)
  fromBytes : List Nat → R Nat
  /-- `<Self::Signed as SignedLike>::wrapping_add` -/
  sWrappingAdd : Nat → Nat → Nat
  /-- `<Self::Signed as SignedLike>::wrapping_sub` -/
  sWrappingSub : Nat → Nat → Nat

def R.map {α β : Type} (f : α → β) : R α → R β
  | .ok a => .ok (f a)
  | .err k => .err k
  | .panic => .panic

namespace NumImpl

/-- `num_eq`: `self.to_unsigned() == other.to_unsigned()` -/
def numEq (I : NumImpl) (a b : Nat) : Bool := I.toUnsigned a == I.toUnsigned b

/-- `read_from` after `let bools = reader.read(Self::PHYSICAL_BITS)?`:
`Self::from_bytes(bits::bits_to_bytes(bools))` -/
def readFromBits (I : NumImpl) (bools : List Bool) : R Nat := I.fromBytes (bitsToBytes bools)

/-- `write_to`: the argument of `writer.write`, `&bits::bytes_to_bits(self.to_bytes())` -/
def writeToBits (I : NumImpl) (x : Nat) : R (List Bool) := R.map bytesToBits (I.toBytes x)

end NumImpl

/-- the pattern of a `bool` -/
def boolPat (b : Bool) : Nat := b.toNat
/-- the `bool` with a given pattern (`0` or `1`) -/
def patBool (x : Nat) : Bool := x != 0

/-- `impl_float_number!($t, i<W>, u<W>, $bits, $sign_bit_mask, $header_byte)` -/
def floatImpl (name : String) (W bits mask hb : Nat) : NumImpl where
  rustName := name
  headerByte := hb
  physicalBits := bits
  unsignedBits := UnsignedLikeM.bits W
  toUnsigned := FloatM.toUnsigned W mask
  fromUnsigned := FloatM.fromUnsigned W mask
  toSigned x := asU W (FloatM.toSigned W x)
  fromSigned s := FloatM.fromSigned W (asI W s)
  toBytes x := .ok (FloatM.toBytes W x)
  fromBytes := FloatM.fromBytes W
  sWrappingAdd a b := asU W (SignedM.wrappingAdd W (asI W a) (asI W b))
  sWrappingSub a b := asU W (SignedM.wrappingSub W (asI W a) (asI W b))

/-- `impl_signed!(i<W>, u<W>, $header_byte)` -/
def signedImpl (name : String) (W hb : Nat) : NumImpl where
  rustName := name
  headerByte := hb
  physicalBits := SignedM.physicalBits W
  unsignedBits := UnsignedLikeM.bits W
  toUnsigned x := SignedM.toUnsigned W (asI W x)
  fromUnsigned u := asU W (SignedM.fromUnsigned W u)
  toSigned x := asU W (SignedM.toSigned (asI W x))
  fromSigned s := asU W (SignedM.fromSigned (asI W s))
  toBytes x := .ok (SignedM.toBytes W (asI W x))
  fromBytes bytes := R.map (asU W) (SignedM.fromBytes W bytes)
  sWrappingAdd a b := asU W (SignedM.wrappingAdd W (asI W a) (asI W b))
  sWrappingSub a b := asU W (SignedM.wrappingSub W (asI W a) (asI W b))

/-- `impl_unsigned_number!(u<W>, i<W>, $header_byte)` -/
def unsignedImpl (name : String) (W hb : Nat) : NumImpl where
  rustName := name
  headerByte := hb
  physicalBits := UnsignedM.physicalBits W
  unsignedBits := UnsignedLikeM.bits W
  toUnsigned := UnsignedM.toUnsigned
  fromUnsigned := UnsignedM.fromUnsigned
  toSigned x := asU W (UnsignedM.toSigned W x)
  fromSigned s := UnsignedM.fromSigned W (asI W s)
  toBytes x := .ok (UnsignedM.toBytes W x)
  fromBytes := UnsignedM.fromBytes W
  sWrappingAdd a b := asU W (SignedM.wrappingAdd W (asI W a) (asI W b))
  sWrappingSub a b := asU W (SignedM.wrappingSub W (asI W a) (asI W b))

/-- `impl NumberLike for bool` (`Unsigned = u8`, `Signed = bool`) -/
def boolImpl : NumImpl where
  rustName := "bool"
  headerByte := BoolM.headerByte
  physicalBits := BoolM.physicalBits
  unsignedBits := UnsignedLikeM.bits 8
  toUnsigned x := BoolM.toUnsigned (patBool x)
  fromUnsigned u := boolPat (BoolM.fromUnsigned u)
  toSigned x := boolPat (BoolM.toSigned (patBool x))
  fromSigned s := boolPat (BoolM.fromSigned (patBool s))
  toBytes x := .ok (BoolM.toBytes (patBool x))
  fromBytes bytes := R.map boolPat (BoolM.fromBytes bytes)
  sWrappingAdd a b := boolPat (BoolM.wrappingAdd (patBool a) (patBool b))
  sWrappingSub a b := boolPat (BoolM.wrappingSub (patBool a) (patBool b))

/-- `impl_timestamp!($t, $parts_per_sec, $header_byte, _)` (`Unsigned = u64`, `Signed = i64`) -/
def ts64Impl (name : String) (_pps hb : Nat) : NumImpl where
  rustName := name
  headerByte := hb
  physicalBits := Ts64M.physicalBits
  unsignedBits := UnsignedLikeM.bits 64
  toUnsigned x := Ts64M.toUnsigned (asI 64 x)
  fromUnsigned u := asU 64 (Ts64M.fromUnsigned u)
  toSigned x := asU 64 (Ts64M.toSigned (asI 64 x))
  fromSigned s := asU 64 (Ts64M.fromSigned (asI 64 s))
  toBytes x := .ok (Ts64M.toBytes (asI 64 x))
  fromBytes bytes := R.map (asU 64) (Ts64M.fromBytes bytes)
  sWrappingAdd a b := asU 64 (SignedM.wrappingAdd 64 (asI 64 a) (asI 64 b))
  sWrappingSub a b := asU 64 (SignedM.wrappingSub 64 (asI 64 a) (asI 64 b))

/-- `impl_timestamp_96!($t, $parts_per_sec, $header_byte, _)` (`Unsigned = u128`, `Signed = i128`) -/
def ts96Impl (name : String) (pps hb : Nat) : NumImpl where
  rustName := name
  headerByte := hb
  physicalBits := Ts96M.physicalBits
  unsignedBits := UnsignedLikeM.bits 128
  toUnsigned x := Ts96M.toUnsigned (asI 128 x)
  fromUnsigned u := asU 128 (Ts96M.fromUnsigned u)
  toSigned x := asU 128 (Ts96M.toSigned (asI 128 x))
  fromSigned s := asU 128 (Ts96M.fromSigned (asI 128 s))
  toBytes x := Ts96M.toBytes pps (asI 128 x)
  fromBytes bytes := R.map (asU 128) (Ts96M.fromBytes pps bytes)
  sWrappingAdd a b := asU 128 (SignedM.wrappingAdd 128 (asI 128 a) (asI 128 b))
  sWrappingSub a b := asU 128 (SignedM.wrappingSub 128 (asI 128 a) (asI 128 b))

/-- `BILLION_I64`, `BILLION_U32` -/
def billion : Nat := 1000000000

/-- the macro invocations of the source, file by file (features `timestamps_96` on) -/
def rustImpls : List NumImpl := [
  -- floats.rs
  floatImpl "f32" 32 32 (1 <<< 31) 6,        -- impl_float_number!(f32, i32, u32, 32, 1_u32 << 31, 6);
  floatImpl "f64" 64 64 (1 <<< 63) 5,        -- impl_float_number!(f64, i64, u64, 64, 1_u64 << 63, 5);
  -- signeds.rs
  signedImpl "i16" 16 13,                    -- impl_signed!(i16, u16, 13);
  signedImpl "i32" 32 3,                     -- impl_signed!(i32, u32, 3);
  signedImpl "i64" 64 1,                     -- impl_signed!(i64, u64, 1);
  signedImpl "i128" 128 10,                  -- impl_signed!(i128, u128, 10);
  -- unsigneds.rs
  unsignedImpl "u16" 16 12,                  -- impl_unsigned_number!(u16, i16, 12);
  unsignedImpl "u32" 32 4,                   -- impl_unsigned_number!(u32, i32, 4);
  unsignedImpl "u64" 64 2,                   -- impl_unsigned_number!(u64, i64, 2);
  unsignedImpl "u128" 128 11,                -- impl_unsigned_number!(u128, i128, 11);
  -- boolean.rs
  boolImpl,
  -- timestamps.rs
  ts64Impl "TimestampNanos" billion 14,      -- impl_timestamp!(TimestampNanos, BILLION_I64, 14, "nanosecond");
  ts64Impl "TimestampMicros" 1000000 15,     -- impl_timestamp!(TimestampMicros, 1_000_000_i64, 15, "microsecond");
  -- timestamps_96.rs
  ts96Impl "TimestampNanos96" billion 8,     -- impl_timestamp_96!(TimestampNanos96, BILLION_U32, 8, "nanosecond");
  ts96Impl "TimestampMicros96" 1000000 9     -- impl_timestamp_96!(TimestampMicros96, 1_000_000_u32, 9, "microsecond");
]

/-- the implementation whose `HEADER_BYTE` is `hb` -/
def implByHeader (hb : Nat) : Option NumImpl := rustImpls.find? fun I => I.headerByte == hb

/-- the widths `impl_unsigned!` is invoked with (`u8 u16 u32 u64 u128`) -/
def unsignedLikeWidths : List Nat := [8, 16, 32, 64, 128]

end Qco.DTLit
