/-
Layer D: the data types of q_compress as maps on bit patterns.

A *value* of a data type is its bit pattern, a `Nat < 2^W` (`W` = bits of the type's unsigned
companion): two's complement for the signed integers and all timestamps (for the 96-bit
timestamps the pattern is that of the `i128` part count), IEEE bits for floats, `0/1` for bool.
Import-free on purpose (the driver executable links against it).
-/
namespace Qco

inductive Kind where
  | uint | int | float | bool | ts96
  deriving DecidableEq, Repr, Inhabited

structure DType where
  name : String
  headerByte : Nat
  /-- `P`: bits of the raw representation used in metadata (`NumberLike::PHYSICAL_BITS`) -/
  physBits : Nat
  /-- `W`: bits of `T::Unsigned` -/
  uBits : Nat
  kind : Kind
  /-- parts per second (96-bit timestamps), otherwise 0 -/
  pps : Nat
  deriving Repr, Inhabited, DecidableEq

namespace DType

/-- `2^W` -/
def M (d : DType) : Nat := 2 ^ d.uBits
/-- `2^(W-1)`, the pattern of the sign bit -/
def H (d : DType) : Nat := 2 ^ (d.uBits - 1)

/-- `to_unsigned` on patterns -/
def toU (d : DType) (x : Nat) : Nat :=
  match d.kind with
  | .uint => x
  | .int => (x + d.H) % d.M
  | .ts96 => (x + d.H) % d.M
  | .float => if d.H ≤ x then d.M - 1 - x else x + d.H
  | .bool => if x = 0 then 0 else 1

/-- `from_unsigned` on patterns -/
def fromU (d : DType) (u : Nat) : Nat :=
  match d.kind with
  | .uint => u
  | .int => (u + d.H) % d.M
  | .ts96 => (u + d.H) % d.M
  | .float => if d.H ≤ u then u - d.H else d.M - 1 - u
  | .bool => if u = 0 then 0 else 1

/-- `to_signed`: the pattern of the signed companion -/
def toS (d : DType) (x : Nat) : Nat :=
  match d.kind with
  | .uint => (x + d.H) % d.M
  | _ => x

/-- `from_signed` -/
def fromS (d : DType) (s : Nat) : Nat :=
  match d.kind with
  | .uint => (s + d.H) % d.M
  | _ => s

/-- the signed companion type (`T::Signed`): `bool` for bool, the `W`-bit signed integer otherwise -/
def signed (d : DType) : DType :=
  match d.kind with
  | .bool => d
  | _ => { name := "i" ++ toString d.uBits, headerByte := 0, physBits := d.uBits, uBits := d.uBits,
           kind := .int, pps := 0 }

/-- wrapping addition of the signed companion (`xor` for bool) -/
def sAdd (d : DType) (a b : Nat) : Nat :=
  match d.kind with
  | .bool => if a = b then 0 else 1
  | _ => (a + b) % d.M

/-- wrapping subtraction `a - b` of the signed companion (`xor` for bool) -/
def sSub (d : DType) (a b : Nat) : Nat :=
  match d.kind with
  | .bool => if a = b then 0 else 1
  | _ => (a + (d.M - b % d.M)) % d.M

/-- offset of the 96-bit timestamp raw representation: `raw = parts - MIN`, `MIN = -pps·2^63` -/
def tsHalf (d : DType) : Nat := d.pps * 2^63

/-- which unsigned-domain values are images of valid values of the type -/
def uValid (d : DType) (u : Nat) : Prop :=
  match d.kind with
  | .bool => u ≤ 1
  | .ts96 => d.H ≤ u + d.tsHalf ∧ u < d.H + d.tsHalf
  | _ => u < d.M

instance (d : DType) (u : Nat) : Decidable (d.uValid u) := by
  unfold uValid; cases d.kind <;> infer_instance

/-- raw `P`-bit metadata representation (`to_bytes`, big-endian) of the value whose unsigned image is `u` -/
def uToRaw (d : DType) (u : Nat) : Nat :=
  match d.kind with
  | .ts96 => u + d.tsHalf - d.H
  | .bool => if u = 0 then 0 else 1
  | _ => d.fromU u

/-- `to_unsigned ∘ from_bytes` on a raw `P`-bit field; `none` = the value is rejected -/
def rawToU (d : DType) (raw : Nat) : Option Nat :=
  match d.kind with
  | .ts96 => if raw < 2 * d.tsHalf then some (raw + d.H - d.tsHalf) else none
  | .bool => some (if raw = 0 then 0 else 1)
  | _ => some (d.toU raw)

end DType
end Qco
