/-
Layer D: timestamps <-> SystemTime, modelling the arithmetic of timestamps.rs / timestamps_96.rs
step by step with the fixed-width ranges explicit (an overflowing *unchecked* operator would be the
outcome `panic`, as in a debug build; `checked_*` and `wrapping_*` are what they say).

A SystemTime is what `duration_since(UNIX_EPOCH)` shows of it: `before = false`: EPOCH + (secs, nanos);
`before = true`: EPOCH − (secs, nanos) with (secs, nanos) ≠ (0, 0); `secs < 2^64`, `nanos < 10^9`.
-/
namespace Qco
namespace TS

inductive Outcome (α : Type) where
  | ok (a : α)
  | invalid          -- QCompressError::invalid_argument
  | corrupt          -- QCompressError::corruption (Timestamp96::validate)
  | panic            -- arithmetic overflow in an unchecked operator
  deriving Repr, DecidableEq

structure SysTime where
  before : Bool
  secs : Nat
  nanos : Nat
  deriving Repr, DecidableEq

def billion : Int := 1000000000
def i64Min : Int := -(2^63)
def i64Max : Int := 2^63 - 1
def inI64 (x : Int) : Bool := decide (i64Min ≤ x) && decide (x ≤ i64Max)

/-- `u64 as i64` -/
def asI64 (n : Nat) : Int := if n < 2^63 then (n : Int) else (n : Int) - 2^64
/-- `i64::wrapping_neg` -/
def wrappingNeg (x : Int) : Int := if x = i64Min then i64Min else -x
/-- unchecked `a - b` on i64 -/
def subI64 (a b : Int) : Outcome Int := if inI64 (a - b) then .ok (a - b) else .panic

/-- the `(seconds, subsec_nanos)` pair both conversions start from -/
def secsAndNanos (st : SysTime) : Outcome (Int × Int) :=
  if !st.before then .ok (asI64 st.secs, (st.nanos : Int))
  else
    let ceilSecs := wrappingNeg (asI64 st.secs)
    if st.nanos = 0 then .ok (ceilSecs, 0)
    else match subI64 ceilSecs 1 with
      | .ok s => .ok (s, billion - st.nanos)
      | .invalid => .invalid
      | .corrupt => .corrupt
      | .panic => .panic

/-- `Timestamp::from_secs_and_nanos` (64-bit): the sum is formed in i128 (cannot overflow) and
then range-checked with `i64::try_from` -/
def fromSecsAndNanos64 (pps : Int) (seconds subsec : Int) : Outcome Int :=
  let r := seconds * pps + subsec / (billion / pps)
  if inI64 r then .ok r else .invalid

/-- `TryFrom<SystemTime> for Timestamp{Nanos,Micros}` -/
def ofSysTime64 (pps : Int) (st : SysTime) : Outcome Int :=
  match secsAndNanos st with
  | .ok (s, n) => fromSecsAndNanos64 pps s n
  | .invalid => .invalid
  | .corrupt => .corrupt
  | .panic => .panic

/-- `From<SystemTime> for Timestamp{Nanos,Micros}96`: i128 arithmetic, cannot overflow -/
def ofSysTime96 (pps : Int) (st : SysTime) : Outcome Int :=
  match secsAndNanos st with
  | .ok (s, n) => .ok (s * pps + n / (billion / pps))
  | .invalid => .invalid
  | .corrupt => .corrupt
  | .panic => .panic

/-- `(seconds, subsec_nanos)` of a part count: euclidean division -/
def toSecsAndNanos (pps : Int) (parts : Int) : Int × Int :=
  (parts / pps, (parts % pps) * (billion / pps))

/-- building the SystemTime back from `(seconds, subsec_nanos)`; `neg64` = the 64-bit code's
`(-seconds) as u64` (unchecked negation), the 96-bit code uses `unsigned_abs` -/
def sysTimeOf (checkedNeg : Bool) (seconds subsec : Int) : Outcome SysTime :=
  if seconds ≥ 0 then .ok { before := false, secs := seconds.toNat, nanos := subsec.toNat }
  else if subsec = 0 then
    if checkedNeg && seconds = i64Min then .panic
    else .ok { before := true, secs := (-seconds).toNat, nanos := 0 }
  else
    .ok { before := true, secs := (-(seconds + 1)).toNat, nanos := (billion - subsec).toNat }

/-- `From<Timestamp> for SystemTime` (64-bit) -/
def toSysTime64 (pps : Int) (parts : Int) : Outcome SysTime :=
  let (s, n) := toSecsAndNanos pps parts
  sysTimeOf true s n

def max96 (pps : Int) : Int := pps * 2^63 - 1
def min96 (pps : Int) : Int := pps * (-(2^63))
def valid96 (pps : Int) (parts : Int) : Bool := decide (parts ≤ max96 pps) && decide (min96 pps ≤ parts)

/-- `TryFrom<Timestamp96> for SystemTime`: validate, then convert -/
def toSysTime96 (pps : Int) (parts : Int) : Outcome SysTime :=
  if !valid96 pps parts then .corrupt
  else
    let (s, n) := toSecsAndNanos pps parts
    sysTimeOf false s n

/-- `Timestamp96::new` -/
def new96 (pps : Int) (parts : Int) : Outcome Int := if valid96 pps parts then .ok parts else .invalid

/-- the instant in nanoseconds since the epoch (the meaning of a SysTime) -/
def SysTime.instant (st : SysTime) : Int :=
  if st.before then -((st.secs : Int) * billion + st.nanos) else (st.secs : Int) * billion + st.nanos

end TS
end Qco
