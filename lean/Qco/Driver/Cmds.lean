/-
Driver commands (not part of the model): parse a request line, evaluate model definitions, print.
The GCD field width `gb` is instantiated here with hardware floats, as deployed readers do.
-/
import Qco.Driver.Hex
import Qco.Spec.File
namespace Qco.Driver
open Qco

/-- `⌈log2 (f64 range)⌉` as deployed readers compute it (`-inf as usize = 0`) -/
def gbFloat (r : Nat) : Nat :=
  if r = 0 then 0 else (Float.ofNat r).log2.ceil.toUInt64.toNat

def resTag {α : Type} : Res α → String
  | .ok _ _ => "ok"
  | .insufficient => "insufficient"
  | .corrupt => "corrupt"
  | .compat => "compat"

def flagsStr (f : Flags) : String :=
  s!"{f.use5.toNat},{f.order},{f.minCount.toNat},{f.gcds.toNat}"

def optStr : Option Nat → String
  | none => "-"
  | some v => toString v

def bitsStr (bs : Bits) : String := String.ofList (bs.map fun b => if b then '1' else '0')

def prefixStr (p : Prefix) : String :=
  s!"{p.count}:{Hex.ofNat p.lower}:{Hex.ofNat p.upper}:{bitsStr p.code}:{optStr p.jump}:{Hex.ofNat p.gcd}"

def metaStr (m : ChunkMeta) : String :=
  s!"n={m.n} body={m.bodyBytes} moments={",".intercalate (m.moments.map Hex.ofNat)} common={(m.commonGcd.map Hex.ofNat).getD "-"} prefixes={";".intercalate (m.prefixes.map prefixStr)}"

def valsStr (vs : List Nat) : String := ",".intercalate (vs.map Hex.ofNat)

def cmdDec (args : List String) : String :=
  match args with
  | [dt, hex] =>
    match Frozen.dtypeByName dt with
    | none => "bad-dtype"
    | some d =>
      match decodeFile gbFloat d (Hex.toBits hex) with
      | .ok f rest =>
        let chunks := f.chunks.map fun c => s!"{metaStr c.cm} vals={valsStr (chunkVals d f.flags c)}"
        s!"ok flags={flagsStr f.flags} rest={rest.length} nchunks={f.chunks.length} | " ++ " | ".intercalate chunks
      | r => resTag r
  | _ => "bad-args"

def padHex (digits : Nat) (s : String) : String :=
  String.ofList (List.replicate (digits - s.length) '0') ++ s

/-- `map <dt> <pattern>`: the six map observables, in the harness's format -/
def cmdMap (args : List String) : String :=
  match args with
  | [dt, hex] =>
    match Frozen.dtypeByName dt with
    | none => "bad-dtype"
    | some d =>
      let x := Hex.toNat hex
      let u := d.toU x
      let s := d.toS x
      let raw := d.uToRaw u
      let fb := match d.rawToU raw with
        | some u' => Hex.ofNat (d.fromU u')
        | none => "err:InvalidArgument"
      s!"u={Hex.ofNat u} s={Hex.ofNat s} bytes={padHex (d.physBits / 4) (Hex.ofNat raw)} fu={Hex.ofNat (d.fromU u)} fs={Hex.ofNat (d.fromS s)} fb={fb}"
  | _ => "bad-args"

def cmdMapU (args : List String) : String :=
  match args with
  | [dt, hex] =>
    match Frozen.dtypeByName dt with
    | none => "bad-dtype"
    | some d =>
      let u := Hex.toNat hex
      let x := d.fromU u
      s!"x={Hex.ofNat x} u={Hex.ofNat (d.toU x)}"
  | _ => "bad-args"

def cmdRawBytes (args : List String) : String :=
  match args with
  | [dt, hex] =>
    match Frozen.dtypeByName dt with
    | none => "bad-dtype"
    | some d =>
      match d.rawToU (Hex.toNat hex) with
      | some u => s!"ok {Hex.ofNat u}"
      | none => "err InvalidArgument"
  | _ => "bad-args"

def answer (line : String) : String :=
  match line.trimAscii.toString.splitOn " " with
  | "dec" :: args => cmdDec args
  | "map" :: args => cmdMap args
  | "mapu" :: args => cmdMapU args
  | "rawbytes" :: args => cmdRawBytes args
  | _ => "bad-op"

end Qco.Driver
