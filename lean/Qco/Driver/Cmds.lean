/-
Driver commands (not part of the model): parse a request line, evaluate model definitions, print.
The GCD field width `gb` is instantiated here with hardware floats, as deployed readers do.
-/
import Qco.Driver.Hex
import Qco.Spec.File
import Qco.Train.WFc
import Qco.Train.Model
import Qco.Train.Huffman
import Qco.Op.NumDec
import Qco.Op.BodyWriter
import Qco.Op.Decomp
import Qco.Glue.Auto
import Qco.Bits.Script
import Qco.Glue.Cli
import Qco.Op.Comp
import Qco.DType.Timestamps
import Qco.Driver.FloatFns
import Qco.Op.CompLit
import Qco.Op.DecompLit
import Qco.Driver.LitTrain
namespace Qco.Driver
open Qco

/-- `⌈log2 (f64 range)⌉` as deployed readers compute it (`-inf as usize = 0`) -/
def gbFloat (r : Nat) : Nat :=
  if r = 0 then 0 else (Float.ofNat r).log2.ceil.toUInt64.toNat

def resTag {α : Type} : Res α → String
  | .ok _ _ => "ok"
  | .insufficient => "insufficient"
  | .corrupt => "corrupt"
  | .compat => "compat"

def flagsStr (f : Flags) : String :=
  s!"{f.use5.toNat},{f.order},{f.minCount.toNat},{f.gcds.toNat}"

def optStr : Option Nat → String
  | none => "-"
  | some v => toString v

def bitsStr (bs : Bits) : String := String.ofList (bs.map fun b => if b then '1' else '0')

def prefixStr (p : Prefix) : String :=
  s!"{p.count}:{Hex.ofNat p.lower}:{Hex.ofNat p.upper}:{bitsStr p.code}:{optStr p.jump}:{Hex.ofNat p.gcd}"

def metaStr (m : ChunkMeta) : String :=
  s!"n={m.n} body={m.bodyBytes} moments={",".intercalate (m.moments.map Hex.ofNat)} common={(m.commonGcd.map Hex.ofNat).getD "-"} prefixes={";".intercalate (m.prefixes.map prefixStr)}"

def valsStr (vs : List Nat) : String := ",".intercalate (vs.map Hex.ofNat)

def cmdDec (args : List String) : String :=
  match args with
  | [dt, hex] =>
    match Frozen.dtypeByName dt with
    | none => "bad-dtype"
    | some d =>
      match decodeFile gbFloat d (Hex.toBits (if hex == "-" then "" else hex)) with
      | .ok f rest =>
        let chunks := f.chunks.map fun c => s!"{metaStr c.cm} vals={valsStr (chunkVals d f.flags c)}"
        s!"ok flags={flagsStr f.flags} rest={rest.length} nchunks={f.chunks.length} | " ++ " | ".intercalate chunks
      | r => resTag r
  | _ => "bad-args"

/-! ### `decsum <dt> <hex>`: the frozen-format decoder as a STREAMING loop (the spec's `unit` iterated tail-recursively,
the same checks as `decBody`/`decChunks`), printing only the count and a digest of the numbers
(`h = h*31 + pattern + 1 mod 2^61-1`). For files whose numbers are too many to build as a list (a run of 2^23+1
numbers takes a few bytes). Delta order 0 only. -/

def digestUnits (t : Table) (d : DType) : Nat → UState → Bits → Nat → Option (Nat × Bits)
  | 0, _, s, h => some (h, s)
  | n + 1, st, s, h =>
    match unit t st s with
    | .ok (x, st') r => digestUnits t d n st' r ((h * 31 + d.fromU x + 1) % (2 ^ 61 - 1))
    | _ => none

def decSumChunks (gb : Nat → Nat) (d : DType) (fl : Flags) : Nat → Bits → Nat → Nat → Nat → String
  | 0, _, _, _, _ => "insufficient"
  | fuel + 1, s, n, h, nchunks =>
    match Parser.readNat 8 s with
    | .ok b r0 =>
      if b = Frozen.magicTerminationByte then s!"ok n={n} digest={h} rest={r0.length} nchunks={nchunks}"
      else if b != Frozen.magicChunkByte then "corrupt"
      else
        match decChunkMeta gb d fl r0 with
        | .ok m r1 =>
          let nBody := bodyCount fl m.n
          if m.prefixes.isEmpty && nBody > 0 then "corrupt"
          else if !m.prefixes.isEmpty && !completeTree (m.prefixes.map (·.code)) then "corrupt"
          else
            match digestUnits (tableOf m.prefixes) d nBody none r1 h with
            | none => "body-failed"
            | some (h', r2) =>
              let pad := (8 - (r1.length - r2.length) % 8) % 8
              if (r2.take pad).any id || r2.length < pad then "corrupt-padding"
              else
                let r3 := r2.drop pad
                if r1.length - r3.length != m.bodyBytes * 8 then "corrupt-size"
                else decSumChunks gb d fl fuel r3 (n + nBody) h' (nchunks + 1)
        | r => resTag r
    | r => resTag r

def cmdDecSum (args : List String) : String :=
  match args with
  | [dt, hex] =>
    match Frozen.dtypeByName dt with
    | none => "bad-dtype"
    | some d =>
      let bits := Hex.toBits hex
      match decHeader d bits with
      | .ok fl r => if fl.order != 0 then "unsupported-order" else decSumChunks gbFloat d fl (bits.length / 8 + 1) r 0 0 0
      | r => resTag r
  | _ => "bad-args"

def padHex (digits : Nat) (s : String) : String :=
  String.ofList (List.replicate (digits - s.length) '0') ++ s

/-- `map <dt> <pattern>`: the six map observables, in the harness's format -/
def cmdMap (args : List String) : String :=
  match args with
  | [dt, hex] =>
    match Frozen.dtypeByName dt with
    | none => "bad-dtype"
    | some d =>
      let x := Hex.toNat hex
      let u := d.toU x
      let s := d.toS x
      let raw := d.uToRaw u
      let fb := match d.rawToU raw with
        | some u' => Hex.ofNat (d.fromU u')
        | none => "err:InvalidArgument"
      s!"u={Hex.ofNat u} s={Hex.ofNat s} bytes={padHex (d.physBits / 4) (Hex.ofNat raw)} fu={Hex.ofNat (d.fromU u)} fs={Hex.ofNat (d.fromS s)} fb={fb}"
  | _ => "bad-args"

def cmdMapU (args : List String) : String :=
  match args with
  | [dt, hex] =>
    match Frozen.dtypeByName dt with
    | none => "bad-dtype"
    | some d =>
      let u := Hex.toNat hex
      let x := d.fromU u
      s!"x={Hex.ofNat x} u={Hex.ofNat (d.toU x)}"
  | _ => "bad-args"

def cmdRawBytes (args : List String) : String :=
  match args with
  | [dt, hex] =>
    match Frozen.dtypeByName dt with
    | none => "bad-dtype"
    | some d =>
      match d.rawToU (Hex.toNat hex) with
      | some u => s!"ok {Hex.ofNat u}"
      | none => "err InvalidArgument"
  | _ => "bad-args"

def parseNums (s : String) : List Nat :=
  if s == "-" || s == "" then [] else (s.splitOn ",").map Hex.toNat

def b01 (b : Bool) : String := if b then "1" else "0"

/-- number of maximal runs of `v` in `xs` -/
def countRuns (v : Nat) (xs : List Nat) : Nat :=
  (xs.foldl (fun (acc : Nat × Bool) x =>
      if x == v then (if acc.2 then acc.1 else acc.1 + 1, true) else (acc.1, false)) (0, false)).1

/-- most frequent value and its count (ties: any) -/
def dominant (xs : List Nat) : Nat × Nat :=
  match xs with
  | [] => (0, 0)
  | _ =>
    -- Boyer–Moore majority candidate (exact when a value has > 50%), then count it
    let cand := (xs.foldl (fun (acc : Nat × Nat) x =>
        if acc.2 == 0 then (x, 1) else if x == acc.1 then (acc.1, acc.2 + 1) else (acc.1, acc.2 - 1)) (0, 0)).1
    (cand, (xs.filter (· == cand)).length)

/-- per-chunk analysis of what the real compressor emitted, against the chunk's numbers -/
def analyzeChunk (d : DType) (fl : Flags) (level : Nat) (c : DChunk) (vals : List Nat) : String × Option AChunk :=
  let us := codedUs d fl vals
  let ps := c.cm.prefixes
  let blocks := greedyBlocks ps us.length us
  let bodyB := match blocks with
    | some bs => bodyBits ps bs
    | none => 0
  let W := if d.kind == .bool then 1 else d.uBits
  let (dom, domCount) := dominant us
  let runs := countRuns dom us
  let others := us.length - domCount
  let maxcode := maxLen (ps.map (·.code))
  let jumps := (ps.filter (·.jump.isSome)).length
  let domJump := match findPrefix ps dom with
    | some i => let p := ps.getD i default; p.jump.isSome && p.lower == p.upper
    | none => false
  -- Huffman tie (Train/Huffman.lean): the real codes cost exactly what `make_huffman_code` must reach for the
  -- weights. Weight = count, except for the run-length prefix: `ceil(freq·(1−freq)·n)` in `f64`, so ±1 is admitted.
  let counts := ps.map (·.count)
  let codes := ps.map (·.code)
  let huffOk (ws : List Nat) : Bool := weightedLen ws codes == huffCostW ws
  -- (huffopt, matched weight E of the run-length prefix, its code length, "heavy": others < 2E — the hypotheses of
  -- C18s.sparse_body_bound / c14_sparse; for tables without a run-length prefix E = 0, jlen = 0, heavy = true)
  let (huffopt, huffE, jlen, heavy) :=
    match ps.findIdx? (·.jump.isSome) with
    | none => (huffOk counts, 0, 0, true)
    | some i =>
      let cnt := counts.getD i 0
      let n := us.length
      let ex := if n == 0 then 0 else (cnt * (n - cnt) + n - 1) / n
      let jl := ((ps.getD i default).code).length
      match [ex, ex + 1, ex - 1].find? fun w => huffOk (counts.set i w) with
      | some w => (true, w, jl, decide (n - cnt < 2 * w))
      | none => (false, 0, jl, false)
  let tags := String.intercalate "," (
    (if jumps > 0 then ["runlen"] else []) ++
    (if ps.any (fun p => p.gcd > 1 && p.lower < p.upper) then ["gcd"] else []) ++
    (if c.cm.commonGcd.isSome then ["commongcd"] else []) ++
    (if ps.any (fun p => p.info.k == d.uBits) then ["kfull"] else []) ++
    (if ps.any (fun p => p.info.k == 0) then ["kzero"] else []) ++
    (if ps.any (fun p => p.info.r + 1 != 2 ^ p.info.k) then ["msb"] else []) ++
    (if ps.length > 1 then ["multi"] else []) ++
    (if fl.order > 0 then ["delta"] else []) ++
    (if vals.length ≤ fl.order then ["nleorder"] else []))
  let str := s!"n={b01 (c.cm.n == vals.length)} vals={b01 (chunkVals d fl c == vals)} us={b01 (c.us == us)} " ++
    s!"bounds={b01 (boundsOk ps)} disj={b01 (disjointB ps)} cover={b01 (coverB ps us)} counts={b01 (countsB ps us)} " ++
    s!"congr={b01 (congruentB ps us)} tree={b01 (treeB ps)} leaves={b01 (leavesB level ps)} moments={b01 (momentsB d fl vals c.cm)} " ++
    s!"gcdexact={b01 (gcdExactB gbFloat fl c.cm us)} emptyiff={b01 (ps.isEmpty == us.isEmpty)} grouped={b01 blocks.isSome} " ++
    s!"bodybits={bodyB} bodybytes={c.cm.bodyBytes} nprefs={ps.length} maxcode={maxcode} W={W} nus={us.length} " ++
    s!"metabits={(encChunkMeta gbFloat d fl c.cm).length + 8} prefbits={(ps.map fun p => (encPrefix gbFloat (prefDType d fl) fl c.cm.n (!fl.gcds || c.cm.commonGcd.isSome) p).length).foldl max 0} " ++
    s!"explains={(Train.explainsWhy (us.mergeSort (· ≤ ·)) level fl.gcds c.cm.commonGcd.isSome gbFloat ps).replace " " "_"} " ++
    s!"lit={if level > 8 || us.length > 3000 then "skip" else litTrainVerdict (prefDType d fl).uBits (prefDType d fl).physBits gbFloat us level fl.gcds c.cm.n ps} " ++
    s!"huffopt={b01 huffopt} huffE={huffE} jlen={jlen} heavy={b01 heavy} dom={domCount} runs={runs} others={others} domjump={b01 domJump} allequal={b01 (us.all (· == us.headD 0))} tags={tags}"
  (str, blocks.map fun bs => { cm := c.cm, blocks := bs })

def cmdEnc (args : List String) : String :=
  match args with
  | dt :: level :: order :: gcds :: k :: rest =>
    match Frozen.dtypeByName dt with
    | none => "bad-dtype"
    | some d =>
      let k := k.toNat!
      let chunks := (rest.take k).map parseNums
      let bits := Hex.toBits (rest.getD k "")
      match decodeFile gbFloat d bits with
      | .ok f r =>
        let flExp : Flags := { use5 := true, order := order.toNat!, minCount := true, gcds := gcds == "1" }
        let per := (f.chunks.zip chunks).map fun (c, vals) => analyzeChunk d f.flags level.toNat! c vals
        let reenc :=
          if per.all (fun x => x.2.isSome) then
            let af : AFile := { flags := f.flags, chunks := per.filterMap (·.2) }
            b01 (encodeFile gbFloat d af == bits)
          else "0"
        s!"ok rest={r.length} flags={b01 (f.flags == flExp)} nchunks={b01 (f.chunks.length == chunks.length)} reenc={reenc} | " ++
          " | ".intercalate (per.map (·.1))
      | r => resTag r
  | _ => "bad-args"

/-! ### decompressor operations (`dops`) -/

def errStr : Op.Err → String
  | .insufficient => "err InsufficientData"
  | .corrupt => "err Corruption"
  | .compat => "err Compatibility"
  | .invalid => "err InvalidArgument"

/-- metadata in the harness's format (no `common=` field; gcd per prefix) -/
def metaStrH (m : ChunkMeta) : String :=
  s!"n={m.n} body={m.bodyBytes} moments={",".intercalate (m.moments.map Hex.ofNat)} prefixes={";".intercalate (m.prefixes.map prefixStr)}"

def itemStr : Op.Item → String
  | .flags f => s!"flags {flagsStr f}"
  | .meta_ m => s!"meta {metaStrH m}"
  | .nums xs => s!"nums {valsStr xs}"
  | .footer => "footer"

def dopStep (d : DType) (limit : Nat) (σ : Op.St) (op : String) : String × Op.St :=
  let L := Op.matchStride
  let head := (op.take 1).toString
  let arg := (op.drop 1).toString
  match head with
  | "W" => ("ok", Op.write σ (Hex.toBits arg))
  | "H" =>
    match Op.header d σ with
    | (.ok f, σ') => (s!"ok flags={flagsStr f}", σ')
    | (.err e, σ') => (errStr e, σ')
  | "M" =>
    match Op.chunkMetadata gbFloat d σ with
    | (.ok (some m), σ') => (s!"ok meta {metaStrH m}", σ')
    | (.ok none, σ') => ("ok none", σ')
    | (.err e, σ') => (errStr e, σ')
  | "B" =>
    match Op.chunkBody L d σ with
    | (.ok xs, σ') => (s!"ok vals={valsStr xs}", σ')
    | (.err e, σ') => (errStr e, σ')
  | "S" =>
    match Op.skipChunkBody σ with
    | (.ok _, σ') => ("ok", σ')
    | (.err e, σ') => (errStr e, σ')
  | "N" =>
    match Op.next L gbFloat d limit σ with
    | (.ok none, σ') => ("none", σ')
    | (.ok (some it), σ') => (itemStr it, σ')
    | (.err e, σ') => (errStr e, σ')
  | "R" =>
    let (items, e, σ') := Op.drainIter L gbFloat d limit 100000000 σ []
    let strs := items.map itemStr ++ (match e with | some e => [errStr e] | none => [])
    (if strs.isEmpty then "drained" else "drained " ++ " , ".intercalate strs, σ')
  | "F" => ("ok", Op.free σ)
  | "D" =>
    match Op.simpleDecompress L gbFloat d σ with
    | (.ok xs, σ') => (s!"ok vals={valsStr xs}", σ')
    | (.err e, σ') => (errStr e, σ')
  | "I" => ("ok", σ)
  | "d" =>
    match Op.simpleDecompress L gbFloat d σ with
    | (.ok xs, σ') => (s!"ok n={xs.length}", σ')
    | (.err e, σ') => (errStr e, σ')
  | "b" =>
    match Op.chunkBody L d σ with
    | (.ok xs, σ') => (s!"ok n={xs.length}", σ')
    | (.err e, σ') => (errStr e, σ')
  | "m" =>
    match Op.chunkMetadata gbFloat d σ with
    | (.ok (some m), σ') => (s!"ok meta n={m.n}", σ')
    | (.ok none, σ') => ("ok none", σ')
    | (.err e, σ') => (errStr e, σ')
  | "r" =>
    let (items, e, σ') := Op.drainIter L gbFloat d limit 100000000 σ []
    let count := items.foldl (fun a it => match it with | .nums xs => a + xs.length | _ => a) 0
    let last := match e with
      | some e => errStr e
      | none => if items.any (fun it => match it with | .footer => true | _ => false) then "footer" else "none"
    (s!"drained n={count} last={last}", σ')
  | "G" => ("dbg -", σ)
  | _ => ("bad-op", σ)

def cmdDops (args : List String) : String :=
  match args with
  | dt :: limit :: ops =>
    match Frozen.dtypeByName dt with
    | none => "bad-dtype"
    | some d =>
      let (outs, _) := ops.foldl (fun (acc : List String × Op.St) op =>
        let (r, σ') := dopStep d limit.toNat! acc.2 op
        (s!"{r}@{σ'.bitIdx}" :: acc.1, σ')) ([], Op.St.init)
      " ; ".intercalate outs.reverse
  | _ => "bad-args"

/-! ### decompressor operations on the LITERAL model (`ldops`): same request format and same output as `dops`,
computed by `Qco.DecompLit` (word-level `BitWords`/`BitReader`, literal `NumDecompressor`) -/

def hexBytesL (s : String) : List Nat :=
  let rec go (cs : List Char) (acc : List Nat) : List Nat :=
    match cs with
    | a :: b :: rest => go rest ((Hex.hexVal a * 16 + Hex.hexVal b) :: acc)
    | _ => acc.reverse
  go s.toList []

def litErrStr (k : String) : String := "err " ++ k

/-- literal metadata in the harness's format (as `metaStrH`) -/
def metaStrL (m : MetaIO.RMeta) : String :=
  s!"n={m.n} body={m.compressedBodySize} moments={",".intercalate (m.prefixMetadata.moments.map Hex.ofNat)} prefixes={";".intercalate (m.prefixMetadata.prefixes.map prefixStr)}"

def litItemStr : DecompLit.Item → String
  | .flags f => s!"flags {flagsStr f}"
  | .chunkMetadata m => s!"meta {metaStrL m}"
  | .numbers xs => s!"nums {valsStr xs}"
  | .footer => "footer"

def ldopStep (d : DType) (limit : Nat) (σ : DecompLit.LitSt) (op : String) : String × DecompLit.LitSt :=
  let head := (op.take 1).toString
  let arg := (op.drop 1).toString
  match head with
  | "W" => ("ok", DecompLit.write σ (hexBytesL arg))
  | "H" =>
    match DecompLit.header d σ with
    | (.ok f, σ') => (s!"ok flags={flagsStr f}", σ')
    | (.err e, σ') => (litErrStr e, σ')
    | (.panic, σ') => ("panic", σ')
  | "M" =>
    match DecompLit.chunkMetadata gbFloat d σ with
    | (.ok (some m), σ') => (s!"ok meta {metaStrL m}", σ')
    | (.ok none, σ') => ("ok none", σ')
    | (.err e, σ') => (litErrStr e, σ')
    | (.panic, σ') => ("panic", σ')
  | "B" =>
    match DecompLit.chunkBody d σ with
    | (.ok xs, σ') => (s!"ok vals={valsStr xs}", σ')
    | (.err e, σ') => (litErrStr e, σ')
    | (.panic, σ') => ("panic", σ')
  | "S" =>
    match DecompLit.skipChunkBody σ with
    | (.ok _, σ') => ("ok", σ')
    | (.err e, σ') => (litErrStr e, σ')
    | (.panic, σ') => ("panic", σ')
  | "N" =>
    match DecompLit.next gbFloat d limit σ with
    | (.ok none, σ') => ("none", σ')
    | (.ok (some it), σ') => (litItemStr it, σ')
    | (.err e, σ') => (litErrStr e, σ')
    | (.panic, σ') => ("panic", σ')
  | "R" =>
    let (items, e, σ') := DecompLit.drainIter gbFloat d limit 100000000 σ []
    let strs := items.map litItemStr ++ (match e with | some e => [if e == "panic" then e else litErrStr e] | none => [])
    (if strs.isEmpty then "drained" else "drained " ++ " , ".intercalate strs, σ')
  | "F" =>
    match DecompLit.free σ with
    | (.ok _, σ') => ("ok", σ')
    | (.err e, σ') => (litErrStr e, σ')
    | (.panic, σ') => ("panic", σ')
  | "D" =>
    match DecompLit.simpleDecompress gbFloat d σ with
    | (.ok xs, σ') => (s!"ok vals={valsStr xs}", σ')
    | (.err e, σ') => (litErrStr e, σ')
    | (.panic, σ') => ("panic", σ')
  | "I" => ("ok", σ)
  | "d" =>
    match DecompLit.simpleDecompress gbFloat d σ with
    | (.ok xs, σ') => (s!"ok n={xs.length}", σ')
    | (.err e, σ') => (litErrStr e, σ')
    | (.panic, σ') => ("panic", σ')
  | "b" =>
    match DecompLit.chunkBody d σ with
    | (.ok xs, σ') => (s!"ok n={xs.length}", σ')
    | (.err e, σ') => (litErrStr e, σ')
    | (.panic, σ') => ("panic", σ')
  | "m" =>
    match DecompLit.chunkMetadata gbFloat d σ with
    | (.ok (some m), σ') => (s!"ok meta n={m.n}", σ')
    | (.ok none, σ') => ("ok none", σ')
    | (.err e, σ') => (litErrStr e, σ')
    | (.panic, σ') => ("panic", σ')
  | "r" =>
    let (items, e, σ') := DecompLit.drainIter gbFloat d limit 100000000 σ []
    let count := items.foldl (fun a it => match it with | .numbers xs => a + xs.length | _ => a) 0
    let last := match e with
      | some e => if e == "panic" then e else litErrStr e
      | none => if items.any (fun it => match it with | .footer => true | _ => false) then "footer" else "none"
    (s!"drained n={count} last={last}", σ')
  | "G" => ("dbg -", σ)
  | _ => ("bad-op", σ)

def cmdLdops (args : List String) : String :=
  match args with
  | dt :: limit :: ops =>
    match Frozen.dtypeByName dt with
    | none => "bad-dtype"
    | some d =>
      let (outs, _) := ops.foldl (fun (acc : List String × DecompLit.LitSt) op =>
        let (r, σ') := ldopStep d limit.toNat! acc.2 op
        (s!"{r}@{DecompLit.bitIdx σ'}" :: acc.1, σ')) ([], DecompLit.LitSt.init)
      " ; ".intercalate outs.reverse
  | _ => "bad-args"

/-! ### timestamps (`ts`) -/

def tsPps (ty : String) : Option (Int × Bool) :=
  match ty with
  | "nanos" => some (1000000000, false)
  | "micros" => some (1000000, false)
  | "nanos96" => some (1000000000, true)
  | "micros96" => some (1000000, true)
  | _ => none

def stStr (st : TS.SysTime) : String :=
  s!"{if st.before then "-" else "+"} {st.secs} {st.nanos}"

def outStr {α : Type} (f : α → String) : TS.Outcome α → String
  | .ok a => "ok " ++ f a
  | .invalid => "err InvalidArgument"
  | .corrupt => "err Corruption"
  | .panic => "panic"

def outTag {α : Type} : TS.Outcome α → String
  | .ok _ => "ok"
  | .invalid => "err:InvalidArgument"
  | .corrupt => "err:Corruption"
  | .panic => "panic"

def parseInt (s : String) : Int :=
  if s.startsWith "-" then -((s.drop 1).toString.toNat! : Int) else (s.toNat! : Int)

def cmdTs (args : List String) : String :=
  match args with
  | ty :: op :: rest =>
    match tsPps ty with
    | none => "bad-type"
    | some (pps, is96) =>
      match op, rest with
      | "fromst", [sign, secs, nanos] =>
        let st : TS.SysTime := { before := sign == "-", secs := secs.toNat!, nanos := nanos.toNat! }
        outStr toString (if is96 then TS.ofSysTime96 pps st else TS.ofSysTime64 pps st)
      | "rt", [sign, secs, nanos] =>
        let st : TS.SysTime := { before := sign == "-", secs := secs.toNat!, nanos := nanos.toNat! }
        match (if is96 then TS.ofSysTime96 pps st else TS.ofSysTime64 pps st) with
        | .ok parts => outStr stStr (if is96 then TS.toSysTime96 pps parts else TS.toSysTime64 pps parts)
        | o => outStr toString o
      | "tost", [parts] =>
        let p := parseInt parts
        if is96 then
          match TS.new96 pps p with
          | .ok p => outStr stStr (TS.toSysTime96 pps p)
          | o => outStr toString o
        else outStr stStr (TS.toSysTime64 pps p)
      | "validate", [parts] =>
        let p := parseInt parts
        let v : TS.Outcome Unit := if TS.valid96 pps p then .ok () else .corrupt
        s!"validate={outTag v} new={outTag (TS.new96 pps p)} tryfrom={outTag (TS.toSysTime96 pps p)}"
      | _, _ => "bad-op"
  | _ => "bad-args"

/-! ### spec encoder on a generated syntax tree (`ast`), used by the C03 generator -/

def parseBitsStr (s : String) : Bits := s.toList.map (· == '1')

def parsePrefix (s : String) : Prefix :=
  match s.splitOn ":" with
  | [cnt, lo, hi, code, jump, g] =>
    { count := cnt.toNat!, lower := Hex.toNat lo, upper := Hex.toNat hi, code := parseBitsStr code,
      jump := if jump == "-" then none else some jump.toNat!, gcd := Hex.toNat g }
  | _ => default

def parseBlock (s : String) : Block :=
  match s.splitOn ":" with
  | [p, off] => .one (p.drop 1).toString.toNat! (Hex.toNat off)
  | [p, off0, offs] => .run (p.drop 1).toString.toNat! (Hex.toNat off0) (parseNums offs)
  | _ => .one 0 0

def splitNE (s : String) (sep : String) : List String :=
  if s == "-" || s == "" then [] else s.splitOn sep

def parseAChunk (s : String) : AChunk :=
  match s.splitOn "/" with
  | [n, moments, common, prefixes, blocks] =>
    { cm := { n := n.toNat!, bodyBytes := 0, moments := parseNums moments,
              commonGcd := if common == "-" then none else some (Hex.toNat common),
              prefixes := (splitNE prefixes ";").map parsePrefix },
      blocks := (splitNE blocks ";").map parseBlock }
  | _ => default

def cmdAst (args : List String) : String :=
  match args with
  | dt :: fl :: chunks =>
    match Frozen.dtypeByName dt, fl.splitOn "," with
    | some d, [u, o, m, g] =>
      let flags : Flags := { use5 := u == "1", order := o.toNat!, minCount := m == "1", gcds := g == "1" }
      let f : AFile := { flags := flags, chunks := chunks.map parseAChunk }
      let bits := encodeFile gbFloat d f
      let self := match decodeFile gbFloat d bits with
        | .ok df r => b01 (df == f.toD && r.isEmpty)
        | _ => "0"
      s!"ok bytes={Hex.ofBits bits} self={self} | " ++ " | ".intercalate (f.chunks.map fun c => s!"vals={valsStr (chunkVals d flags c.toD)}")
    | _, _ => "bad-args"
  | _ => "bad-args"

/-! ### field map of a valid file (`fields`): name, bit offset, width of every metadata field, from the spec decoder.
Used by the hostile-bytes generator to set whole fields to extreme values. -/

def fieldsOfChunk (d : DType) (fl : Flags) (ci : Nat) (c : DChunk) (start : Nat) : List (String × Nat × Nat) × Nat :=
  let m := c.cm
  let pd := prefDType d fl
  let hasCommon := !fl.gcds || m.commonGcd.isSome
  let add (acc : List (String × Nat × Nat) × Nat) (name : String) (w : Nat) : List (String × Nat × Nat) × Nat :=
    (if w == 0 then acc.1 else acc.1 ++ [(s!"c{ci}.{name}", acc.2, w)], acc.2 + w)
  let a : List (String × Nat × Nat) × Nat := ([], start)
  let a := add a "magic" 8
  let a := add a "n" Frozen.bitsNEntries
  let a := add a "body" Frozen.bitsBodySize
  let a := (List.range m.moments.length).foldl (fun a i => add a s!"moment{i}" d.signed.physBits) a
  let a := add a "nprefs" Frozen.bitsNPrefixes
  let a := if fl.gcds then
      match m.commonGcd with
      | some g => add (add (add a "commonflag" 1) "commongcdflag" 1) "commongcd" ((encGcd gbFloat (pd.M - 1) g).length - 1)
      | none => add a "commonflag" 1
    else a
  let a := (m.prefixes.zipIdx).foldl (fun a (p, i) =>
      let a := add a s!"p{i}.count" (fl.countBits m.n)
      let a := add a s!"p{i}.lower" pd.physBits
      let a := add a s!"p{i}.upper" pd.physBits
      let a := add a s!"p{i}.codelen" fl.codeLenBits
      let a := add a s!"p{i}.code" p.code.length
      let a := add a s!"p{i}.jumpflag" 1
      let a := match p.jump with
        | some _ => add a s!"p{i}.jumpstart" Frozen.bitsJumpstart
        | none => a
      if hasCommon then a
      else
        let g := encGcd gbFloat (p.upper - p.lower) p.gcd
        add (add a s!"p{i}.gcdflag" 1) s!"p{i}.gcd" (g.length - 1)) a
  let metaEnd := start + 8 + (encChunkMeta gbFloat d fl m).length
  let a := add a "metapad" (metaEnd - a.2)
  (a.1, metaEnd + m.bodyBytes * 8)

def cmdFields (args : List String) : String :=
  match args with
  | [dt, hex] =>
    match Frozen.dtypeByName dt with
    | none => "bad-dtype"
    | some d =>
      match decodeFile gbFloat d (Hex.toBits hex) with
      | .ok f _ =>
        let h := (encHeader d f.flags).length
        let r := (f.chunks.zipIdx).foldl (fun (acc : List (String × Nat × Nat) × Nat) (c, ci) =>
            let (fs, e) := fieldsOfChunk d f.flags ci c acc.2
            (acc.1 ++ fs, e)) ([("flags", 40, h - 40)], h)
        "ok " ++ " ".intercalate (r.1.map fun (n, o, w) => s!"{n}:{o}:{w}")
      | r => resTag r
  | _ => "bad-args"

/-! ### compressor operations (`cops`) -/

/-- `common_gcd_for_chunk_meta`: the common field the writer emits for a prefix table -/
def commonGcdOf (ps : List Prefix) : Option Nat :=
  let nontrivial := ps.filter fun p => p.lower != p.upper
  match ps, nontrivial with
  | [], _ => none
  | _, [] => some 1
  | _, [p] => some p.gcd
  | _, _ => none

def parseMetaH (s : String) : ChunkMeta :=
  -- "n=..~body=..~moments=..~prefixes=.." (spaces replaced by ~)
  let kv := (s.splitOn "~").filterMap fun t =>
    match t.splitOn "=" with
    | [k, v] => some (k, v)
    | _ => none
  let get := fun k => ((kv.find? fun x => x.1 == k).map (·.2)).getD ""
  { n := (get "n").toNat!, bodyBytes := (get "body").toNat!, moments := parseNums (get "moments"),
    commonGcd := none, prefixes := (splitNE (get "prefixes") ";").map parsePrefix }

def copStep (d : DType) (cfg : Op.CConfig) (σ : Op.CSt) (op : String) : String × Op.CSt :=
  let head := (op.take 1).toString
  let arg := (op.drop 1).toString
  let exStr := fun (r : Except Op.CErr Unit) => match r with
    | .ok _ => "ok"
    | .error _ => "err InvalidArgument"
  match head with
  | "H" => let (r, σ') := Op.cHeader d cfg σ; (exStr r, σ')
  | "F" => let (r, σ') := Op.cFooter σ; (exStr r, σ')
  | "E" =>
    match Op.cChunk gbFloat d cfg σ 0 default with
    | (.ok _, σ') => ("ok meta ?", σ')
    | (.error _, σ') => ("err InvalidArgument", σ')
  | "C" =>
    match arg.splitOn "#" with
    | [nums, metaS] =>
      let vals := parseNums nums
      let fl := cfg.flags
      let m0 := if metaS == "-" then default else parseMetaH metaS
      let common := if fl.gcds then commonGcdOf m0.prefixes else none
      let ps := match common with
        | some g => m0.prefixes.map fun p => { p with gcd := g }
        | none => m0.prefixes
      let us := codedUs d fl vals
      let blocks := (greedyBlocks ps us.length us).getD []
      let trained : AChunk := { cm := { m0 with commonGcd := common, prefixes := ps }, blocks := blocks }
      match Op.cChunk gbFloat d cfg σ vals.length trained with
      | (.ok m, σ') => (s!"ok meta {metaStrH { m0 with bodyBytes := m.bodyBytes }}", σ')
      | (.error _, σ') => ("err InvalidArgument", σ')
    | _ => ("bad-op", σ)
  | "D" => let (b, σ') := Op.cDrain σ; (s!"bytes {Hex.ofBits b}", σ')
  | "Z" => ("ok", σ)
  | _ => ("bad-op", σ)

def cmdCops (args : List String) : String :=
  match args with
  | dt :: level :: order :: gcds :: ops =>
    match Frozen.dtypeByName dt with
    | none => "bad-dtype"
    | some d =>
      let cfg : Op.CConfig := { level := level.toNat!, order := order.toNat!, gcds := gcds == "1" }
      let (outs, _) := ops.foldl (fun (acc : List String × Op.CSt) op =>
        let (r, σ') := copStep d cfg acc.2 op
        (s!"{r}@{Op.cByteSize σ'}" :: acc.1, σ')) ([], Op.CSt.init)
      " ; ".intercalate outs.reverse
  | _ => "bad-args"

/-! ### word-level bit packing (`bwords`, `bread`, `bwrite`): the Lean model of BitWords/BitReader/BitWriter -/

/-! ### the same on the LITERAL compressor model (`lcops`, layer CL): `Qco.CompLit` over the word-level `BitWriter`.
The answer of `train_prefixes` in a `C` call is the prefix list of the observed metadata, as it stands (no GCD
rewriting: the literal metadata writer chooses the common-GCD field itself); the metadata printed is the one the
literal `chunk` returns (its own `n`, body size and delta moments). -/

def rmetaStrH (m : MetaIO.RMeta) : String :=
  metaStrH { n := m.n, bodyBytes := m.compressedBodySize, moments := m.prefixMetadata.moments,
             commonGcd := none, prefixes := m.prefixMetadata.prefixes }

def lcopStep (d : DType) (c : CompLit.Comp) (op : String) : String × CompLit.Comp :=
  let head := (op.take 1).toString
  let arg := (op.drop 1).toString
  let rStr := fun (r : WB.R Unit) => CompLit.resStr (fun _ => "ok") r
  match head with
  | "H" => let (r, c') := CompLit.header d c; (rStr r, c')
  | "F" => let (r, c') := CompLit.footer c; (rStr r, c')
  | "E" =>
    let (r, c') := CompLit.chunk gbFloat BodyWriter.estExact d (fun _ _ _ _ => .ok []) [] c
    (CompLit.resStr (fun _ => "ok meta ?") r, c')
  | "C" =>
    match arg.splitOn "#" with
    | [nums, metaS] =>
      let vals := parseNums nums
      let m0 := if metaS == "-" then default else parseMetaH metaS
      let (r, c') := CompLit.chunk gbFloat BodyWriter.estExact d (fun _ _ _ _ => .ok m0.prefixes) vals c
      (CompLit.resStr (fun m => s!"ok meta {rmetaStrH m}") r, c')
    | _ => ("bad-op", c)
  | "D" => let (b, c') := CompLit.drainBytes c; (s!"bytes {Hex.ofBits (bytesBits b)}", c')
  | "Z" => ("ok", c)
  | _ => ("bad-op", c)

def cmdLcops (args : List String) : String :=
  match args with
  | dt :: level :: order :: gcds :: ops =>
    match Frozen.dtypeByName dt with
    | none => "bad-dtype"
    | some d =>
      let cfg : Op.CConfig := { level := level.toNat!, order := order.toNat!, gcds := gcds == "1" }
      let (outs, _) := ops.foldl (fun (acc : List String × CompLit.Comp) op =>
        let (r, c') := lcopStep d acc.2 op
        (s!"{r}@{CompLit.byteSize c'}" :: acc.1, c')) ([], CompLit.Comp.fromConfig cfg)
      " ; ".intercalate outs.reverse
  | _ => "bad-args"

/-! ### word-level bit packing (`bwords`, `bread`, `bwrite`): the Lean model of BitWords/BitReader/BitWriter -/

def hexBytes (s : String) : List Nat :=
  let rec go (cs : List Char) (acc : List Nat) : List Nat :=
    match cs with
    | a :: b :: rest => go rest ((Hex.hexVal a * 16 + Hex.hexVal b) :: acc)
    | _ => acc.reverse
  go s.toList []

def parsePieces (s : String) : List (List Nat) :=
  if s == "-" then [] else (s.splitOn ",").map fun p => if p == "_" then [] else hexBytes p

def cmdBits (cmd : String) (args : List String) : String :=
  match cmd, args with
  | "bwords", pieces :: rest =>
    let free := match rest with
      | f :: _ => if f == "-" then [] else (f.splitOn ",").map String.toNat!
      | [] => []
    WB.wordsScript (parsePieces pieces) free
  | "bread", pieces :: ops => WB.readerScript (parsePieces pieces) ops
  | "bwrite", ops => WB.writerScript ops
  | _, _ => "bad-args"

/-! ### literal models of the body writer (layer W) and of `NumDecompressor` (layer N) -/

/-- `bodywrite <bits> <unsigneds|-> <prefix> ...` -/
def cmdBodyWrite (args : List String) : String :=
  match args with
  | ub :: us :: ps => BodyWriter.run (ps.map parsePrefix) (parseNums us) ub.toNat!
  | _ => "bad-args"

/-- `ndbounds <ub> <n> <prefix> ...`: what the literal `NumDecompressor::new` computes — the two per-block bit bounds
that gate the unchecked path and the GCD switch -/
def cmdNdBounds (args : List String) : String :=
  match args with
  | ub :: n :: ps =>
    match NumDec.newDec ub.toNat! n.toNat! (ps.map parsePrefix) with
    | .ok dec => s!"ok {dec.maxBitsPerNumBlock} {dec.maxOvershootPerNumBlock} {b01 dec.useGcd}"
    | .err k => s!"err:{k}"
    | .panic => "panic"
  | _ => "bad-args"

/-- `numdec <bits> <n> <n_processed> <inc idx:reps|-> <limit> <eoi> <bit_idx> <bytes hex|-> <prefix> ...` -/
def cmdNumDec (args : List String) : String :=
  match args with
  | ub :: n :: np :: inc :: limit :: eoi :: bitIdx :: bytes :: ps =>
    let prefixes := ps.map parsePrefix
    let incv : Option (Nat × Nat) :=
      if inc == "-" then none
      else match inc.splitOn ":" with
        | [i, r] => some (i.toNat!, r.toNat!)
        | _ => none
    let w : WB.Words := WB.Words.extend {} (if bytes == "-" then [] else hexBytes bytes)
    let o := NumDec.runDirty ub.toNat! prefixes n.toNat! np.toNat! incv limit.toNat! (eoi == "1") w.ws w.total bitIdx.toNat!
    let incS := match o.incomplete with
      | none => "none"
      | some (p, rem) => s!"{Hex.ofNat (prefixes.getD p default).lower}:{rem}"
    s!"{o.status} finished={o.finished} inc={incS} bit_idx={o.bitIdx} n={o.unsigneds.length} us={valsStr o.unsigneds}"
  | _ => "bad-args"

def answer (line : String) : String :=
  match line.trimAscii.toString.splitOn " " with
  | "dec" :: args => cmdDec args
  | "decsum" :: args => cmdDecSum args
  | "enc" :: args => cmdEnc args
  | "dops" :: args => cmdDops args
  | "ldops" :: args => cmdLdops args
  | "cops" :: args => cmdCops args
  | "lcops" :: args => cmdLcops args
  | "ast" :: args => cmdAst args
  | "fields" :: args => cmdFields args
  | "bodywrite" :: args => cmdBodyWrite args
  | "numdec" :: args => cmdNumDec args
  | "ndbounds" :: args => cmdNdBounds args
  | "floatfns" :: args => cmdFloatFns gbFloat args
  | "ts" :: args => cmdTs args
  | "bwords" :: args => cmdBits "bwords" args
  | "bread" :: args => cmdBits "bread" args
  | "bwrite" :: args => cmdBits "bwrite" args
  | "cli" :: "rechunk" :: cs :: lens =>
    " ".intercalate ((Glue.rechunk cs.toNat! (lens.map fun l => List.replicate l.toNat! 0)).map fun c => toString c.length)
  | "cli" :: "limit" :: k :: lens =>
    toString (Glue.limitOut (lens.map fun l => List.replicate l.toNat! 0) k.toNat!).length
  | "auto" :: sizes => toString (Glue.pickOrder (sizes.map String.toNat!))
  | "map" :: args => cmdMap args
  | "mapu" :: args => cmdMapU args
  | "rawbytes" :: args => cmdRawBytes args
  | _ => "bad-op"

end Qco.Driver
