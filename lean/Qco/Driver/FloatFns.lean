/-
Driver command `floatfns` (not part of the model): the INTEGER functions the model uses where the
library computes with `f64` — `Prefix::k_info`, `gcd_bits_required`, `Flags::bits_to_encode_count`,
`choose_run_len_jumpstart`, the run-length rule of `push_pref`, `choose_max_n_prefixes` — printed in
the format of the hook `verif::float_fns_script`, so that the two can be compared value by value on
boundary-dense arguments (stream `floatfns` of C02/C10).

  kinfo <bits> <lower> <upper> <gcd>   ->  k lower_k upper_k        (`Prefix.info`; hex arguments)
  gcdbits <bits> <range>               ->  the driver's `gb` | integer ⌈log2 range⌉
  countbits <n> <use_min_count>        ->  ⌈log2 (n+1)⌉ or 24
  jumpstart <count> <n>                ->  jumpstart  ⌈count·(n−count)/n⌉   (the weight is an `f64` estimate of the latter)
  maxn <level> <n>                     ->  chooseMaxNPrefixes 0
  runlen <count> <n>                   ->  1 jumpstart | 0 0
-/
import Qco.Driver.Hex
import Qco.Spec.File
import Qco.Train.Model
namespace Qco.Driver
open Qco

def cmdFloatFns (gb : Nat → Nat) (args : List String) : String :=
  match args with
  | ["kinfo", _bits, lo, hi, g] =>
    let p : Prefix := { count := 1, lower := Hex.toNat lo, upper := Hex.toNat hi, code := [], jump := none,
                        gcd := Hex.toNat g }
    let i := p.info
    let upK := 2 ^ i.k - 1
    s!"{i.k} {Hex.ofNat (i.r - upK)} {Hex.ofNat upK}"
  | ["gcdbits", _bits, range] =>
    let r := Hex.toNat range
    s!"{gb r} {clog2 r}"
  | ["countbits", n, umc] =>
    if umc == "1" then toString (clog2 (n.toNat! + 1)) else "24"
  | ["jumpstart", count, n] =>
    let c := count.toNat!
    let n := n.toNat!
    s!"{Train.jumpstart n c} {(c * (n - c) + n - 1) / n}"
  | ["maxn", level, n] => s!"{Train.chooseMaxNPrefixes level.toNat! n.toNat!} 0"
  | ["runlen", count, n] =>
    let c := count.toNat!
    let n := n.toNat!
    if Train.usesRunLen n c then s!"1 {Train.jumpstart n c}" else "0 0"
  | _ => "bad-args"

end Qco.Driver
