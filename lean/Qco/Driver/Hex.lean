/-
Driver utilities: hex <-> Nat / bits. Not part of the model; used only by `Main.lean`.
-/
import Qco.Spec.Bits
namespace Qco.Hex

def hexVal (c : Char) : Nat :=
  if '0' ≤ c ∧ c ≤ '9' then c.toNat - '0'.toNat
  else if 'a' ≤ c ∧ c ≤ 'f' then c.toNat - 'a'.toNat + 10
  else if 'A' ≤ c ∧ c ≤ 'F' then c.toNat - 'A'.toNat + 10
  else 0

def toNat (s : String) : Nat := s.foldl (fun a c => a * 16 + hexVal c) 0

def nibbleBits (v : Nat) : List Bool :=
  [v / 8 % 2 == 1, v / 4 % 2 == 1, v / 2 % 2 == 1, v % 2 == 1]

/-- hex string (two digits per byte) to bits, most significant first -/
def toBits (s : String) : Bits :=
  (s.foldl (fun (acc : List Bool) c => (nibbleBits (hexVal c)).reverse ++ acc) []).reverse

def digit (v : Nat) : Char :=
  if v < 10 then Char.ofNat ('0'.toNat + v) else Char.ofNat ('a'.toNat + v - 10)

def ofNat (n : Nat) : String :=
  if n = 0 then "0" else
  let rec go (fuel n : Nat) (acc : List Char) : List Char :=
    match fuel with
    | 0 => acc
    | f+1 => if n = 0 then acc else go f (n / 16) (digit (n % 16) :: acc)
  String.ofList (go (n.log2 + 2) n [])

/-- bits (length a multiple of 4) to hex -/
def ofBits (bs : Bits) : String :=
  let rec go (fuel : Nat) (bs : Bits) (acc : List Char) : List Char :=
    match fuel, bs with
    | f+1, a :: b :: c :: d :: rest =>
      go f rest (digit (a.toNat * 8 + b.toNat * 4 + c.toNat * 2 + d.toNat) :: acc)
    | _, _ => acc
  String.ofList (go (bs.length / 4 + 1) bs []).reverse

end Qco.Hex
