/-
Driver helper (not part of the model): run the LITERAL training model `Qco.TrainLit.trainLit`
(`Qco/Train/Lit.lean`, layer TL) with the library's own float formulas — hardware `Float` is the
platform's `f64` — as cost / sizing oracles and the first-minimum heap tie-breaking, and say whether it
reproduces the observed prefix table. The theorems of `C10l` hold for EVERY oracle, so this comparison
is informational (a different but equally valid tie-breaking of `BinaryHeap` would show up here as
`ranges`, not as a violation); it measures how literally the model follows the code.
-/
import Qco.Train.Lit
namespace Qco.Driver
open Qco Qco.TrainLit

/-- `bits::bumpy_log` -/
def bumpyLogHw (x : Float) : Float :=
  let k := x.log2.toUInt64.toNat
  Float.ofNat (k + 2) - Float.ofNat (2 ^ (k + 1)) / x

/-- `prefix_bit_cost` with hardware floats -/
def floatCostHw (base : Float) : CostOracle Float where
  zero := 0.0
  top := 1.7976931348623157e308
  add := (· + ·)
  lt := fun a b => a < b
  pbc := fun lower upper weight total gcd =>
    let offsetCost := bumpyLogHw (Float.ofNat ((upper - lower) / gcd) + 1.0)
    let huffmanCost := (Float.ofNat total / Float.ofNat weight).log2
    let gcdCost := if gcd > 1 then (Float.ofNat (upper - lower)).log2.ceil else 0.0
    base + gcdCost + huffmanCost + (offsetCost + huffmanCost) * Float.ofNat weight

/-- the three float computations of compressor.rs -/
def floatsHw : Floats where
  log2Floor := fun n => (Float.ofNat n).log2.floor.toUInt64.toNat
  freqLt := fun count n => Float.ofNat count / Float.ofNat n < 0.8
  runLen := fun count n =>
    let freq := Float.ofNat count / Float.ofNat n
    let nonFreq := 1.0 - freq
    (((freq * nonFreq * Float.ofNat n).ceil).toUInt64.toNat, min ((-nonFreq.log2).ceil).toUInt64.toNat 24)

/-- `base_meta_cost` of `optimize_prefixes` -/
def baseMetaCostHw (n physBits codeLenBits : Nat) (gcds : Bool) : Float :=
  (Float.ofNat (n + 1)).log2.ceil + 2.0 * Float.ofNat physBits + Float.ofNat codeLenBits +
    (if gcds then 1.0 else 0.0) + 1.0

/-- `exact` = same table including the codes; `ranges` = same ranges, counts, divisors and jumpstarts
but other codes; `differs`; `err` / `panic` = the literal model did not answer a table -/
def litTrainVerdict (ub physBits : Nat) (gb : Nat → Nat) (us : List Nat) (level : Nat) (gcds : Bool) (n : Nat)
    (observed : List Prefix) : String :=
  match trainLit floatsHw (floatCostHw (baseMetaCostHw n physBits 5 gcds)) pickFirstMin ub gb us level gcds n with
  | .ok (some ps) =>
    let key := fun (p : Prefix) => (p.count, p.lower, p.upper, p.jump, if p.lower == p.upper then 1 else p.gcd)
    if ps.map key == observed.map key then
      (if ps.map (·.code) == observed.map (·.code) then "exact" else "ranges")
    else "differs"
  | .ok none => "err"
  | _ => "panic"

end Qco.Driver
