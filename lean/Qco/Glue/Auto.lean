/-
Layer G: the automatic delta-order chooser (`auto_delta_encoding_order`, auto.rs): trial sizes for
orders 0, 1, 2, … in turn; stop at the first order that does not improve.
-/
namespace Qco
namespace Glue

def pickGo : List Nat → Nat → Nat → Nat → Nat
  | [], _, bestO, _ => bestO
  | s :: rest, o, bestO, bestS => if s < bestS then pickGo rest (o + 1) o s else bestO

/-- the chosen order given the trial sizes of the orders tried, in order -/
def pickOrder : List Nat → Nat
  | [] => 0
  | s :: rest => pickGo rest 1 0 s

/-- the candidate orders: 0..7 (`for delta_encoding_order in 0..8`) -/
def nCandidates : Nat := 8

end Glue
end Qco
