/-
Layer AL, executable LITERAL (statement-level) model of `auto.rs`, composed from the literal layers:

* auto.rs:8-9     `AUTO_DELTA_LIMIT`, `MAX_AUTO_DELTA_COMPRESSION_LEVEL`
* auto.rs:21-24   `auto_compress`              → `autoCompress`
* auto.rs:31-35   `auto_decompress`            → `autoDecompress` (+ `writeAll`: `Write::write_all`)
* auto.rs:43-48   `auto_compressor_config`     → `autoCompressorConfig`
* auto.rs:50-86   `auto_delta_encoding_order`  → `headNums` (the slice), `trialConfig` (the builder chain),
                                                  `trialSize` (the loop body down to `byte_size()`),
                                                  `orderLoop` (the `for delta_encoding_order in 0..8` with its
                                                  `break`), `autoDeltaEncodingOrder`
* compressor.rs   `CompressorConfig::{default, with_compression_level, with_delta_encoding_order,
                  with_use_gcds}`              → `configDefault`, `withCompressionLevel`, …

The compressor is the literal `Compressor` of layer CL (`Qco/Op/CompLit.lean`: `Comp.fromConfig`, `header`,
`chunk`, `byteSize`, `simpleCompress`), the decompressor the literal `Decompressor` of layer DL
(`Qco/Op/DecompLit.lean`: `write`, `simpleDecompress`).  Outcomes are `Qco.WB.R` (`ok | err kind | panic`);
`.unwrap()` on an `Err` is `.panic` (`CompLit.unwrapCM`), the slice `&nums[0..AUTO_DELTA_LIMIT]` out of range is
`.panic`, so that "the chooser never panics" is a theorem (`Qco/Properties/C13l.lean`), not an assumption.

`usize::MAX` is `2^64 − 1`.  `best_order` and `best_size` start at `usize::MAX`; the function returns `best_order`
whatever it is — that it is not `usize::MAX` for a non-empty input (the first trial's `size < usize::MAX`) is a
theorem.

PARAMETERS / WHAT IS NOT MODELLED
* `train_prefixes` is the parameter `train` of `CompLit.chunk` (an oracle of type
  `List Nat → InternalConfig → Flags → Nat → R (List Prefix)`).  The theorems instantiate it with the literal
  `train_prefixes` of layer TL (`E2E.trainOracle F O pick gb d`, i.e. `TrainLit.trainLit`), whose own parameters are
  the float oracles `F`, the cost oracle `O` and the heap's tie-breaking `pick`.  `autoCompress` takes TWO oracles:
  `trainTrial` for the trial compressions and `train` for the final `simple_compress` (in the Rust they are the
  same function; the float costs inside depend on the flags and on `n`, so nothing is lost and the theorems are
  more general).
* `gb` (`gcd_bits_required`), `est` (the `f64` estimate of `k_info`): parameters, as in layers M, W, CL.
* `DEFAULT_CHUNK_SIZE` is a parameter of `autoCompress` (default `1000000`), as in `CompLit.simpleCompress`.
* `usize` overflow of `byte_size()` (`words.len() * 64 …`) is not an outcome (as in `Qco.WB`, `Qco.CompLit`).
* `Decompressor::<T>::default()` is `DecompLit.LitSt.init`; `DecompressorConfig` does not matter to
  `simple_decompress`.
-/
import Qco.Op.CompLit
import Qco.Op.DecompLit
namespace Qco
namespace AutoLit
open Qco.WB Qco.CompLit

/-- `AUTO_DELTA_LIMIT` -/
def autoDeltaLimit : Nat := 1000
/-- `MAX_AUTO_DELTA_COMPRESSION_LEVEL` -/
def maxAutoDeltaCompressionLevel : Nat := 6
/-- `usize::MAX` -/
def usizeMax : Nat := 2 ^ 64 - 1
/-- `DEFAULT_COMPRESSION_LEVEL` -/
def defaultCompressionLevel : Nat := 8

/-- the type of the training oracle of `CompLit.chunk` -/
abbrev Oracle := List Nat → InternalConfig → Flags → Nat → R (List Prefix)

/-! ## `CompressorConfig` -/

/-- `CompressorConfig::default()` -/
def configDefault : Op.CConfig := { level := defaultCompressionLevel, order := 0, gcds := true }
/-- `with_compression_level` -/
def withCompressionLevel (c : Op.CConfig) (level : Nat) : Op.CConfig := { c with level := level }
/-- `with_delta_encoding_order` -/
def withDeltaEncodingOrder (c : Op.CConfig) (order : Nat) : Op.CConfig := { c with order := order }
/-- `with_use_gcds` -/
def withUseGcds (c : Op.CConfig) (useGcds : Bool) : Op.CConfig := { c with gcds := useGcds }

/-! ## `auto_delta_encoding_order` -/

/-- `let head_nums = if nums.len() < AUTO_DELTA_LIMIT { nums } else { &nums[0..AUTO_DELTA_LIMIT] };` -/
def headNums (nums : List Nat) : R (List Nat) :=
  if nums.length < autoDeltaLimit then .ok nums
  else if autoDeltaLimit > nums.length then .panic       -- slice end out of range
  else .ok (nums.take autoDeltaLimit)

/-- the configuration of a trial:
```
CompressorConfig::default()
  .with_delta_encoding_order(delta_encoding_order)
  .with_compression_level(min(compression_level, MAX_AUTO_DELTA_COMPRESSION_LEVEL))
  .with_use_gcds(false)
``` -/
def trialConfig (compressionLevel deltaEncodingOrder : Nat) : Op.CConfig :=
  withUseGcds
    (withCompressionLevel (withDeltaEncodingOrder configDefault deltaEncodingOrder)
      (min compressionLevel maxAutoDeltaCompressionLevel))
    false

/-- the body of the loop down to `let size = compressor.byte_size();`:
```
let mut compressor = Compressor::<T>::from_config(config);
compressor.header().unwrap();
compressor.chunk(head_nums).unwrap();
let size = compressor.byte_size();
``` -/
def trialSize (gb est : Nat → Nat) (d : DType) (train : Oracle) (headNums : List Nat)
    (compressionLevel deltaEncodingOrder : Nat) : R Nat :=
  let compressor := Comp.fromConfig (trialConfig compressionLevel deltaEncodingOrder)
  (CM.bind (unwrapCM (header d)) fun _ =>
   CM.bind (unwrapCM (chunk gb est d train headNums)) fun _ =>
   fun c => (.ok (byteSize c), c)) compressor |>.1

/-- `for delta_encoding_order in <orders> { …; if size < best_size { best_order = …; best_size = size; } else
{ break; } }` followed by the function's last expression `best_order`; the state is `(best_order, best_size)`,
`orders` the values of the range still to come -/
def orderLoop (gb est : Nat → Nat) (d : DType) (train : Oracle) (headNums : List Nat) (compressionLevel : Nat) :
    List Nat → Nat → Nat → R Nat
  | [], bestOrder, _ => .ok bestOrder
  | deltaEncodingOrder :: rest, bestOrder, bestSize =>
    match trialSize gb est d train headNums compressionLevel deltaEncodingOrder with
    | .err k => .err k
    | .panic => .panic
    | .ok size =>
      if size < bestSize then orderLoop gb est d train headNums compressionLevel rest deltaEncodingOrder size
      else .ok bestOrder                                  -- `break`

/-- `auto_delta_encoding_order(nums, compression_level)` -/
def autoDeltaEncodingOrder (gb est : Nat → Nat) (d : DType) (train : Oracle) (nums : List Nat)
    (compressionLevel : Nat) : R Nat :=
  match headNums nums with
  | .err k => .err k
  | .panic => .panic
  | .ok head =>
    if head.isEmpty then .ok 0                             -- `return 0;`
    else
      -- `let mut best_order = usize::MAX; let mut best_size = usize::MAX; for delta_encoding_order in 0..8 {…}`
      orderLoop gb est d train head compressionLevel (List.range 8) usizeMax usizeMax

/-! ## `auto_compressor_config`, `auto_compress`, `auto_decompress` -/

/-- `auto_compressor_config(nums, compression_level)` -/
def autoCompressorConfig (gb est : Nat → Nat) (d : DType) (train : Oracle) (nums : List Nat)
    (compressionLevel : Nat) : R Op.CConfig :=
  match autoDeltaEncodingOrder gb est d train nums compressionLevel with
  | .err k => .err k
  | .panic => .panic
  | .ok deltaEncodingOrder =>
    .ok (withDeltaEncodingOrder (withCompressionLevel configDefault compressionLevel) deltaEncodingOrder)

/-- `auto_compress(nums, compression_level)`:
```
let mut compressor = Compressor::from_config(auto_compressor_config(nums, compression_level));
compressor.simple_compress(nums)
```
`trainTrial` is `train_prefixes` inside the trials, `train` inside `simple_compress` -/
def autoCompress (gb est : Nat → Nat) (d : DType) (trainTrial train : Oracle) (nums : List Nat)
    (compressionLevel : Nat) (chunkSize : Nat := defaultChunkSize) : R (List Nat) :=
  match autoCompressorConfig gb est d trainTrial nums compressionLevel with
  | .err k => .err k
  | .panic => .panic
  | .ok config => (simpleCompress gb est d train nums chunkSize (Comp.fromConfig config)).1

/-- `Write::write_all(buf)` (the provided method of `std::io::Write`) on `Decompressor::write`, which answers
`Ok(buf.len())`: nothing is written for an empty buffer; otherwise one `write` call takes everything (`Ok(0)`,
the only way to `Err(WriteZero)`, would need an empty buffer) -/
def writeAll (σ : DecompLit.LitSt) (bytes : List Nat) : R DecompLit.LitSt :=
  if bytes.isEmpty then .ok σ
  else
    let n := bytes.length                                  -- `Ok(n)` of `self.write(buf)`
    if n = 0 then .err "WriteZero"
    else if (bytes.drop n).isEmpty then .ok (DecompLit.write σ bytes)
    else .panic                                            -- not reached: `buf[n..]` is empty

/-- `auto_decompress(bytes)`:
```
let mut decompressor = Decompressor::<T>::default();
decompressor.write_all(bytes).unwrap();
decompressor.simple_decompress()
``` -/
def autoDecompress (gb : Nat → Nat) (d : DType) (bytes : List Nat) : R (List Nat) :=
  match writeAll DecompLit.LitSt.init bytes with
  | .ok σ => (DecompLit.simpleDecompress gb d σ).1
  | _ => .panic                                            -- `.unwrap()`

end AutoLit
end Qco
