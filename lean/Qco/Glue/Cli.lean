/-
Layer G: the command-line tool's glue around the library (q_compress_cli): how reader batches are
re-chunked for the compressor (compress_handler.rs:68-82), how `decompress --limit k` cuts the
output (decompress_handler.rs:31-50), and the size arithmetic of `inspect` (inspect_handler.rs).
Arrow/Parquet/CSV parsing and number formatting are not modelled.
-/
namespace Qco
namespace Glue

/-- the buffer loop: after each reader batch, if the buffer holds at least `cs` numbers one chunk of
exactly `cs` is emitted; the rest of the buffer is flushed at the end if non-empty -/
def rechunkGo (cs : Nat) : List (List Nat) → List Nat → List (List Nat)
  | [], buf => if buf.isEmpty then [] else [buf]
  | b :: bs, buf =>
    let buf' := buf ++ b
    if buf'.length ≥ cs then buf'.take cs :: rechunkGo cs bs (buf'.drop cs)
    else rechunkGo cs bs buf'

def rechunk (cs : Nat) (batches : List (List Nat)) : List (List Nat) := rechunkGo cs batches []

/-- `decompress --limit k`: chunks are decoded one by one and the output is cut at `k` numbers -/
def limitOut : List (List Nat) → Nat → List Nat
  | [], _ => []
  | c :: cs, k =>
    if k = 0 then []
    else if c.length ≤ k then c ++ limitOut cs (k - c.length)
    else c.take k

/-- `inspect`'s byte accounting: header, per chunk (metadata incl. its magic byte, body), footer -/
structure Sizes where
  header : Nat
  metas : List Nat
  bodies : List Nat
  footer : Nat

def Sizes.total (s : Sizes) : Nat := s.header + s.metas.sum + s.bodies.sum + s.footer

end Glue
end Qco
