/-
Generic parser lemmas for the file-level round trip: byte alignment, repetition.
-/
import Qco.Spec.File
namespace Qco
open Parser

theorem padToByte_length_mod (x : Bits) : (padToByte x).length % 8 = 0 := by
  simp only [padToByte, List.length_append, List.length_replicate]; omega

theorem padToByte_length_ge (x : Bits) : x.length ≤ (padToByte x).length := by
  simp only [padToByte, List.length_append, List.length_replicate]; omega

theorem any_id_replicate_false (k : Nat) : (List.replicate k false).any id = false := by
  induction k with
  | zero => rfl
  | succ k ih => simp [List.replicate_succ, ih]

theorem readBits_replicate_false (k : Nat) (rest : Bits) :
    readBits k (List.replicate k false ++ rest) = .ok (List.replicate k false) rest := by
  have := readBits_append (List.replicate k false) rest
  simpa using this

/-- if `p` reads `a` off `x` whatever follows, the aligned `p` reads `a` off the padded `x` -/
theorem aligned_padToByte {α : Type} (p : Parser α) (x : Bits) (a : α) (rest : Bits)
    (h : ∀ r, p (x ++ r) = .ok a r) :
    Parser.aligned p (padToByte x ++ rest) = .ok a rest := by
  unfold Parser.aligned padToByte
  rw [List.append_assoc, h]
  have hl : (x ++ (List.replicate ((8 - x.length % 8) % 8) false ++ rest)).length
      - (List.replicate ((8 - x.length % 8) % 8) false ++ rest).length = x.length := by
    simp only [List.length_append, List.length_replicate]; omega
  simp only [hl, Parser.bind, readBits_replicate_false, any_id_replicate_false]
  rfl

/-- `rep` inverts `flatMap` of an element encoder -/
theorem rep_flatMap {α β : Type} (p : Parser β) (enc : α → Bits) (dec : α → β) (xs : List α)
    (h : ∀ x ∈ xs, ∀ r, p (enc x ++ r) = .ok (dec x) r) (r : Bits) :
    Parser.rep p xs.length (xs.flatMap enc ++ r) = .ok (xs.map dec) r := by
  induction xs with
  | nil => simp [Parser.rep, Parser.pure]
  | cons x xs ih =>
    have h1 := h x List.mem_cons_self
    have hs : ∀ y ∈ xs, ∀ r, p (enc y ++ r) = .ok (dec y) r :=
      fun y hy => h y (List.mem_cons_of_mem _ hy)
    simp only [List.length_cons, Parser.rep, List.flatMap_cons, List.append_assoc, Parser.bind, h1,
      ih hs, Parser.pure, List.map_cons]

theorem readBit_cons (b : Bool) (r : Bits) : readBit (b :: r) = .ok b r := rfl

end Qco
