/-
Layer AL, part 1: the depth of a complete prefix code.

A complete prefix-free code (`completeTree`: pairwise prefix-free, Kraft sum exactly one — what
`validate_prefix_tree` accepts and what every answer of `make_huffman_code` is) over `m ≥ 1` code words has no code
word longer than `m − 1` bits.  Hence every `HuffCode` over `m` symbols has code lengths `≤ m − 1`, and a table of
at most `2^level` prefixes whose codes form a complete tree has codes shorter than `2^level` bits: at most 63 bits
for the trial compressions of `auto_delta_encoding_order` (level `≤ 6`), at most 4095 bits in general.
-/
import Qco.Lemmas.HuffmanOpt
namespace Qco
namespace AutoLit

/-- without the empty code word, the code words split into those starting with `0` and those starting with `1` -/
theorem subCodes_length_add (codes : List Bits) (hn : [] ∉ codes) :
    (subCodes false codes).length + (subCodes true codes).length = codes.length := by
  induction codes with
  | nil => rfl
  | cons c cs ih =>
    have hn' : [] ∉ cs := fun h => hn (List.mem_cons_of_mem _ h)
    cases c with
    | nil => exact absurd List.mem_cons_self hn
    | cons b r =>
      have := ih hn'
      cases b <;> simp [subCodes] <;> omega

/-- a prefix-free code of words of at most `L` bits with Kraft sum one: every word is shorter than the number of
words -/
theorem kraft_depth_lt (L : Nat) : ∀ codes : List Bits, codes.Pairwise PFrel →
    (∀ c ∈ codes, c.length ≤ L) → kraftSum L codes = 2 ^ L → ∀ c ∈ codes, c.length + 1 ≤ codes.length := by
  induction L with
  | zero =>
    intro codes _ hl _ c hc
    have h0 := hl c hc
    have := List.length_pos_of_mem hc
    omega
  | succ L ih =>
    intro codes hp hl hk c hc
    by_cases hn : [] ∈ codes
    · have e := pairwise_nil_mem codes hp hn
      rw [e] at hc ⊢
      rw [List.mem_singleton.mp hc]; simp
    · have hsplit := kraftSum_split L codes hn
      have h0 := kraft_le L (subCodes false codes) (pairwise_subCodes _ _ hp) (subCodes_length_le _ _ _ hl)
      have h1 := kraft_le L (subCodes true codes) (pairwise_subCodes _ _ hp) (subCodes_length_le _ _ _ hl)
      have hadd := subCodes_length_add codes hn
      rw [Nat.pow_succ] at hk
      have hpos : 0 < 2 ^ L := Nat.two_pow_pos L
      have hboth : ∀ b, kraftSum L (subCodes b codes) = 2 ^ L := by
        intro b; cases b <;> omega
      have hne : ∀ b, 1 ≤ (subCodes b codes).length := by
        intro b
        cases hs : subCodes b codes with
        | nil =>
          have := hboth b
          rw [hs, kraftSum_nil] at this
          omega
        | cons _ _ => simp
      cases c with
      | nil => exact absurd hc hn
      | cons b r =>
        have hr : r ∈ subCodes b codes := (mem_subCodes b codes r).mpr hc
        have := ih (subCodes b codes) (pairwise_subCodes _ _ hp) (subCodes_length_le _ _ _ hl) (hboth b) r hr
        have hf := hne false
        have ht := hne true
        simp only [List.length_cons]
        cases b <;> omega

/-- **a complete prefix code over `m` words has no word longer than `m − 1` bits** -/
theorem completeTree_length_lt (codes : List Bits) (h : completeTree codes = true) :
    ∀ c ∈ codes, c.length + 1 ≤ codes.length := by
  simp only [completeTree, Bool.and_eq_true, beq_iff_eq] at h
  exact kraft_depth_lt (maxLen codes) codes (prefixFreeB_pairwise codes h.1) (length_le_maxLen codes) h.2

/-- **every answer of `make_huffman_code` for `m ≥ 1` weights (any tie-breaking) has code lengths `≤ m − 1`** -/
theorem HuffCode.length_lt {ws : List Nat} {codes : List Bits} (h : HuffCode ws codes) :
    ∀ c ∈ codes, c.length + 1 ≤ ws.length := by
  intro c hc
  have := completeTree_length_lt codes h.complete c hc
  rw [h.1] at this
  exact this

/-- the same for the tree of a run: every leaf is at depth `≤ m − 1` -/
theorem HuffRun.depth_lt {ws : List Nat} {t : HTree} (h : HuffRun ws t) :
    ∀ x ∈ t.leaves [], x.2.2.length + 1 ≤ ws.length := by
  intro x hx
  -- the symbols of the leaves are `0 … m − 1`, each once
  have hperm : ((t.leaves []).map Prod.fst).Perm (List.range' 0 ws.length) := by
    have e : (t.leaves []).map Prod.fst = t.syms.map Prod.fst := by
      rw [← HTree.leaves_syms t []]; simp [List.map_map, Function.comp_def]
    rw [e, ← symsOf_fst ws]
    exact h.syms_perm.map _
  have hnd : ((t.leaves []).map Prod.fst).Nodup := hperm.nodup_iff.mpr (List.nodup_range' (step := 1))
  have hid : ∀ y ∈ t.leaves [], y.1 < ws.length := by
    intro y hy
    have := hperm.mem_iff.mp (List.mem_map_of_mem (f := Prod.fst) hy)
    simp at this
    exact this
  -- the codes of the run, listed by symbol
  have htc : TreeCodes t ((List.range ws.length).map (codeOf (t.leaves []))) := by
    intro y hy
    rw [List.getElem?_map, List.getElem?_range (hid y hy)]
    simp only [Option.map_some, codeOf]
    rw [find_of_nodup _ y hnd hy]
  have hcode : HuffCode ws ((List.range ws.length).map (codeOf (t.leaves []))) :=
    ⟨by simp, t, h, htc⟩
  exact HuffCode.length_lt hcode x.2.2 (List.mem_of_getElem? (htc x hx))

end AutoLit
end Qco
