/-
Layer AL, part 5: `auto_delta_encoding_order` is total; `auto_compress` followed by `auto_decompress`.
-/
import Qco.Lemmas.AutoLit.Size
import Qco.Lemmas.AutoLit.Order
import Qco.Lemmas.E2E.RoundTrip
import Qco.Properties.C13
namespace Qco
namespace AutoLit
open Train TrainLit
open Qco.WB Qco.MetaIO Qco.Op Qco.CompLit Qco.E2E

section
variable {C : Type} {F : Floats} {O : CostOracle C} {pick : Nat → List HItem → Nat} {gb est : Nat → Nat}
  {d : DType}

/-- the eight trial sizes for the head of `nums` -/
def trialSizes {C : Type} (F : Floats) (O : CostOracle C) (pick : Nat → List HItem → Nat) (gb : Nat → Nat)
    (d : DType) (nums : List Nat) (level : Nat) : List Nat :=
  (List.range 8).map (trialBytes F O pick gb d (nums.take autoDeltaLimit) level)

/-- the order `auto_delta_encoding_order` answers (`autoOrder_total`): 0 for no numbers, else the chooser of
`Qco/Glue/Auto.lean` on the eight trial sizes -/
def chosenOrder {C : Type} (F : Floats) (O : CostOracle C) (pick : Nat → List HItem → Nat) (gb : Nat → Nat)
    (d : DType) (nums : List Nat) (level : Nat) : Nat :=
  if nums.isEmpty then 0 else Glue.pickOrder (trialSizes F O pick gb d nums level)

theorem trialSizes_length (nums : List Nat) (level : Nat) :
    (trialSizes F O pick gb d nums level).length = 8 := by simp [trialSizes]

theorem chosenOrder_le (nums : List Nat) (level : Nat) : chosenOrder F O pick gb d nums level ≤ 7 := by
  unfold chosenOrder
  split
  · omega
  · exact C13.pick_le_7 _ (by rw [trialSizes_length]; decide)

theorem mem_take_valid {nums : List Nat} (hv : ∀ v ∈ nums, C12.valid d v) (k : Nat) :
    ∀ v ∈ nums.take k, C12.valid d v := fun v h => hv v (List.mem_of_mem_take h)

/-- **`auto_delta_encoding_order` never panics** and answers `chosenOrder` -/
theorem autoOrder_total (hd : d ∈ Frozen.dtypes) (hgb : ∀ x, gb x ≤ d.uBits)
    (hest : BodyWriter.EstOk d.uBits est) (hfin : CostFinite O) (hp : PickOK pick) (nums : List Nat)
    (hv : ∀ v ∈ nums, C12.valid d v) (hF : ∀ m, m ≤ 1000 → FloatsAgree F m ∧ RunWeightOK F m) (level : Nat) :
    autoDeltaEncodingOrder gb est d (trainOracle F O pick gb d) nums level
      = .ok (chosenOrder F O pick gb d nums level) := by
  cases hn : nums with
  | nil => rfl
  | cons x xs =>
    rw [← hn]
    have hne : nums ≠ [] := by rw [hn]; simp
    have hne' : nums.take autoDeltaLimit ≠ [] := by rw [hn]; simp [autoDeltaLimit]
    have hl := take_limit_length nums
    have hl24 : (nums.take autoDeltaLimit).length ≤ 2 ^ 24 - 1 := by
      have : (1000 : Nat) ≤ 2 ^ 24 - 1 := by decide
      omega
    have hF' : ∀ m, m ≤ (nums.take autoDeltaLimit).length → FloatsAgree F m ∧ RunWeightOK F m :=
      fun m hm => hF m (by omega)
    have hvt := mem_take_valid hv autoDeltaLimit
    have h := autoOrder_of_trials gb est d (trainOracle F O pick gb d) nums level
      (trialBytes F O pick gb d (nums.take autoDeltaLimit) level) hne
      (fun o ho => trialSize_ok (rows_ok d hd) hgb hest hfin hp hne' hl24 hvt hF' level (by omega))
      (trialBytes_lt hd hgb hfin hp hl24 hvt hF' level (Nat.zero_le 7)).2
    rw [h]
    unfold chosenOrder trialSizes
    have : nums.isEmpty = false := by rw [hn]; rfl
    rw [this]
    rfl

/-- the configuration `auto_compressor_config` answers -/
def autoCfg {C : Type} (F : Floats) (O : CostOracle C) (pick : Nat → List HItem → Nat) (gb : Nat → Nat)
    (d : DType) (nums : List Nat) (level : Nat) : CConfig :=
  { level := level, order := chosenOrder F O pick gb d nums level, gcds := true }

theorem autoConfig_total (hd : d ∈ Frozen.dtypes) (hgb : ∀ x, gb x ≤ d.uBits)
    (hest : BodyWriter.EstOk d.uBits est) (hfin : CostFinite O) (hp : PickOK pick) (nums : List Nat)
    (hv : ∀ v ∈ nums, C12.valid d v) (hF : ∀ m, m ≤ 1000 → FloatsAgree F m ∧ RunWeightOK F m) (level : Nat) :
    autoCompressorConfig gb est d (trainOracle F O pick gb d) nums level
      = .ok (autoCfg F O pick gb d nums level) := by
  unfold autoCompressorConfig
  rw [autoOrder_total hd hgb hest hfin hp nums hv hF level]
  rfl

end

/-! ### `auto_compress`, `auto_decompress` -/

/-- `write_all` on a non-empty buffer is one `write` -/
theorem writeAll_cons (σ : DecompLit.LitSt) (b : Nat) (bs : List Nat) :
    writeAll σ (b :: bs) = .ok (DecompLit.write σ (b :: bs)) := by
  unfold writeAll
  simp

theorem autoDecompress_cons (gb : Nat → Nat) (d : DType) (b : Nat) (bs : List Nat) :
    autoDecompress gb d (b :: bs)
      = (DecompLit.simpleDecompress gb d ([b :: bs].foldl DecompLit.write DecompLit.LitSt.init)).1 := by
  unfold autoDecompress
  rw [writeAll_cons]
  rfl

section
variable {C C' : Type} {F F' : Floats} {O : CostOracle C} {O' : CostOracle C'}
  {pick pick' : Nat → List HItem → Nat} {gb est : Nat → Nat} {d : DType}

theorem stripT_canonical (chunks : List (List Nat)) : stripT (canonical chunks) = canonical chunks := by
  unfold stripT canonical
  rw [List.filter_cons_of_pos (by rfl), List.filter_append]
  congr 2
  · rw [List.filter_eq_self]
    intro op hop
    obtain ⟨c, _, rfl⟩ := List.mem_map.mp hop
    rfl

/-- the chunks `simple_compress` cuts `nums` into -/
def autoChunks (chunkSize : Nat) (nums : List Nat) : List (List Nat) := sliceChunks chunkSize nums.length nums

/-- **`auto_compress` then `auto_decompress`**: with the literal `train_prefixes` in the trials (oracles `F O pick`)
and in `simple_compress` (oracles `F' O' pick'`), for a level `≤ 12`: `auto_compress` answers bytes, they are the
encoding of a well-formed file whose chunks are the slices of `nums`, and `auto_decompress` returns `nums` -/
theorem autoCompress_roundtrip (hd : d ∈ Frozen.dtypes) (hgb : ∀ x, gb x ≤ d.uBits) (hG : GbTop gb d)
    (hest : BodyWriter.EstOk d.uBits est) (hfin : CostFinite O) (hp : PickOK pick)
    (hfin' : CostFinite O') (hp' : PickOK pick') (nums : List Nat) (level : Nat) (hlev : level ≤ 12)
    (hF : ∀ m, m ≤ 1000 → FloatsAgree F m ∧ RunWeightOK F m)
    (chunkSize : Nat) (hcs0 : 0 < chunkSize) (hcs : chunkSize ≤ 2 ^ 24 - 1)
    (hch : ∀ c ∈ autoChunks chunkSize nums, ChunkOk F' O' pick' gb d (autoCfg F O pick gb d nums level) c)
    (hsz : 2 * (encodeFile gb d (readerFile F' O' pick' gb d (autoCfg F O pick gb d nums level)
        (autoChunks chunkSize nums))).length + 2 ^ 37 < USIZE) :
    ∃ bytes, autoCompress gb est d (trainOracle F O pick gb d) (trainOracle F' O' pick' gb d) nums level chunkSize
        = .ok bytes ∧
      (∀ b ∈ bytes, b < 256) ∧
      bytesBits bytes = encodeFile gb d (readerFile F' O' pick' gb d (autoCfg F O pick gb d nums level)
        (autoChunks chunkSize nums)) ∧
      (readerFile F' O' pick' gb d (autoCfg F O pick gb d nums level) (autoChunks chunkSize nums)).WF gb d ∧
      autoDecompress gb d bytes = .ok nums := by
  generalize hcfg : autoCfg F O pick gb d nums level = cfg at hch hsz
  generalize hchs : autoChunks chunkSize nums = chunks at hch hsz
  have hr := rows_ok d hd
  have ho : cfg.order ≤ 7 := by rw [← hcfg]; exact chosenOrder_le nums level
  have hlev' : cfg.level ≤ 12 := by rw [← hcfg]; exact hlev
  have hflat : chunks.flatten = nums := by
    rw [← hchs]; exact sliceChunks_flatten hcs0 _ _ (Nat.le_refl _)
  -- the numbers are valid
  have hv : ∀ v ∈ nums, C12.valid d v := by
    intro v hvm
    rw [← hflat] at hvm
    obtain ⟨c, hc, hvc⟩ := List.mem_flatten.mp hvm
    exact ((hch c hc).nums_ok v hvc).1
  have hconf := autoConfig_total (est := est) hd hgb hest hfin hp nums hv hF level
  rw [hcfg] at hconf
  -- the file
  have henv : EnvOk gb est d :=
    ⟨hr.2.2.1, hr.1, fun x => Nat.le_trans (hgb x) (Nat.le_max_left _ _), hest⟩
  have hfacts := fun c hc => chunk_facts (F := F') (O := O') (pick := pick') hr hG hlev' hfin' hp' (hch c hc)
  have hsame := encodeFile_writer_eq_reader (F := F') (O := O') (pick := pick') (gb := gb) (d := d) (cfg := cfg)
    chunks
  have hsc : simpleChunks cfg.flags d (trainedTable F' O' pick' gb d cfg) chunkSize nums
      = chunks.map (writerChunk F' O' pick' gb d cfg) := by
    unfold simpleChunks
    rw [← hchs]; rfl
  obtain ⟨bytes, l', e, _, hby, hbits⟩ := CompLit.simpleCompress_ok (cfg := cfg) henv (trainOracle F' O' pick' gb d)
    (trainedTable F' O' pick' gb d cfg) nums chunkSize hcs0 hcs ho hlev'
    (by
      intro ch hc
      have hc' : ch ∈ chunks := by rw [← hchs]; exact hc
      exact ⟨(hfacts ch hc').1, (hfacts ch hc').2.1⟩)
    (by rw [hsc, hsame]; omega)
  rw [hsc, hsame] at hbits
  obtain ⟨_, _, _, _, _, _, _, hwf, hvals⟩ := compress_is_file (F := F') (O := O') (pick := pick') (est := est)
    hr hgb hG hest ho hlev' hfin' hp' chunks hch (canonical chunks)
    (stripT_canonical chunks)
    (by omega)
  refine ⟨bytes, ?_, hby, hbits, hwf, ?_⟩
  · unfold autoCompress
    rw [hconf]
    show (simpleCompress gb est d (trainOracle F' O' pick' gb d) nums chunkSize (Comp.fromConfig cfg)).1 = _
    rw [e]
  · -- decompression
    have hlen8 : (bytesBits bytes).length = 8 * bytes.length := by
      rw [← bytesBits'_eq]; exact bytesBits'_length bytes
    rw [hbits] at hlen8
    cases bytes with
    | nil =>
      exfalso
      have := C14.file_size gb d (readerFile F' O' pick' gb d cfg chunks) ho
      simp only [List.length_nil] at hlen8
      omega
    | cons b bs =>
      rw [autoDecompress_cons]
      have hdec := literal_decompress_file hd hgb _ hwf [b :: bs]
        (by
          intro p hp x hx
          rw [List.mem_singleton.mp hp] at hx
          exact hby x hx)
        (by simpa using hbits)
        (by
          simp only [List.map_cons, List.map_nil, List.sum_cons, List.sum_nil, List.length_cons] at hlen8 ⊢
          omega)
      rw [hdec, hvals, hflat]

/-- **a level above 12 with at least one number: `auto_compress` panics.**  `auto_compressor_config` passes the
requested level on uncapped; `simple_compress` unwraps the `InvalidArgument` that `chunk` answers for it.  For every
training oracle in `simple_compress` (training is not reached). -/
theorem autoCompress_level_gt12_panics (hd : d ∈ Frozen.dtypes) (hgb : ∀ x, gb x ≤ d.uBits)
    (hest : BodyWriter.EstOk d.uBits est) (hfin : CostFinite O) (hp : PickOK pick) (train : Oracle)
    (nums : List Nat) (hne : nums ≠ []) (hv : ∀ v ∈ nums, C12.valid d v)
    (hF : ∀ m, m ≤ 1000 → FloatsAgree F m ∧ RunWeightOK F m) (level : Nat) (hlev : 12 < level)
    (chunkSize : Nat) (hcs0 : 0 < chunkSize) :
    autoCompress gb est d (trainOracle F O pick gb d) train nums level chunkSize = .panic := by
  have hr := rows_ok d hd
  have hconf := autoConfig_total (est := est) hd hgb hest hfin hp nums hv hF level
  generalize hcfg : autoCfg F O pick gb d nums level = cfg at hconf
  have ho : cfg.order ≤ 7 := by rw [← hcfg]; exact chosenOrder_le nums level
  have hlev' : ¬ cfg.level ≤ 12 := by rw [← hcfg]; show ¬ level ≤ 12; omega
  have henv : EnvOk gb est d :=
    ⟨hr.2.2.1, hr.1, fun x => Nat.le_trans (hgb x) (Nat.le_max_left _ _), hest⟩
  obtain ⟨l1, e1, hs1⟩ := header_ok henv (CompLit.csim_init cfg) rfl rfl ho
  obtain ⟨x, xs, hx⟩ : ∃ x xs, nums = x :: xs := by
    cases nums with
    | nil => exact absurd rfl hne
    | cons x xs => exact ⟨x, xs, rfl⟩
  have hslice : sliceChunks chunkSize nums.length nums
      = nums.take chunkSize :: sliceChunks chunkSize xs.length (nums.drop chunkSize) := by
    rw [hx]; rfl
  have hrej := chunk_rejected (gb := gb) (est := est) (d := d) (train := train) (nums := nums.take chunkSize) hs1
    (fun h => hlev' h.2.2.2.1)
  unfold autoCompress
  rw [hconf]
  show (simpleCompress gb est d train nums chunkSize (Comp.fromConfig cfg)).1 = _
  unfold simpleCompress
  simp only [CM.bind, unwrapCM, e1, if_neg (Nat.pos_iff_ne_zero.mp hcs0), hslice, chunksLoop, hrej]

/-- … but not on the empty input: no `chunk` call is made, the level is never looked at, and `auto_compress`
answers the 7 bytes of an empty file whatever the level -/
theorem autoCompress_nil (hd : d ∈ Frozen.dtypes) (hgb : ∀ x, gb x ≤ d.uBits)
    (hest : BodyWriter.EstOk d.uBits est) (trainTrial train : Oracle) (level : Nat)
    (chunkSize : Nat) (hcs0 : 0 < chunkSize) :
    ∃ bytes, autoCompress gb est d trainTrial train [] level chunkSize = .ok bytes ∧
      bytesBits bytes = encodeFile gb d { flags := { use5 := true, order := 0, minCount := true, gcds := true },
                                          chunks := [] } := by
  have hr := rows_ok d hd
  have henv : EnvOk gb est d :=
    ⟨hr.2.2.1, hr.1, fun x => Nat.le_trans (hgb x) (Nat.le_max_left _ _), hest⟩
  obtain ⟨l1, e1, hs1⟩ := header_ok henv (CompLit.csim_init { level := level, order := 0, gcds := true }) rfl rfl
    (Nat.zero_le 7)
  obtain ⟨l3, e3, hs3⟩ := footer_ok hs1 rfl rfl
  obtain ⟨hb, _, _⟩ := drain_refines hs3
  refine ⟨(drainBytes l3).1, ?_, ?_⟩
  · show (simpleCompress gb est d train [] chunkSize
      (Comp.fromConfig { level := level, order := 0, gcds := true })).1 = _
    unfold simpleCompress
    simp only [CM.bind, unwrapCM, e1, if_neg (Nat.pos_iff_ne_zero.mp hcs0), sliceChunks, List.length_nil,
      chunksLoop, CM.ofR, e3]
  · rw [hb]
    simp only [cDrain, CSt.init, List.nil_append, encodeFile, List.flatMap_nil, List.append_nil]
    rfl

end

end AutoLit
end Qco
