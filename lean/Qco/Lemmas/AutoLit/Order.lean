/-
Layer AL, part 3: the loop of `auto_delta_encoding_order` is the chooser `Glue.pickOrder` on the trial sizes.
-/
import Qco.Lemmas.AutoLit.Trial
import Qco.Glue.Auto
namespace Qco
namespace AutoLit
open Train TrainLit
open Qco.WB Qco.MetaIO Qco.Op Qco.CompLit Qco.E2E

/-- the slice never panics: `head_nums` is the first `min(len, 1000)` numbers -/
theorem headNums_eq (nums : List Nat) : headNums nums = .ok (nums.take autoDeltaLimit) := by
  unfold headNums
  split
  · rw [List.take_of_length_le (by omega)]
  · rfl

theorem take_limit_length (nums : List Nat) : (nums.take autoDeltaLimit).length ≤ 1000 := by
  rw [List.length_take]; exact Nat.min_le_left _ _

/-- while every trial answers `Ok(f order)`, the loop over the orders `k, k+1, …, k+m−1` is `Glue.pickGo` on the
sizes -/
theorem orderLoop_eq_pickGo (gb est : Nat → Nat) (d : DType) (train : Oracle) (head : List Nat) (level : Nat)
    (f : Nat → Nat) : ∀ (m k bestO bestS : Nat),
    (∀ o, k ≤ o → o < k + m → trialSize gb est d train head level o = .ok (f o)) →
    orderLoop gb est d train head level (List.range' k m) bestO bestS
      = .ok (Glue.pickGo ((List.range' k m).map f) k bestO bestS) := by
  intro m
  induction m with
  | zero => intro k bestO bestS _; rfl
  | succ m ih =>
    intro k bestO bestS h
    rw [List.range'_succ, List.map_cons]
    simp only [orderLoop, Glue.pickGo, h k (Nat.le_refl _) (by omega)]
    split
    · exact ih (k + 1) k (f k) (fun o h1 h2 => h o (by omega) (by omega))
    · rfl

/-- the whole function on a non-empty head whose trials all answer `Ok(f order)`, the first one below
`usize::MAX`: the chooser of `Qco/Glue/Auto.lean` on the eight trial sizes -/
theorem autoOrder_of_trials (gb est : Nat → Nat) (d : DType) (train : Oracle) (nums : List Nat) (level : Nat)
    (f : Nat → Nat) (hne : nums ≠ [])
    (h : ∀ o, o < 8 → trialSize gb est d train (nums.take autoDeltaLimit) level o = .ok (f o))
    (h0 : f 0 < usizeMax) :
    autoDeltaEncodingOrder gb est d train nums level = .ok (Glue.pickOrder ((List.range 8).map f)) := by
  have hemp : (nums.take autoDeltaLimit).isEmpty = false := by
    cases nums with
    | nil => exact absurd rfl hne
    | cons _ _ => rfl
  unfold autoDeltaEncodingOrder
  simp only [headNums_eq, hemp, Bool.false_eq_true, if_false]
  rw [List.range_eq_range', orderLoop_eq_pickGo gb est d train _ level f 8 0 usizeMax usizeMax
    (fun o _ h2 => h o (by omega))]
  show R.ok (Glue.pickGo (f 0 :: (List.range' 1 7).map f) 0 usizeMax usizeMax) = _
  simp only [Glue.pickGo, h0, if_true]
  rfl

/-- empty input: `return 0` before any trial -/
theorem autoOrder_nil (gb est : Nat → Nat) (d : DType) (train : Oracle) (level : Nat) :
    autoDeltaEncodingOrder gb est d train [] level = .ok 0 := rfl

end AutoLit
end Qco
