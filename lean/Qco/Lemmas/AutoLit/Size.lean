/-
Layer AL, part 4: a (crude) upper bound on the size of the chunk `Compressor::chunk` writes for a training answer
satisfying `TableOk`, with codes of at most `C` bits (not necessarily shorter than 32 bits, which the bound of
`Qco/Lemmas/E2E/Size.lean` assumes).  Used for: the first trial of `auto_delta_encoding_order` answers a size below
`usize::MAX`, so that `best_order` does not stay `usize::MAX`.
-/
import Qco.Lemmas.E2E.Size
import Qco.Lemmas.AutoLit.Trial
namespace Qco
namespace AutoLit
open Train TrainLit
open Qco.WB Qco.MetaIO Qco.Op Qco.CompLit Qco.E2E

theorem tableOf_code_length_le (ps : List Prefix) (C : Nat) (hcode : ∀ p ∈ ps, p.code.length ≤ C) (i : Nat) :
    ((tableOf ps).code i).length ≤ C := by
  simp only [Table.code, tableOf, List.getD_eq_getElem?_getD, List.getElem?_map]
  cases hi : ps[i]? with
  | none => simp
  | some p =>
    simp only [Option.map_some, Option.getD_some]
    exact hcode p (List.mem_of_getElem? hi)

/-- a well-formed block takes at most `W + 49 + C` bits per number it holds: at most `C` bits of code, at most 48
bits of run length, at most `W + 1` bits per offset -/
theorem encBlock_length_leC (W C : Nat) (ps : List Prefix)
    (hcode : ∀ p ∈ ps, p.code.length ≤ C) (hup : ∀ p ∈ ps, p.upper < 2 ^ W)
    (hjump : ∀ p ∈ ps, ∀ j, p.jump = some j → j ≤ 24)
    (b : Block) (hwf : b.WF (tableOf ps)) :
    (encBlock (tableOf ps) b).length ≤ (blockNums (tableOf ps) b).length * (W + 49 + C) := by
  cases b with
  | one p off =>
    have h1 := tableOf_code_length_le ps C hcode p
    have h2 := C14.offset_bits_le ((tableOf ps).info p).r ((tableOf ps).info p).k off
    have h3 := C14.tableOf_k_le W ps hup p
    simp only [encBlock, blockNums, List.length_append, List.length_singleton, Nat.one_mul]
    omega
  | run p off0 offs =>
    obtain ⟨hp, _, _, _, _⟩ := hwf
    have h1 := tableOf_code_length_le ps C hcode p
    have h2 := C14.offset_bits_le ((tableOf ps).info p).r ((tableOf ps).info p).k off0
    have h3 := C14.tableOf_k_le W ps hup p
    have h4 := C14.varint_bits_le (((tableOf ps).info p).jump.getD 0) offs.length
      (tableOf_jump_le ps hjump p hp)
    have h5 := encOffsets_length_le ((tableOf ps).info p) offs
    have h6 : offs.length * (((tableOf ps).info p).k + 1) ≤ offs.length * (W + 1) :=
      Nat.mul_le_mul_left _ (by omega)
    have e : (offs.length + 1) * (W + 49 + C) = offs.length * (W + 1) + offs.length * (48 + C) + (W + 49 + C) := by
      rw [Nat.add_mul, Nat.one_mul, ← Nat.mul_add]
      congr 2
      omega
    simp only [encBlock, blockNums, List.length_append, List.length_cons, List.length_map, nEntriesBits] at h4 ⊢
    rw [e]
    generalize offs.length * (W + 1) = A at *
    generalize offs.length * (48 + C) = B at *
    omega

theorem encBlocks_length_leC (W C : Nat) (ps : List Prefix)
    (hcode : ∀ p ∈ ps, p.code.length ≤ C) (hup : ∀ p ∈ ps, p.upper < 2 ^ W)
    (hjump : ∀ p ∈ ps, ∀ j, p.jump = some j → j ≤ 24)
    (bs : List Block) (hwf : ∀ b ∈ bs, b.WF (tableOf ps)) :
    (encBlocks (tableOf ps) bs).length ≤ (blocksNums (tableOf ps) bs).length * (W + 49 + C) := by
  induction bs with
  | nil => simp [encBlocks, blocksNums]
  | cons b bs ih =>
    have h1 := encBlock_length_leC W C ps hcode hup hjump b (hwf b List.mem_cons_self)
    have h2 := ih (fun b' h => hwf b' (List.mem_cons_of_mem _ h))
    simp only [encBlocks, blocksNums, List.length_append, Nat.add_mul]
    omega

/-- **the chunk written for a training answer**: for one of the 15 data types, an order `≤ 7`, at most `2^24 − 1`
numbers, a table satisfying `TableOk` and congruence whose codes have at most `C` bits: at most
`1119 + (420 + C)` bits per range `+ (177 + C)` bits per number -/
theorem encChunk_trainedOf_le {gb : Nat → Nat} {d : DType} (hd : d ∈ Frozen.dtypes) (hgb : ∀ x, gb x ≤ d.uBits)
    (fl : Flags) (ho : fl.order ≤ 7) (nums : List Nat) (ps : List Prefix) (hn : nums.length ≤ 2 ^ 24 - 1)
    (ht : TableOk d fl nums ps) (hcong : congruentB ps (codedUs d fl nums) = true)
    (C : Nat) (hcode : ∀ p ∈ ps, p.code.length ≤ C) :
    (encChunk gb d fl (trainedOf fl d nums ps)).length
      ≤ 1119 + ps.length * (420 + C) + nums.length * (177 + C) := by
  obtain ⟨bs, hbs, _, htr⟩ := trainedOf_eq ht.cover
  have hphys : ∀ d' ∈ Frozen.dtypes, d'.physBits ≤ 128 ∧ d'.signed.physBits ≤ 128 ∧ d'.uBits ≤ 128 := by decide
  obtain ⟨hP, hS, hW⟩ := hphys d hd
  have hPP : (prefDType d fl).physBits ≤ 128 := by unfold prefDType; split <;> assumption
  have hus := codedUs_length_le d fl nums
  rw [C14.chunk_size, htr]
  -- the metadata
  have hmeta := C14.chunk_meta_bits_le gb d fl
    ({ cm := C01.trainedMeta fl d nums ps (commonField fl ps), blocks := bs } : AChunk).fixedMeta
    (by simp [AChunk.fixedMeta, C01.trainedMeta, sMoments_length])
  have hsum : ((({ cm := C01.trainedMeta fl d nums ps (commonField fl ps), blocks := bs } : AChunk).fixedMeta).prefixes.map
      fun p => (encPrefix gb (prefDType d fl) fl
        (({ cm := C01.trainedMeta fl d nums ps (commonField fl ps), blocks := bs } : AChunk).fixedMeta).n
        (!fl.gcds || (({ cm := C01.trainedMeta fl d nums ps (commonField fl ps), blocks := bs } : AChunk).fixedMeta).commonGcd.isSome)
        p).length).sum ≤ ps.length * (420 + C) := by
    show ((ps.map fun p => (encPrefix gb (prefDType d fl) fl nums.length
      (!fl.gcds || (commonField fl ps).isSome) p).length).sum) ≤ ps.length * (420 + C)
    apply sum_map_le_length_mul
    intro p hp
    have h1 := encPrefix_length_le gb (prefDType d fl) fl nums.length (!fl.gcds || (commonField fl ps).isSome) p
    have h2 := C14.countBits_le fl nums.length (by omega)
    have h3 := codeLenBits_le fl
    have h4 := hcode p hp
    have h5 := hgb (p.upper - p.lower)
    omega
  have hG := hgb ((prefDType d fl).M - 1)
  have hord : fl.order * d.signed.physBits ≤ 7 * 128 := Nat.mul_le_mul ho hS
  -- the body
  have hwf := greedyBlocks_wf ps _ _ bs (by omega) hbs
  have hnums := greedyBlocks_nums ps _ _ bs hcong hbs
  have hbody := encBlocks_length_leC d.uBits C ps hcode (fun p hp => (ht.pref_ok p hp).upper_lt)
    (fun p hp => (ht.pref_ok p hp).jump_le) bs hwf
  rw [hnums] at hbody
  have hpad := C14.body_padded_le ps bs
  have hb2 : (codedUs d fl nums).length * (d.uBits + 49 + C) ≤ nums.length * (177 + C) :=
    Nat.mul_le_mul hus (by omega)
  show 8 + _ + (encBody ps bs).length ≤ _
  generalize (codedUs d fl nums).length * (d.uBits + 49 + C) = B at *
  generalize nums.length * (177 + C) = B' at *
  generalize ps.length * (420 + C) = A at *
  omega

section
variable {C : Type} {F : Floats} {O : CostOracle C} {pick : Nat → List HItem → Nat} {gb : Nat → Nat} {d : DType}

/-- **a trial's `byte_size()` is far below `usize::MAX`**: at most 64 ranges with codes of at most 63 bits, at most
`2^24 − 1` numbers: fewer than `2^29` bytes (for the at most 1000 numbers of `head_nums`: fewer than 35000) -/
theorem trialBytes_lt (hd : d ∈ Frozen.dtypes) (hgb : ∀ x, gb x ≤ d.uBits) (hfin : CostFinite O)
    (hp : PickOK pick) {head : List Nat} (hlen : head.length ≤ 2 ^ 24 - 1) (hv : ∀ v ∈ head, C12.valid d v)
    (hF : ∀ m, m ≤ head.length → FloatsAgree F m ∧ RunWeightOK F m) (level : Nat) {o : Nat} (ho : o ≤ 7) :
    trialBytes F O pick gb d head level o ≤ (1167 + 64 * 483 + head.length * 240) / 8 ∧
      trialBytes F O pick gb d head level o < usizeMax := by
  have hr := rows_ok d hd
  have hlv : (trialConfig level o).level ≤ 6 := Nat.min_le_right _ _
  have hcl := codedUs_length_le d (trialConfig level o).flags head
  obtain ⟨_, htab, hl64, hcode, hcong⟩ := small_level_facts (F := F) (O := O) (pick := pick) (gb := gb) hr hlv hfin
    hp hlen hv (hF _ hcl).1 (hF _ hcl).2
  have hhs : (encHeader d (trialConfig level o).flags).length = 48 :=
    C02.header_size d _ (by show o ≤ 7; exact ho)
  have hch := encChunk_trainedOf_le hd hgb (trialConfig level o).flags (by show o ≤ 7; exact ho) head _ hlen htab
    hcong 63 hcode
  have h1 : (trainedTable F O pick gb d (trialConfig level o) head).length * (420 + 63) ≤ 64 * 483 :=
    Nat.mul_le_mul hl64 (Nat.le_refl _)
  have hle : trialBytes F O pick gb d head level o ≤ (1167 + 64 * 483 + head.length * 240) / 8 := by
    unfold trialBytes trialChunk
    rw [hhs]
    apply Nat.div_le_div_right
    have h2 : head.length * (177 + 63) = head.length * 240 := rfl
    rw [h2] at hch
    exact Nat.le_trans (Nat.add_le_add_left hch 48) (by omega)
  refine ⟨hle, Nat.lt_of_le_of_lt hle ?_⟩
  have e24 : (2 : Nat) ^ 24 = 16777216 := by decide
  rw [e24] at hlen
  have e64 : usizeMax = 18446744073709551615 := by decide
  rw [e64]
  omega

end

end AutoLit
end Qco
