/-
Layer AL, part 2: one trial compression of `auto_delta_encoding_order`.

On a non-empty head of at most `2^24 − 1` valid numbers, at a level `≤ 6`, with an order `≤ 7`, with the literal
`train_prefixes` as the training oracle: `header().unwrap()` and `chunk(head_nums).unwrap()` do not panic and
`byte_size()` is the byte length of the header followed by the chunk determined by the numbers and the trained
table (`trialBytes`).  The codes of the trained table are at most 63 bits long (`trained_code_lt`: at most `2^6`
ranges, a complete prefix code), which is what `CompLit.TableOk` asks (64); `CodesFit` (`< 32`) is NOT needed.
-/
import Qco.Lemmas.E2E.Compose
import Qco.Lemmas.AutoLit.CodeLen
import Qco.Glue.AutoLit
namespace Qco
namespace AutoLit
open Train TrainLit
open Qco.WB Qco.MetaIO Qco.Op Qco.CompLit Qco.E2E

/-! ### the trained table without `CodesFit` -/

/-- the codes of a trained table are shorter than the number of ranges allowed at the level: `|code| + 1 ≤ 2^level` -/
theorem trained_code_lt {gb : Nat → Nat} {level : Nat} {gcds : Bool} {us : List Nat} {ps : List Prefix}
    (h : Trained gb level gcds us ps) : ∀ p ∈ ps, p.code.length + 1 ≤ 2 ^ level := by
  obtain ⟨_, _, _, _, _, htree, hleaves⟩ := wfc_all h.wfc
  have hne := h.ne
  have hct : completeTree (ps.map (·.code)) = true := by
    unfold treeB at htree
    cases ps with
    | nil => exact absurd rfl hne
    | cons _ _ => simpa using htree
  have hlen : ps.length ≤ 2 ^ level := by simpa [leavesB] using hleaves
  intro p hp
  have := completeTree_length_lt _ hct p.code (List.mem_map_of_mem hp)
  rw [List.length_map] at this
  omega

/-- the number of ranges of a trained table is at most `2^level` -/
theorem trained_length_le {gb : Nat → Nat} {level : Nat} {gcds : Bool} {us : List Nat} {ps : List Prefix}
    (h : Trained gb level gcds us ps) : ps.length ≤ 2 ^ level := by
  obtain ⟨_, _, _, _, _, _, hleaves⟩ := wfc_all h.wfc
  simpa [leavesB] using hleaves

/-- `E2E.tableOk_of_trained` with the hypothesis the literal compressor really needs: codes of at most 64 bits -/
theorem tableOk_of_trained64 {gb : Nat → Nat} {level : Nat} {d : DType} {fl : Flags} {nums : List Nat}
    {ps : List Prefix} (h : Trained gb level fl.gcds (codedUs d fl nums) ps)
    (hU : ∀ u ∈ codedUs d fl nums, u < 2 ^ d.uBits) (hn : nums.length ≤ 2 ^ 24 - 1)
    (hc : ∀ p ∈ ps, p.code.length ≤ 64) : CompLit.TableOk d fl nums ps := by
  obtain ⟨_, hdis, hcov, _, _, _, _⟩ := wfc_all h.wfc
  refine ⟨?_, hdis, ?_, hcov⟩
  · intro p hp
    exact ⟨trained_bounds h p hp, hU _ (h.upper_mem p hp), trained_gcd_pos h p hp, hc p hp, h.jump_le p hp,
      trained_count_pos h p hp⟩
  · rw [h.counts]
    have := CompLit.codedUs_length_le d fl nums
    have h64 : Qco.WB.USIZE = 18446744073709551616 := rfl
    omega

section
variable {C : Type} {F : Floats} {O : CostOracle C} {pick : Nat → List HItem → Nat} {gb est : Nat → Nat}
  {d : DType}

/-- what a chunk at a level `≤ 6` needs of training, WITHOUT `CodesFit`: the literal `train_prefixes` answers the
table `trainedTable`; it satisfies `TableOk`; it has at most 64 ranges and codes of at most 63 bits; the numbers of
a range are congruent modulo its divisor -/
theorem small_level_facts (hr : RowOk d) {cfg : CConfig} (hlev : cfg.level ≤ 6) (hfin : CostFinite O)
    (hp : PickOK pick) {nums : List Nat} (hlen : nums.length ≤ 2 ^ 24 - 1) (hv : ∀ v ∈ nums, C12.valid d v)
    (hF : FloatsAgree F (codedUs d cfg.flags nums).length) (hW : RunWeightOK F (codedUs d cfg.flags nums).length) :
    trainOracle F O pick gb d (codedUs d cfg.flags nums) { compressionLevel := cfg.level } cfg.flags nums.length
        = .ok (trainedTable F O pick gb d cfg nums) ∧
    TableOk d cfg.flags nums (trainedTable F O pick gb d cfg nums) ∧
    (trainedTable F O pick gb d cfg nums).length ≤ 64 ∧
    (∀ p ∈ trainedTable F O pick gb d cfg nums, p.code.length ≤ 63) ∧
    congruentB (trainedTable F O pick gb d cfg nums) (codedUs d cfg.flags nums) = true := by
  by_cases hus : codedUs d cfg.flags nums = []
  · have hor : trainOracle F O pick gb d (codedUs d cfg.flags nums) { compressionLevel := cfg.level } cfg.flags
        nums.length = .ok [] := by
      rw [hus]; rfl
    have htt : trainedTable F O pick gb d cfg nums = [] := by
      unfold trainedTable; rw [hor]
    rw [htt, hor]
    exact ⟨rfl, tableOk_nil hus, by simp, fun p hp => (by cases hp), rfl⟩
  · have hU := codedUs_lt hr cfg.flags nums hv
    obtain ⟨ps, hps, hT⟩ := trainLit_trained F O pick d.uBits gb (codedUs d cfg.flags nums) cfg.level
      cfg.flags.gcds nums.length hus (by omega) (by unfold MAX_ENTRIES; exact hlen)
      (codedUs_length_le d cfg.flags nums) hU hF hW hfin hp
    have hor : trainOracle F O pick gb d (codedUs d cfg.flags nums) { compressionLevel := cfg.level } cfg.flags
        nums.length = .ok ps := by
      unfold trainOracle
      simp only [hps]
    have htt : trainedTable F O pick gb d cfg nums = ps := by
      unfold trainedTable; rw [hor]
    rw [htt, hor]
    have hpow : 2 ^ cfg.level ≤ 64 := by
      calc 2 ^ cfg.level ≤ 2 ^ 6 := Nat.pow_le_pow_right (by omega) hlev
        _ = 64 := by decide
    have hcode : ∀ p ∈ ps, p.code.length ≤ 63 := by
      intro p hp
      have := trained_code_lt hT p hp
      omega
    refine ⟨rfl, tableOk_of_trained64 hT hU hlen (fun p hp => by have := hcode p hp; omega), ?_, hcode,
      (wfc_all hT.wfc).2.2.2.2.1⟩
    have := trained_length_le hT
    omega

/-- at every legal level the codes of the table `train_prefixes` answers are shorter than `2^level` bits -/
theorem trainedTable_code_lt (hr : RowOk d) {cfg : CConfig} (hlev : cfg.level ≤ 12) (hfin : CostFinite O)
    (hp : PickOK pick) {nums : List Nat} (hlen : nums.length ≤ 2 ^ 24 - 1) (hv : ∀ v ∈ nums, C12.valid d v)
    (hF : FloatsAgree F (codedUs d cfg.flags nums).length) (hW : RunWeightOK F (codedUs d cfg.flags nums).length) :
    ∀ p ∈ trainedTable F O pick gb d cfg nums, p.code.length + 1 ≤ 2 ^ cfg.level := by
  by_cases hus : codedUs d cfg.flags nums = []
  · have hor : trainOracle F O pick gb d (codedUs d cfg.flags nums) { compressionLevel := cfg.level } cfg.flags
        nums.length = .ok [] := by
      rw [hus]; rfl
    have htt : trainedTable F O pick gb d cfg nums = [] := by
      unfold trainedTable; rw [hor]
    rw [htt]
    intro p hp; cases hp
  · have hU := codedUs_lt hr cfg.flags nums hv
    obtain ⟨ps, hps, hT⟩ := trainLit_trained F O pick d.uBits gb (codedUs d cfg.flags nums) cfg.level
      cfg.flags.gcds nums.length hus hlev (by unfold MAX_ENTRIES; exact hlen)
      (codedUs_length_le d cfg.flags nums) hU hF hW hfin hp
    have hor : trainOracle F O pick gb d (codedUs d cfg.flags nums) { compressionLevel := cfg.level } cfg.flags
        nums.length = .ok ps := by
      unfold trainOracle
      simp only [hps]
    have htt : trainedTable F O pick gb d cfg nums = ps := by
      unfold trainedTable; rw [hor]
    rw [htt]
    exact trained_code_lt hT

/-- **at the levels `0..=5` `CodesFit` is a theorem**: at most `2^5` ranges, so codes of at most 31 bits; C01l's
`ChunkOk` then asks nothing about the trained table -/
theorem chunkOk_of_level_le_5 (hr : RowOk d) {cfg : CConfig} (hlev : cfg.level ≤ 5) (hfin : CostFinite O)
    (hp : PickOK pick) {nums : List Nat} (hne : nums ≠ []) (hlen : nums.length ≤ 2 ^ 24 - 1)
    (hnum : ∀ v ∈ nums, NumOk d v)
    (hF : FloatsAgree F (codedUs d cfg.flags nums).length) (hW : RunWeightOK F (codedUs d cfg.flags nums).length) :
    ChunkOk F O pick gb d cfg nums := by
  refine ⟨hne, hlen, hnum, hF, hW, ?_⟩
  intro p hp'
  have h1 := trainedTable_code_lt (gb := gb) hr (by omega) hfin hp hlen (fun v hv => (hnum v hv).1) hF hW p hp'
  have h2 : 2 ^ cfg.level ≤ 2 ^ 5 := Nat.pow_le_pow_right (by omega) hlev
  have h3 : (2 : Nat) ^ 5 = 32 := by decide
  omega

/-! ### one trial -/

theorem trialConfig_fields (level o : Nat) :
    (trialConfig level o).order = o ∧ (trialConfig level o).level = min level 6 ∧
      (trialConfig level o).gcds = false := ⟨rfl, rfl, rfl⟩

/-- the chunk of the abstract syntax a trial writes -/
def trialChunk {C : Type} (F : Floats) (O : CostOracle C) (pick : Nat → List HItem → Nat) (gb : Nat → Nat)
    (d : DType) (head : List Nat) (level o : Nat) : AChunk :=
  trainedOf (trialConfig level o).flags d head (trainedTable F O pick gb d (trialConfig level o) head)

/-- what `byte_size()` answers in the trial of order `o`: 6 bytes of header and the chunk -/
def trialBytes {C : Type} (F : Floats) (O : CostOracle C) (pick : Nat → List HItem → Nat) (gb : Nat → Nat)
    (d : DType) (head : List Nat) (level o : Nat) : Nat :=
  ((encHeader d (trialConfig level o).flags).length
    + (encChunk gb d (trialConfig level o).flags (trialChunk F O pick gb d head level o)).length) / 8

/-- **one trial does not panic**: on a non-empty head of at most `2^24 − 1` valid numbers, for every requested
level (the trial level is `min level 6`) and every order `≤ 7`, `header().unwrap()` and `chunk(head).unwrap()`
answer `Ok` and `byte_size()` is `trialBytes` -/
theorem trialSize_ok (hr : RowOk d) (hgb : ∀ x, gb x ≤ d.uBits) (hest : BodyWriter.EstOk d.uBits est)
    (hfin : CostFinite O) (hp : PickOK pick) {head : List Nat} (hne : head ≠ [])
    (hlen : head.length ≤ 2 ^ 24 - 1) (hv : ∀ v ∈ head, C12.valid d v)
    (hF : ∀ m, m ≤ head.length → FloatsAgree F m ∧ RunWeightOK F m) (level : Nat) {o : Nat} (ho : o ≤ 7) :
    trialSize gb est d (trainOracle F O pick gb d) head level o = .ok (trialBytes F O pick gb d head level o) := by
  generalize hcfg : trialConfig level o = cfg
  have hord : cfg.order = o := by rw [← hcfg]; rfl
  have hlv : cfg.level ≤ 6 := by
    rw [← hcfg]; show min level 6 ≤ 6; exact Nat.min_le_right _ _
  have henv : EnvOk gb est d :=
    ⟨hr.2.2.1, hr.1, fun x => Nat.le_trans (hgb x) (Nat.le_max_left _ _), hest⟩
  have hcl := codedUs_length_le d cfg.flags head
  obtain ⟨htr, htab, _, _, _⟩ := small_level_facts (F := F) (O := O) (pick := pick) (gb := gb) hr hlv hfin hp hlen hv
    (hF _ hcl).1 (hF _ hcl).2
  -- header
  obtain ⟨l1, e1, hs1⟩ := header_ok henv (CompLit.csim_init cfg) rfl rfl (by omega)
  -- chunk
  have htr' : trainOracle F O pick gb d (codedUs d cfg.flags head) l1.internalConfig l1.flags head.length
      = .ok (trainedTable F O pick gb d cfg head) := by
    rw [internalConfig_eq hs1, hs1.flags]; exact htr
  have hhs : (encHeader d cfg.flags).length = 48 := C02.header_size d cfg.flags (by show cfg.order ≤ 7; omega)
  obtain ⟨rm, l2, e2, _, hs2⟩ := chunk_ok henv hs1 rfl rfl hne (by omega) hlen htr' htab
    (by
      show (CSt.init.pending ++ encHeader d cfg.flags).length + 32 < USIZE
      simp only [CSt.init, List.nil_append, hhs]
      decide)
  have hbs := byteSize_refines hs2
  unfold trialSize trialBytes trialChunk
  rw [hcfg]
  simp only [CM.bind, unwrapCM, e1, e2, hbs, cByteSize, CSt.init, List.nil_append, List.length_append]

end

end AutoLit
end Qco
