/-
Layer W, part 2: `compress_offset_bits_w_prefix`, `compress_nums`, `trained_compress_chunk_nums` emit exactly
the spec encoding (`encOffset`, `encBlocks` of the greedy grouping, `encBody`).
-/
import Qco.Lemmas.BodyWriterTable
import Qco.Lemmas.WordsProofs
import Qco.Lemmas.Greedy
namespace Qco.BodyWriter
open Qco Qco.WB

/-! ### small facts -/

theorem natBits_bitsNat' (bs : Bits) : natBits bs.length (bitsNat bs) = bs := by
  generalize hn : bs.length = n
  induction n generalizing bs with
  | zero =>
    have : bs = [] := List.eq_nil_of_length_eq_zero hn
    subst this; rfl
  | succ n ih =>
    rcases List.eq_nil_or_concat bs with rfl | ⟨init, b, rfl⟩
    · simp at hn
    · rw [List.concat_eq_append] at hn ⊢
      have hl : init.length = n := by simpa using hn
      rw [natBits, bitsNat_snoc]
      have h1 : (2 * bitsNat init + b.toNat) / 2 = bitsNat init := by cases b <;> simp <;> omega
      have h2 : ((2 * bitsNat init + b.toNat) % 2 == 1) = b := by cases b <;> simp <;> omega
      rw [h1, h2, ih init hl]

theorem take_takeWhile_length (q : Nat → Bool) (l : List Nat) : l.take (l.takeWhile q).length = l.takeWhile q := by
  induction l with
  | nil => rfl
  | cons a l ih =>
    simp only [List.takeWhile_cons]
    split
    · simp [ih]
    · simp

theorem drop_takeWhile_length (q : Nat → Bool) (l : List Nat) : l.drop (l.takeWhile q).length = l.dropWhile q := by
  induction l with
  | nil => rfl
  | cons a l ih =>
    simp only [List.takeWhile_cons, List.dropWhile_cons]
    split
    · simp [ih]
    · simp

theorem countReps_eq (p : Info) : ∀ (l : List Nat) (reps : Nat),
    countReps p l reps = reps + (l.takeWhile p.contains).length := by
  intro l
  induction l with
  | nil => intro reps; rfl
  | cons a l ih =>
    intro reps
    rw [countReps, List.takeWhile_cons]
    split
    · rw [ih]; simp; omega
    · rfl

theorem infoOf_contains_fun (p : Prefix) : (infoOf p).contains = p.contains := funext (infoOf_contains p)

/-- `(off & (U::ONE << k)) > U::ZERO` is the bit the model writes -/
theorem msb_eq_and (off k : Nat) : (off / 2^k % 2 == 1) = decide (off &&& (1 <<< k) > 0) := by
  rw [Nat.shiftLeft_eq, Nat.one_mul, and_two_pow, bit_eq_testBit]
  cases off.testBit k with
  | true => simp [Nat.two_pow_pos]
  | false => simp

theorem padToByte_append_aligned (a b : Bits) (h : a.length % 8 = 0) :
    padToByte (a ++ b) = a ++ padToByte b := by
  unfold padToByte
  rw [List.append_assoc, List.length_append]
  have : (a.length + b.length) % 8 = b.length % 8 := by omega
  rw [this]

/-! ### (b) `compress_offset_bits_w_prefix` -/

/-- **(b)** the offset writer appends exactly `encOffset r k off` with `r`, `k` of the spec table
(`Prefix.info`) and `off = Prefix.off`: `only_k_bits_upper = 2^k − 1`, `only_k_bits_lower = r − (2^k − 1)`
make the source's condition `off < only_k_bits_lower || off > only_k_bits_upper` the spec's.  `TrivialGcdOp`
(`general = false`) is only used when the divisor is 1 or the range single-valued. -/
theorem compressOffsetBits_spec {ub : Nat} (hub : ub ≤ 128) (general : Bool) (p : Prefix) (hp : PrefixOk ub p)
    (hgen : general = false → p.gcd = 1 ∨ p.upper = p.lower) (u : Nat) (hc : p.contains u = true)
    {wr : Writer} (hw : WInv wr) :
    ∃ wr', compressOffsetBits ub general u (infoOf p) wr = .ok wr' ∧
      wr'.bits = wr.bits ++ encOffset p.info.r p.info.k (p.off u) ∧ WInv wr' := by
  simp only [Prefix.contains, Bool.and_eq_true, decide_eq_true_eq] at hc
  have hb := hp.bounds
  have hg := hp.gcd_pos
  have hoff : getOffset general (u - p.lower) p.gcd = .ok (p.off u) := by
    unfold getOffset Prefix.off
    cases general with
    | true => simp only [if_true]; rw [if_neg (by omega)]
    | false =>
      simp only [Bool.false_eq_true, if_false]
      rcases hgen rfl with h | h
      · rw [h, Nat.div_one]
      · have : u - p.lower = 0 := by omega
        rw [this, Nat.zero_div]
  have hr : rOf p < 2^ub := by
    unfold rOf
    exact Nat.lt_of_le_of_lt (Nat.div_le_self _ _) (by have := hp.upper_lt; omega)
  have hk : Nat.log2 (rOf p + 1) ≤ ub := log2_le_of_lt hr
  have hole : p.off u ≤ rOf p := Nat.div_le_div_right (by omega)
  have h1 : 2^Nat.log2 (rOf p + 1) ≤ rOf p + 1 := Nat.log2_self_le (by omega)
  have hinfo_r : p.info.r = rOf p := rfl
  have hinfo_k : p.info.k = Nat.log2 (rOf p + 1) := rfl
  obtain ⟨wr1, e1, hb1, hi1⟩ := writeDiff_spec (ub := ub) hw (p.off u) (n := Nat.log2 (rOf p + 1))
    (by omega) (by have : USIZE = 18446744073709551616 := rfl; omega)
  unfold compressOffsetBits
  have hlow : (infoOf p).lower = p.lower := rfl
  have hgcd : (infoOf p).gcd = p.gcd := rfl
  have hkk : (infoOf p).k = Nat.log2 (rOf p + 1) := rfl
  have hokl : (infoOf p).onlyKLower = rOf p - (2^Nat.log2 (rOf p + 1) - 1) := rfl
  have hoku : (infoOf p).onlyKUpper = 2^Nat.log2 (rOf p + 1) - 1 := rfl
  rw [hlow, hgcd, hkk, hokl, hoku, if_neg (by omega), hoff]
  simp only
  rw [e1]
  simp only
  rw [hinfo_r, hinfo_k]
  unfold encOffset
  generalize Nat.log2 (rOf p + 1) = k at *
  generalize rOf p = r at *
  generalize p.off u = off at *
  by_cases hcond : off < r - (2^k - 1) ∨ off > 2^k - 1
  · have hcb : (decide (off < r - (2^k - 1)) || decide (off > 2^k - 1)) = true := by simpa using hcond
    rw [if_pos hcb, if_pos hcond]
    have hkub : ¬ k ≥ ub := by
      intro hge
      have hke : k = ub := by omega
      subst hke
      omega
    rw [if_neg hkub]
    obtain ⟨h2, h3⟩ := writeOne_spec hi1 (off / 2^k % 2 == 1)
    exact ⟨_, rfl, by rw [h2, hb1, List.append_assoc], h3⟩
  · have hcb : ¬ (decide (off < r - (2^k - 1)) || decide (off > 2^k - 1)) = true := by simpa using hcond
    rw [if_neg hcb, if_neg hcond]
    exact ⟨wr1, rfl, by rw [hb1]; simp, hi1⟩

theorem offsetsLoop_spec {ub : Nat} (hub : ub ≤ 128) (general : Bool) (p : Prefix) (hp : PrefixOk ub p)
    (hgen : general = false → p.gcd = 1 ∨ p.upper = p.lower) :
    ∀ (us : List Nat), (∀ u ∈ us, p.contains u = true) → ∀ {wr : Writer}, WInv wr →
    ∃ wr', offsetsLoop ub general (infoOf p) us wr = .ok wr' ∧
      wr'.bits = wr.bits ++ encOffsets p.info (us.map p.off) ∧ WInv wr' := by
  intro us
  induction us with
  | nil => intro _ wr hw; exact ⟨wr, rfl, by simp [encOffsets], hw⟩
  | cons u us ih =>
    intro hc wr hw
    obtain ⟨wr1, e1, hb1, hi1⟩ := compressOffsetBits_spec hub general p hp hgen u (hc u List.mem_cons_self) hw
    obtain ⟨wr2, e2, hb2, hi2⟩ := ih (fun v hv => hc v (List.mem_cons_of_mem _ hv)) hi1
    refine ⟨wr2, ?_, ?_, hi2⟩
    · rw [offsetsLoop, e1]; exact e2
    · rw [hb2, hb1, List.map_cons, encOffsets, List.append_assoc]

/-! ### (c) `compress_nums` -/

theorem tableOf_code (ps : List Prefix) (i : Nat) (hi : i < ps.length) : (tableOf ps).code i = ps[i].code := by
  simp [tableOf, Table.code, List.getD_eq_getElem?_getD, hi]

theorem tableOf_info (ps : List Prefix) (i : Nat) (hi : i < ps.length) : (tableOf ps).info i = ps[i].info := by
  simp [tableOf, Table.info, List.getD_eq_getElem?_getD, hi]

/-- what `compress_nums` needs from its table: `search` is `findPrefix` (see `search_eq_findPrefix`) -/
def SearchIs (t : CTable) (ps : List Prefix) : Prop :=
  ∀ u, t.search u =
    match findPrefix ps u with
    | some i => .ok (infoOf (ps.getD i default))
    | none => .err "InvalidArgument"

/-- the `while` loop of `compress_nums`: block by block the greedy grouping of the spec -/
theorem compressLoop_spec {ub : Nat} (hub : ub ≤ 128) (ps : List Prefix) (hok : ∀ p ∈ ps, PrefixOk ub p)
    (t : CTable) (hsearch : SearchIs t ps) (general : Bool)
    (hgen : general = false → ∀ p ∈ ps, p.gcd = 1 ∨ p.upper = p.lower) :
    ∀ (fuel : Nat) (us : List Nat) (wr : Writer), us.length ≤ fuel → us.length ≤ 2^24 → WInv wr →
      (∀ bs, greedyBlocks ps fuel us = some bs →
        ∃ wr', compressLoop ub general t fuel us wr = .ok wr' ∧
          wr'.bits = wr.bits ++ encBlocks (tableOf ps) bs ∧ WInv wr') ∧
      (greedyBlocks ps fuel us = none → compressLoop ub general t fuel us wr = .err "InvalidArgument") := by
  intro fuel
  induction fuel with
  | zero =>
    intro us wr hl _ hw
    have : us = [] := List.eq_nil_of_length_eq_zero (by omega)
    subst this
    refine ⟨?_, by simp [greedyBlocks]⟩
    intro bs hbs
    simp only [greedyBlocks, Option.some.injEq] at hbs
    subst hbs
    exact ⟨wr, rfl, by simp [encBlocks], hw⟩
  | succ fuel ih =>
    intro us wr hl hl24 hw
    cases us with
    | nil =>
      refine ⟨?_, by simp [greedyBlocks]⟩
      intro bs hbs
      simp only [greedyBlocks, Option.some.injEq] at hbs
      subst hbs
      exact ⟨wr, rfl, by simp [encBlocks], hw⟩
    | cons u rest =>
      simp only [List.length_cons] at hl hl24
      have hs := hsearch u
      cases hf : findPrefix ps u with
      | none =>
        rw [hf] at hs
        replace hs : t.search u = .err "InvalidArgument" := hs
        refine ⟨?_, ?_⟩
        · intro bs hbs; rw [greedyBlocks_cons_none ps fuel u rest hf] at hbs; cases hbs
        · intro _; rw [compressLoop, hs]
      | some i =>
        rw [hf] at hs
        obtain ⟨hi, hc⟩ := findPrefix_some hf
        have hget : ps.getD i default = ps[i] := by simp [List.getD_eq_getElem?_getD, hi]
        replace hs : t.search u = .ok (infoOf (ps.getD i default)) := hs
        rw [hget] at hs
        have hmem : ps[i] ∈ ps := List.getElem_mem hi
        have hp := hok _ hmem
        obtain ⟨wr1, e1, hb1, hi1⟩ := writeUsize_spec hw (bitsNat ps[i].code) hp.code_len
        rw [natBits_bitsNat'] at hb1
        have hcode : (infoOf ps[i]).code = bitsNat ps[i].code := rfl
        have hcl : (infoOf ps[i]).codeLen = ps[i].code.length := rfl
        have hjump : (infoOf ps[i]).jump = ps[i].jump := rfl
        have hgen' : general = false → ps[i].gcd = 1 ∨ ps[i].upper = ps[i].lower := fun h => hgen h _ hmem
        cases hj : ps[i].jump with
        | none =>
          have hjD : (ps.getD i default).jump = none := by rw [hget]; exact hj
          rw [greedyBlocks_cons_one ps fuel u rest i hf hjD, hget]
          obtain ⟨wr2, e2, hb2, hi2⟩ := compressOffsetBits_spec hub general ps[i] hp hgen' u hc hi1
          obtain ⟨ihs, ihn⟩ := ih rest wr2 (by omega) (by omega) hi2
          have hstep : compressLoop ub general t (fuel + 1) (u :: rest) wr
              = compressLoop ub general t fuel rest wr2 := by
            rw [compressLoop, hs]
            simp only
            rw [hcode, hcl, e1]
            simp only
            rw [hjump, hj]
            simp only
            rw [e2]
          rw [hstep]
          refine ⟨?_, ?_⟩
          · intro bs hbs
            obtain ⟨bs', hbs', rfl⟩ := Option.map_eq_some_iff.mp hbs
            obtain ⟨wr', e', hb', hi'⟩ := ihs bs' hbs'
            refine ⟨wr', e', ?_, hi'⟩
            rw [hb', hb2, hb1, encBlocks, encBlock, tableOf_code ps i hi, tableOf_info ps i hi]
            simp only [List.append_assoc]
          · intro hnone
            have : greedyBlocks ps fuel rest = none := by
              cases h : greedyBlocks ps fuel rest with
              | none => rfl
              | some b => rw [h] at hnone; simp at hnone
            exact ihn this
        | some j =>
          have hjD : (ps.getD i default).jump = some j := by rw [hget]; exact hj
          rw [greedyBlocks_cons_run ps fuel u rest i j hf hjD, hget]
          have hreps : countReps (infoOf ps[i]) rest 1 = 1 + (rest.takeWhile ps[i].contains).length := by
            rw [countReps_eq, infoOf_contains_fun]
          have hrunle := Qco.length_takeWhile_le ps[i].contains rest
          obtain ⟨wr2, e2, hb2, hi2⟩ := writeVarint_spec hi1
            (x := (rest.takeWhile ps[i].contains).length) (j := j) (by omega) (hp.jump_le j hj)
          have htake : (u :: rest).take (1 + (rest.takeWhile ps[i].contains).length)
              = u :: rest.takeWhile ps[i].contains := by
            rw [Nat.add_comm, List.take_succ_cons, take_takeWhile_length]
          have hdrop : (u :: rest).drop (1 + (rest.takeWhile ps[i].contains).length)
              = rest.dropWhile ps[i].contains := by
            rw [Nat.add_comm, List.drop_succ_cons, drop_takeWhile_length]
          obtain ⟨wr3, e3, hb3, hi3⟩ := offsetsLoop_spec hub general ps[i] hp hgen'
            (u :: rest.takeWhile ps[i].contains)
            (by
              intro v hv
              rcases List.mem_cons.mp hv with rfl | hv
              · exact hc
              · exact (Qco.mem_takeWhile hv).2)
            hi2
          have hdl := Qco.length_dropWhile_le ps[i].contains rest
          obtain ⟨ihs, ihn⟩ := ih (rest.dropWhile ps[i].contains) wr3 (by omega) (by omega) hi3
          have hstep : compressLoop ub general t (fuel + 1) (u :: rest) wr
              = compressLoop ub general t fuel (rest.dropWhile ps[i].contains) wr3 := by
            rw [compressLoop, hs]
            simp only
            rw [hcode, hcl, e1]
            simp only
            rw [hjump, hj]
            simp only
            rw [hreps, Nat.add_sub_cancel_left, e2]
            simp only
            rw [htake, e3]
            simp only
            rw [hdrop]
          rw [hstep]
          refine ⟨?_, ?_⟩
          · intro bs hbs
            obtain ⟨bs', hbs', rfl⟩ := Option.map_eq_some_iff.mp hbs
            obtain ⟨wr', e', hb', hi'⟩ := ihs bs' hbs'
            refine ⟨wr', e', ?_, hi'⟩
            have hinfoj : ps[i].info.jump = some j := hj
            rw [hb', hb3, hb2, hb1, encBlocks, encBlock, tableOf_code ps i hi, tableOf_info ps i hi,
              hinfoj, Option.getD_some, List.length_map, List.map_cons, encOffsets]
            simp only [List.append_assoc, nEntriesBits]
          · intro hnone
            have : greedyBlocks ps fuel (rest.dropWhile ps[i].contains) = none := by
              cases h : greedyBlocks ps fuel (rest.dropWhile ps[i].contains) with
              | none => rfl
              | some b => rw [h] at hnone; simp at hnone
            exact ihn this

theorem useGcdArithmetic_false {ub : Nat} (ps : List Prefix) (hok : ∀ p ∈ ps, PrefixOk ub p)
    (h : useGcdArithmetic ps = false) : ∀ p ∈ ps, p.gcd = 1 ∨ p.upper = p.lower := by
  intro p hp
  unfold useGcdArithmetic at h
  rw [List.any_eq_false] at h
  have h1 := h p hp
  have h2 := (hok p hp).gcd_pos
  simp only [Bool.and_eq_true, decide_eq_true_eq, Bool.not_eq_true', beq_eq_false_iff_ne, ne_eq, not_and,
    Decidable.not_not] at h1
  by_cases hg : p.gcd > 1
  · right; exact h1 hg
  · left; omega

/-- `compress_nums` with a table whose `search` is `findPrefix` -/
theorem compressNums_table_spec {ub : Nat} (hub : ub ≤ 128) (ps : List Prefix) (hok : ∀ p ∈ ps, PrefixOk ub p)
    (t : CTable) (hsearch : SearchIs t ps) (us : List Nat) (hlen : us.length ≤ 2^24)
    {wr : Writer} (hw : WInv wr) :
    (∀ bs, greedyBlocks ps us.length us = some bs →
      ∃ wr', compressNums ub (useGcdArithmetic ps) t us wr = .ok wr' ∧
        wr'.bits = padToByte (wr.bits ++ encBlocks (tableOf ps) bs) ∧ WInv wr' ∧ wr'.j % 8 = 0) ∧
    (greedyBlocks ps us.length us = none →
      compressNums ub (useGcdArithmetic ps) t us wr = .err "InvalidArgument") := by
  obtain ⟨hs, hn⟩ := compressLoop_spec hub ps hok t hsearch (useGcdArithmetic ps)
    (fun h => useGcdArithmetic_false ps hok h) us.length us wr (Nat.le_refl _) hlen hw
  refine ⟨?_, ?_⟩
  · intro bs hbs
    obtain ⟨wr1, e1, hb1, hi1⟩ := hs bs hbs
    obtain ⟨f1, f2, f3⟩ := finishByte_spec hi1
    refine ⟨wr1.finishByte, ?_, ?_, f2, f3⟩
    · rw [compressNums, e1]
    · rw [finishByte_padToByte hi1, hb1]
  · intro hnone
    rw [compressNums, hn hnone]

/-! ### `trained_compress_chunk_nums` -/

/-- **(c)** the literal chunk-body writer against the spec.  For a legal table (`ps ≠ []`, every prefix
`PrefixOk`, ranges pairwise disjoint) and *every* list of at most `2^24` numbers: if the greedy grouping of
the spec exists (`greedyBlocks`, i.e. every number lies in some range) the writer returns `Ok` and its
content is the old content followed by `encBlocks (tableOf ps) bs`, zero-padded to a byte boundary; if some
number lies in no range it returns the `invalid argument` error.  In particular it never panics. -/
theorem compressNums_spec {ub : Nat} {est : Nat → Nat} (hub : ub ≤ 128) (hest : EstOk ub est)
    (ps : List Prefix) (hne : ps ≠ []) (hok : ∀ p ∈ ps, PrefixOk ub p) (hd : disjointB ps = true)
    (hcs : 16 * (ps.map (·.count)).sum < USIZE) (us : List Nat) (hlen : us.length ≤ 2^24) {wr : Writer} (hw : WInv wr) :
    (∀ bs, greedyBlocks ps us.length us = some bs →
      ∃ wr', trainedCompressChunkNums ub est ps us wr = .ok wr' ∧
        wr'.bits = padToByte (wr.bits ++ encBlocks (tableOf ps) bs) ∧ WInv wr' ∧ wr'.j % 8 = 0) ∧
    (greedyBlocks ps us.length us = none →
      trainedCompressChunkNums ub est ps us wr = .err "InvalidArgument") := by
  obtain ⟨t, ht, hsearch⟩ := search_eq_findPrefix hest ps hne hok hd hcs
  have := compressNums_table_spec hub ps hok t hsearch us hlen hw
  unfold trainedCompressChunkNums
  rw [ht]
  exact this

/-- **(c)**, as the library uses it: the chunk body starts byte-aligned, and then the writer appends
exactly `encBody ps bs` -/
theorem compressNums_spec_aligned {ub : Nat} {est : Nat → Nat} (hub : ub ≤ 128) (hest : EstOk ub est)
    (ps : List Prefix) (hne : ps ≠ []) (hok : ∀ p ∈ ps, PrefixOk ub p) (hd : disjointB ps = true)
    (hcs : 16 * (ps.map (·.count)).sum < USIZE) (us : List Nat) (hlen : us.length ≤ 2^24) {wr : Writer} (hw : WInv wr) (hal : wr.bits.length % 8 = 0)
    (bs : List Block) (hbs : greedyBlocks ps us.length us = some bs) :
    ∃ wr', trainedCompressChunkNums ub est ps us wr = .ok wr' ∧
      wr'.bits = wr.bits ++ encBody ps bs ∧ WInv wr' ∧ wr'.j % 8 = 0 := by
  obtain ⟨wr', e, hb, hi, hj⟩ := (compressNums_spec hub hest ps hne hok hd hcs us hlen hw).1 bs hbs
  exact ⟨wr', e, by rw [hb, padToByte_append_aligned _ _ hal]; rfl, hi, hj⟩

/-- no outcome other than `Ok` and the `invalid argument` error: no panic, no stack overflow, no fuel artefact -/
theorem compressNums_total {ub : Nat} {est : Nat → Nat} (hub : ub ≤ 128) (hest : EstOk ub est)
    (ps : List Prefix) (hne : ps ≠ []) (hok : ∀ p ∈ ps, PrefixOk ub p) (hd : disjointB ps = true)
    (hcs : 16 * (ps.map (·.count)).sum < USIZE) (us : List Nat) (hlen : us.length ≤ 2^24) {wr : Writer} (hw : WInv wr) :
    (∃ wr', trainedCompressChunkNums ub est ps us wr = .ok wr') ∨
      trainedCompressChunkNums ub est ps us wr = .err "InvalidArgument" := by
  obtain ⟨h1, h2⟩ := compressNums_spec hub hest ps hne hok hd hcs us hlen hw
  cases h : greedyBlocks ps us.length us with
  | none => exact Or.inr (h2 h)
  | some bs => obtain ⟨wr', e, _⟩ := h1 bs h; exact Or.inl ⟨wr', e⟩

/-- the writer succeeds exactly on covered inputs -/
theorem compressNums_ok_iff_cover {ub : Nat} {est : Nat → Nat} (hub : ub ≤ 128) (hest : EstOk ub est)
    (ps : List Prefix) (hne : ps ≠ []) (hok : ∀ p ∈ ps, PrefixOk ub p) (hd : disjointB ps = true)
    (hcs : 16 * (ps.map (·.count)).sum < USIZE) (us : List Nat) (hlen : us.length ≤ 2^24) {wr : Writer} (hw : WInv wr) :
    (∃ wr', trainedCompressChunkNums ub est ps us wr = .ok wr') ↔ coverB ps us = true := by
  obtain ⟨h1, h2⟩ := compressNums_spec hub hest ps hne hok hd hcs us hlen hw
  constructor
  · rintro ⟨wr', e⟩
    cases h : greedyBlocks ps us.length us with
    | none => rw [h2 h] at e; cases e
    | some bs =>
      -- a successful grouping says every number was found in a range
      rw [coverB, List.all_eq_true]
      intro u hu
      have key : ∀ (fuel : Nat) (us : List Nat) (bs : List Block), greedyBlocks ps fuel us = some bs →
          ∀ u ∈ us, (ps.any fun p => p.contains u) = true := by
        intro fuel
        induction fuel with
        | zero =>
          intro us bs h u hu
          cases us with
          | nil => cases hu
          | cons a r => simp [greedyBlocks] at h
        | succ fuel ih =>
          intro us bs h u hu
          cases us with
          | nil => cases hu
          | cons a r =>
            cases hf : findPrefix ps a with
            | none => rw [greedyBlocks_cons_none ps fuel a r hf] at h; cases h
            | some i =>
              obtain ⟨hi, hc⟩ := findPrefix_some hf
              rcases List.mem_cons.mp hu with rfl | hu
              · exact List.any_eq_true.mpr ⟨ps[i], List.getElem_mem hi, hc⟩
              · cases hj : (ps.getD i default).jump with
                | none =>
                  rw [greedyBlocks_cons_one ps fuel a r i hf hj] at h
                  obtain ⟨bs', hbs', _⟩ := Option.map_eq_some_iff.mp h
                  exact ih r bs' hbs' u hu
                | some j =>
                  rw [greedyBlocks_cons_run ps fuel a r i j hf hj] at h
                  obtain ⟨bs', hbs', _⟩ := Option.map_eq_some_iff.mp h
                  have hsplit := List.takeWhile_append_dropWhile (p := (ps.getD i default).contains) (l := r)
                  rw [← hsplit] at hu
                  rcases List.mem_append.mp hu with hu | hu
                  · have := (Qco.mem_takeWhile hu).2
                    rw [Qco.getD_eq_getElem ps i hi] at this
                    exact List.any_eq_true.mpr ⟨ps[i], List.getElem_mem hi, this⟩
                  · exact ih _ bs' hbs' u hu
      exact key us.length us bs h u hu
  · intro hcov
    obtain ⟨bs, hbs⟩ := greedyBlocks_some ps us hcov
    obtain ⟨wr', e, _⟩ := h1 bs hbs
    exact ⟨wr', e⟩

/-! ### what the literal writer wrote, read by the spec decoder -/

theorem tableOf_wf {ub : Nat} (ps : List Prefix) (hok : ∀ p ∈ ps, PrefixOk ub p)
    (hpf : PrefixFree (ps.map (·.code))) : (tableOf ps).WF := by
  refine ⟨hpf, ?_⟩
  intro i hi
  have hi' : i < ps.length := by simpa [tableOf] using hi
  rw [tableOf_info ps i hi']
  refine ⟨Nat.log2_self_le (Nat.succ_ne_zero _), Nat.lt_log2_self, ?_⟩
  intro j hj
  exact (hok _ (List.getElem_mem hi')).jump_le j hj

/-- **writer → spec decoder**: for a covered, congruent input the body written by the literal writer from a
byte-aligned position is a whole number of bytes, and the unit-wise spec decoder reads the input numbers
back from it, leaving only the zero padding (fewer than 8 bits) before whatever follows -/
theorem writer_roundtrip {ub : Nat} {est : Nat → Nat} (hub : ub ≤ 128) (hest : EstOk ub est)
    (ps : List Prefix) (hne : ps ≠ []) (hok : ∀ p ∈ ps, PrefixOk ub p) (hd : disjointB ps = true)
    (hcs : 16 * (ps.map (·.count)).sum < USIZE) (hpf : PrefixFree (ps.map (·.code)))
    (us : List Nat) (hlen : us.length < 2^24) (hcov : coverB ps us = true) (hcong : congruentB ps us = true)
    {wr : Writer} (hw : WInv wr) (hal : wr.bits.length % 8 = 0) :
    ∃ wr' body, trainedCompressChunkNums ub est ps us wr = .ok wr' ∧ wr'.bits = wr.bits ++ body ∧
      body.length % 8 = 0 ∧ WInv wr' ∧
      ∀ rest, ∃ pad, pad.length < 8 ∧ (∀ b ∈ pad, b = false) ∧
        iterUnits (unit (tableOf ps)) us.length none (body ++ rest) = .ok (us, none) (pad ++ rest) := by
  obtain ⟨bs, hbs, hnums, hwf⟩ := greedyBlocks_exact ps us hcov hcong
  obtain ⟨wr', e, hb, hi, hj⟩ := compressNums_spec_aligned hub hest ps hne hok hd hcs us (by omega) hw hal bs hbs
  refine ⟨wr', encBody ps bs, e, hb, ?_, hi, ?_⟩
  · unfold encBody padToByte
    rw [List.length_append, List.length_replicate]
    omega
  · intro rest
    refine ⟨List.replicate ((8 - (encBlocks (tableOf ps) bs).length % 8) % 8) false, ?_, ?_, ?_⟩
    · rw [List.length_replicate]; omega
    · intro b hb'; exact (List.mem_replicate.mp hb').2
    · have := iter_blocks (tableOf ps) (tableOf_wf ps hok hpf) bs (hwf hlen)
        (List.replicate ((8 - (encBlocks (tableOf ps) bs).length % 8) % 8) false ++ rest)
      rw [hnums] at this
      unfold encBody padToByte
      rw [List.append_assoc]
      exact this

end Qco.BodyWriter
