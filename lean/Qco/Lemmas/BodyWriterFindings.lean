/-
Layer W, findings about `CompressionTable::from_sorted` on prefix lists with a zero count, and about the
table of an empty prefix list.
-/
import Qco.Lemmas.BodyWriterTable
namespace Qco.BodyWriter
open Qco Qco.WB

theorem advance_zero (rem : List Info) : advance 0 rem [] 0 = .ok (rem, [], 0) := by
  cases rem <;> simp [advance]

/-- iterations whose target is 0 do nothing -/
theorem children_idle (rec : List Info → R CTable) (T : Nat) (rem : List Info) (acc : List (Nat × CTable)) :
    ∀ (n m i : Nat), (∀ i', i' < i + n → T * (i' + 1) / 16 = 0 ∧ T * (i' + 1) < USIZE) →
      children rec T (n + m) i rem [] 0 acc = children rec T m (i + n) rem [] 0 acc := by
  intro n
  induction n with
  | zero => intro m i _; simp
  | succ n ih =>
    intro m i h
    have e : n + 1 + m = (n + m) + 1 := by omega
    rw [e, children, if_neg (by have := (h i (by omega)).2; omega), (h i (by omega)).1, advance_zero]
    simp only [List.getLast?_nil]
    rw [ih m (i + 1) (fun i' hi' => h i' (by omega))]
    congr 1; omega

/-- **finding**: on a two-prefix slice with counts `[0, 1]` (sorted by `upper`) the only child of
`from_sorted` is the whole slice again: the recursion of the source never ends (stack overflow), whatever
the depth allowed.  Prefix counts of trained chunks are `≥ 1`; the public API does not rule out a
hand-made `Prefix` list with a zero count. -/
theorem fromSorted_diverges (ub : Nat) (a b : Info) (ha : a.count = 0) (hb : b.count = 1) :
    ∀ fuel, CTable.fromSorted ub fuel [a, b] = .err "StackOverflow"
  | 0 => rfl
  | fuel + 1 => by
    have ih := fromSorted_diverges ub a b ha hb fuel
    have hidle := children_idle (CTable.fromSorted ub fuel) 1 [a, b] [] 15 1 0 (by intro i' hi'; have : USIZE = 18446744073709551616 := rfl; omega)
    simp only [CTable.fromSorted, List.map_cons, List.map_nil, List.sum_cons, List.sum_nil, ha, hb]
    rw [show (0 + (1 + 0) : Nat) = 1 from rfl, if_neg (by decide), show (16 : Nat) = 15 + 1 from rfl, hidle]
    have hU : USIZE = 18446744073709551616 := rfl
    simp [children, advance, ha, hb, ih, hU]

/-- **finding**: with counts `[1, 0]` the second prefix is dropped from the table (the loop stops as soon as
the cumulative count reaches the total), so `search` fails on its members. -/
theorem fromSorted_drops (ub : Nat) (a b : Info) (ha : a.count = 1) (hb : b.count = 0) (fuel : Nat) :
    CTable.fromSorted ub (fuel + 1) [a, b] = .ok (.nonLeaf [(a.upper, .leaf a)]) := by
  have hidle := children_idle (CTable.fromSorted ub fuel) 1 [a, b] [] 15 1 0 (by intro i' hi'; have : USIZE = 18446744073709551616 := rfl; omega)
  simp only [CTable.fromSorted, List.map_cons, List.map_nil, List.sum_cons, List.sum_nil, ha, hb]
  rw [show (1 + (0 + 0) : Nat) = 1 from rfl, if_neg (by decide), show (16 : Nat) = 15 + 1 from rfl, hidle]
  have hU : USIZE = 18446744073709551616 := rfl
  cases fuel <;> simp [children, advance, ha, CTable.fromSorted, hU]

theorem fromSorted_drops_search (ub : Nat) (a b : Info) (ha : a.count = 1) (hb : b.count = 0) (fuel : Nat)
    (u : Nat) (hu : a.upper < u) :
    ∃ t, CTable.fromSorted ub (fuel + 1) [a, b] = .ok t ∧ t.search u = .err "InvalidArgument" := by
  refine ⟨_, fromSorted_drops ub a b ha hb fuel, ?_⟩
  simp [CTable.search, searchItems, Nat.not_le.mpr hu]

/-- **finding**: the table of an empty prefix list is `Leaf(default)`, which contains every number: `search`
succeeds (code length 0, `k = U::BITS`) although no prefix contains the number -/
theorem search_nil (ub : Nat) (est : Nat → Nat) (u : Nat) (hu : u < 2^ub) :
    ∃ t, CTable.ofPrefixes ub est [] = .ok t ∧ t.search u = .ok (Info.dflt ub) := by
  refine ⟨.leaf (Info.dflt ub), rfl, ?_⟩
  simp only [CTable.search]
  rw [if_pos]
  simp [Info.contains, Info.dflt]; omega

end Qco.BodyWriter
