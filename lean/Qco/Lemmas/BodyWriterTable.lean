/-
Layer W, part 1: `PrefixCompressionInfo::from`, `CompressionTable::{from, from_sorted, search}`.

* `bitsToUsize_eq`       `bits_to_usize` is `bitsNat` (≤ 64 bits)
* `kInfo_eq`             `k_info` returns `⌊log2 (r+1)⌋` and the two bounds, for any estimate that is exact or 1 too high
* `fromSorted_diverges`  the recursion of `from_sorted` does not terminate on counts `[0, 1]`
* `fromSorted_drops`     on counts `[1, 0]` the second prefix is not in the table
* `fromSorted_spec`      with all counts `≥ 1`: no panic, no divergence, and `search` is a linear lookup
* `search_eq_findPrefix` `search` on the table of `ps` is `findPrefix ps`
-/
import Qco.Op.BodyWriter
import Qco.Lemmas.Greedy
import Qco.Lemmas.WB.BitLemmas
namespace Qco.BodyWriter
open Qco Qco.WB

/-! ### `bits_to_usize` -/

theorem bitsToUsizeLoop_eq (L : Nat) : ∀ (bs : List Bool) (i res : Nat), i + bs.length = L →
    res % 2^bs.length = 0 → bitsToUsizeLoop (2^(L - 1)) bs i res = res + bitsNat bs := by
  intro bs
  induction bs with
  | nil => intro i res _ _; simp [bitsToUsizeLoop]
  | cons b bs ih =>
    intro i res hL hres
    simp only [List.length_cons] at hL hres
    have hshr : shr (2^(L - 1)) i = 2^bs.length := by
      unfold shr
      have : L - 1 = bs.length + i := by omega
      rw [this, Nat.pow_add, Nat.mul_div_cancel _ (Nat.two_pow_pos i)]
    have hres' : res % 2^bs.length = 0 := mod_pow_of_mod_pow_zero hres (by omega)
    have hlt : 2^bs.length < 2^(bs.length + 1) := by rw [Nat.pow_succ]; have := Nat.two_pow_pos bs.length; omega
    rw [bitsToUsizeLoop, bitsNat_cons]
    cases b with
    | false =>
      simp only [Bool.false_eq_true, if_false, Bool.toNat_false, Nat.zero_mul, Nat.zero_add]
      exact ih (i + 1) res (by omega) hres'
    | true =>
      simp only [if_true, Bool.toNat_true, Nat.one_mul]
      rw [hshr, lor_eq_add hres hlt, ih (i + 1) _ (by omega) ?_]
      · omega
      · rw [Nat.add_mod, hres', Nat.mod_self]; simp

theorem bitsToUsize_eq (bits : List Bool) (h : bits.length ≤ 64) : bitsToUsize bits = .ok (bitsNat bits) := by
  unfold bitsToUsize
  by_cases h0 : bits.length < 1
  · have : bits = [] := List.eq_nil_of_length_eq_zero (by omega)
    subst this; simp
  · rw [if_neg h0, if_neg (by omega), bitsToUsizeLoop_eq bits.length bits 0 0 (by omega) (Nat.zero_mod _)]
    simp

/-! ### `k_info` -/

/-- what the float estimate `(diff as f64 + 1.0).log2().floor()` must satisfy: exact or one too high,
and never above `U::BITS` -/
def EstOk (ub : Nat) (est : Nat → Nat) : Prop :=
  ∀ d, d < 2^ub → (est d = Nat.log2 (d + 1) ∨ est d = Nat.log2 (d + 1) + 1) ∧ est d ≤ ub

theorem log2_le_of_lt {ub d : Nat} (h : d < 2^ub) : Nat.log2 (d + 1) ≤ ub := by
  have h1 : 2^Nat.log2 (d + 1) ≤ d + 1 := Nat.log2_self_le (by omega)
  have h2 : 2^Nat.log2 (d + 1) ≤ 2^ub := by omega
  exact (Nat.pow_le_pow_iff_right (by omega : 1 < 2)).mp h2

theorem estExact_ok (ub : Nat) : EstOk ub estExact :=
  fun _ hd => ⟨Or.inl rfl, log2_le_of_lt hd⟩

theorem kUpper_of_le {ub k : Nat} (h : k ≤ ub) : kUpper ub k = .ok (2^k - 1) := by
  unfold kUpper
  by_cases hk : k = ub
  · subst hk; simp
  · rw [if_neg hk, if_neg (by omega)]

/-- the range of a prefix in units of its divisor -/
def rOf (p : Prefix) : Nat := (p.upper - p.lower) / p.gcd

theorem kInfo_eq {ub : Nat} {est : Nat → Nat} (hest : EstOk ub est) (p : Prefix)
    (hb : p.lower ≤ p.upper) (hu : p.upper < 2^ub) (hg : 1 ≤ p.gcd) :
    kInfo ub est p = .ok (Nat.log2 (rOf p + 1), rOf p - (2^Nat.log2 (rOf p + 1) - 1), 2^Nat.log2 (rOf p + 1) - 1) := by
  unfold kInfo
  rw [if_neg (by omega), if_neg (by omega)]
  have hr : rOf p < 2^ub := by
    unfold rOf
    exact Nat.lt_of_le_of_lt (Nat.div_le_self _ _) (by omega)
  have hrdef : (p.upper - p.lower) / p.gcd = rOf p := rfl
  simp only [hrdef]
  generalize rOf p = r at hr
  obtain ⟨hcase, hle⟩ := hest r hr
  have hL := log2_le_of_lt hr
  have h1 : 2^Nat.log2 (r + 1) ≤ r + 1 := Nat.log2_self_le (by omega)
  have h2 : r + 1 < 2^(Nat.log2 (r + 1) + 1) := Nat.lt_log2_self
  generalize Nat.log2 (r + 1) = L at *
  rcases hcase with he | he
  · rw [he, kUpper_of_le hL]
    simp only
    rw [if_neg (by omega), if_neg (by omega), kUpper_of_le hL]
    simp only
    rw [if_neg (by omega)]
  · rw [he] at hle ⊢
    rw [kUpper_of_le hle]
    simp only
    rw [if_neg (by omega), if_pos (by omega)]
    simp only [Nat.add_sub_cancel]
    rw [kUpper_of_le hL]
    simp only
    rw [if_neg (by omega)]

/-! ### `PrefixCompressionInfo::from` -/

/-- the expected `PrefixCompressionInfo` of a prefix -/
def infoOf (p : Prefix) : Info :=
  { count := p.count, code := bitsNat p.code, codeLen := p.code.length, lower := p.lower, upper := p.upper,
    k := Nat.log2 (rOf p + 1), onlyKLower := rOf p - (2^Nat.log2 (rOf p + 1) - 1),
    onlyKUpper := 2^Nat.log2 (rOf p + 1) - 1, jump := p.jump, gcd := p.gcd }

/-- what the body writer needs from a prefix of a `U`-typed table (`U::BITS = ub`) -/
structure PrefixOk (ub : Nat) (p : Prefix) : Prop where
  bounds : p.lower ≤ p.upper
  upper_lt : p.upper < 2^ub
  gcd_pos : 1 ≤ p.gcd
  code_len : p.code.length ≤ 64
  jump_le : ∀ j, p.jump = some j → j ≤ 24
  count_pos : 1 ≤ p.count

theorem ofPrefix_eq {ub : Nat} {est : Nat → Nat} (hest : EstOk ub est) (p : Prefix) (hp : PrefixOk ub p) :
    Info.ofPrefix ub est p = .ok (infoOf p) := by
  unfold Info.ofPrefix
  rw [kInfo_eq hest p hp.bounds hp.upper_lt hp.gcd_pos, bitsToUsize_eq p.code hp.code_len]
  rfl

theorem infosOf_eq {ub : Nat} {est : Nat → Nat} (hest : EstOk ub est) (ps : List Prefix)
    (hp : ∀ p ∈ ps, PrefixOk ub p) : infosOf ub est ps = .ok (ps.map infoOf) := by
  induction ps with
  | nil => rfl
  | cons p ps ih =>
    rw [infosOf, ofPrefix_eq hest p (hp p List.mem_cons_self),
      ih (fun q hq => hp q (List.mem_cons_of_mem _ hq))]
    rfl

theorem infoOf_contains (p : Prefix) (u : Nat) : (infoOf p).contains u = p.contains u := by
  unfold Info.contains Prefix.contains infoOf
  rw [Bool.eq_iff_iff]

/-! ### sorting -/

/-- sorted by the key of `from` -/
abbrev SortedU (s : List Info) : Prop := s.Pairwise fun a b => a.upper ≤ b.upper

theorem insertByUpper_perm (x : Info) (l : List Info) : (insertByUpper x l).Perm (x :: l) := by
  induction l with
  | nil => exact List.Perm.refl _
  | cons y ys ih =>
    unfold insertByUpper
    split
    · exact List.Perm.refl _
    · exact ((List.Perm.cons y ih).trans (List.Perm.swap x y ys))

theorem sortByUpper_perm (l : List Info) : (sortByUpper l).Perm l := by
  induction l with
  | nil => exact List.Perm.refl _
  | cons x xs ih => exact (insertByUpper_perm x _).trans (List.Perm.cons x ih)

theorem insertByUpper_sorted (x : Info) (l : List Info) (h : SortedU l) : SortedU (insertByUpper x l) := by
  induction l with
  | nil => simp [insertByUpper, SortedU]
  | cons y ys ih =>
    unfold insertByUpper
    have hy := List.pairwise_cons.mp h
    split
    · rename_i hxy
      refine List.pairwise_cons.mpr ⟨?_, h⟩
      intro z hz
      rcases List.mem_cons.mp hz with rfl | hz
      · exact hxy
      · exact Nat.le_trans hxy (hy.1 z hz)
    · rename_i hxy
      refine List.pairwise_cons.mpr ⟨?_, ih hy.2⟩
      intro z hz
      have := (insertByUpper_perm x ys).mem_iff.mp hz
      rcases List.mem_cons.mp this with rfl | hz
      · omega
      · exact hy.1 z hz

theorem sortByUpper_sorted (l : List Info) : SortedU (sortByUpper l) := by
  induction l with
  | nil => exact List.Pairwise.nil
  | cons x xs ih => exact insertByUpper_sorted x _ ih

/-- two sorted permutations of a list with pairwise distinct keys are equal: on such lists the result of
`sort_unstable_by_key` is the result of `sortByUpper` -/
theorem sorted_perm_unique : ∀ (a b : List Info), a.Perm b → SortedU a → SortedU b →
    a.Pairwise (fun x y => x.upper ≠ y.upper) → a = b := by
  intro a
  induction a with
  | nil => intro b hp _ _ _; exact (List.Perm.nil_eq hp)
  | cons x xs ih =>
    intro b hp ha hb hd
    cases b with
    | nil => exact absurd hp.symm (List.Perm.nil_eq · |> fun h => by cases h)
    | cons y ys =>
      have hax := List.pairwise_cons.mp ha
      have hby := List.pairwise_cons.mp hb
      have hdx := List.pairwise_cons.mp hd
      have hxy : x = y := by
        have hx : x ∈ y :: ys := hp.mem_iff.mp List.mem_cons_self
        have hy : y ∈ x :: xs := hp.mem_iff.mpr List.mem_cons_self
        rcases List.mem_cons.mp hx with h | h
        · exact h
        · rcases List.mem_cons.mp hy with h' | h'
          · exact h'.symm
          · have h1 := hax.1 y h'
            have h2 := hby.1 x h
            exact absurd (Nat.le_antisymm h1 h2) (hdx.1 y h')
      subst hxy
      rw [ih ys (List.Perm.cons_inv hp) hax.2 hby.2 hdx.2]

/-! ### the linear lookup that `search` implements -/

def invalid : R Info := .err "InvalidArgument"

/-- first entry whose `upper` is `≥ u`, then the containment test of the leaf -/
def lookup : List Info → Nat → R Info
  | [], _ => invalid
  | p :: s, u => if u ≤ p.upper then (if p.contains u then .ok p else invalid) else lookup s u

theorem lookup_append_of_exists (a b : List Info) (u : Nat) (h : ∃ p ∈ a, u ≤ p.upper) :
    lookup (a ++ b) u = lookup a u := by
  induction a with
  | nil => obtain ⟨p, hp, _⟩ := h; cases hp
  | cons q a ih =>
    simp only [List.cons_append, lookup]
    by_cases hq : u ≤ q.upper
    · rw [if_pos hq, if_pos hq]
    · rw [if_neg hq, if_neg hq]
      obtain ⟨p, hp, hpu⟩ := h
      rcases List.mem_cons.mp hp with rfl | hp
      · exact absurd hpu hq
      · exact ih ⟨p, hp, hpu⟩

theorem lookup_append_of_all (a b : List Info) (u : Nat) (h : ∀ p ∈ a, p.upper < u) :
    lookup (a ++ b) u = lookup b u := by
  induction a with
  | nil => rfl
  | cons q a ih =>
    have := h q List.mem_cons_self
    simp only [List.cons_append, lookup]
    rw [if_neg (by omega)]
    exact ih (fun p hp => h p (List.mem_cons_of_mem _ hp))

theorem searchItems_append_of_exists (acc rest : List (Nat × CTable)) (u : Nat) (h : ∃ it ∈ acc, u ≤ it.1) :
    searchItems (acc ++ rest) u = searchItems acc u := by
  induction acc with
  | nil => obtain ⟨p, hp, _⟩ := h; cases hp
  | cons it acc ih =>
    obtain ⟨up', t'⟩ := it
    simp only [List.cons_append, searchItems]
    by_cases hq : u ≤ up'
    · rw [if_pos hq, if_pos hq]
    · rw [if_neg hq, if_neg hq]
      obtain ⟨p, hp, hpu⟩ := h
      rcases List.mem_cons.mp hp with rfl | hp
      · exact absurd hpu hq
      · exact ih ⟨p, hp, hpu⟩

theorem searchItems_append_of_all (acc : List (Nat × CTable)) (up : Nat) (t : CTable) (u : Nat)
    (h : ∀ it ∈ acc, it.1 < u) :
    searchItems (acc ++ [(up, t)]) u = if u ≤ up then t.search u else invalid := by
  induction acc with
  | nil => simp [searchItems, invalid]
  | cons it acc ih =>
    obtain ⟨up', t'⟩ := it
    have := h (up', t') List.mem_cons_self
    simp only [List.cons_append, searchItems]
    rw [if_neg (by simp at this; omega)]
    exact ih (fun p hp => h p (List.mem_cons_of_mem _ hp))

theorem lookup_invalid_of_lt (c : List Info) (u : Nat) (h : ∀ p ∈ c, p.upper < u) : lookup c u = invalid := by
  induction c with
  | nil => rfl
  | cons p c ih =>
    have := h p List.mem_cons_self
    rw [lookup, if_neg (by omega)]
    exact ih (fun q hq => h q (List.mem_cons_of_mem _ hq))

/-! ### `from_sorted`: the inner loop -/

/-- sum of the counts -/
def csum (l : List Info) : Nat := (l.map (·.count)).sum

@[simp] theorem csum_nil : csum [] = 0 := rfl
@[simp] theorem csum_cons (p : Info) (l : List Info) : csum (p :: l) = p.count + csum l := by
  simp [csum]
@[simp] theorem csum_append (a b : List Info) : csum (a ++ b) = csum a + csum b := by
  simp [csum, List.sum_append]

/-- the inner loop: no panic when the target is within the total; it moves a prefix `taken` of `rem` to `cur`;
the last element taken was taken below the target and stays below twice the target; it stops at the
target or at an element that would overshoot twice the target -/
theorem advance_spec (target : Nat) (h2t : 2 * target < USIZE) : ∀ (rem cur : List Info) (cum : Nat),
    target ≤ cum + csum rem → cum + csum rem < USIZE →
    ∃ taken rem', rem = taken ++ rem' ∧
      advance target rem cur cum = .ok (rem', cur ++ taken, cum + csum taken) ∧
      (∀ init l, taken = init ++ [l] → cum + csum init < target ∧ l.count + (cum + csum init) < 2 * target) ∧
      (target ≤ cum + csum taken ∨
        ∃ p rem'', rem' = p :: rem'' ∧ 2 * target ≤ p.count + (cum + csum taken)) := by
  intro rem
  induction rem with
  | nil =>
    intro cur cum h _
    refine ⟨[], [], rfl, ?_, ?_, ?_⟩
    · simp only [csum_nil, Nat.add_zero] at h
      simp [advance, Nat.not_lt.mpr h]
    · intro init l h; simp at h
    · left; simpa using h
  | cons p rem ih =>
    intro cur cum h hsm
    simp only [csum_cons] at h hsm
    by_cases hc : cum < target
    · by_cases hp : p.count < 2 * target - cum
      · obtain ⟨taken, rem', e1, e2, e3, e4⟩ := ih (cur ++ [p]) (cum + p.count) (by omega) (by omega)
        refine ⟨p :: taken, rem', by rw [e1]; rfl, ?_, ?_, ?_⟩
        · rw [advance, if_pos hc, if_neg (by omega), if_neg (by omega), if_pos hp, if_neg (by omega), e2]
          simp [Nat.add_assoc]
        · intro init l hil
          cases init with
          | nil =>
            simp only [List.nil_append, List.cons.injEq] at hil
            obtain ⟨rfl, _⟩ := hil
            simp only [csum_nil, Nat.add_zero]
            omega
          | cons q init =>
            simp only [List.cons_append, List.cons.injEq] at hil
            obtain ⟨rfl, hil⟩ := hil
            have := e3 init l hil
            simp only [csum_cons]
            omega
        · rcases e4 with e4 | ⟨q, rem'', e5, e6⟩
          · left; simp only [csum_cons]; omega
          · right; exact ⟨q, rem'', e5, by simp only [csum_cons]; omega⟩
      · refine ⟨[], p :: rem, rfl, ?_, ?_, ?_⟩
        · rw [advance, if_pos hc, if_neg (by omega), if_neg (by omega), if_neg hp]; simp
        · intro init l h; simp at h
        · right; exact ⟨p, rem, rfl, by simp only [csum_nil]; omega⟩
    · refine ⟨[], p :: rem, rfl, ?_, ?_, ?_⟩
      · rw [advance, if_neg hc]; simp
      · intro init l h; simp at h
      · left; simp only [csum_nil]; omega

/-- the inner loop never panics inside `from_sorted` (`target ≤ total_count`, `2 * total_count < 2^64`):
neither the index nor the `usize` subtraction `2 * target - cumulative` nor an overflow -/
theorem advance_no_panic (target : Nat) (h2t : 2 * target < USIZE) (rem cur : List Info) (cum : Nat)
    (h : target ≤ cum + csum rem) (hsm : cum + csum rem < USIZE) :
    advance target rem cur cum ≠ .panic := by
  obtain ⟨_, _, _, e, _⟩ := advance_spec target h2t rem cur cum h hsm
  rw [e]; intro h; cases h

end Qco.BodyWriter

namespace Qco.BodyWriter
open Qco Qco.WB

/-! ### `from_sorted`: the outer loop and the recursion -/

/-- hypotheses on a slice: all counts positive, sorted by `upper` -/
structure Good (c : List Info) : Prop where
  counts : ∀ p ∈ c, 1 ≤ p.count
  sorted : SortedU c
  small : 16 * csum c < USIZE

theorem Good.of_infix {a c b : List Info} (h : Good (a ++ c ++ b)) : Good c := by
  refine ⟨fun p hp => h.counts p (by simp [hp]), ?_, ?_⟩
  · have := h.sorted
    unfold SortedU at this
    rw [List.append_assoc] at this
    exact (List.pairwise_append.mp (List.pairwise_append.mp this).2.1).1
  · have := h.small
    simp only [csum_append] at this
    omega

theorem csum_eq_zero {l : List Info} (hc : ∀ p ∈ l, 1 ≤ p.count) (h : csum l = 0) : l = [] := by
  cases l with
  | nil => rfl
  | cons p l =>
    have := hc p List.mem_cons_self
    simp only [csum_cons] at h
    omega

theorem sorted_le_last {a : List Info} {l : Info} (h : SortedU (a ++ [l])) : ∀ p ∈ a ++ [l], p.upper ≤ l.upper := by
  intro p hp
  rcases List.mem_append.mp hp with hp | hp
  · exact (List.pairwise_append.mp h).2.2 p hp l (by simp)
  · simp at hp; subst hp; exact Nat.le_refl _

/-- **termination of `from_sorted`** (arithmetic core).  In iteration `i` (target `T*(i+1)/16`) the loop
cannot take a whole slice of `≥ 2` prefixes with positive counts when nothing was taken in iteration `i-1`:
`ci` = sum of all counts but the last, `cl` = the last count, `c0` = the first count. -/
theorem no_whole_slice (T i c0 cl ci : Nat) (hi : i < 16) (hT : T = ci + cl) (h0 : c0 ≤ ci)
    (h1 : 1 ≤ c0) (h2 : 1 ≤ cl) (ha : ci < T * (i + 1) / 16) (hb : cl + ci < 2 * (T * (i + 1) / 16))
    (hc : T * i / 16 = 0 ∨ 2 * (T * i / 16) ≤ c0) : False := by
  have : i = 0 ∨ i = 1 ∨ i = 2 ∨ i = 3 ∨ i = 4 ∨ i = 5 ∨ i = 6 ∨ i = 7 ∨ i = 8 ∨ i = 9 ∨ i = 10 ∨
      i = 11 ∨ i = 12 ∨ i = 13 ∨ i = 14 ∨ i = 15 := by omega
  rcases this with rfl | rfl | rfl | rfl | rfl | rfl | rfl | rfl | rfl | rfl | rfl | rfl | rfl | rfl | rfl | rfl <;>
    omega

theorem target_le (T i : Nat) (hi : i < 16) : T * (i + 1) / 16 ≤ T := by
  apply Nat.div_le_of_le_mul
  rw [Nat.mul_comm 16 T]
  exact Nat.mul_le_mul_left T (by omega)

theorem children_spec (rec : List Info → R CTable) (s : List Info) (p0 : Info) (s' : List Info)
    (hs : s = p0 :: s') (hs2 : 2 ≤ s.length) (hg : Good s)
    (hrec : ∀ c, c ≠ [] → c.length < s.length → Good c →
      ∃ t, rec c = .ok t ∧ ∀ u, t.search u = lookup c u) :
    ∀ (n i : Nat) (done rem : List Info) (acc : List (Nat × CTable)),
      n + i = 16 → done ++ rem = s →
      (∀ u, searchItems acc u = lookup done u) →
      (∀ u, (∀ it ∈ acc, it.1 < u) ↔ (∀ p ∈ done, p.upper < u)) →
      (done = [] → csum s * i / 16 = 0 ∨ 2 * (csum s * i / 16) ≤ p0.count) →
      (i = 16 → rem = []) →
      ∃ items, children rec (csum s) n i rem [] (csum done) acc = .ok items ∧
        ∀ u, searchItems items u = lookup s u := by
  intro n
  induction n with
  | zero =>
    intro i done rem acc hni hsplit hsearch _ _ hend
    have hrem := hend (by omega)
    subst hrem
    rw [List.append_nil] at hsplit
    subst hsplit
    exact ⟨acc, rfl, hsearch⟩
  | succ n ih =>
    intro i done rem acc hni hsplit hsearch hall hfirst _
    have hi : i < 16 := by omega
    have hT : csum s = csum done + csum rem := by rw [← hsplit, csum_append]
    have htgt := target_le (csum s) i hi
    have hsmall := hg.small
    have hmul : csum s * (i + 1) ≤ csum s * 16 := Nat.mul_le_mul_left _ (by omega)
    obtain ⟨taken, rem', e1, e2, e3, e4⟩ :=
      advance_spec (csum s * (i + 1) / 16) (by omega) rem [] (csum done) (by omega) (by omega)
    have hsplit' : done ++ taken ++ rem' = s := by rw [← hsplit, e1, List.append_assoc]
    have hT' : csum s = csum done + csum taken + csum rem' := by
      rw [← hsplit', csum_append, csum_append]
    have hcr : ∀ p ∈ rem', 1 ≤ p.count := fun p hp => hg.counts p (by rw [← hsplit']; simp [hp])
    -- after the last iteration nothing remains
    have hend' : i + 1 = 16 → rem' = [] := by
      intro h16
      have hi15 : i = 15 := by omega
      subst hi15
      have ht : csum s * (15 + 1) / 16 = csum s := by simp
      rw [ht] at e4
      rcases e4 with e4 | ⟨p, rem'', e5, e6⟩
      · exact csum_eq_zero hcr (by omega)
      · subst e5
        have := hcr p List.mem_cons_self
        simp only [csum_cons] at hT'
        omega
    rw [children, if_neg (by omega), e2, List.nil_append]
    simp only
    cases hlast : taken.getLast? with
    | none =>
      have htk : taken = [] := List.getLast?_eq_none_iff.mp hlast
      subst htk
      simp only [csum_nil, Nat.add_zero, List.append_nil, List.nil_append] at *
      subst e1
      refine ih (i + 1) done rem acc (by omega) hsplit hsearch hall ?_ hend'
      intro hd
      subst hd
      simp only [List.nil_append] at hsplit
      rcases e4 with e4 | ⟨p, rem'', e5, e6⟩
      · left; simp only [csum_nil] at e4; omega
      · right
        rw [hsplit, hs] at e5
        injection e5 with e5 _
        subst e5
        simp only [csum_nil] at e6
        omega
    | some last =>
      obtain ⟨init, hinit⟩ : ∃ init, taken = init ++ [last] := by
        rcases List.eq_nil_or_concat taken with h | ⟨init, l, h⟩
        · subst h; simp at hlast
        · refine ⟨init, ?_⟩
          rw [List.concat_eq_append] at h
          subst h
          simp at hlast
          subst hlast; rfl
      have hne : taken ≠ [] := by rw [hinit]; simp
      have hgc : Good taken := Good.of_infix (a := done) (b := rem') (by rw [hsplit']; exact hg)
      have hlelast : ∀ p ∈ taken, p.upper ≤ last.upper := by
        rw [hinit]; exact sorted_le_last (by rw [← hinit]; exact hgc.sorted)
      -- termination: the child is a strict sub-slice
      have hlt : taken.length < s.length := by
        apply Nat.lt_of_not_le
        intro hge
        have hlen : s.length = done.length + taken.length + rem'.length := by
          rw [← hsplit']; simp only [List.length_append]
        have hd : done = [] := List.eq_nil_of_length_eq_zero (by omega)
        have hr : rem' = [] := List.eq_nil_of_length_eq_zero (by omega)
        subst hd; subst hr
        simp only [List.nil_append, List.append_nil] at hsplit'
        obtain ⟨h3a, h3b⟩ := e3 init last hinit
        simp only [csum_nil, Nat.zero_add] at h3a h3b hT'
        have hinit2 : init ≠ [] := by
          intro h; subst h; rw [← hsplit', hinit] at hs2; simp at hs2
        obtain ⟨q, init', hq⟩ : ∃ q init', init = q :: init' := by
          cases init with
          | nil => exact absurd rfl hinit2
          | cons q init' => exact ⟨q, init', rfl⟩
        have hq0 : q = p0 := by
          rw [← hsplit', hinit, hq] at hs
          simp only [List.cons_append] at hs
          injection hs
        subst hq0
        have hc0 := hg.counts q (by rw [hs]; exact List.mem_cons_self)
        have hcl := hgc.counts last (by rw [hinit]; simp)
        have hTT : csum s = csum init + last.count := by
          rw [hT', hinit, csum_append, csum_cons, csum_nil]; omega
        have hq1 : q.count ≤ csum init := by rw [hq, csum_cons]; omega
        exact no_whole_slice (csum s) i q.count last.count (csum init) hi hTT hq1 hc0 hcl h3a h3b
          (hfirst rfl)
      obtain ⟨t, ht1, ht2⟩ := hrec taken hne hlt hgc
      rw [ht1]
      simp only
      have hcs : csum done + csum taken = csum (done ++ taken) := by rw [csum_append]
      rw [hcs]
      refine ih (i + 1) (done ++ taken) rem' (acc ++ [(last.upper, t)]) (by omega) hsplit' ?_ ?_ ?_ hend'
      · intro u
        by_cases hex : ∃ it ∈ acc, u ≤ it.1
        · have hex' : ∃ p ∈ done, u ≤ p.upper := by
            apply Classical.byContradiction
            intro hno
            have : ∀ p ∈ done, p.upper < u := fun p hp =>
              Nat.lt_of_not_le (fun hle => hno ⟨p, hp, hle⟩)
            obtain ⟨it, hit, hle⟩ := hex
            have := (hall u).mpr this it hit
            omega
          rw [searchItems_append_of_exists _ _ _ hex, lookup_append_of_exists _ _ _ hex', hsearch]
        · have hall1 : ∀ it ∈ acc, it.1 < u := fun it hit =>
            Nat.lt_of_not_le (fun hle => hex ⟨it, hit, hle⟩)
          have hall2 := (hall u).mp hall1
          rw [searchItems_append_of_all _ _ _ _ hall1, lookup_append_of_all _ _ _ hall2]
          by_cases hu : u ≤ last.upper
          · rw [if_pos hu, ht2]
          · rw [if_neg hu]
            exact (lookup_invalid_of_lt taken u (fun p hp => by have := hlelast p hp; omega)).symm
      · intro u
        constructor
        · intro h p hp
          rcases List.mem_append.mp hp with hp | hp
          · exact (hall u).mp (fun it hit => h it (List.mem_append_left _ hit)) p hp
          · have := h (last.upper, t) (by simp)
            have := hlelast p hp
            simp only at *
            omega
        · intro h it hit
          rcases List.mem_append.mp hit with hit | hit
          · exact (hall u).mpr (fun p hp => h p (List.mem_append_left _ hp)) it hit
          · simp at hit; subst hit
            exact h last (List.mem_append_right _ (by rw [hinit]; simp))
      · intro hd
        exact absurd (List.append_eq_nil_iff.mp hd).2 hne

/-- **`from_sorted` on positive counts**: with `fuel ≥ len` the recursion bottoms out (every child is a
strict sub-slice), nothing panics, every prefix is in the tree, and `search` is the linear lookup. -/
theorem fromSorted_spec (ub : Nat) : ∀ (fuel : Nat) (s : List Info), s.length ≤ fuel → s ≠ [] → Good s →
    ∃ t, CTable.fromSorted ub fuel s = .ok t ∧ ∀ u, t.search u = lookup s u := by
  intro fuel
  induction fuel with
  | zero => intro s hl hne _; exact absurd (List.eq_nil_of_length_eq_zero (by omega)) hne
  | succ fuel ih =>
    intro s hl hne hg
    match s, hne with
    | [p], _ =>
      refine ⟨.leaf p, by simp [CTable.fromSorted], ?_⟩
      intro u
      simp only [CTable.search, lookup, invalid]
      by_cases hc : p.contains u = true
      · have : u ≤ p.upper := by simp [Info.contains] at hc; omega
        rw [if_pos hc, if_pos this]
      · rw [if_neg hc]
        by_cases hu : u ≤ p.upper
        · rw [if_pos hu]
        · rw [if_neg hu]
    | p :: q :: rest, _ =>
      have hrec : ∀ c, c ≠ [] → c.length < (p :: q :: rest).length → Good c →
          ∃ t, CTable.fromSorted ub fuel c = .ok t ∧ ∀ u, t.search u = lookup c u :=
        fun c hc hlc hgc => ih c (by omega) hc hgc
      obtain ⟨items, e, hitems⟩ := children_spec (CTable.fromSorted ub fuel) (p :: q :: rest) p (q :: rest) rfl
        (by simp) hg hrec 16 0 [] (p :: q :: rest) [] rfl rfl (fun _ => rfl) (fun _ => by simp)
        (fun _ => by simp) (by omega)
      refine ⟨.nonLeaf items, ?_, ?_⟩
      · simp only [CTable.fromSorted]
        rw [if_neg (by have := hg.small; unfold csum at this; omega)]
        have e' : children (CTable.fromSorted ub fuel) (List.map (fun x => x.count) (p :: q :: rest)).sum 16 0
            (p :: q :: rest) [] 0 [] = .ok items := e
        rw [e']
      · intro u; simp only [CTable.search]; exact hitems u

end Qco.BodyWriter

namespace Qco.BodyWriter
open Qco Qco.WB

/-! ### `search` against `findPrefix` -/

/-- disjoint ranges -/
def DisjI (a b : Info) : Prop := a.upper < b.lower ∨ b.upper < a.lower

theorem lookup_of_mem (u : Nat) : ∀ (s : List Info), SortedU s → s.Pairwise DisjI →
    (∀ p ∈ s, p.lower ≤ p.upper) → ∀ q ∈ s, q.contains u = true → lookup s u = .ok q := by
  intro s
  induction s with
  | nil => intro _ _ _ q hq; cases hq
  | cons p s ih =>
    intro hs hd hb q hq hc
    have hs' := List.pairwise_cons.mp hs
    have hd' := List.pairwise_cons.mp hd
    rw [lookup]
    rcases List.mem_cons.mp hq with rfl | hq
    · have : u ≤ q.upper := by simp [Info.contains] at hc; omega
      rw [if_pos this, if_pos hc]
    · have h1 := hs'.1 q hq
      have h2 := hd'.1 q hq
      have h3 := hb p List.mem_cons_self
      simp only [Info.contains, Bool.and_eq_true, decide_eq_true_eq] at hc
      unfold DisjI at h2
      rw [if_neg (by omega)]
      exact ih hs'.2 hd'.2 (fun r hr => hb r (List.mem_cons_of_mem _ hr)) q hq
        (by simp [Info.contains]; omega)

theorem lookup_of_not_mem (u : Nat) : ∀ (s : List Info), (∀ q ∈ s, q.contains u = false) →
    lookup s u = invalid := by
  intro s
  induction s with
  | nil => intro _; rfl
  | cons p s ih =>
    intro h
    rw [lookup, ih (fun q hq => h q (List.mem_cons_of_mem _ hq))]
    have := h p List.mem_cons_self
    simp [this]

theorem disjointB_pairwise : ∀ (ps : List Prefix), disjointB ps = true →
    ps.Pairwise fun p q => p.upper < q.lower ∨ q.upper < p.lower := by
  intro ps
  induction ps with
  | nil => intro _; exact List.Pairwise.nil
  | cons p ps ih =>
    intro h
    simp only [disjointB, Bool.and_eq_true, List.all_eq_true, Bool.or_eq_true, decide_eq_true_eq] at h
    exact List.pairwise_cons.mpr ⟨h.1, ih h.2⟩

/-- any sorted arrangement of the infos of a legal table -/
theorem sorted_infos_props (ub : Nat) (ps : List Prefix) (hok : ∀ p ∈ ps, PrefixOk ub p)
    (hd : disjointB ps = true) (hcs : 16 * (ps.map (·.count)).sum < USIZE)
    (s : List Info) (hperm : s.Perm (ps.map infoOf)) (hsorted : SortedU s) :
    Good s ∧ s.Pairwise DisjI ∧ (∀ p ∈ s, p.lower ≤ p.upper) := by
  have hmem : ∀ q ∈ s, ∃ p ∈ ps, q = infoOf p := by
    intro q hq
    obtain ⟨p, hp, rfl⟩ := List.mem_map.mp (hperm.mem_iff.mp hq)
    exact ⟨p, hp, rfl⟩
  refine ⟨⟨?_, hsorted, ?_⟩, ?_, ?_⟩
  · intro q hq
    obtain ⟨p, hp, rfl⟩ := hmem q hq
    exact (hok p hp).count_pos
  · have : csum s = (ps.map (·.count)).sum := by
      unfold csum
      rw [(hperm.map (·.count)).sum_nat, List.map_map]
      rfl
    rw [this]; exact hcs
  · have h1 : (ps.map infoOf).Pairwise DisjI := by
      rw [List.pairwise_map]
      exact disjointB_pairwise ps hd
    exact (hperm.pairwise_iff (fun {a b} (h : DisjI a b) => (Or.symm h : DisjI b a))).mpr h1
  · intro q hq
    obtain ⟨p, hp, rfl⟩ := hmem q hq
    exact (hok p hp).bounds

/-- the uppers of a legal table are pairwise distinct: every sort (stable or not) produces the same list -/
theorem uppers_distinct (ub : Nat) (ps : List Prefix) (hok : ∀ p ∈ ps, PrefixOk ub p)
    (hd : disjointB ps = true) (s : List Info) (hperm : s.Perm (ps.map infoOf)) :
    s.Pairwise fun x y => x.upper ≠ y.upper := by
  have h1 : (ps.map infoOf).Pairwise (fun x y => DisjI x y ∧ x.lower ≤ x.upper ∧ y.lower ≤ y.upper) := by
    rw [List.pairwise_map]
    have h0 := disjointB_pairwise ps hd
    have hall : ∀ p ∈ ps, p.lower ≤ p.upper := fun p hp => (hok p hp).bounds
    clear hperm hd hok
    induction ps with
    | nil => exact List.Pairwise.nil
    | cons p ps ih =>
      have h0' := List.pairwise_cons.mp h0
      refine List.pairwise_cons.mpr ⟨?_, ih h0'.2 (fun q hq => hall q (List.mem_cons_of_mem _ hq))⟩
      intro q hq
      exact ⟨h0'.1 q hq, hall p List.mem_cons_self, hall q (List.mem_cons_of_mem _ hq)⟩
  have h2 := (hperm.pairwise_iff (R := fun x y => DisjI x y ∧ x.lower ≤ x.upper ∧ y.lower ≤ y.upper)
    (fun {a b} h => ⟨Or.symm h.1, h.2.2, h.2.1⟩)).mpr h1
  refine h2.imp ?_
  intro a b h
  unfold DisjI at h
  omega

/-- the table built from *any* arrangement of the infos that is sorted by `upper` (whatever
`sort_unstable_by_key` does): `search` is `findPrefix` -/
theorem search_of_sorted_perm (ub : Nat) (ps : List Prefix)
    (hne : ps ≠ []) (hok : ∀ p ∈ ps, PrefixOk ub p) (hd : disjointB ps = true)
    (hcs : 16 * (ps.map (·.count)).sum < USIZE)
    (s : List Info) (hperm : s.Perm (ps.map infoOf)) (hsorted : SortedU s) :
    ∃ t, CTable.fromSorted ub s.length s = .ok t ∧ ∀ u, t.search u =
      match findPrefix ps u with
      | some i => .ok (infoOf (ps.getD i default))
      | none => .err "InvalidArgument" := by
  obtain ⟨hgood, hdisj, hbnd⟩ := sorted_infos_props ub ps hok hd hcs s hperm hsorted
  obtain ⟨t, ht, hsearch⟩ := fromSorted_spec ub s.length s (Nat.le_refl _)
    (by
      intro h
      have := hperm.length_eq
      rw [h] at this
      cases ps with
      | nil => exact hne rfl
      | cons p ps => simp at this)
    hgood
  refine ⟨t, ht, ?_⟩
  intro u
  rw [hsearch]
  cases hf : findPrefix ps u with
  | some i =>
    obtain ⟨hi, hc⟩ := findPrefix_some hf
    have hget : ps.getD i default = ps[i] := by simp [List.getD_eq_getElem?_getD, hi]
    show _ = R.ok (infoOf (ps.getD i default))
    rw [hget]
    exact lookup_of_mem u _ hgood.sorted hdisj hbnd (infoOf ps[i])
      (hperm.mem_iff.mpr (List.mem_map.mpr ⟨ps[i], List.getElem_mem hi, rfl⟩))
      (by rw [infoOf_contains]; exact hc)
  | none =>
    unfold findPrefix at hf
    rw [List.findIdx?_eq_none_iff] at hf
    apply lookup_of_not_mem
    intro q hq
    obtain ⟨p, hp, rfl⟩ := List.mem_map.mp (hperm.mem_iff.mp hq)
    rw [infoOf_contains]
    have := hf p hp
    simpa using this

/-- **(a)** `CompressionTable::from(prefixes)` succeeds and `search` is `findPrefix`: it answers the
`PrefixCompressionInfo` of the (unique) prefix containing the number, or the `invalid argument` error when
there is none.  Hypotheses: a non-empty table, ranges non-empty, within the type and pairwise disjoint,
divisors and counts `≥ 1`, codes of at most 64 bits, `16 · Σ counts < 2^64` (no `usize` overflow). -/
theorem search_eq_findPrefix {ub : Nat} {est : Nat → Nat} (hest : EstOk ub est) (ps : List Prefix)
    (hne : ps ≠ []) (hok : ∀ p ∈ ps, PrefixOk ub p) (hd : disjointB ps = true)
    (hcs : 16 * (ps.map (·.count)).sum < USIZE) :
    ∃ t, CTable.ofPrefixes ub est ps = .ok t ∧ ∀ u, t.search u =
      match findPrefix ps u with
      | some i => .ok (infoOf (ps.getD i default))
      | none => .err "InvalidArgument" := by
  have hperm := sortByUpper_perm (ps.map infoOf)
  obtain ⟨t, ht, hsearch⟩ := search_of_sorted_perm ub ps hne hok hd hcs _ hperm (sortByUpper_sorted _)
  refine ⟨t, ?_, hsearch⟩
  unfold CTable.ofPrefixes
  rw [infosOf_eq hest ps hok]
  show CTable.fromSorted ub (ps.map infoOf).length (sortByUpper (ps.map infoOf)) = .ok t
  rw [← hperm.length_eq]
  exact ht

/-- the model's stable sort is the only sorted arrangement: `sort_unstable_by_key` returns the same list -/
theorem sort_unique (ub : Nat) (ps : List Prefix) (hok : ∀ p ∈ ps, PrefixOk ub p)
    (hd : disjointB ps = true) (s : List Info) (hperm : s.Perm (ps.map infoOf)) (hsorted : SortedU s) :
    s = sortByUpper (ps.map infoOf) :=
  sorted_perm_unique s _ (hperm.trans (sortByUpper_perm _).symm) hsorted (sortByUpper_sorted _)
    (uppers_distinct ub ps hok hd s hperm)

/-- **(a)**, the two equivalences -/
theorem search_ok_iff {ub : Nat} {est : Nat → Nat} (hest : EstOk ub est) (ps : List Prefix)
    (hne : ps ≠ []) (hok : ∀ p ∈ ps, PrefixOk ub p) (hd : disjointB ps = true)
    (hcs : 16 * (ps.map (·.count)).sum < USIZE) :
    ∃ t, CTable.ofPrefixes ub est ps = .ok t ∧ ∀ u,
      (∀ i, i < ps.length → (t.search u = .ok (infoOf ps[i]!) ↔ findPrefix ps u = some i)) ∧
      (t.search u = .err "InvalidArgument" ↔ findPrefix ps u = none) ∧
      t.search u ≠ .panic := by
  obtain ⟨t, ht, hsearch⟩ := search_eq_findPrefix hest ps hne hok hd hcs
  refine ⟨t, ht, ?_⟩
  intro u
  have hs := hsearch u
  have hdist := uppers_distinct ub ps hok hd (ps.map infoOf) (List.Perm.refl _)
  rw [List.pairwise_map] at hdist
  cases hf : findPrefix ps u with
  | none =>
    rw [hf] at hs
    replace hs : t.search u = .err "InvalidArgument" := hs
    rw [hs]
    refine ⟨?_, by simp, by simp⟩
    intro i hi; simp
  | some j =>
    rw [hf] at hs
    replace hs : t.search u = .ok (infoOf (ps.getD j default)) := hs
    obtain ⟨hj, _⟩ := findPrefix_some hf
    have hget : ps.getD j default = ps[j] := by simp [List.getD_eq_getElem?_getD, hj]
    rw [hget] at hs
    rw [hs]
    refine ⟨?_, by simp, by simp⟩
    intro i hi
    have hgi : ps[i]! = ps[i] := by simp [hi]
    rw [hgi]
    constructor
    · intro h
      have hup : ps[j].upper = ps[i].upper := by
        have := congrArg Info.upper (R.ok.inj h)
        exact this
      by_cases hij : i = j
      · rw [hij]
      · exfalso
        rcases Nat.lt_or_gt_of_ne hij with hlt | hgt
        · exact (List.pairwise_iff_getElem.mp hdist i j hi hj hlt) hup.symm
        · exact (List.pairwise_iff_getElem.mp hdist j i hj hi hgt) hup
    · intro h
      have : j = i := Option.some.inj h
      subst this; rfl

end Qco.BodyWriter
