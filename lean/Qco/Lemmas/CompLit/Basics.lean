/-
Layer CL, part 2: the simulation relation between the literal compressor (`Qco.CompLit`) and the
operational compressor model (`Qco.Op.CSt`), and the small facts about the writer it rests on.
-/
import Qco.Lemmas.CompLit.Delta
import Qco.Lemmas.MetaIO
import Qco.Lemmas.BodyWriter
import Qco.Properties.C01e
namespace Qco.CompLit
open Qco Qco.WB Qco.MetaIO Qco.Op

/-! ### writer facts -/

theorem aligned_iff {wr : Writer} (h : WInv wr) : wr.j % 8 = 0 ↔ wr.bits.length % 8 = 0 := by
  have := h.ws_length
  have := h.j_le
  omega

theorem byteSize_eq {wr : Writer} (h : WInv wr) (hal : wr.j % 8 = 0) : wr.byteSize = wr.bits.length / 8 := by
  have := h.ws_length
  have := h.j_le
  unfold Writer.byteSize
  omega

theorem bitSize_eq {wr : Writer} (h : WInv wr) : wr.bitSize = wr.bits.length := h.bits_length.symm

/-- `write_aligned_bytes` on an aligned writer: appends the bytes, stays aligned -/
theorem writeAlignedBytes_ok {wr : Writer} (h : WInv wr) (hal : wr.j % 8 = 0) {bytes : List Nat}
    (hb : ∀ b ∈ bytes, b < 256) :
    ∃ wr', wr.writeAlignedBytes bytes = .ok wr' ∧ wr'.bits = wr.bits ++ bytesBits bytes ∧ WInv wr'
      ∧ wr'.j % 8 = 0 := by
  obtain ⟨wr', e, hbits, hi⟩ := (writeAlignedBytes_spec h hb).1 hal
  refine ⟨wr', e, hbits, hi, ?_⟩
  rw [aligned_iff hi, hbits, List.length_append, bytesBits'_length]
  have := (aligned_iff h).1 hal
  omega

theorem writeAlignedByte_ok {wr : Writer} (h : WInv wr) (hal : wr.j % 8 = 0) {b : Nat} (hb : b < 256) :
    ∃ wr', writeAlignedByte wr b = .ok wr' ∧ wr'.bits = wr.bits ++ natBits 8 b ∧ WInv wr'
      ∧ wr'.j % 8 = 0 := by
  obtain ⟨wr', e, hbits, hi, hj⟩ := writeAlignedBytes_ok h hal (bytes := [b])
    (by intro x hx; rw [List.mem_singleton.mp hx]; exact hb)
  refine ⟨wr', e, ?_, hi, hj⟩
  rw [hbits]
  simp [bytesBits]

/-! ### `CM` plumbing -/

theorem bind_ok {α β : Type} {m : CM α} {f : α → CM β} {c c1 : Comp} {a : α} (h : m c = (.ok a, c1)) :
    CM.bind m f c = f a c1 := by
  simp only [CM.bind, h]

theorem bind_err {α β : Type} {m : CM α} {f : α → CM β} {c c1 : Comp} {k : String}
    (h : m c = (.err k, c1)) : CM.bind m f c = (.err k, c1) := by
  simp only [CM.bind, h]

theorem onWriter_ok {f : Writer → R Writer} {c : Comp} {wr : Writer} (h : f c.writer = .ok wr) :
    onWriter f c = (.ok (), { c with writer := wr }) := by
  simp only [onWriter, h]

/-! ### the simulation relation -/

/-- the literal compressor `l` and the abstract state `a` agree: the writer satisfies its invariant and is
byte-aligned, its written bits are the abstract pending bits, the protocol flags are equal, and the
literal compressor carries the flags / internal configuration that `from_config(cfg)` computes -/
structure CSim (cfg : CConfig) (l : Comp) (a : CSt) : Prop where
  winv : WInv l.writer
  aligned : l.writer.j % 8 = 0
  bits : l.writer.bits = a.pending
  hdr : l.state.hasWrittenHeader = a.hasHeader
  ftr : l.state.hasWrittenFooter = a.hasFooter
  flags : l.flags = cfg.flags
  level : l.internalConfig.compressionLevel = cfg.level

theorem csim_init (cfg : CConfig) : CSim cfg (Comp.fromConfig cfg) CSt.init :=
  ⟨winv_default, by show (64 : Nat) % 8 = 0; decide, rfl, rfl, rfl, rfl, rfl⟩

/-- what the environment must satisfy: `U::BITS ≤ 128`, `HEADER_BYTE` is a `u8`, a GCD field is at most
`max U::BITS 64` bits wide (`gcd_bits_required ≤ U::BITS`), the `f64` estimate of `k_info` is exact or one
too high.  True of the 15 data types of the library. -/
structure EnvOk (gb est : Nat → Nat) (d : DType) : Prop where
  ubits : d.uBits ≤ 128
  header_byte : d.headerByte < 256
  gb_le : ∀ x, gb x ≤ max d.uBits 64
  est_ok : BodyWriter.EstOk d.uBits est

/-- what the answer `ps` of `train_prefixes` must satisfy for the numbers `nums` of a chunk (these are
conjuncts of what layer T proves of trained tables): every prefix has `lower ≤ upper < 2^BITS`, `gcd ≥ 1`,
`count ≥ 1`, a code of at most 64 bits, a jumpstart `≤ 24`; the ranges are pairwise disjoint; the counts are
small (`16 · Σ count < 2^64`); every coded number lies in some range -/
structure TableOk (d : DType) (fl : Flags) (nums : List Nat) (ps : List Prefix) : Prop where
  pref_ok : ∀ p ∈ ps, BodyWriter.PrefixOk d.uBits p
  disjoint : disjointB ps = true
  counts_small : 16 * (ps.map (·.count)).sum < USIZE
  cover : coverB ps (codedUs d fl nums) = true

/-- the chunk of the abstract syntax determined by the numbers and the training answer: metadata with the
delta moments and the common-GCD field `write_prefixes` chooses, body = the greedy grouping
(`default` when some coded number lies in no range) -/
def trainedOf (fl : Flags) (d : DType) (nums : List Nat) (ps : List Prefix) : AChunk :=
  (C01.trainedChunk fl d nums ps (commonField fl ps)).getD default

theorem trainedOf_eq {fl : Flags} {d : DType} {nums : List Nat} {ps : List Prefix}
    (hcov : coverB ps (codedUs d fl nums) = true) :
    ∃ bs, greedyBlocks ps (codedUs d fl nums).length (codedUs d fl nums) = some bs ∧
      C01.trainedChunk fl d nums ps (commonField fl ps) = some (trainedOf fl d nums ps) ∧
      trainedOf fl d nums ps = { cm := C01.trainedMeta fl d nums ps (commonField fl ps), blocks := bs } := by
  obtain ⟨bs, hbs⟩ := greedyBlocks_some ps _ hcov
  have e : C01.trainedChunk fl d nums ps (commonField fl ps)
      = some { cm := C01.trainedMeta fl d nums ps (commonField fl ps), blocks := bs } := by
    rw [C01.trainedChunk, hbs]; rfl
  refine ⟨bs, hbs, ?_, ?_⟩
  · rw [trainedOf, e]; rfl
  · rw [trainedOf, e]; rfl

theorem codedUs_length_le (d : DType) (fl : Flags) (nums : List Nat) :
    (codedUs d fl nums).length ≤ nums.length := by
  unfold codedUs
  split
  · simp
  · rw [List.length_map, C18.sDiffN_length, List.length_map]; omega

/-! ### the metadata encoding around the body-size field -/

/-- everything of `encChunkMeta` after the `n` and body-size fields (does not depend on the body size) -/
def metaTail (gb : Nat → Nat) (d : DType) (fl : Flags) (m : ChunkMeta) : Bits :=
  let X := m.moments.flatMap (encMoment d.signed)
    ++ encPrefixes gb (prefDType d fl) fl m.n m.commonGcd m.prefixes
  X ++ List.replicate ((8 - (56 + X.length) % 8) % 8) false

theorem pad_split (A B X : Bits) (hA : A.length = 24) (hB : B.length = 32) :
    padToByte (A ++ B ++ X) = A ++ B ++ (X ++ List.replicate ((8 - (56 + X.length) % 8) % 8) false) := by
  unfold padToByte
  simp only [List.append_assoc, List.length_append, hA, hB]
  have : 24 + (32 + X.length) = 56 + X.length := by omega
  rw [this]

theorem encChunkMeta_split (gb : Nat → Nat) (d : DType) (fl : Flags) (m : ChunkMeta) :
    encChunkMeta gb d fl m
      = natBits Frozen.bitsNEntries m.n ++ natBits Frozen.bitsBodySize m.bodyBytes ++ metaTail gb d fl m := by
  unfold encChunkMeta metaTail
  rw [List.append_assoc (natBits Frozen.bitsNEntries m.n ++ natBits Frozen.bitsBodySize m.bodyBytes)]
  exact pad_split _ _ _ (natBits_length _ _) (natBits_length _ _)

theorem metaTail_body (gb : Nat → Nat) (d : DType) (fl : Flags) (m : ChunkMeta) (b : Nat) :
    metaTail gb d fl { m with bodyBytes := b } = metaTail gb d fl m := rfl

/-! ### the body writer on the empty table -/

theorem trainedCompressChunkNums_nil (ub : Nat) (est : Nat → Nat) (wr : Writer) :
    BodyWriter.trainedCompressChunkNums ub est [] [] wr = .ok wr.finishByte := rfl

theorem coverB_nil_left {us : List Nat} (h : coverB [] us = true) : us = [] := by
  cases us with
  | nil => rfl
  | cons u us => simp [coverB] at h

end Qco.CompLit
