/-
Layer CL, part 4: `Compressor::chunk` against `cChunk` — an accepted call writes the magic byte, the
metadata with a zero body size, the body, and patches the body size: together `encChunk` of the chunk
determined by the numbers and the training answer.
-/
import Qco.Lemmas.CompLit.Steps
namespace Qco.CompLit
open Qco Qco.WB Qco.MetaIO Qco.Op

variable {gb est : Nat → Nat} {d : DType} {cfg : CConfig}

theorem greedyBlocks_nil_nums {ps : List Prefix} {k : Nat} {bs : List Block}
    (h : greedyBlocks ps k [] = some bs) : bs = [] := by
  cases k <;> (simp only [greedyBlocks, Option.some.injEq] at h; exact h.symm)

theorem encBody_nil : encBody [] [] = [] := by decide

/-- the code shared by the two branches of `chunk`: training answer, `write_to`, body -/
theorem trainWriteBody_ok (henv : EnvOk gb est d)
    {train : List Nat → InternalConfig → Flags → Nat → R (List Prefix)}
    (c : Comp) (hw : WInv c.writer) (hal : c.writer.j % 8 = 0)
    (ub : Nat) (hub : ub = d.uBits) (n : Nat) (hn : n < 2 ^ 24) (us : List Nat) (hlen : us.length ≤ 2 ^ 24)
    (mk : List Prefix → PrefixMeta) (ps : List Prefix)
    (htrain : train us c.internalConfig c.flags n = .ok ps)
    (hvar : (mk ps).isDelta = decide (c.flags.order ≠ 0)) (hmk : (mk ps).prefixes = ps)
    (hok : ∀ p ∈ ps, BodyWriter.PrefixOk d.uBits p) (hd : disjointB ps = true)
    (hcs : 16 * (ps.map (·.count)).sum < USIZE)
    (bs : List Block) (hbs : greedyBlocks ps us.length us = some bs) (hne : ps = [] → us = []) :
    ∃ w1 w2 : Writer, trainWriteBody gb est d ub train n us mk c
        = (.ok ({ n := n, compressedBodySize := 0, prefixMetadata := mk ps }, w1.bits.length / 8),
           { c with writer := w2 }) ∧
      w1.bits = c.writer.bits ++ encChunkMeta gb d c.flags
        (RMeta.toSpec c.flags { n := n, compressedBodySize := 0, prefixMetadata := mk ps }) ∧
      w1.bits.length % 8 = 0 ∧
      w2.bits = w1.bits ++ encBody ps bs ∧ WInv w2 ∧ w2.j % 8 = 0 := by
  have hubs : d.signed.uBits ≤ 128 := by rw [signed_uBits]; exact henv.ubits
  have hgbs : ∀ x, gb x ≤ max d.signed.uBits 64 := by rw [signed_uBits]; exact henv.gb_le
  obtain ⟨w1, e1, b1, i1, j1⟩ := writeTo_spec henv.ubits hubs henv.gb_le hgbs c.flags
    { n := n, compressedBodySize := 0, prefixMetadata := mk ps } (by show n < 2 ^ 64; omega) hvar
    (by intro p hp; rw [hmk] at hp; exact ⟨(hok p hp).bounds, (hok p hp).gcd_pos⟩)
    hw ((aligned_iff hw).1 hal)
  have hal1 := (aligned_iff i1).1 j1
  have hbody : ∃ w2, BodyWriter.trainedCompressChunkNums ub est ps us w1 = .ok w2 ∧
      w2.bits = w1.bits ++ encBody ps bs ∧ WInv w2 ∧ w2.j % 8 = 0 := by
    by_cases hps : ps = []
    · have hus := hne hps
      subst hps hus
      have hbs' := greedyBlocks_nil_nums hbs
      subst hbs'
      obtain ⟨f1, f2, f3⟩ := finishByte_spec i1
      refine ⟨w1.finishByte, rfl, ?_, f2, f3⟩
      rw [f1, encBody_nil]
      have : (8 - w1.bits.length % 8) % 8 = 0 := by omega
      rw [this]
      rfl
    · subst hub
      exact BodyWriter.compressNums_spec_aligned henv.ubits henv.est_ok ps hps hok hd hcs us hlen i1 hal1
        bs hbs
  obtain ⟨w2, e2, b2, i2, j2⟩ := hbody
  refine ⟨w1, w2, ?_, b1, hal1, b2, i2, j2⟩
  unfold trainWriteBody
  simp only [CM.bind, htrain, onWriter, e1, e2, byteSize_eq i1 j1]

/-- `toSpec` of the metadata the literal `chunk` builds is the metadata of the model's chunk -/
theorem toSpec_trainedMeta (fl : Flags) (d : DType) (nums : List Nat) (ps : List Prefix) (pm : PrefixMeta)
    (hp : pm.prefixes = ps) (hm : pm.moments = sMoments d.signed fl.order (nums.map d.toS)) (B : Nat) :
    RMeta.toSpec fl { n := nums.length, compressedBodySize := B, prefixMetadata := pm }
      = { C01.trainedMeta fl d nums ps (commonField fl ps) with bodyBytes := B } := by
  simp only [RMeta.toSpec, C01.trainedMeta, hp, hm]

/-- the `if order == 0 { … } else { … }` of `chunk`, up to and including the body: some metadata with a
zero body size whose specification view is `trainedMeta`, written after the old contents, then the body -/
theorem chunk_branch_ok (henv : EnvOk gb est d)
    {train : List Nat → InternalConfig → Flags → Nat → R (List Prefix)} {nums : List Nat}
    {ps : List Prefix} (c : Comp) (hw : WInv c.writer) (hal : c.writer.j % 8 = 0)
    (hn : nums.length < 2 ^ 24)
    (htrain : train (codedUs d c.flags nums) c.internalConfig c.flags nums.length = .ok ps)
    (ht : TableOk d c.flags nums ps)
    (bs : List Block)
    (hbs : greedyBlocks ps (codedUs d c.flags nums).length (codedUs d c.flags nums) = some bs) :
    ∃ (pm : PrefixMeta) (w1 w2 : Writer),
      (if c.flags.order = 0 then
          trainWriteBody gb est d d.uBits train nums.length (nums.map d.toU) PrefixMeta.simple
        else
          CM.bind (CM.ofR (deltaMomentsFrom d nums c.flags.order)) fun deltaMoments =>
          CM.bind (CM.ofR (nthOrderDeltas d nums c.flags.order)) fun deltas =>
          trainWriteBody gb est d d.signed.uBits train nums.length (deltas.map d.signed.toU)
            (fun prefixes => PrefixMeta.delta prefixes deltaMoments)) c
        = (.ok ({ n := nums.length, compressedBodySize := 0, prefixMetadata := pm }, w1.bits.length / 8),
           { c with writer := w2 }) ∧
      pm.prefixes = ps ∧ pm.moments = sMoments d.signed c.flags.order (nums.map d.toS) ∧
      w1.bits = c.writer.bits ++ encChunkMeta gb d c.flags
        (C01.trainedMeta c.flags d nums ps (commonField c.flags ps)) ∧
      w1.bits.length % 8 = 0 ∧
      w2.bits = w1.bits ++ encBody ps bs ∧ WInv w2 ∧ w2.j % 8 = 0 := by
  have hlen : (codedUs d c.flags nums).length ≤ 2 ^ 24 := by
    have := codedUs_length_le d c.flags nums
    omega
  have hne : ps = [] → codedUs d c.flags nums = [] := by
    intro h
    have := ht.cover
    rw [h] at this
    exact coverB_nil_left this
  by_cases h0 : c.flags.order = 0
  · have hus : codedUs d c.flags nums = nums.map d.toU := by unfold codedUs; rw [if_pos h0]
    rw [hus] at htrain hbs hlen hne
    obtain ⟨w1, w2, e, b1, a1, b2, i2, j2⟩ := trainWriteBody_ok henv c hw hal d.uBits rfl nums.length hn
      (nums.map d.toU) hlen PrefixMeta.simple ps htrain (by simp [PrefixMeta.isDelta, h0]) rfl
      ht.pref_ok ht.disjoint ht.counts_small bs hbs hne
    refine ⟨PrefixMeta.simple ps, w1, w2, ?_, rfl, ?_, ?_, a1, b2, i2, j2⟩
    · rw [if_pos h0]; exact e
    · rw [h0]; rfl
    · rw [b1, toSpec_trainedMeta c.flags d nums ps _ rfl (by rw [h0]; rfl)]
      rfl
  · have hus : codedUs d c.flags nums
        = (sDiffN d.signed c.flags.order (nums.map d.toS)).map d.signed.toU := by
      unfold codedUs; rw [if_neg h0]
    rw [hus] at htrain hbs hlen hne
    obtain ⟨w1, w2, e, b1, a1, b2, i2, j2⟩ := trainWriteBody_ok henv c hw hal d.signed.uBits
      (signed_uBits d) nums.length hn _ hlen
      (fun prefixes => PrefixMeta.delta prefixes (sMoments d.signed c.flags.order (nums.map d.toS))) ps
      htrain (by simp [PrefixMeta.isDelta, h0]) rfl ht.pref_ok ht.disjoint ht.counts_small bs hbs hne
    refine ⟨PrefixMeta.delta ps (sMoments d.signed c.flags.order (nums.map d.toS)), w1, w2, ?_, rfl, rfl,
      ?_, a1, b2, i2, j2⟩
    · rw [if_neg h0]
      simp only [CM.bind, CM.ofR, deltaMomentsFrom_eq, nthOrderDeltas_eq]
      exact e
    · rw [b1, toSpec_trainedMeta c.flags d nums ps _ rfl rfl]
      rfl

/-- **an accepted `chunk(nums)`** returns the metadata of, and appends exactly `encChunk` of, the chunk
determined by the numbers and the training answer -/
theorem chunk_ok (henv : EnvOk gb est d)
    {train : List Nat → InternalConfig → Flags → Nat → R (List Prefix)} {nums : List Nat}
    {ps : List Prefix} {l : Comp} {a : CSt} (hs : CSim cfg l a)
    (hh : a.hasHeader = true) (hf : a.hasFooter = false) (hn0 : nums ≠ []) (hlev : cfg.level ≤ 12)
    (hn : nums.length ≤ 2 ^ 24 - 1)
    (htrain : train (codedUs d cfg.flags nums) l.internalConfig l.flags nums.length = .ok ps)
    (ht : TableOk d cfg.flags nums ps) (hsz : a.pending.length + 32 < USIZE) :
    ∃ rm l', chunk gb est d train nums l = (.ok rm, l') ∧
      rm.toSpec cfg.flags = (trainedOf cfg.flags d nums ps).fixedMeta ∧
      CSim cfg l' { a with pending := a.pending ++ encChunk gb d cfg.flags (trainedOf cfg.flags d nums ps) } := by
  obtain ⟨bs, hbs, _, htr⟩ := trainedOf_eq ht.cover
  have hfl := hs.flags
  have htrain' : train (codedUs d l.flags nums) l.internalConfig l.flags nums.length = .ok ps := by
    rw [hfl] at htrain ⊢; exact htrain
  -- the magic byte
  obtain ⟨w0, e0, b0, i0, j0⟩ := writeAlignedByte_ok hs.winv hs.aligned (b := Frozen.magicChunkByte)
    (by decide)
  -- the branch
  obtain ⟨pm, w1, w2, eb, hpp, hpm, b1, a1, b2, i2, j2⟩ :=
    chunk_branch_ok henv (train := train) (nums := nums) (ps := ps) { l with writer := w0 } i0 j0
      (by omega) htrain' (by show TableOk d l.flags nums ps; rw [hfl]; exact ht) bs
      (by show greedyBlocks ps (codedUs d l.flags nums).length (codedUs d l.flags nums) = some bs
          rw [hfl]; exact hbs)
  simp only at eb b1 hpm
  rw [hfl] at b1 hpm
  -- sizes
  have hbody : w2.byteSize - w1.bits.length / 8 = (encBody ps bs).length / 8 := by
    rw [byteSize_eq i2 j2, b2, List.length_append]
    omega
  have hge : ¬ w2.byteSize < w1.bits.length / 8 := by
    rw [byteSize_eq i2 j2, b2, List.length_append]
    omega
  -- the patch
  obtain ⟨B, hB⟩ : ∃ B, B = (encBody ps bs).length / 8 := ⟨_, rfl⟩
  obtain ⟨tm, htm⟩ : ∃ tm, tm = C01.trainedMeta cfg.flags d nums ps (commonField cfg.flags ps) := ⟨_, rfl⟩
  rw [← hB] at hbody
  rw [← htm] at b1
  have hbits2 : w2.bits = (a.pending ++ natBits 8 Frozen.magicChunkByte ++ natBits Frozen.bitsNEntries nums.length)
      ++ natBits Frozen.bitsBodySize 0 ++ (metaTail gb d cfg.flags tm ++ encBody ps bs) := by
    rw [b2, b1, b0, hs.bits, encChunkMeta_split, htm]
    simp only [List.append_assoc]
    rfl
  obtain ⟨w3, e3, j3, b3, i3⟩ := update_spec i2
    { n := nums.length, compressedBodySize := B, prefixMetadata := pm } (bitIdx := w0.bitSize)
    (by rw [bitSize_eq i0, b0, hs.bits]; simp [Frozen.bitsNEntries]) hbits2
    (by rw [bitSize_eq i0, b0, hs.bits]; simp only [List.length_append, natBits_length]; omega)
  have hlh : l.state.hasWrittenHeader = true := by rw [hs.hdr, hh]
  have hlf : l.state.hasWrittenFooter = false := by rw [hs.ftr, hf]
  have hne : nums.isEmpty = false := by cases nums <;> simp_all
  have hval : validateChunkArgs l.internalConfig nums.length = .ok () := by
    unfold validateChunkArgs
    rw [hs.level, if_neg (by simp only [maxCompressionLevel]; omega),
      if_neg (by simp only [Frozen.maxEntries]; omega)]
  refine ⟨{ n := nums.length, compressedBodySize := B, prefixMetadata := pm },
    { l with writer := w3 }, ?_, ?_, ?_⟩
  · unfold chunk
    simp only [hlh, hlf, hne, Bool.not_true, Bool.false_eq_true, if_false, CM.bind, hval, onWriter, e0]
    rw [hfl] at eb ⊢
    simp only [eb, hge, if_false, hbody, CM.ofR, e3]
  · rw [toSpec_trainedMeta cfg.flags d nums ps pm hpp hpm, htr, hB]
    rfl
  · refine ⟨i3, by rw [j3]; exact j2, ?_, hs.hdr, hs.ftr, hs.flags, hs.level⟩
    show w3.bits = a.pending ++ encChunk gb d cfg.flags (trainedOf cfg.flags d nums ps)
    rw [b3, htr, hB, htm]
    unfold encChunk
    rw [encChunkMeta_split]
    simp only [List.append_assoc]
    rfl

/-- a rejected `chunk(nums)`: `InvalidArgument`, nothing changes, `train_prefixes` is not even called -/
theorem chunk_rejected {train : List Nat → InternalConfig → Flags → Nat → R (List Prefix)}
    {nums : List Nat} {l : Comp} {a : CSt} (hs : CSim cfg l a)
    (h : ¬ (a.hasHeader = true ∧ a.hasFooter = false ∧ 1 ≤ nums.length ∧ cfg.level ≤ 12
      ∧ nums.length ≤ 2 ^ 24 - 1)) :
    chunk gb est d train nums l = (.err "InvalidArgument", l) := by
  unfold chunk
  rw [hs.hdr, hs.ftr]
  cases hh : a.hasHeader
  · simp
  · cases hf : a.hasFooter
    · cases nums with
      | nil => simp
      | cons x xs =>
        simp only [Bool.not_true, Bool.false_eq_true, if_false, List.isEmpty_cons, CM.bind]
        rw [hh, hf] at h
        have hv : validateChunkArgs l.internalConfig (x :: xs).length = .err "InvalidArgument" := by
          unfold validateChunkArgs
          rw [hs.level]
          have hc : maxCompressionLevel = 12 := rfl
          have hm : Frozen.maxEntries = 2 ^ 24 - 1 := rfl
          simp only [List.length_cons, true_and] at h
          by_cases hl : cfg.level > maxCompressionLevel
          · rw [if_pos hl]
          · rw [if_neg hl, if_pos (by rw [List.length_cons]; omega)]
        simp only [hv]
    · simp

/-- when the call is accepted by the protocol -/
def Accepted (cfg : CConfig) (a : CSt) (n : Nat) : Prop :=
  a.hasHeader = true ∧ a.hasFooter = false ∧ 1 ≤ n ∧ cfg.level ≤ 12 ∧ n ≤ 2 ^ 24 - 1

instance (cfg : CConfig) (a : CSt) (n : Nat) : Decidable (Accepted cfg a n) := by
  unfold Accepted; infer_instance

/-- **`chunk` refines `cChunk`**, for every training oracle: if — whenever the protocol accepts the call —
the oracle answers `Ok(ps)` with a table satisfying `TableOk` and fewer than `2^64 − 32` bits are pending,
then the literal call and the abstract call on the chunk determined by `(nums, ps)` agree: both accept,
returning the same metadata and appending the same bits, or both reject with `InvalidArgument` and change
nothing -/
theorem chunk_refines (henv : EnvOk gb est d)
    (train : List Nat → InternalConfig → Flags → Nat → R (List Prefix)) (nums : List Nat)
    (ps : List Prefix) {l : Comp} {a : CSt} (hs : CSim cfg l a)
    (hacc : Accepted cfg a nums.length →
      train (codedUs d cfg.flags nums) l.internalConfig l.flags nums.length = .ok ps ∧
      TableOk d cfg.flags nums ps ∧ a.pending.length + 32 < USIZE) :
    CSim cfg (chunk gb est d train nums l).2
      (cChunk gb d cfg a nums.length (trainedOf cfg.flags d nums ps)).2 ∧
    (((cChunk gb d cfg a nums.length (trainedOf cfg.flags d nums ps)).1
          = .ok (trainedOf cfg.flags d nums ps).fixedMeta ∧
      ∃ rm, (chunk gb est d train nums l).1 = .ok rm ∧
        rm.toSpec cfg.flags = (trainedOf cfg.flags d nums ps).fixedMeta) ∨
     ((cChunk gb d cfg a nums.length (trainedOf cfg.flags d nums ps)).1 = .error .invalid ∧
      (chunk gb est d train nums l).1 = .err "InvalidArgument" ∧
      (chunk gb est d train nums l).2 = l ∧
      (cChunk gb d cfg a nums.length (trainedOf cfg.flags d nums ps)).2 = a)) := by
  by_cases h : Accepted cfg a nums.length
  · obtain ⟨htrain, ht, hsz⟩ := hacc h
    obtain ⟨hh, hf, h1, hlev, hn⟩ := h
    have hn0 : nums ≠ [] := by intro e; rw [e] at h1; simp at h1
    obtain ⟨rm, l', e, hrm, hs'⟩ := chunk_ok henv hs hh hf hn0 hlev hn htrain ht hsz
    have ha : cChunk gb d cfg a nums.length (trainedOf cfg.flags d nums ps)
        = (.ok (trainedOf cfg.flags d nums ps).fixedMeta,
           { a with pending := a.pending ++ encChunk gb d cfg.flags (trainedOf cfg.flags d nums ps) }) := by
      have hl' : ¬ (cfg.level > maxLevel) := by simp only [maxLevel]; omega
      have hm' : ¬ (nums.length > maxEntries) := by simp only [maxEntries]; omega
      have hz : ¬ (nums.length = 0) := by omega
      simp only [cChunk, hh, hf, hz, hl', hm', Bool.not_true, Bool.false_eq_true, if_false]
    rw [e, ha]
    exact ⟨hs', Or.inl ⟨rfl, rm, rfl, hrm⟩⟩
  · rw [chunk_rejected hs h, C09.cChunk_rejected gb d cfg a nums.length _ h]
    exact ⟨hs, Or.inr ⟨rfl, rfl, rfl, rfl⟩⟩

end Qco.CompLit
