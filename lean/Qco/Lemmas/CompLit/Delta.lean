/-
Layer CL, part 1: the literal delta encoder (`first_order_deltas_in_place`, `nth_order_deltas`,
`nth_order_moments`, `DeltaMoments::from`) computes the specification's differences and moments
(`sDiff1`/`sDiffN`/`sMoments` of `Qco/Train/WFc.lean`, the ones `codedUs` and the chunk metadata are made
of; `diff1`/`diffN`/`momentsN` of `Qco/Spec/Delta.lean` for the modular arithmetic) and never panics.
-/
import Qco.Op.CompLit
import Qco.Train.WFc
import Qco.Lemmas.Features
namespace Qco.CompLit
open Qco Qco.WB

/-! ### `first_order_deltas_in_place` -/

/-- the in-place loop, started at index `pre.len()` with `rest.len()` iterations to go, on
`pre ++ a :: rest`: the differences of `a :: rest` followed by the untouched last element -/
theorem fodLoop_spec (ds : DType) : ∀ (rest pre : List Nat) (a : Nat),
    fodLoop ds rest.length pre.length (pre ++ a :: rest)
      = .ok (pre ++ sDiff1 ds (a :: rest) ++ [(a :: rest).getLast (by simp)]) := by
  intro rest
  induction rest with
  | nil => intro pre a; simp [fodLoop, sDiff1]
  | cons b rest ih =>
    intro pre a
    have h1 : (pre ++ a :: b :: rest)[pre.length + 1]? = some b := by
      rw [List.getElem?_append_right (by omega)]
      simp
    have h0 : (pre ++ a :: b :: rest)[pre.length]? = some a := by
      rw [List.getElem?_append_right (by omega)]
      simp
    have hset : (pre ++ a :: b :: rest).set pre.length (ds.sSub b a)
        = (pre ++ [ds.sSub b a]) ++ b :: rest := by
      rw [List.set_append_right _ _ (by omega)]
      simp
    show (match (pre ++ a :: b :: rest)[pre.length + 1]?, (pre ++ a :: b :: rest)[pre.length]? with
      | some b', some a' =>
        fodLoop ds rest.length (pre.length + 1) ((pre ++ a :: b :: rest).set pre.length (ds.sSub b' a'))
      | _, _ => R.panic) = _
    rw [h1, h0]
    simp only
    rw [hset]
    have := ih (pre ++ [ds.sSub b a]) b
    rw [List.length_append, List.length_singleton] at this
    rw [this]
    simp [sDiff1, List.getLast_cons]

/-- **`first_order_deltas_in_place` is `sDiff1`**, for every vector (also the empty and the one-element
vector); no index is out of bounds, `nums.len() - 1` does not underflow -/
theorem firstOrderDeltasInPlace_eq (ds : DType) (nums : List Nat) :
    firstOrderDeltasInPlace ds nums = .ok (sDiff1 ds nums) := by
  cases nums with
  | nil => rfl
  | cons a rest =>
    have h := fodLoop_spec ds rest [] a
    simp only [List.length_nil, List.nil_append] at h
    unfold firstOrderDeltasInPlace
    have e : (a :: rest).length - 1 = rest.length := by simp
    simp only [List.isEmpty_cons, Bool.false_eq_true, if_false, e, h]
    have hl : (sDiff1 ds (a :: rest) ++ [(a :: rest).getLast (by simp)]).length
        = (sDiff1 ds (a :: rest)).length + 1 := by simp
    rw [if_neg (by omega), hl, Nat.add_sub_cancel, List.take_left']
    rfl

theorem fodIter_eq (ds : DType) : ∀ (k : Nat) (res : List Nat), fodIter ds k res = .ok (sDiffN ds k res) := by
  intro k
  induction k with
  | zero => intro res; rfl
  | succ k ih =>
    intro res
    simp only [fodIter, firstOrderDeltasInPlace_eq, sDiffN, ih]

/-- **`nth_order_deltas` is `sDiffN`** of the `to_signed` images, for every order and every length
(shorter than the order: the empty vector) -/
theorem nthOrderDeltas_eq (d : DType) (nums : List Nat) (order : Nat) :
    nthOrderDeltas d nums order = .ok (sDiffN d.signed order (nums.map d.toS)) :=
  fodIter_eq d.signed order _

/-! ### `nth_order_moments` -/

theorem sDiff1_take (ds : DType) : ∀ (xs : List Nat) (k : Nat),
    sDiff1 ds (xs.take (k + 1)) = (sDiff1 ds xs).take k := by
  intro xs
  induction xs with
  | nil => intro k; simp [sDiff1]
  | cons a rest ih =>
    intro k
    cases rest with
    | nil => simp [sDiff1]
    | cons b rest' =>
      cases k with
      | zero => simp [sDiff1]
      | succ k =>
        have := ih k
        simp only [List.take_succ_cons, sDiff1] at this ⊢
        rw [this]

/-- the moments of order `k` only depend on the first `k` numbers
(`limited_nums = &nums[0..order]`) -/
theorem sMoments_take (ds : DType) : ∀ (k : Nat) (xs : List Nat),
    sMoments ds k (xs.take k) = sMoments ds k xs := by
  intro k
  induction k with
  | zero => intro xs; rfl
  | succ k ih =>
    intro xs
    simp only [sMoments]
    rw [sDiff1_take, ih]
    congr 1
    cases xs <;> simp

theorem momentsLoop_eq (ds : DType) : ∀ (k : Nat) (deltas res : List Nat),
    momentsLoop ds k deltas res = .ok (res ++ sMoments ds k deltas) := by
  intro k
  induction k with
  | zero => intro deltas res; simp [momentsLoop, sMoments]
  | succ k ih =>
    intro deltas res
    cases deltas with
    | nil =>
      simp only [momentsLoop, List.isEmpty_nil, if_true, ih, sMoments, sDiff1, List.headD_nil,
        List.append_assoc, List.singleton_append]
    | cons x rest =>
      simp only [momentsLoop, List.isEmpty_cons, Bool.false_eq_true, if_false, List.getElem?_cons_zero,
        firstOrderDeltasInPlace_eq, ih, sMoments, List.headD_cons, List.append_assoc,
        List.singleton_append]

/-- **`nth_order_moments` is `sMoments`** of the `to_signed` images: for every order and every length,
including lengths `≤ order` (zeros are pushed once the level is empty); the slice `nums[0..order]` is in
range, `deltas[0]` exists -/
theorem nthOrderMoments_eq (d : DType) (nums : List Nat) (order : Nat) :
    nthOrderMoments d nums order = .ok (sMoments d.signed order (nums.map d.toS)) := by
  unfold nthOrderMoments
  by_cases h : nums.length ≤ order
  · simp only [h, if_true, momentsLoop_eq, List.nil_append]
  · simp only [h, if_false, if_neg (show ¬ order > nums.length by omega), momentsLoop_eq,
      List.nil_append]
    rw [List.map_take, sMoments_take]

theorem deltaMomentsFrom_eq (d : DType) (nums : List Nat) (order : Nat) :
    deltaMomentsFrom d nums order = .ok (sMoments d.signed order (nums.map d.toS)) :=
  nthOrderMoments_eq d nums order

/-! ### the generic differences of `Qco/Spec/Delta.lean`, instantiated with arithmetic modulo `2^W` -/

/-- wrapping `W`-bit arithmetic as an instance of the specification's `Arith` -/
def modArith (W : Nat) : Arith (Fin (2 ^ W)) where
  add a b := a + b
  sub a b := a - b
  zero := ⟨0, Nat.two_pow_pos W⟩
  add_sub a b := by
    apply Fin.ext
    rw [Fin.add_def, Fin.sub_def]
    simp only
    rw [Nat.add_mod_mod, ← Nat.add_assoc, Nat.add_sub_cancel' (Nat.le_of_lt a.isLt),
      Nat.add_mod_left, Nat.mod_eq_of_lt b.isLt]

/-- `wrapping_sub` of a non-bool signed companion on valid patterns is subtraction in `Fin (2^W)` -/
theorem sSub_eq_fin (ds : DType) (hk : ds.kind ≠ .bool) (a b : Fin (2 ^ ds.uBits)) :
    ds.sSub a.val b.val = ((modArith ds.uBits).sub a b).val := by
  show ds.sSub a.val b.val = (a - b).val
  rw [Fin.sub_def]
  unfold DType.sSub DType.M
  have hb : b.val % 2 ^ ds.uBits = b.val := Nat.mod_eq_of_lt b.isLt
  cases hkd : ds.kind <;> simp_all [Nat.add_comm]

theorem sDiff1_eq_diff1 (ds : DType) (hk : ds.kind ≠ .bool) : ∀ (xs : List (Fin (2 ^ ds.uBits))),
    sDiff1 ds (xs.map Fin.val) = (diff1 (modArith ds.uBits) xs).map Fin.val := by
  intro xs
  induction xs with
  | nil => rfl
  | cons a rest ih =>
    cases rest with
    | nil => rfl
    | cons b rest' =>
      simp only [List.map_cons, sDiff1, diff1] at ih ⊢
      rw [ih, sSub_eq_fin ds hk]

theorem sDiffN_eq_diffN (ds : DType) (hk : ds.kind ≠ .bool) : ∀ (k : Nat) (xs : List (Fin (2 ^ ds.uBits))),
    sDiffN ds k (xs.map Fin.val) = (diffN (modArith ds.uBits) k xs).map Fin.val := by
  intro k
  induction k with
  | zero => intro xs; rfl
  | succ k ih => intro xs; simp only [sDiffN, diffN, sDiff1_eq_diff1 ds hk, ih]

theorem sMoments_eq_momentsN (ds : DType) (hk : ds.kind ≠ .bool) :
    ∀ (k : Nat) (xs : List (Fin (2 ^ ds.uBits))),
    sMoments ds k (xs.map Fin.val) = (momentsN (modArith ds.uBits) k xs).map Fin.val := by
  intro k
  induction k with
  | zero => intro xs; rfl
  | succ k ih =>
    intro xs
    simp only [sMoments, momentsN, sDiff1_eq_diff1 ds hk, ih, List.map_cons]
    congr 1
    cases xs <;> rfl

/-! ### … and with XOR for `bool` -/

/-- XOR on `bool` as an instance of the specification's `Arith` -/
def xorArith : Arith Bool where
  add a b := a ^^ b
  sub a b := a ^^ b
  zero := false
  add_sub a b := by cases a <;> cases b <;> rfl

theorem sSub_eq_xor (ds : DType) (hk : ds.kind = .bool) (a b : Bool) :
    ds.sSub a.toNat b.toNat = (xorArith.sub a b).toNat := by
  unfold DType.sSub
  rw [hk]
  cases a <;> cases b <;> rfl

theorem sDiff1_eq_diff1_bool (ds : DType) (hk : ds.kind = .bool) : ∀ (xs : List Bool),
    sDiff1 ds (xs.map Bool.toNat) = (diff1 xorArith xs).map Bool.toNat := by
  intro xs
  induction xs with
  | nil => rfl
  | cons a rest ih =>
    cases rest with
    | nil => rfl
    | cons b rest' =>
      simp only [List.map_cons, sDiff1, diff1] at ih ⊢
      rw [ih, sSub_eq_xor ds hk]

theorem sDiffN_eq_diffN_bool (ds : DType) (hk : ds.kind = .bool) : ∀ (k : Nat) (xs : List Bool),
    sDiffN ds k (xs.map Bool.toNat) = (diffN xorArith k xs).map Bool.toNat := by
  intro k
  induction k with
  | zero => intro xs; rfl
  | succ k ih => intro xs; simp only [sDiffN, diffN, sDiff1_eq_diff1_bool ds hk, ih]

theorem sMoments_eq_momentsN_bool (ds : DType) (hk : ds.kind = .bool) : ∀ (k : Nat) (xs : List Bool),
    sMoments ds k (xs.map Bool.toNat) = (momentsN xorArith k xs).map Bool.toNat := by
  intro k
  induction k with
  | zero => intro xs; rfl
  | succ k ih =>
    intro xs
    simp only [sMoments, momentsN, sDiff1_eq_diff1_bool ds hk, ih, List.map_cons]
    congr 1
    cases xs <;> rfl

end Qco.CompLit
