/-
Layer CL, part 5: histories of calls — the literal run and the abstract run of the corresponding calls
stay in simulation and emit the same bytes.
-/
import Qco.Lemmas.CompLit.Chunk
namespace Qco.CompLit
open Qco Qco.WB Qco.MetaIO Qco.Op

variable {gb est : Nat → Nat} {d : DType} {cfg : CConfig}

/-- the prefix list of a training answer (`[]` when training failed) -/
def psOf : R (List Prefix) → List Prefix
  | .ok ps => ps
  | _ => []

/-- the abstract call corresponding to a literal call (`byte_size` is not a call of `Op.COp`) -/
def absOp (fl : Flags) (d : DType) : LOp → Option COp
  | .header => some .header
  | .chunk nums tr => some (.chunk nums.length (trainedOf fl d nums (psOf tr)))
  | .footer => some .footer
  | .drain => some .drain
  | .byteSize => none

def absOps (fl : Flags) (d : DType) (ops : List LOp) : List COp := ops.filterMap (absOp fl d)

/-- the abstract state after the abstract counterpart of one literal call -/
def absStep (gb : Nat → Nat) (d : DType) (cfg : CConfig) (op : LOp) (a : CSt) : CSt :=
  match op with
  | .header => (cHeader d cfg a).2
  | .chunk nums tr => (cChunk gb d cfg a nums.length (trainedOf cfg.flags d nums (psOf tr))).2
  | .footer => (cFooter a).2
  | .drain => (cDrain a).2
  | .byteSize => a

/-- what a call must satisfy in the abstract state it is made in: a `chunk` call *that the protocol accepts*
has a training answer `Ok(ps)` satisfying `TableOk`, and fewer than `2^64 − 32` bits are pending -/
def StepOk (d : DType) (cfg : CConfig) (op : LOp) (a : CSt) : Prop :=
  match op with
  | .chunk nums tr => Accepted cfg a nums.length →
      (∃ ps, tr = .ok ps ∧ TableOk d cfg.flags nums ps) ∧ a.pending.length + 32 < USIZE
  | _ => True

/-- `StepOk` for every call of a history, each in the abstract state reached before it -/
def HistOk (gb : Nat → Nat) (d : DType) (cfg : CConfig) : List LOp → CSt → Prop
  | [], _ => True
  | op :: ops, a => StepOk d cfg op a ∧ HistOk gb d cfg ops (absStep gb d cfg op a)

/-- the literal run and the abstract run of a history: no panic, same drained bytes, simulation at the end -/
theorem lRun_refines (henv : EnvOk gb est d) : ∀ (ops : List LOp) (l : Comp) (a : CSt) (out : List Nat)
    (acc : List AChunk), CSim cfg l a → HistOk gb d cfg ops a →
    ∃ out' l', lRun gb est d ops l out = .ok (out', l') ∧
      bytesBits out' = (cRun gb d cfg (absOps cfg.flags d ops) a (bytesBits out) acc).1 ∧
      CSim cfg l' (cRun gb d cfg (absOps cfg.flags d ops) a (bytesBits out) acc).2.2 := by
  intro ops
  induction ops with
  | nil => intro l a out acc hs _; exact ⟨out, l, rfl, rfl, hs⟩
  | cons op ops ih =>
    intro l a out acc hs hok
    obtain ⟨hstep, hrest⟩ := hok
    cases op with
    | header =>
      obtain ⟨hs', hr⟩ := header_refines henv (cfg := cfg) hs
      obtain ⟨out', l', e, hb, hsim⟩ := ih (header d l).2 (cHeader d cfg a).2 out acc hs' hrest
      refine ⟨out', l', ?_, hb, hsim⟩
      rw [← e]
      rcases hh : header d l with ⟨r, c'⟩
      have hnp : r ≠ .panic := by
        rcases hr with ⟨_, h2⟩ | ⟨_, h2, _⟩ <;> (rw [hh] at h2; simp only at h2; rw [h2]; simp)
      cases r with
      | ok u => simp only [lRun, hh]
      | err k => simp only [lRun, hh]
      | panic => exact absurd rfl hnp
    | chunk nums tr =>
      have hacc : Accepted cfg a nums.length →
          (fun _ _ _ _ => tr : List Nat → InternalConfig → Flags → Nat → R (List Prefix))
            (codedUs d cfg.flags nums) l.internalConfig l.flags nums.length = .ok (psOf tr) ∧
          TableOk d cfg.flags nums (psOf tr) ∧ a.pending.length + 32 < USIZE := by
        intro h
        obtain ⟨⟨ps, htr, ht⟩, hsz⟩ := hstep h
        subst htr
        exact ⟨rfl, ht, hsz⟩
      obtain ⟨hs', hr⟩ := chunk_refines henv (fun _ _ _ _ => tr) nums (psOf tr) hs hacc
      have hcr : cRun gb d cfg (absOps cfg.flags d (LOp.chunk nums tr :: ops)) a (bytesBits out) acc
          = cRun gb d cfg (absOps cfg.flags d ops)
              (cChunk gb d cfg a nums.length (trainedOf cfg.flags d nums (psOf tr))).2 (bytesBits out)
              (match (cChunk gb d cfg a nums.length (trainedOf cfg.flags d nums (psOf tr))).1 with
                | .ok _ => acc ++ [trainedOf cfg.flags d nums (psOf tr)]
                | .error _ => acc) := by
        show cRun gb d cfg (COp.chunk nums.length (trainedOf cfg.flags d nums (psOf tr))
          :: absOps cfg.flags d ops) a (bytesBits out) acc = _
        rcases hc : cChunk gb d cfg a nums.length (trainedOf cfg.flags d nums (psOf tr)) with ⟨r, a'⟩
        cases r <;> simp only [cRun, hc]
      rw [hcr]
      obtain ⟨out', l', e, hb, hsim⟩ := ih _ _ out
        (match (cChunk gb d cfg a nums.length (trainedOf cfg.flags d nums (psOf tr))).1 with
          | .ok _ => acc ++ [trainedOf cfg.flags d nums (psOf tr)]
          | .error _ => acc) hs' hrest
      refine ⟨out', l', ?_, hb, hsim⟩
      rw [← e]
      rcases hh : chunk gb est d (fun _ _ _ _ => tr) nums l with ⟨r, c'⟩
      have hnp : r ≠ .panic := by
        rcases hr with ⟨_, rm, h2, _⟩ | ⟨_, h2, _⟩ <;> (rw [hh] at h2; simp only at h2; rw [h2]; simp)
      cases r with
      | ok u => simp only [lRun, hh]
      | err k => simp only [lRun, hh]
      | panic => exact absurd rfl hnp
    | footer =>
      obtain ⟨hs', hr⟩ := footer_refines (cfg := cfg) hs
      obtain ⟨out', l', e, hb, hsim⟩ := ih (footer l).2 (cFooter a).2 out acc hs' hrest
      refine ⟨out', l', ?_, hb, hsim⟩
      rw [← e]
      rcases hh : footer l with ⟨r, c'⟩
      have hnp : r ≠ .panic := by
        rcases hr with ⟨_, h2⟩ | ⟨_, h2, _⟩ <;> (rw [hh] at h2; simp only at h2; rw [h2]; simp)
      cases r with
      | ok u => simp only [lRun, hh]
      | err k => simp only [lRun, hh]
      | panic => exact absurd rfl hnp
    | drain =>
      obtain ⟨hb0, _, hs'⟩ := drain_refines (cfg := cfg) hs
      obtain ⟨out', l', e, hb, hsim⟩ := ih (drainBytes l).2 (cDrain a).2 (out ++ (drainBytes l).1) acc hs'
        hrest
      have hbb : bytesBits (out ++ (drainBytes l).1) = bytesBits out ++ a.pending := by
        rw [bytesBits, List.flatMap_append]
        exact congrArg _ hb0
      rw [hbb] at hb hsim
      exact ⟨out', l', e, hb, hsim⟩
    | byteSize =>
      exact ih l a out acc hs hrest

end Qco.CompLit
