/-
Layer CL, part 6: the literal compressor composed with C01e — what a complete literal history emits decodes
to the input.
-/
import Qco.Lemmas.CompLit.History
namespace Qco.CompLit
open Qco Qco.WB Qco.MetaIO Qco.Op

variable {gb est : Nat → Nat} {d : DType} {cfg : CConfig}

/-- the chunks of the abstract syntax of a list of (numbers, training answer) pairs -/
def trainedAll (fl : Flags) (d : DType) (chunks : List (List Nat × List Prefix)) : List AChunk :=
  chunks.map fun x => trainedOf fl d x.1 x.2

theorem trainedChunks_all (fl : Flags) (d : DType) (chunks : List (List Nat × List Prefix))
    (htab : ∀ x ∈ chunks, coverB x.2 (codedUs d fl x.1) = true) :
    C01.trainedChunks fl d (chunks.map (·.1)) (chunks.map fun x => (x.2, commonField fl x.2))
      = some (trainedAll fl d chunks) := by
  induction chunks with
  | nil => rfl
  | cons x rest ih =>
    obtain ⟨_, _, h, _⟩ := trainedOf_eq (htab x List.mem_cons_self)
    have ih' := ih (fun y hy => htab y (List.mem_cons_of_mem _ hy))
    simp only [List.map_cons, C01.trainedChunks, h, ih', trainedAll]

/-- **literal compressor → decompressor.**  A literal history that is `header`, one accepted `chunk` call per
(numbers, training answer) pair, `footer`, with `drain_bytes` / `byte_size` calls anywhere: everything it
emits is `encodeFile` of the chunks `trainedOf`, and the operational decompressor returns the input numbers.
Hypotheses: those of `history_same_bytes` (`EnvOk`, `HistOk`) and those of C01e's
`compress_model_roundtrip` (congruence, the emitted chunks are chunks of the format, valid patterns). -/
theorem literal_roundtrip (L : Op.Matcher) (hL : Op.WeakLazyOf L) (henv : EnvOk gb est d)
    (chunks : List (List Nat × List Prefix)) (lops : List LOp)
    (hshape : C09.stripDrains (absOps cfg.flags d lops) = C01.history (trainedAll cfg.flags d chunks))
    (hok : HistOk gb d cfg lops CSt.init)
    (hcov : ∀ x ∈ chunks, coverB x.2 (codedUs d cfg.flags x.1) = true)
    (hcong : ∀ x ∈ chunks, congruentB x.2 (codedUs d cfg.flags x.1) = true)
    (hwf : ∀ c ∈ trainedAll cfg.flags d chunks, c.WF gb d cfg.flags)
    (hd : d.Ok) (hp : (prefDType d cfg.flags).Ok) (hs : d.signed.Ok) (ho : cfg.order ≤ 7)
    (hlev : cfg.level ≤ 12) (hne : ∀ x ∈ chunks, x.1 ≠ []) (hv : ∀ x ∈ chunks, ∀ v ∈ x.1, C12.valid d v) :
    ∃ out l', lRun gb est d lops (Comp.fromConfig cfg) [] = .ok (out, l') ∧
      bytesBits out ++ l'.writer.bits
        = encodeFile gb d { flags := cfg.flags, chunks := trainedAll cfg.flags d chunks } ∧
      (Op.simpleDecompress L gb d (Op.write Op.St.init (bytesBits out ++ l'.writer.bits))).1
        = .ok (chunks.map (·.1)).flatten := by
  obtain ⟨out, l', e, hb, hsim⟩ := lRun_refines henv lops (Comp.fromConfig cfg) CSt.init [] []
    (csim_init cfg) hok
  have hb' : bytesBits out = C09.drained gb d cfg (absOps cfg.flags d lops) := hb
  have hs' : CSim cfg l' (C09.finalSt gb d cfg (absOps cfg.flags d lops)) := hsim
  have htot : bytesBits out ++ l'.writer.bits = C09.total gb d cfg (absOps cfg.flags d lops) := by
    rw [C09.total_eq, hb', hs'.bits]
  have hzip : (chunks.map (·.1)).zip (chunks.map fun x => (x.2, commonField cfg.flags x.2))
      = chunks.map fun x => (x.1, (x.2, commonField cfg.flags x.2)) := by
    rw [List.zip_map']
  obtain ⟨h1, h2⟩ := C01.compress_model_roundtrip L hL gb d cfg (chunks.map (·.1))
    (chunks.map fun x => (x.2, commonField cfg.flags x.2)) (trainedAll cfg.flags d chunks)
    (trainedChunks_all cfg.flags d chunks hcov)
    (by
      intro vt hvt
      rw [hzip] at hvt
      obtain ⟨x, hx, rfl⟩ := List.mem_map.mp hvt
      exact hcong x hx)
    hwf hd hp hs ho hlev
    (by
      intro vals hvals
      obtain ⟨x, hx, rfl⟩ := List.mem_map.mp hvals
      exact hne x hx)
    (by
      intro vals hvals
      obtain ⟨x, hx, rfl⟩ := List.mem_map.mp hvals
      exact hv x hx)
    (absOps cfg.flags d lops) hshape
  exact ⟨out, l', e, by rw [htot, h1], by rw [htot]; exact h2⟩

end Qco.CompLit
