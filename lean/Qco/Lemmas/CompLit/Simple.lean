/-
Layer CL, part 7: `Compressor::simple_compress` — none of its `unwrap`s panics and the bytes it returns are
`encodeFile` of the chunks of `DEFAULT_CHUNK_SIZE` numbers.
-/
import Qco.Lemmas.CompLit.RoundTrip
namespace Qco.CompLit
open Qco Qco.WB Qco.MetaIO Qco.Op

variable {gb est : Nat → Nat} {d : DType} {cfg : CConfig}

/-! ### `slice::chunks` -/

theorem sliceChunks_mem {size : Nat} (hsz : 0 < size) : ∀ (fuel : Nat) (nums : List Nat),
    ∀ ch ∈ sliceChunks size fuel nums, ch ≠ [] ∧ ch.length ≤ size := by
  intro fuel
  induction fuel with
  | zero => intro nums ch h; simp [sliceChunks] at h
  | succ fuel ih =>
    intro nums ch h
    unfold sliceChunks at h
    cases nums with
    | nil => simp at h
    | cons x xs =>
      simp only [List.isEmpty_cons, Bool.false_eq_true, if_false, List.mem_cons] at h
      rcases h with rfl | h
      · refine ⟨?_, by rw [List.length_take]; omega⟩
        cases size with
        | zero => omega
        | succ s => simp
      · exact ih _ ch h

theorem sliceChunks_flatten {size : Nat} (hsz : 0 < size) : ∀ (fuel : Nat) (nums : List Nat),
    nums.length ≤ fuel → (sliceChunks size fuel nums).flatten = nums := by
  intro fuel
  induction fuel with
  | zero =>
    intro nums h
    have : nums = [] := List.eq_nil_of_length_eq_zero (by omega)
    subst this; rfl
  | succ fuel ih =>
    intro nums h
    unfold sliceChunks
    cases nums with
    | nil => rfl
    | cons x xs =>
      simp only [List.isEmpty_cons, Bool.false_eq_true, if_false, List.flatten_cons]
      rw [ih _ (by rw [List.length_drop]; simp only [List.length_cons] at h ⊢; omega),
        List.take_append_drop]

/-! ### the loop over the chunks -/

theorem internalConfig_eq {l : Comp} {a : CSt} (hs : CSim cfg l a) :
    l.internalConfig = { compressionLevel := cfg.level } := by
  have := hs.level
  cases hl : l.internalConfig with
  | mk c => rw [hl] at this; simp only at this; rw [this]

/-- `for_each(|chunk| self.chunk(chunk).unwrap())` after the header: no `unwrap` panics, the chunks are
appended one after the other -/
theorem chunksLoop_ok (henv : EnvOk gb est d)
    (train : List Nat → InternalConfig → Flags → Nat → R (List Prefix)) (tbl : List Nat → List Prefix)
    (hlev : cfg.level ≤ 12) : ∀ (chs : List (List Nat)) (l : Comp) (a : CSt), CSim cfg l a →
    a.hasHeader = true → a.hasFooter = false →
    (∀ ch ∈ chs, ch ≠ [] ∧ ch.length ≤ 2 ^ 24 - 1 ∧
      train (codedUs d cfg.flags ch) { compressionLevel := cfg.level } cfg.flags ch.length = .ok (tbl ch) ∧
      TableOk d cfg.flags ch (tbl ch)) →
    a.pending.length
      + ((chs.map fun ch => trainedOf cfg.flags d ch (tbl ch)).flatMap (encChunk gb d cfg.flags)).length
      + 32 < USIZE →
    ∃ l', chunksLoop gb est d train chs l = (.ok (), l') ∧
      CSim cfg l' { a with pending := a.pending
        ++ (chs.map fun ch => trainedOf cfg.flags d ch (tbl ch)).flatMap (encChunk gb d cfg.flags) } := by
  intro chs
  induction chs with
  | nil =>
    intro l a hs _ _ _ _
    refine ⟨l, rfl, ?_⟩
    simp only [List.map_nil, List.flatMap_nil, List.append_nil]
    exact hs
  | cons ch rest ih =>
    intro l a hs hh hf hall hsz
    obtain ⟨hne, hlen, htrain, htab⟩ := hall ch List.mem_cons_self
    simp only [List.map_cons, List.flatMap_cons, List.length_append] at hsz
    have htrain' : train (codedUs d cfg.flags ch) l.internalConfig l.flags ch.length = .ok (tbl ch) := by
      rw [internalConfig_eq hs, hs.flags]; exact htrain
    obtain ⟨rm, l1, e1, _, hs1⟩ := chunk_ok henv hs hh hf hne hlev hlen htrain' htab (by omega)
    obtain ⟨l2, e2, hs2⟩ := ih l1 _ hs1 hh hf (fun c hc => hall c (List.mem_cons_of_mem _ hc))
      (by simp only [List.length_append]; omega)
    refine ⟨l2, ?_, ?_⟩
    · simp only [chunksLoop, CM.bind, unwrapCM, e1, e2]
    · simp only [List.map_cons, List.flatMap_cons, ← List.append_assoc]
      simp only [List.append_assoc] at hs2 ⊢
      exact hs2

/-- the chunks `simple_compress` writes: one per `chunk_size` numbers -/
def simpleChunks (fl : Flags) (d : DType) (tbl : List Nat → List Prefix) (chunkSize : Nat) (nums : List Nat) :
    List AChunk :=
  (sliceChunks chunkSize nums.length nums).map fun ch => trainedOf fl d ch (tbl ch)

/-- **`simple_compress(nums)`** on a fresh compressor: `Ok`, no `unwrap` panics, the bytes returned are
`encodeFile` of one chunk per `chunk_size` numbers (`trainedOf` of the chunk's numbers and of the table
`tbl` that `train_prefixes` answers for them), the writer is empty afterwards.  Hypotheses: `order ≤ 7`,
`level ≤ 12`, `0 < chunk_size ≤ 2^24 − 1` (true of `DEFAULT_CHUNK_SIZE`), training answers `Ok(tbl chunk)`
with `TableOk` for every chunk, and the file is shorter than `2^64 − 32` bits. -/
theorem simpleCompress_ok (henv : EnvOk gb est d)
    (train : List Nat → InternalConfig → Flags → Nat → R (List Prefix)) (tbl : List Nat → List Prefix)
    (nums : List Nat) (chunkSize : Nat) (hcs0 : 0 < chunkSize) (hcs : chunkSize ≤ 2 ^ 24 - 1)
    (ho : cfg.order ≤ 7) (hlev : cfg.level ≤ 12)
    (hall : ∀ ch ∈ sliceChunks chunkSize nums.length nums,
      train (codedUs d cfg.flags ch) { compressionLevel := cfg.level } cfg.flags ch.length = .ok (tbl ch) ∧
      TableOk d cfg.flags ch (tbl ch))
    (hsz : (encodeFile gb d
        { flags := cfg.flags, chunks := simpleChunks cfg.flags d tbl chunkSize nums }).length + 32 < USIZE) :
    ∃ bytes l', simpleCompress gb est d train nums chunkSize (Comp.fromConfig cfg) = (.ok bytes, l') ∧
      l'.writer = {} ∧ (∀ b ∈ bytes, b < 256) ∧
      bytesBits bytes = encodeFile gb d
        { flags := cfg.flags, chunks := simpleChunks cfg.flags d tbl chunkSize nums } := by
  unfold simpleChunks at hsz ⊢
  obtain ⟨chs, hchs⟩ : ∃ chs, chs = sliceChunks chunkSize nums.length nums := ⟨_, rfl⟩
  rw [← hchs] at hall hsz ⊢
  have hmem := sliceChunks_mem hcs0 nums.length nums
  rw [← hchs] at hmem
  simp only [encodeFile, List.length_append, natBits_length] at hsz
  -- header
  obtain ⟨l1, e1, hs1⟩ := header_ok henv (csim_init cfg) rfl rfl ho
  -- chunks
  obtain ⟨l2, e2, hs2⟩ := chunksLoop_ok henv train tbl hlev chs l1 _ hs1 rfl rfl
    (fun ch hc => ⟨(hmem ch hc).1, by have := (hmem ch hc).2; omega, (hall ch hc).1, (hall ch hc).2⟩)
    (by simp only [CSt.init, List.nil_append]; omega)
  -- footer
  obtain ⟨l3, e3, hs3⟩ := footer_ok hs2 rfl rfl
  -- drain
  obtain ⟨hb, hlt, hs4⟩ := drain_refines hs3
  refine ⟨(drainBytes l3).1, (drainBytes l3).2, ?_, rfl, hlt, ?_⟩
  · unfold simpleCompress
    simp only [CM.bind, unwrapCM, e1, if_neg (Nat.pos_iff_ne_zero.mp hcs0), ← hchs, e2, e3]
  · rw [hb]
    simp only [cDrain, CSt.init, List.nil_append, encodeFile]

end Qco.CompLit
