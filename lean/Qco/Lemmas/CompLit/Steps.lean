/-
Layer CL, part 3: one call of the literal compressor against one call of the operational model:
`header`, `footer`, `drain_bytes`, `byte_size`.
-/
import Qco.Lemmas.CompLit.Basics
namespace Qco.CompLit
open Qco Qco.WB Qco.MetaIO Qco.Op

variable {gb est : Nat → Nat} {d : DType} {cfg : CConfig}

/-! ### `Flags::validate` -/

theorem trimFalse_true_cons (bs : Bits) : trimFalse (true :: bs) ≠ [] := by
  unfold trimFalse
  split <;> simp

theorem cfg_flags_trim (cfg : CConfig) : trimFalse cfg.flags.bits ≠ [] :=
  trimFalse_true_cons _

theorem flagsValidate_ok (f : Flags) (ho : f.order ≤ 7) : flagsValidate f = .ok () := by
  obtain ⟨u, o, m, g⟩ := f
  have hi := flagsTryInto_eq u ⟨o, by simp at ho; omega⟩ m g
  simp only at hi
  unfold flagsValidate
  rw [hi]

theorem flagsValidate_err (f : Flags) (ho : 7 < f.order) : flagsValidate f = .err "InvalidArgument" := by
  unfold flagsValidate
  rw [flagsTryInto_order_gt f ho]

/-! ### `header` -/

/-- an accepted `header()` appends `encHeader` -/
theorem header_ok (henv : EnvOk gb est d) {l : Comp} {a : CSt} (hs : CSim cfg l a)
    (hh : a.hasHeader = false) (hf : a.hasFooter = false) (ho : cfg.order ≤ 7) :
    ∃ l', header d l = (.ok (), l') ∧
      CSim cfg l' { a with hasHeader := true, pending := a.pending ++ encHeader d cfg.flags } := by
  obtain ⟨w1, e1, b1, i1, j1⟩ := writeAlignedBytes_ok hs.winv hs.aligned (bytes := Frozen.magicHeader)
    (by decide)
  obtain ⟨w2, e2, b2, i2, j2⟩ := writeAlignedByte_ok i1 j1 henv.header_byte
  obtain ⟨w3, e3, b3, i3, j3⟩ := flags_write_spec cfg.flags ho (cfg_flags_trim cfg) i2
    ((aligned_iff i2).1 j2)
  have hlh : l.state.hasWrittenHeader = false := by rw [hs.hdr, hh]
  have hlf : l.state.hasWrittenFooter = false := by rw [hs.ftr, hf]
  have hv : flagsValidate l.flags = .ok () := by rw [hs.flags]; exact flagsValidate_ok _ ho
  refine ⟨{ l with writer := w3, state := { l.state with hasWrittenHeader := true } }, ?_, ?_⟩
  · have e3' : flagsWrite l.flags w2 = .ok w3 := by rw [hs.flags]; exact e3
    unfold header
    simp only [hlh, hlf, Bool.false_eq_true, if_false, CM.bind, hv, onWriter, e1, e2, e3']
  · refine ⟨i3, j3, ?_, rfl, hlf.trans hf.symm, hs.flags, hs.level⟩
    show w3.bits = a.pending ++ encHeader d cfg.flags
    rw [b3, b2, b1, hs.bits]
    simp only [encHeader, List.append_assoc]

/-- a rejected `header()`: `InvalidArgument`, nothing changes -/
theorem header_rejected {l : Comp} {a : CSt} (hs : CSim cfg l a)
    (h : ¬ (a.hasHeader = false ∧ a.hasFooter = false ∧ cfg.order ≤ 7)) :
    header d l = (.err "InvalidArgument", l) := by
  unfold header
  rw [hs.hdr, hs.ftr]
  cases hh : a.hasHeader
  · cases hf : a.hasFooter
    · have ho : 7 < cfg.order := by
        rw [hh, hf] at h
        simp only [true_and, Nat.not_le] at h
        omega
      simp only [Bool.false_eq_true, if_false]
      have hv : flagsValidate l.flags = .err "InvalidArgument" := by
        rw [hs.flags]; exact flagsValidate_err _ ho
      simp only [CM.bind, hv]
    · simp
  · simp

/-- **`header` refines `cHeader`** -/
theorem header_refines (henv : EnvOk gb est d) {l : Comp} {a : CSt} (hs : CSim cfg l a) :
    CSim cfg (header d l).2 (cHeader d cfg a).2 ∧
    (((cHeader d cfg a).1 = .ok () ∧ (header d l).1 = .ok ()) ∨
     ((cHeader d cfg a).1 = .error .invalid ∧ (header d l).1 = .err "InvalidArgument"
        ∧ (header d l).2 = l ∧ (cHeader d cfg a).2 = a)) := by
  by_cases h : a.hasHeader = false ∧ a.hasFooter = false ∧ cfg.order ≤ 7
  · obtain ⟨hh, hf, ho⟩ := h
    obtain ⟨l', e, hs'⟩ := header_ok henv hs hh hf ho
    have ha : cHeader d cfg a
        = (.ok (), { a with hasHeader := true, pending := a.pending ++ encHeader d cfg.flags }) := by
      have ho' : ¬ (cfg.order > Frozen.maxDeltaOrder) := by simp only [Frozen.maxDeltaOrder]; omega
      simp only [cHeader, hh, hf, ho', Bool.false_eq_true, if_false]
    rw [e, ha]
    exact ⟨hs', Or.inl ⟨rfl, rfl⟩⟩
  · rw [header_rejected hs h, C09.cHeader_rejected d cfg a h]
    exact ⟨hs, Or.inr ⟨rfl, rfl, rfl, rfl⟩⟩

/-! ### `footer` -/

theorem footer_ok {l : Comp} {a : CSt} (hs : CSim cfg l a)
    (hh : a.hasHeader = true) (hf : a.hasFooter = false) :
    ∃ l', footer l = (.ok (), l') ∧
      CSim cfg l' { a with hasFooter := true,
                           pending := a.pending ++ natBits 8 Frozen.magicTerminationByte } := by
  obtain ⟨w1, e1, b1, i1, j1⟩ := writeAlignedByte_ok hs.winv hs.aligned
    (b := Frozen.magicTerminationByte) (by decide)
  have hlh : l.state.hasWrittenHeader = true := by rw [hs.hdr, hh]
  have hlf : l.state.hasWrittenFooter = false := by rw [hs.ftr, hf]
  refine ⟨{ l with writer := w1, state := { l.state with hasWrittenFooter := true } }, ?_, ?_⟩
  · unfold footer
    simp only [hlh, hlf, Bool.not_true, Bool.false_eq_true, if_false, CM.bind, onWriter, e1]
  · refine ⟨i1, j1, ?_, hlh.trans hh.symm, rfl, hs.flags, hs.level⟩
    show w1.bits = _
    rw [b1, hs.bits]

theorem footer_rejected {l : Comp} {a : CSt} (hs : CSim cfg l a)
    (h : ¬ (a.hasHeader = true ∧ a.hasFooter = false)) :
    footer l = (.err "InvalidArgument", l) := by
  unfold footer
  rw [hs.hdr, hs.ftr]
  cases hh : a.hasHeader <;> cases hf : a.hasFooter <;> simp_all

/-- **`footer` refines `cFooter`** -/
theorem footer_refines {l : Comp} {a : CSt} (hs : CSim cfg l a) :
    CSim cfg (footer l).2 (cFooter a).2 ∧
    (((cFooter a).1 = .ok () ∧ (footer l).1 = .ok ()) ∨
     ((cFooter a).1 = .error .invalid ∧ (footer l).1 = .err "InvalidArgument"
        ∧ (footer l).2 = l ∧ (cFooter a).2 = a)) := by
  by_cases h : a.hasHeader = true ∧ a.hasFooter = false
  · obtain ⟨hh, hf⟩ := h
    obtain ⟨l', e, hs'⟩ := footer_ok hs hh hf
    have ha : cFooter a
        = (.ok (), { a with hasFooter := true, pending := a.pending ++ natBits 8 Frozen.magicTerminationByte }) := by
      simp only [cFooter, hh, hf, Bool.not_true, Bool.false_eq_true, if_false]
    rw [e, ha]
    exact ⟨hs', Or.inl ⟨rfl, rfl⟩⟩
  · rw [footer_rejected hs h, C09.cFooter_rejected a h]
    exact ⟨hs, Or.inr ⟨rfl, rfl, rfl, rfl⟩⟩

/-! ### `drain_bytes`, `byte_size` -/

/-- **`drain_bytes` refines `cDrain`**: the bytes returned are the pending bits, every byte is a `u8`,
the writer is `BitWriter::default()` again -/
theorem drain_refines {l : Comp} {a : CSt} (hs : CSim cfg l a) :
    bytesBits (drainBytes l).1 = (cDrain a).1 ∧ (∀ b ∈ (drainBytes l).1, b < 256) ∧
      CSim cfg (drainBytes l).2 (cDrain a).2 := by
  obtain ⟨h1, h2, h3⟩ := drainBytes_spec hs.winv hs.aligned
  refine ⟨?_, h2, ?_⟩
  · show bytesBits' l.writer.drainBytes.1 = a.pending
    rw [h1, hs.bits]
  · exact ⟨winv_default, by show (64 : Nat) % 8 = 0; decide, rfl, hs.hdr, hs.ftr, hs.flags, hs.level⟩

/-- **`byte_size` refines `cByteSize`** -/
theorem byteSize_refines {l : Comp} {a : CSt} (hs : CSim cfg l a) : byteSize l = cByteSize a := by
  unfold byteSize cByteSize
  rw [byteSize_eq hs.winv hs.aligned, hs.bits]

end Qco.CompLit
