/-
Layer DT lemmas, part 2: big-endian bytes and the two helpers of `bits.rs`
(`to_be_bytes`, `from_be_bytes`, `bits_to_bytes`, `bytes_to_bits` of `Qco/DType/Lit.lean`) against the
bit-list vocabulary of the specification (`natBits`, `bitsNat`, `bytesBits`).
-/
import Qco.DType.Lit
import Qco.Lemmas.WB.Extend
import Qco.Lemmas.HuffTable
namespace Qco.DTLit
open Qco Qco.WB

private theorem p8 : (2:Nat)^8 = 256 := by decide

/-! ### `to_be_bytes` / `from_be_bytes` -/

@[simp] theorem toBeBytes_length (n x : Nat) : (toBeBytes n x).length = n := by
  induction n generalizing x with
  | zero => rfl
  | succ n ih => simp [toBeBytes, ih]

theorem toBeBytes_lt (n x : Nat) : ∀ b ∈ toBeBytes n x, b < 256 := by
  induction n generalizing x with
  | zero => simp [toBeBytes]
  | succ n ih =>
    intro b hb
    rw [toBeBytes, List.mem_append] at hb
    rcases hb with hb | hb
    · exact ih _ b hb
    · simp at hb; omega

/-- the bits of the big-endian bytes of `x` are the `8n` low bits of `x`, most significant first -/
theorem toBeBytes_bits (n x : Nat) : bytesBits' (toBeBytes n x) = natBits (8 * n) x := by
  induction n generalizing x with
  | zero => rfl
  | succ n ih =>
    have e : 8 * (n + 1) = 8 * n + 8 := by omega
    rw [toBeBytes, bytesBits'_append, ih, e, natBits_add, p8, bytesBits'_cons, bytesBits'_nil,
      List.append_nil, natBits_mod 8 x, p8]

theorem fromBeBytes_lt {bs : List Nat} (hb : ∀ b ∈ bs, b < 256) : fromBeBytes bs < 2^(8 * bs.length) :=
  beWord_lt hb

/-- the value of a byte string read as a bit string -/
theorem bitsNat_bytesBits {bs : List Nat} (hb : ∀ b ∈ bs, b < 256) :
    bitsNat (bytesBits' bs) = fromBeBytes bs := by
  rw [← beWord_bits hb, bitsNat_natBits, Nat.mod_eq_of_lt (beWord_lt hb)]; rfl

theorem fromBeBytes_toBeBytes (n x : Nat) : fromBeBytes (toBeBytes n x) = x % 2^(8 * n) := by
  rw [← bitsNat_bytesBits (toBeBytes_lt n x), toBeBytes_bits, bitsNat_natBits]

/-- dropping the leading bytes keeps the low ones -/
theorem toBeBytes_drop (a b x : Nat) : (toBeBytes (a + b) x).drop a = toBeBytes b x := by
  induction b generalizing x with
  | zero => rw [Nat.add_zero, List.drop_of_length_le (by simp)]; rfl
  | succ b ih =>
    rw [← Nat.add_assoc, toBeBytes, List.drop_append_of_le_length (by simp), ih]; rfl

/-- leading zero bytes do not change the value -/
theorem fromBeBytes_zeros (m : Nat) (bs : List Nat) :
    fromBeBytes (List.replicate m 0 ++ bs) = fromBeBytes bs := by
  unfold fromBeBytes beWord
  rw [List.foldl_append, beFold_zeros, Nat.zero_mul]

/-! ### `bytes_to_bits` -/

theorem and_pow_pos_iff (b k : Nat) : decide (b &&& 2^k > 0) = (b / 2^k % 2 == 1) := by
  have hH := Nat.two_pow_pos k
  have hd : (b &&& 2^k) / 2^k = b / 2^k &&& 1 := by rw [Nat.and_div_two_pow, Nat.div_self hH]
  have hm : (b &&& 2^k) % 2^k = 0 := by rw [Nat.and_mod_two_pow, Nat.mod_self, Nat.and_zero]
  have hs := Nat.div_add_mod (b &&& 2^k) (2^k)
  rw [hd, hm, Nat.and_one_is_mod] at hs
  have h2 : b / 2^k % 2 = 0 ∨ b / 2^k % 2 = 1 := by omega
  rcases h2 with h2 | h2
  · rw [h2] at hs ⊢; have : b &&& 2^k = 0 := by omega
    simp [this]
  · rw [h2] at hs ⊢; have : b &&& 2^k = 2^k := by omega
    simp [this, hH]

theorem byteBits_eq (b : Nat) :
    ((List.range 8).map fun i => decide (b &&& (1 <<< (7 - i)) > 0)) = natBits 8 b := by
  apply List.ext_getElem?
  intro j
  by_cases hj : j < 8
  · rw [natBits_getElem? hj, List.getElem?_map, List.getElem?_range hj]
    simp only [Option.map_some, Nat.one_shiftLeft]
    rw [and_pow_pos_iff]
  · rw [List.getElem?_eq_none (by simp; omega), List.getElem?_eq_none (by simp; omega)]

/-- `bits::bytes_to_bits` is the specification's `bytesBits` -/
theorem bytesToBits_eq (bytes : List Nat) : bytesToBits bytes = bytesBits' bytes := by
  unfold bytesToBits bytesBits'
  congr 1
  funext b
  exact byteBits_eq b

/-- the bits `write_to` hands to the writer for an `n`-byte big-endian value -/
theorem bytesToBits_toBeBytes (n x : Nat) : bytesToBits (toBeBytes n x) = natBits (8 * n) x := by
  rw [bytesToBits_eq, toBeBytes_bits]

/-! ### `bits_to_bytes` -/

private theorem or_one_even (a : Nat) : a * 2 ||| 1 = a * 2 + 1 := by
  have := Nat.two_pow_add_eq_or_of_lt (i := 1) (b := 1) (by decide) a
  rw [Nat.pow_one, Nat.mul_comm] at this
  exact this.symm

/-- `k` iterations of the inner loop shift in the next `k` bits -/
theorem b2bInner_spec : ∀ (k j acc : Nat) (pre rest : List Bool), pre.length = k → acc < 2^j → j + k ≤ 8 →
    b2bInner k (acc, pre ++ rest) = (acc * 2^k + bitsNat pre, rest) := by
  intro k
  induction k with
  | zero =>
    intro j acc pre rest hp _ _
    have : pre = [] := List.eq_nil_of_length_eq_zero hp
    subst this; simp [b2bInner]
  | succ k ih =>
    intro j acc pre rest hp hacc hjk
    match pre, hp with
    | b :: pre', hp =>
      have hlen : pre'.length = k := by simpa using hp
      have h256 : acc * 2 < 256 := by
        have : 2^j * 2 ≤ 2^8 := by
          rw [← Nat.pow_succ]; exact Nat.pow_le_pow_right (by decide) (by omega)
        rw [p8] at this; omega
      have hstep : (if b then acc * 2 % 256 ||| 1 else acc * 2 % 256) = acc * 2 + b.toNat := by
        rw [Nat.mod_eq_of_lt h256]
        cases b
        · simp
        · simp [or_one_even]
      have hacc' : acc * 2 + b.toNat < 2^(j+1) := by
        rw [Nat.pow_succ]; cases b <;> simp <;> omega
      show b2bInner k ((if b then acc * 2 % 256 ||| 1 else acc * 2 % 256), pre' ++ rest) = _
      rw [hstep, ih (j+1) _ pre' rest hlen hacc' (by omega), bitsNat_cons, hlen, Nat.pow_succ]
      congr 1
      generalize 2^k = P
      rw [Nat.add_mul, Nat.mul_assoc, Nat.mul_comm 2 P, Nat.add_assoc]

theorem bitsNat_lt' (bs : List Bool) : bitsNat bs < 2^bs.length := by
  have := bitsNat_natBits bs.length (bitsNat bs)
  rw [Qco.HT.natBits_bitsNat] at this
  rw [this]; exact Nat.mod_lt _ (Nat.two_pow_pos _)

/-- on a whole number `n` of bytes worth of bits, any fuel `≥ 8n` makes `bits_to_bytes` return the `n`
bytes whose bits they are -/
theorem bitsToBytesF_spec : ∀ (n f : Nat) (bits : List Bool), bits.length = 8 * n → 8 * n ≤ f →
    bytesBits' (bitsToBytesF f bits) = bits ∧ (bitsToBytesF f bits).length = n
      ∧ ∀ b ∈ bitsToBytesF f bits, b < 256 := by
  intro n
  induction n with
  | zero =>
    intro f bits hl _
    have : bits = [] := List.eq_nil_of_length_eq_zero (by simpa using hl)
    subst this
    cases f <;> simp [bitsToBytesF]
  | succ n ih =>
    intro f bits hl hf
    match f, hf with
    | f + 1, hf =>
      have hne : bits.isEmpty = false := by
        cases bits with
        | nil => simp at hl
        | cons _ _ => rfl
      have hsplit : bits = bits.take 8 ++ bits.drop 8 := (List.take_append_drop 8 bits).symm
      have htl : (bits.take 8).length = 8 := by rw [List.length_take]; omega
      have hdl : (bits.drop 8).length = 8 * n := by rw [List.length_drop]; omega
      have hs : b2bInner 8 (0, bits) = (bitsNat (bits.take 8), bits.drop 8) := by
        conv => lhs; rw [hsplit]
        rw [b2bInner_spec 8 0 0 _ _ htl (by decide) (by decide)]; simp
      obtain ⟨i1, i2, i3⟩ := ih f (bits.drop 8) hdl (by omega)
      have hunf : bitsToBytesF (f + 1) bits
          = bitsNat (bits.take 8) :: bitsToBytesF f (bits.drop 8) := by
        rw [bitsToBytesF, hne]; simp only [Bool.false_eq_true, if_false, hs]
      have hb8 : natBits 8 (bitsNat (bits.take 8)) = bits.take 8 := by
        have := Qco.HT.natBits_bitsNat (bits.take 8)
        rw [htl] at this; exact this
      refine ⟨?_, ?_, ?_⟩
      · rw [hunf, bytesBits'_cons, i1, hb8, List.take_append_drop]
      · rw [hunf, List.length_cons, i2]
      · intro b hb
        rw [hunf, List.mem_cons] at hb
        rcases hb with rfl | hb
        · have := bitsNat_lt' (bits.take 8); rw [htl, p8] at this; exact this
        · exact i3 b hb

/-- `bits_to_bytes` on `8n` bits: `n` bytes, whose big-endian value is the value of the bit string -/
theorem bitsToBytes_spec (n : Nat) (bits : List Bool) (hl : bits.length = 8 * n) :
    (bitsToBytes bits).length = n ∧ fromBeBytes (bitsToBytes bits) = bitsNat bits
      ∧ bytesBits' (bitsToBytes bits) = bits := by
  obtain ⟨h1, h2, h3⟩ := bitsToBytesF_spec n bits.length bits hl (by omega)
  refine ⟨h2, ?_, h1⟩
  unfold bitsToBytes
  rw [← bitsNat_bytesBits h3, h1]

end Qco.DTLit
