/-
Layer DT lemmas, part 5: `to_bytes` / `from_bytes` (through `write_to` / `read_from`) of every macro against
`DType.uToRaw` / `DType.rawToU` in exactly the shape `Qco.MetaIO.writeNum` / `Qco.MetaIO.readFrom` use them,
and the predicate `Agrees I d` ("the macro instance `I` is the data type descriptor `d`") per macro.
-/
import Qco.Properties.C12
import Qco.Lemmas.DTypeLit.Maps
import Qco.Lemmas.DTypeLit.Bytes
namespace Qco.DTLit
open Qco Qco.WB

/-- what `Qco.MetaIO.readFrom d` does with the `P` bits it has read -/
def specRead (d : DType) (bools : List Bool) : R Nat :=
  match d.rawToU (bitsNat bools) with
  | some u => .ok u
  | none => .err "InvalidArgument"

/-- the macro instance `I` (on patterns) computes what the descriptor `d` says -/
structure Agrees (I : NumImpl) (d : DType) : Prop where
  header : I.headerByte = d.headerByte
  phys : I.physicalBits = d.physBits
  ubits : I.unsignedBits = d.uBits
  /-- `to_unsigned` on every value of the type -/
  toU : ∀ x, C12.valid d x → I.toUnsigned x = d.toU x
  /-- `from_unsigned` on every `T::Unsigned` -/
  fromU : ∀ u, u < d.M → I.fromUnsigned u = d.fromU u
  toS : ∀ x, C12.valid d x → I.toSigned x = d.toS x
  /-- `from_signed` on every value of the signed companion -/
  fromS : ∀ s, C12.valid d s → I.fromSigned s = d.fromS s
  sAdd : ∀ a b, C12.valid d a → C12.valid d b → I.sWrappingAdd a b = d.sAdd a b
  sSub : ∀ a b, C12.valid d a → C12.valid d b → I.sWrappingSub a b = d.sSub a b
  /-- `write_to`: the bits handed to `writer.write`, for every value whose image is in the documented range
  (`uValid`: all values, except for the 96-bit timestamps) -/
  writeTo : ∀ x, C12.valid d x → d.uValid (d.toU x) →
    I.writeToBits x = .ok (natBits d.physBits (d.uToRaw (d.toU x)))
  /-- `read_from(..).map(to_unsigned)` on every string of `PHYSICAL_BITS` bits, errors included -/
  readFrom : ∀ bools : List Bool, bools.length = d.physBits →
    R.map I.toUnsigned (I.readFromBits bools) = specRead d bools
  /-- the `unwrap()` in `from_bytes` panics exactly on a vector of the wrong length (`read_from` never
  produces one) -/
  fromBytesPanic : ∀ bytes : List Nat, (∀ b ∈ bytes, b < 256) →
    (I.fromBytes bytes = .panic ↔ 8 * bytes.length ≠ d.physBits)

theorem Agrees.numEq {I : NumImpl} {d : DType} (h : Agrees I d) (a b : Nat) (ha : C12.valid d a)
    (hb : C12.valid d b) : I.numEq a b = (d.toU a == d.toU b) := by
  unfold NumImpl.numEq; rw [h.toU a ha, h.toU b hb]

/-! ### shared steps -/

theorem valid_lt {d : DType} (hk : d.kind ≠ .bool) {x : Nat} (h : C12.valid d x) : x < d.M := by
  unfold C12.valid at h; rw [if_neg hk] at h; exact h

theorem tryInto_ok (n : Nat) (bools : List Bool) (hl : bools.length = 8 * n) :
    tryIntoArray n (bitsToBytes bools) = .ok (bitsToBytes bools) := by
  unfold tryIntoArray; rw [if_pos (bitsToBytes_spec n bools hl).1]

theorem tryInto_panic_iff (n : Nat) (bytes : List Nat) :
    tryIntoArray n bytes = .panic ↔ bytes.length ≠ n := by
  unfold tryIntoArray; split <;> simp_all

theorem eight_mul_div {W : Nat} (h8 : 8 ∣ W) : 8 * (W / 8) = W := Nat.mul_div_cancel' h8

/-- the raw value read is below `2^P` -/
theorem raw_lt (bools : List Bool) {P : Nat} (hl : bools.length = P) : bitsNat bools < 2^P := by
  rw [← hl]; exact bitsNat_lt' bools

/-! ### `impl_float_number!` -/

theorem float_agrees (name : String) (d : DType) (hk : d.kind = .float) (h1 : 1 ≤ d.uBits) (h8 : 8 ∣ d.uBits)
    (hP : d.physBits = d.uBits) (mask : Nat) (hmask : mask = d.H) :
    Agrees (floatImpl name d.uBits d.physBits mask d.headerByte) d := by
  subst hmask
  have hkb : d.kind ≠ .bool := by rw [hk]; decide
  have h8' := eight_mul_div h8
  refine ⟨rfl, rfl, rfl, ?_, ?_, ?_, ?_, ?_, ?_, ?_, ?_, ?_⟩
  · intro x hx; exact float_toU_lit_eq d hk h1 x (valid_lt hkb hx)
  · intro u hu; exact float_fromU_lit_eq d hk h1 u hu
  · intro x hx; exact float_toS_lit_eq d hk x (valid_lt hkb hx)
  · intro s hs; exact float_fromS_lit_eq d hk s (valid_lt hkb hs)
  · intro a b ha hb; exact (signedLike_int_lit_eq d hkb a b (valid_lt hkb ha) (valid_lt hkb hb)).1
  · intro a b ha hb; exact (signedLike_int_lit_eq d hkb a b (valid_lt hkb ha) (valid_lt hkb hb)).2
  · intro x hx _
    show R.map bytesToBits (R.ok (FloatM.toBytes d.uBits x)) = _
    unfold FloatM.toBytes
    rw [R.map, bytesToBits_toBeBytes, h8', hP]
    have : d.uToRaw (d.toU x) = x := by
      unfold DType.uToRaw; simp only [hk]; exact C12.fromU_toU d h1 x hx
    rw [this]
  · intro bools hl
    rw [hP] at hl
    have hl' : bools.length = 8 * (d.uBits / 8) := by rw [h8']; exact hl
    obtain ⟨_, hv, _⟩ := bitsToBytes_spec _ bools hl'
    show R.map (FloatM.toUnsigned d.uBits d.H) (FloatM.fromBytes d.uBits (bitsToBytes bools)) = _
    unfold FloatM.fromBytes
    rw [tryInto_ok _ bools hl']
    simp only [R.map, hv]
    unfold specRead DType.rawToU
    simp only [hk]
    rw [float_toU_lit_eq d hk h1 _ (raw_lt bools hl)]
  · intro bytes _
    show FloatM.fromBytes d.uBits bytes = .panic ↔ _
    unfold FloatM.fromBytes
    have := tryInto_panic_iff (d.uBits / 8) bytes
    rw [hP]
    cases htr : tryIntoArray (d.uBits / 8) bytes <;> simp_all <;> omega

/-! ### `impl_unsigned_number!` -/

theorem unsigned_agrees (name : String) (d : DType) (hk : d.kind = .uint) (h1 : 1 ≤ d.uBits) (h8 : 8 ∣ d.uBits)
    (hP : d.physBits = d.uBits) : Agrees (unsignedImpl name d.uBits d.headerByte) d := by
  have hkb : d.kind ≠ .bool := by rw [hk]; decide
  have h8' := eight_mul_div h8
  refine ⟨rfl, hP.symm, rfl, ?_, ?_, ?_, ?_, ?_, ?_, ?_, ?_, ?_⟩
  · intro x _; exact unsigned_toU_lit_eq d hk x
  · intro u _; exact unsigned_fromU_lit_eq d hk u
  · intro x hx; exact unsigned_toS_lit_eq d hk h1 x (valid_lt hkb hx)
  · intro s hs; exact unsigned_fromS_lit_eq d hk h1 s (valid_lt hkb hs)
  · intro a b ha hb; exact (signedLike_int_lit_eq d hkb a b (valid_lt hkb ha) (valid_lt hkb hb)).1
  · intro a b ha hb; exact (signedLike_int_lit_eq d hkb a b (valid_lt hkb ha) (valid_lt hkb hb)).2
  · intro x hx _
    show R.map bytesToBits (R.ok (UnsignedM.toBytes d.uBits x)) = _
    unfold UnsignedM.toBytes
    rw [R.map, bytesToBits_toBeBytes, h8', hP]
    have : d.uToRaw (d.toU x) = x := by
      unfold DType.uToRaw; simp only [hk]; exact C12.fromU_toU d h1 x hx
    rw [this]
  · intro bools hl
    rw [hP] at hl
    have hl' : bools.length = 8 * (d.uBits / 8) := by rw [h8']; exact hl
    obtain ⟨_, hv, _⟩ := bitsToBytes_spec _ bools hl'
    show R.map UnsignedM.toUnsigned (UnsignedM.fromBytes d.uBits (bitsToBytes bools)) = _
    unfold UnsignedM.fromBytes
    rw [tryInto_ok _ bools hl']
    simp only [R.map, hv]
    unfold specRead DType.rawToU
    simp only [hk]
    rw [unsigned_toU_lit_eq d hk]
  · intro bytes _
    show UnsignedM.fromBytes d.uBits bytes = .panic ↔ _
    unfold UnsignedM.fromBytes
    have := tryInto_panic_iff (d.uBits / 8) bytes
    rw [hP]
    cases htr : tryIntoArray (d.uBits / 8) bytes <;> simp_all <;> omega

/-! ### `impl_signed!` -/

theorem signed_agrees (name : String) (d : DType) (hk : d.kind = .int) (h1 : 1 ≤ d.uBits) (h8 : 8 ∣ d.uBits)
    (hP : d.physBits = d.uBits) : Agrees (signedImpl name d.uBits d.headerByte) d := by
  have hkb : d.kind ≠ .bool := by rw [hk]; decide
  have hku : d.kind ≠ .uint := by rw [hk]; decide
  have h8' := eight_mul_div h8
  refine ⟨rfl, hP.symm, rfl, ?_, ?_, ?_, ?_, ?_, ?_, ?_, ?_, ?_⟩
  · intro x hx; exact signed_toU_lit_eq d (.inl hk) h1 x (valid_lt hkb hx)
  · intro u hu; exact signed_fromU_lit_eq d (.inl hk) h1 u hu
  · intro x hx; exact signed_toS_lit_eq d hku x (valid_lt hkb hx)
  · intro s hs; exact signed_fromS_lit_eq d hku s (valid_lt hkb hs)
  · intro a b ha hb; exact (signedLike_int_lit_eq d hkb a b (valid_lt hkb ha) (valid_lt hkb hb)).1
  · intro a b ha hb; exact (signedLike_int_lit_eq d hkb a b (valid_lt hkb ha) (valid_lt hkb hb)).2
  · intro x hx _
    show R.map bytesToBits (R.ok (SignedM.toBytes d.uBits (asI d.uBits x))) = _
    unfold SignedM.toBytes
    rw [R.map, bytesToBits_toBeBytes, h8', hP, asU_asI d.uBits x (valid_lt hkb hx)]
    have : d.uToRaw (d.toU x) = x := by
      unfold DType.uToRaw; simp only [hk]; exact C12.fromU_toU d h1 x hx
    rw [this]
  · intro bools hl
    rw [hP] at hl
    have hl' : bools.length = 8 * (d.uBits / 8) := by rw [h8']; exact hl
    obtain ⟨_, hv, _⟩ := bitsToBytes_spec _ bools hl'
    show R.map (fun x => SignedM.toUnsigned d.uBits (asI d.uBits x))
      (R.map (asU d.uBits) (SignedM.fromBytes d.uBits (bitsToBytes bools))) = _
    unfold SignedM.fromBytes
    rw [tryInto_ok _ bools hl']
    simp only [R.map, hv]
    have hr := raw_lt bools hl
    rw [asU_asI d.uBits _ hr]
    unfold specRead DType.rawToU
    simp only [hk]
    rw [signed_toU_lit_eq d (.inl hk) h1 _ hr]
  · intro bytes _
    show R.map (asU d.uBits) (SignedM.fromBytes d.uBits bytes) = .panic ↔ _
    unfold SignedM.fromBytes
    have := tryInto_panic_iff (d.uBits / 8) bytes
    rw [hP]
    cases htr : tryIntoArray (d.uBits / 8) bytes <;> simp_all [R.map] <;> omega

/-! ### `impl_timestamp!` (the `NumberLike` impl is that of `i64` on the wrapped part count) -/

theorem ts64_agrees (name : String) (pps : Nat) (d : DType) (hk : d.kind = .int) (hW : d.uBits = 64)
    (hP : d.physBits = 64) : Agrees (ts64Impl name pps d.headerByte) d := by
  have h := signed_agrees name d hk (by omega) (by rw [hW]; decide) (by omega)
  rw [hW] at h
  exact ⟨rfl, hP.symm, hW.symm, h.toU, h.fromU, h.toS, h.fromS, h.sAdd, h.sSub, h.writeTo, h.readFrom,
    h.fromBytesPanic⟩

/-! ### bool -/

theorem bool_agrees (d : DType) (hk : d.kind = .bool) (hW : d.uBits = 8) (hP : d.physBits = 8)
    (hh : d.headerByte = 7) : Agrees boolImpl d := by
  have hv : ∀ {x}, C12.valid d x → x ≤ 1 := by
    intro x h; unfold C12.valid at h; rw [if_pos hk] at h; exact h
  refine ⟨hh.symm, hP.symm, hW.symm, ?_, ?_, ?_, ?_, ?_, ?_, ?_, ?_, ?_⟩
  · intro x hx
    show BoolM.toUnsigned (patBool x) = _
    rw [bool_toU_lit_eq d hk, boolPat_patBool x (hv hx)]
  · intro u _; exact bool_fromU_lit_eq d hk u
  · intro x hx
    show boolPat (BoolM.toSigned (patBool x)) = _
    rw [(bool_toS_fromS_lit_eq d hk _).1, boolPat_patBool x (hv hx)]
  · intro s hs
    show boolPat (BoolM.fromSigned (patBool s)) = _
    rw [(bool_toS_fromS_lit_eq d hk _).2, boolPat_patBool s (hv hs)]
  · intro a b ha hb
    show boolPat (BoolM.wrappingAdd (patBool a) (patBool b)) = _
    rw [(signedLike_bool_lit_eq d hk _ _).1, boolPat_patBool a (hv ha), boolPat_patBool b (hv hb)]
  · intro a b ha hb
    show boolPat (BoolM.wrappingSub (patBool a) (patBool b)) = _
    rw [(signedLike_bool_lit_eq d hk _ _).2, boolPat_patBool a (hv ha), boolPat_patBool b (hv hb)]
  · intro x hx _
    have hx1 := hv hx
    show R.map bytesToBits (R.ok (BoolM.toBytes (patBool x))) = _
    unfold BoolM.toBytes
    have e : (patBool x).toNat = x := boolPat_patBool x hx1
    rw [R.map, e, bytesToBits_eq, bytesBits'_cons, bytesBits'_nil, List.append_nil, hP]
    have : d.uToRaw (d.toU x) = x := by
      unfold DType.uToRaw DType.toU; simp only [hk]
      have : x = 0 ∨ x = 1 := by omega
      rcases this with rfl | rfl <;> rfl
    rw [this]
  · intro bools hl
    rw [hP] at hl
    have hl' : bools.length = 8 * 1 := hl
    obtain ⟨_, hvv, _⟩ := bitsToBytes_spec 1 bools hl'
    show R.map (fun x => BoolM.toUnsigned (patBool x)) (R.map boolPat (BoolM.fromBytes (bitsToBytes bools))) = _
    unfold BoolM.fromBytes
    rw [tryInto_ok 1 bools hl']
    simp only [R.map, hvv, patBool_boolPat]
    unfold specRead DType.rawToU BoolM.toUnsigned
    simp only [hk]
    by_cases h0 : bitsNat bools = 0 <;> simp [h0]
  · intro bytes _
    show R.map boolPat (BoolM.fromBytes bytes) = .panic ↔ _
    unfold BoolM.fromBytes
    have := tryInto_panic_iff 1 bytes
    rw [hP]
    cases htr : tryIntoArray 1 bytes <;> simp_all [R.map] <;> omega

end Qco.DTLit
