/-
Layer DT lemmas, part 1: the Rust integer primitives of `Qco/DType/Lit.lean` (`bnot`, `^^^` with the sign
bit, `&&&` with the sign bit, `asU`, `asI`, `wrapI`) in arithmetic form, for EVERY width `W ≥ 1`.
-/
import Qco.DType.Lit
namespace Qco.DTLit

/-! ### powers -/

theorem two_pow_pred (W : Nat) (h : 1 ≤ W) : 2^W = 2 * 2^(W-1) := by
  have : W = (W - 1) + 1 := by omega
  rw [this, Nat.pow_succ]; simp; omega

theorem cast_two_pow (W : Nat) : ((2^W : Nat) : Int) = (2:Int)^W := by
  rw [Int.natCast_pow]; rfl

/-! ### bitwise NOT, the sign bit -/

/-- `!x = MAX - x`: flipping all `W` bits -/
theorem bnot_eq (W x : Nat) (hx : x < 2^W) : bnot W x = 2^W - 1 - x := by
  unfold bnot uMax
  apply Nat.eq_of_testBit_eq
  intro i
  have e : 2^W - 1 - x = 2^W - (x + 1) := by omega
  rw [e, Nat.testBit_xor, Nat.testBit_two_pow_sub_one, Nat.testBit_two_pow_sub_succ hx]
  by_cases hi : i < W
  · simp [hi]
  · have : x.testBit i = false :=
      Nat.testBit_lt_two_pow (Nat.lt_of_lt_of_le hx (Nat.pow_le_pow_right (by decide) (by omega)))
    simp [hi, this]

theorem bnot_lt (W x : Nat) (hx : x < 2^W) : bnot W x < 2^W := by
  rw [bnot_eq W x hx]; have := Nat.two_pow_pos W; omega

/-- division by `H` of a number below `2H` is `0` or `1` -/
private theorem div_half {H x : Nat} (hH : 0 < H) (hx : x < 2 * H) :
    (x < H ∧ x / H = 0 ∧ x % H = x) ∨ (H ≤ x ∧ x / H = 1 ∧ x % H = x - H) := by
  by_cases h : x < H
  · exact .inl ⟨h, Nat.div_eq_of_lt h, Nat.mod_eq_of_lt h⟩
  · refine .inr ⟨by omega, ?_, ?_⟩
    · have : x / H < 2 := (Nat.div_lt_iff_lt_mul hH).2 (by omega)
      have : 1 ≤ x / H := (Nat.le_div_iff_mul_le hH).2 (by omega)
      omega
    · rw [Nat.mod_eq_sub_mod (by omega), Nat.mod_eq_of_lt (by omega)]

/-- xor with the sign bit is adding `H` modulo `2H` -/
theorem xor_signbit (k x : Nat) (hx : x < 2 * 2^k) :
    x ^^^ 2^k = if x < 2^k then x + 2^k else x - 2^k := by
  have hH := Nat.two_pow_pos k
  have hd : (x ^^^ 2^k) / 2^k = x / 2^k ^^^ 1 := by
    rw [Nat.xor_div_two_pow, Nat.div_self hH]
  have hm : (x ^^^ 2^k) % 2^k = x % 2^k := by
    rw [Nat.xor_mod_two_pow, Nat.mod_self, Nat.xor_zero]
  have hs := Nat.div_add_mod (x ^^^ 2^k) (2^k)
  rw [hd, hm] at hs
  rcases div_half hH hx with ⟨h1, h2, h3⟩ | ⟨h1, h2, h3⟩
  · rw [h2, h3] at hs
    have : (0 ^^^ 1 : Nat) = 1 := by decide
    rw [this] at hs; rw [if_pos h1]; omega
  · rw [h2, h3] at hs
    have : (1 ^^^ 1 : Nat) = 0 := by decide
    rw [this] at hs; rw [if_neg (by omega)]; omega

theorem xor_signbit_mod (k x : Nat) (hx : x < 2 * 2^k) : x ^^^ 2^k = (x + 2^k) % (2 * 2^k) := by
  rw [xor_signbit k x hx]
  split
  · rw [Nat.mod_eq_of_lt (by omega)]
  · rw [Nat.mod_eq_sub_mod (by omega), Nat.mod_eq_of_lt (by omega)]; omega

/-- the test `x & SIGN_MASK > 0` is the comparison with `H` -/
theorem and_signbit_pos (k x : Nat) (hx : x < 2 * 2^k) : (x &&& 2^k > 0) ↔ 2^k ≤ x := by
  have hH := Nat.two_pow_pos k
  have hd : (x &&& 2^k) / 2^k = x / 2^k &&& 1 := by
    rw [Nat.and_div_two_pow, Nat.div_self hH]
  have hm : (x &&& 2^k) % 2^k = 0 := by
    rw [Nat.and_mod_two_pow, Nat.mod_self, Nat.and_zero]
  have hs := Nat.div_add_mod (x &&& 2^k) (2^k)
  rw [hd, hm] at hs
  rcases div_half hH hx with ⟨h1, h2, _⟩ | ⟨h1, h2, _⟩
  · rw [h2] at hs
    have : (0 &&& 1 : Nat) = 0 := by decide
    rw [this] at hs; omega
  · rw [h2] at hs
    have : (1 &&& 1 : Nat) = 1 := by decide
    rw [this] at hs; omega

/-! ### `Int` remainders -/

theorem emod_of_neg {z M : Int} (h1 : -M ≤ z) (h2 : z < 0) : z % M = z + M := by
  rw [← Int.add_emod_right z M]; exact Int.emod_eq_of_lt (by omega) (by omega)

theorem emod_of_ge {z M : Int} (h1 : M ≤ z) (h2 : z < 2 * M) : z % M = z - M := by
  rw [← Int.sub_emod_right z M]; exact Int.emod_eq_of_lt (by omega) (by omega)

/-! ### `asU`, `asI`, `wrapI` -/

theorem pow_pos_int (W : Nat) : (0:Int) < (2:Int)^W := by
  rw [← cast_two_pow]; exact Int.natCast_pos.2 (Nat.two_pow_pos W)

theorem asU_cast (W : Nat) (z : Int) : ((asU W z : Nat) : Int) = z % (2:Int)^W := by
  unfold asU
  exact Int.toNat_of_nonneg (Int.emod_nonneg _ (Int.ne_of_gt (pow_pos_int W)))

theorem asU_lt (W : Nat) (z : Int) : asU W z < 2^W := by
  have h := asU_cast W z
  have := Int.emod_lt_of_pos z (pow_pos_int W)
  rw [← h, ← cast_two_pow] at this
  exact Int.ofNat_lt.1 this

/-- two integers with the same remainder have the same `as uW` -/
theorem asU_congr (W : Nat) {a b : Int} (h : a % (2:Int)^W = b % (2:Int)^W) : asU W a = asU W b := by
  unfold asU; rw [h]

theorem asU_natCast (W x : Nat) : asU W (x : Int) = x % 2^W := by
  apply Int.natCast_inj.1
  rw [asU_cast, Int.natCast_emod, cast_two_pow]

theorem asU_natCast_lt (W x : Nat) (hx : x < 2^W) : asU W (x : Int) = x := by
  rw [asU_natCast, Nat.mod_eq_of_lt hx]

/-- `(x as iW) as uW = x` (low `W` bits) -/
theorem asU_asI_mod (W x : Nat) : asU W (asI W x) = x % 2^W := by
  unfold asI
  split
  · rw [asU_natCast, Nat.mod_mod]
  · have : asU W (((x % 2^W : Nat) : Int) - (2:Int)^W) = asU W ((x % 2^W : Nat) : Int) :=
      asU_congr W (Int.sub_emod_right _ _)
    rw [this, asU_natCast, Nat.mod_mod]

theorem asU_asI (W x : Nat) (hx : x < 2^W) : asU W (asI W x) = x := by
  rw [asU_asI_mod, Nat.mod_eq_of_lt hx]

/-- wrapping does not change the value modulo `2^W` -/
theorem asU_wrapI (W : Nat) (z : Int) : asU W (wrapI W z) = asU W z := by
  apply asU_congr
  unfold wrapI
  rw [Int.emod_sub_emod]
  congr 1; omega

theorem asU_add (W : Nat) (a b : Int) : asU W (a + b) = (asU W a + asU W b) % 2^W := by
  apply Int.natCast_inj.1
  rw [asU_cast, Int.natCast_emod, Int.natCast_add, asU_cast, asU_cast, cast_two_pow, ← Int.add_emod]

theorem asU_sub (W : Nat) (a b : Int) : asU W (a - b) = (asU W a + (2^W - asU W b)) % 2^W := by
  apply Int.natCast_inj.1
  have hb := asU_lt W b
  rw [asU_cast, Int.natCast_emod, Int.natCast_add, Int.natCast_sub (Nat.le_of_lt hb), asU_cast, asU_cast,
    cast_two_pow]
  have e : a % (2:Int)^W + ((2:Int)^W - b % (2:Int)^W) = (a % (2:Int)^W - b % (2:Int)^W) + (2:Int)^W := by
    omega
  rw [e, Int.add_emod_right, ← Int.sub_emod]

/-- `iW::MIN as uW` is the sign bit -/
theorem asU_iMin (W : Nat) (h : 1 ≤ W) : asU W (iMin W) = 2^(W-1) := by
  apply Int.natCast_inj.1
  rw [asU_cast]
  unfold iMin
  have hM := two_pow_pred W h
  have hMi : (2:Int)^W = 2 * (2:Int)^(W-1) := by
    rw [← cast_two_pow, ← cast_two_pow, hM]; simp
  have hp := pow_pos_int (W-1)
  rw [cast_two_pow]
  rw [emod_of_neg (by omega) (by omega)]; omega

theorem inI_iff (W : Nat) (z : Int) : inI W z = true ↔ -((2:Int)^(W-1)) ≤ z ∧ z < (2:Int)^(W-1) := by
  unfold inI iMin iMax; simp; omega

theorem asI_inI (W x : Nat) (h : 1 ≤ W) : inI W (asI W x) = true := by
  rw [inI_iff]
  have hM := two_pow_pred W h
  have hMi : (2:Int)^W = 2 * (2:Int)^(W-1) := by
    rw [← cast_two_pow, ← cast_two_pow, hM]; simp
  have hlt : x % 2^W < 2^W := Nat.mod_lt _ (Nat.two_pow_pos W)
  have c1 := cast_two_pow (W-1)
  have c2 := cast_two_pow W
  unfold asI
  split <;> omega

/-- `(z as uW) as iW = z` for `z` in range -/
theorem asI_asU (W : Nat) (h : 1 ≤ W) (z : Int) (hz : inI W z = true) : asI W (asU W z) = z := by
  rw [inI_iff] at hz
  have hM := two_pow_pred W h
  have hMi : (2:Int)^W = 2 * (2:Int)^(W-1) := by
    rw [← cast_two_pow, ← cast_two_pow, hM]; simp
  have hp := pow_pos_int (W-1)
  have hlt := asU_lt W z
  have hc := asU_cast W z
  have c1 := cast_two_pow (W-1)
  have c2 := cast_two_pow W
  unfold asI
  rw [Nat.mod_eq_of_lt hlt]
  by_cases h0 : 0 ≤ z
  · rw [Int.emod_eq_of_lt h0 (by omega)] at hc
    split <;> omega
  · rw [emod_of_neg (by omega) (by omega)] at hc
    split <;> omega

theorem wrapI_inI (W : Nat) (h : 1 ≤ W) (z : Int) : inI W (wrapI W z) = true := by
  rw [inI_iff]
  have hM := two_pow_pred W h
  have hMi : (2:Int)^W = 2 * (2:Int)^(W-1) := by
    rw [← cast_two_pow, ← cast_two_pow, hM]; simp
  have h1 := Int.emod_nonneg (z + (2:Int)^(W-1)) (Int.ne_of_gt (pow_pos_int W))
  have h2 := Int.emod_lt_of_pos (z + (2:Int)^(W-1)) (pow_pos_int W)
  unfold wrapI; omega

/-- wrapping is the identity on values in range -/
theorem wrapI_of_inI (W : Nat) (h : 1 ≤ W) (z : Int) (hz : inI W z = true) : wrapI W z = z := by
  have := asI_asU W h (wrapI W z) (wrapI_inI W h z)
  rw [asU_wrapI, asI_asU W h z hz] at this
  exact this.symm

/-- an in-range integer is determined by its pattern -/
theorem eq_of_asU_eq (W : Nat) (h : 1 ≤ W) {a b : Int} (ha : inI W a = true) (hb : inI W b = true)
    (e : asU W a = asU W b) : a = b := by
  rw [← asI_asU W h a ha, ← asI_asU W h b hb, e]

end Qco.DTLit
