/-
Layer DT lemmas, part 3: the methods `to_unsigned`, `from_unsigned`, `to_signed`, `from_signed` and the
`SignedLike` operations of every macro of `Qco/DType/Lit.lean`, against the arithmetic maps of
`Qco/DType/Maps.lean`.  Everything here is for EVERY width `W = d.uBits ≥ 1`.
-/
import Qco.DType.Maps
import Qco.Lemmas.DTypeLit.Ints
namespace Qco.DTLit
open Qco

theorem M_eq_two_H (d : DType) (h : 1 ≤ d.uBits) : d.M = 2 * d.H := two_pow_pred d.uBits h

/-! ### wrapped arithmetic on patterns -/

/-- `a.wrapping_add(b)` on the patterns of two `iW` -/
theorem pat_wrappingAdd (W : Nat) (a b : Int) : asU W (wrappingAddI W a b) = (asU W a + asU W b) % 2^W := by
  unfold wrappingAddI; rw [asU_wrapI, asU_add]

/-- `a.wrapping_sub(b)` on the patterns of two `iW` -/
theorem pat_wrappingSub (W : Nat) (a b : Int) :
    asU W (wrappingSubI W a b) = (asU W a + (2^W - asU W b)) % 2^W := by
  unfold wrappingSubI; rw [asU_wrapI, asU_sub]

/-- `x.wrapping_sub(MIN)` on patterns: adding the sign bit -/
theorem pat_sub_iMin (W : Nat) (h : 1 ≤ W) (z : Int) :
    asU W (wrappingSubI W z (iMin W)) = (asU W z + 2^(W-1)) % 2^W := by
  rw [pat_wrappingSub, asU_iMin W h]
  have := two_pow_pred W h
  congr 2; omega

/-- `x.wrapping_add(MIN)`, `MIN.wrapping_add(x)` on patterns: adding the sign bit -/
theorem pat_add_iMin (W : Nat) (h : 1 ≤ W) (z : Int) :
    asU W (wrappingAddI W z (iMin W)) = (asU W z + 2^(W-1)) % 2^W := by
  rw [pat_wrappingAdd, asU_iMin W h]

theorem pat_iMin_add (W : Nat) (h : 1 ≤ W) (z : Int) :
    asU W (wrappingAddI W (iMin W) z) = (asU W z + 2^(W-1)) % 2^W := by
  rw [pat_wrappingAdd, asU_iMin W h, Nat.add_comm]

/-! ### `impl_float_number!` -/

/-- `to_unsigned` of the float macro, with `$sign_bit_mask = 2^(W-1)`, is `DType.toU` -/
theorem float_toU_lit_eq (d : DType) (hk : d.kind = .float) (h : 1 ≤ d.uBits) (x : Nat) (hx : x < d.M) :
    FloatM.toUnsigned d.uBits d.H x = d.toU x := by
  have hM := M_eq_two_H d h
  unfold FloatM.toUnsigned DType.toU
  simp only [hk]
  have hx2 : x < 2 * 2^(d.uBits - 1) := by rw [← DType.H, ← hM]; exact hx
  have hs := and_signbit_pos (d.uBits - 1) x hx2
  rw [← DType.H] at hs
  by_cases hc : d.H ≤ x
  · rw [if_pos (hs.2 hc), if_pos hc]
    exact bnot_eq d.uBits x hx
  · rw [if_neg (fun hp => hc (hs.1 hp)), if_neg hc]
    have := xor_signbit (d.uBits - 1) x hx2
    rw [← DType.H] at this
    rw [this, if_pos (by omega)]

/-- `from_unsigned` of the float macro is `DType.fromU` -/
theorem float_fromU_lit_eq (d : DType) (hk : d.kind = .float) (h : 1 ≤ d.uBits) (u : Nat) (hu : u < d.M) :
    FloatM.fromUnsigned d.uBits d.H u = d.fromU u := by
  have hM := M_eq_two_H d h
  unfold FloatM.fromUnsigned DType.fromU
  simp only [hk]
  have hu2 : u < 2 * 2^(d.uBits - 1) := by rw [← DType.H, ← hM]; exact hu
  have hs := and_signbit_pos (d.uBits - 1) u hu2
  rw [← DType.H] at hs
  by_cases hc : d.H ≤ u
  · rw [if_pos (hs.2 hc), if_pos hc]
    have := xor_signbit (d.uBits - 1) u hu2
    rw [← DType.H] at this
    rw [this, if_neg (by omega)]
  · rw [if_neg (fun hp => hc (hs.1 hp)), if_neg hc]
    exact bnot_eq d.uBits u hu

/-- `to_signed` of the float macro (`to_bits() as Signed`) keeps the pattern -/
theorem float_toS_lit_eq (d : DType) (hk : d.kind = .float) (x : Nat) (hx : x < d.M) :
    asU d.uBits (FloatM.toSigned d.uBits x) = d.toS x := by
  unfold FloatM.toSigned DType.toS
  simp only [hk]
  exact asU_asI d.uBits x hx

/-- `from_signed` of the float macro (`from_bits(signed as Unsigned)`) keeps the pattern -/
theorem float_fromS_lit_eq (d : DType) (hk : d.kind = .float) (s : Nat) (hs : s < d.M) :
    FloatM.fromSigned d.uBits (asI d.uBits s) = d.fromS s := by
  unfold FloatM.fromSigned DType.fromS
  simp only [hk]
  exact asU_asI d.uBits s hs

/-! ### `impl_signed!`, `impl_timestamp!`, `impl_timestamp_96!` (the same three expressions) -/

/-- `self.wrapping_sub(Self::MIN) as $unsigned` on the pattern of `self` is `(x + H) % M` -/
theorem signed_toU_pat (W : Nat) (h : 1 ≤ W) (x : Nat) (hx : x < 2^W) :
    SignedM.toUnsigned W (asI W x) = (x + 2^(W-1)) % 2^W := by
  unfold SignedM.toUnsigned
  rw [pat_sub_iMin W h, asU_asI W x hx]

/-- the pattern of `Self::MIN.wrapping_add(off as $t)` is `(u + H) % M` -/
theorem signed_fromU_pat (W : Nat) (h : 1 ≤ W) (u : Nat) (hu : u < 2^W) :
    asU W (SignedM.fromUnsigned W u) = (u + 2^(W-1)) % 2^W := by
  unfold SignedM.fromUnsigned
  rw [pat_iMin_add W h, asU_asI W u hu]

theorem signed_toU_lit_eq (d : DType) (hk : d.kind = .int ∨ d.kind = .ts96) (h : 1 ≤ d.uBits) (x : Nat)
    (hx : x < d.M) : SignedM.toUnsigned d.uBits (asI d.uBits x) = d.toU x := by
  rw [signed_toU_pat d.uBits h x hx]
  unfold DType.toU
  rcases hk with hk | hk <;> simp only [hk] <;> rfl

theorem signed_fromU_lit_eq (d : DType) (hk : d.kind = .int ∨ d.kind = .ts96) (h : 1 ≤ d.uBits) (u : Nat)
    (hu : u < d.M) : asU d.uBits (SignedM.fromUnsigned d.uBits u) = d.fromU u := by
  rw [signed_fromU_pat d.uBits h u hu]
  unfold DType.fromU
  rcases hk with hk | hk <;> simp only [hk] <;> rfl

/-- value form: `from_unsigned(off)` IS the integer whose pattern `DType.fromU` computes -/
theorem signed_fromU_val (d : DType) (hk : d.kind = .int ∨ d.kind = .ts96) (h : 1 ≤ d.uBits) (u : Nat)
    (hu : u < d.M) : SignedM.fromUnsigned d.uBits u = asI d.uBits (d.fromU u) := by
  rw [← signed_fromU_lit_eq d hk h u hu]
  exact (asI_asU d.uBits h _ (wrapI_inI d.uBits h _)).symm

theorem signed_toS_lit_eq (d : DType) (hk : d.kind ≠ .uint) (x : Nat) (hx : x < d.M) :
    asU d.uBits (SignedM.toSigned (asI d.uBits x)) = d.toS x := by
  unfold SignedM.toSigned DType.toS
  rw [asU_asI d.uBits x hx]
  cases hk' : d.kind <;> simp_all

theorem signed_fromS_lit_eq (d : DType) (hk : d.kind ≠ .uint) (s : Nat) (hs : s < d.M) :
    asU d.uBits (SignedM.fromSigned (asI d.uBits s)) = d.fromS s := by
  unfold SignedM.fromSigned DType.fromS
  rw [asU_asI d.uBits s hs]
  cases hk' : d.kind <;> simp_all

/-! ### `impl_unsigned_number!` -/

theorem unsigned_toU_lit_eq (d : DType) (hk : d.kind = .uint) (x : Nat) : UnsignedM.toUnsigned x = d.toU x := by
  unfold UnsignedM.toUnsigned DType.toU; simp only [hk]

theorem unsigned_fromU_lit_eq (d : DType) (hk : d.kind = .uint) (u : Nat) :
    UnsignedM.fromUnsigned u = d.fromU u := by
  unfold UnsignedM.fromUnsigned DType.fromU; simp only [hk]

/-- `(self as $signed).wrapping_add(<$signed>::MIN)` has the pattern `DType.toS` -/
theorem unsigned_toS_lit_eq (d : DType) (hk : d.kind = .uint) (h : 1 ≤ d.uBits) (x : Nat) (hx : x < d.M) :
    asU d.uBits (UnsignedM.toSigned d.uBits x) = d.toS x := by
  unfold UnsignedM.toSigned DType.toS
  simp only [hk]
  rw [pat_add_iMin d.uBits h, asU_asI d.uBits x hx]; rfl

/-- `signed.wrapping_sub(<$signed>::MIN) as Self` is `DType.fromS` of the pattern of `signed` -/
theorem unsigned_fromS_lit_eq (d : DType) (hk : d.kind = .uint) (h : 1 ≤ d.uBits) (s : Nat) (hs : s < d.M) :
    UnsignedM.fromSigned d.uBits (asI d.uBits s) = d.fromS s := by
  unfold UnsignedM.fromSigned DType.fromS
  simp only [hk]
  rw [pat_sub_iMin d.uBits h, asU_asI d.uBits s hs]; rfl

/-! ### `SignedLike` -/

/-- `iW::wrapping_add` / `wrapping_sub` on patterns are `DType.sAdd` / `DType.sSub` (every kind but bool) -/
theorem signedLike_int_lit_eq (d : DType) (hk : d.kind ≠ .bool) (a b : Nat) (ha : a < d.M) (hb : b < d.M) :
    asU d.uBits (SignedM.wrappingAdd d.uBits (asI d.uBits a) (asI d.uBits b)) = d.sAdd a b
    ∧ asU d.uBits (SignedM.wrappingSub d.uBits (asI d.uBits a) (asI d.uBits b)) = d.sSub a b := by
  unfold SignedM.wrappingAdd SignedM.wrappingSub DType.sAdd DType.sSub
  rw [pat_wrappingAdd, pat_wrappingSub, asU_asI d.uBits a ha, asU_asI d.uBits b hb]
  have hbm : b % d.M = b := Nat.mod_eq_of_lt hb
  cases hk' : d.kind <;> simp_all <;> exact ⟨rfl, rfl⟩

/-- value form: the wrapped sum IS the in-range integer with pattern `sAdd` -/
theorem signedLike_int_val (d : DType) (hk : d.kind ≠ .bool) (h : 1 ≤ d.uBits) (a b : Nat) (ha : a < d.M)
    (hb : b < d.M) :
    SignedM.wrappingAdd d.uBits (asI d.uBits a) (asI d.uBits b) = asI d.uBits (d.sAdd a b)
    ∧ SignedM.wrappingSub d.uBits (asI d.uBits a) (asI d.uBits b) = asI d.uBits (d.sSub a b) := by
  obtain ⟨h1, h2⟩ := signedLike_int_lit_eq d hk a b ha hb
  rw [← h1, ← h2]
  exact ⟨(asI_asU d.uBits h _ (wrapI_inI d.uBits h _)).symm, (asI_asU d.uBits h _ (wrapI_inI d.uBits h _)).symm⟩

/-! ### bool -/

theorem patBool_boolPat (b : Bool) : patBool (boolPat b) = b := by cases b <;> rfl

theorem boolPat_patBool (x : Nat) (hx : x ≤ 1) : boolPat (patBool x) = x := by
  have : x = 0 ∨ x = 1 := by omega
  rcases this with rfl | rfl <;> rfl

theorem bool_toU_lit_eq (d : DType) (hk : d.kind = .bool) (b : Bool) :
    BoolM.toUnsigned b = d.toU (boolPat b) := by
  unfold DType.toU; simp only [hk]; cases b <;> rfl

theorem bool_fromU_lit_eq (d : DType) (hk : d.kind = .bool) (u : Nat) :
    boolPat (BoolM.fromUnsigned u) = d.fromU u := by
  unfold DType.fromU BoolM.fromUnsigned boolPat; simp only [hk]
  by_cases h : u = 0
  · subst h; rfl
  · have : u > 0 := by omega
    simp [h, this]

theorem bool_toS_fromS_lit_eq (d : DType) (hk : d.kind = .bool) (b : Bool) :
    boolPat (BoolM.toSigned b) = d.toS (boolPat b) ∧ boolPat (BoolM.fromSigned b) = d.fromS (boolPat b) := by
  unfold DType.toS DType.fromS; simp only [hk]; exact ⟨rfl, rfl⟩

/-- bool's `wrapping_add` = `wrapping_sub` = xor are `DType.sAdd` / `DType.sSub` -/
theorem signedLike_bool_lit_eq (d : DType) (hk : d.kind = .bool) (a b : Bool) :
    boolPat (BoolM.wrappingAdd a b) = d.sAdd (boolPat a) (boolPat b)
    ∧ boolPat (BoolM.wrappingSub a b) = d.sSub (boolPat a) (boolPat b) := by
  unfold DType.sAdd DType.sSub; simp only [hk]
  cases a <;> cases b <;> exact ⟨rfl, rfl⟩

end Qco.DTLit
