/-
Layer DT lemmas, part 4: `UnsignedLike::rshift_word` / `lshift_word` (`impl_unsigned!`) are the word shifts
`Qco.WB.Writer.rshiftWord` / `Qco.WB.Writer.lshiftWord` that the `BitWriter` model (`Qco/Bits/Words.lean`) uses — value AND
panic condition — for EVERY width `W` (in particular 8, 16, 32, 64, 128).
-/
import Qco.DType.Lit
namespace Qco.DTLit
open Qco.WB (R)

private theorem pow_le_64 {W : Nat} (h : W ≤ 64) : 2^W ≤ 2^64 := Nat.pow_le_pow_right (by decide) h

/-- `usize::MAX as Self` for a type wider than `usize` -/
theorem truncU_uMax64 {W : Nat} (h : 64 < W) : truncU W (uMax 64) = 2^64 - 1 := by
  unfold truncU uMax
  have : 2^64 < 2^W := Nat.pow_lt_pow_right (by decide) h
  exact Nat.mod_eq_of_lt (by omega)

theorem rshift_word_lit_eq (W x s : Nat) (hx : x < 2^W) :
    UnsignedLikeM.rshiftWord W x s = Qco.WB.Writer.rshiftWord W x s := by
  unfold UnsignedLikeM.rshiftWord Qco.WB.Writer.rshiftWord shrU
  by_cases hW : W ≤ 64
  · have hm : max W 64 = 64 := Nat.max_eq_right hW
    have hx64 : x < 2^64 := Nat.lt_of_lt_of_le hx (pow_le_64 hW)
    rw [if_pos hW, hm]
    split
    · rfl
    · unfold truncU
      rw [Nat.mod_eq_of_lt hx64, Nat.shiftRight_eq_div_pow,
        Nat.mod_eq_of_lt (Nat.lt_of_le_of_lt (Nat.div_le_self _ _) hx64)]
  · have hm : max W 64 = W := Nat.max_eq_left (by omega)
    rw [if_neg hW, hm]
    by_cases hs : s ≥ W
    · rw [if_pos hs, if_pos hs]
    · rw [if_neg hs, if_neg hs]
      show R.ok (truncU 64 (x >>> s &&& truncU W (uMax 64))) = _
      rw [truncU_uMax64 (by omega), Nat.and_two_pow_sub_one_eq_mod, Nat.shiftRight_eq_div_pow]
      unfold truncU; rw [Nat.mod_mod]

theorem lshift_word_lit_eq (W x s : Nat) (hx : x < 2^W) :
    UnsignedLikeM.lshiftWord W x s = Qco.WB.Writer.lshiftWord W x s := by
  unfold UnsignedLikeM.lshiftWord Qco.WB.Writer.lshiftWord shlU
  by_cases hW : W ≤ 64
  · have hm : max W 64 = 64 := Nat.max_eq_right hW
    have hx64 : x < 2^64 := Nat.lt_of_lt_of_le hx (pow_le_64 hW)
    rw [if_pos hW, hm]
    split
    · rfl
    · unfold truncU
      rw [Nat.mod_eq_of_lt hx64, Nat.shiftLeft_eq]
  · have hm : max W 64 = W := Nat.max_eq_left (by omega)
    rw [if_neg hW, hm]
    by_cases hs : s ≥ W
    · rw [if_pos hs, if_pos hs]
    · rw [if_neg hs, if_neg hs]
      show R.ok (truncU 64 (x <<< s % 2^W &&& truncU W (uMax 64))) = _
      rw [truncU_uMax64 (by omega), Nat.and_two_pow_sub_one_eq_mod, Nat.shiftLeft_eq]
      unfold truncU
      rw [Nat.mod_mod, Nat.mod_mod_of_dvd _ (Nat.pow_dvd_pow 2 (by omega : 64 ≤ W))]

/-- the shifts panic exactly when the shift amount reaches `max(W, 64)` -/
theorem shift_word_panic_iff (W x s : Nat) :
    (UnsignedLikeM.rshiftWord W x s = .panic ↔ max W 64 ≤ s)
    ∧ (UnsignedLikeM.lshiftWord W x s = .panic ↔ max W 64 ≤ s) := by
  unfold UnsignedLikeM.rshiftWord UnsignedLikeM.lshiftWord shrU shlU
  by_cases hW : W ≤ 64
  · have hm : max W 64 = 64 := Nat.max_eq_right hW
    rw [if_pos hW, if_pos hW, hm]
    by_cases hs : s ≥ 64
    · simp [hs]
    · simp [hs]
  · have hm : max W 64 = W := Nat.max_eq_left (by omega)
    rw [if_neg hW, if_neg hW, hm]
    by_cases hs : s ≥ W
    · simp [hs]
    · simp [hs]

end Qco.DTLit
