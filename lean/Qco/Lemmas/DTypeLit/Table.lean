/-
Layer DT lemmas, part 7: the 15 rows of `Frozen.dtypes` against the 15 macro invocations of the source
(`rustImpls`), and the tie to `Qco.MetaIO.readFrom` / `Qco.MetaIO.writeNum`.
-/
import Qco.Lemmas.DTypeLit.Ts96
import Qco.Lemmas.WB.ReaderRest
import Qco.Op.MetaIO
namespace Qco.DTLit
open Qco Qco.WB

/-- every row of the table is implemented by the macro invocation with the same `HEADER_BYTE`, and that
instance computes the row's arithmetic maps -/
theorem rows_agree : ∀ d ∈ Frozen.dtypes, ∃ I, implByHeader d.headerByte = some I ∧ Agrees I d := by
  intro d hd
  simp only [Frozen.dtypes, List.mem_cons, List.mem_nil_iff, or_false] at hd
  rcases hd with rfl | rfl | rfl | rfl | rfl | rfl | rfl | rfl | rfl | rfl | rfl | rfl | rfl | rfl | rfl
  · exact ⟨_, rfl, signed_agrees "i64"
      { name := "i64", headerByte := 1, physBits := 64, uBits := 64, kind := .int, pps := 0 } rfl (by decide) (by decide) rfl⟩
  · exact ⟨_, rfl, unsigned_agrees "u64"
      { name := "u64", headerByte := 2, physBits := 64, uBits := 64, kind := .uint, pps := 0 } rfl (by decide) (by decide) rfl⟩
  · exact ⟨_, rfl, signed_agrees "i32"
      { name := "i32", headerByte := 3, physBits := 32, uBits := 32, kind := .int, pps := 0 } rfl (by decide) (by decide) rfl⟩
  · exact ⟨_, rfl, unsigned_agrees "u32"
      { name := "u32", headerByte := 4, physBits := 32, uBits := 32, kind := .uint, pps := 0 } rfl (by decide) (by decide) rfl⟩
  · exact ⟨_, rfl, float_agrees "f64"
      { name := "f64", headerByte := 5, physBits := 64, uBits := 64, kind := .float, pps := 0 } rfl (by decide) (by decide) rfl (1 <<< 63) (by decide)⟩
  · exact ⟨_, rfl, float_agrees "f32"
      { name := "f32", headerByte := 6, physBits := 32, uBits := 32, kind := .float, pps := 0 } rfl (by decide) (by decide) rfl (1 <<< 31) (by decide)⟩
  · exact ⟨_, rfl, bool_agrees
      { name := "bool", headerByte := 7, physBits := 8, uBits := 8, kind := .bool, pps := 0 } rfl rfl rfl rfl⟩
  · exact ⟨_, rfl, ts96_agrees "TimestampNanos96" billion
      { name := "nanos96", headerByte := 8, physBits := 96, uBits := 128, kind := .ts96, pps := 1000000000 } rfl rfl rfl rfl (by decide)⟩
  · exact ⟨_, rfl, ts96_agrees "TimestampMicros96" 1000000
      { name := "micros96", headerByte := 9, physBits := 96, uBits := 128, kind := .ts96, pps := 1000000 } rfl rfl rfl rfl (by decide)⟩
  · exact ⟨_, rfl, signed_agrees "i128"
      { name := "i128", headerByte := 10, physBits := 128, uBits := 128, kind := .int, pps := 0 } rfl (by decide) (by decide) rfl⟩
  · exact ⟨_, rfl, unsigned_agrees "u128"
      { name := "u128", headerByte := 11, physBits := 128, uBits := 128, kind := .uint, pps := 0 } rfl (by decide) (by decide) rfl⟩
  · exact ⟨_, rfl, unsigned_agrees "u16"
      { name := "u16", headerByte := 12, physBits := 16, uBits := 16, kind := .uint, pps := 0 } rfl (by decide) (by decide) rfl⟩
  · exact ⟨_, rfl, signed_agrees "i16"
      { name := "i16", headerByte := 13, physBits := 16, uBits := 16, kind := .int, pps := 0 } rfl (by decide) (by decide) rfl⟩
  · exact ⟨_, rfl, ts64_agrees "TimestampNanos" billion
      { name := "nanos", headerByte := 14, physBits := 64, uBits := 64, kind := .int, pps := 1000000000 } rfl rfl rfl⟩
  · exact ⟨_, rfl, ts64_agrees "TimestampMicros" 1000000
      { name := "micros", headerByte := 15, physBits := 64, uBits := 64, kind := .int, pps := 1000000 } rfl rfl rfl⟩

/-! ### `reader.read(n)` returns `n` bits -/

theorem readLoop_length (w : Words) : ∀ (n : Nat) (r : Reader) (word : Nat) (acc bs : List Bool) (r' : Reader),
    readLoop w n r word acc = (.ok bs, r') → bs.length = acc.length + n := by
  intro n
  induction n with
  | zero =>
    intro r word acc bs r' h
    simp only [readLoop, Prod.mk.injEq, R.ok.injEq] at h
    rw [← h.1]; simp
  | succ n ih =>
    intro r word acc bs r' h
    rw [readLoop] at h
    by_cases h64 : r.j = 64
    · rw [if_pos h64] at h
      simp only [] at h
      cases hw : w.ws[r.i + 1]? with
      | none => rw [hw] at h; simp at h
      | some word1 =>
        rw [hw] at h
        have := ih _ _ _ _ _ h
        simp only [List.length_cons] at this; omega
    · rw [if_neg h64] at h
      have := ih _ _ _ _ _ h
      simp only [List.length_cons] at this; omega

theorem read_length (w : Words) (r : Reader) (n : Nat) (bs : List Bool) (r' : Reader)
    (h : WB.read w r n = (.ok bs, r')) : bs.length = n := by
  unfold WB.read at h
  cases hc : insufficientDataCheck w r n with
  | err k => rw [hc] at h; simp at h
  | panic => rw [hc] at h; simp at h
  | ok u =>
    rw [hc] at h
    simp only [] at h
    cases hw : w.ws[r.i]? with
    | none => rw [hw] at h; simp at h
    | some word =>
      rw [hw] at h
      have := readLoop_length w n r word [] bs r' h
      simpa using this

/-! ### the tie to the metadata model -/

/-- `Qco.MetaIO.readFrom d` IS the literal `read_from` of the instance (followed by `to_unsigned`, the
representation `Qco.MetaIO` keeps), outcome by outcome and with the same reader afterwards -/
theorem readFrom_is_literal {I : NumImpl} {d : DType} (hA : Agrees I d) (w : Words) (r : Reader) :
    MetaIO.readFrom d w r =
      match WB.read w r d.physBits with
      | (.ok bools, r1) => (R.map I.toUnsigned (I.readFromBits bools), r1)
      | (.err k, r1) => (.err k, r1)
      | (.panic, r1) => (.panic, r1) := by
  unfold MetaIO.readFrom MetaIO.RM.bind MetaIO.readM
  cases hrd : WB.read w r d.physBits with
  | mk o r1 =>
    cases o with
    | err k => rfl
    | panic => rfl
    | ok bools =>
      simp only []
      rw [hA.readFrom bools (read_length w r _ bools r1 hrd)]
      unfold specRead
      cases d.rawToU (bitsNat bools) <;> rfl

/-- `Qco.MetaIO.writeNum d` writes exactly the bits the literal `write_to` hands to `writer.write` -/
theorem writeNum_is_literal {I : NumImpl} {d : DType} (hA : Agrees I d) (x : Nat) (hx : C12.valid d x)
    (hu : d.uValid (d.toU x)) (wr : Writer) :
    ∃ bits, I.writeToBits x = .ok bits ∧ MetaIO.writeNum d (d.toU x) wr = wr.write bits :=
  ⟨_, hA.writeTo x hx hu, rfl⟩

end Qco.DTLit
