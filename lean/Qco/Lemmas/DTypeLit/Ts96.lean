/-
Layer DT lemmas, part 6: `impl_timestamp_96!` — `to_bytes` / `from_bytes` with the range check of
`Timestamp96::new` (error kind `InvalidArgument`), and `Agrees` for the two 96-bit timestamp types.
`T = pps · 2^63` is `-Self::MIN = Self::MAX + 1` (`DType.tsHalf`).
-/
import Qco.Lemmas.DTypeLit.IO
namespace Qco.DTLit
open Qco Qco.WB

/-- `to_unsigned` of an in-range `iW` is the shift by `H` -/
theorem signed_toU_val (W : Nat) (h : 1 ≤ W) (z : Int) (hz : inI W z = true) :
    SignedM.toUnsigned W z = (z + (2:Int)^(W-1)).toNat := by
  rw [← asI_asU W h z hz, signed_toU_pat W h _ (asU_lt W z), asI_asU W h z hz]
  rw [inI_iff] at hz
  have hM := two_pow_pred W h
  have hc := asU_cast W z
  have c1 := cast_two_pow (W-1)
  have c2 := cast_two_pow W
  have hlt := asU_lt W z
  have hp := pow_pos_int (W-1)
  by_cases h0 : 0 ≤ z
  · rw [Int.emod_eq_of_lt h0 (by omega)] at hc
    rw [Nat.mod_eq_of_lt (by omega)]; omega
  · rw [emod_of_neg (by omega) (by omega)] at hc
    rw [Nat.mod_eq_sub_mod (by omega), Nat.mod_eq_of_lt (by omega)]; omega

theorem ts96_min_eq (pps : Nat) : Ts96M.min pps = -((pps * 2^63 : Nat) : Int) := by
  unfold Ts96M.min iMin
  rw [Int.natCast_mul, Int.mul_neg]
  rfl

theorem ts96_max_eq (pps : Nat) : Ts96M.max pps = ((pps * 2^63 : Nat) : Int) - 1 := by
  unfold Ts96M.max iMax
  rw [Int.natCast_mul]
  have : ((2:Int)^(64-1) - 1 + 1) = ((2^63 : Nat) : Int) := by
    rw [Int.sub_add_cancel]; rfl
  rw [this]

/-! ### `from_bytes` -/

theorem asI_small (raw : Nat) (hraw : raw < 2^96) : asI 128 raw = (raw : Int) := by
  unfold asI
  have : raw % 2^128 = raw := Nat.mod_eq_of_lt (by omega)
  rw [this, if_pos (by omega)]

/-- `(raw as i128) + Self::MIN` cannot overflow -/
theorem addI_small (raw T : Nat) (hraw : raw < 2^96) (hT : 2 * T ≤ 2^127) :
    addI 128 (raw : Int) (-(T : Int)) = .ok ((raw : Int) - T) := by
  unfold addI
  have : inI 128 ((raw : Int) + -(T : Int)) = true := by
    rw [inI_iff]; constructor <;> omega
  rw [if_pos this]; congr 1

/-- `Timestamp96::new` on `raw + MIN` -/
theorem new_eq (raw T pps : Nat) (hTe : T = pps * 2^63) :
    Ts96M.new pps ((raw : Int) - T) =
      if raw < 2 * T then R.ok ((raw : Int) - T) else R.err "InvalidArgument" := by
  unfold Ts96M.new Ts96M.isValid
  rw [ts96_max_eq, ts96_min_eq, ← hTe]
  by_cases hc : raw < 2 * T
  · rw [if_pos hc, if_pos]
    simp; omega
  · rw [if_neg hc, if_neg]
    simp; omega

/-- `from_bytes` of the 96-bit timestamps on 12 bytes of value `raw`: never a panic; `invalid_argument`
iff `raw ≥ 2·pps·2^63`; otherwise the part count `raw + MIN` -/
theorem ts96_fromBytes_eq (pps : Nat) (hpps : 2 * (pps * 2^63) ≤ 2^127) (bytes : List Nat)
    (hl : bytes.length = 12) (hb : ∀ b ∈ bytes, b < 256) :
    Ts96M.fromBytes pps bytes =
      if fromBeBytes bytes < 2 * (pps * 2^63)
      then .ok ((fromBeBytes bytes : Int) - ((pps * 2^63 : Nat) : Int))
      else .err "InvalidArgument" := by
  have hraw : fromBeBytes bytes < 2^96 := by
    have := fromBeBytes_lt hb; rw [hl] at this; exact this
  unfold Ts96M.fromBytes
  have hti : tryIntoArray 16 (List.replicate 4 0 ++ bytes) = .ok (List.replicate 4 0 ++ bytes) := by
    unfold tryIntoArray; rw [if_pos (by simp [hl])]
  dsimp only
  rw [hti]
  dsimp only
  rw [fromBeBytes_zeros, asI_small _ hraw, ts96_min_eq, addI_small _ _ hraw hpps]
  exact new_eq _ _ pps rfl

/-- a vector of the wrong length makes the `unwrap()` panic -/
theorem ts96_fromBytes_panic (pps : Nat) (bytes : List Nat) (hl : bytes.length ≠ 12) :
    Ts96M.fromBytes pps bytes = .panic := by
  unfold Ts96M.fromBytes
  have hti : tryIntoArray 16 (List.replicate 4 0 ++ bytes) = .panic := by
    unfold tryIntoArray; rw [if_neg (by simp; omega)]
  dsimp only
  rw [hti]

/-! ### `to_bytes` -/

/-- `to_bytes` when `MIN ≤ parts` and `parts - MIN` fits `i128`: the 12 low bytes of `parts - MIN` -/
theorem ts96_toBytes_ok (pps : Nat) (parts : Int) (h0 : -((pps * 2^63 : Nat) : Int) ≤ parts)
    (h1 : parts + ((pps * 2^63 : Nat) : Int) < (2:Int)^127) :
    Ts96M.toBytes pps parts = .ok (toBeBytes 12 (parts + ((pps * 2^63 : Nat) : Int)).toNat) := by
  unfold Ts96M.toBytes
  rw [ts96_min_eq]
  generalize ((pps * 2^63 : Nat) : Int) = T at *
  have hsub : subI 128 parts (-T) = .ok (parts + T) := by
    unfold subI
    have : inI 128 (parts - -T) = true := by
      rw [inI_iff]; constructor <;> omega
    rw [if_pos this]; congr 1; omega
  rw [hsub]
  dsimp only
  have e : parts + T = (((parts + T).toNat : Nat) : Int) := by omega
  have hlt : (parts + T).toNat < 2^128 := by omega
  rw [e, asU_natCast_lt 128 _ hlt, Int.toNat_natCast, toBeBytes_drop 4 12]

/-- `to_bytes` PANICS (debug build; in release it wraps) when `parts - MIN` overflows `i128` -/
theorem ts96_toBytes_panic (pps : Nat) (parts : Int)
    (h : (2:Int)^127 ≤ parts + ((pps * 2^63 : Nat) : Int)) : Ts96M.toBytes pps parts = .panic := by
  unfold Ts96M.toBytes
  rw [ts96_min_eq]
  generalize ((pps * 2^63 : Nat) : Int) = T at *
  have hsub : subI 128 parts (-T) = .panic := by
    unfold subI
    have : ¬ (inI 128 (parts - -T) = true) := by
      rw [inI_iff]; omega
    rw [if_neg this]
  rw [hsub]

/-- `to_bytes` BELOW `MIN` (an invalid timestamp, e.g. out of `from_signed`): the negative difference is
cast to `u128`, the 12 low bytes of `2^128 + (parts - MIN)` come out -/
theorem ts96_toBytes_below (pps : Nat) (parts : Int) (hin : inI 128 parts = true)
    (h : parts < -((pps * 2^63 : Nat) : Int)) :
    Ts96M.toBytes pps parts
      = .ok (toBeBytes 12 (parts + ((pps * 2^63 : Nat) : Int) + (2:Int)^128).toNat) := by
  unfold Ts96M.toBytes
  rw [ts96_min_eq]
  rw [inI_iff] at hin
  have hT0 : (0:Int) ≤ ((pps * 2^63 : Nat) : Int) := Int.natCast_nonneg _
  generalize ((pps * 2^63 : Nat) : Int) = T at *
  have hsub : subI 128 parts (-T) = .ok (parts + T) := by
    unfold subI
    have : inI 128 (parts - -T) = true := by
      rw [inI_iff]; constructor <;> omega
    rw [if_pos this]; congr 1; omega
  rw [hsub]
  dsimp only
  have hU : asU 128 (parts + T) = (parts + T + (2:Int)^128).toNat := by
    apply Int.natCast_inj.1
    rw [asU_cast, emod_of_neg (by omega) (by omega)]; omega
  rw [hU, toBeBytes_drop 4 12]

/-- `to_unsigned` of the part count `raw + MIN` that `from_bytes` accepted -/
theorem ts96_read_toU (raw T : Nat) (hc : raw < 2 * T) (hT : 2 * T ≤ 2^127) :
    Ts96M.toUnsigned (asI 128 (asU 128 ((raw : Int) - (T : Int)))) = raw + 2^127 - T := by
  have hin : inI 128 ((raw : Int) - (T : Int)) = true := by
    rw [inI_iff]; constructor <;> omega
  rw [asI_asU 128 (by decide) _ hin]
  show SignedM.toUnsigned 128 _ = _
  rw [signed_toU_val 128 (by decide) _ hin]
  omega

theorem rawToU_ts96 (d : DType) (hk : d.kind = .ts96) (raw : Nat) :
    d.rawToU raw = if raw < 2 * d.tsHalf then some (raw + d.H - d.tsHalf) else none := by
  unfold DType.rawToU; simp only [hk]

theorem specRead_ts96 (d : DType) (hk : d.kind = .ts96) (bools : List Bool) :
    specRead d bools = if bitsNat bools < 2 * d.tsHalf then .ok (bitsNat bools + d.H - d.tsHalf)
      else .err "InvalidArgument" := by
  unfold specRead
  rw [rawToU_ts96 d hk]
  by_cases hc : bitsNat bools < 2 * d.tsHalf
  · rw [if_pos hc, if_pos hc]
  · rw [if_neg hc, if_neg hc]

/-! ### the two instances agree with the `ts96` descriptors -/

theorem ts96_agrees (name : String) (pps : Nat) (d : DType) (hk : d.kind = .ts96) (hW : d.uBits = 128)
    (hP : d.physBits = 96) (hpps : d.pps = pps) (hT : 2 * d.tsHalf ≤ d.H) :
    Agrees (ts96Impl name pps d.headerByte) d := by
  have hkb : d.kind ≠ .bool := by rw [hk]; decide
  have hku : d.kind ≠ .uint := by rw [hk]; decide
  have h1 : 1 ≤ d.uBits := by omega
  have hH : d.H = 2^127 := by unfold DType.H; rw [hW]
  have hM : d.M = 2^128 := by unfold DType.M; rw [hW]
  have hTe : d.tsHalf = pps * 2^63 := by unfold DType.tsHalf; rw [hpps]
  have hT' : 2 * (pps * 2^63) ≤ 2^127 := by rw [← hTe, ← hH]; exact hT
  refine ⟨rfl, hP.symm, hW.symm, ?_, ?_, ?_, ?_, ?_, ?_, ?_, ?_, ?_⟩
  · intro x hx
    have := signed_toU_lit_eq d (.inr hk) h1 x (valid_lt hkb hx)
    rw [hW] at this; exact this
  · intro u hu
    have := signed_fromU_lit_eq d (.inr hk) h1 u hu
    rw [hW] at this; exact this
  · intro x hx
    have := signed_toS_lit_eq d hku x (valid_lt hkb hx)
    rw [hW] at this; exact this
  · intro s hs
    have := signed_fromS_lit_eq d hku s (valid_lt hkb hs)
    rw [hW] at this; exact this
  · intro a b ha hb
    have := (signedLike_int_lit_eq d hkb a b (valid_lt hkb ha) (valid_lt hkb hb)).1
    rw [hW] at this; exact this
  · intro a b ha hb
    have := (signedLike_int_lit_eq d hkb a b (valid_lt hkb ha) (valid_lt hkb hb)).2
    rw [hW] at this; exact this
  · intro x hx huv
    have hin := asI_inI 128 x (by decide)
    -- the image is the part count shifted by `H`
    have hu : d.toU x = (asI 128 x + (2:Int)^127).toNat := by
      have := signed_toU_lit_eq d (.inr hk) h1 x (valid_lt hkb hx)
      rw [hW] at this
      rw [← this, signed_toU_val 128 (by decide) _ hin]
    unfold DType.uValid at huv
    simp only [hk] at huv
    rw [hH, hTe] at huv
    rw [inI_iff] at hin
    show R.map bytesToBits (Ts96M.toBytes pps (asI 128 x)) = _
    have hur : d.uToRaw (d.toU x) = d.toU x + pps * 2^63 - 2^127 := by
      unfold DType.uToRaw; simp only [hk]; rw [hH, hTe]
    rw [hur, hP]
    generalize d.toU x = u at *
    generalize asI 128 x = parts at *
    rw [ts96_toBytes_ok pps parts (by omega) (by omega), R.map, bytesToBits_toBeBytes]
    have : (parts + ((pps * 2^63 : Nat) : Int)).toNat = u + pps * 2^63 - 2^127 := by omega
    rw [this]
  · intro bools hl
    rw [hP] at hl
    have hl' : bools.length = 8 * 12 := hl
    obtain ⟨hlen, hvv, hbits⟩ := bitsToBytes_spec 12 bools hl'
    have hlt : ∀ b ∈ bitsToBytes bools, b < 256 :=
      (bitsToBytesF_spec 12 bools.length bools hl' (by omega)).2.2
    have hr : bitsNat bools < 2^96 := raw_lt bools hl
    show R.map (fun x => Ts96M.toUnsigned (asI 128 x))
      (R.map (asU 128) (Ts96M.fromBytes pps (bitsToBytes bools))) = _
    rw [ts96_fromBytes_eq pps hT' _ hlen hlt, hvv]
    rw [specRead_ts96 d hk, hH, hTe]
    by_cases hc : bitsNat bools < 2 * (pps * 2^63)
    · rw [if_pos hc, if_pos hc]
      show R.ok (Ts96M.toUnsigned (asI 128 (asU 128 _))) = _
      rw [ts96_read_toU _ (pps * 2^63) hc hT']
    · rw [if_neg hc, if_neg hc]; rfl
  · intro bytes hb
    show R.map (asU 128) (Ts96M.fromBytes pps bytes) = .panic ↔ _
    rw [hP]
    by_cases hl : bytes.length = 12
    · rw [ts96_fromBytes_eq pps hT' bytes hl hb]
      split <;> simp [R.map] <;> omega
    · rw [ts96_fromBytes_panic pps bytes hl]
      simp [R.map]; omega

end Qco.DTLit
