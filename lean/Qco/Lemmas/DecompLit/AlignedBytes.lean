import Qco.Lemmas.WordsProofs
/-
Layer DL (literal decompressor), bit-level meaning of `BitReader::read_aligned_bytes`
(`Qco.WB.readAlignedBytes` in `Qco/Bits/Words.lean`).
-/
namespace Qco.DecompLit
open Qco Qco.WB

/-- the first `n` bytes of a bit list (most significant bit first) -/
def bitsBytes : Nat → Bits → List Nat
  | 0, _ => []
  | n + 1, s => bitsNat (s.take 8) :: bitsBytes n (s.drop 8)

theorem bitsBytes_length (n : Nat) (s : Bits) : (bitsBytes n s).length = n := by
  induction n generalizing s with
  | zero => rfl
  | succ n ih => rw [bitsBytes, List.length_cons, ih]

theorem rinv_seekTo {w : Words} {p : Nat} (h : p ≤ w.total) : RInv w (Reader.seekTo p) := by
  constructor
  · show p % 64 ≤ 64
    omega
  · show 64 * (p / 64) + p % 64 ≤ w.total
    omega

theorem seekTo_bitIdx (p : Nat) : (Reader.seekTo p).bitIdx = p := by
  show 64 * (p / 64) + p % 64 = p
  omega

/-- a general inversion: byte lists are determined by their bits -/
theorem eq_bitsBytes_of_bits {l : List Nat} (hl : ∀ b ∈ l, b < 256) {s : Bits}
    (h : bytesBits' l = s.take (8 * l.length)) (hlen : 8 * l.length ≤ s.length) :
    l = bitsBytes l.length s := by
  induction l generalizing s with
  | nil => rfl
  | cons b l ih =>
    simp only [List.length_cons] at h hlen ⊢
    rw [bytesBits'_cons] at h
    have h8 : s.take 8 = natBits 8 b := by
      have := congrArg (List.take 8) h
      rw [List.take_append_of_le_length (by simp), List.take_of_length_le (by simp),
        List.take_take] at this
      rw [this, Nat.min_eq_left (by omega)]
    have hd : bytesBits' l = (s.drop 8).take (8 * l.length) := by
      have := congrArg (List.drop 8) h
      rw [List.drop_append_of_le_length (by simp), List.drop_of_length_le (by simp),
        List.nil_append, List.drop_take] at this
      have e : 8 * (l.length + 1) - 8 = 8 * l.length := by omega
      rw [this, e]
    rw [bitsBytes, h8, bitsNat_natBits]
    have hb : b < 256 := hl b (by simp)
    have h256 : (2:Nat)^8 = 256 := by decide
    rw [h256, Nat.mod_eq_of_lt hb]
    congr 1
    exact ih (fun c hc => hl c (by simp [hc])) hd (by rw [List.length_drop]; omega)

theorem bytesBits'_drop (l : List Nat) (k : Nat) :
    bytesBits' (l.drop k) = (bytesBits' l).drop (8 * k) := by
  induction l generalizing k with
  | nil => simp
  | cons b l ih =>
    cases k with
    | zero => simp
    | succ k =>
      rw [List.drop_succ_cons, bytesBits'_cons, ih, List.drop_append, natBits_length,
        List.drop_of_length_le (l := natBits 8 b) (by simp; omega), List.nil_append]
      have e : 8 * (k + 1) - 8 = 8 * k := by omega
      rw [e]

theorem wordsToBytes_length (ws : List Nat) : (wordsToBytes ws).length = 8 * ws.length := by
  have h := congrArg List.length (wordsToBytes_bits ws)
  rw [bytesBits'_length, flat_length] at h
  omega

theorem flat_take_words {ws : List Nat} {e : Nat} (h : e ≤ ws.length) :
    flat (ws.take e) = (flat ws).take (64 * e) := by
  conv => rhs; rw [← List.take_append_drop e ws, flat_append]
  rw [List.take_append_of_le_length (by rw [flat_length, List.length_take]; omega),
    List.take_of_length_le (l := flat (ws.take e)) (by rw [flat_length, List.length_take]; omega)]

/-- `refresh_if_needed` keeps the invariant and the position -/
theorem refresh_rinv {w : Words} {r : Reader} (hr : RInv w r) :
    RInv w r.refresh ∧ r.refresh.bitIdx = r.bitIdx ∧ r.refresh.j % 8 = r.bitIdx % 8 := by
  have hj := hr.j_le
  have hp := hr.pos_le
  unfold Reader.refresh
  by_cases h : r.j = 64
  · rw [if_pos h]
    simp only [Reader.bitIdx] at hp ⊢
    refine ⟨⟨?_, ?_⟩, ?_, ?_⟩
    · show (0:Nat) ≤ 64
      omega
    · show 64 * (r.i + 1) + 0 ≤ w.total
      omega
    · omega
    · omega
  · rw [if_neg h]
    refine ⟨hr, rfl, ?_⟩
    simp only [Reader.bitIdx]; omega

/-- the bytes cut out by `read_aligned_bytes` carry the bits `[8 * byteIdx, 8 * (byteIdx + n))` -/
theorem slice_bits {w : Words} (hw : w.WF) {b n : Nat} (hfit : 8 * (b + n) ≤ w.total) :
    let res := (((wordsToBytes ((w.ws.take (ceilDiv (b + n) 8)).drop (b / 8))).drop (b % 8)).take n)
    res.length = n ∧ (∀ x ∈ res, x < 256) ∧
      bytesBits' res = (w.toBits.drop (8 * b)).take (8 * n) := by
  intro res
  have hlen := hw.len
  have he : ceilDiv (b + n) 8 ≤ w.ws.length := by unfold ceilDiv; omega
  have he2 : b + n ≤ 8 * ceilDiv (b + n) 8 := by unfold ceilDiv; omega
  refine ⟨?_, ?_, ?_⟩
  · show (List.take n _).length = n
    rw [List.length_take, List.length_drop, wordsToBytes_length, List.length_drop, List.length_take]
    omega
  · intro x hx
    exact wordsToBytes_lt _ x (List.mem_of_mem_drop (List.mem_of_mem_take hx))
  · show bytesBits' (List.take n _) = _
    rw [bytesBits'_take, bytesBits'_drop, wordsToBytes_bits, ← flat_drop_words,
      flat_take_words he, toBits_drop_take (by omega), List.drop_drop, List.drop_take,
      List.take_take]
    have e1 : 64 * (b / 8) + 8 * (b % 8) = 8 * b := by omega
    rw [e1]
    congr 1
    omega

/-- `BitReader::read_aligned_bytes(n)` at bit level -/
theorem readAlignedBytes_spec {w : Words} (hw : w.WF) {r : Reader} (hr : RInv w r) (n : Nat)
    (hsz : w.total + 8 * n + 64 < USIZE) :
    RInv w r.refresh ∧ r.refresh.bitIdx = r.bitIdx ∧
    (r.bitIdx % 8 ≠ 0 → readAlignedBytes w r n = (.err "InvalidArgument", r.refresh)) ∧
    (r.bitIdx % 8 = 0 → w.total < r.bitIdx + 8 * n →
        readAlignedBytes w r n = (.err "InsufficientData", r.refresh)) ∧
    (r.bitIdx % 8 = 0 → r.bitIdx + 8 * n ≤ w.total →
        readAlignedBytes w r n
          = (.ok (bitsBytes n (w.toBits.drop r.bitIdx)), Reader.seekTo (r.bitIdx + 8 * n))) := by
  have husz : USIZE = 18446744073709551616 := rfl
  obtain ⟨hr', hb, hj8⟩ := refresh_rinv hr
  have hj := hr'.j_le
  have hp := hr'.pos_le
  have hbytes := hw.bytes
  have hbi : r.refresh.bitIdx = 64 * r.refresh.i + r.refresh.j := rfl
  refine ⟨hr', hb, ?_, ?_, ?_⟩
  · intro hna
    unfold readAlignedBytes alignedByteIdx
    simp only []
    rw [if_neg (by omega)]
  · intro ha hins
    unfold readAlignedBytes alignedByteIdx
    simp only []
    rw [if_pos (by omega)]
    simp only []
    rw [if_neg (by omega), if_pos (by unfold byteSize ceilDiv; omega)]
  · intro ha hfit
    have hbyte : r.refresh.i * 8 + r.refresh.j / 8 = r.bitIdx / 8 := by omega
    unfold readAlignedBytes alignedByteIdx
    simp only []
    rw [if_pos (by omega)]
    simp only []
    rw [hbyte]
    have hfit8 : 8 * (r.bitIdx / 8 + n) ≤ w.total := by omega
    have hlen := hw.len
    rw [if_neg (by omega), if_neg (by unfold byteSize ceilDiv; omega),
      if_neg (by unfold ceilDiv; omega)]
    unfold seek
    rw [if_neg (by omega), hb]
    have e8 : n * 8 = 8 * n := Nat.mul_comm _ _
    simp only [e8]
    obtain ⟨h1, h2, h3⟩ := slice_bits hw hfit8
    have e2 : 8 * (r.bitIdx / 8) = r.bitIdx := by omega
    rw [e2] at h3
    congr 2
    have := eq_bitsBytes_of_bits h2 (s := w.toBits.drop r.bitIdx) (by rw [h1]; exact h3)
      (by rw [h1, List.length_drop, hw.toBits_length]; omega)
    rw [h1] at this
    exact this

end Qco.DecompLit
