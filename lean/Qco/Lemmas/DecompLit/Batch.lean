/-
Layer DL, part 2: `NumDecompressor::decompress_unsigneds_limited` (the snapshot/restore wrapper around the
dirty batch decoder, `drain_empty_byte`, the compressed-body-size check) is `Op.numBatch matchStride`.
First with the abstract position equal to the reader's bit index (`dul_base`), then — by the shift
lemmas — with any multiple of 64 added (`dul_refines`).
-/
import Qco.Lemmas.DecompLit.Rel
import Qco.Lemmas.DecompLit.Shift
import Qco.Lemmas.Hostile
import Qco.Properties.C07
namespace Qco.DecompLit
open Qco Qco.WB Qco.Op Qco.NumDec Qco.MetaIO Qco.Parser

theorem usize_val : USIZE = 18446744073709551616 := rfl

/-! ### the dirty call, also for the empty table -/

/-- `decompress_unsigneds_limited_dirty` is `numBatchDirty matchStride` — `numDecDirty_eq`, extended to
the empty prefix table (which `NumDecompressor::new` only accepts for `n = 0`: the batch is empty) -/
theorem dirty_refines (ub : Nat) (b : Body) (hps : PsOk ub b.ps ∨ (b.ps = [] ∧ b.n = 0))
    (hn : b.n ≤ maxEntries) (hnp : b.st.nProcessed ≤ b.n) (hinc : IncOk b.ps b.st.inc) (w : Words)
    (hw : w.WF) (hsz : 64 * w.ws.length + 1024 < USIZE) (r : Reader) (hr : RInv w r) (limit : Nat)
    (eoi : Bool) :
    let lit := decompressUnsignedsLimitedDirty (mkDec ub b.n b.ps) b.st.nProcessed b.st.inc limit eoi w r
    let abs := numBatchDirty matchStride b limit eoi { bits := w.toBits.drop r.bitIdx, pos := r.bitIdx }
    lit.res = outToR abs.1 ∧ lit.inc = abs.2.1.inc ∧ lit.rd.bitIdx = abs.2.2.pos
      ∧ w.toBits.drop lit.rd.bitIdx = abs.2.2.bits ∧ RInv w lit.rd := by
  rcases hps with hps | ⟨hps, hn0⟩
  · exact numDecDirty_eq ub b hps hn hnp hinc w hw hsz r hr limit eoi
  · intro lit abs
    have hnp0 : b.st.nProcessed = 0 := by omega
    have hb0 : min (b.n - b.st.nProcessed) limit = 0 := by rw [hn0]; simp
    have hn' : (mkDec ub b.n b.ps).n = b.n := rfl
    have hlit : lit = ⟨.ok ([], decide (limit ≥ b.n - b.st.nProcessed)), b.st.inc, r⟩ := by
      show decompressUnsignedsLimitedDirty _ _ _ _ _ _ _ = _
      simp only [decompressUnsignedsLimitedDirty, hn', if_neg (by omega : ¬ b.st.nProcessed > b.n), hb0,
        if_true]
    have habs : abs = (.ok { us := [], finished := decide (limit ≥ b.n - b.st.nProcessed) }, b.st,
        { bits := w.toBits.drop r.bitIdx, pos := r.bitIdx }) := by
      show numBatchDirty _ _ _ _ _ = _
      simp only [numBatchDirty, hb0, if_true]
    rw [hlit, habs]
    exact ⟨rfl, rfl, rfl, rfl, hr⟩

/-! ### `drain_empty_byte` -/

/-- the word-level `drain_empty_byte` is the abstract one -/
theorem drain_lit_abs {w : Words} (hw : w.WF) {r : Reader} (hr : RInv w r) :
    match Op.drainEmptyByte { bits := w.toBits.drop r.bitIdx, pos := r.bitIdx } with
    | .ok rd' => ∃ r1, WB.drainEmptyByte w r = (.ok (), r1) ∧ r1.bitIdx = rd'.pos
        ∧ w.toBits.drop r1.bitIdx = rd'.bits ∧ RInv w r1
    | .err e => e = .corrupt ∧ ∃ r1, WB.drainEmptyByte w r = (.err "Corruption", r1) := by
  have hm := matches_drain hw False hr
  have hdm : drainM w r = WB.drainEmptyByte w r := rfl
  rw [hdm] at hm
  obtain ⟨h1, h2, h3⟩ := hm
  have hlen : (w.toBits.drop r.bitIdx).length = w.total - r.bitIdx := by
    rw [List.length_drop, hw.toBits_length]
  have hp := hr.pos_le
  have hb := hw.bytes
  obtain ⟨pad, hpad⟩ : ∃ pad, pad = (8 - r.bitIdx % 8) % 8 := ⟨_, rfl⟩
  have hfit : pad ≤ w.total - r.bitIdx := by omega
  unfold Op.drainEmptyByte
  simp only
  rw [← hpad]
  rw [← hpad] at h3
  unfold Parser.bind at h3
  rw [readBits_def, if_neg (by omega)] at h3
  simp only at h3
  by_cases hany : ((w.toBits.drop r.bitIdx).take pad).any id = true
  · rw [if_pos hany]
    rw [if_pos hany] at h3
    obtain ⟨k, hk, e⟩ := h3
    rcases hk with rfl | ⟨hf, _⟩
    · refine ⟨rfl, (WB.drainEmptyByte w r).2, ?_⟩
      rw [← e]
    · exact hf.elim
  · rw [if_neg hany]
    rw [if_neg hany] at h3
    obtain ⟨e1, e2⟩ := h3
    refine ⟨(WB.drainEmptyByte w r).2, by rw [← e1], ?_, ?_, h1⟩
    · simp only [List.length_take, hlen]
      have hl := congrArg List.length e2
      simp only [List.length_drop, hw.toBits_length] at hl
      have := h1.pos_le
      omega
    · exact e2.symm

/-! ### the tail of `decompress_unsigneds_limited` after a successful dirty call -/

/-- the part of `Op.numBatch` after a successful dirty call -/
def absFinish (b : Body) (rd : Rd) (ub : UBatch) (st' : NumSt) (rd' : Rd) : Out UBatch × NumSt × Rd :=
  match (if ub.finished then Op.drainEmptyByte rd' else .ok rd') with
  | .err e => (.err e, b.st, rd)
  | .ok rd'' =>
    if ub.finished && b.bodyBytes * 8 != st'.bitsProcessed + (rd''.pos - rd.pos) then (.err .corrupt, b.st, rd)
    else (.ok ub, { st' with nProcessed := st'.nProcessed + ub.us.length,
                             bitsProcessed := st'.bitsProcessed + (rd''.pos - rd.pos) }, rd'')

theorem numBatch_eq (L : Matcher) (b : Body) (limit : Nat) (eoi : Bool) (rd : Rd) :
    numBatch L b limit eoi rd = match numBatchDirty L b limit eoi rd with
      | (.ok ub, st', rd') => absFinish b rd ub st' rd'
      | (.err e, _, _) => (.err e, b.st, rd) := by
  unfold numBatch absFinish
  rcases numBatchDirty L b limit eoi rd with ⟨o, st', rd'⟩
  cases o with
  | err e => rfl
  | ok ub =>
    simp only
    cases (if ub.finished then Op.drainEmptyByte rd' else .ok rd') with
    | err e => rfl
    | ok rd'' => rfl

/-- the closure of `res.and_then(..)` against `absFinish` -/
theorem finishBatch_spec {w : Words} (hw : w.WF) (nd1 : NumDecSt) (r0 : Reader) (hr0 : RInv w r0)
    (i0 : Nat) (hi0 : i0 ≤ r0.bitIdx) (us : List Nat) (fin : Bool)
    (hov : nd1.bitsProcessed + w.total < USIZE) (hcbs : nd1.compressedBodySize < 2 ^ 32)
    (hnp : nd1.nProcessed + us.length < USIZE) :
    match (if fin then Op.drainEmptyByte { bits := w.toBits.drop r0.bitIdx, pos := r0.bitIdx }
           else .ok { bits := w.toBits.drop r0.bitIdx, pos := r0.bitIdx }) with
    | .err e => ∃ r1, finishBatch nd1 w r0 i0 us fin = (.err (errKind e), nd1, r1)
    | .ok rd'' => ∃ r1, r1.bitIdx = rd''.pos ∧ w.toBits.drop r1.bitIdx = rd''.bits ∧ RInv w r1 ∧
        finishBatch nd1 w r0 i0 us fin =
          if fin && nd1.compressedBodySize * 8 != nd1.bitsProcessed + (rd''.pos - i0)
          then (.err "Corruption", nd1, r1)
          else (.ok (us, fin), { nd1 with nProcessed := nd1.nProcessed + us.length,
                                          bitsProcessed := nd1.bitsProcessed + (rd''.pos - i0) }, r1) := by
  have husz := usize_val
  -- the literal drain step against the abstract one
  have hdrain : match (if fin then Op.drainEmptyByte { bits := w.toBits.drop r0.bitIdx, pos := r0.bitIdx }
           else .ok { bits := w.toBits.drop r0.bitIdx, pos := r0.bitIdx }) with
      | .err e => e = .corrupt ∧ ∃ r1, (if fin then WB.drainEmptyByte w r0 else (.ok (), r0)) = (.err "Corruption", r1)
      | .ok rd'' => ∃ r1, (if fin then WB.drainEmptyByte w r0 else (.ok (), r0)) = (.ok (), r1)
          ∧ r1.bitIdx = rd''.pos ∧ w.toBits.drop r1.bitIdx = rd''.bits ∧ RInv w r1 ∧ r0.bitIdx ≤ r1.bitIdx := by
    cases fin with
    | false => exact ⟨r0, rfl, rfl, rfl, hr0, Nat.le_refl _⟩
    | true =>
      simp only [if_true]
      have h := drain_lit_abs hw hr0
      cases hd : Op.drainEmptyByte { bits := w.toBits.drop r0.bitIdx, pos := r0.bitIdx } with
      | err e => rw [hd] at h; exact h
      | ok rd'' =>
        rw [hd] at h
        obtain ⟨r1, e1, e2, e3, e4⟩ := h
        refine ⟨r1, e1, e2, e3, e4, ?_⟩
        obtain ⟨c, _, hc⟩ := drainEmptyByte_adv _ _ hd
        simp only at hc
        omega
  cases hfin : (if fin then Op.drainEmptyByte { bits := w.toBits.drop r0.bitIdx, pos := r0.bitIdx }
           else .ok { bits := w.toBits.drop r0.bitIdx, pos := r0.bitIdx }) with
  | err e =>
    rw [hfin] at hdrain
    obtain ⟨rfl, r1, e1⟩ := hdrain
    refine ⟨r1, ?_⟩
    unfold finishBatch
    rw [e1]
    rfl
  | ok rd'' =>
    rw [hfin] at hdrain
    obtain ⟨r1, e1, e2, e3, e4, e5⟩ := hdrain
    refine ⟨r1, e2, e3, e4, ?_⟩
    have hr1 := e4.pos_le
    unfold finishBatch
    rw [e1]
    simp only
    rw [if_neg (by omega), if_neg (by omega)]
    have hsub : nd1.bitsProcessed + r1.bitIdx - i0 = nd1.bitsProcessed + (rd''.pos - i0) := by omega
    rw [hsub]
    have hc : ¬ (nd1.compressedBodySize * 8 ≥ USIZE) := by omega
    simp only [hc, decide_false, Bool.and_false, Bool.false_eq_true, if_false]
    by_cases hchk : nd1.compressedBodySize * 8 = nd1.bitsProcessed + (rd''.pos - i0)
    · simp only [hchk, ne_eq, not_true_eq_false, decide_false, Bool.and_false, Bool.false_eq_true,
        if_false, bne_self_eq_false]
      rw [if_neg (by omega)]
    · cases fin with
      | false =>
        simp only [Bool.false_and, Bool.false_eq_true, if_false]
        rw [if_neg (by omega)]
      | true =>
        have hne : (nd1.compressedBodySize * 8 != nd1.bitsProcessed + (rd''.pos - i0)) = true := by
          simp [bne_iff_ne, hchk]
        simp only [Bool.true_and, hne, if_true, ne_eq, hchk, not_false_eq_true, decide_true]

/-! ### `decompress_unsigneds_limited` with the abstract position = the reader's bit index -/

/-- literal batch outcome `(result, self, reader)` against abstract `(result, state, reader)` at offset
`F` between the abstract position and the reader's bit index -/
def BatchRel (ub : Nat) (b : Body) (w : Words) (F : Nat)
    (lit : R (List Nat × Bool) × NumDecSt × Reader) (abs : Out UBatch × NumSt × Rd) : Prop :=
  lit.1 = outToR abs.1 ∧ NdRel ub lit.2.1 { b with st := abs.2.1 } ∧ F + lit.2.2.bitIdx = abs.2.2.pos
    ∧ w.toBits.drop lit.2.2.bitIdx = abs.2.2.bits ∧ RInv w lit.2.2

theorem dul_base (ub : Nat) (b : Body) (nd : NumDecSt) (hrel : NdRel ub nd b)
    (hps : PsOk ub b.ps ∨ (b.ps = [] ∧ b.n = 0)) (hn : b.n ≤ maxEntries)
    (hnp : b.st.nProcessed ≤ b.n) (hinc : IncOk b.ps b.st.inc) (hbody : b.bodyBytes < 2 ^ 32)
    (w : Words) (hw : w.WF) (hsz : 64 * w.ws.length + 1024 < USIZE)
    (hbp : b.st.bitsProcessed + w.total < USIZE) (r : Reader) (hr : RInv w r) (limit : Nat) (eoi : Bool) :
    BatchRel ub b w 0 (decompressUnsignedsLimited nd w r limit eoi)
      (numBatch matchStride b limit eoi { bits := w.toBits.drop r.bitIdx, pos := r.bitIdx }) := by
  have husz := usize_val
  have hme : maxEntries = 2 ^ 24 - 1 := rfl
  obtain ⟨dec, cbs, np, bp, inc⟩ := nd
  obtain ⟨h1, h2, h3, h4, h5⟩ := hrel
  simp only at h1 h2 h3 h4 h5
  subst h1 h2 h3 h4 h5
  have hD := dirty_refines ub b hps hn hnp hinc w hw hsz r hr limit eoi
  have hok := numBatchDirty_ok matchStride b limit eoi { bits := w.toBits.drop r.bitIdx, pos := r.bitIdx }
  have hadv := numBatchDirty_adv matchStride matchStride_ok.suffix b limit eoi
    { bits := w.toBits.drop r.bitIdx, pos := r.bitIdx }
  unfold decompressUnsignedsLimited
  rw [numBatch_eq]
  simp only at hD ⊢
  generalize decompressUnsignedsLimitedDirty (mkDec ub b.n b.ps) b.st.nProcessed b.st.inc limit eoi w r
    = o at hD ⊢
  generalize numBatchDirty matchStride b limit eoi { bits := w.toBits.drop r.bitIdx, pos := r.bitIdx }
    = A at hD hok hadv ⊢
  obtain ⟨oa, st0, rd0⟩ := A
  obtain ⟨d1, d2, d3, d4, d5⟩ := hD
  simp only at d1 d2 d3 d4 hadv
  have hself : NdRel ub ⟨mkDec ub b.n b.ps, b.bodyBytes, b.st.nProcessed, b.st.bitsProcessed, b.st.inc⟩
      { b with st := b.st } := ⟨rfl, rfl, rfl, rfl, rfl⟩
  cases oa with
  | err e =>
    rw [outToR_err] at d1
    rw [d1]
    exact ⟨(outToR_err e).symm, hself, Nat.zero_add _, rfl, hr⟩
  | ok ub0 =>
    rw [outToR_ok] at d1
    rw [d1]
    obtain ⟨k1, k2, k3, k4, k5, k6, k7⟩ := hok ub0 st0 rd0 rfl
    have hrd0 : rd0 = { bits := w.toBits.drop o.rd.bitIdx, pos := o.rd.bitIdx } := by
      cases rd0; simp only at d3 d4; simp only [Rd.mk.injEq]; exact ⟨d4.symm, d3.symm⟩
    obtain ⟨c, _, hc⟩ := hadv
    simp only at hc
    have hfb := finishBatch_spec hw ⟨mkDec ub b.n b.ps, b.bodyBytes, b.st.nProcessed, b.st.bitsProcessed, o.inc⟩
      o.rd d5 r.bitIdx (by omega) ub0.us ub0.finished
      (by show b.st.bitsProcessed + w.total < USIZE; omega)
      (by show b.bodyBytes < 2 ^ 32; omega)
      (by show b.st.nProcessed + ub0.us.length < USIZE; omega)
    unfold absFinish
    rw [hrd0]
    simp only
    cases hfin : (if ub0.finished then Op.drainEmptyByte { bits := w.toBits.drop o.rd.bitIdx, pos := o.rd.bitIdx }
        else .ok { bits := w.toBits.drop o.rd.bitIdx, pos := o.rd.bitIdx }) with
    | err e =>
      rw [hfin] at hfb
      obtain ⟨r1, e1⟩ := hfb
      rw [e1]
      exact ⟨(outToR_err e).symm, hself, Nat.zero_add _, rfl, hr⟩
    | ok rd'' =>
      rw [hfin] at hfb
      obtain ⟨r1, e1, e2, e3, e4⟩ := hfb
      rw [e4]
      simp only
      rw [k2]
      by_cases hchk : (ub0.finished && b.bodyBytes * 8 != b.st.bitsProcessed + (rd''.pos - r.bitIdx)) = true
      · rw [if_pos hchk, if_pos hchk]
        exact ⟨rfl, hself, Nat.zero_add _, rfl, hr⟩
      · rw [if_neg hchk, if_neg hchk]
        refine ⟨rfl, ⟨rfl, rfl, ?_, rfl, d2⟩, by rw [Nat.zero_add]; exact e1, e2, e3⟩
        show b.st.nProcessed + ub0.us.length = st0.nProcessed + ub0.us.length
        omega

/-! ### … and with a multiple of 64 (the freed bits) added to the abstract position -/

/-- **`decompress_unsigneds_limited` is `Op.numBatch matchStride`**, the abstract reader standing `F` bits
(a multiple of 64: what `free_compressed_memory` released) further than the literal one -/
theorem dul_refines (ub : Nat) (b : Body) (nd : NumDecSt) (hrel : NdRel ub nd b) (F : Nat)
    (hF : F % 64 = 0) (w : Words) (hw : w.WF) (r : Reader) (hr : RInv w r)
    (hok : BOk ub (F + r.bitIdx) b) (hsz : F + 128 * w.ws.length + 2 ^ 36 < USIZE) (limit : Nat)
    (eoi : Bool) :
    BatchRel ub b w F (decompressUnsignedsLimited nd w r limit eoi)
      (numBatch matchStride b limit eoi { bits := w.toBits.drop r.bitIdx, pos := F + r.bitIdx }) := by
  have husz := usize_val
  have hrp := hr.pos_le
  have htl := hw.total_le
  have hbl := hok.bits_le
  have hbase := dul_base ub b nd hrel hok.ps hok.n_le hok.np_le hok.inc hok.body_lt w hw (by omega)
    (by omega) r hr limit eoi
  have hshift : ({ bits := w.toBits.drop r.bitIdx, pos := F + r.bitIdx } : Rd)
      = Rd.shift { bits := w.toBits.drop r.bitIdx, pos := r.bitIdx } (F / 64) := by
    simp only [Rd.shift, Rd.mk.injEq, true_and]; omega
  rw [hshift, numBatch_shift]
  obtain ⟨e1, e2, e3, e4, e5⟩ := hbase
  refine ⟨e1, e2, ?_, e4, e5⟩
  simp only [Rd.shift]
  omega

/-! ### what a batch keeps of `BOk` -/

/-- a unit leaves a run of a prefix of the table with at least one repetition, or none -/
theorem unitL_incOk (L : Matcher) (hL : MatcherOk L) (ps : List Prefix) (st : PState)
    (hst : IncOk ps st.1) (s : Bits) (x : Nat) (st' : PState) (r : Bits)
    (h : unitL L (tableOf ps) st s = .ok (x, st') r) : IncOk ps st'.1 := by
  obtain ⟨ust, pos⟩ := st
  cases ust with
  | some pr =>
    obtain ⟨p, rem⟩ := pr
    have hp := hst p rem rfl
    unfold unitL at h
    obtain ⟨⟨off, ob⟩, r1, _, h2⟩ := bind_ok_h h
    obtain ⟨he, _⟩ := pure_ok h2
    simp only [Prod.mk.injEq] at he
    obtain ⟨_, rfl⟩ := he
    intro p' R' hh
    simp only at hh
    split at hh
    · cases hh
    · simp only [Option.some.injEq, Prod.mk.injEq] at hh
      obtain ⟨rfl, rfl⟩ := hh
      exact ⟨hp.1, by omega⟩
  | none =>
    unfold unitL at h
    obtain ⟨p, r0, h0, h1⟩ := bind_ok_h h
    have hp : p < ps.length := by
      have := hL.index_lt _ _ _ _ _ h0
      rwa [tableOf_codes_length] at this
    cases hj : ((tableOf ps).info p).jump with
    | none =>
      simp only [hj] at h1
      obtain ⟨⟨off, ob⟩, r1, _, h3⟩ := bind_ok_h h1
      obtain ⟨he, _⟩ := pure_ok h3
      simp only [Prod.mk.injEq] at he
      obtain ⟨_, rfl⟩ := he
      exact nd_incOk_none ps
    | some j =>
      simp only [hj] at h1
      obtain ⟨⟨m, vb⟩, r1, _, h3⟩ := bind_ok_h h1
      obtain ⟨⟨off, ob⟩, r2, _, h5⟩ := bind_ok_h h3
      obtain ⟨he, _⟩ := pure_ok h5
      simp only [Prod.mk.injEq] at he
      obtain ⟨_, rfl⟩ := he
      intro p' R' hh
      simp only at hh
      split at hh
      · cases hh
      · simp only [Option.some.injEq, Prod.mk.injEq] at hh
        obtain ⟨rfl, rfl⟩ := hh
        exact ⟨hp, by omega⟩

theorem numBatchDirty_incOk (L : Matcher) (hL : MatcherOk L) (b : Body) (hinc : IncOk b.ps b.st.inc)
    (limit : Nat) (eoi : Bool) (rd : Rd) : IncOk b.ps (numBatchDirty L b limit eoi rd).2.1.inc := by
  unfold numBatchDirty
  simp only
  split
  · exact hinc
  · have hs := (drainR_forall (unitL L (tableOf b.ps)) (fun st => IncOk b.ps st.1) (fun _ => True)
      (fun st s x st' r hst h => ⟨trivial, unitL_incOk L hL b.ps st hst s x st' r h⟩)
      (min (b.n - b.st.nProcessed) limit) (b.st.inc, rd.pos) rd.bits hinc).2
    generalize drainR (unitL L (tableOf b.ps)) (min (b.n - b.st.nProcessed) limit)
      (b.st.inc, rd.pos) rd.bits = res at hs ⊢
    obtain ⟨us, ps', r, why⟩ := res
    simp only at hs ⊢
    split
    · exact hs
    · split <;> exact hs
    · exact hs

/-- what `numBatch` keeps: `n_processed ≤ n`, a good `incomplete_prefix`, and the processed bits stay
below the (new) position -/
theorem numBatch_keeps (ub : Nat) (b : Body) (rd : Rd) (hok : BOk ub rd.pos b) (limit : Nat) (eoi : Bool) :
    (numBatch matchStride b limit eoi rd).2.1.nProcessed ≤ b.n ∧
    IncOk b.ps (numBatch matchStride b limit eoi rd).2.1.inc ∧
    (numBatch matchStride b limit eoi rd).2.1.bitsProcessed ≤ (numBatch matchStride b limit eoi rd).2.2.pos ∧
    rd.pos ≤ (numBatch matchStride b limit eoi rd).2.2.pos := by
  have h1 := (C07.nProcessed_le matchStride b limit eoi rd hok.np_le).1
  have hdi := numBatchDirty_incOk matchStride matchStride_ok b hok.inc limit eoi rd
  have hdo := numBatchDirty_ok matchStride b limit eoi rd
  have hda := numBatchDirty_adv matchStride matchStride_ok.suffix b limit eoi rd
  obtain ⟨c0, _, hc0⟩ := numBatch_adv matchStride matchStride_ok.suffix b limit eoi rd
  refine ⟨h1, ?_, ?_, by omega⟩
  · rw [numBatch_eq]
    generalize numBatchDirty matchStride b limit eoi rd = A at hdi hdo hda ⊢
    obtain ⟨oa, st0, rd0⟩ := A
    cases oa with
    | err e => exact hok.inc
    | ok ub0 =>
      simp only [absFinish]
      split
      · exact hok.inc
      · split
        · exact hok.inc
        · exact hdi
  · have hbl := hok.bits_le
    rw [numBatch_eq]
    generalize numBatchDirty matchStride b limit eoi rd = A at hdi hdo hda ⊢
    obtain ⟨oa, st0, rd0⟩ := A
    cases oa with
    | err e => exact hbl
    | ok ub0 =>
      obtain ⟨k1, k2, _⟩ := hdo ub0 st0 rd0 rfl
      obtain ⟨c, _, hc⟩ := hda
      simp only at hc
      simp only [absFinish]
      split
      · exact hbl
      · rename_i rd'' hfin
        have hge : rd0.pos ≤ rd''.pos := by
          split at hfin
          · obtain ⟨c', _, hc'⟩ := drainEmptyByte_adv _ _ hfin
            omega
          · simp only [Out.ok.injEq] at hfin
            rw [← hfin]; exact Nat.le_refl _
        split
        · exact hbl
        · simp only
          omega

end Qco.DecompLit
