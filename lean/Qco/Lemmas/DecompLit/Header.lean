/-
Layer DL, part 4: the two aligned readers of `decompressor.rs` — `read_header` is `decHeader` and
`read_chunk_meta` is `Op.readChunkMeta` (under `Op.runAligned`: a misaligned reader is refused with
`InvalidArgument` by the first `read_aligned_bytes`).
-/
import Qco.Lemmas.DecompLit.Rel
import Qco.Lemmas.DecompLit.AlignedBytes
import Qco.Lemmas.Hostile
namespace Qco.DecompLit
open Qco Qco.WB Qco.Op Qco.MetaIO Qco.Parser

theorem usize_val' : USIZE = 18446744073709551616 := rfl

/-! ### bytes and numbers -/

theorem readNat_def (n : Nat) (s : Bits) :
    readNat n s = if s.length < n then .insufficient else .ok (bitsNat (s.take n)) (s.drop n) := by
  unfold readNat
  rw [readBits_def]
  by_cases h : s.length < n
  · rw [if_pos h, if_pos h]
  · rw [if_neg h, if_neg h]

theorem bitsNat_take8_lt (s : Bits) : bitsNat (s.take 8) < 256 := by
  have h := bitsNat_lt (s.take 8)
  have : (s.take 8).length ≤ 8 := by rw [List.length_take]; omega
  have := Nat.pow_le_pow_right (by decide : 0 < 2) this
  omega

/-- the four magic bytes are the 32-bit number `0x71636f21` -/
theorem bitsBytes_magic (s : Bits) (h : 32 ≤ s.length) :
    bitsBytes 4 s = Frozen.magicHeader ↔ bitsNat (s.take 32) = 0x71636f21 := by
  have e : s.take 32 = s.take 8 ++ ((s.drop 8).take 8 ++ (((s.drop 8).drop 8).take 8
      ++ (((s.drop 8).drop 8).drop 8).take 8)) := by
    rw [show (32 : Nat) = 8 + 24 from rfl, List.take_add, show (24 : Nat) = 8 + 16 from rfl, List.take_add,
      show (16 : Nat) = 8 + 8 from rfl, List.take_add]
  have l1 : ((s.drop 8).take 8).length = 8 := by simp only [List.length_take, List.length_drop]; omega
  have l2 : (((s.drop 8).drop 8).take 8).length = 8 := by
    simp only [List.length_take, List.length_drop]; omega
  have l3 : ((((s.drop 8).drop 8).drop 8).take 8).length = 8 := by
    simp only [List.length_take, List.length_drop]; omega
  have b0 := bitsNat_take8_lt s
  have b1 := bitsNat_take8_lt (s.drop 8)
  have b2 := bitsNat_take8_lt ((s.drop 8).drop 8)
  have b3 := bitsNat_take8_lt (((s.drop 8).drop 8).drop 8)
  rw [e, bitsNat_append, bitsNat_append, bitsNat_append]
  simp only [List.length_append, l1, l2, l3]
  show [bitsNat (s.take 8), bitsNat ((s.drop 8).take 8), bitsNat (((s.drop 8).drop 8).take 8),
    bitsNat ((((s.drop 8).drop 8).drop 8).take 8)] = [113, 99, 111, 33] ↔ _
  simp only [List.cons.injEq, and_true]
  omega

theorem bitsBytes_one (s : Bits) : (bitsBytes 1 s)[0]? = some (bitsNat (s.take 8)) := rfl

/-! ### from `Matches` to the reader of the abstract operations -/

/-- literal `(result, reader)` against `Op.runParser`/`Op.runAligned` at offset `F` -/
def RunRel {α β : Type} (ts : Prop) (rel : α → β → Prop) (w : Words) (F i0 : Nat)
    (lit : R α × Reader) (abs : Out (β × Rd)) : Prop :=
  match lit, abs with
  | (.ok a, r'), .ok (b, rd') =>
    rel a b ∧ RInv w r' ∧ F + r'.bitIdx = rd'.pos ∧ w.toBits.drop r'.bitIdx = rd'.bits ∧ i0 ≤ r'.bitIdx
  | (.err k, _), .err e => ErrRel ts k e
  | _, _ => False

theorem runRel_of_matches {α β : Type} {ts : Prop} {w : Words} (hw : w.WF) {r : Reader} (hr : RInv w r)
    (g : β → α) (p : Parser β) {m : R α × Reader}
    (hm : Matches w ts r (Parser.map g p (w.toBits.drop r.bitIdx)) m) (F : Nat) :
    RunRel ts (fun a b => a = g b) w F r.bitIdx m
      (runParser p { bits := w.toBits.drop r.bitIdx, pos := F + r.bitIdx }) := by
  obtain ⟨h1, h2, h3⟩ := hm
  obtain ⟨mo, mr⟩ := m
  simp only at h1 h2 h3
  unfold Parser.map Parser.bind at h3
  unfold runParser RunRel
  cases hp : p (w.toBits.drop r.bitIdx) with
  | ok a rest =>
    rw [hp] at h3
    simp only [Parser.pure] at h3
    obtain ⟨e1, e2⟩ := h3
    subst e1
    show _ = _ ∧ _
    refine ⟨rfl, h1, ?_, e2.symm, h2⟩
    have := h1.pos_le
    have := hr.pos_le
    simp only [Rd.advance, e2, List.length_drop, hw.toBits_length]
    omega
  | insufficient =>
    rw [hp] at h3
    replace h3 : mo = .err "InsufficientData" := h3
    subst h3
    exact rfl
  | corrupt =>
    rw [hp] at h3
    obtain ⟨k, hk, e⟩ := h3
    replace e : mo = .err k := e
    subst e
    exact hk
  | compat =>
    rw [hp] at h3
    replace h3 : mo = .err "Compatibility" := h3
    subst h3
    exact rfl

theorem map_id {α : Type} (p : Parser α) (s : Bits) : Parser.map (fun a => a) p s = p s := by
  unfold Parser.map Parser.bind
  cases p s <;> rfl

/-! ### `read_header` -/

/-- `read_header` from an aligned position is `decHeader` -/
theorem readHeader_matches {w : Words} (hw : w.WF) (hsz : w.total + 256 < USIZE) (d : DType) {r : Reader}
    (hr : RInv w r) (hal : r.bitIdx % 8 = 0) :
    Matches w False r (decHeader d (w.toBits.drop r.bitIdx)) (readHeader d w r) := by
  have husz := usize_val'
  have hp := hr.pos_le
  have hlen : (w.toBits.drop r.bitIdx).length = w.total - r.bitIdx := by
    rw [List.length_drop, hw.toBits_length]
  obtain ⟨a1, a2, _, a4, a5⟩ := readAlignedBytes_spec hw hr 4 (by omega)
  unfold readHeader decHeader Parser.bind
  show Matches w False r _ (match readAlignedBytes w r 4 with
    | (.err k, r1) => (.err k, r1)
    | (.panic, r1) => (.panic, r1)
    | (.ok bytes, r1) => _)
  rw [readNat_def]
  by_cases h32 : w.total < r.bitIdx + 8 * 4
  · rw [a4 hal h32, if_pos (by omega)]
    exact ⟨a1, Nat.le_of_eq a2.symm, rfl⟩
  · rw [a5 hal (by omega), if_neg (by omega)]
    simp only
    have hmag := bitsBytes_magic (w.toBits.drop r.bitIdx) (by omega)
    have hr1 : RInv w (Reader.seekTo (r.bitIdx + 8 * 4)) := rinv_seekTo (by omega)
    by_cases hm : bitsNat ((w.toBits.drop r.bitIdx).take 32) = 0x71636f21
    · rw [if_neg (show ¬ (bitsNat ((w.toBits.drop r.bitIdx).take 32) ≠ 0x71636f21) from fun h => h hm),
        if_neg (show ¬ (bitsBytes 4 (w.toBits.drop r.bitIdx) ≠ Frozen.magicHeader) from
          fun h => h (hmag.2 hm))]
      obtain ⟨c1, c2, _, c4, c5⟩ := readAlignedBytes_spec hw hr1 1 (by omega)
      rw [seekTo_bitIdx] at c2 c4 c5
      rw [readNat_def]
      have hlen2 : ((w.toBits.drop r.bitIdx).drop 32).length = w.total - r.bitIdx - 32 := by
        rw [List.length_drop, hlen]
      by_cases h8 : w.total < r.bitIdx + 8 * 4 + 8 * 1
      · rw [c4 (by omega) h8, if_pos (by omega)]
        refine ⟨c1, ?_, rfl⟩
        show r.bitIdx ≤ (Reader.seekTo (r.bitIdx + 8 * 4)).refresh.bitIdx
        rw [c2]; omega
      · rw [c5 (by omega) (by omega), if_neg (by omega)]
        simp only
        have hdd : w.toBits.drop (r.bitIdx + 8 * 4) = (w.toBits.drop r.bitIdx).drop 32 := by
          rw [List.drop_drop]
        rw [hdd, bitsBytes_one]
        simp only
        by_cases hb : bitsNat (((w.toBits.drop r.bitIdx).drop 32).take 8) = d.headerByte
        · rw [if_neg (show ¬ (bitsNat (((w.toBits.drop r.bitIdx).drop 32).take 8) ≠ d.headerByte) from
              fun h => h hb),
            if_neg (show ¬ (bitsNat (((w.toBits.drop r.bitIdx).drop 32).take 8) ≠ d.headerByte) from
              fun h => h hb)]
          have hr2 : RInv w (Reader.seekTo (r.bitIdx + 8 * 4 + 8 * 1)) := rinv_seekTo (by omega)
          have hf := flags_parse_spec hw hsz hr2
            (by show (r.bitIdx + 8 * 4 + 8 * 1) % 64 % 8 = 0; omega)
          rw [seekTo_bitIdx] at hf
          have hdd2 : w.toBits.drop (r.bitIdx + 8 * 4 + 8 * 1) = ((w.toBits.drop r.bitIdx).drop 32).drop 8 := by
            rw [List.drop_drop, List.drop_drop]
          rw [hdd2] at hf
          obtain ⟨f1, f2, f3⟩ := hf
          rw [seekTo_bitIdx] at f2
          exact ⟨f1, by omega, f3⟩
        · rw [if_pos hb, if_pos hb]
          exact ⟨rinv_seekTo (by omega), by rw [seekTo_bitIdx]; omega, "Corruption", Or.inl rfl, rfl⟩
    · rw [if_pos hm, if_pos (show bitsBytes 4 (w.toBits.drop r.bitIdx) ≠ Frozen.magicHeader from
        fun h => hm (hmag.1 h))]
      exact ⟨hr1, by rw [seekTo_bitIdx]; omega, "Corruption", Or.inl rfl, rfl⟩

/-- `read_header` from a misaligned position: `InvalidArgument`, nothing read -/
theorem readHeader_misaligned {w : Words} (hw : w.WF) (hsz : w.total + 256 < USIZE) (d : DType)
    {r : Reader} (hr : RInv w r) (hal : r.bitIdx % 8 ≠ 0) :
    readHeader d w r = (.err "InvalidArgument", r.refresh) := by
  have husz := usize_val'
  obtain ⟨_, _, a3, _, _⟩ := readAlignedBytes_spec hw hr 4 (by omega)
  unfold readHeader
  show (match readAlignedBytes w r 4 with
    | (R.err k, r1) => (R.err k, r1)
    | (R.panic, r1) => (R.panic, r1)
    | (R.ok bytes, r1) => _) = _
  rw [a3 hal]

/-- **`read_header` against `runAligned (decHeader d)`** -/
theorem readHeader_run {w : Words} (hw : w.WF) (hsz : w.total + 256 < USIZE) (d : DType) {r : Reader}
    (hr : RInv w r) (F : Nat) (hF : F % 64 = 0) :
    RunRel False (fun a b => a = b) w F r.bitIdx (readHeader d w r)
      (runAligned (decHeader d) { bits := w.toBits.drop r.bitIdx, pos := F + r.bitIdx }) := by
  unfold runAligned
  by_cases hal : r.bitIdx % 8 = 0
  · rw [if_neg (by simp only; omega)]
    have hm := readHeader_matches hw hsz d hr hal
    rw [← map_id (decHeader d)] at hm
    exact runRel_of_matches hw hr (fun a => a) (decHeader d) hm F
  · rw [if_pos (by simp only; omega), readHeader_misaligned hw hsz d hr hal]
    exact rfl

/-! ### `read_chunk_meta` -/

/-- `read_chunk_meta` from an aligned position is `Op.readChunkMeta` (the metadata up to
`RMeta.ofSpec`: the literal struct does not keep the common-GCD field) -/
theorem readChunkMeta_matches {w : Words} (hw : w.WF) (hsz : w.total + 256 < USIZE) {gb : Nat → Nat}
    {d : DType} (hd : Std d) (hds : Std d.signed) (hgb : ∀ x, gb x ≤ d.uBits) (fl : Flags) {r : Reader}
    (hr : RInv w r) (hal : r.bitIdx % 8 = 0) :
    Matches w (d.kind = .ts96) r
      (Parser.map (Option.map (RMeta.ofSpec fl)) (Op.readChunkMeta gb d fl) (w.toBits.drop r.bitIdx))
      (DecompLit.readChunkMeta gb d fl w r) := by
  have husz := usize_val'
  have hp := hr.pos_le
  have hlen : (w.toBits.drop r.bitIdx).length = w.total - r.bitIdx := by
    rw [List.length_drop, hw.toBits_length]
  obtain ⟨a1, a2, _, a4, a5⟩ := readAlignedBytes_spec hw hr 1 (by omega)
  unfold DecompLit.readChunkMeta Op.readChunkMeta Parser.map Parser.bind
  rw [readNat_def]
  by_cases h8 : w.total < r.bitIdx + 8 * 1
  · rw [a4 hal h8, if_pos (by omega)]
    exact ⟨a1, Nat.le_of_eq a2.symm, rfl⟩
  · rw [a5 hal (by omega), if_neg (by omega)]
    simp only
    rw [bitsBytes_one]
    simp only
    have hr1 : RInv w (Reader.seekTo (r.bitIdx + 8 * 1)) := rinv_seekTo (by omega)
    have hdd : (w.toBits.drop r.bitIdx).drop 8 = w.toBits.drop (r.bitIdx + 8 * 1) := by
      rw [List.drop_drop]
    by_cases ht : bitsNat ((w.toBits.drop r.bitIdx).take 8) = Frozen.magicTerminationByte
    · rw [if_pos ht, if_pos ht]
      refine ⟨hr1, by rw [seekTo_bitIdx]; omega, rfl, ?_⟩
      show (w.toBits.drop r.bitIdx).drop 8 = w.toBits.drop (Reader.seekTo (r.bitIdx + 8 * 1)).bitIdx
      rw [seekTo_bitIdx, hdd]
    · rw [if_neg ht, if_neg ht]
      by_cases hc : bitsNat ((w.toBits.drop r.bitIdx).take 8) = Frozen.magicChunkByte
      · rw [if_pos hc, if_neg (show ¬ (bitsNat ((w.toBits.drop r.bitIdx).take 8) ≠ Frozen.magicChunkByte)
          from fun h => h hc)]
        have hpf := parseFrom_spec hw hsz hd hds hgb fl hr1 (by rw [seekTo_bitIdx]; omega)
        rw [seekTo_bitIdx] at hpf
        obtain ⟨p1, p2, p3⟩ := hpf
        rw [hdd]
        generalize parseFromDrain gb d fl w (Reader.seekTo (r.bitIdx + 8 * 1)) = PD at p1 p2 p3 ⊢
        obtain ⟨po, pr⟩ := PD
        simp only at p1 p2 p3
        cases hdm : decChunkMeta gb d fl (w.toBits.drop (r.bitIdx + 8 * 1)) with
        | ok m rest =>
          rw [hdm] at p3
          obtain ⟨e1, e2⟩ := p3
          subst e1
          exact ⟨p1, (by show r.bitIdx ≤ pr.bitIdx; omega), rfl, e2⟩
        | insufficient =>
          rw [hdm] at p3
          subst p3
          exact ⟨p1, (by show r.bitIdx ≤ pr.bitIdx; omega), rfl⟩
        | corrupt =>
          rw [hdm] at p3
          rcases p3 with e | ⟨t1, _, e⟩
          · subst e
            exact ⟨p1, (by show r.bitIdx ≤ pr.bitIdx; omega), "Corruption", Or.inl rfl, rfl⟩
          · subst e
            exact ⟨p1, (by show r.bitIdx ≤ pr.bitIdx; omega), "InvalidArgument", Or.inr ⟨t1, rfl⟩, rfl⟩
        | compat =>
          rw [hdm] at p3
          subst p3
          exact ⟨p1, (by show r.bitIdx ≤ pr.bitIdx; omega), rfl⟩
      · rw [if_neg hc, if_pos (show bitsNat ((w.toBits.drop r.bitIdx).take 8) ≠ Frozen.magicChunkByte from hc)]
        exact ⟨hr1, by rw [seekTo_bitIdx]; omega, "Corruption", Or.inl rfl, rfl⟩

theorem readChunkMeta_misaligned {w : Words} (hw : w.WF) (hsz : w.total + 256 < USIZE) (gb : Nat → Nat)
    (d : DType) (fl : Flags) {r : Reader} (hr : RInv w r) (hal : r.bitIdx % 8 ≠ 0) :
    DecompLit.readChunkMeta gb d fl w r = (.err "InvalidArgument", r.refresh) := by
  have husz := usize_val'
  obtain ⟨_, _, a3, _, _⟩ := readAlignedBytes_spec hw hr 1 (by omega)
  unfold DecompLit.readChunkMeta
  rw [a3 hal]

/-- **`read_chunk_meta` against `runAligned (Op.readChunkMeta gb d fl)`** -/
theorem readChunkMeta_run {w : Words} (hw : w.WF) (hsz : w.total + 256 < USIZE) {gb : Nat → Nat}
    {d : DType} (hd : Std d) (hds : Std d.signed) (hgb : ∀ x, gb x ≤ d.uBits) (fl : Flags) {r : Reader}
    (hr : RInv w r) (F : Nat) (hF : F % 64 = 0) :
    RunRel (d.kind = .ts96) (fun a b => a = b.map (RMeta.ofSpec fl)) w F r.bitIdx
      (DecompLit.readChunkMeta gb d fl w r)
      (runAligned (Op.readChunkMeta gb d fl) { bits := w.toBits.drop r.bitIdx, pos := F + r.bitIdx }) := by
  unfold runAligned
  by_cases hal : r.bitIdx % 8 = 0
  · rw [if_neg (by simp only; omega)]
    exact runRel_of_matches hw hr (Option.map (RMeta.ofSpec fl)) (Op.readChunkMeta gb d fl)
      (readChunkMeta_matches hw hsz hd hds hgb fl hr hal) F
  · rw [if_pos (by simp only; omega), readChunkMeta_misaligned hw hsz gb d fl hr hal]
    exact rfl

end Qco.DecompLit
