/-
Layer DL, part 11: the operations of the API as one step function on each model (`litStep`, `absStep`),
the relation on their results (`OutRel`), the refinement of every step (`step_refines`), and histories
(`hist_from`: from related states, with room for the words the history writes).
-/
import Qco.Lemmas.DecompLit.Simple
namespace Qco
namespace DecompLit
open Qco.WB Qco.Op Qco.MetaIO

/-! ### the operations of the API, uniformly -/

/-- an operation of the public API -/
inductive DOp where
  | write (bytes : List Nat)
  | header
  | chunkMetadata
  | skipChunkBody
  | chunkBody
  | next (limit : Nat)
  | free
  | simpleDecompress
  | bitIdx
  deriving Repr

/-- what an operation of the literal model returns -/
inductive LOut where
  | unit
  | flags (f : Flags)
  | meta_ (m : Option RMeta)
  | nums (xs : List Nat)
  | item (i : Option DecompLit.Item)
  | idx (n : Nat)
  deriving Repr

/-- what an operation of the abstract model returns -/
inductive AOut where
  | unit
  | flags (f : Flags)
  | meta_ (m : Option ChunkMeta)
  | nums (xs : List Nat)
  | item (i : Option Op.Item)
  | idx (n : Nat)
  deriving Repr

def mapR {α β : Type} (f : α → β) : R α → R β
  | .ok a => .ok (f a)
  | .err k => .err k
  | .panic => .panic

def mapOut {α β : Type} (f : α → β) : Out α → Out β
  | .ok a => .ok (f a)
  | .err e => .err e

/-- one operation on the literal `Decompressor` -/
def litStep (gb : Nat → Nat) (d : DType) : DOp → LitSt → R LOut × LitSt
  | .write bytes, σ => (.ok .unit, DecompLit.write σ bytes)
  | .header, σ => (mapR .flags (DecompLit.header d σ).1, (DecompLit.header d σ).2)
  | .chunkMetadata, σ => (mapR .meta_ (DecompLit.chunkMetadata gb d σ).1, (DecompLit.chunkMetadata gb d σ).2)
  | .skipChunkBody, σ => (mapR (fun _ => .unit) (DecompLit.skipChunkBody σ).1, (DecompLit.skipChunkBody σ).2)
  | .chunkBody, σ => (mapR .nums (DecompLit.chunkBody d σ).1, (DecompLit.chunkBody d σ).2)
  | .next limit, σ => (mapR .item (DecompLit.next gb d limit σ).1, (DecompLit.next gb d limit σ).2)
  | .free, σ => (mapR (fun _ => .unit) (DecompLit.free σ).1, (DecompLit.free σ).2)
  | .simpleDecompress, σ =>
    (mapR .nums (DecompLit.simpleDecompress gb d σ).1, (DecompLit.simpleDecompress gb d σ).2)
  | .bitIdx, σ => (.ok (.idx (DecompLit.bitIdx σ)), σ)

/-- the same operation on the abstract decompressor (`L := matchStride`) -/
def absStep (gb : Nat → Nat) (d : DType) : DOp → Op.St → Out AOut × Op.St
  | .write bytes, σ => (.ok .unit, Op.write σ (bytesBits bytes))
  | .header, σ => (mapOut .flags (Op.header d σ).1, (Op.header d σ).2)
  | .chunkMetadata, σ => (mapOut .meta_ (Op.chunkMetadata gb d σ).1, (Op.chunkMetadata gb d σ).2)
  | .skipChunkBody, σ => (mapOut (fun _ => .unit) (Op.skipChunkBody σ).1, (Op.skipChunkBody σ).2)
  | .chunkBody, σ => (mapOut .nums (Op.chunkBody matchStride d σ).1, (Op.chunkBody matchStride d σ).2)
  | .next limit, σ =>
    (mapOut .item (Op.next matchStride gb d limit σ).1, (Op.next matchStride gb d limit σ).2)
  | .free, σ => (.ok .unit, Op.free σ)
  | .simpleDecompress, σ =>
    (mapOut .nums (Op.simpleDecompress matchStride gb d σ).1, (Op.simpleDecompress matchStride gb d σ).2)
  | .bitIdx, σ => (.ok (.idx σ.bitIdx), σ)

/-- "the same result": equal flags, numbers, bit index; metadata equal up to `RMeta.ofSpec` (the literal
`ChunkMetadata` struct does not keep the common-GCD field of the format; `fl` are the decompressor's
flags); items likewise (`ItemRel`) -/
def OutRel (fl : Option Flags) : LOut → AOut → Prop
  | .unit, .unit => True
  | .flags f, .flags f' => f = f'
  | .meta_ m, .meta_ m' => MetaRel fl m m'
  | .nums xs, .nums ys => xs = ys
  | .item i, .item i' => ItemRel fl i i'
  | .idx n, .idx n' => n = n'
  | _, _ => False

/-- the side-condition on an operation: written bytes are bytes -/
def OpOk : DOp → Prop
  | .write bytes => ∀ b ∈ bytes, b < 256
  | _ => True

instance : DecidablePred OpOk := fun op =>
  match op with
  | .write bytes => inferInstanceAs (Decidable (∀ b ∈ bytes, b < 256))
  | .header => isTrue trivial
  | .chunkMetadata => isTrue trivial
  | .skipChunkBody => isTrue trivial
  | .chunkBody => isTrue trivial
  | .next _ => isTrue trivial
  | .free => isTrue trivial
  | .simpleDecompress => isTrue trivial
  | .bitIdx => isTrue trivial

theorem resRel_map {α β : Type} {ts : Prop} {rel : α → β → Prop} {fl : Option Flags} (f : α → LOut)
    (g : β → AOut) (hfg : ∀ a b, rel a b → OutRel fl (f a) (g b)) {x : R α} {y : Out β}
    (h : ResRel ts rel x y) : ResRel ts (OutRel fl) (mapR f x) (mapOut g y) := by
  cases x with
  | ok a => cases y with
    | ok b => exact hfg a b h
    | err e => exact h
  | err k => cases y with
    | ok b => exact h
    | err e => exact h
  | panic => cases y <;> exact h


/-- every step of the literal model refines the abstract step -/
theorem step_refines {d : DType} (hd : d ∈ Frozen.dtypes) {gb : Nat → Nat}
    (hgb : ∀ x, gb x ≤ d.uBits) (op : DOp) (hop : OpOk op) {lit : LitSt} {abs : Op.St}
    (h : Sim d lit abs) (hs : SizeOk lit abs) :
    ResRel (d.kind = .ts96) (OutRel abs.flags) (litStep gb d op lit).1 (absStep gb d op abs).1 ∧
      Sim d (litStep gb d op lit).2 (absStep gb d op abs).2 := by
  have hdok := dok_of_mem hd
  cases op with
  | write bytes => exact ⟨trivial, write_refines h bytes hop⟩
  | header =>
    obtain ⟨h1, h2⟩ := header_refines h hs
    exact ⟨resRel_map _ _ (fun _ _ hab => hab) (h1.mono False.elim), h2⟩
  | chunkMetadata =>
    obtain ⟨h1, h2⟩ := chunkMetadata_refines hdok hgb h hs
    exact ⟨resRel_map _ _ (fun _ _ hab => hab) h1, h2⟩
  | skipChunkBody =>
    obtain ⟨h1, h2⟩ := skipChunkBody_refines h hs
    exact ⟨resRel_map (fun _ => LOut.unit) (fun _ => AOut.unit) (fun _ _ _ => trivial) (h1.mono False.elim), h2⟩
  | chunkBody =>
    obtain ⟨h1, h2⟩ := chunkBody_refines h hs
    exact ⟨resRel_map _ _ (fun _ _ hab => hab) (h1.mono False.elim), h2⟩
  | next limit =>
    obtain ⟨h1, h2⟩ := next_refines hdok hgb limit h hs
    exact ⟨resRel_map _ _ (fun _ _ hab => hab) h1, h2⟩
  | free =>
    obtain ⟨h1, h2⟩ := free_refines h
    refine ⟨?_, h2⟩
    show ResRel _ _ (mapR (fun _ => LOut.unit) (DecompLit.free lit).1) (.ok AOut.unit)
    rw [h1]
    exact trivial
  | simpleDecompress =>
    obtain ⟨h1, h2⟩ := simpleDecompress_refines hdok hgb h hs
    exact ⟨resRel_map _ _ (fun _ _ hab => hab) h1, h2⟩
  | bitIdx => exact ⟨bitIdx_refines h, h⟩

/-! ### histories -/

/-- the words an operation may add: `write(bytes)` adds at most `len / 8 + 1` words -/
def opWords : DOp → Nat
  | .write bytes => bytes.length / 8 + 1
  | _ => 0

def histWords (ops : List DOp) : Nat := (ops.map opWords).sum

/-- the outputs of the two models agree along a history -/
def HistRel (gb : Nat → Nat) (d : DType) : List DOp → LitSt → Op.St → Prop
  | [], _, _ => True
  | op :: ops, lit, abs =>
    ResRel (d.kind = .ts96) (OutRel abs.flags) (litStep gb d op lit).1 (absStep gb d op abs).1 ∧
    HistRel gb d ops (litStep gb d op lit).2 (absStep gb d op abs).2

theorem step_size {gb : Nat → Nat} {d : DType} (op : DOp) (hop : OpOk op) {lit : LitSt} {abs : Op.St}
    (h : Sim d lit abs) (k : Nat)
    (hs : abs.freed + 128 * (lit.words.ws.length + opWords op + k) + 2 ^ 36 < USIZE) :
    (absStep gb d op abs).2.freed + 128 * ((litStep gb d op lit).2.words.ws.length + k) + 2 ^ 36 < USIZE := by
  cases op with
  | write bytes =>
    show abs.freed + 128 * ((lit.words.extend bytes).ws.length + k) + 2 ^ 36 < USIZE
    have hl := h.wf.len
    have hl' := (extend_spec h.wf hop).1.len
    have ht : (lit.words.extend bytes).total = lit.words.total + 8 * bytes.length := rfl
    have : opWords (.write bytes) = bytes.length / 8 + 1 := rfl
    rw [this] at hs
    omega
  | header =>
    show (Op.header d abs).2.freed + 128 * ((DecompLit.header d lit).2.words.ws.length + k) + 2 ^ 36 < USIZE
    rw [op_header_freed, header_words]; exact hs
  | chunkMetadata =>
    show (Op.chunkMetadata gb d abs).2.freed
      + 128 * ((DecompLit.chunkMetadata gb d lit).2.words.ws.length + k) + 2 ^ 36 < USIZE
    rw [op_chunkMetadata_freed, chunkMetadata_words]; exact hs
  | skipChunkBody =>
    show (Op.skipChunkBody abs).2.freed + 128 * ((DecompLit.skipChunkBody lit).2.words.ws.length + k)
      + 2 ^ 36 < USIZE
    rw [op_skipChunkBody_freed, skipChunkBody_words]; exact hs
  | chunkBody =>
    show (Op.chunkBody matchStride d abs).2.freed + 128 * ((DecompLit.chunkBody d lit).2.words.ws.length + k)
      + 2 ^ 36 < USIZE
    rw [op_chunkBody_freed, chunkBody_words]; exact hs
  | next limit =>
    show (Op.next matchStride gb d limit abs).2.freed
      + 128 * ((DecompLit.next gb d limit lit).2.words.ws.length + k) + 2 ^ 36 < USIZE
    rw [op_next_freed, next_words]; exact hs
  | free =>
    have hb : abs.bitIdx = lit.state.bitIdx := by
      have := h.pos; unfold St.bitIdx; omega
    have hlen := h.wf.len
    have hidx := h.idx_le
    show (Op.free abs).freed + 128 * ((DecompLit.free lit).2.words.ws.length + k) + 2 ^ 36 < USIZE
    unfold Op.free DecompLit.free
    simp only
    rw [hb]
    by_cases hk : lit.state.bitIdx / 64 > 0
    · rw [if_pos hk, truncateLeftR_ok (by omega) h.wf]
      simp only
      rw [if_neg (by omega)]
      show abs.freed + 64 * (lit.state.bitIdx / 64)
        + 128 * ((lit.words.ws.drop (lit.state.bitIdx / 64)).length + k) + 2 ^ 36 < USIZE
      rw [List.length_drop]
      have : opWords DOp.free = 0 := rfl
      rw [this] at hs
      omega
    · rw [if_neg hk]
      show abs.freed + 64 * (lit.state.bitIdx / 64) + 128 * (lit.words.ws.length + k) + 2 ^ 36 < USIZE
      have : opWords DOp.free = 0 := rfl
      rw [this] at hs
      omega
  | simpleDecompress =>
    show (Op.simpleDecompress matchStride gb d abs).2.freed
      + 128 * ((DecompLit.simpleDecompress gb d lit).2.words.ws.length + k) + 2 ^ 36 < USIZE
    have hw : (DecompLit.simpleDecompress gb d lit).2.words = lit.words := by
      unfold DecompLit.simpleDecompress DecompLit.simpleDecompressDirty
      have h1 := header_words d lit
      generalize DecompLit.header d lit = H at h1 ⊢
      obtain ⟨o, σ1⟩ := H
      cases o with
      | err k => exact h1
      | panic => exact h1
      | ok a =>
        simp only at h1 ⊢
        have h2 := simpleLoop_words gb d ((lit.words.total - lit.state.bitIdx) / 8 + 2) σ1 []
        generalize DecompLit.simpleLoop gb d ((lit.words.total - lit.state.bitIdx) / 8 + 2) σ1 [] = SL at h2 ⊢
        obtain ⟨o2, σ2⟩ := SL
        cases o2 <;> exact h2.trans h1
    have hf : (Op.simpleDecompress matchStride gb d abs).2.freed = abs.freed := by
      unfold Op.simpleDecompress
      have h1 := op_header_freed d abs
      generalize Op.header d abs = H at h1 ⊢
      obtain ⟨o, σ1⟩ := H
      cases o with
      | err e => rfl
      | ok a =>
        simp only at h1 ⊢
        have h2 : ∀ (fuel : Nat) (σ : Op.St) (acc : List Nat),
            (Op.simpleLoop matchStride gb d fuel σ acc).2.freed = σ.freed := by
          intro fuel
          induction fuel with
          | zero => intro σ acc; rfl
          | succ fuel ih =>
            intro σ acc
            unfold Op.simpleLoop
            have g1 := op_chunkMetadata_freed gb d σ
            generalize Op.chunkMetadata gb d σ = CM at g1 ⊢
            obtain ⟨o, σ'⟩ := CM
            cases o with
            | err e => exact g1
            | ok mm =>
              cases mm with
              | none => exact g1
              | some m =>
                simp only at g1 ⊢
                have g2 := op_chunkBody_freed matchStride d σ'
                generalize Op.chunkBody matchStride d σ' = CB at g2 ⊢
                obtain ⟨o2, σ''⟩ := CB
                cases o2 with
                | err e => exact g2.trans g1
                | ok xs => exact (ih σ'' _).trans (g2.trans g1)
        have h3 := h2 (abs.rest.length / 8 + 2) σ1 []
        generalize Op.simpleLoop matchStride gb d (abs.rest.length / 8 + 2) σ1 [] = SL at h3 ⊢
        obtain ⟨o2, σ2⟩ := SL
        cases o2 with
        | err e => rfl
        | ok xs => exact h3.trans h1
    rw [hw, hf]; exact hs
  | bitIdx => exact hs

/-- the general form of the history theorem, from any pair of related states -/
theorem hist_from {d : DType} (hd : d ∈ Frozen.dtypes) {gb : Nat → Nat} (hgb : ∀ x, gb x ≤ d.uBits) :
    ∀ (ops : List DOp), (∀ op ∈ ops, OpOk op) → ∀ {lit : LitSt} {abs : Op.St}, Sim d lit abs →
      abs.freed + 128 * (lit.words.ws.length + histWords ops) + 2 ^ 36 < USIZE →
      HistRel gb d ops lit abs := by
  intro ops
  induction ops with
  | nil => intro _ _ _ _ _; trivial
  | cons op ops ih =>
    intro hops lit abs h hs
    have hw : histWords (op :: ops) = opWords op + histWords ops := by
      simp [histWords]
    rw [hw] at hs
    have hs0 : SizeOk lit abs := by
      unfold SizeOk; omega
    obtain ⟨r1, r2⟩ := step_refines hd hgb op (hops op (by simp)) h hs0
    refine ⟨r1, ih (fun o ho => hops o (by simp [ho])) r2 ?_⟩
    have := step_size (gb := gb) op (hops op (by simp)) h (histWords ops) (by omega)
    omega


end DecompLit
end Qco
