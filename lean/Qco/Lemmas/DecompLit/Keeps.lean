/-
Layer DL, part 9: what the operations leave alone — the literal operations other than `write` and
`free_compressed_memory` do not touch `words`; the abstract ones do not touch `freed`.  Hence the size
side-condition `SizeOk` is kept by them.
-/
import Qco.Lemmas.DecompLit.Ops4
namespace Qco.DecompLit
open Qco Qco.WB Qco.Op Qco.NumDec Qco.MetaIO Qco.Parser

/-! ### literal side: `words` -/

theorem withReader_words {α : Type} (σ : LitSt) (f : Reader → State → R α × State × Reader) :
    (withReader σ f).2.words = σ.words := by
  unfold withReader
  simp only
  rcases f (Reader.seekTo σ.state.bitIdx) σ.state with ⟨o, st', r'⟩
  cases o <;> rfl

theorem header_words (d : DType) (σ : LitSt) : (header d σ).2.words = σ.words := by
  unfold header
  cases checkNotTerminated σ with
  | err k => rfl
  | panic => rfl
  | ok u =>
    simp only
    split
    · rfl
    · exact withReader_words _ _

theorem chunkMetadata_words (gb : Nat → Nat) (d : DType) (σ : LitSt) :
    (chunkMetadata gb d σ).2.words = σ.words := by
  unfold chunkMetadata
  cases checkNotTerminated σ with
  | err k => rfl
  | panic => rfl
  | ok u =>
    simp only
    split
    · rfl
    · split
      · rfl
      · exact withReader_words _ _

theorem chunkBody_words (d : DType) (σ : LitSt) : (chunkBody d σ).2.words = σ.words := by
  unfold chunkBody
  cases checkInChunkBody σ with
  | err k => rfl
  | panic => rfl
  | ok u => exact withReader_words _ _

theorem skipChunkBody_words (σ : LitSt) : (skipChunkBody σ).2.words = σ.words := by
  unfold skipChunkBody
  cases checkInChunkBody σ with
  | err k => rfl
  | panic => rfl
  | ok u =>
    simp only
    cases σ.state.chunkBodyDecompressor with
    | none => rfl
    | some cbd =>
      simp only
      cases cbd.bitsRemaining with
      | err k => rfl
      | panic => rfl
      | ok rem =>
        simp only
        split
        · rfl
        · split <;> rfl

theorem next_words (gb : Nat → Nat) (d : DType) (limit : Nat) (σ : LitSt) :
    (next gb d limit σ).2.words = σ.words := withReader_words _ _

theorem simpleLoop_words (gb : Nat → Nat) (d : DType) (fuel : Nat) (σ : LitSt) (acc : List Nat) :
    (simpleLoop gb d fuel σ acc).2.words = σ.words := by
  induction fuel generalizing σ acc with
  | zero => rfl
  | succ fuel ih =>
    unfold simpleLoop
    have h1 := chunkMetadata_words gb d σ
    generalize chunkMetadata gb d σ = CM at h1 ⊢
    obtain ⟨o, σ'⟩ := CM
    cases o with
    | err k => exact h1
    | panic => exact h1
    | ok mm =>
      cases mm with
      | none => exact h1
      | some m =>
        simp only
        have h2 := chunkBody_words d σ'
        generalize chunkBody d σ' = CB at h2 ⊢
        obtain ⟨o2, σ''⟩ := CB
        simp only at h1 h2
        cases o2 with
        | err k => exact h2.trans h1
        | panic => exact h2.trans h1
        | ok nums => exact (ih σ'' _).trans (h2.trans h1)

/-! ### abstract side: `freed` -/

theorem op_withReader_freed {α : Type} (σ : Op.St) (f : Rd → Op.St → Out α × Op.St × Rd)
    (hf : (f ⟨σ.rest, σ.pos⟩ σ).2.1.freed = σ.freed) : (Op.withReader σ f).2.freed = σ.freed := by
  unfold Op.withReader
  simp only
  generalize f ⟨σ.rest, σ.pos⟩ σ = A at hf ⊢
  obtain ⟨o, σ', rd'⟩ := A
  cases o <;> exact hf

theorem op_header_freed (d : DType) (σ : Op.St) : (Op.header d σ).2.freed = σ.freed := by
  unfold Op.header
  split
  · rfl
  · split
    · rfl
    · apply op_withReader_freed
      cases runAligned (decHeader d) ⟨σ.rest, σ.pos⟩ with
      | ok v => rfl
      | err e => rfl

theorem op_chunkMetadata_freed (gb : Nat → Nat) (d : DType) (σ : Op.St) :
    (Op.chunkMetadata gb d σ).2.freed = σ.freed := by
  unfold Op.chunkMetadata
  split
  · rfl
  · split
    · rfl
    · rename_i fl hfl
      split
      · rfl
      · apply op_withReader_freed
        cases runAligned (Op.readChunkMeta gb d fl) ⟨σ.rest, σ.pos⟩ with
        | err e => rfl
        | ok v =>
          obtain ⟨m, rd'⟩ := v
          cases m with
          | none => rfl
          | some m =>
            simp only
            cases newBody fl m <;> rfl

theorem op_chunkBody_freed (L : Matcher) (d : DType) (σ : Op.St) :
    (Op.chunkBody L d σ).2.freed = σ.freed := by
  unfold Op.chunkBody
  split
  · rfl
  · apply op_withReader_freed
    cases σ.body with
    | none => rfl
    | some b =>
      simp only
      rcases nextBatch L d b (b.total + b.n + 1) true ⟨σ.rest, σ.pos⟩ with ⟨o, b', rd'⟩
      cases o <;> rfl

theorem op_skipChunkBody_freed (σ : Op.St) : (Op.skipChunkBody σ).2.freed = σ.freed := by
  unfold Op.skipChunkBody
  split
  · rfl
  · split
    · rfl
    · simp only
      split <;> rfl

theorem op_next_freed (L : Matcher) (gb : Nat → Nat) (d : DType) (limit : Nat) (σ : Op.St) :
    (Op.next L gb d limit σ).2.freed = σ.freed := by
  unfold Op.next
  apply op_withReader_freed
  split
  · rfl
  · cases hf : σ.flags with
    | none =>
      simp only
      cases runAligned (decHeader d) ⟨σ.rest, σ.pos⟩ with
      | ok v => rfl
      | err e => cases e <;> rfl
    | some fl =>
      simp only
      cases hb : σ.body with
      | none =>
        simp only
        cases runAligned (Op.readChunkMeta gb d fl) ⟨σ.rest, σ.pos⟩ with
        | err e => cases e <;> rfl
        | ok v =>
          obtain ⟨m, rd'⟩ := v
          cases m with
          | none => rfl
          | some m =>
            simp only
            cases newBody fl m with
            | err e => rfl
            | ok b =>
              simp only
              split
              · rcases nextBatch L d b limit false rd' with ⟨o, b', rd''⟩
                cases o <;> rfl
              · rfl
      | some b =>
        simp only
        rcases nextBatch L d b limit false ⟨σ.rest, σ.pos⟩ with ⟨o, b', rd'⟩
        cases o with
        | err e => rfl
        | ok nb =>
          simp only
          split <;> rfl

/-- `SizeOk` only looks at the words and the freed bits -/
theorem SizeOk.of_eq {lit lit' : LitSt} {abs abs' : Op.St} (hs : SizeOk lit abs)
    (hw : lit'.words = lit.words) (hf : abs'.freed = abs.freed) : SizeOk lit' abs' := by
  unfold SizeOk at hs ⊢
  rw [hw, hf]
  exact hs

end Qco.DecompLit
