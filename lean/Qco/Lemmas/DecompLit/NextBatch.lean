/-
Layer DL, part 3: `ChunkBodyDecompressor::decompress_next_batch` (both variants, with
`reconstruct_nums` and the `Delta` counters) is `Op.nextBatch matchStride`, and the successor bodies are
related and satisfy `BOk` again.
-/
import Qco.Lemmas.DecompLit.Batch
import Qco.Lemmas.DecompLit.Recon
namespace Qco.DecompLit
open Qco Qco.WB Qco.Op Qco.NumDec Qco.MetaIO Qco.Parser

/-- `Numbers { nums, finished_chunk_body }` against `NBatch` -/
def NumsRel (x : List Nat × Bool) (y : NBatch) : Prop := x.1 = y.nums ∧ x.2 = y.finished

/-- literal outcome of `decompress_next_batch` `(result, self, reader)` against the abstract one; `F` is the
offset between the abstract position and the reader's bit index, `i0` the bit index before the call -/
def NBRel (ub : Nat) (w : Words) (F i0 : Nat) (lit : R (List Nat × Bool) × CBD × Reader)
    (abs : Out NBatch × Body × Rd) : Prop :=
  ResRel False NumsRel lit.1 abs.1 ∧ CRel ub lit.2.1 abs.2.1 ∧ BOk ub abs.2.2.pos abs.2.1 ∧
  F + lit.2.2.bitIdx = abs.2.2.pos ∧ w.toBits.drop lit.2.2.bitIdx = abs.2.2.bits ∧ RInv w lit.2.2 ∧
  i0 ≤ lit.2.2.bitIdx

/-- `BOk` of the body after a number batch, given what the batch kept, when the order is 0 -/
theorem bok_after_simple {ub : Nat} {b : Body} {P P' : Nat} (hok : BOk ub P b) (ho : b.order = 0)
    (st' : NumSt) (h1 : st'.nProcessed ≤ b.n) (h2 : IncOk b.ps st'.inc) (h3 : st'.bitsProcessed ≤ P') :
    BOk ub P' { b with st := st' } :=
  ⟨hok.n_le, hok.total_le, hok.body_lt, h1, h2, hok.ps, h3, fun h => absurd ho h⟩

/-- **`decompress_next_batch` is `Op.nextBatch matchStride`** -/
theorem dnb_refines (d : DType) (cbd : CBD) (b : Body) (hc : CRel d.uBits cbd b) (F : Nat)
    (hF : F % 64 = 0) (w : Words) (hw : w.WF) (r : Reader) (hr : RInv w r)
    (hok : BOk d.uBits (F + r.bitIdx) b) (hsz : F + 128 * w.ws.length + 2 ^ 36 < USIZE) (limit : Nat)
    (eoi : Bool) :
    NBRel d.uBits w F r.bitIdx (cbd.decompressNextBatch d w r limit eoi)
      (nextBatch matchStride d b limit eoi { bits := w.toBits.drop r.bitIdx, pos := F + r.bitIdx }) := by
  have husz := usize_val
  have hme : maxEntries = 2 ^ 24 - 1 := rfl
  have hkeep := numBatch_keeps d.uBits b { bits := w.toBits.drop r.bitIdx, pos := F + r.bitIdx } hok limit eoi
  have hnok := numBatch_ok matchStride b limit eoi { bits := w.toBits.drop r.bitIdx, pos := F + r.bitIdx }
  have hnerr := numBatch_err_restores matchStride b limit eoi
    { bits := w.toBits.drop r.bitIdx, pos := F + r.bitIdx }
  cases cbd with
  | simple nd =>
    obtain ⟨ho, hnd⟩ := hc
    have hdul := dul_refines d.uBits b nd hnd F hF w hw r hr hok hsz limit eoi
    unfold CBD.decompressNextBatch nextBatch
    simp only []
    generalize decompressUnsignedsLimited nd w r limit eoi = L at hdul ⊢
    generalize numBatch matchStride b limit eoi { bits := w.toBits.drop r.bitIdx, pos := F + r.bitIdx }
      = A at hdul hkeep hnok hnerr ⊢
    obtain ⟨lo, nd', r'⟩ := L
    obtain ⟨ao, st', rd'⟩ := A
    obtain ⟨e1, e2, e3, e4, e5⟩ := hdul
    obtain ⟨k1, k2, k3, k4⟩ := hkeep
    simp only at e1 e2 e3 e4 e5 k1 k2 k3 k4
    have hmono : r.bitIdx ≤ r'.bitIdx := by omega
    have hbok := bok_after_simple (P' := rd'.pos) hok ho st' k1 k2 k3
    cases ao with
    | err e =>
      rw [outToR_err] at e1
      subst e1
      simp only []
      exact ⟨errRel_errKind False e, ⟨ho, e2⟩, hbok, e3, e4, e5, hmono⟩
    | ok ub0 =>
      rw [outToR_ok] at e1
      subst e1
      simp only []
      rw [if_pos ho]
      exact ⟨⟨rfl, rfl⟩, ⟨ho, e2⟩, hbok, e3, e4, e5, hmono⟩
  | delta n nd ms np =>
    obtain ⟨ho, hn, hms, hnp, hnd⟩ := hc
    subst hn hms hnp
    obtain ⟨hmne, hJ⟩ := hok.delta ho
    have htot := hok.total_le
    have hdul := dul_refines d.uBits b nd hnd F hF w hw r hr hok hsz limit eoi
    unfold CBD.decompressNextBatch nextBatch
    simp only []
    generalize decompressUnsignedsLimited nd w r limit eoi = L at hdul ⊢
    generalize numBatch matchStride b limit eoi { bits := w.toBits.drop r.bitIdx, pos := F + r.bitIdx }
      = A at hdul hkeep hnok hnerr ⊢
    obtain ⟨lo, nd', r'⟩ := L
    obtain ⟨ao, st', rd'⟩ := A
    obtain ⟨e1, e2, e3, e4, e5⟩ := hdul
    obtain ⟨k1, k2, k3, k4⟩ := hkeep
    simp only at e1 e2 e3 e4 e5 k1 k2 k3 k4
    have hmono : r.bitIdx ≤ r'.bitIdx := by omega
    cases ao with
    | err e =>
      rw [outToR_err] at e1
      subst e1
      obtain ⟨rfl, _⟩ := hnerr e st' rd' rfl
      simp only []
      exact ⟨errRel_errKind False e, ⟨ho, rfl, rfl, rfl, e2⟩,
        ⟨hok.n_le, hok.total_le, hok.body_lt, k1, k2, hok.ps, k3, fun _ => ⟨hmne, hJ⟩⟩, e3, e4, e5, hmono⟩
    | ok ub0 =>
      rw [outToR_ok] at e1
      subst e1
      obtain ⟨n1, n2, n3, n4, n5, _, _⟩ := hnok ub0 st' rd' rfl
      simp only []
      rw [if_neg ho]
      have hnple : ¬ (b.numsProcessed > b.total) := by omega
      simp only [hnple, decide_false, Bool.and_false, Bool.false_eq_true, if_false]
      generalize hbs : (if ub0.finished = true then min limit (b.total - b.numsProcessed) else ub0.us.length) = bs
      have hbsle : b.numsProcessed + bs ≤ b.total := by
        rw [← hbs]
        split
        · have := Nat.min_le_right limit (b.total - b.numsProcessed); omega
        · omega
      rw [reconstructNums_eq d b.moments (ub0.us.map d.signed.fromU) bs (Or.inr hmne)]
      have hml := reconNums_moments_length d bs b.moments (ub0.us.map d.signed.fromU)
      generalize reconNums d bs b.moments (ub0.us.map d.signed.fromU) = RR at hml ⊢
      obtain ⟨nums, moments'⟩ := RR
      simp only at hml ⊢
      rw [if_neg (by omega)]
      have hm' : moments' ≠ [] := by
        intro h; rw [h] at hml
        exact hmne (List.eq_nil_of_length_eq_zero hml.symm)
      refine ⟨⟨rfl, rfl⟩, ⟨ho, rfl, rfl, rfl, e2⟩,
        ⟨hok.n_le, hok.total_le, hok.body_lt, k1, k2, hok.ps, k3, fun _ => ⟨hm', ?_⟩⟩, e3, e4, e5, hmono⟩
      show b.numsProcessed + bs + (b.n - st'.nProcessed) ≤ b.total
      rw [← hbs]
      cases hf : ub0.finished with
      | true =>
        have := n5 hf
        have := Nat.min_le_right limit (b.total - b.numsProcessed)
        simp only [if_true]
        omega
      | false =>
        simp only [Bool.false_eq_true, if_false]
        omega

end Qco.DecompLit
