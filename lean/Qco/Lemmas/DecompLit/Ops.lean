/-
Layer DL, part 5: every operation of the literal `Decompressor` refines the abstract operation under the
simulation relation `Sim`: `write`, `header`, `chunk_metadata`, `skip_chunk_body`,
`free_compressed_memory`, `bit_idx`.
-/
import Qco.Lemmas.DecompLit.NextBatch
import Qco.Lemmas.DecompLit.Header
namespace Qco.DecompLit
open Qco Qco.WB Qco.Op Qco.NumDec Qco.MetaIO Qco.Parser

/-! ### small facts about the relations -/

theorem BOk.mono {ub P P' : Nat} {b : Body} (h : BOk ub P b) (hP : P ≤ P') : BOk ub P' b :=
  ⟨h.n_le, h.total_le, h.body_lt, h.np_le, h.inc, h.ps, Nat.le_trans h.bits_le hP, h.delta⟩

theorem ORel.imp {α β : Type} {rel rel' : α → β → Prop} (himp : ∀ a b, rel a b → rel' a b)
    {x : Option α} {y : Option β} (h : ORel rel x y) : ORel rel' x y := by
  cases x <;> cases y
  · trivial
  · exact h.elim
  · exact h.elim
  · exact himp _ _ h

theorem Sim.body_mono {d : DType} {lit : LitSt} {abs : Op.St} (h : Sim d lit abs) {P : Nat}
    (hP : abs.pos ≤ P) :
    ORel (fun c b => CRel d.uBits c b ∧ BOk d.uBits P b) lit.state.chunkBodyDecompressor abs.body :=
  h.body.imp fun _ _ hcb => ⟨hcb.1, hcb.2.mono hP⟩

theorem Sim.rinv {d : DType} {lit : LitSt} {abs : Op.St} (h : Sim d lit abs) :
    RInv lit.words (Reader.seekTo lit.state.bitIdx) := rinv_seekTo h.idx_le

/-- the size hypothesis in the forms the layers below want -/
theorem SizeOk.parse {lit : LitSt} {abs : Op.St} (hs : SizeOk lit abs) (hw : lit.words.WF) :
    lit.words.total + 256 < USIZE := by
  have := hw.total_le
  have husz := usize_val
  unfold SizeOk at hs
  omega

theorem SizeOk.batch {lit : LitSt} {abs : Op.St} (hs : SizeOk lit abs) :
    abs.freed + 128 * lit.words.ws.length + 2 ^ 36 < USIZE := hs

/-! ### `with_reader` -/

/-- `with_reader` against `Op.withReader`: it is enough to relate the two closures, run on the reader
after `seek_to(state.bit_idx)` and on the abstract reader at the committed position -/
theorem withReader_sim {α β : Type} {ts : Prop} {rel : α → β → Prop} {d : DType} {lit : LitSt}
    {abs : Op.St} (f : Reader → State → R α × State × Reader) (g : Rd → Op.St → Out β × Op.St × Rd)
    (hfg : match f (Reader.seekTo lit.state.bitIdx) lit.state, g ⟨abs.rest, abs.pos⟩ abs with
      | (.ok a, st', r'), (.ok b, σ', rd') => rel a b ∧
          Sim d ⟨lit.words, { st' with bitIdx := r'.bitIdx }⟩ { σ' with rest := rd'.bits, pos := rd'.pos }
      | (.err k, st', _), (.err e, σ', _) => ErrRel ts k e ∧ Sim d ⟨lit.words, st'⟩ σ'
      | _, _ => False) :
    ResRel ts rel (withReader lit f).1 (Op.withReader abs g).1 ∧
      Sim d (withReader lit f).2 (Op.withReader abs g).2 := by
  unfold withReader Op.withReader
  simp only
  generalize f (Reader.seekTo lit.state.bitIdx) lit.state = L at hfg ⊢
  generalize g ⟨abs.rest, abs.pos⟩ abs = A at hfg ⊢
  obtain ⟨lo, st', r'⟩ := L
  obtain ⟨ao, σ', rd'⟩ := A
  cases lo with
  | ok a => cases ao with
    | ok b => exact hfg
    | err e => exact hfg.elim
  | err k => cases ao with
    | ok b => exact hfg.elim
    | err e => exact hfg
  | panic => cases ao <;> exact hfg.elim

/-! ### `write`, `bit_idx`, `free_compressed_memory` -/

/-- `Write::write` appends the bits of the bytes -/
theorem write_refines {d : DType} {lit : LitSt} {abs : Op.St} (h : Sim d lit abs) (bytes : List Nat)
    (hb : ∀ b ∈ bytes, b < 256) : Sim d (write lit bytes) (Op.write abs (bytesBits bytes)) := by
  obtain ⟨e1, e2⟩ := extend_spec h.wf hb
  have hlen := h.wf.toBits_length
  have hidx := h.idx_le
  refine ⟨e1, ?_, ?_, h.pos, h.freed, h.flags, h.body, h.term⟩
  · show lit.state.bitIdx ≤ (lit.words.extend bytes).total
    have := e1.toBits_length
    rw [e2, List.length_append, hlen] at this
    omega
  · show (lit.words.extend bytes).toBits.drop lit.state.bitIdx = abs.rest ++ bytesBits bytes
    rw [e2, List.drop_append_of_le_length (by omega), h.rest, bytesBits'_eq]

theorem bitIdx_refines {d : DType} {lit : LitSt} {abs : Op.St} (h : Sim d lit abs) :
    bitIdx lit = abs.bitIdx := by
  unfold bitIdx St.bitIdx
  have := h.pos
  omega

/-- `free_compressed_memory` drops the whole words before `bit_idx`; never panics -/
theorem free_refines {d : DType} {lit : LitSt} {abs : Op.St} (h : Sim d lit abs) :
    (free lit).1 = .ok () ∧ Sim d (free lit).2 (Op.free abs) := by
  have hidx := h.idx_le
  have hpos := h.pos
  have hbi : abs.bitIdx = lit.state.bitIdx := by unfold St.bitIdx; omega
  unfold free Op.free
  simp only
  rw [hbi]
  by_cases hk : lit.state.bitIdx / 64 > 0
  · rw [if_pos hk, truncateLeftR_ok (by omega) h.wf]
    simp only
    rw [if_neg (by omega)]
    have hlen := h.wf.len
    obtain ⟨t1, t2⟩ := truncateLeft_spec (k := lit.state.bitIdx / 64) h.wf (by omega)
    refine ⟨rfl, t1, ?_, ?_, ?_, ?_, h.flags, h.body, h.term⟩
    · show lit.state.bitIdx - lit.state.bitIdx / 64 * 64 ≤ lit.words.total - lit.state.bitIdx / 64 * 64
      omega
    · show (lit.words.truncateLeft (lit.state.bitIdx / 64)).toBits.drop
        (lit.state.bitIdx - lit.state.bitIdx / 64 * 64) = abs.rest
      rw [t2, List.drop_drop, ← h.rest]
      congr 1
      omega
    · show abs.pos = abs.freed + 64 * (lit.state.bitIdx / 64) + (lit.state.bitIdx - lit.state.bitIdx / 64 * 64)
      omega
    · show (abs.freed + 64 * (lit.state.bitIdx / 64)) % 64 = 0
      have := h.freed
      omega
  · rw [if_neg hk]
    have h0 : lit.state.bitIdx / 64 = 0 := by omega
    refine ⟨rfl, h.wf, h.idx_le, h.rest, ?_, ?_, h.flags, h.body, h.term⟩
    · show abs.pos = abs.freed + 64 * (lit.state.bitIdx / 64) + lit.state.bitIdx
      omega
    · show (abs.freed + 64 * (lit.state.bitIdx / 64)) % 64 = 0
      have := h.freed
      omega

theorem free_sizeOk {lit : LitSt} {abs : Op.St} (hs : SizeOk lit abs) (hw : lit.words.WF)
    (hidx : lit.state.bitIdx ≤ lit.words.total) (hb : abs.bitIdx = lit.state.bitIdx) :
    SizeOk (free lit).2 (Op.free abs) := by
  have hlen := hw.len
  unfold free Op.free SizeOk at *
  simp only
  rw [hb]
  by_cases hk : lit.state.bitIdx / 64 > 0
  · rw [if_pos hk, truncateLeftR_ok (by omega) hw]
    simp only
    rw [if_neg (by omega)]
    show abs.freed + 64 * (lit.state.bitIdx / 64) + 128 * (lit.words.ws.drop (lit.state.bitIdx / 64)).length
      + 2 ^ 36 < USIZE
    rw [List.length_drop]
    omega
  · rw [if_neg hk]
    show abs.freed + 64 * (lit.state.bitIdx / 64) + 128 * lit.words.ws.length + 2 ^ 36 < USIZE
    omega

/-! ### `header` -/

theorem term_eq {d : DType} {lit : LitSt} {abs : Op.St} (h : Sim d lit abs) :
    checkNotTerminated lit = if abs.terminated then .err "InvalidArgument" else .ok () := by
  unfold checkNotTerminated
  rw [h.term]

/-- **`Decompressor::header`** -/
theorem header_refines {d : DType} {lit : LitSt} {abs : Op.St} (h : Sim d lit abs) (hs : SizeOk lit abs) :
    ResRel False (fun a b => a = b) (header d lit).1 (Op.header d abs).1 ∧
      Sim d (header d lit).2 (Op.header d abs).2 := by
  unfold header Op.header Op.checkNotTerminated
  rw [term_eq h]
  by_cases ht : abs.terminated = true
  · rw [if_pos ht, if_pos ht]
    exact ⟨rfl, h⟩
  · rw [if_neg ht, if_neg ht]
    simp only
    rw [h.flags]
    by_cases hf : abs.flags.isSome = true
    · rw [if_pos hf, if_pos hf]
      exact ⟨rfl, h⟩
    · rw [if_neg hf, if_neg hf]
      apply withReader_sim
      have hrun := readHeader_run h.wf (hs.parse h.wf) d h.rinv abs.freed h.freed
      rw [seekTo_bitIdx, h.rest, ← h.pos] at hrun
      generalize readHeader d lit.words (Reader.seekTo lit.state.bitIdx) = L at hrun ⊢
      generalize runAligned (decHeader d) { bits := abs.rest, pos := abs.pos } = A at hrun ⊢
      obtain ⟨lo, r'⟩ := L
      cases lo with
      | ok fl => cases A with
        | ok x =>
          obtain ⟨fl', rd'⟩ := x
          obtain ⟨e1, e2, e3, e4, e5⟩ := hrun
          subst e1
          have hp := h.pos
          exact ⟨rfl, h.wf, e2.pos_le, e4, by show rd'.pos = abs.freed + r'.bitIdx; omega, h.freed, rfl,
            h.body_mono (show abs.pos ≤ rd'.pos by omega), h.term⟩
        | err e => exact hrun.elim
      | err k => cases A with
        | ok x => exact hrun.elim
        | err e => exact ⟨hrun, h⟩
      | panic => cases A <;> exact hrun.elim

end Qco.DecompLit
