/-
Layer DL, part 6: `ChunkBodyDecompressor::new` against `Op.newBody`, then `chunk_metadata` and
`skip_chunk_body`.
-/
import Qco.Lemmas.DecompLit.Ops
namespace Qco.DecompLit
open Qco Qco.WB Qco.Op Qco.NumDec Qco.MetaIO Qco.Parser

/-- what the theorems need of the data type: true of the 15 types of the library (`dok_of_mem`) -/
structure DOk (d : DType) : Prop where
  ok : C07.DTypeOk d
  std : Std d
  stdSigned : Std d.signed

theorem dok_of_mem {d : DType} (h : d ∈ Frozen.dtypes) : DOk d :=
  ⟨C07.dtypes_ok d h, (std_of_mem h).1, (std_of_mem h).2⟩

/-! ### `ChunkBodyDecompressor::new` -/

theorem numDecNew_eq (ub n cbs : Nat) (ps : List Prefix) :
    numDecNew ub n cbs ps =
      if ps.isEmpty && decide (n > 0) then .err "Corruption"
      else if !ps.isEmpty && !completeTree (ps.map (·.code)) then .err "Corruption"
      else .ok ⟨mkDec ub n ps, cbs, 0, 0, none⟩ := by
  unfold numDecNew newDec
  by_cases c1 : (ps.isEmpty && decide (n > 0)) = true
  · rw [if_pos c1, if_pos c1]
  · rw [if_neg c1, if_neg c1]
    by_cases c2 : (!ps.isEmpty && !completeTree (ps.map (·.code))) = true
    · rw [if_pos c2, if_pos c2]
    · rw [if_neg c2, if_neg c2]

/-- a successful aligned `read_chunk_meta` ran `decChunkMeta` -/
theorem runAligned_some_dec {gb : Nat → Nat} {d : DType} {fl : Flags} {rd rd' : Rd} {m : ChunkMeta}
    (hrun : runAligned (Op.readChunkMeta gb d fl) rd = .ok (some m, rd')) :
    ∃ s r, decChunkMeta gb d fl s = .ok m r := by
  unfold runAligned at hrun
  split at hrun
  · cases hrun
  · unfold runParser at hrun
    split at hrun
    · rename_i a r hp
      simp only [Out.ok.injEq, Prod.mk.injEq] at hrun
      rw [hrun.1] at hp
      obtain ⟨s', hs'⟩ := C07.readChunkMeta_some gb d fl _ m r hp
      exact ⟨s', r, hs'⟩
    · cases hrun

/-- **`ChunkBodyDecompressor::new` is `Op.newBody`** on parsed metadata, and the body it creates
satisfies `BOk` -/
theorem cbdNew_refines {d : DType} (hd : DOk d) {gb : Nat → Nat} {fl : Flags} {s rest : Bits}
    {m : ChunkMeta} (hm : decChunkMeta gb d fl s = .ok m rest) (P : Nat) :
    match CBD.new d.uBits (RMeta.ofSpec fl m), newBody fl m with
    | .ok cbd, .ok b => CRel d.uBits cbd b ∧ BOk d.uBits P b
    | .err k, .err e => k = "Corruption" ∧ e = .corrupt
    | _, _ => False := by
  obtain ⟨hn, hbody, hmlen, _, _, hps⟩ := C07.decChunkMeta_bounds gb d hd.ok fl s m rest hm
  have hme : maxEntries = 2 ^ 24 - 1 := rfl
  -- the literal side, for both variants
  have hlit : CBD.new d.uBits (RMeta.ofSpec fl m) =
      match numDecNew d.uBits (m.n - fl.order) m.bodyBytes m.prefixes with
      | .ok nd => .ok (if fl.order = 0 then .simple nd else .delta m.n nd m.moments 0)
      | .err k => .err k
      | .panic => .panic := by
    unfold CBD.new RMeta.ofSpec
    by_cases ho : fl.order = 0
    · simp only [ho, if_true, Nat.sub_zero]
      rfl
    · simp only [ho, if_false, hmlen]
      rfl
  rw [hlit, numDecNew_eq]
  unfold newBody bodyCount
  simp only
  by_cases c1 : (m.prefixes.isEmpty && decide (m.n - fl.order > 0)) = true
  · rw [if_pos c1, if_pos c1]
    exact ⟨rfl, rfl⟩
  · rw [if_neg c1, if_neg c1]
    by_cases c2 : (!m.prefixes.isEmpty && !completeTree (m.prefixes.map (·.code))) = true
    · rw [if_pos c2, if_pos c2]
      exact ⟨rfl, rfl⟩
    · rw [if_neg c2, if_neg c2]
      simp only
      refine ⟨?_, ?_⟩
      · by_cases ho : fl.order = 0
        · rw [if_pos ho]
          exact ⟨ho, rfl, rfl, rfl, rfl, rfl⟩
        · rw [if_neg ho]
          exact ⟨ho, rfl, rfl, rfl, rfl, rfl, rfl, rfl, rfl⟩
      · refine ⟨by show m.n - fl.order ≤ maxEntries; omega, by show m.n ≤ maxEntries; omega,
          by show m.bodyBytes < 2 ^ 32; omega, Nat.zero_le _, nd_incOk_none _, ?_, Nat.zero_le _, ?_⟩
        · show PsOk d.uBits m.prefixes ∨ (m.prefixes = [] ∧ m.n - fl.order = 0)
          cases hpe : m.prefixes with
          | nil =>
            rw [hpe] at c1
            simp only [List.isEmpty_nil, Bool.true_and, decide_eq_true_eq] at c1
            exact Or.inr ⟨rfl, by omega⟩
          | cons p ps =>
            rw [hpe] at c2
            simp only [List.isEmpty_cons, Bool.not_false, Bool.true_and, Bool.not_eq_true'] at c2
            have htree : completeTree ((p :: ps).map (·.code)) = true := by
              cases hct : completeTree ((p :: ps).map (·.code)) with
              | true => rfl
              | false => exact absurd hct c2
            rw [hpe] at hps
            refine Or.inl ⟨htree, ?_, ?_, hd.std.ubits_le⟩
            · intro q hq
              have hq' := hps q hq
              have h1 := hq'.upper_lt
              rw [C07.prefDType_uBits] at h1
              have h2 := Prefix.r_le q
              omega
            · intro q hq j hj
              have := (hps q hq).jump_lt j hj
              omega
        · intro ho
          refine ⟨?_, by show 0 + (m.n - fl.order - 0) ≤ m.n; omega⟩
          show m.moments ≠ []
          intro hnil
          rw [hnil] at hmlen
          exact ho hmlen.symm

/-! ### `chunk_metadata` -/

/-- literal metadata (`Option RMeta`) against abstract metadata (`Option ChunkMeta`) -/
def MetaRel (fl : Option Flags) (a : Option RMeta) (b : Option ChunkMeta) : Prop :=
  ∃ f, fl = some f ∧ a = b.map (RMeta.ofSpec f)

theorem checkInChunkBody_eq {d : DType} {lit : LitSt} {abs : Op.St} (h : Sim d lit abs) :
    checkInChunkBody lit = match Op.checkInChunkBody abs with
      | some _ => .err "InvalidArgument"
      | none => .ok () := by
  unfold checkInChunkBody Op.checkInChunkBody Op.checkNotTerminated
  rw [term_eq h]
  by_cases ht : abs.terminated = true
  · rw [if_pos ht, if_pos ht]
  · rw [if_neg ht, if_neg ht]
    simp only
    have hb := h.body_iff
    cases hl : lit.state.chunkBodyDecompressor <;> cases ha : abs.body <;> rw [hl, ha] at hb <;>
      first | rfl | cases hb

/-- **`Decompressor::chunk_metadata`** -/
theorem chunkMetadata_refines {d : DType} (hd : DOk d) {gb : Nat → Nat} (hgb : ∀ x, gb x ≤ d.uBits)
    {lit : LitSt} {abs : Op.St} (h : Sim d lit abs) (hs : SizeOk lit abs) :
    ResRel (d.kind = .ts96) (MetaRel abs.flags) (chunkMetadata gb d lit).1 (Op.chunkMetadata gb d abs).1 ∧
      Sim d (chunkMetadata gb d lit).2 (Op.chunkMetadata gb d abs).2 := by
  unfold chunkMetadata Op.chunkMetadata Op.checkNotTerminated
  rw [term_eq h]
  by_cases ht : abs.terminated = true
  · rw [if_pos ht, if_pos ht]
    exact ⟨rfl, h⟩
  · rw [if_neg ht, if_neg ht]
    simp only
    have hfl := h.flags
    cases hfa : abs.flags with
    | none =>
      rw [hfa] at hfl
      rw [hfl]
      exact ⟨rfl, h⟩
    | some fl =>
      rw [hfa] at hfl
      rw [hfl]
      simp only [Option.isNone_some, Bool.false_eq_true, if_false]
      rw [h.body_iff]
      by_cases hb : abs.body.isSome = true
      · rw [if_pos hb, if_pos hb]
        exact ⟨rfl, h⟩
      · rw [if_neg hb, if_neg hb]
        apply withReader_sim
        rw [hfl]
        simp only
        have hrun := readChunkMeta_run h.wf (hs.parse h.wf) hd.std hd.stdSigned hgb fl h.rinv abs.freed h.freed
        rw [seekTo_bitIdx, h.rest, ← h.pos] at hrun
        have hdec := @runAligned_some_dec gb d fl { bits := abs.rest, pos := abs.pos }
        generalize DecompLit.readChunkMeta gb d fl lit.words (Reader.seekTo lit.state.bitIdx) = L at hrun ⊢
        generalize runAligned (Op.readChunkMeta gb d fl) { bits := abs.rest, pos := abs.pos } = A at hrun hdec ⊢
        obtain ⟨lo, r'⟩ := L
        have hp := h.pos
        cases lo with
        | ok a => cases A with
          | ok x =>
            obtain ⟨mb, rd'⟩ := x
            obtain ⟨e1, e2, e3, e4, e5⟩ := hrun
            subst e1
            cases mb with
            | none =>
              exact ⟨⟨fl, rfl, rfl⟩, h.wf, e2.pos_le, e4, by show rd'.pos = abs.freed + r'.bitIdx; omega,
                h.freed, (by first | exact h.flags | exact hfa.symm), h.body_mono (show abs.pos ≤ rd'.pos by omega), h.term⟩
            | some m =>
              obtain ⟨s, rest, hdm⟩ := hdec rfl
              have hnew := cbdNew_refines hd hdm rd'.pos
              simp only [Option.map_some]
              generalize CBD.new d.uBits (RMeta.ofSpec fl m) = CN at hnew ⊢
              generalize newBody fl m = NB at hnew ⊢
              cases CN with
              | ok cbd => cases NB with
                | ok b =>
                  exact ⟨⟨fl, rfl, rfl⟩, h.wf, e2.pos_le, e4,
                    by show rd'.pos = abs.freed + r'.bitIdx; omega, h.freed, (by first | exact h.flags | exact hfa.symm), hnew, h.term⟩
                | err e => exact hnew.elim
              | err k => cases NB with
                | ok b => exact hnew.elim
                | err e =>
                  obtain ⟨rfl, rfl⟩ := hnew
                  exact ⟨Or.inl rfl, h⟩
              | panic => cases NB <;> exact hnew.elim
          | err e => exact hrun.elim
        | err k => cases A with
          | ok x => exact hrun.elim
          | err e => exact ⟨hrun, h⟩
        | panic => cases A <;> exact hrun.elim

/-! ### `skip_chunk_body` -/

theorem cbd_bitsRemaining {ub : Nat} {cbd : CBD} {b : Body} {P : Nat} (hc : CRel ub cbd b)
    (hok : BOk ub P b) : cbd.bitsRemaining = .ok b.bitsRemaining := by
  have husz := usize_val
  have hb := hok.body_lt
  have key : ∀ nd, NdRel ub nd b → nd.bitsRemaining = .ok b.bitsRemaining := by
    intro nd hnd
    obtain ⟨_, h2, _, h4, _⟩ := hnd
    unfold NumDecSt.bitsRemaining Body.bitsRemaining
    rw [h2, h4, if_neg (by omega)]
  cases cbd with
  | simple nd => exact key nd hc.2
  | delta n nd ms np => exact key nd hc.2.2.2.2

/-- **`Decompressor::skip_chunk_body`** -/
theorem skipChunkBody_refines {d : DType} {lit : LitSt} {abs : Op.St} (h : Sim d lit abs)
    (hs : SizeOk lit abs) :
    ResRel False (fun _ _ => True) (skipChunkBody lit).1 (Op.skipChunkBody abs).1 ∧
      Sim d (skipChunkBody lit).2 (Op.skipChunkBody abs).2 := by
  have husz := usize_val
  unfold skipChunkBody Op.skipChunkBody
  rw [checkInChunkBody_eq h]
  cases hchk : Op.checkInChunkBody abs with
  | some e =>
    simp only
    refine ⟨?_, h⟩
    -- the only error of `check_in_chunk_body` is `invalid`
    unfold Op.checkInChunkBody Op.checkNotTerminated at hchk
    split at hchk
    · rename_i e' he'
      split at he'
      · cases he'; cases hchk; exact rfl
      · cases he'
    · split at hchk
      · cases hchk; exact rfl
      · cases hchk
  | none =>
    simp only
    have hbody := h.body
    cases hl : lit.state.chunkBodyDecompressor with
    | none =>
      cases ha : abs.body with
      | none =>
        -- unreachable: `check_in_chunk_body` passed
        unfold Op.checkInChunkBody Op.checkNotTerminated at hchk
        rw [ha] at hchk
        split at hchk
        · cases hchk
        · simp at hchk
      | some b => rw [hl, ha] at hbody; exact hbody.elim
    | some cbd =>
      cases ha : abs.body with
      | none => rw [hl, ha] at hbody; exact hbody.elim
      | some b =>
        rw [hl, ha] at hbody
        obtain ⟨hc, hok⟩ := hbody
        simp only
        rw [cbd_bitsRemaining hc hok]
        simp only
        have hrem : b.bitsRemaining < 2 ^ 35 := by
          have := hok.body_lt
          unfold Body.bitsRemaining; omega
        have hidx := h.idx_le
        have htl := h.wf.total_le
        have hrl : abs.rest.length = lit.words.total - lit.state.bitIdx := by
          rw [← h.rest, List.length_drop, h.wf.toBits_length]
        have hsz : abs.freed + 128 * lit.words.ws.length + 2 ^ 36 < USIZE := hs
        rw [if_neg (by omega)]
        by_cases hfit : b.bitsRemaining ≤ abs.rest.length
        · rw [if_pos hfit, if_pos (by omega)]
          refine ⟨trivial, h.wf, by show lit.state.bitIdx + b.bitsRemaining ≤ lit.words.total; omega, ?_, ?_,
            h.freed, h.flags, trivial, h.term⟩
          · show lit.words.toBits.drop (lit.state.bitIdx + b.bitsRemaining) = abs.rest.drop b.bitsRemaining
            rw [← h.rest, List.drop_drop]
          · show abs.pos + b.bitsRemaining = abs.freed + (lit.state.bitIdx + b.bitsRemaining)
            have := h.pos; omega
        · rw [if_neg hfit, if_neg (by omega)]
          exact ⟨rfl, h⟩

end Qco.DecompLit
