/-
Layer DL, part 7: `chunk_body` (the `usize::MAX` limit against the abstract model's "any bound ≥ the
numbers left").
-/
import Qco.Lemmas.DecompLit.Ops2
namespace Qco.DecompLit
open Qco Qco.WB Qco.Op Qco.NumDec Qco.MetaIO Qco.Parser

/-! ### a limit beyond the numbers left is as good as any other -/

theorem numBatchDirty_big_limit (L : Matcher) (b : Body) (eoi : Bool) (rd : Rd) (l1 l2 : Nat)
    (h1 : b.n ≤ l1) (h2 : b.n ≤ l2) : numBatchDirty L b l1 eoi rd = numBatchDirty L b l2 eoi rd := by
  unfold numBatchDirty
  have e1 : min (b.n - b.st.nProcessed) l1 = b.n - b.st.nProcessed := Nat.min_eq_left (by omega)
  have e2 : min (b.n - b.st.nProcessed) l2 = b.n - b.st.nProcessed := Nat.min_eq_left (by omega)
  have d1 : decide (l1 ≥ b.n - b.st.nProcessed) = true := decide_eq_true (by omega)
  have d2 : decide (l2 ≥ b.n - b.st.nProcessed) = true := decide_eq_true (by omega)
  simp only [e1, e2, d1, d2]

theorem numBatch_big_limit (L : Matcher) (b : Body) (eoi : Bool) (rd : Rd) (l1 l2 : Nat)
    (h1 : b.n ≤ l1) (h2 : b.n ≤ l2) : numBatch L b l1 eoi rd = numBatch L b l2 eoi rd := by
  rw [numBatch_eq, numBatch_eq, numBatchDirty_big_limit L b eoi rd l1 l2 h1 h2]

theorem nextBatch_big_limit (L : Matcher) (d : DType) (b : Body) (eoi : Bool) (rd : Rd) (l1 l2 : Nat)
    (h1 : b.n ≤ l1) (h1' : b.total ≤ l1) (h2 : b.n ≤ l2) (h2' : b.total ≤ l2) :
    nextBatch L d b l1 eoi rd = nextBatch L d b l2 eoi rd := by
  unfold nextBatch
  rw [numBatch_big_limit L b eoi rd l1 l2 h1 h2]
  have e1 : min l1 (b.total - b.numsProcessed) = b.total - b.numsProcessed := Nat.min_eq_right (by omega)
  have e2 : min l2 (b.total - b.numsProcessed) = b.total - b.numsProcessed := Nat.min_eq_right (by omega)
  simp only [e1, e2]

/-! ### `chunk_body` -/

/-- **`Decompressor::chunk_body`** -/
theorem chunkBody_refines {d : DType} {lit : LitSt} {abs : Op.St} (h : Sim d lit abs)
    (hs : SizeOk lit abs) :
    ResRel False (fun a b => a = b) (chunkBody d lit).1 (Op.chunkBody matchStride d abs).1 ∧
      Sim d (chunkBody d lit).2 (Op.chunkBody matchStride d abs).2 := by
  have husz := usize_val
  have hme : maxEntries = 2 ^ 24 - 1 := rfl
  unfold chunkBody Op.chunkBody
  rw [checkInChunkBody_eq h]
  cases hchk : Op.checkInChunkBody abs with
  | some e =>
    simp only
    refine ⟨?_, h⟩
    unfold Op.checkInChunkBody Op.checkNotTerminated at hchk
    split at hchk
    · rename_i e' he'
      split at he'
      · cases he'; cases hchk; exact rfl
      · cases he'
    · split at hchk
      · cases hchk; exact rfl
      · cases hchk
  | none =>
    simp only
    apply withReader_sim
    have hbody := h.body
    cases hl : lit.state.chunkBodyDecompressor with
    | none =>
      cases ha : abs.body with
      | none =>
        unfold Op.checkInChunkBody Op.checkNotTerminated at hchk
        rw [ha] at hchk
        split at hchk
        · cases hchk
        · simp at hchk
      | some b => rw [hl, ha] at hbody; exact hbody.elim
    | some cbd =>
      cases ha : abs.body with
      | none => rw [hl, ha] at hbody; exact hbody.elim
      | some b =>
        rw [hl, ha] at hbody
        obtain ⟨hc, hok⟩ := hbody
        simp only
        have hp := h.pos
        have hnb := dnb_refines d cbd b hc abs.freed h.freed lit.words h.wf _ h.rinv
          (by rw [seekTo_bitIdx, ← hp]; exact hok) hs (USIZE - 1) true
        rw [seekTo_bitIdx, h.rest, ← hp] at hnb
        have hn := hok.n_le
        have ht := hok.total_le
        rw [nextBatch_big_limit matchStride d b true _ (USIZE - 1) (b.total + b.n + 1) (by omega) (by omega)
          (by omega) (by omega)] at hnb
        have herr := nextBatch_err_restores matchStride d b (b.total + b.n + 1) true { bits := abs.rest, pos := abs.pos }
        generalize cbd.decompressNextBatch d lit.words (Reader.seekTo lit.state.bitIdx) (USIZE - 1) true = L at hnb ⊢
        generalize nextBatch matchStride d b (b.total + b.n + 1) true { bits := abs.rest, pos := abs.pos } = A
          at hnb herr ⊢
        obtain ⟨lo, cbd', r'⟩ := L
        obtain ⟨ao, b', rd'⟩ := A
        obtain ⟨n1, n2, n3, n4, n5, n6, n7⟩ := hnb
        simp only at n1 n2 n3 n4 n5 n6 n7
        cases lo with
        | ok x => cases ao with
          | ok nb =>
            obtain ⟨nums, fin⟩ := x
            obtain ⟨e1, _⟩ := n1
            simp only at e1
            subst e1
            exact ⟨rfl, h.wf, n6.pos_le, n5, by show rd'.pos = abs.freed + r'.bitIdx; omega, h.freed, h.flags,
              trivial, h.term⟩
          | err e => exact n1.elim
        | err k => cases ao with
          | ok nb => exact n1.elim
          | err e =>
            obtain ⟨rfl, rfl⟩ := herr e b' rd' rfl
            exact ⟨n1, h.wf, h.idx_le, h.rest, h.pos, h.freed, h.flags, ⟨n2, n3⟩, h.term⟩
        | panic => cases ao <;> exact n1.elim

end Qco.DecompLit
