/-
Layer DL, part 8: `Iterator::next`.
-/
import Qco.Lemmas.DecompLit.Ops3
namespace Qco.DecompLit
open Qco Qco.WB Qco.Op Qco.NumDec Qco.MetaIO Qco.Parser

/-- literal `Option<DecompressedItem>` against the abstract item; `fl` are the flags of the decompressor
(they determine what the literal metadata struct keeps) -/
def ItemRel (fl : Option Flags) : Option Item → Option Op.Item → Prop
  | none, none => True
  | some (.flags f), some (.flags f') => f = f'
  | some (.chunkMetadata m), some (.meta_ m') => ∃ f, fl = some f ∧ m = RMeta.ofSpec f m'
  | some (.numbers xs), some (.nums ys) => xs = ys
  | some .footer, some .footer => True
  | _, _ => False

/-- the state as `with_reader` leaves it when the closure did nothing -/
theorem sim_same {d : DType} {lit : LitSt} {abs : Op.St} (h : Sim d lit abs) :
    Sim d ⟨lit.words, { lit.state with bitIdx := (Reader.seekTo lit.state.bitIdx).bitIdx }⟩
      { abs with rest := abs.rest, pos := abs.pos } := by
  rw [seekTo_bitIdx]
  exact h

/-- **`Iterator::next`** -/
theorem next_refines {d : DType} (hd : DOk d) {gb : Nat → Nat} (hgb : ∀ x, gb x ≤ d.uBits)
    (limit : Nat) {lit : LitSt} {abs : Op.St} (h : Sim d lit abs) (hs : SizeOk lit abs) :
    ResRel (d.kind = .ts96) (ItemRel abs.flags) (next gb d limit lit).1
        (Op.next matchStride gb d limit abs).1 ∧
      Sim d (next gb d limit lit).2 (Op.next matchStride gb d limit abs).2 := by
  have hp := h.pos
  unfold next Op.next
  apply withReader_sim
  rw [h.term]
  by_cases ht : abs.terminated = true
  · rw [if_pos ht, if_pos ht]
    exact ⟨trivial, sim_same h⟩
  · rw [if_neg ht, if_neg ht]
    have hfl := h.flags
    cases hfa : abs.flags with
    | none =>
      -- the header
      rw [hfa] at hfl
      rw [hfl]
      simp only [Option.isNone_none, if_true]
      have hrun := readHeader_run h.wf (hs.parse h.wf) d h.rinv abs.freed h.freed
      rw [seekTo_bitIdx, h.rest, ← hp] at hrun
      generalize readHeader d lit.words (Reader.seekTo lit.state.bitIdx) = L at hrun ⊢
      generalize runAligned (decHeader d) { bits := abs.rest, pos := abs.pos } = A at hrun ⊢
      obtain ⟨lo, r'⟩ := L
      cases lo with
      | ok fl => cases A with
        | ok x =>
          obtain ⟨fl', rd'⟩ := x
          obtain ⟨e1, e2, e3, e4, e5⟩ := hrun
          subst e1
          exact ⟨rfl, h.wf, e2.pos_le, e4, by show rd'.pos = abs.freed + r'.bitIdx; omega, h.freed, (by first | rfl | exact h.flags),
            h.body_mono (show abs.pos ≤ rd'.pos by omega), (by first | rfl | exact h.term)⟩
        | err e => exact hrun.elim
      | err k => cases A with
        | ok x => exact hrun.elim
        | err e =>
          replace hrun : ErrRel False k e := hrun
          have hiff := hrun.insufficient_iff
          cases e with
          | insufficient =>
            simp only
            rw [if_pos (hiff.2 rfl)]
            exact ⟨trivial, sim_same h⟩
          | corrupt =>
            simp only
            rw [if_neg (fun hk => by cases hiff.1 hk)]
            exact ⟨ErrRel.mono False.elim hrun, h⟩
          | compat =>
            simp only
            rw [if_neg (fun hk => by cases hiff.1 hk)]
            exact ⟨ErrRel.mono False.elim hrun, h⟩
          | invalid =>
            simp only
            rw [if_neg (fun hk => by cases hiff.1 hk)]
            exact ⟨ErrRel.mono False.elim hrun, h⟩
      | panic => cases A <;> exact hrun.elim
    | some fl =>
      rw [hfa] at hfl
      rw [hfl]
      simp only [Option.isNone_some, Bool.false_eq_true, if_false]
      have hbody := h.body
      cases hl : lit.state.chunkBodyDecompressor with
      | none =>
        cases ha : abs.body with
        | some b => rw [hl, ha] at hbody; exact hbody.elim
        | none =>
          -- chunk metadata or footer
          simp only [Option.isNone_none, if_true]
          have hrun := readChunkMeta_run h.wf (hs.parse h.wf) hd.std hd.stdSigned hgb fl h.rinv abs.freed h.freed
          rw [seekTo_bitIdx, h.rest, ← hp] at hrun
          have hdec := @runAligned_some_dec gb d fl { bits := abs.rest, pos := abs.pos }
          generalize DecompLit.readChunkMeta gb d fl lit.words (Reader.seekTo lit.state.bitIdx) = L at hrun ⊢
          generalize runAligned (Op.readChunkMeta gb d fl) { bits := abs.rest, pos := abs.pos } = A
            at hrun hdec ⊢
          obtain ⟨lo, r'⟩ := L
          cases lo with
          | ok a => cases A with
            | ok x =>
              obtain ⟨mb, rd'⟩ := x
              obtain ⟨e1, e2, e3, e4, e5⟩ := hrun
              subst e1
              cases mb with
              | none =>
                -- the footer
                exact ⟨trivial, h.wf, e2.pos_le, e4, by show rd'.pos = abs.freed + r'.bitIdx; omega,
                  h.freed, (by first | rfl | exact h.flags | exact hfa.symm),
                  (by first | trivial | (rw [hl, ha]; trivial)), rfl⟩
              | some m =>
                obtain ⟨s, rest, hdm⟩ := hdec rfl
                have hnew := cbdNew_refines hd hdm rd'.pos
                simp only [Option.map_some]
                generalize CBD.new d.uBits (RMeta.ofSpec fl m) = CN at hnew ⊢
                generalize newBody fl m = NB at hnew ⊢
                cases CN with
                | ok cbd => cases NB with
                  | ok b =>
                    obtain ⟨hc, hok⟩ := hnew
                    simp only
                    have hn : (RMeta.ofSpec fl m).n = m.n := rfl
                    rw [hn]
                    by_cases hn0 : m.n = 0
                    · rw [if_pos hn0, if_pos hn0]
                      -- the empty chunk: its body is finished right away
                      have hnb := dnb_refines d cbd b hc abs.freed h.freed lit.words h.wf r' e2
                        (by rw [e3]; exact hok) hs limit false
                      have e4' : ({ bits := lit.words.toBits.drop r'.bitIdx, pos := abs.freed + r'.bitIdx } : Rd)
                          = rd' := by
                        cases rd'; simp only at e3 e4; simp only [Rd.mk.injEq]; exact ⟨e4, e3⟩
                      rw [e4'] at hnb
                      generalize cbd.decompressNextBatch d lit.words r' limit false = LB at hnb ⊢
                      generalize nextBatch matchStride d b limit false rd' = AB at hnb ⊢
                      obtain ⟨lbo, cbd', r''⟩ := LB
                      obtain ⟨abo, b', rd''⟩ := AB
                      obtain ⟨n1, n2, n3, n4, n5, n6, n7⟩ := hnb
                      simp only at n1 n2 n3 n4 n5 n6 n7
                      cases lbo with
                      | ok y => cases abo with
                        | ok nb =>
                          exact ⟨⟨fl, (by first | rfl | exact hfa), rfl⟩, h.wf, n6.pos_le, n5,
                            by show rd''.pos = abs.freed + r''.bitIdx; omega, h.freed,
                            (by first | rfl | exact h.flags | exact hfa.symm),
                            (by first | trivial | (rw [hl, ha]; trivial)), (by first | rfl | exact h.term)⟩
                        | err e => exact n1.elim
                      | err k => cases abo with
                        | ok nb => exact n1.elim
                        | err e => exact ⟨ErrRel.mono False.elim n1, h⟩
                      | panic => cases abo <;> exact n1.elim
                    · rw [if_neg hn0, if_neg hn0]
                      exact ⟨⟨fl, (by first | rfl | exact hfa), rfl⟩, h.wf, e2.pos_le, e4,
                        by show rd'.pos = abs.freed + r'.bitIdx; omega, h.freed,
                        (by first | rfl | exact h.flags | exact hfa.symm), ⟨hc, hok⟩, (by first | rfl | exact h.term)⟩
                  | err e => exact hnew.elim
                | err k => cases NB with
                  | ok b => exact hnew.elim
                  | err e =>
                    obtain ⟨rfl, rfl⟩ := hnew
                    exact ⟨Or.inl rfl, h⟩
                | panic => cases NB <;> exact hnew.elim
            | err e => exact hrun.elim
          | err k => cases A with
            | ok x => exact hrun.elim
            | err e =>
              replace hrun : ErrRel (d.kind = .ts96) k e := hrun
              have hiff := hrun.insufficient_iff
              cases e with
              | insufficient =>
                simp only
                rw [if_pos (hiff.2 rfl)]
                exact ⟨trivial, sim_same h⟩
              | corrupt =>
                simp only
                rw [if_neg (fun hk => by cases hiff.1 hk)]
                exact ⟨hrun, h⟩
              | compat =>
                simp only
                rw [if_neg (fun hk => by cases hiff.1 hk)]
                exact ⟨hrun, h⟩
              | invalid =>
                simp only
                rw [if_neg (fun hk => by cases hiff.1 hk)]
                exact ⟨hrun, h⟩
          | panic => cases A <;> exact hrun.elim
      | some cbd =>
        cases ha : abs.body with
        | none => rw [hl, ha] at hbody; exact hbody.elim
        | some b =>
          -- a batch of numbers
          rw [hl, ha] at hbody
          obtain ⟨hc, hok⟩ := hbody
          simp only [Option.isNone_some, Bool.false_eq_true, if_false]
          have hnb := dnb_refines d cbd b hc abs.freed h.freed lit.words h.wf _ h.rinv
            (by rw [seekTo_bitIdx, ← hp]; exact hok) hs limit false
          rw [seekTo_bitIdx, h.rest, ← hp] at hnb
          have herr := nextBatch_err_restores matchStride d b limit false { bits := abs.rest, pos := abs.pos }
          generalize cbd.decompressNextBatch d lit.words (Reader.seekTo lit.state.bitIdx) limit false = LB at hnb ⊢
          generalize nextBatch matchStride d b limit false { bits := abs.rest, pos := abs.pos } = AB
            at hnb herr ⊢
          obtain ⟨lbo, cbd', r'⟩ := LB
          obtain ⟨abo, b', rd'⟩ := AB
          obtain ⟨n1, n2, n3, n4, n5, n6, n7⟩ := hnb
          simp only at n1 n2 n3 n4 n5 n6 n7
          cases lbo with
          | ok y => cases abo with
            | ok nb =>
              obtain ⟨nums, fin⟩ := y
              obtain ⟨e1, e2⟩ := n1
              simp only at e1 e2
              subst e1 e2
              simp only
              by_cases hemp : nb.nums.isEmpty = true
              · rw [if_pos hemp, if_pos hemp]
                exact ⟨trivial, h.wf, n6.pos_le, n5, by show rd'.pos = abs.freed + r'.bitIdx; omega, h.freed,
                  (by first | rfl | exact h.flags | exact hfa.symm), ⟨n2, n3⟩, (by first | rfl | exact h.term)⟩
              · rw [if_neg hemp, if_neg hemp]
                refine ⟨rfl, h.wf, n6.pos_le, n5, by show rd'.pos = abs.freed + r'.bitIdx; omega, h.freed,
                  (by first | rfl | exact h.flags | exact hfa.symm), ?_, (by first | rfl | exact h.term)⟩
                cases nb.finished with
                | true => exact trivial
                | false => exact ⟨n2, n3⟩
            | err e => exact n1.elim
          | err k => cases abo with
            | ok nb => exact n1.elim
            | err e =>
              obtain ⟨rfl, rfl⟩ := herr e b' rd' rfl
              exact ⟨ErrRel.mono False.elim n1, h.wf, h.idx_le, h.rest, h.pos, h.freed,
                (by first | rfl | exact h.flags | exact hfa.symm), ⟨n2, n3⟩, (by first | rfl | exact h.term)⟩
          | panic => cases abo <;> exact n1.elim

end Qco.DecompLit
