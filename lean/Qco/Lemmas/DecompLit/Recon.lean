import Qco.Op.DecompLit
/-!
# `delta_encoding::reconstruct_nums`: the literal model is the abstract `Op.reconNums`

`Qco.DecompLit.reconstructNums` (index-based, `.panic` on every out-of-bounds index / `order - 1`
underflow) against `Qco.Op.reconNums` (structural, `shiftMoments` / `addLast` of `Qco/Spec/File.lean`).
-/
namespace Qco.DecompLit
open Qco Qco.WB

theorem shiftMoments_length (ds : DType) (ms : List Nat) : (shiftMoments ds ms).length = ms.length := by
  fun_induction shiftMoments ds ms with
  | case1 => rfl
  | case2 => rfl
  | case3 a b rest ih => simp only [List.length_cons] at ih ⊢; omega

theorem addLast_length (ds : DType) (x : Nat) (ms : List Nat) : (addLast ds x ms).length = ms.length := by
  fun_induction addLast ds x ms with
  | case1 => rfl
  | case2 => rfl
  | case3 a rest _ ih => simp only [List.length_cons, ih]

theorem shiftMoments_ne_nil (ds : DType) (ms : List Nat) (h : ms ≠ []) : shiftMoments ds ms ≠ [] := by
  intro h0
  have := shiftMoments_length ds ms
  rw [h0] at this
  cases ms with
  | nil => exact h rfl
  | cons a t => simp at this

theorem addLast_ne_nil (ds : DType) (x : Nat) (ms : List Nat) (h : ms ≠ []) : addLast ds x ms ≠ [] := by
  intro h0
  have := addLast_length ds x ms
  rw [h0] at this
  cases ms with
  | nil => exact h rfl
  | cons a t => simp at this

/-- loop invariant of the inner loop: the first `o` entries are final, the rest still to shift -/
theorem shiftLoop_inv (ds : DType) (fuel o : Nat) (ms : List Nat) (h : o + fuel + 1 = ms.length) :
    shiftLoop ds fuel o ms = .ok (ms.take o ++ shiftMoments ds (ms.drop o)) := by
  induction fuel generalizing o ms with
  | zero =>
    have ho : o < ms.length := by omega
    have hd : ms.drop o = [ms[o]] := by
      rw [List.drop_eq_getElem_cons ho]
      have : ms.drop (o + 1) = [] := List.drop_eq_nil_of_le (by omega)
      rw [this]
    have hs : shiftMoments ds (ms.drop o) = ms.drop o := by rw [hd]; rfl
    simp only [shiftLoop, hs, List.take_append_drop]
  | succ fuel ih =>
    have ho : o < ms.length := by omega
    have ho1 : o + 1 < ms.length := by omega
    have hd : ms.drop o = ms[o] :: ms[o + 1] :: ms.drop (o + 2) := by
      rw [List.drop_eq_getElem_cons ho, List.drop_eq_getElem_cons ho1]
    have hlen : o + 1 + fuel + 1 = (ms.set o (ds.sAdd ms[o] ms[o + 1])).length := by
      rw [List.length_set]; omega
    have htake : (ms.set o (ds.sAdd ms[o] ms[o + 1])).take (o + 1) = ms.take o ++ [ds.sAdd ms[o] ms[o + 1]] := by
      rw [List.take_succ_eq_append_getElem (by rw [List.length_set]; exact ho)]
      rw [List.take_set_of_le (Nat.le_refl o)]
      simp
    have hdrop : (ms.set o (ds.sAdd ms[o] ms[o + 1])).drop (o + 1) = ms[o + 1] :: ms.drop (o + 2) := by
      rw [List.drop_set_of_lt (Nat.lt_succ_self o), List.drop_eq_getElem_cons ho1]
    simp only [shiftLoop, List.getElem?_eq_getElem ho, List.getElem?_eq_getElem ho1]
    rw [ih (o + 1) _ hlen, htake, hdrop, hd]
    simp only [shiftMoments, List.append_assoc, List.singleton_append]

/-- the inner loop of `reconstruct_nums` is `shiftMoments` -/
theorem shiftLoop_eq (ds : DType) (ms : List Nat) (h : ms ≠ []) :
    shiftLoop ds (ms.length - 1) 0 ms = .ok (shiftMoments ds ms) := by
  have hl : 0 < ms.length := List.length_pos_iff.mpr h
  have := shiftLoop_inv ds (ms.length - 1) 0 ms (by omega)
  simpa using this

/-- `moments[order - 1] = moments[order - 1].wrapping_add(delta)` is `addLast` -/
theorem set_last_eq_addLast (ds : DType) (x : Nat) (ms : List Nat) (a : Nat)
    (h : ms[ms.length - 1]? = some a) : ms.set (ms.length - 1) (ds.sAdd a x) = addLast ds x ms := by
  induction ms with
  | nil => simp at h
  | cons b t ih =>
    cases t with
    | nil =>
      simp only [List.length_cons, List.length_nil, Nat.zero_add, Nat.sub_self,
        List.getElem?_cons_zero, Option.some.injEq] at h
      subst h
      simp [addLast]
    | cons c t' =>
      have h' : (c :: t')[(c :: t').length - 1]? = some a := by
        simpa using h
      have := ih h'
      simp only [List.length_cons, Nat.add_sub_cancel] at this ⊢
      rw [List.set_cons_succ, this]
      simp [addLast]

/-- the outer loop: from any state with `order = ms.length ≥ 1`, the literal loop appends the abstract
numbers and ends with the abstract moments -/
theorem reconLoop_eq (d : DType) (deltas : List Nat) (k i : Nat) (ms res : List Nat) (h : ms ≠ []) :
    reconLoop d deltas ms.length k i ms res =
      .ok (res ++ (Op.reconNums d k ms (deltas.drop i)).1, (Op.reconNums d k ms (deltas.drop i)).2) := by
  induction k generalizing i ms res with
  | zero => simp [reconLoop, Op.reconNums]
  | succ k ih =>
    have hl : 0 < ms.length := List.length_pos_iff.mpr h
    have h0 : ms[0]? = some (ms.headD 0) := by
      cases ms with
      | nil => exact absurd rfl h
      | cons a t => simp
    have hs := shiftMoments_ne_nil d.signed ms h
    have hsl := shiftMoments_length d.signed ms
    rw [reconLoop]
    simp only [h0, shiftLoop_eq d.signed ms h]
    rw [if_neg (by omega)]
    by_cases hi : i < deltas.length
    · rw [if_pos hi]
      have hlast : ms.length - 1 < (shiftMoments d.signed ms).length := by omega
      simp only [List.getElem?_eq_getElem hlast, List.getElem?_eq_getElem hi]
      have hset := set_last_eq_addLast d.signed deltas[i] (shiftMoments d.signed ms)
        ((shiftMoments d.signed ms)[ms.length - 1])
        (by rw [List.getElem?_eq_getElem (by omega)]; simp only [hsl])
      rw [hsl] at hset
      rw [hset]
      have han := addLast_ne_nil d.signed deltas[i] _ hs
      have hal : (addLast d.signed deltas[i] (shiftMoments d.signed ms)).length = ms.length := by
        rw [addLast_length, hsl]
      have := ih (i + 1) _ (res ++ [d.fromS (ms.headD 0)]) han
      rw [hal] at this
      rw [this, List.drop_eq_getElem_cons hi]
      simp [Op.reconNums]
    · rw [if_neg hi]
      have := ih (i + 1) _ (res ++ [d.fromS (ms.headD 0)]) hs
      rw [hsl] at this
      rw [this, List.drop_eq_nil_of_le (by omega), List.drop_eq_nil_of_le (by omega)]
      simp [Op.reconNums]

/-- **`reconstruct_nums` is `Op.reconNums`** whenever there is at least one moment (delta order ≥ 1) or
nothing to reconstruct; in particular it does not panic -/
theorem reconstructNums_eq (d : DType) (moments deltas : List Nat) (n : Nat) (h : n = 0 ∨ moments ≠ []) :
    reconstructNums d moments deltas n = .ok (Op.reconNums d n moments deltas) := by
  unfold reconstructNums
  rcases h with h | h
  · subst h; simp [reconLoop, Op.reconNums]
  · simp only [reconLoop_eq d deltas n 0 moments [] h, List.drop_zero, List.nil_append]

theorem reconNums_moments_length (d : DType) (n : Nat) (moments deltas : List Nat) :
    (Op.reconNums d n moments deltas).2.length = moments.length := by
  induction n generalizing moments deltas with
  | zero => simp [Op.reconNums]
  | succ n ih =>
    cases deltas with
    | nil => simp only [Op.reconNums, ih, shiftMoments_length]
    | cons dl rest => simp only [Op.reconNums, ih, addLast_length, shiftMoments_length]

theorem reconNums_nums_length (d : DType) (n : Nat) (moments deltas : List Nat) :
    (Op.reconNums d n moments deltas).1.length = n := by
  induction n generalizing moments deltas with
  | zero => simp [Op.reconNums]
  | succ n ih =>
    cases deltas with
    | nil => simp only [Op.reconNums, List.length_cons, ih]
    | cons dl rest => simp only [Op.reconNums, List.length_cons, ih]

/-- with no moments and `n > 0` the real code panics (`moments[0]`); unreachable: the `Delta` variant has
order ≥ 1 -/
theorem reconstructNums_no_moments_panics (d : DType) (deltas : List Nat) (n : Nat) (h : 0 < n) :
    reconstructNums d [] deltas n = .panic := by
  cases n with
  | zero => omega
  | succ k => simp [reconstructNums, reconLoop]

end Qco.DecompLit
