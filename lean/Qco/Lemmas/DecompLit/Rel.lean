/-
Layer DL, part 1: the relations between the literal decompressor (`Qco.DecompLit`, over words) and the
abstract one (`Qco.Op`, over bit lists): results (`ErrRel`, `ResRel`), the body decompressor (`NdRel`,
`CRel`), the invariant of a body in progress the literal code relies on (`BOk`), and the simulation
relation `Sim`.
-/
import Qco.Op.DecompLit
import Qco.Lemmas.NumDec
import Qco.Lemmas.MetaIO
namespace Qco.DecompLit
open Qco Qco.WB Qco.Op Qco.NumDec Qco.MetaIO

/-! ### results -/

/-- the literal error kind `k` is the abstract error `e`; where the abstract model says `corrupt` the
real code may answer `InvalidArgument` for the 96-bit timestamp types (`ts`, see `MetaIO.CorruptKind`) -/
def ErrRel (ts : Prop) (k : String) : Op.Err → Prop
  | .insufficient => k = "InsufficientData"
  | .corrupt => CorruptKind ts k
  | .compat => k = "Compatibility"
  | .invalid => k = "InvalidArgument"

/-- literal outcome against abstract outcome: related values, related error kinds, never a panic -/
def ResRel {α β : Type} (ts : Prop) (rel : α → β → Prop) : R α → Out β → Prop
  | .ok a, .ok b => rel a b
  | .err k, .err e => ErrRel ts k e
  | _, _ => False

theorem ErrRel.insufficient_iff {ts : Prop} {k : String} {e : Op.Err} (h : ErrRel ts k e) :
    k = "InsufficientData" ↔ e = .insufficient := by
  cases e with
  | insufficient => exact ⟨fun _ => rfl, fun _ => h⟩
  | corrupt =>
    refine ⟨fun hk => ?_, fun he => by cases he⟩
    rcases h with h | ⟨_, h⟩ <;> rw [h] at hk <;> exact absurd hk (by decide)
  | compat =>
    refine ⟨fun hk => ?_, fun he => by cases he⟩
    have h' : k = "Compatibility" := h
    rw [h'] at hk; exact absurd hk (by decide)
  | invalid =>
    refine ⟨fun hk => ?_, fun he => by cases he⟩
    have h' : k = "InvalidArgument" := h
    rw [h'] at hk; exact absurd hk (by decide)

theorem ErrRel.mono {ts ts' : Prop} (hts : ts → ts') {k : String} {e : Op.Err} (h : ErrRel ts k e) :
    ErrRel ts' k e := by
  cases e with
  | corrupt => exact CorruptKind.mono hts h
  | insufficient => exact h
  | compat => exact h
  | invalid => exact h

theorem ResRel.no_panic {α β : Type} {ts : Prop} {rel : α → β → Prop} {x : R α} {y : Out β}
    (h : ResRel ts rel x y) : x ≠ .panic := by
  intro hx; subst hx; cases y <;> exact h

theorem ResRel.mono {α β : Type} {ts ts' : Prop} (hts : ts → ts') {rel : α → β → Prop} {x : R α}
    {y : Out β} (h : ResRel ts rel x y) : ResRel ts' rel x y := by
  cases x with
  | ok a => cases y with
    | ok b => exact h
    | err e => exact h
  | err k => cases y with
    | ok b => exact h
    | err e => exact ErrRel.mono hts h
  | panic => cases y <;> exact h

/-- the abstract error in the literal's vocabulary (the kinds of `NumDec.outToR`) -/
def errKind : Op.Err → String
  | .insufficient => "InsufficientData"
  | .corrupt => "Corruption"
  | .compat => "Compatibility"
  | .invalid => "InvalidArgument"

theorem errRel_errKind (ts : Prop) (e : Op.Err) : ErrRel ts (errKind e) e := by
  cases e
  · exact rfl
  · exact Or.inl rfl
  · exact rfl
  · exact rfl

theorem outToR_ok (ub : UBatch) : outToR (.ok ub) = .ok (ub.us, ub.finished) := rfl
theorem outToR_err (e : Op.Err) : outToR (.err e) = .err (errKind e) := by cases e <;> rfl

/-! ### the body decompressor -/

/-- the literal `NumDecompressor` is the one `NumDecompressor::new` built for the abstract body, in the
same state -/
def NdRel (ub : Nat) (nd : NumDecSt) (b : Body) : Prop :=
  nd.dec = mkDec ub b.n b.ps ∧ nd.compressedBodySize = b.bodyBytes ∧ nd.nProcessed = b.st.nProcessed ∧
  nd.bitsProcessed = b.st.bitsProcessed ∧ nd.inc = b.st.inc

/-- the literal `ChunkBodyDecompressor` against the abstract `Body`: the variant is the delta order -/
def CRel (ub : Nat) : CBD → Body → Prop
  | .simple nd, b => b.order = 0 ∧ NdRel ub nd b
  | .delta n nd ms np, b =>
    b.order ≠ 0 ∧ n = b.total ∧ ms = b.moments ∧ np = b.numsProcessed ∧ NdRel ub nd b

/-- What holds of the body decompressor of every state reachable through the API and what the literal
code needs for not panicking; `pos` is the committed absolute bit position.
* `n ≤ MAX_ENTRIES`, `body size < 2^32`: 24- and 32-bit metadata fields;
* `ps`: `validate_prefix_tree` passed, the ranges fit `U`, jumpstarts come from a 5-bit field — or the
  table is empty, which `NumDecompressor::new` only accepts for `n = 0`;
* `bits_le`: the bits processed in this body have all been committed;
* `delta`: the `Delta` variant has at least one moment (`moments[0]`), and the deltas left to decode are
  not more than the numbers left to hand out (`*n - *nums_processed` does not underflow). -/
structure BOk (ub : Nat) (pos : Nat) (b : Body) : Prop where
  n_le : b.n ≤ NumDec.maxEntries
  total_le : b.total ≤ NumDec.maxEntries
  body_lt : b.bodyBytes < 2 ^ 32
  np_le : b.st.nProcessed ≤ b.n
  inc : IncOk b.ps b.st.inc
  ps : PsOk ub b.ps ∨ (b.ps = [] ∧ b.n = 0)
  bits_le : b.st.bitsProcessed ≤ pos
  delta : b.order ≠ 0 → b.moments ≠ [] ∧ b.numsProcessed + (b.n - b.st.nProcessed) ≤ b.total

/-- relation on options -/
def ORel {α β : Type} (rel : α → β → Prop) : Option α → Option β → Prop
  | none, none => True
  | some a, some b => rel a b
  | _, _ => False

/-! ### the simulation relation -/

/-- **the simulation relation** between the literal `Decompressor<T>` and the abstract state:
* the words are a well-formed `BitWords` and `bit_idx` is inside them;
* the bits from `bit_idx` on are the abstract `rest`;
* the abstract (absolute) position is `bit_idx` plus the freed bits, a multiple of 64 (so that
  `matchStride`, which looks at the position modulo 64, sees the real word boundaries);
* same flags, related body decompressors (satisfying `BOk`), same `terminated`. -/
structure Sim (d : DType) (lit : LitSt) (abs : Op.St) : Prop where
  wf : lit.words.WF
  idx_le : lit.state.bitIdx ≤ lit.words.total
  rest : lit.words.toBits.drop lit.state.bitIdx = abs.rest
  pos : abs.pos = abs.freed + lit.state.bitIdx
  freed : abs.freed % 64 = 0
  flags : lit.state.flags = abs.flags
  body : ORel (fun c b => CRel d.uBits c b ∧ BOk d.uBits abs.pos b) lit.state.chunkBodyDecompressor abs.body
  term : lit.state.terminated = abs.terminated

/-- the size side-condition: the freed bits plus twice the bits held stay well below `usize::MAX`
(`bits_processed + reader.bit_idx()`, `bit_idx + bits_remaining`, and the hypotheses of the layers
below).  True of every run that has been fed fewer than `2^60` bytes. -/
def SizeOk (lit : LitSt) (abs : Op.St) : Prop := abs.freed + 128 * lit.words.ws.length + 2 ^ 36 < USIZE

theorem sim_init (d : DType) : Sim d LitSt.init Op.St.init :=
  ⟨wf_default, Nat.le_refl _, rfl, rfl, rfl, rfl, trivial, rfl⟩

theorem Sim.body_iff {d : DType} {lit : LitSt} {abs : Op.St} (h : Sim d lit abs) :
    lit.state.chunkBodyDecompressor.isSome = abs.body.isSome := by
  have := h.body
  cases hl : lit.state.chunkBodyDecompressor <;> cases ha : abs.body <;> rw [hl, ha] at this <;>
    first | rfl | exact this.elim

end Qco.DecompLit
