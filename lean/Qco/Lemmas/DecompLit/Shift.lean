/-
Shift invariance of the operational batch decoder (`Qco/Op/Decomp.lean`): the absolute reader
position is only used modulo 64 (Huffman stride lookup), modulo 8 (`drainEmptyByte`) and in
differences, so starting `64 * k` bits later gives the same outputs and positions shifted by `64 * k`.
-/
import Qco.Op.Decomp
namespace Qco.DecompLit
open Qco Qco.Op Qco.Parser

theorem matchStride_shift (pos k : Nat) (codes : List Bits) (s : Bits) :
    matchStride (pos + 64 * k) codes s = matchStride pos codes s := by
  unfold matchStride
  rw [Nat.add_mul_mod_self_left]

/-- shifting the reader position by `64 * k` -/
def Rd.shift (rd : Rd) (k : Nat) : Rd := { rd with pos := rd.pos + 64 * k }

/-- a matcher that only looks at the position modulo 64 (as far as a shift by `64 * k` goes) -/
def ShiftInv (L : Matcher) (k : Nat) : Prop :=
  ∀ pos codes s, L (pos + 64 * k) codes s = L pos codes s

theorem matchStride_shiftInv (k : Nat) : ShiftInv matchStride k :=
  fun pos codes s => matchStride_shift pos k codes s

/-- shift the position component of a unit result -/
def shiftRes (k : Nat) : Res (Nat × PState) → Res (Nat × PState)
  | .ok (x, (u, p)) r => .ok (x, (u, p + 64 * k)) r
  | .insufficient => .insufficient
  | .corrupt => .corrupt
  | .compat => .compat

theorem bind_shiftRes {α : Type} (k : Nat) (p : Parser α) (f f' : α → Parser (Nat × PState)) (s : Bits)
    (h : ∀ a r, f' a r = shiftRes k (f a r)) :
    Parser.bind p f' s = shiftRes k (Parser.bind p f s) := by
  unfold Parser.bind
  cases p s with
  | ok a r => exact h a r
  | insufficient => rfl
  | corrupt => rfl
  | compat => rfl

theorem unitL_shift (L : Matcher) (k : Nat) (hL : ShiftInv L k) (t : Table) (u : UState) (pos : Nat)
    (s : Bits) :
    unitL L t (u, pos + 64 * k) s = shiftRes k (unitL L t (u, pos) s) := by
  cases u with
  | some pr =>
    obtain ⟨p, rem⟩ := pr
    simp only [unitL]
    apply bind_shiftRes
    intro a r
    simp only [Parser.pure, shiftRes]
    congr 3; omega
  | none =>
    simp only [unitL]
    unfold Parser.bind
    rw [hL pos t.codes s]
    cases hm : L pos t.codes s with
    | insufficient => rfl
    | corrupt => rfl
    | compat => rfl
    | ok p r0 =>
      simp only
      cases hj : (t.info p).jump with
      | none =>
        simp only
        apply bind_shiftRes
        intro a r
        simp only [Parser.pure, shiftRes]
        congr 3; omega
      | some j =>
        simp only
        apply bind_shiftRes
        intro a r
        apply bind_shiftRes
        intro a' r'
        simp only [Parser.pure, shiftRes]
        congr 3; omega

theorem drainR_shift (L : Matcher) (k : Nat) (hL : ShiftInv L k) (t : Table) (m : Nat) (u : UState)
    (pos : Nat) (s : Bits) :
    drainR (unitL L t) m (u, pos + 64 * k) s
      = ((drainR (unitL L t) m (u, pos) s).1,
         ((drainR (unitL L t) m (u, pos) s).2.1.1, (drainR (unitL L t) m (u, pos) s).2.1.2 + 64 * k),
         (drainR (unitL L t) m (u, pos) s).2.2.1, (drainR (unitL L t) m (u, pos) s).2.2.2) := by
  induction m generalizing u pos s with
  | zero => simp only [drainR]
  | succ m ih =>
    simp only [drainR, unitL_shift L k hL]
    cases h : unitL L t (u, pos) s with
    | insufficient => simp only [shiftRes]
    | corrupt => simp only [shiftRes]
    | compat => simp only [shiftRes]
    | ok a r =>
      obtain ⟨x, u1, p1⟩ := a
      simp only [shiftRes, ih]

theorem drainEmptyByte_shift (rd : Rd) (k : Nat) :
    drainEmptyByte (Rd.shift rd k) = match drainEmptyByte rd with
      | .ok rd' => .ok (Rd.shift rd' k)
      | .err e => .err e := by
  have h8 : (rd.pos + 64 * k) % 8 = rd.pos % 8 := by omega
  simp only [drainEmptyByte, Rd.shift, h8]
  split
  · rfl
  · simp only [Rd.mk.injEq, Out.ok.injEq, true_and]; omega

theorem Rd.advance_shift (rd : Rd) (k : Nat) (r : Bits) :
    (Rd.shift rd k).advance r = Rd.shift (rd.advance r) k := by
  simp only [Rd.advance, Rd.shift, Rd.mk.injEq, true_and]; omega

theorem numBatchDirtyL_shift (L : Matcher) (k : Nat) (hL : ShiftInv L k) (b : Body) (limit : Nat)
    (eoi : Bool) (rd : Rd) :
    numBatchDirty L b limit eoi (Rd.shift rd k)
      = ((numBatchDirty L b limit eoi rd).1, (numBatchDirty L b limit eoi rd).2.1,
         Rd.shift (numBatchDirty L b limit eoi rd).2.2 k) := by
  unfold numBatchDirty
  simp only
  split
  · rfl
  · rw [Rd.advance_shift]
    have hd := drainR_shift L k hL (tableOf b.ps) (min (b.n - b.st.nProcessed) limit) b.st.inc rd.pos rd.bits
    have hp : (Rd.shift rd k).pos = rd.pos + 64 * k := rfl
    have hb : (Rd.shift rd k).bits = rd.bits := rfl
    rw [hp, hb, hd]
    generalize drainR (unitL L (tableOf b.ps)) (min (b.n - b.st.nProcessed) limit) (b.st.inc, rd.pos) rd.bits = D
    obtain ⟨us, ps', r, why⟩ := D
    simp only
    cases why with
    | none => rfl
    | some e =>
      cases e with
      | insufficient => cases eoi <;> rfl
      | corrupt => rfl
      | compat => rfl
      | invalid => rfl

theorem numBatchL_shift (L : Matcher) (k : Nat) (hL : ShiftInv L k) (b : Body) (limit : Nat)
    (eoi : Bool) (rd : Rd) :
    numBatch L b limit eoi (Rd.shift rd k)
      = ((numBatch L b limit eoi rd).1, (numBatch L b limit eoi rd).2.1,
         Rd.shift (numBatch L b limit eoi rd).2.2 k) := by
  unfold numBatch
  rw [numBatchDirtyL_shift L k hL]
  generalize numBatchDirty L b limit eoi rd = D
  obtain ⟨o, st', rd'⟩ := D
  cases o with
  | err e => rfl
  | ok ub =>
    simp only
    cases hf : ub.finished with
    | false =>
      have hsub : (Rd.shift rd' k).pos - (Rd.shift rd k).pos = rd'.pos - rd.pos := by
        simp only [Rd.shift]; omega
      simp only [Bool.false_eq_true, if_false, Bool.false_and, hsub]
    | true =>
      simp only [if_true, Bool.true_and, drainEmptyByte_shift]
      cases hde : drainEmptyByte rd' with
      | err e => rfl
      | ok rd'' =>
        have hsub : (Rd.shift rd'' k).pos - (Rd.shift rd k).pos = rd''.pos - rd.pos := by
          simp only [Rd.shift]; omega
        simp only [hsub]
        split <;> rfl

theorem nextBatchL_shift (L : Matcher) (k : Nat) (hL : ShiftInv L k) (d : DType) (b : Body)
    (limit : Nat) (eoi : Bool) (rd : Rd) :
    nextBatch L d b limit eoi (Rd.shift rd k)
      = ((nextBatch L d b limit eoi rd).1, (nextBatch L d b limit eoi rd).2.1,
         Rd.shift (nextBatch L d b limit eoi rd).2.2 k) := by
  unfold nextBatch
  rw [numBatchL_shift L k hL]
  generalize numBatch L b limit eoi rd = D
  obtain ⟨o, st', rd'⟩ := D
  cases o with
  | err e => rfl
  | ok ub =>
    simp only
    split <;> rfl

theorem numBatchDirty_shift (b : Body) (limit : Nat) (eoi : Bool) (rd : Rd) (k : Nat) :
    numBatchDirty matchStride b limit eoi (Rd.shift rd k)
      = ((numBatchDirty matchStride b limit eoi rd).1, (numBatchDirty matchStride b limit eoi rd).2.1,
         Rd.shift (numBatchDirty matchStride b limit eoi rd).2.2 k) :=
  numBatchDirtyL_shift matchStride k (matchStride_shiftInv k) b limit eoi rd

theorem numBatch_shift (b : Body) (limit : Nat) (eoi : Bool) (rd : Rd) (k : Nat) :
    numBatch matchStride b limit eoi (Rd.shift rd k)
      = ((numBatch matchStride b limit eoi rd).1, (numBatch matchStride b limit eoi rd).2.1,
         Rd.shift (numBatch matchStride b limit eoi rd).2.2 k) :=
  numBatchL_shift matchStride k (matchStride_shiftInv k) b limit eoi rd

theorem nextBatch_shift (d : DType) (b : Body) (limit : Nat) (eoi : Bool) (rd : Rd) (k : Nat) :
    nextBatch matchStride d b limit eoi (Rd.shift rd k)
      = ((nextBatch matchStride d b limit eoi rd).1, (nextBatch matchStride d b limit eoi rd).2.1,
         Rd.shift (nextBatch matchStride d b limit eoi rd).2.2 k) :=
  nextBatchL_shift matchStride k (matchStride_shiftInv k) d b limit eoi rd

end Qco.DecompLit
