/-
Layer DL, part 10: `simple_decompress` (the snapshot/restore of the state around
`simple_decompress_dirty`, whose `while` loop is run in lockstep with `Op.simpleLoop`; its fuel — the
remaining bytes plus two — suffices because every turn consumes the magic chunk byte).
-/
import Qco.Lemmas.DecompLit.Keeps
namespace Qco.DecompLit
open Qco Qco.WB Qco.Op Qco.NumDec Qco.MetaIO Qco.Parser

/-! ### every chunk metadata consumes at least its magic byte -/

theorem runAligned_chunk_len {gb : Nat → Nat} {d : DType} {fl : Flags} {rd rd1 : Rd} {m : ChunkMeta}
    (hrun : runAligned (Op.readChunkMeta gb d fl) rd = .ok (some m, rd1)) :
    rd1.bits.length + 8 ≤ rd.bits.length := by
  unfold runAligned at hrun
  split at hrun
  · cases hrun
  · unfold runParser at hrun
    split at hrun
    · rename_i a r hp
      simp only [Out.ok.injEq, Prod.mk.injEq] at hrun
      obtain ⟨rfl, rfl⟩ := hrun
      unfold Op.readChunkMeta at hp
      obtain ⟨b, r1, h1, h2⟩ := bind_ok_h hp
      rw [readNat_def] at h1
      split at h1
      · cases h1
      · rename_i hlen
        simp only [Res.ok.injEq] at h1
        obtain ⟨_, rfl⟩ := h1
        have hsuf : Suf (if b = Frozen.magicTerminationByte then Parser.pure none
            else if b = Frozen.magicChunkByte then Parser.map some (decChunkMeta gb d fl) else Parser.corrupt) :=
          suf_ite _ (suf_pure _) (suf_ite _ (suf_map _ (suf_decChunkMeta gb d fl)) suf_corrupt)
        obtain ⟨c, hc⟩ := hsuf _ _ _ h2
        have := congrArg List.length hc
        simp only [List.length_drop, List.length_append, Rd.advance] at this ⊢
        omega
    · cases hrun

theorem op_chunkMetadata_some_len (gb : Nat → Nat) (d : DType) (σ : Op.St) (m : ChunkMeta)
    (h : (Op.chunkMetadata gb d σ).1 = .ok (some m)) :
    (Op.chunkMetadata gb d σ).2.rest.length + 8 ≤ σ.rest.length := by
  revert h
  unfold Op.chunkMetadata
  split
  · intro h; cases h
  · split
    · intro h; cases h
    · rename_i fl hfl
      split
      · intro h; cases h
      · refine withReader_cases σ _ (fun r => r.1 = .ok (some m) → r.2.rest.length + 8 ≤ σ.rest.length) ?_ ?_
        · intro a σ' rd' hf ha
          simp only [Out.ok.injEq] at ha
          subst ha
          show rd'.bits.length + 8 ≤ σ.rest.length
          split at hf
          · cases hf
          · cases hf
          · rename_i m1 rd1 hrun
            have hlen := runAligned_chunk_len hrun
            split at hf
            · cases hf
            · simp only [Prod.mk.injEq] at hf
              obtain ⟨_, _, rfl⟩ := hf
              exact hlen
        · intro e σ' rd' _ ha
          cases ha

theorem op_chunkBody_len (d : DType) (σ : Op.St) :
    (Op.chunkBody matchStride d σ).2.rest.length ≤ σ.rest.length := by
  obtain ⟨c, hc, _⟩ := C07.chunkBody_advances matchStride d matchStride_ok σ
  rw [hc, List.length_append]
  omega

theorem Sim.rest_len {d : DType} {lit : LitSt} {abs : Op.St} (h : Sim d lit abs) :
    abs.rest.length = lit.words.total - lit.state.bitIdx := by
  rw [← h.rest, List.length_drop, h.wf.toBits_length]

/-! ### the loop -/

/-- the `while` loop of `simple_decompress_dirty` against `Op.simpleLoop`, with enough fuel -/
theorem simpleLoop_refines {d : DType} (hd : DOk d) {gb : Nat → Nat} (hgb : ∀ x, gb x ≤ d.uBits) :
    ∀ (fuel : Nat) {lit : LitSt} {abs : Op.St} (acc : List Nat), Sim d lit abs → SizeOk lit abs →
      abs.rest.length < 8 * fuel →
      ResRel (d.kind = .ts96) (fun a b => a = b) (simpleLoop gb d fuel lit acc).1
          (Op.simpleLoop matchStride gb d fuel abs acc).1 ∧
        Sim d (simpleLoop gb d fuel lit acc).2 (Op.simpleLoop matchStride gb d fuel abs acc).2 := by
  intro fuel
  induction fuel with
  | zero => intro lit abs acc _ _ hf; omega
  | succ fuel ih =>
    intro lit abs acc h hs hf
    unfold simpleLoop Op.simpleLoop
    obtain ⟨c1, c2⟩ := chunkMetadata_refines hd hgb h hs
    have hw1 := chunkMetadata_words gb d lit
    have hf1 := op_chunkMetadata_freed gb d abs
    have hl1 := op_chunkMetadata_some_len gb d abs
    generalize chunkMetadata gb d lit = CM at c1 c2 hw1 ⊢
    generalize Op.chunkMetadata gb d abs = ACM at c1 c2 hf1 hl1 ⊢
    obtain ⟨lo, lit1⟩ := CM
    obtain ⟨ao, abs1⟩ := ACM
    simp only at c1 c2 hw1 hf1 hl1
    cases lo with
    | ok a => cases ao with
      | ok b =>
        obtain ⟨f, _, hab⟩ := c1
        cases b with
        | none =>
          simp only [Option.map_none] at hab
          subst hab
          exact ⟨rfl, c2⟩
        | some m =>
          simp only [Option.map_some] at hab
          subst hab
          simp only
          have hs1 : SizeOk lit1 abs1 := hs.of_eq hw1 hf1
          obtain ⟨b1, b2⟩ := chunkBody_refines c2 hs1
          have hw2 := chunkBody_words d lit1
          have hf2 := op_chunkBody_freed matchStride d abs1
          have hl2 := op_chunkBody_len d abs1
          have hl1' := hl1 m rfl
          generalize chunkBody d lit1 = CB at b1 b2 hw2 ⊢
          generalize Op.chunkBody matchStride d abs1 = ACB at b1 b2 hf2 hl2 ⊢
          obtain ⟨lo2, lit2⟩ := CB
          obtain ⟨ao2, abs2⟩ := ACB
          simp only at b1 b2 hw2 hf2 hl2
          cases lo2 with
          | ok xs => cases ao2 with
            | ok ys =>
              replace b1 : xs = ys := b1
              subst b1
              exact ih (acc ++ xs) b2 (hs1.of_eq hw2 hf2) (by omega)
            | err e => exact b1.elim
          | err k => cases ao2 with
            | ok ys => exact b1.elim
            | err e => exact ⟨ErrRel.mono False.elim b1, b2⟩
          | panic => cases ao2 <;> exact b1.elim
      | err e => exact c1.elim
    | err k => cases ao with
      | ok b => exact c1.elim
      | err e => exact ⟨c1, c2⟩
    | panic => cases ao <;> exact c1.elim

/-! ### `simple_decompress` -/

/-- **`Decompressor::simple_decompress`** -/
theorem simpleDecompress_refines {d : DType} (hd : DOk d) {gb : Nat → Nat} (hgb : ∀ x, gb x ≤ d.uBits)
    {lit : LitSt} {abs : Op.St} (h : Sim d lit abs) (hs : SizeOk lit abs) :
    ResRel (d.kind = .ts96) (fun a b => a = b) (simpleDecompress gb d lit).1
        (Op.simpleDecompress matchStride gb d abs).1 ∧
      Sim d (simpleDecompress gb d lit).2 (Op.simpleDecompress matchStride gb d abs).2 := by
  unfold simpleDecompress simpleDecompressDirty Op.simpleDecompress
  obtain ⟨c1, c2⟩ := header_refines h hs
  have hw1 := header_words d lit
  have hf1 := op_header_freed d abs
  obtain ⟨c, hc, _⟩ := C07.header_advances d abs
  generalize header d lit = H at c1 c2 hw1 ⊢
  generalize Op.header d abs = AH at c1 c2 hf1 hc ⊢
  obtain ⟨lo, lit1⟩ := H
  obtain ⟨ao, abs1⟩ := AH
  simp only at c1 c2 hw1 hf1 hc
  have hrestore : ∀ σ' : LitSt, σ'.words = lit.words → Sim d { σ' with state := lit.state } abs := by
    intro σ' hw
    have : ({ σ' with state := lit.state } : LitSt) = lit := by
      cases σ'; cases lit; simp only at hw; simp only [hw]
    rw [this]; exact h
  cases lo with
  | ok a => cases ao with
    | ok b =>
      simp only
      rw [← h.rest_len]
      have hlen : abs1.rest.length < 8 * (abs.rest.length / 8 + 2) := by
        have := congrArg List.length hc
        rw [List.length_append] at this
        omega
      obtain ⟨l1, l2⟩ := simpleLoop_refines hd hgb (abs.rest.length / 8 + 2) [] c2 (hs.of_eq hw1 hf1) hlen
      have hw2 := simpleLoop_words gb d (abs.rest.length / 8 + 2) lit1 []
      generalize simpleLoop gb d (abs.rest.length / 8 + 2) lit1 [] = SL at l1 l2 hw2 ⊢
      generalize Op.simpleLoop matchStride gb d (abs.rest.length / 8 + 2) abs1 [] = ASL at l1 l2 ⊢
      obtain ⟨lo2, lit2⟩ := SL
      obtain ⟨ao2, abs2⟩ := ASL
      simp only at l1 l2 hw2
      cases lo2 with
      | ok xs => cases ao2 with
        | ok ys => exact ⟨l1, l2⟩
        | err e => exact l1.elim
      | err k => cases ao2 with
        | ok ys => exact l1.elim
        | err e => exact ⟨l1, hrestore lit2 (hw2.trans hw1)⟩
      | panic => cases ao2 <;> exact l1.elim
    | err e => exact c1.elim
  | err k => cases ao with
    | ok b => exact c1.elim
    | err e => exact ⟨ErrRel.mono False.elim c1, hrestore lit1 hw1⟩
  | panic => cases ao <;> exact c1.elim

end Qco.DecompLit
