/-
Layer E, part 12: the chunk API of the LITERAL decompressor (`header`, then `chunk_metadata` / `chunk_body` until the
termination byte) on the bytes of a well-formed file of the format: the flags, then chunk by chunk the metadata as
written and the chunk's values.  Composition of `C03.api_header`, `C03.api_chunk_meta`, `C03.api_chunk_body`,
`C03.api_footer` (abstract decompressor, explicit states) with the refinements of layer DL.
-/
import Qco.Lemmas.E2E.Decode
namespace Qco
namespace E2E
open Qco.WB Qco.Op Qco.DecompLit Qco.MetaIO

/-- the chunk API of the literal decompressor as a loop (mirrors `C03.apiChunks`): `chunk_metadata` /
`chunk_body` until `chunk_metadata` answers `None`, collecting each chunk's metadata and numbers; fuel bounds
the number of chunks -/
def litApiChunks (gb : Nat → Nat) (d : DType) : Nat → LitSt → R (List (RMeta × List Nat)) × LitSt
  | 0, σ => (.err "InsufficientData", σ)
  | fuel + 1, σ =>
    match DecompLit.chunkMetadata gb d σ with
    | (.err k, σ') => (.err k, σ')
    | (.panic, σ') => (.panic, σ')
    | (.ok none, σ') => (.ok [], σ')
    | (.ok (some m), σ') =>
      match DecompLit.chunkBody d σ' with
      | (.err k, σ'') => (.err k, σ'')
      | (.panic, σ'') => (.panic, σ'')
      | (.ok xs, σ'') =>
        match litApiChunks gb d fuel σ'' with
        | (.err k, σ3) => (.err k, σ3)
        | (.panic, σ3) => (.panic, σ3)
        | (.ok rest, σ3) => (.ok ((m, xs) :: rest), σ3)

/-- operations that write nothing keep the size condition -/
theorem sizeOk_step {gb : Nat → Nat} {d : DType} (op : DOp) (hop : OpOk op) (hw : opWords op = 0) {lit : LitSt}
    {abs : Op.St} (h : Sim d lit abs) (hs : SizeOk lit abs) :
    SizeOk (litStep gb d op lit).2 (DecompLit.absStep gb d op abs).2 := by
  have := step_size (gb := gb) op hop h 0 (by rw [hw]; unfold SizeOk at hs; omega)
  unfold SizeOk; omega

/-- the loop on the chunks of a file, from related states -/
theorem lit_api_run {d : DType} (hd : d ∈ Frozen.dtypes) {gb : Nat → Nat} (hgb : ∀ x, gb x ≤ d.uBits)
    (fl : Flags) (hp : (prefDType d fl).Ok) (hsg : d.signed.Ok) :
    ∀ (cs : List AChunk), (∀ c ∈ cs, c.WF gb d fl) → ∀ (rest : Bits) (p : Nat), p % 8 = 0 → ∀ (lit : LitSt),
      Sim d lit (Op.stIdle fl (cs.flatMap (encChunk gb d fl) ++ (natBits 8 Frozen.magicTerminationByte ++ rest)) p) →
      SizeOk lit (Op.stIdle fl (cs.flatMap (encChunk gb d fl) ++ (natBits 8 Frozen.magicTerminationByte ++ rest)) p) →
      (litApiChunks gb d (cs.length + 1) lit).1
        = .ok (cs.map fun c => (RMeta.ofSpec fl c.fixedMeta, chunkVals d fl c.toD)) := by
  have hdok := dok_of_mem hd
  intro cs
  induction cs with
  | nil =>
    intro _ rest p hpos lit hsim hsz
    simp only [List.flatMap_nil, List.nil_append] at hsim hsz
    obtain ⟨r1, _⟩ := chunkMetadata_refines hdok hgb hsim hsz
    rw [C03.api_footer gb d fl rest p hpos] at r1
    simp only [List.length_nil, litApiChunks, List.map_nil]
    rcases hcm : DecompLit.chunkMetadata gb d lit with ⟨r, σ'⟩
    rw [hcm] at r1
    cases r with
    | ok a =>
      obtain ⟨f, hf, ha⟩ : MetaRel (some fl) a none := r1
      simp only [Option.map_none] at ha
      subst ha
      rfl
    | err k => exact r1.elim
    | panic => exact r1.elim
  | cons c cs ih =>
    intro hcs rest p hpos lit hsim hsz
    have hc := hcs c List.mem_cons_self
    have hcs' : ∀ c' ∈ cs, c'.WF gb d fl := fun c' h => hcs c' (List.mem_cons_of_mem _ h)
    simp only [List.flatMap_cons, List.append_assoc] at hsim hsz
    -- `chunk_metadata`
    obtain ⟨r1, s1⟩ := chunkMetadata_refines hdok hgb hsim hsz
    have hz1 := sizeOk_step (gb := gb) .chunkMetadata trivial rfl hsim hsz
    have ha1 := C03.api_chunk_meta gb d fl c hp hsg hc
      (cs.flatMap (encChunk gb d fl) ++ (natBits 8 Frozen.magicTerminationByte ++ rest)) p hpos
    rw [ha1] at r1 s1
    have hz1' : SizeOk (DecompLit.chunkMetadata gb d lit).2
        (Op.chunkMetadata gb d (Op.stIdle fl (encChunk gb d fl c ++ (cs.flatMap (encChunk gb d fl)
          ++ (natBits 8 Frozen.magicTerminationByte ++ rest))) p)).2 := hz1
    rw [ha1] at hz1'
    simp only at s1 hz1'
    rcases hcm : DecompLit.chunkMetadata gb d lit with ⟨r, σ'⟩
    rw [hcm] at r1 s1 hz1'
    simp only at s1 hz1'
    cases r with
    | err k => exact r1.elim
    | panic => exact r1.elim
    | ok a =>
      obtain ⟨f, hf, ha⟩ : MetaRel (some fl) a (some c.fixedMeta) := r1
      cases hf
      simp only [Option.map_some] at ha
      subst ha
      -- `chunk_body`
      have hmod1 := C03.encChunkMeta_length_mod gb d fl c.fixedMeta
      have hpos2 : (p + (8 + (encChunkMeta gb d fl c.fixedMeta).length)) % 8 = 0 := by omega
      obtain ⟨r2, s2⟩ := chunkBody_refines s1 hz1'
      have hz2 := sizeOk_step (gb := gb) .chunkBody trivial rfl s1 hz1'
      have ha2 := C03.api_chunk_body matchStride matchStride_weakLazyOf gb d fl c hc
        (cs.flatMap (encChunk gb d fl) ++ (natBits 8 Frozen.magicTerminationByte ++ rest))
        (by simp only [List.length_append, natBits_length, lookahead]; omega) _ hpos2
      rw [ha2] at r2 s2
      have hz2' : SizeOk (DecompLit.chunkBody d σ').2
          (Op.chunkBody matchStride d (Op.stBody fl (freshBody fl c.fixedMeta)
            (encBody c.cm.prefixes c.blocks ++ (cs.flatMap (encChunk gb d fl)
              ++ (natBits 8 Frozen.magicTerminationByte ++ rest)))
            (p + (8 + (encChunkMeta gb d fl c.fixedMeta).length)))).2 := hz2
      rw [ha2] at hz2'
      simp only at s2 hz2'
      rcases hcb : DecompLit.chunkBody d σ' with ⟨r', σ''⟩
      rw [hcb] at r2 s2 hz2'
      simp only at s2 hz2'
      cases r' with
      | err k => exact r2.elim
      | panic => exact r2.elim
      | ok xs =>
        have hxs : xs = chunkVals d fl c.toD := r2
        subst hxs
        have hmod2 := C03.encBody_length_mod c.cm.prefixes c.blocks
        have hrec := ih hcs' rest _ (by omega) σ'' s2 hz2'
        show (litApiChunks gb d ((cs.length + 1) + 1) lit).1 = _
        rw [litApiChunks]
        simp only [hcm, hcb, List.map_cons]
        rcases hla : litApiChunks gb d (cs.length + 1) σ'' with ⟨r3, σ3⟩
        rw [hla] at hrec
        simp only at hrec
        rw [hrec]

/-- **the chunk API of the literal decompressor on the bytes of a file of the format** -/
theorem literal_api_file {d : DType} (hd : d ∈ Frozen.dtypes) {gb : Nat → Nat} (hgb : ∀ x, gb x ≤ d.uBits)
    (f : AFile) (hf : f.WF gb d) (bytes : List Nat) (hbytes : ∀ b ∈ bytes, b < 256)
    (hfile : bytesBits bytes = encodeFile gb d f)
    (hsize : 128 * (bytes.length / 8 + 1) + 2 ^ 36 < USIZE) :
    ∃ σ1, DecompLit.header d (DecompLit.write LitSt.init bytes) = (.ok f.flags, σ1) ∧
      (litApiChunks gb d (f.chunks.length + 1) σ1).1
        = .ok (f.chunks.map fun c => (RMeta.ofSpec f.flags c.fixedMeta, chunkVals d f.flags c.toD)) := by
  have hsim0 : Sim d (DecompLit.write LitSt.init bytes) (Op.write St.init (bytesBits bytes)) :=
    write_refines (sim_init d) bytes hbytes
  have hsz0 : SizeOk (DecompLit.write LitSt.init bytes) (Op.write St.init (bytesBits bytes)) := by
    have := step_size (gb := gb) (d := d) (.write bytes) hbytes (sim_init d) 0
      (by show 0 + 128 * (0 + (bytes.length / 8 + 1) + 0) + 2 ^ 36 < USIZE; omega)
    have this' : (Op.write St.init (bytesBits bytes)).freed
        + 128 * ((DecompLit.write LitSt.init bytes).words.ws.length + 0) + 2 ^ 36 < USIZE := this
    unfold SizeOk
    omega
  rw [hfile] at hsim0 hsz0
  have habs : Op.header d (Op.write St.init (encodeFile gb d f))
      = (.ok f.flags, Op.stIdle f.flags
          (f.chunks.flatMap (encChunk gb d f.flags) ++ (natBits 8 Frozen.magicTerminationByte ++ [])) 48) := by
    unfold encodeFile
    rw [List.append_assoc, List.append_nil]
    exact C03.api_header d f.flags hf.dtype_ok.header_lt hf.order_le _
  obtain ⟨r1, s1⟩ := header_refines hsim0 hsz0
  have hz1 : SizeOk (DecompLit.header d (DecompLit.write LitSt.init bytes)).2
      (Op.header d (Op.write St.init (encodeFile gb d f))).2 :=
    sizeOk_step (gb := gb) .header trivial rfl hsim0 hsz0
  rw [habs] at r1 s1 hz1
  simp only at s1 hz1
  rcases hh : DecompLit.header d (DecompLit.write LitSt.init bytes) with ⟨r, σ1⟩
  rw [hh] at r1 s1 hz1
  simp only at s1 hz1
  cases r with
  | err k => exact r1.elim
  | panic => exact r1.elim
  | ok fl =>
    have hfl : fl = f.flags := r1
    subst hfl
    exact ⟨σ1, rfl, lit_api_run hd hgb _ hf.pref_dtype_ok hf.signed_ok f.chunks hf.chunks_ok [] 48 (by omega)
      σ1 s1 hz1⟩

end E2E
end Qco
