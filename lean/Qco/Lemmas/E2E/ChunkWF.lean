/-
Layer E, part 7: the chunk written for the normalised trained table is a chunk of the format (`AChunk.WF`) and it
decodes to the chunk's numbers.
-/
import Qco.Lemmas.E2E.Table
import Qco.Lemmas.E2E.Norm
import Qco.Lemmas.E2E.Size
import Qco.Properties.C01e
namespace Qco
namespace E2E
open Train TrainLit
open Qco.MetaIO (commonField)

/-- HYPOTHESIS on the parameter `gb` (`gcd_bits_required`): the common-GCD field, written with the range
`U::MAX`, holds every value below `U::MAX`.  True of the library's `⌈log2 (U::MAX as f64)⌉ = U::BITS`. -/
def GbTop (gb : Nat → Nat) (d : DType) : Prop := d.M - 1 ≤ 2 ^ gb (d.M - 1)

/-! ### the normalised table, prefix by prefix -/

theorem mem_normTable {fl : Flags} {ps : List Prefix} {q : Prefix} (hq : q ∈ normTable fl ps) :
    ∃ p ∈ ps, q.count = p.count ∧ q.lower = p.lower ∧ q.upper = p.upper ∧ q.code = p.code ∧ q.jump = p.jump ∧
      (match commonField fl ps with
       | some g => q.gcd = g
       | none => q.gcd = p.gcd) := by
  unfold normTable at hq
  cases hc : commonField fl ps with
  | none => rw [hc] at hq; exact ⟨q, hq, rfl, rfl, rfl, rfl, rfl, rfl⟩
  | some g =>
    rw [hc] at hq
    obtain ⟨p, hp, rfl⟩ := List.mem_map.mp hq
    exact ⟨p, hp, rfl, rfl, rfl, rfl, rfl, rfl⟩

theorem normTable_codes (fl : Flags) (ps : List Prefix) :
    (normTable fl ps).map (·.code) = ps.map (·.code) := by
  unfold normTable; split
  · rw [List.map_map]; rfl
  · rfl

theorem coverB_normTable (fl : Flags) (ps : List Prefix) (us : List Nat) :
    coverB (normTable fl ps) us = coverB ps us := by
  unfold normTable; split
  · unfold coverB
    congr 1; funext u
    rw [List.any_map]; rfl
  · rfl

theorem lt_pow_countBits (fl : Flags) (n : Nat) (hn : n < 2 ^ 24) : n < 2 ^ fl.countBits n := by
  unfold Flags.countBits
  split
  · unfold clog2
    split
    · omega
    · rename_i h
      have : n + 1 - 1 = n := by omega
      rw [this]
      exact Nat.lt_log2_self
  · exact hn

theorem common_ge_one {gb : Nat → Nat} {level : Nat} {fl : Flags} {us : List Nat} {ps : List Prefix}
    (hT : Trained gb level fl.gcds us ps) {g : Nat} (hc : commonField fl ps = some g) : 1 ≤ g := by
  rcases (commonField_some hc).2.2 with h | ⟨p, hp, _, h⟩
  · omega
  · rw [← h]; exact trained_gcd_pos hT p hp

/-! ### the normalised table satisfies the congruence conjunct -/

theorem congruentB_normTable {gb : Nat → Nat} {level : Nat} {fl : Flags} {us : List Nat} {ps : List Prefix}
    (hT : Trained gb level fl.gcds us ps) : congruentB (normTable fl ps) us = true := by
  have hcong := (wfc_all hT.wfc).2.2.2.2.1
  unfold normTable
  cases hc : commonField fl ps with
  | none => exact hcong
  | some g =>
    have hg1 := common_ge_one hT hc
    simp only [congruentB, List.all_eq_true, Bool.and_eq_true, decide_eq_true_eq, beq_iff_eq]
    intro q hq
    obtain ⟨p, hp, rfl⟩ := List.mem_map.mp hq
    refine ⟨hg1, ?_⟩
    intro u hu
    rw [contains_setGcd] at hu
    obtain ⟨hum, huc⟩ := List.mem_filter.mp hu
    show (u - p.lower) % g = 0
    by_cases h : p.lower = p.upper
    · have := (contains_iff p u).1 huc
      have : u - p.lower = 0 := by omega
      rw [this]; exact Nat.zero_mod _
    · rw [← (commonField_some hc).2.1 p hp h]
      exact Nat.mod_eq_zero_of_dvd (trained_congr hT p hp u hum huc)

/-! ### the chunk is a chunk of the format -/

/-- **the chunk of a trained table, as the reader sees it, is a chunk of the format** -/
theorem trained_chunk_wf {gb : Nat → Nat} {level : Nat} {d : DType} {fl : Flags} {nums : List Nat}
    {ps : List Prefix} (hr : RowOk d) (hG : GbTop gb d) (h5 : fl.use5 = true) (hlev : level ≤ 12)
    (hT : Trained gb level fl.gcds (codedUs d fl nums) ps) (hc : CodesFit ps)
    (hv : ∀ v ∈ nums, NumOk d v) (hn : nums.length ≤ 2 ^ 24 - 1) :
    (CompLit.trainedOf fl d nums (normTable fl ps)).WF gb d fl := by
  have hvv : ∀ v ∈ nums, C12.valid d v := fun v h => (hv v h).1
  have hU := codedUs_lt hr fl nums hvv
  have hUV := codedUs_uValid hr fl nums hv
  obtain ⟨_, _, hcov, _, _, htree, hleaves⟩ := wfc_all hT.wfc
  have hcov' : coverB (normTable fl ps) (codedUs d fl nums) = true := by rw [coverB_normTable]; exact hcov
  have hcong' := congruentB_normTable hT
  obtain ⟨bs, hbs, hsome, heq⟩ := CompLit.trainedOf_eq hcov'
  rw [commonField_normTable] at hsome heq
  have huslen := CompLit.codedUs_length_le d fl nums
  have hbwf := C01.trained_chunk_blocks_wf hsome (by omega)
  have hus := C01.trained_chunk_us hsome hcong'
  rw [heq] at hbwf hus ⊢
  have hnums : blocksNums (tableOf (normTable fl ps)) bs = codedUs d fl nums := hus
  have hplen : (normTable fl ps).length < 2 ^ 15 := by
    rw [normTable_length]
    have : ps.length ≤ 2 ^ level := by simpa [leavesB] using hleaves
    have : 2 ^ level ≤ 2 ^ 12 := Nat.pow_le_pow_right (by omega) hlev
    omega
  have hne : normTable fl ps ≠ [] := by
    intro h
    have := normTable_length fl ps
    rw [h] at this
    exact hT.ne (List.eq_nil_of_length_eq_zero this.symm)
  have hM : (prefDType d fl).M = d.M := prefDType_M d fl
  have hMd : d.M = 2 ^ d.uBits := rfl
  refine ⟨?_, ?_, ?_, hplen, ?_, ?_, ?_, ?_, hbwf, ?_, ?_⟩
  · show nums.length < 2 ^ 24
    omega
  · exact sMoments_length _ _ _
  · intro m hm
    exact momentOk_of_valid hr (sMoments_valid d.signed fl.order _ (toS_valid_all d nums hvv) m hm)
  · -- the common field
    show match commonField fl ps with
      | some g => fl.gcds = true ∧ 1 ≤ g ∧
          (g = 1 ∨ (g - 1 < 2 ^ gb ((prefDType d fl).M - 1) ∧ g - 1 < (prefDType d fl).M - 1))
      | none => True
    cases hcf : commonField fl ps with
    | none => trivial
    | some g =>
      simp only
      refine ⟨(commonField_some hcf).1, common_ge_one hT hcf, ?_⟩
      rcases (commonField_some hcf).2.2 with h | ⟨p, hp, hnt, h⟩
      · exact Or.inl h
      · right
        have h1 := trained_gcd_pos hT p hp
        have h2 := trained_gcd_le hT p hp hnt
        have h3 := hU _ (hT.upper_mem p hp)
        have hG' : d.M - 1 ≤ 2 ^ gb (d.M - 1) := hG
        rw [hM]
        constructor <;> omega
  · -- the prefixes
    intro q hq
    obtain ⟨p, hp, e1, e2, e3, e4, e5, e6⟩ := mem_normTable hq
    have hcnt := trained_count_le hT p hp
    refine ⟨?_, ?_, ?_, ?_, ?_, ?_, ?_, ?_⟩
    · show q.count < 2 ^ fl.countBits nums.length
      have := lt_pow_countBits fl nums.length (by omega)
      omega
    · rw [e2]; exact hUV _ (hT.lower_mem p hp)
    · rw [e3]; exact hUV _ (hT.upper_mem p hp)
    · rw [e2, e3]; exact trained_bounds hT p hp
    · rw [e4]
      have : fl.codeLenBits = 5 := by unfold Flags.codeLenBits; rw [if_pos h5]
      rw [this]; exact hc p hp
    · rw [e5]; exact hT.jump_le p hp
    · cases hcf : commonField fl ps with
      | none => rw [hcf] at e6; simp only at e6; rw [e6]; exact trained_gcd_pos hT p hp
      | some g => rw [hcf] at e6; simp only at e6; rw [e6]; exact common_ge_one hT hcf
    · -- the divisor
      show if fl.gcds = true then
          (match (if fl.gcds = true then commonField fl ps else some 1) with
           | some g => q.gcd = g
           | none => q.gcd = 1 ∨ (q.gcd - 1 < 2 ^ gb (q.upper - q.lower) ∧ q.gcd - 1 < q.upper - q.lower))
        else q.gcd = 1
      cases hg : fl.gcds with
      | false =>
        simp only [Bool.false_eq_true, if_false]
        have hcf : commonField fl ps = none := by unfold commonField; rw [hg]; rfl
        rw [hcf] at e6
        simp only at e6
        rw [e6]; exact hT.gcd_off hg p hp
      | true =>
        simp only [if_true]
        cases hcf : commonField fl ps with
        | some g => rw [hcf] at e6; exact e6
        | none =>
          rw [hcf] at e6
          simp only at e6 ⊢
          rw [e6, e2, e3]
          have hnc : hasCommonLit fl.gcds ps = false := by rw [hasCommonLit_eq, hcf]; rfl
          by_cases hs : p.lower = p.upper
          · exact Or.inl (hT.gcd_single p hp hs)
          · rcases hT.gcd_fits hnc p hp with h | h
            · exact Or.inl h
            · right
              have h1 := trained_gcd_pos hT p hp
              have h2 := trained_gcd_le hT p hp hs
              refine ⟨?_, by omega⟩
              simpa [gcdFits] using h
  · -- the tree
    right
    show completeTree ((normTable fl ps).map (·.code)) = true
    rw [normTable_codes]
    have hps : ps.isEmpty = false := by
      cases ps with
      | nil => exact absurd rfl hT.ne
      | cons _ _ => rfl
    simpa [treeB, hps] using htree
  · intro h; exact absurd h hne
  · -- the count
    show (blocksNums (tableOf (normTable fl ps)) bs).length = bodyCount fl nums.length
    rw [hnums]
    unfold codedUs bodyCount
    split
    · rename_i h0; rw [List.length_map, h0]; rfl
    · rw [List.length_map, C18.sDiffN_length, List.length_map]
  · -- the body size
    show (encBody (normTable fl ps) bs).length / 8 < 2 ^ 32
    apply encBody_bytes_lt d.uBits hr.2.2.1 (normTable fl ps) ?_ ?_ ?_ bs hbwf (by rw [hnums]; omega)
    · intro q hq
      obtain ⟨p, hp, _, _, _, e4, _, _⟩ := mem_normTable hq
      rw [e4]; exact hc p hp
    · intro q hq
      obtain ⟨p, hp, _, _, e3, _, _, _⟩ := mem_normTable hq
      rw [e3]; exact hU _ (hT.upper_mem p hp)
    · intro q hq
      obtain ⟨p, hp, _, _, _, _, e5, _⟩ := mem_normTable hq
      rw [e5]; exact hT.jump_le p hp

/-- the chunk of an empty table (no coded numbers: at most `order` numbers) is a chunk of the format -/
theorem empty_chunk_wf {gb : Nat → Nat} {d : DType} {fl : Flags} {nums : List Nat} (hr : RowOk d)
    (hus : codedUs d fl nums = []) (hv : ∀ v ∈ nums, NumOk d v) (hn : nums.length ≤ 2 ^ 24 - 1) :
    (CompLit.trainedOf fl d nums []).WF gb d fl := by
  have hvv : ∀ v ∈ nums, C12.valid d v := fun v h => (hv v h).1
  have hcf : commonField fl [] = none := by
    unfold commonField; split <;> rfl
  have heq : CompLit.trainedOf fl d nums [] = { cm := C01.trainedMeta fl d nums [] none, blocks := [] } := by
    unfold CompLit.trainedOf C01.trainedChunk
    rw [hus, hcf]; rfl
  rw [heq]
  refine ⟨?_, sMoments_length _ _ _, ?_, (show ([] : List Prefix).length < 2 ^ 15 by decide), trivial, ?_, Or.inl rfl,
    ?_, ?_, ?_, (show (encBody [] []).length / 8 < 2 ^ 32 by decide)⟩
  · show nums.length < 2 ^ 24
    omega
  · intro m hm
    exact momentOk_of_valid hr (sMoments_valid d.signed fl.order _ (toS_valid_all d nums hvv) m hm)
  · intro p hp; cases hp
  · intro _
    show bodyCount fl nums.length = 0
    have := congrArg List.length hus
    unfold codedUs at this
    unfold bodyCount
    split at this
    · simp only [List.length_map, List.length_nil] at this; omega
    · simp only [List.length_map, C18.sDiffN_length, List.length_nil] at this; exact this
  · intro b hb; cases hb
  · show (0 : Nat) = bodyCount fl nums.length
    have := congrArg List.length hus
    unfold codedUs at this
    unfold bodyCount
    split at this
    · simp only [List.length_map, List.length_nil] at this; omega
    · simp only [List.length_map, C18.sDiffN_length, List.length_nil] at this; omega

end E2E
end Qco
