/-
Layer E, part 3: the common-GCD field.

`common_gcd_for_chunk_meta` is modelled twice in the project (`Qco.MetaIO.commonGcdForChunkMeta` on prefixes, the
writer's; `Qco.GcdLit.commonGcdForChunkMeta` on `(lower, upper, gcd)` triples, training's): they are the same
function.  What the writer's choice `commonField` means, and the NORMALISED table `normTable`: when the writer emits
a common-GCD field `g`, no prefix carries a divisor of its own and the reader gives EVERY prefix the divisor `g` —
also a single-valued range, for which `train_prefixes` recorded 1.  `normTable` is the table as the reader sees it.
-/
import Qco.Lemmas.E2E.Trained
import Qco.Lemmas.MetaIO
import Qco.Lemmas.GcdLit
namespace Qco
namespace E2E
open Train TrainLit
open Qco.MetaIO (commonField)

/-! ### the two models of `common_gcd_for_chunk_meta` agree -/

theorem commonGcdLoop_eq : ∀ (ps : List Prefix) (share : Bool) (gcd : Option Nat),
    MetaIO.commonGcdLoop ps share gcd = GcdLit.commonLoop (ps.map gpOfPrefix) share gcd
  | [], _, _ => rfl
  | p :: ps, share, gcd => by
    rw [List.map_cons, MetaIO.commonGcdLoop, GcdLit.commonLoop]
    by_cases h : p.upper = p.lower
    · have hb : (p.upper != p.lower) = false := by simp [h]
      rw [hb, if_neg (by simp),
        if_neg (show ¬ ((gpOfPrefix p).upper ≠ (gpOfPrefix p).lower) from fun hn => hn h)]
      exact commonGcdLoop_eq ps share gcd
    · have hb : (p.upper != p.lower) = true := by simp [h]
      rw [hb, if_pos rfl, if_pos (show (gpOfPrefix p).upper ≠ (gpOfPrefix p).lower from h)]
      split
      · exact commonGcdLoop_eq ps share _
      · exact commonGcdLoop_eq ps false gcd

theorem commonGcdForChunkMeta_eq (ps : List Prefix) :
    MetaIO.commonGcdForChunkMeta ps = GcdLit.commonGcdForChunkMeta (ps.map gpOfPrefix) := by
  unfold MetaIO.commonGcdForChunkMeta GcdLit.commonGcdForChunkMeta
  rw [commonGcdLoop_eq, List.length_map]
  rcases GcdLit.commonLoop (ps.map gpOfPrefix) true none with ⟨share, gcd⟩
  cases ps.length <;> cases share <;> cases gcd <;> rfl

/-- a range with more than one value -/
def nontriv (p : Prefix) : Bool := p.lower != p.upper

/-- `common_gcd_for_chunk_meta` by cases on the ranges with more than one value -/
theorem commonMeta_spec (ps : List Prefix) :
    MetaIO.commonGcdForChunkMeta ps =
      (match ps, ps.filter nontriv with
       | [], _ => none
       | _, [] => some 1
       | _, [p] => some p.gcd
       | _, _ => none) := by
  rw [commonGcdForChunkMeta_eq, GcdLit.commonGcdForChunkMeta_spec]
  have hf : (ps.map gpOfPrefix).filter (fun p => p.lower != p.upper) = (ps.filter nontriv).map gpOfPrefix := by
    rw [List.filter_map]; rfl
  rw [hf]
  cases ps with
  | nil => rfl
  | cons q qs =>
    simp only [List.map_cons]
    generalize List.filter nontriv (q :: qs) = nt
    match nt with
    | [] => rfl
    | [_] => rfl
    | _ :: _ :: _ => rfl

/-- the `hasCommon` given to the judge is "the writer emits a common-GCD field" -/
theorem hasCommonLit_eq (fl : Flags) (ps : List Prefix) :
    hasCommonLit fl.gcds ps = (commonField fl ps).isSome := by
  unfold hasCommonLit commonField
  rw [commonGcdForChunkMeta_eq]
  cases fl.gcds <;> simp

/-- a common field `g`: GCDs are on, every range with more than one value has divisor `g`, and `g` is 1 or the
divisor of such a range -/
theorem commonField_some {fl : Flags} {ps : List Prefix} {g : Nat} (h : commonField fl ps = some g) :
    fl.gcds = true ∧ (∀ p ∈ ps, p.lower ≠ p.upper → p.gcd = g) ∧
      (g = 1 ∨ ∃ p ∈ ps, p.lower ≠ p.upper ∧ p.gcd = g) := by
  unfold commonField at h
  cases hg : fl.gcds with
  | false => rw [hg] at h; cases h
  | true =>
    rw [hg] at h
    simp only [if_true] at h
    rw [commonMeta_spec] at h
    refine ⟨rfl, ?_⟩
    cases ps with
    | nil => cases h
    | cons q qs =>
      have hmem : ∀ p ∈ q :: qs, p.lower ≠ p.upper → p ∈ List.filter nontriv (q :: qs) := by
        intro p hp hne
        exact List.mem_filter.mpr ⟨hp, by simp [nontriv, hne]⟩
      generalize hnt : List.filter nontriv (q :: qs) = nt at h hmem
      match nt, h with
      | [], h =>
        refine ⟨fun p hp hne => ?_, Or.inl (by cases h; rfl)⟩
        exact absurd (hmem p hp hne) (by simp)
      | [x], h =>
        have hx : x.gcd = g := by cases h; rfl
        refine ⟨fun p hp hne => ?_, Or.inr ⟨x, ?_, ?_, hx⟩⟩
        · have := hmem p hp hne
          rw [List.mem_singleton] at this
          rw [this, hx]
        · have : x ∈ List.filter nontriv (q :: qs) := by rw [hnt]; simp
          exact (List.mem_filter.mp this).1
        · have : x ∈ List.filter nontriv (q :: qs) := by rw [hnt]; simp
          have := (List.mem_filter.mp this).2
          simpa [nontriv] using this
      | _ :: _ :: _, h => cases h

/-! ### the table as the reader sees it -/

/-- give a prefix the divisor `g` -/
def setGcd (g : Nat) (p : Prefix) : Prefix := { p with gcd := g }

/-- the table as the reader sees it: with a common-GCD field `g`, every prefix has divisor `g` -/
def normTable (fl : Flags) (ps : List Prefix) : List Prefix :=
  match commonField fl ps with
  | some g => ps.map (setGcd g)
  | none => ps

theorem filter_nontriv_setGcd (g : Nat) (ps : List Prefix) :
    (ps.map (setGcd g)).filter nontriv = (ps.filter nontriv).map (setGcd g) := by
  rw [List.filter_map]; rfl

/-- normalising does not change the writer's choice -/
theorem commonField_normTable (fl : Flags) (ps : List Prefix) :
    commonField fl (normTable fl ps) = commonField fl ps := by
  unfold normTable
  cases hc : commonField fl ps with
  | none => exact hc
  | some g =>
    simp only
    unfold commonField at hc ⊢
    cases hg : fl.gcds with
    | false => rw [hg] at hc; cases hc
    | true =>
      rw [hg] at hc
      simp only [if_true] at hc ⊢
      rw [commonMeta_spec] at hc ⊢
      rw [filter_nontriv_setGcd]
      cases ps with
      | nil => cases hc
      | cons q qs =>
        simp only [List.map_cons] at hc ⊢
        generalize List.filter nontriv (q :: qs) = nt at hc
        match nt, hc with
        | [], hc => exact hc
        | [x], hc => rfl
        | _ :: _ :: _, hc => cases hc

theorem normTable_length (fl : Flags) (ps : List Prefix) : (normTable fl ps).length = ps.length := by
  unfold normTable; split <;> simp

/-- the normalised table differs from the table only in the divisor of prefixes, and only of single-valued
ranges (or not at all) -/
theorem normTable_eq_map (fl : Flags) (ps : List Prefix) :
    ∃ g, normTable fl ps = ps.map (setGcd g) ∧ (∀ p ∈ ps, p.gcd = g ∨ p.lower = p.upper) ∨
      normTable fl ps = ps := by
  unfold normTable
  cases hc : commonField fl ps with
  | none => exact ⟨0, Or.inr rfl⟩
  | some g =>
    refine ⟨g, Or.inl ⟨rfl, ?_⟩⟩
    intro p hp
    by_cases h : p.lower = p.upper
    · exact Or.inr h
    · exact Or.inl ((commonField_some hc).2.1 p hp h)

end E2E
end Qco
