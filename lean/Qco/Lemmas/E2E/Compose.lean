/-
Layer E, part 9: the literal compressor WITH the literal `train_prefixes` as its training oracle emits a
well-formed file of the format whose numbers are the input.

* `trainOracle`   the literal `train_prefixes` (`TrainLit.trainLit`) as the oracle `CompLit.chunk` calls;
* `trainedTable`  the table it answers for the numbers of a chunk;
* `ChunkOk`       what is asked of a chunk;
* `readerFile`    the file of the abstract syntax the emitted bytes encode (tables as the reader sees them);
* `compress_is_file`  the composition of layers TL and CL with the lemmas of this directory.
-/
import Qco.Lemmas.E2E.ChunkWF
import Qco.Lemmas.E2E.Run
namespace Qco
namespace E2E
open Train TrainLit
open Qco.WB Qco.MetaIO Qco.Op Qco.CompLit

/-- the literal `train_prefixes::<T>` as the training oracle of `Compressor::<T>::chunk`: the level comes from the
internal configuration, `use_gcds` from the flags, `U::BITS` from the type; `Err(invalid argument)` and a panic
are passed on -/
def trainOracle {C : Type} (F : Floats) (O : CostOracle C) (pick : Nat → List HItem → Nat) (gb : Nat → Nat)
    (d : DType) : Oracle :=
  fun unsigneds ic fl n =>
    match trainLit F O pick d.uBits gb unsigneds ic.compressionLevel fl.gcds n with
    | .ok (some ps) => .ok ps
    | .ok none => .err "InvalidArgument"
    | .panic => .panic

/-- the table `train_prefixes` answers for the numbers of a chunk (`[]` if it does not answer `Ok`) -/
def trainedTable {C : Type} (F : Floats) (O : CostOracle C) (pick : Nat → List HItem → Nat) (gb : Nat → Nat)
    (d : DType) (cfg : CConfig) (nums : List Nat) : List Prefix :=
  match trainOracle F O pick gb d (codedUs d cfg.flags nums) { compressionLevel := cfg.level } cfg.flags
      nums.length with
  | .ok ps => ps
  | _ => []

/-- what is asked of a chunk: not empty, at most `MAX_ENTRIES = 2^24 − 1` numbers (else `chunk` answers
`InvalidArgument`), every number a value of the type, the three float computations of training agree with their
integer readings on the chunk's size (`FloatsAgree`, `RunWeightOK`: see layer TL), and — the one thing training
does not guarantee — the codes of the trained table are shorter than 32 bits (`CodesFit`) -/
structure ChunkOk {C : Type} (F : Floats) (O : CostOracle C) (pick : Nat → List HItem → Nat) (gb : Nat → Nat)
    (d : DType) (cfg : CConfig) (nums : List Nat) : Prop where
  ne : nums ≠ []
  len : nums.length ≤ 2 ^ 24 - 1
  nums_ok : ∀ v ∈ nums, NumOk d v
  floats : FloatsAgree F (codedUs d cfg.flags nums).length
  weight : RunWeightOK F (codedUs d cfg.flags nums).length
  codes : CodesFit (trainedTable F O pick gb d cfg nums)

/-- the chunk of the abstract syntax the reader sees for the numbers of a chunk -/
def readerChunk {C : Type} (F : Floats) (O : CostOracle C) (pick : Nat → List HItem → Nat) (gb : Nat → Nat)
    (d : DType) (cfg : CConfig) (nums : List Nat) : AChunk :=
  trainedOf cfg.flags d nums (normTable cfg.flags (trainedTable F O pick gb d cfg nums))

/-- the file of the abstract syntax the emitted bytes encode -/
def readerFile {C : Type} (F : Floats) (O : CostOracle C) (pick : Nat → List HItem → Nat) (gb : Nat → Nat)
    (d : DType) (cfg : CConfig) (chunks : List (List Nat)) : AFile :=
  { flags := cfg.flags, chunks := chunks.map (readerChunk F O pick gb d cfg) }

section
variable {C : Type} {F : Floats} {O : CostOracle C} {pick : Nat → List HItem → Nat} {gb est : Nat → Nat}
  {d : DType} {cfg : CConfig}

/-! ### one chunk -/

theorem normTable_nil (fl : Flags) : normTable fl [] = [] := by
  unfold normTable commonField
  split <;> rfl

/-- everything the composition needs of one chunk -/
theorem chunk_facts (hr : RowOk d) (hG : GbTop gb d) (hlev : cfg.level ≤ 12) (hfin : CostFinite O)
    (hp : PickOK pick) {nums : List Nat} (hc : ChunkOk F O pick gb d cfg nums) :
    trainOracle F O pick gb d (codedUs d cfg.flags nums) { compressionLevel := cfg.level } cfg.flags nums.length
        = .ok (trainedTable F O pick gb d cfg nums) ∧
    TableOk d cfg.flags nums (trainedTable F O pick gb d cfg nums) ∧
    (readerChunk F O pick gb d cfg nums).WF gb d cfg.flags ∧
    coverB (normTable cfg.flags (trainedTable F O pick gb d cfg nums)) (codedUs d cfg.flags nums) = true ∧
    congruentB (normTable cfg.flags (trainedTable F O pick gb d cfg nums)) (codedUs d cfg.flags nums) = true := by
  have hvv : ∀ v ∈ nums, C12.valid d v := fun v h => (hc.nums_ok v h).1
  have hcodes := hc.codes
  by_cases hus : codedUs d cfg.flags nums = []
  · -- no coded numbers: the empty table
    have hor : trainOracle F O pick gb d (codedUs d cfg.flags nums) { compressionLevel := cfg.level } cfg.flags
        nums.length = .ok [] := by
      rw [hus]; rfl
    have htt : trainedTable F O pick gb d cfg nums = [] := by
      unfold trainedTable; rw [hor]
    unfold readerChunk
    rw [htt, hor, normTable_nil]
    refine ⟨rfl, tableOk_nil hus, empty_chunk_wf hr hus hc.nums_ok hc.len, by rw [hus]; rfl, rfl⟩
  · -- the trained table
    have hU := codedUs_lt hr cfg.flags nums hvv
    obtain ⟨ps, hps, hT⟩ := trainLit_trained F O pick d.uBits gb (codedUs d cfg.flags nums) cfg.level
      cfg.flags.gcds nums.length hus hlev (by unfold MAX_ENTRIES; exact hc.len)
      (codedUs_length_le d cfg.flags nums) hU hc.floats hc.weight hfin hp
    have hor : trainOracle F O pick gb d (codedUs d cfg.flags nums) { compressionLevel := cfg.level } cfg.flags
        nums.length = .ok ps := by
      unfold trainOracle
      simp only [hps]
    have htt : trainedTable F O pick gb d cfg nums = ps := by
      unfold trainedTable; rw [hor]
    rw [htt] at hcodes
    unfold readerChunk
    rw [htt, hor]
    refine ⟨rfl, tableOk_of_trained hT hU hc.len hcodes,
      trained_chunk_wf hr hG rfl hlev hT hcodes hc.nums_ok hc.len, ?_, congruentB_normTable hT⟩
    rw [coverB_normTable]
    exact (wfc_all hT.wfc).2.2.1

/-- the chunk of the table and the chunk the reader sees record the chunk's size -/
theorem trainedOf_n {fl : Flags} {nums : List Nat} {ps : List Prefix}
    (hcov : coverB ps (codedUs d fl nums) = true) : (trainedOf fl d nums ps).cm.n = nums.length := by
  obtain ⟨_, _, _, h⟩ := trainedOf_eq hcov
  rw [h]; rfl

/-! ### histories -/

/-- a call that is not `drain_bytes` / `byte_size` -/
def TOp.isCall : TOp → Bool
  | .drain => false
  | .byteSize => false
  | _ => true

/-- a history without its `drain_bytes` / `byte_size` calls -/
def stripT (ops : List TOp) : List TOp := ops.filter TOp.isCall

/-- `header; chunk c₁; …; chunk cₖ; footer` -/
def canonical (chunks : List (List Nat)) : List TOp := .header :: (chunks.map .chunk ++ [.footer])

theorem stripDrains_absTs (fl : Flags) (tbl : List Nat → List Prefix) (ops : List TOp) :
    C09.stripDrains (absTs fl d tbl ops) = absTs fl d tbl (stripT ops) := by
  induction ops with
  | nil => rfl
  | cons op ops ih =>
    cases op with
    | header => exact congrArg (COp.header :: ·) ih
    | chunk nums => exact congrArg (COp.chunk nums.length (trainedOf fl d nums (tbl nums)) :: ·) ih
    | footer => exact congrArg (COp.footer :: ·) ih
    | drain => exact ih
    | byteSize => exact ih

theorem histCost_strip (tbl : List Nat → List Prefix) (ops : List TOp) :
    histCost gb d cfg tbl ops = histCost gb d cfg tbl (stripT ops) := by
  induction ops with
  | nil => rfl
  | cons op ops ih =>
    unfold histCost stripT at ih ⊢
    cases op <;>
      simp only [List.map_cons, List.sum_cons, List.filter_cons, TOp.isCall, opCost, Bool.false_eq_true,
        if_false, if_true, ih, Nat.zero_add]

theorem histCost_canonical (tbl : List Nat → List Prefix) (chunks : List (List Nat)) :
    histCost gb d cfg tbl (canonical chunks)
      = (encodeFile gb d { flags := cfg.flags,
                           chunks := chunks.map fun c => trainedOf cfg.flags d c (tbl c) }).length := by
  unfold histCost canonical encodeFile
  simp only [List.map_cons, List.map_append, List.map_map, List.sum_cons, List.sum_append, List.map_nil,
    List.sum_nil, opCost, List.length_append, List.length_flatMap, natBits_length, Function.comp_def]
  omega

theorem absTs_canonical (tbl : List Nat → List Prefix) (chunks : List (List Nat))
    (hcov : ∀ c ∈ chunks, coverB (tbl c) (codedUs d cfg.flags c) = true) :
    absTs cfg.flags d tbl (canonical chunks)
      = C01.history (chunks.map fun c => trainedOf cfg.flags d c (tbl c)) := by
  unfold absTs canonical C01.history
  simp only [List.filterMap_cons, absT, List.filterMap_append, List.filterMap_nil, List.map_map]
  congr 2
  rw [List.filterMap_map]
  have : (absT cfg.flags d tbl ∘ TOp.chunk)
      = fun c => some (COp.chunk c.length (trainedOf cfg.flags d c (tbl c))) := rfl
  rw [this, List.filterMap_eq_map']
  apply List.map_congr_left
  intro c hc
  simp only [Function.comp, trainedOf_n (hcov c hc)]

theorem flatMap_congr' {α β : Type} {f g : α → List β} : ∀ {l : List α}, (∀ a ∈ l, f a = g a) →
    l.flatMap f = l.flatMap g
  | [], _ => rfl
  | a :: l, h => by
    rw [List.flatMap_cons, List.flatMap_cons, h a List.mem_cons_self,
      flatMap_congr' (fun b hb => h b (List.mem_cons_of_mem _ hb))]

/-- the chunk of the abstract syntax the WRITER emits for the numbers of a chunk (the table as trained) -/
def writerChunk {C : Type} (F : Floats) (O : CostOracle C) (pick : Nat → List HItem → Nat) (gb : Nat → Nat)
    (d : DType) (cfg : CConfig) (nums : List Nat) : AChunk :=
  trainedOf cfg.flags d nums (trainedTable F O pick gb d cfg nums)

/-- what the writer emits is, bit for bit, the encoding of the file the reader sees -/
theorem encodeFile_writer_eq_reader (chunks : List (List Nat)) :
    encodeFile gb d { flags := cfg.flags, chunks := chunks.map (writerChunk F O pick gb d cfg) }
      = encodeFile gb d (readerFile F O pick gb d cfg chunks) := by
  have hflat : (chunks.map (writerChunk F O pick gb d cfg)).flatMap (encChunk gb d cfg.flags)
      = (chunks.map (readerChunk F O pick gb d cfg)).flatMap (encChunk gb d cfg.flags) := by
    rw [List.flatMap_map, List.flatMap_map]
    apply flatMap_congr'
    intro c _
    exact (encChunk_normTable gb d cfg.flags c (trainedTable F O pick gb d cfg c)).symm
  show encHeader d cfg.flags ++ (chunks.map (writerChunk F O pick gb d cfg)).flatMap (encChunk gb d cfg.flags) ++ _
    = encHeader d cfg.flags ++ (chunks.map (readerChunk F O pick gb d cfg)).flatMap (encChunk gb d cfg.flags) ++ _
  rw [hflat]

/-- **the literal compressor with the literal training emits a well-formed file holding the input.**  For a
history that is `header; chunk c₁; …; chunk cₖ; footer` with `drain_bytes` / `byte_size` calls anywhere, on the
compressor `from_config(cfg)` whose `chunk` calls the literal `train_prefixes`: the run does not panic;
everything it emits (the drained bytes, then what is still pending) is `encodeFile` of `readerFile`; that file is
a file of the format (`AFile.WF`) and its values are `c₁, …, cₖ`; the drained bytes are bytes. -/
theorem compress_is_file (hr : RowOk d) (hgb : ∀ x, gb x ≤ d.uBits) (hG : GbTop gb d)
    (hest : BodyWriter.EstOk d.uBits est) (ho : cfg.order ≤ 7) (hlev : cfg.level ≤ 12) (hfin : CostFinite O)
    (hp : PickOK pick) (chunks : List (List Nat)) (hch : ∀ c ∈ chunks, ChunkOk F O pick gb d cfg c)
    (ops : List TOp) (hshape : stripT ops = canonical chunks)
    (hsz : (encodeFile gb d (readerFile F O pick gb d cfg chunks)).length + 32 < USIZE) :
    ∃ out l', tRun gb est d (trainOracle F O pick gb d) ops (Comp.fromConfig cfg) [] = .ok (out, l') ∧
      bytesBits out ++ l'.writer.bits = encodeFile gb d (readerFile F O pick gb d cfg chunks) ∧
      bytesBits out = C09.drained gb d cfg (absTs cfg.flags d (trainedTable F O pick gb d cfg) ops) ∧
      CSim cfg l' (C09.finalSt gb d cfg (absTs cfg.flags d (trainedTable F O pick gb d cfg) ops)) ∧
      (∀ b ∈ out, b < 256) ∧
      (readerFile F O pick gb d cfg chunks).WF gb d ∧
      fileVals d (readerFile F O pick gb d cfg chunks).toD = chunks := by
  have henv : EnvOk gb est d :=
    ⟨hr.2.2.1, hr.1, fun x => Nat.le_trans (hgb x) (Nat.le_max_left _ _), hest⟩
  have hfacts := fun c hc => chunk_facts hr hG hlev hfin hp (hch c hc)
  have hcov : ∀ c ∈ chunks, coverB (trainedTable F O pick gb d cfg c) (codedUs d cfg.flags c) = true :=
    fun c hc => (hfacts c hc).2.1.cover
  have hsame := encodeFile_writer_eq_reader (F := F) (O := O) (pick := pick) (gb := gb) (d := d) (cfg := cfg) chunks
  -- the run
  have hmem : ∀ nums, TOp.chunk nums ∈ ops → nums ∈ chunks := by
    intro nums h
    have h1 : TOp.chunk nums ∈ stripT ops := List.mem_filter.mpr ⟨h, rfl⟩
    rw [hshape] at h1
    simp only [canonical, List.mem_cons, List.mem_append, List.mem_map, reduceCtorEq, false_or] at h1
    rcases h1 with ⟨c, hc, hcc⟩ | h1
    · cases hcc; exact hc
    · cases h1
  have hcost : histCost gb d cfg (trainedTable F O pick gb d cfg) ops
      = (encodeFile gb d (readerFile F O pick gb d cfg chunks)).length := by
    rw [histCost_strip, hshape, histCost_canonical, ← hsame]
    rfl
  obtain ⟨out, l', e, hb, hsim, hby⟩ := tRun_refines (cfg := cfg) henv (trainOracle F O pick gb d)
    (trainedTable F O pick gb d cfg) ops (Comp.fromConfig cfg) CSt.init [] [] (CompLit.csim_init cfg)
    (fun nums h _ _ => ⟨(hfacts nums (hmem nums h)).1, (hfacts nums (hmem nums h)).2.1⟩)
    (by
      rw [hcost]
      show 0 + _ + 32 < USIZE
      omega)
    (by intro b hb; cases hb)
  have hb' : bytesBits out = C09.drained gb d cfg (absTs cfg.flags d (trainedTable F O pick gb d cfg) ops) := hb
  have hs' : CSim cfg l' (C09.finalSt gb d cfg (absTs cfg.flags d (trainedTable F O pick gb d cfg) ops)) := hsim
  have htot : bytesBits out ++ l'.writer.bits
      = C09.total gb d cfg (absTs cfg.flags d (trainedTable F O pick gb d cfg) ops) := by
    rw [C09.total_eq, hb', hs'.bits]
  -- the protocol accepts the history
  have hn : ∀ c ∈ chunks.map (writerChunk F O pick gb d cfg), c.cm.n ≠ 0 ∧ c.cm.n < 2 ^ 24 := by
    intro c hc
    obtain ⟨nums, hnums, rfl⟩ := List.mem_map.mp hc
    unfold writerChunk
    rw [trainedOf_n (hcov nums hnums)]
    have h1 := (hch nums hnums).ne
    have h2 := (hch nums hnums).len
    refine ⟨fun h0 => h1 (List.eq_nil_of_length_eq_zero h0), by omega⟩
  obtain ⟨hacc, hfoot⟩ := C01.history_accepted gb d cfg ho hlev _ hn
  have hstrip : C09.stripDrains (absTs cfg.flags d (trainedTable F O pick gb d cfg) ops)
      = C09.stripDrains (C01.history (chunks.map (writerChunk F O pick gb d cfg))) := by
    rw [stripDrains_absTs, hshape, absTs_canonical _ chunks hcov, C01.stripDrains_history]
    rfl
  obtain ⟨_, hacc', _, hfoot'⟩ := C09.drain_invariance gb d cfg _ _ hstrip
  have hfile : C09.total gb d cfg (absTs cfg.flags d (trainedTable F O pick gb d cfg) ops)
      = encodeFile gb d { flags := cfg.flags, chunks := chunks.map (writerChunk F O pick gb d cfg) } := by
    rw [C09.complete_output_is_file gb d cfg _ (by rw [hfoot', hfoot]), hacc', hacc]
  -- the file the reader sees
  have hwf : (readerFile F O pick gb d cfg chunks).WF gb d := by
    refine ⟨ok_of_row hr, ok_of_row (prefDType_rowOk hr _), ok_of_row (signed_rowOk hr), ho, ?_⟩
    intro c hc
    obtain ⟨nums, hnums, rfl⟩ := List.mem_map.mp hc
    exact (hfacts nums hnums).2.2.1
  have hvals : fileVals d (readerFile F O pick gb d cfg chunks).toD = chunks := by
    unfold readerFile
    rw [C01.fileVals_trained, List.map_map]
    conv => rhs; rw [← List.map_id chunks]
    apply List.map_congr_left
    intro nums hnums
    obtain ⟨_, _, _, hcov', hcong'⟩ := hfacts nums hnums
    obtain ⟨_, _, hsome, _⟩ := trainedOf_eq hcov'
    exact C01.trained_chunk_vals cfg.flags d nums _ _ _ hsome hcong' (fun x hx => ((hch nums hnums).nums_ok x hx).1)
      hr.2.1
  exact ⟨out, l', e, by rw [htot, hfile, hsame], hb', hs', hby, hwf, hvals⟩

end

end E2E
end Qco
