/-
Layer E, part 4: facts about the 15 data types and about the numbers of a chunk.

* the 15 rows of the data-type table, their signed companions and the type of the bounds (`prefDType`) satisfy
  `DType.Ok` (what the specification's round trip needs of a type);
* `NumOk`: what is asked of an input number (a pattern of the type whose unsigned image is in the documented
  range — for every type but the 96-bit timestamps the second half follows from the first);
* the unsigned numbers a chunk codes (`codedUs`) fit `U` and are valid bounds; the delta moments are valid.
-/
import Qco.Properties.C12
import Qco.Properties.C07
import Qco.Properties.C18
import Qco.Spec.WF
namespace Qco
namespace E2E

/-! ### the data types -/

/-- the shape of a row of the data-type table, by kind -/
def RowOk (d : DType) : Prop :=
  d.headerByte < 256 ∧ 1 ≤ d.uBits ∧ d.uBits ≤ 128 ∧
  match d.kind with
  | .bool => 1 ≤ d.physBits
  | .ts96 => 2 * d.tsHalf ≤ 2 ^ d.physBits ∧ d.tsHalf ≤ d.H
  | _ => d.physBits = d.uBits

instance (d : DType) : Decidable (RowOk d) := by
  unfold RowOk; cases d.kind <;> infer_instance

theorem rows_ok : ∀ d ∈ Frozen.dtypes, RowOk d := by decide

theorem M_eq_two_H (d : DType) (h : 1 ≤ d.uBits) : d.M = 2 * d.H := by
  unfold DType.M DType.H
  have : d.uBits = (d.uBits - 1) + 1 := by omega
  rw [this, Nat.pow_succ]; simp; omega

theorem ok_of_row {d : DType} (h : RowOk d) : d.Ok := by
  obtain ⟨hh, hb, _, hk⟩ := h
  have hM := M_eq_two_H d hb
  have hH : 0 < d.H := Nat.two_pow_pos _
  refine ⟨hh, hb, ?_, ?_⟩
  · intro u hu
    unfold DType.uValid at hu
    unfold DType.uToRaw
    cases hkind : d.kind <;> simp only [hkind] at hu hk ⊢
    · rw [hk]; simp only [DType.fromU, hkind]; exact hu
    · rw [hk]
      simp only [DType.fromU, hkind]
      exact Nat.mod_lt _ (by unfold DType.M at hM ⊢; exact Nat.two_pow_pos _)
    · rw [hk]
      simp only [DType.fromU, hkind]
      have : d.M = 2 ^ d.uBits := rfl
      split <;> omega
    · have : 2 ≤ 2 ^ d.physBits := by
        calc 2 = 2 ^ 1 := rfl
          _ ≤ 2 ^ d.physBits := Nat.pow_le_pow_right (by omega) hk
      split <;> omega
    · omega
  · intro u hu
    refine C12.rawToU_uToRaw d hb ?_ u hu
    intro hts
    rw [hts] at hk
    exact hk.2

theorem signed_rowOk {d : DType} (h : RowOk d) : RowOk d.signed := by
  obtain ⟨hh, hb, hle, hk⟩ := h
  have key : RowOk
      { name := "i" ++ toString d.uBits, headerByte := 0, physBits := d.uBits, uBits := d.uBits, kind := .int, pps := 0 } :=
    ⟨show (0 : Nat) < 256 by decide, hb, hle, rfl⟩
  unfold DType.signed
  cases hkind : d.kind with
  | bool => exact ⟨hh, hb, hle, by rw [hkind] at hk ⊢; exact hk⟩
  | uint => exact key
  | int => exact key
  | float => exact key
  | ts96 => exact key

theorem prefDType_rowOk {d : DType} (h : RowOk d) (fl : Flags) : RowOk (prefDType d fl) := by
  unfold prefDType; split
  · exact h
  · exact signed_rowOk h

theorem prefDType_uBits (d : DType) (fl : Flags) : (prefDType d fl).uBits = d.uBits := by
  unfold prefDType; split
  · rfl
  · exact C18.signed_uBits d

theorem prefDType_M (d : DType) (fl : Flags) : (prefDType d fl).M = d.M := by
  unfold DType.M; rw [prefDType_uBits]

/-! ### the numbers of a chunk -/

/-- what is asked of an input number: a bit pattern of the type (`C12.valid`) whose unsigned image is in the
range the file format documents (`uValid`: all of `U` but for the 96-bit timestamps, whose constructor
`Timestamp96::new` checks exactly this) -/
def NumOk (d : DType) (v : Nat) : Prop := C12.valid d v ∧ d.uValid (d.toU v)

instance (d : DType) (v : Nat) : Decidable (NumOk d v) := by
  unfold NumOk C12.valid; infer_instance

/-- for every type but the 96-bit timestamps a valid pattern is all that is asked -/
theorem numOk_of_valid {d : DType} (hb : 1 ≤ d.uBits) (hk : d.kind ≠ .ts96) {v : Nat} (hv : C12.valid d v) :
    NumOk d v := by
  refine ⟨hv, ?_⟩
  have hlt := C12.toU_lt d hb v hv
  unfold DType.uValid
  cases hkind : d.kind <;> simp only
  · exact hlt
  · exact hlt
  · exact hlt
  · simp only [DType.toU, hkind]; split <;> omega
  · exact absurd hkind hk

/-- every value of a wrapping subtraction is a pattern of the type -/
theorem sSub_valid (ds : DType) (a b : Nat) : C12.valid ds (ds.sSub a b) := by
  unfold C12.valid DType.sSub
  have hM : 0 < ds.M := Nat.two_pow_pos _
  cases hk : ds.kind <;> simp only [reduceCtorEq, if_false, if_true] <;> first
    | exact Nat.mod_lt _ hM
    | (split <;> omega)

theorem sDiff1_valid (ds : DType) : ∀ (xs : List Nat), ∀ x ∈ sDiff1 ds xs, C12.valid ds x
  | [], x, h => by simp [sDiff1] at h
  | [_], x, h => by simp [sDiff1] at h
  | a :: b :: rest, x, h => by
    simp only [sDiff1, List.mem_cons] at h
    rcases h with rfl | h
    · exact sSub_valid ds b a
    · exact sDiff1_valid ds (b :: rest) x h

theorem sDiffN_valid (ds : DType) : ∀ (k : Nat) (xs : List Nat), (∀ x ∈ xs, C12.valid ds x) →
    ∀ x ∈ sDiffN ds k xs, C12.valid ds x
  | 0, _, h => h
  | k + 1, xs, _ => sDiffN_valid ds k (sDiff1 ds xs) (sDiff1_valid ds xs)

theorem zero_valid (ds : DType) : C12.valid ds 0 := by
  unfold C12.valid
  split
  · omega
  · exact Nat.two_pow_pos _

theorem sMoments_valid (ds : DType) : ∀ (k : Nat) (xs : List Nat), (∀ x ∈ xs, C12.valid ds x) →
    ∀ m ∈ sMoments ds k xs, C12.valid ds m
  | 0, _, _, m, h => by simp [sMoments] at h
  | k + 1, xs, hx, m, h => by
    simp only [sMoments, List.mem_cons] at h
    rcases h with rfl | h
    · cases xs with
      | nil => exact zero_valid ds
      | cons a _ => exact hx a List.mem_cons_self
    · exact sMoments_valid ds k (sDiff1 ds xs) (sDiff1_valid ds xs) m h

theorem sMoments_length (ds : DType) : ∀ (k : Nat) (xs : List Nat), (sMoments ds k xs).length = k
  | 0, _ => rfl
  | k + 1, xs => by simp [sMoments, sMoments_length ds k]

/-- a valid pattern of the signed companion is a legal delta moment -/
theorem momentOk_of_valid {d : DType} (hr : RowOk d) {m : Nat} (hm : C12.valid d.signed m) :
    momentOk d.signed m := by
  have hrs := signed_rowOk hr
  have hb : 1 ≤ d.signed.uBits := hrs.2.1
  refine ⟨?_, C12.fromU_toU d.signed hb m hm⟩
  have hlt := C12.toU_lt d.signed hb m hm
  have hkind : d.signed.kind = .int ∨ d.signed.kind = .bool := by
    unfold DType.signed
    cases hk : d.kind <;> simp [hk]
  unfold DType.uValid
  rcases hkind with hk | hk
  · rw [hk]; exact hlt
  · rw [hk]
    simp only [DType.toU, hk]; split <;> omega

theorem toS_valid_all (d : DType) (nums : List Nat) (hv : ∀ v ∈ nums, C12.valid d v) :
    ∀ x ∈ nums.map d.toS, C12.valid d.signed x := by
  intro x hx
  obtain ⟨v, hvm, rfl⟩ := List.mem_map.mp hx
  exact C18.toS_valid d v (hv v hvm)

/-- the unsigned numbers a chunk codes fit `U` -/
theorem codedUs_lt {d : DType} (hr : RowOk d) (fl : Flags) (nums : List Nat) (hv : ∀ v ∈ nums, C12.valid d v) :
    ∀ u ∈ codedUs d fl nums, u < 2 ^ d.uBits := by
  intro u hu
  unfold codedUs at hu
  split at hu
  · obtain ⟨v, hvm, rfl⟩ := List.mem_map.mp hu
    exact C12.toU_lt d hr.2.1 v (hv v hvm)
  · obtain ⟨x, hx, rfl⟩ := List.mem_map.mp hu
    have hval := sDiffN_valid d.signed fl.order _ (toS_valid_all d nums hv) x hx
    have := C12.toU_lt d.signed (signed_rowOk hr).2.1 x hval
    unfold DType.M at this
    rw [C18.signed_uBits] at this
    exact this

/-- … and are valid bounds of the type of the bounds -/
theorem codedUs_uValid {d : DType} (hr : RowOk d) (fl : Flags) (nums : List Nat) (hv : ∀ v ∈ nums, NumOk d v) :
    ∀ u ∈ codedUs d fl nums, (prefDType d fl).uValid u := by
  intro u hu
  unfold codedUs at hu
  unfold prefDType
  split at hu
  · rename_i h0
    rw [if_pos h0]
    obtain ⟨v, hvm, rfl⟩ := List.mem_map.mp hu
    exact (hv v hvm).2
  · rename_i h0
    rw [if_neg h0]
    obtain ⟨x, hx, rfl⟩ := List.mem_map.mp hu
    have hval := sDiffN_valid d.signed fl.order _ (toS_valid_all d nums (fun v h => (hv v h).1)) x hx
    exact (momentOk_of_valid hr hval).1

end E2E
end Qco
