/-
Layer E, part 10: the LITERAL decompressor on the bytes of a well-formed file of the format.

Composition of C03 for the real Huffman lookup (`C03.reader_total_stride`: the abstract decompressor with
`matchStride` returns the file's values) with layer DL (`C08d.decompLit_history`: the literal decompressor and the
abstract one answer the same along every history).  The bytes may be written in any pieces.
-/
import Qco.Properties.C08d
import Qco.Properties.C03s
namespace Qco
namespace E2E
open Qco.WB Qco.Op Qco.DecompLit

/-- the literal state after a history -/
def litRun (gb : Nat → Nat) (d : DType) (ops : List DOp) (σ : LitSt) : LitSt :=
  ops.foldl (fun σ op => (litStep gb d op σ).2) σ

/-- the abstract state after a history -/
def absRun (gb : Nat → Nat) (d : DType) (ops : List DOp) (σ : Op.St) : Op.St :=
  ops.foldl (fun σ op => (DecompLit.absStep gb d op σ).2) σ

/-- the relation of the last step of a history -/
theorem histRel_last {gb : Nat → Nat} {d : DType} : ∀ (ops : List DOp) (op : DOp) (lit : LitSt) (abs : Op.St),
    HistRel gb d (ops ++ [op]) lit abs →
    ResRel (d.kind = .ts96) (OutRel (absRun gb d ops abs).flags)
      (litStep gb d op (litRun gb d ops lit)).1 (DecompLit.absStep gb d op (absRun gb d ops abs)).1
  | [], _, _, _, h => h.1
  | _ :: ops, op, _, _, h => histRel_last ops op _ _ h.2

/-- writing pieces one after the other is writing their concatenation (literal side: by definition of the run) -/
theorem litRun_writes (gb : Nat → Nat) (d : DType) : ∀ (pieces : List (List Nat)) (σ : LitSt),
    litRun gb d (pieces.map DOp.write) σ = pieces.foldl DecompLit.write σ
  | [], _ => rfl
  | p :: ps, σ => litRun_writes gb d ps (DecompLit.write σ p)

theorem absRun_writes (gb : Nat → Nat) (d : DType) : ∀ (pieces : List (List Nat)) (σ : Op.St),
    absRun gb d (pieces.map DOp.write) σ = Op.write σ (bytesBits pieces.flatten)
  | [], σ => by simp [absRun, Op.write, bytesBits]
  | p :: ps, σ => by
    have ih := absRun_writes gb d ps (Op.write σ (bytesBits p))
    have h1 : absRun gb d ((p :: ps).map DOp.write) σ = absRun gb d (ps.map DOp.write) (Op.write σ (bytesBits p)) := rfl
    rw [h1, ih]
    simp only [Op.write, List.flatten_cons, bytesBits, List.flatMap_append, List.append_assoc]

/-- **the literal `simple_decompress` on the bytes of a file of the format returns the file's values**, however
the bytes were written (`pieces`: the arguments of the successive `write` calls).  Hypotheses: one of the 15 data
types; a GCD field not wider than `U`; the bytes are bytes; fewer than about `2^57` words are written. -/
theorem literal_decompress_file {d : DType} (hd : d ∈ Frozen.dtypes) {gb : Nat → Nat}
    (hgb : ∀ x, gb x ≤ d.uBits) (f : AFile) (hf : f.WF gb d) (pieces : List (List Nat))
    (hbytes : ∀ p ∈ pieces, ∀ b ∈ p, b < 256)
    (hfile : bytesBits pieces.flatten = encodeFile gb d f)
    (hsize : 128 * (pieces.map fun p => p.length / 8 + 1).sum + 2 ^ 36 < USIZE) :
    (DecompLit.simpleDecompress gb d (pieces.foldl DecompLit.write LitSt.init)).1
      = .ok (fileVals d f.toD).flatten := by
  have hw : histWords (pieces.map DOp.write ++ [DOp.simpleDecompress])
      = (pieces.map fun p => p.length / 8 + 1).sum := by
    simp [histWords, List.map_map, Function.comp_def, opWords]
  have hops : ∀ op ∈ pieces.map DOp.write ++ [DOp.simpleDecompress], OpOk op := by
    intro op hop
    rcases List.mem_append.mp hop with h | h
    · obtain ⟨p, hp, rfl⟩ := List.mem_map.mp h
      exact hbytes p hp
    · rw [List.mem_singleton.mp h]; trivial
  have hh := C08d.decompLit_history hd hgb (pieces.map DOp.write ++ [DOp.simpleDecompress]) hops
    (by rw [hw]; exact hsize)
  have hlast := histRel_last _ _ _ _ hh
  rw [litRun_writes, absRun_writes, hfile] at hlast
  have habs := C03.reader_total_stride gb d f hf
  -- the abstract answer
  have h2 : (DecompLit.absStep gb d .simpleDecompress (Op.write St.init (encodeFile gb d f))).1
      = .ok (.nums (fileVals d f.toD).flatten) := by
    show mapOut AOut.nums (Op.simpleDecompress matchStride gb d (Op.write St.init (encodeFile gb d f))).1 = _
    rw [habs]; rfl
  rw [h2] at hlast
  -- the literal answer
  have h1 : (litStep gb d .simpleDecompress (pieces.foldl DecompLit.write LitSt.init)).1
      = mapR LOut.nums (DecompLit.simpleDecompress gb d (pieces.foldl DecompLit.write LitSt.init)).1 := rfl
  rw [h1] at hlast
  cases hr : (DecompLit.simpleDecompress gb d (pieces.foldl DecompLit.write LitSt.init)).1 with
  | ok xs =>
    rw [hr] at hlast
    have : xs = (fileVals d f.toD).flatten := hlast
    rw [this]
  | err k => rw [hr] at hlast; exact hlast.elim
  | panic => rw [hr] at hlast; exact hlast.elim

end E2E
end Qco
