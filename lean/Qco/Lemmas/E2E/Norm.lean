/-
Layer E, part 6: the chunk written for a table and the chunk written for the normalised table (`normTable`: the
table as the reader sees it) are the SAME BITS.

With a common-GCD field no prefix carries a divisor of its own, so `encPrefixes` does not see the difference; the
divisor of a single-valued range enters neither the greedy grouping (the only offset is `0 / gcd = 0`) nor the
body (`r = 0 / gcd = 0`, `k = 0`).
-/
import Qco.Lemmas.E2E.Common
import Qco.Lemmas.CompLit.Basics
namespace Qco
namespace E2E
open Qco.MetaIO (commonField)

/-! ### prefixes -/

theorem contains_setGcd (g : Nat) (p : Prefix) : (setGcd g p).contains = p.contains := by
  funext u; rfl

theorem setGcd_self (p : Prefix) : setGcd p.gcd p = p := by cases p; rfl

/-- the offset of a member does not change -/
theorem off_setGcd (g : Nat) (p : Prefix) (hp : p.gcd = g ∨ p.lower = p.upper) (u : Nat)
    (hc : p.contains u = true) : (setGcd g p).off u = p.off u := by
  rcases hp with h | h
  · rw [← h, setGcd_self]
  · simp only [Prefix.contains, Bool.and_eq_true, decide_eq_true_eq] at hc
    have : u - p.lower = 0 := by omega
    show (u - p.lower) / g = (u - p.lower) / p.gcd
    rw [this, Nat.zero_div, Nat.zero_div]

theorem findPrefix_setGcd (g : Nat) (ps : List Prefix) (u : Nat) :
    findPrefix (ps.map (setGcd g)) u = findPrefix ps u := by
  unfold findPrefix
  rw [List.findIdx?_map]
  rfl

theorem getD_map_setGcd (g : Nat) (ps : List Prefix) (i : Nat) (hi : i < ps.length) :
    (ps.map (setGcd g)).getD i default = setGcd g (ps.getD i default) := by
  rw [getD_eq_getElem _ _ (by simpa using hi), getD_eq_getElem _ _ hi, List.getElem_map]

/-! ### the greedy grouping -/

theorem greedyBlocks_setGcd (g : Nat) (ps : List Prefix) (hps : ∀ p ∈ ps, p.gcd = g ∨ p.lower = p.upper) :
    ∀ (fuel : Nat) (us : List Nat),
      greedyBlocks (ps.map (setGcd g)) fuel us = greedyBlocks ps fuel us := by
  intro fuel
  induction fuel with
  | zero => intro us; cases us <;> rfl
  | succ fuel ih =>
    intro us
    cases us with
    | nil => rfl
    | cons u rest =>
      cases hf : findPrefix ps u with
      | none =>
        rw [greedyBlocks_cons_none _ _ _ _ (by rw [findPrefix_setGcd]; exact hf),
          greedyBlocks_cons_none _ _ _ _ hf]
      | some i =>
        obtain ⟨hi, hc⟩ := findPrefix_some hf
        have hf' : findPrefix (ps.map (setGcd g)) u = some i := by rw [findPrefix_setGcd]; exact hf
        have hgd := getD_map_setGcd g ps i hi
        have hpi : ps.getD i default = ps[i] := getD_eq_getElem ps i hi
        have hmem : ps.getD i default ∈ ps := by rw [hpi]; exact List.getElem_mem hi
        have hcond := hps _ hmem
        have hc' : (ps.getD i default).contains u = true := by rw [hpi]; exact hc
        cases hj : (ps.getD i default).jump with
        | none =>
          have hj' : ((ps.map (setGcd g)).getD i default).jump = none := by rw [hgd]; exact hj
          rw [greedyBlocks_cons_one _ _ _ _ _ hf' hj', greedyBlocks_cons_one _ _ _ _ _ hf hj, ih, hgd,
            off_setGcd g _ hcond u hc']
        | some j =>
          have hj' : ((ps.map (setGcd g)).getD i default).jump = some j := by rw [hgd]; exact hj
          rw [greedyBlocks_cons_run _ _ _ _ _ _ hf' hj', greedyBlocks_cons_run _ _ _ _ _ _ hf hj, ih, hgd,
            contains_setGcd, off_setGcd g _ hcond u hc']
          congr 1
          funext bs
          congr 2
          apply List.map_congr_left
          intro v hv
          exact off_setGcd g _ hcond v (mem_takeWhile hv).2

/-! ### the body -/

theorem encOffsets_congr (i i' : PInfo) (hr : i.r = i'.r) (hk : i.k = i'.k) :
    ∀ (offs : List Nat), encOffsets i offs = encOffsets i' offs
  | [] => rfl
  | o :: os => by simp only [encOffsets, hr, hk, encOffsets_congr i i' hr hk os]

/-- the body's bits depend on the table through the codes, `r`, `k` and the jumpstarts only -/
theorem encBlocks_congr (t t' : Table) (hc : ∀ i, t.code i = t'.code i)
    (hi : ∀ i, (t.info i).r = (t'.info i).r ∧ (t.info i).k = (t'.info i).k ∧ (t.info i).jump = (t'.info i).jump) :
    ∀ (bs : List Block), encBlocks t bs = encBlocks t' bs
  | [] => rfl
  | b :: bs => by
    rw [encBlocks, encBlocks, encBlocks_congr t t' hc hi bs]
    congr 1
    cases b with
    | one p off =>
      obtain ⟨h1, h2, _⟩ := hi p
      simp only [encBlock, hc p, h1, h2]
    | run p off0 offs =>
      obtain ⟨h1, h2, h3⟩ := hi p
      simp only [encBlock, hc p, h1, h2, h3, encOffsets_congr _ _ h1 h2]

theorem info_setGcd (g : Nat) (p : Prefix) (hp : p.gcd = g ∨ p.lower = p.upper) :
    (setGcd g p).info.r = p.info.r ∧ (setGcd g p).info.k = p.info.k ∧ (setGcd g p).info.jump = p.info.jump := by
  rcases hp with h | h
  · rw [← h, setGcd_self]; exact ⟨rfl, rfl, rfl⟩
  · have hr : (setGcd g p).info.r = p.info.r := by
      show (p.upper - p.lower) / g = (p.upper - p.lower) / p.gcd
      have : p.upper - p.lower = 0 := by omega
      rw [this, Nat.zero_div, Nat.zero_div]
    refine ⟨hr, ?_, rfl⟩
    show Nat.log2 ((setGcd g p).info.r + 1) = Nat.log2 (p.info.r + 1)
    rw [hr]

theorem tableOf_setGcd (g : Nat) (ps : List Prefix) (hps : ∀ p ∈ ps, p.gcd = g ∨ p.lower = p.upper)
    (bs : List Block) : encBlocks (tableOf (ps.map (setGcd g))) bs = encBlocks (tableOf ps) bs := by
  apply encBlocks_congr
  · intro i
    simp only [Table.code, tableOf, List.map_map]
    rfl
  · intro i
    simp only [Table.info, tableOf, List.map_map, List.getD_eq_getElem?_getD, List.getElem?_map]
    cases h : ps[i]? with
    | none => exact ⟨rfl, rfl, rfl⟩
    | some p =>
      simp only [Option.map_some, Option.getD_some, Function.comp]
      exact info_setGcd g p (hps p (List.mem_of_getElem? h))

theorem encBody_setGcd (g : Nat) (ps : List Prefix) (hps : ∀ p ∈ ps, p.gcd = g ∨ p.lower = p.upper)
    (bs : List Block) : encBody (ps.map (setGcd g)) bs = encBody ps bs := by
  unfold encBody; rw [tableOf_setGcd g ps hps]

/-! ### the metadata -/

theorem encPrefixes_setGcd (gb : Nat → Nat) (d : DType) (fl : Flags) (n : Nat) (common : Option Nat)
    (hc : (!fl.gcds || common.isSome) = true) (g : Nat) (ps : List Prefix) :
    encPrefixes gb d fl n common (ps.map (setGcd g)) = encPrefixes gb d fl n common ps := by
  unfold encPrefixes
  rw [List.length_map, hc, List.flatMap_map]
  rfl

/-! ### the chunk -/

/-- with a common-GCD field (or GCDs off), replacing the divisors of single-valued ranges changes no bit -/
theorem encChunk_setGcd (gb : Nat → Nat) (d : DType) (fl : Flags) (n : Nat) (moments : List Nat)
    (common : Option Nat) (hc : (!fl.gcds || common.isSome) = true) (g : Nat) (ps : List Prefix)
    (hps : ∀ p ∈ ps, p.gcd = g ∨ p.lower = p.upper) (bs : List Block) :
    encChunk gb d fl { cm := { n := n, bodyBytes := 0, moments := moments, commonGcd := common,
                                prefixes := ps.map (setGcd g) }, blocks := bs }
      = encChunk gb d fl { cm := { n := n, bodyBytes := 0, moments := moments, commonGcd := common,
                                    prefixes := ps }, blocks := bs } := by
  simp only [encChunk, AChunk.fixedMeta, encChunkMeta, encBody_setGcd g ps hps,
    encPrefixes_setGcd gb _ fl n common hc g ps]

/-- **the chunk of the normalised table is the chunk of the table, bit for bit** -/
theorem encChunk_normTable (gb : Nat → Nat) (d : DType) (fl : Flags) (nums : List Nat) (ps : List Prefix) :
    encChunk gb d fl (CompLit.trainedOf fl d nums (normTable fl ps))
      = encChunk gb d fl (CompLit.trainedOf fl d nums ps) := by
  unfold CompLit.trainedOf
  rw [commonField_normTable]
  unfold normTable
  cases hcf : commonField fl ps with
  | none => rfl
  | some g =>
    simp only
    have hps : ∀ p ∈ ps, p.gcd = g ∨ p.lower = p.upper := by
      intro p hp
      by_cases h : p.lower = p.upper
      · exact Or.inr h
      · exact Or.inl ((commonField_some hcf).2.1 p hp h)
    unfold C01.trainedChunk
    rw [greedyBlocks_setGcd g ps hps]
    cases greedyBlocks ps (codedUs d fl nums).length (codedUs d fl nums) with
    | none => rfl
    | some bs =>
      simp only [Option.map_some, Option.getD_some, C01.trainedMeta]
      exact encChunk_setGcd gb d fl _ _ (some g) (by simp) g ps hps bs

end E2E
end Qco
