/-
Layer E, part 11: literal compressor (with literal training) → literal decompressor.
-/
import Qco.Lemmas.E2E.Compose
import Qco.Lemmas.E2E.Decode
namespace Qco
namespace E2E
open Train TrainLit
open Qco.WB Qco.MetaIO Qco.Op Qco.CompLit

section
variable {C : Type} {F : Floats} {O : CostOracle C} {pick : Nat → List HItem → Nat} {gb est : Nat → Nat}
  {d : DType} {cfg : CConfig}

theorem stripT_append_drain (ops : List TOp) : stripT (ops ++ [.drain]) = stripT ops := by
  unfold stripT
  rw [List.filter_append]
  simp [TOp.isCall]

theorem absTs_append_drain (fl : Flags) (tbl : List Nat → List Prefix) (ops : List TOp) :
    absTs fl d tbl (ops ++ [.drain]) = absTs fl d tbl ops ++ [.drain] := by
  unfold absTs
  rw [List.filterMap_append]
  rfl

/-- a complete history followed by a last `drain_bytes`: the bytes drained along the history are the whole
file, nothing is left pending -/
theorem compress_drained (hr : RowOk d) (hgb : ∀ x, gb x ≤ d.uBits) (hG : GbTop gb d)
    (hest : BodyWriter.EstOk d.uBits est) (ho : cfg.order ≤ 7) (hlev : cfg.level ≤ 12) (hfin : CostFinite O)
    (hp : PickOK pick) (chunks : List (List Nat)) (hch : ∀ c ∈ chunks, ChunkOk F O pick gb d cfg c)
    (ops : List TOp) (hshape : stripT ops = canonical chunks)
    (hsz : (encodeFile gb d (readerFile F O pick gb d cfg chunks)).length + 32 < USIZE) :
    ∃ bytes l', tRun gb est d (trainOracle F O pick gb d) (ops ++ [.drain]) (Comp.fromConfig cfg) []
        = .ok (bytes, l') ∧
      l'.writer.bits = [] ∧ (∀ b ∈ bytes, b < 256) ∧
      bytesBits bytes = encodeFile gb d (readerFile F O pick gb d cfg chunks) ∧
      (readerFile F O pick gb d cfg chunks).WF gb d ∧
      fileVals d (readerFile F O pick gb d cfg chunks).toD = chunks := by
  obtain ⟨out, l', e, htot, hdr, hsim, hby, hwf, hvals⟩ := compress_is_file (F := F) (O := O) (pick := pick)
    hr hgb hG hest ho hlev hfin hp chunks hch (ops ++ [.drain]) (by rw [stripT_append_drain]; exact hshape) hsz
  have h1 : C09.drained gb d cfg (absTs cfg.flags d (trainedTable F O pick gb d cfg) (ops ++ [.drain]))
      = C09.total gb d cfg (absTs cfg.flags d (trainedTable F O pick gb d cfg) (ops ++ [.drain])) := by
    rw [absTs_append_drain]
    exact C01.drained_eq_total_of_last_drain gb d cfg _
  have hpend : (C09.finalSt gb d cfg
      (absTs cfg.flags d (trainedTable F O pick gb d cfg) (ops ++ [.drain]))).pending = [] := by
    rw [C09.total_eq] at h1
    exact List.self_eq_append_right.mp h1
  have hw : l'.writer.bits = [] := by rw [hsim.bits, hpend]
  rw [hw, List.append_nil] at htot
  exact ⟨out, l', e, hw, hby, htot, hwf, hvals⟩

/-- **literal compressor (with literal training) → literal decompressor.**  The bytes a complete history drains,
written to a fresh literal decompressor in any pieces: `simple_decompress` returns exactly the numbers of the
chunks, in order. -/
theorem roundtrip {d : DType} {cfg : CConfig} (hd : d ∈ Frozen.dtypes) (hgb : ∀ x, gb x ≤ d.uBits)
    (hG : GbTop gb d)
    (hest : BodyWriter.EstOk d.uBits est) (ho : cfg.order ≤ 7) (hlev : cfg.level ≤ 12) (hfin : CostFinite O)
    (hp : PickOK pick) (chunks : List (List Nat)) (hch : ∀ c ∈ chunks, ChunkOk F O pick gb d cfg c)
    (ops : List TOp) (hshape : stripT ops = canonical chunks)
    (hsz : (encodeFile gb d (readerFile F O pick gb d cfg chunks)).length + 32 < USIZE) :
    ∃ bytes l', tRun gb est d (trainOracle F O pick gb d) (ops ++ [.drain]) (Comp.fromConfig cfg) []
        = .ok (bytes, l') ∧
      l'.writer.bits = [] ∧ (∀ b ∈ bytes, b < 256) ∧
      bytesBits bytes = encodeFile gb d (readerFile F O pick gb d cfg chunks) ∧
      ∀ pieces : List (List Nat), pieces.flatten = bytes →
        128 * (pieces.map fun p => p.length / 8 + 1).sum + 2 ^ 36 < USIZE →
        (DecompLit.simpleDecompress gb d (pieces.foldl DecompLit.write DecompLit.LitSt.init)).1
          = .ok chunks.flatten := by
  obtain ⟨bytes, l', e, hw, hby, hfile, hwf, hvals⟩ := compress_drained (F := F) (O := O) (pick := pick)
    (rows_ok d hd) hgb hG hest ho hlev hfin hp chunks hch ops hshape hsz
  refine ⟨bytes, l', e, hw, hby, hfile, ?_⟩
  intro pieces hpc hsize
  have := literal_decompress_file hd hgb _ hwf pieces
    (fun p hp b hb => hby b (by rw [← hpc]; exact List.mem_flatten.mpr ⟨p, hp, hb⟩))
    (by rw [hpc]; exact hfile) hsize
  rw [this, hvals]

end

/-- a list of bytes is determined by its bits -/
theorem bytesBits_inj : ∀ (a b : List Nat), (∀ x ∈ a, x < 256) → (∀ x ∈ b, x < 256) →
    bytesBits a = bytesBits b → a = b
  | [], [], _, _, _ => rfl
  | [], y :: b, _, _, h => by
    have := congrArg List.length h
    simp [bytesBits, List.flatMap_cons] at this
    omega
  | x :: a, [], _, _, h => by
    have := congrArg List.length h
    simp [bytesBits, List.flatMap_cons] at this
  | x :: a, y :: b, ha, hb, h => by
    have h' : natBits 8 x ++ bytesBits a = natBits 8 y ++ bytesBits b := h
    obtain ⟨h1, h2⟩ := List.append_inj h' (by simp)
    have hx : x = y := by
      have := congrArg bitsNat h1
      rwa [bitsNat_natBits_of_lt (ha x List.mem_cons_self), bitsNat_natBits_of_lt (hb y List.mem_cons_self)] at this
    rw [hx, bytesBits_inj a b (fun z hz => ha z (List.mem_cons_of_mem _ hz))
      (fun z hz => hb z (List.mem_cons_of_mem _ hz)) h2]

end E2E
end Qco
