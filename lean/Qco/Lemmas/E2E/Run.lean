/-
Layer E, part 8: histories of the literal compressor whose training oracle is a FUNCTION (in the end: the literal
`train_prefixes`), not an annotation of the call.

`CompLit.lRun` runs histories in which every `chunk` call carries the answer of `train_prefixes`; here `tRun` runs
histories of plain calls and `chunk` really calls the oracle `train`.  `tRun_refines` is `CompLit.lRun_refines`
for it (same proof, `chunk_refines` holds for every oracle), with the "fewer than `2^64 − 32` bits pending"
condition replaced by a bound on what the whole history can emit (`histCost`).
-/
import Qco.Lemmas.CompLit.Simple
namespace Qco
namespace E2E
open Qco.WB Qco.MetaIO Qco.Op Qco.CompLit

/-- a call on a compressor -/
inductive TOp where
  | header
  | chunk (nums : List Nat)
  | footer
  | drain
  | byteSize
  deriving Repr

/-- the type of the training oracle of `CompLit.chunk` -/
abbrev Oracle := List Nat → InternalConfig → Flags → Nat → R (List Prefix)

/-- run a history: the bytes drained so far (concatenated) and the compressor; outcomes of the calls are dropped,
a panic stops the run and is reported (as `CompLit.lRun`) -/
def tRun (gb est : Nat → Nat) (d : DType) (train : Oracle) : List TOp → Comp → List Nat → R (List Nat × Comp)
  | [], c, out => .ok (out, c)
  | .header :: ops, c, out =>
    match header d c with
    | (.panic, _) => .panic
    | (_, c') => tRun gb est d train ops c' out
  | .chunk nums :: ops, c, out =>
    match chunk gb est d train nums c with
    | (.panic, _) => .panic
    | (_, c') => tRun gb est d train ops c' out
  | .footer :: ops, c, out =>
    match footer c with
    | (.panic, _) => .panic
    | (_, c') => tRun gb est d train ops c' out
  | .drain :: ops, c, out => tRun gb est d train ops (drainBytes c).2 (out ++ (drainBytes c).1)
  | .byteSize :: ops, c, out => tRun gb est d train ops c out

/-- the abstract call corresponding to a call, `tbl nums` being the table training answers for `nums` -/
def absT (fl : Flags) (d : DType) (tbl : List Nat → List Prefix) : TOp → Option COp
  | .header => some .header
  | .chunk nums => some (.chunk nums.length (trainedOf fl d nums (tbl nums)))
  | .footer => some .footer
  | .drain => some .drain
  | .byteSize => none

def absTs (fl : Flags) (d : DType) (tbl : List Nat → List Prefix) (ops : List TOp) : List COp :=
  ops.filterMap (absT fl d tbl)

/-- the most bits a call can add to the pending output -/
def opCost (gb : Nat → Nat) (d : DType) (cfg : CConfig) (tbl : List Nat → List Prefix) : TOp → Nat
  | .header => (encHeader d cfg.flags).length
  | .chunk nums => (encChunk gb d cfg.flags (trainedOf cfg.flags d nums (tbl nums))).length
  | .footer => 8
  | .drain => 0
  | .byteSize => 0

/-- the most bits a history can emit -/
def histCost (gb : Nat → Nat) (d : DType) (cfg : CConfig) (tbl : List Nat → List Prefix) (ops : List TOp) : Nat :=
  (ops.map (opCost gb d cfg tbl)).sum

variable {gb est : Nat → Nat} {d : DType} {cfg : CConfig}

theorem cHeader_pending_le (a : CSt) :
    (cHeader d cfg a).2.pending.length ≤ a.pending.length + (encHeader d cfg.flags).length := by
  unfold cHeader
  repeat' split
  all_goals (dsimp only; try simp only [List.length_append])
  all_goals omega

theorem cChunk_pending_le (a : CSt) (n : Nat) (t : AChunk) :
    (cChunk gb d cfg a n t).2.pending.length ≤ a.pending.length + (encChunk gb d cfg.flags t).length := by
  unfold cChunk
  repeat' split
  all_goals (dsimp only; try simp only [List.length_append])
  all_goals omega

theorem cFooter_pending_le (a : CSt) : (cFooter a).2.pending.length ≤ a.pending.length + 8 := by
  unfold cFooter
  repeat' split
  all_goals (dsimp only; try simp only [List.length_append, natBits_length])
  all_goals omega

/-- **the literal run with a training oracle and the abstract run**: if the oracle answers `Ok(tbl nums)` with
`TableOk` for every chunk of the history that the protocol could accept (non-empty, at most `2^24 − 1` numbers),
and the history cannot emit `2^64 − 32` bits, the literal run does not panic, drains the bits the abstract run
drains and ends in simulation with it -/
theorem tRun_refines (henv : EnvOk gb est d) (train : Oracle) (tbl : List Nat → List Prefix) :
    ∀ (ops : List TOp) (l : Comp) (a : CSt) (out : List Nat) (acc : List AChunk), CSim cfg l a →
    (∀ nums, TOp.chunk nums ∈ ops → nums ≠ [] → nums.length ≤ 2 ^ 24 - 1 →
      train (codedUs d cfg.flags nums) { compressionLevel := cfg.level } cfg.flags nums.length = .ok (tbl nums) ∧
      TableOk d cfg.flags nums (tbl nums)) →
    a.pending.length + histCost gb d cfg tbl ops + 32 < USIZE → (∀ b ∈ out, b < 256) →
    ∃ out' l', tRun gb est d train ops l out = .ok (out', l') ∧
      bytesBits out' = (cRun gb d cfg (absTs cfg.flags d tbl ops) a (bytesBits out) acc).1 ∧
      CSim cfg l' (cRun gb d cfg (absTs cfg.flags d tbl ops) a (bytesBits out) acc).2.2 ∧
      ∀ b ∈ out', b < 256 := by
  intro ops
  induction ops with
  | nil => intro l a out acc hs _ _ hby; exact ⟨out, l, rfl, rfl, hs, hby⟩
  | cons op ops ih =>
    intro l a out acc hs htr hsz hby
    have htr' : ∀ nums, TOp.chunk nums ∈ ops → nums ≠ [] → nums.length ≤ 2 ^ 24 - 1 →
        train (codedUs d cfg.flags nums) { compressionLevel := cfg.level } cfg.flags nums.length = .ok (tbl nums) ∧
        TableOk d cfg.flags nums (tbl nums) :=
      fun nums h => htr nums (List.mem_cons_of_mem _ h)
    have hcost : histCost gb d cfg tbl (op :: ops) = opCost gb d cfg tbl op + histCost gb d cfg tbl ops := by
      simp [histCost]
    rw [hcost] at hsz
    cases op with
    | header =>
      obtain ⟨hs', hr⟩ := header_refines henv (cfg := cfg) hs
      have hp := cHeader_pending_le (d := d) (cfg := cfg) a
      obtain ⟨out', l', e, hb, hsim⟩ := ih (header d l).2 (cHeader d cfg a).2 out acc hs' htr'
        (by simp only [opCost] at hsz; omega) hby
      refine ⟨out', l', ?_, hb, hsim⟩
      rw [← e]
      rcases hh : header d l with ⟨r, c'⟩
      have hnp : r ≠ .panic := by
        rcases hr with ⟨_, h2⟩ | ⟨_, h2, _⟩ <;> (rw [hh] at h2; simp only at h2; rw [h2]; simp)
      cases r with
      | ok u => simp only [tRun, hh]
      | err k => simp only [tRun, hh]
      | panic => exact absurd rfl hnp
    | chunk nums =>
      have hacc : Accepted cfg a nums.length →
          train (codedUs d cfg.flags nums) l.internalConfig l.flags nums.length = .ok (tbl nums) ∧
          TableOk d cfg.flags nums (tbl nums) ∧ a.pending.length + 32 < USIZE := by
        intro h
        obtain ⟨_, _, h1, _, hn⟩ := h
        have hn0 : nums ≠ [] := by intro e; rw [e] at h1; simp at h1
        obtain ⟨h1, h2⟩ := htr nums List.mem_cons_self hn0 hn
        rw [internalConfig_eq hs, hs.flags]
        exact ⟨h1, h2, by omega⟩
      obtain ⟨hs', hr⟩ := chunk_refines henv train nums (tbl nums) hs hacc
      have hp := cChunk_pending_le (gb := gb) (d := d) (cfg := cfg) a nums.length
        (trainedOf cfg.flags d nums (tbl nums))
      have hcr : cRun gb d cfg (absTs cfg.flags d tbl (TOp.chunk nums :: ops)) a (bytesBits out) acc
          = cRun gb d cfg (absTs cfg.flags d tbl ops)
              (cChunk gb d cfg a nums.length (trainedOf cfg.flags d nums (tbl nums))).2 (bytesBits out)
              (match (cChunk gb d cfg a nums.length (trainedOf cfg.flags d nums (tbl nums))).1 with
                | .ok _ => acc ++ [trainedOf cfg.flags d nums (tbl nums)]
                | .error _ => acc) := by
        show cRun gb d cfg (COp.chunk nums.length (trainedOf cfg.flags d nums (tbl nums))
          :: absTs cfg.flags d tbl ops) a (bytesBits out) acc = _
        rcases hc : cChunk gb d cfg a nums.length (trainedOf cfg.flags d nums (tbl nums)) with ⟨r, a'⟩
        cases r <;> simp only [cRun, hc]
      rw [hcr]
      obtain ⟨out', l', e, hb, hsim⟩ := ih _ _ out
        (match (cChunk gb d cfg a nums.length (trainedOf cfg.flags d nums (tbl nums))).1 with
          | .ok _ => acc ++ [trainedOf cfg.flags d nums (tbl nums)]
          | .error _ => acc) hs' htr' (by simp only [opCost] at hsz; omega) hby
      refine ⟨out', l', ?_, hb, hsim⟩
      rw [← e]
      rcases hh : chunk gb est d train nums l with ⟨r, c'⟩
      have hnp : r ≠ .panic := by
        rcases hr with ⟨_, rm, h2, _⟩ | ⟨_, h2, _⟩ <;> (rw [hh] at h2; simp only at h2; rw [h2]; simp)
      cases r with
      | ok u => simp only [tRun, hh]
      | err k => simp only [tRun, hh]
      | panic => exact absurd rfl hnp
    | footer =>
      obtain ⟨hs', hr⟩ := footer_refines (cfg := cfg) hs
      have hp := cFooter_pending_le a
      obtain ⟨out', l', e, hb, hsim⟩ := ih (footer l).2 (cFooter a).2 out acc hs' htr'
        (by simp only [opCost] at hsz; omega) hby
      refine ⟨out', l', ?_, hb, hsim⟩
      rw [← e]
      rcases hh : footer l with ⟨r, c'⟩
      have hnp : r ≠ .panic := by
        rcases hr with ⟨_, h2⟩ | ⟨_, h2, _⟩ <;> (rw [hh] at h2; simp only at h2; rw [h2]; simp)
      cases r with
      | ok u => simp only [tRun, hh]
      | err k => simp only [tRun, hh]
      | panic => exact absurd rfl hnp
    | drain =>
      obtain ⟨hb0, hby0, hs'⟩ := drain_refines (cfg := cfg) hs
      obtain ⟨out', l', e, hb, hsim⟩ := ih (drainBytes l).2 (cDrain a).2 (out ++ (drainBytes l).1) acc hs' htr'
        (by
          have : (cDrain a).2.pending = [] := rfl
          rw [this]
          simp only [List.length_nil]; omega)
        (by
          intro b hb
          rcases List.mem_append.mp hb with h | h
          · exact hby b h
          · exact hby0 b h)
      have hbb : bytesBits (out ++ (drainBytes l).1) = bytesBits out ++ a.pending := by
        rw [bytesBits, List.flatMap_append]
        exact congrArg _ hb0
      rw [hbb] at hb hsim
      exact ⟨out', l', e, hb, hsim⟩
    | byteSize =>
      exact ih l a out acc hs htr' (by simp only [opCost] at hsz; omega) hby

end E2E
end Qco
