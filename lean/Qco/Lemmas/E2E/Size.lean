/-
Upper bound on the size of an encoded chunk body (used by the end-to-end layer: the body size of a
chunk of at most `2^24` numbers fits the 32-bit body-size field).
-/
import Qco.Properties.C14
namespace Qco
namespace E2E

/-- the offsets of a run take at most `k + 1` bits each -/
theorem encOffsets_length_le (i : PInfo) (offs : List Nat) :
    (encOffsets i offs).length ≤ offs.length * (i.k + 1) := by
  induction offs with
  | nil => simp [encOffsets]
  | cons o os ih =>
    have h := C14.offset_bits_le i.r i.k o
    simp only [encOffsets, List.length_append, List.length_cons, Nat.add_mul, Nat.one_mul]
    omega

/-- a code of the table of `ps` is the code of one of the prefixes (or empty, out of range) -/
theorem tableOf_code_length_lt (ps : List Prefix) (hcode : ∀ p ∈ ps, p.code.length < 32) (i : Nat) :
    ((tableOf ps).code i).length < 32 := by
  simp only [Table.code, tableOf, List.getD_eq_getElem?_getD, List.getElem?_map]
  cases hi : ps[i]? with
  | none => simp
  | some p =>
    simp only [Option.map_some, Option.getD_some]
    exact hcode p (List.mem_of_getElem? hi)

/-- the jumpstart of an entry of the table of `ps` is the jumpstart of one of the prefixes -/
theorem tableOf_jump_le (ps : List Prefix) (hjump : ∀ p ∈ ps, ∀ j, p.jump = some j → j ≤ 24)
    (i : Nat) (hi : i < (tableOf ps).codes.length) :
    ((tableOf ps).info i).jump.getD 0 ≤ 24 := by
  have hlen : i < ps.length := by simpa [tableOf] using hi
  have hget : ps[i]? = some ps[i] := List.getElem?_eq_getElem hlen
  simp only [Table.info, tableOf, List.getD_eq_getElem?_getD, List.getElem?_map, hget,
    Option.map_some, Option.getD_some, Prefix.info]
  cases hj : ps[i].jump with
  | none => simp
  | some j =>
    simp only [Option.getD_some]
    exact hjump ps[i] (List.getElem_mem hlen) j hj

/-- a well-formed block takes at most `W + 80` bits per number it holds: at most 31 bits of code, at
most 48 bits of run length, at most `W + 1` bits per offset -/
theorem encBlock_length_le (W : Nat) (ps : List Prefix)
    (hcode : ∀ p ∈ ps, p.code.length < 32) (hup : ∀ p ∈ ps, p.upper < 2 ^ W)
    (hjump : ∀ p ∈ ps, ∀ j, p.jump = some j → j ≤ 24)
    (b : Block) (hwf : b.WF (tableOf ps)) :
    (encBlock (tableOf ps) b).length ≤ (blockNums (tableOf ps) b).length * (W + 80) := by
  cases b with
  | one p off =>
    have h1 := tableOf_code_length_lt ps hcode p
    have h2 := C14.offset_bits_le ((tableOf ps).info p).r ((tableOf ps).info p).k off
    have h3 := C14.tableOf_k_le W ps hup p
    simp only [encBlock, blockNums, List.length_append, List.length_singleton, Nat.one_mul]
    omega
  | run p off0 offs =>
    obtain ⟨hp, _, _, _, _⟩ := hwf
    have h1 := tableOf_code_length_lt ps hcode p
    have h2 := C14.offset_bits_le ((tableOf ps).info p).r ((tableOf ps).info p).k off0
    have h3 := C14.tableOf_k_le W ps hup p
    have h4 := C14.varint_bits_le (((tableOf ps).info p).jump.getD 0) offs.length
      (tableOf_jump_le ps hjump p hp)
    have h5 := encOffsets_length_le ((tableOf ps).info p) offs
    have h6 : offs.length * (((tableOf ps).info p).k + 1) ≤ offs.length * (W + 1) :=
      Nat.mul_le_mul_left _ (by omega)
    have e : (offs.length + 1) * (W + 80) = offs.length * (W + 1) + offs.length * 79 + (W + 80) := by
      rw [Nat.add_mul, Nat.one_mul, ← Nat.mul_add]
    simp only [encBlock, blockNums, List.length_append, List.length_cons, List.length_map, nEntriesBits] at h4 ⊢
    rw [e]
    generalize offs.length * (W + 1) = A at *
    omega

/-- the blocks of a body take at most `W + 80` bits per number -/
theorem encBlocks_length_le (W : Nat) (ps : List Prefix)
    (hcode : ∀ p ∈ ps, p.code.length < 32) (hup : ∀ p ∈ ps, p.upper < 2 ^ W)
    (hjump : ∀ p ∈ ps, ∀ j, p.jump = some j → j ≤ 24)
    (bs : List Block) (hwf : ∀ b ∈ bs, b.WF (tableOf ps)) :
    (encBlocks (tableOf ps) bs).length ≤ (blocksNums (tableOf ps) bs).length * (W + 80) := by
  induction bs with
  | nil => simp [encBlocks, blocksNums]
  | cons b bs ih =>
    have h1 := encBlock_length_le W ps hcode hup hjump b (hwf b List.mem_cons_self)
    have h2 := ih (fun b' h => hwf b' (List.mem_cons_of_mem _ h))
    simp only [encBlocks, blocksNums, List.length_append, Nat.add_mul]
    omega

/-- the body of a chunk, padding included, takes at most `W + 80` bits per number and 7 more -/
theorem encBody_length_le (W : Nat) (ps : List Prefix)
    (hcode : ∀ p ∈ ps, p.code.length < 32) (hup : ∀ p ∈ ps, p.upper < 2 ^ W)
    (hjump : ∀ p ∈ ps, ∀ j, p.jump = some j → j ≤ 24)
    (bs : List Block) (hwf : ∀ b ∈ bs, b.WF (tableOf ps)) :
    (encBody ps bs).length ≤ (blocksNums (tableOf ps) bs).length * (W + 80) + 7 := by
  have h1 := C14.body_padded_le ps bs
  have h2 := encBlocks_length_le W ps hcode hup hjump bs hwf
  omega

/-- the body of a chunk of at most `2^24` numbers, coded with codes shorter than 32 bits over ranges of a type of
at most 128 bits, is shorter than `2^32` bytes (in fact at most `2^24 · 209 / 8 + 1`) -/
theorem encBody_bytes_lt (W : Nat) (hW : W ≤ 128) (ps : List Prefix)
    (hcode : ∀ p ∈ ps, p.code.length < 32) (hup : ∀ p ∈ ps, p.upper < 2 ^ W)
    (hjump : ∀ p ∈ ps, ∀ j, p.jump = some j → j ≤ 24)
    (bs : List Block) (hwf : ∀ b ∈ bs, b.WF (tableOf ps))
    (hn : (blocksNums (tableOf ps) bs).length ≤ 2 ^ 24) :
    (encBody ps bs).length / 8 < 2 ^ 32 := by
  have h1 := encBody_length_le W ps hcode hup hjump bs hwf
  have h2 : (blocksNums (tableOf ps) bs).length * (W + 80) ≤ (blocksNums (tableOf ps) bs).length * 208 :=
    Nat.mul_le_mul_left _ (by omega)
  have e24 : (2 : Nat) ^ 24 = 16777216 := by decide
  have e32 : (2 : Nat) ^ 32 = 4294967296 := by decide
  rw [e24] at hn
  rw [e32]
  generalize (blocksNums (tableOf ps) bs).length * (W + 80) = A at *
  omega

end E2E
end Qco
