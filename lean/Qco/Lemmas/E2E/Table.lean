/-
Layer E, part 5: a trained table is a table the literal compressor can write (`CompLit.TableOk`).
-/
import Qco.Lemmas.E2E.Common
import Qco.Lemmas.E2E.DTypes
import Qco.Lemmas.CompLit.Basics
namespace Qco
namespace E2E
open Train TrainLit

/-- HYPOTHESIS of the end-to-end theorems, the one thing training does not guarantee: every code is shorter than 32
bits.  The file format stores the length of a code in a 5-bit field (`BITS_TO_ENCODE_CODE_LEN`), the writer
truncates a longer length silently; the depth of a Huffman tree over `2^12` leaves of weights summing to `2^24`
is not bounded by 31 (Fibonacci-like weights reach depth 33: `F(35) < 2^24`).  Decidable on a given table. -/
def CodesFit (ps : List Prefix) : Prop := ∀ p ∈ ps, p.code.length < 32

instance (ps : List Prefix) : Decidable (CodesFit ps) := by unfold CodesFit; infer_instance

/-- the seven conjuncts of the C10 predicate -/
theorem wfc_all {level : Nat} {ps : List Prefix} {us : List Nat} (h : C10.WFc level ps us = true) :
    boundsOk ps = true ∧ disjointB ps = true ∧ coverB ps us = true ∧ countsB ps us = true ∧
    congruentB ps us = true ∧ treeB ps = true ∧ leavesB level ps = true := by
  simp only [C10.WFc, Bool.and_eq_true] at h
  obtain ⟨⟨⟨⟨⟨⟨h1, h2⟩, h3⟩, h4⟩, h5⟩, h6⟩, h7⟩ := h
  exact ⟨h1, h2, h3, h4, h5, h6, h7⟩

theorem trained_bounds {gb : Nat → Nat} {level : Nat} {gcds : Bool} {us : List Nat} {ps : List Prefix}
    (h : Trained gb level gcds us ps) : ∀ p ∈ ps, p.lower ≤ p.upper := by
  have := (wfc_all h.wfc).1
  simp only [boundsOk, List.all_eq_true, decide_eq_true_eq] at this
  exact this

theorem trained_gcd_pos {gb : Nat → Nat} {level : Nat} {gcds : Bool} {us : List Nat} {ps : List Prefix}
    (h : Trained gb level gcds us ps) : ∀ p ∈ ps, 1 ≤ p.gcd := by
  have := (wfc_all h.wfc).2.2.2.2.1
  simp only [congruentB, List.all_eq_true, Bool.and_eq_true, decide_eq_true_eq] at this
  exact fun p hp => (this p hp).1

/-- every member of a range is congruent to the lower bound modulo the divisor -/
theorem trained_congr {gb : Nat → Nat} {level : Nat} {gcds : Bool} {us : List Nat} {ps : List Prefix}
    (h : Trained gb level gcds us ps) : ∀ p ∈ ps, ∀ u ∈ us, p.contains u = true → p.gcd ∣ u - p.lower := by
  have := (wfc_all h.wfc).2.2.2.2.1
  simp only [congruentB, List.all_eq_true, Bool.and_eq_true, decide_eq_true_eq, beq_iff_eq] at this
  intro p hp u hu hc
  exact Nat.dvd_of_mod_eq_zero ((this p hp).2 u (List.mem_filter.mpr ⟨hu, hc⟩))

theorem contains_iff (p : Prefix) (u : Nat) : p.contains u = true ↔ p.lower ≤ u ∧ u ≤ p.upper := by
  simp [Prefix.contains]

/-- the divisor of a range with more than one value is at most its width -/
theorem trained_gcd_le {gb : Nat → Nat} {level : Nat} {gcds : Bool} {us : List Nat} {ps : List Prefix}
    (h : Trained gb level gcds us ps) : ∀ p ∈ ps, p.lower ≠ p.upper → p.gcd ≤ p.upper - p.lower := by
  intro p hp hne
  have hle := trained_bounds h p hp
  have hd := trained_congr h p hp p.upper (h.upper_mem p hp) ((contains_iff _ _).2 ⟨hle, Nat.le_refl _⟩)
  exact Nat.le_of_dvd (by omega) hd

theorem trained_count_pos {gb : Nat → Nat} {level : Nat} {gcds : Bool} {us : List Nat} {ps : List Prefix}
    (h : Trained gb level gcds us ps) : ∀ p ∈ ps, 1 ≤ p.count := by
  have := (wfc_all h.wfc).2.2.2.1
  simp only [countsB, List.all_eq_true, beq_iff_eq] at this
  intro p hp
  rw [this p hp]
  have hm : p.lower ∈ us.filter p.contains :=
    List.mem_filter.mpr ⟨h.lower_mem p hp, (contains_iff _ _).2 ⟨Nat.le_refl _, trained_bounds h p hp⟩⟩
  exact List.length_pos_of_mem hm

theorem trained_count_le {gb : Nat → Nat} {level : Nat} {gcds : Bool} {us : List Nat} {ps : List Prefix}
    (h : Trained gb level gcds us ps) : ∀ p ∈ ps, p.count ≤ us.length := by
  intro p hp
  rw [← h.counts]
  exact TrainLit.mem_le_sum _ _ (List.mem_map_of_mem hp)

/-- **a trained table can be written by the literal compressor**: `CompLit.TableOk` follows from `Trained`, the
numbers fitting `U`, at most `2^24 − 1` numbers, and codes of at most 31 bits -/
theorem tableOk_of_trained {gb : Nat → Nat} {level : Nat} {d : DType} {fl : Flags} {nums : List Nat}
    {ps : List Prefix} (h : Trained gb level fl.gcds (codedUs d fl nums) ps)
    (hU : ∀ u ∈ codedUs d fl nums, u < 2 ^ d.uBits) (hn : nums.length ≤ 2 ^ 24 - 1) (hc : CodesFit ps) :
    CompLit.TableOk d fl nums ps := by
  obtain ⟨_, hdis, hcov, _, _, _, _⟩ := wfc_all h.wfc
  refine ⟨?_, hdis, ?_, hcov⟩
  · intro p hp
    exact ⟨trained_bounds h p hp, hU _ (h.upper_mem p hp), trained_gcd_pos h p hp,
      Nat.le_of_lt (Nat.lt_of_lt_of_le (hc p hp) (by omega)), h.jump_le p hp, trained_count_pos h p hp⟩
  · rw [h.counts]
    have := CompLit.codedUs_length_le d fl nums
    have h64 : Qco.WB.USIZE = 18446744073709551616 := rfl
    omega

/-- the empty table for a chunk without coded numbers (at most `order` numbers) -/
theorem tableOk_nil {d : DType} {fl : Flags} {nums : List Nat} (h : codedUs d fl nums = []) :
    CompLit.TableOk d fl nums [] :=
  ⟨fun p hp => (by cases hp), rfl, by decide, by rw [h]; rfl⟩

end E2E
end Qco
