/-
Layer E (end to end), part 1: the STRUCTURE of what the literal `train_prefixes` (`TrainLit.trainLit`) returns.

`TrainLit.trainLit_explains` (layer TL) concludes with the judge `Train.explains`, which says nothing about the
divisor of a single-valued range ("not significant") and does not expose the groups.  The file format, however,
needs more of a table than the judge checks (a divisor field that fits, single-valued ranges with divisor 1 …).
`trainLit_struct` re-runs the composition of the four stages and keeps what the stages prove: the table is
`prefixes.map (postOne gb doPost)` where `prefixes` are, one by one, the merges of consecutive non-empty groups
of the raw prefixes with the codes of `make_huffman_code`, and `doPost` says whether the post-pass ran.

`Trained` collects the consequences the end-to-end theorems use, `trainLit_trained` proves them.
-/
import Qco.Lemmas.TrainLit.Train
import Qco.Properties.C10l
namespace Qco
namespace E2E
open GcdLit (Out)
open Train TrainLit

/-! ## the structure theorem -/

/-- `train_prefixes` on a non-empty chunk, with everything the four stages establish kept visible -/
theorem trainLit_struct {C : Type} (F : Floats) (O : CostOracle C) (pick : Nat → List HItem → Nat)
    (ub : Nat) (gb : Nat → Nat) (unsigneds : List Nat) (level : Nat) (gcds : Bool) (n : Nat)
    (hne : unsigneds ≠ []) (hl : level ≤ 12) (hn : n ≤ MAX_ENTRIES) (hlen : unsigneds.length ≤ n)
    (hU : ∀ x ∈ unsigneds, x < 2 ^ ub) (hF : FloatsAgree F unsigneds.length)
    (hW : RunWeightOK F unsigneds.length) (hfin : CostFinite O) (hp : PickOK pick) :
    ∃ (prefixes : List Prefix) (groups : List (List Raw)) (fold doPost : Bool),
      trainLit F O pick ub gb unsigneds level gcds n = .ok (some (prefixes.map (postOne gb doPost))) ∧
      prefixes.map Raw.ofPrefix = groups.map (mergeGroup fold) ∧
      groups.flatten = rawPrefixes (unsigneds.mergeSort fun a b => decide (a ≤ b)) level gcds ∧
      (∀ g ∈ groups, g ≠ []) ∧ (∀ g ∈ groups, GroupOK g) ∧
      (gcds = false → fold = false) ∧
      doPost = (gcds && (GcdLit.commonGcdForChunkMeta (prefixes.map gpOfPrefix)).isNone) ∧
      prefixes ≠ [] := by
  -- the sorted numbers
  generalize hsd : (unsigneds.mergeSort fun a b => decide (a ≤ b)) = sorted
  have hperm : sorted.Perm unsigneds := by rw [← hsd]; exact List.mergeSort_perm _ _
  have hslen : sorted.length = unsigneds.length := hperm.length_eq
  have hs : sorted.Pairwise (· ≤ ·) := by rw [← hsd]; exact mergeSort_sorted unsigneds
  have hn1 : 1 ≤ sorted.length := by
    rw [hslen]
    cases unsigneds with
    | nil => exact absurd rfl hne
    | cons _ _ => simp
  have hn24 : sorted.length ≤ 2 ^ 24 := by
    rw [hslen]; unfold MAX_ENTRIES at hn; omega
  have hUs : ∀ x ∈ sorted, x < 2 ^ ub := fun x hx => hU x (hperm.mem_iff.mp hx)
  rw [← hslen] at hF hW
  -- stage 1: the quantile slices
  obtain ⟨wps, hwps, hraw, hwt⟩ := chooseUnoptimizedLit_eq F sorted hs level gcds hn1 hn24 (by omega) hF
  obtain ⟨hok, hov, hone⟩ := unopt_wok F ub sorted hs level gcds hn24 hUs hW wps hraw
    (fun p hp => (hwt p hp).2)
  -- stage 2: the dynamic programme
  obtain ⟨res, groups, hres, hmerge, hflat, hgne, hsolo, hwsum, hcode⟩ :=
    optimizeLit_grouping O hfin ub wps gcds hok hov hone
  rw [hraw] at hmerge hflat
  generalize hfold : useGcdOptimize (rawPrefixes sorted level gcds) gcds = fold at hmerge
  -- facts about the raw prefixes and the groups
  obtain ⟨hpw, hall⟩ := C18g.rawPrefixes_facts sorted hs level gcds
  obtain ⟨hall2, hcsum⟩ := rawPrefixes_facts2 sorted hs level gcds
  have hmemflat : ∀ g ∈ groups, ∀ r ∈ g, r ∈ rawPrefixes sorted level gcds := by
    intro g hg r hr
    rw [← hflat]; exact List.mem_flatten.mpr ⟨g, hg, hr⟩
  have hgok : ∀ g ∈ groups, GroupOK g := by
    intro g hg
    refine ⟨?_, ?_⟩
    · have := hpw
      rw [← hflat] at this
      exact (List.pairwise_flatten.mp this).1 g hg
    · intro r hr
      have hm := hmemflat g hg r hr
      exact ⟨(hall r hm).1, (hall r hm).2.1, (hall2 r hm).2⟩
  have hgfacts : ∀ g ∈ groups, (mergeGroup fold g).lower ≤ (mergeGroup fold g).upper ∧
      1 ≤ (mergeGroup fold g).gcd ∧ (mergeGroup fold g).gcd ≤ 2 ^ ub := by
    intro g hg
    obtain ⟨last, hlast⟩ := exists_getLast (hgne g hg)
    obtain ⟨h1, h2, h3, _⟩ := mergeGroup_facts fold g (hgok g hg) last hlast
    have hlm : last ∈ g := List.mem_of_getLast? hlast
    have hlu := hUs _ (hall2 last (hmemflat g hg last hlm)).1
    have : 1 ≤ 2 ^ ub := Nat.one_le_two_pow
    exact ⟨h1, h2, by omega⟩
  have hresne : res ≠ [] := by
    intro h
    rw [h] at hmerge
    have hg0 : groups = [] := by
      cases groups with
      | nil => rfl
      | cons _ _ => simp [mergeAll] at hmerge
    rw [hg0] at hflat
    have := hcsum
    rw [← hflat] at this
    simp at this; omega
  have hreslen : res.length = groups.length := by
    have := congrArg List.length hmerge
    simpa [mergeAll] using this
  have hglen : groups.length ≤ chooseMaxNPrefixes level sorted.length := by
    have h1 := C10.length_le_flatten groups hgne
    have h2 := C10.rawPrefixes_length_le sorted level gcds
    rw [hflat] at h1; omega
  have hmaxn := C10.chooseMax_le_n level sorted.length
  -- stage 3: the codes
  obtain ⟨coded, hcoded, herase, hhuff⟩ := makeHuffmanLit_is_huffRun pick hp res hresne
    (by rw [hwsum]; exact hok.wsum) (by rw [hreslen, USZ_eq]; omega)
  have hcraw : coded.map WP.toRaw = res.map WP.toRaw :=
    Huff.eraseCodes_map WP.toRaw (fun _ => rfl) herase
  have hclen : coded.length = res.length := by
    have := congrArg List.length hcraw; simpa using this
  -- the table before the post-pass
  generalize hpre : coded.map WP.toPrefix = prefixes
  have hpraw : prefixes.map Raw.ofPrefix = groups.map (mergeGroup fold) := by
    rw [← hpre, List.map_map]
    have : (Raw.ofPrefix ∘ WP.toPrefix) = WP.toRaw := rfl
    rw [this, hcraw, hmerge]; rfl
  have hpfacts : ∀ p ∈ prefixes, p.lower ≤ p.upper ∧ 1 ≤ p.gcd ∧ p.gcd ≤ 2 ^ ub := by
    intro p hp
    have hm : Raw.ofPrefix p ∈ groups.map (mergeGroup fold) := by
      rw [← hpraw]; exact List.mem_map_of_mem hp
    obtain ⟨g, hg, hgp⟩ := List.mem_map.mp hm
    have := hgfacts g hg
    rw [hgp] at this
    exact this
  -- the post-pass
  generalize hdo : (gcds && (GcdLit.commonGcdForChunkMeta (prefixes.map gpOfPrefix)).isNone) = doPost
  have hfinal : trainLit F O pick ub gb unsigneds level gcds n = .ok (some (prefixes.map (postOne gb doPost))) := by
    have he : unsigneds.isEmpty = false := by
      cases unsigneds with
      | nil => exact absurd rfl hne
      | cons _ _ => rfl
    unfold trainLit
    simp only [he, Bool.false_eq_true, if_false, if_neg (show ¬ 12 < level by omega),
      if_neg (show ¬ MAX_ENTRIES < n by omega), hsd, hwps, ok_bind, hres, hcoded, hpre, hdo]
    cases doPost with
    | true =>
      simp only [if_true, postPass_eq ub gb prefixes hpfacts, ok_bind, pure_eq]
    | false =>
      simp only [Bool.false_eq_true, if_false, pure_eq]
      congr 2
      rw [List.map_congr_left (fun p _ => postOne_false gb p)]; simp
  refine ⟨prefixes, groups, fold, doPost, hfinal, hpraw, hflat, hgne, hgok, ?_, hdo.symm, ?_⟩
  · intro hg
    rw [← hfold, hg]; rfl
  · intro h
    have : prefixes.length = groups.length := by
      have := congrArg List.length hpraw; simpa using this
    rw [h] at this
    have : res.length = 0 := by rw [hreslen]; simpa using this.symm
    exact hresne (List.eq_nil_of_length_eq_zero this)

end E2E
end Qco
