/-
Layer E, part 2: what the table the literal `train_prefixes` returns satisfies, beyond the C10 predicate `WFc`
— the facts the file format and the literal compressor need (`Trained`), all derived from `trainLit_struct`.
-/
import Qco.Lemmas.E2E.TrainStruct
namespace Qco
namespace E2E
open GcdLit (Out)
open Train TrainLit

/-- what a trained table `ps` satisfies with respect to the unsigned numbers `us` of its chunk:
the C10 predicate; both bounds of every range are numbers of the chunk; jumpstarts are at most 24; the counts
add up to the number of numbers; a single-valued range has divisor 1; without GCDs every divisor is 1; without a
common-GCD field every divisor is 1 or fits the range's own field (the post-pass); the table is not empty -/
structure Trained (gb : Nat → Nat) (level : Nat) (gcds : Bool) (us : List Nat) (ps : List Prefix) : Prop where
  wfc : C10.WFc level ps us = true
  lower_mem : ∀ p ∈ ps, p.lower ∈ us
  upper_mem : ∀ p ∈ ps, p.upper ∈ us
  jump_le : ∀ p ∈ ps, ∀ j, p.jump = some j → j ≤ 24
  counts : (ps.map (·.count)).sum = us.length
  gcd_single : ∀ p ∈ ps, p.lower = p.upper → p.gcd = 1
  gcd_off : gcds = false → ∀ p ∈ ps, p.gcd = 1
  gcd_fits : hasCommonLit gcds ps = false → ∀ p ∈ ps, p.gcd = 1 ∨ gcdFits gb p p.gcd = true
  ne : ps ≠ []

/-! ### raw prefixes and groups -/

theorem raw_jump_le (sorted : List Nat) (level : Nat) (gcds : Bool) :
    ∀ r ∈ rawPrefixes sorted level gcds, ∀ j, r.jump = some j → j ≤ 24 := by
  intro r hr j hj
  unfold rawPrefixes at hr
  split at hr
  · cases hr
  · obtain ⟨be, _, rfl⟩ := List.mem_map.mp hr
    simp only [mkRaw] at hj
    split at hj
    · simp only [Option.some.injEq] at hj
      rw [← hj]; exact (C10.jumpstart_spec _ _).1
    · cases hj

/-- a group whose merge is single-valued is one single-valued raw prefix: nothing is folded -/
theorem group_single (fold : Bool) (g : List Raw) (hok : GroupOK g) (hne : g ≠ [])
    (h : (mergeGroup fold g).lower = (mergeGroup fold g).upper) : (mergeGroup fold g).gcd = 1 := by
  cases g with
  | nil => exact absurd rfl hne
  | cons x rest =>
    cases rest with
    | nil =>
      have hx : x.lower = x.upper := h
      show (if fold = true then (foldAcc x.upper [x]).getD 1 else 1) = 1
      have : foldAcc x.upper [x] = none := by
        show foldGcdLeft x.lower x.upper x.gcd x.upper none = none
        unfold foldGcdLeft
        simp [hx]
      rw [this]; simp
    | cons y rest' =>
      obtain ⟨last, hlast⟩ := exists_getLast (g := x :: y :: rest') (by simp)
      have hlt := group_strict _ last hok hlast x (y :: rest') rfl (by simp)
      have hup := (mergeGroup_facts fold _ hok last hlast).2.2.2
      have hlo : (mergeGroup fold (x :: y :: rest')).lower = x.lower := rfl
      have := (hok.le x List.mem_cons_self).1
      omega

theorem sum_flatten_nat : ∀ (L : List (List Nat)), L.flatten.sum = (L.map List.sum).sum
  | [] => rfl
  | l :: L => by
    simp only [List.flatten_cons, List.sum_append, List.map_cons, List.sum_cons, sum_flatten_nat L]

theorem counts_sum (fold : Bool) (groups : List (List Raw)) :
    ((groups.map (mergeGroup fold)).map (·.count)).sum = (groups.flatten.map (·.count)).sum := by
  rw [List.map_flatten, sum_flatten_nat, List.map_map, List.map_map]
  rfl

/-! ### from the structure to `Trained` -/

theorem postOne_gcd (gb : Nat → Nat) (doPost : Bool) (p : Prefix) :
    (postOne gb doPost p).gcd = p.gcd ∨ (postOne gb doPost p).gcd = 1 := by
  unfold postOne; split
  · exact Or.inr rfl
  · exact Or.inl rfl

/-- the table `train_prefixes` returns on a non-empty chunk satisfies `Trained` -/
theorem trainLit_trained {C : Type} (F : Floats) (O : CostOracle C) (pick : Nat → List HItem → Nat)
    (ub : Nat) (gb : Nat → Nat) (unsigneds : List Nat) (level : Nat) (gcds : Bool) (n : Nat)
    (hne : unsigneds ≠ []) (hl : level ≤ 12) (hn : n ≤ MAX_ENTRIES) (hlen : unsigneds.length ≤ n)
    (hU : ∀ x ∈ unsigneds, x < 2 ^ ub) (hF : FloatsAgree F unsigneds.length)
    (hW : RunWeightOK F unsigneds.length) (hfin : CostFinite O) (hp : PickOK pick) :
    ∃ ps, trainLit F O pick ub gb unsigneds level gcds n = .ok (some ps) ∧
      Trained gb level gcds unsigneds ps := by
  obtain ⟨prefixes, groups, fold, doPost, hfinal, hpraw, hflat, hgne, hgok, hfoldoff, hdo, hpne⟩ :=
    trainLit_struct F O pick ub gb unsigneds level gcds n hne hl hn hlen hU hF hW hfin hp
  obtain ⟨ps', h1', hwfc⟩ := C10l.trainLit_wfc F O pick ub gb unsigneds level gcds n hne hl hn hlen hU hF hW hfin hp
  have hps' : ps' = prefixes.map (postOne gb doPost) := by
    rw [hfinal] at h1'
    injection h1' with h; injection h with h; exact h.symm
  subst hps'
  refine ⟨_, hfinal, ?_⟩
  generalize hsd : (unsigneds.mergeSort fun a b => decide (a ≤ b)) = sorted at hflat
  have hperm : sorted.Perm unsigneds := by rw [← hsd]; exact List.mergeSort_perm _ _
  have hs : sorted.Pairwise (· ≤ ·) := by rw [← hsd]; exact mergeSort_sorted unsigneds
  obtain ⟨_, hall⟩ := C18g.rawPrefixes_facts sorted hs level gcds
  obtain ⟨hall2, hcsum⟩ := rawPrefixes_facts2 sorted hs level gcds
  have hmemflat : ∀ g ∈ groups, ∀ r ∈ g, r ∈ rawPrefixes sorted level gcds := by
    intro g hg r hr
    rw [← hflat]; exact List.mem_flatten.mpr ⟨g, hg, hr⟩
  -- every prefix before the post-pass is the merge of one of the groups
  have hgrp : ∀ p ∈ prefixes, ∃ g ∈ groups, Raw.ofPrefix p = mergeGroup fold g := by
    intro p hp
    have hm : Raw.ofPrefix p ∈ groups.map (mergeGroup fold) := by
      rw [← hpraw]; exact List.mem_map_of_mem hp
    obtain ⟨g, hg, hgp⟩ := List.mem_map.mp hm
    exact ⟨g, hg, hgp.symm⟩
  -- a prefix after the post-pass comes from one before
  have hpost : ∀ q ∈ prefixes.map (postOne gb doPost), ∃ p ∈ prefixes, q = postOne gb doPost p := by
    intro q hq
    obtain ⟨p, hp, rfl⟩ := List.mem_map.mp hq
    exact ⟨p, hp, rfl⟩
  refine ⟨hwfc, ?_, ?_, ?_, ?_, ?_, ?_, ?_, ?_⟩
  · -- lower bounds are numbers of the chunk
    intro q hq
    obtain ⟨p, hp, rfl⟩ := hpost q hq
    obtain ⟨g, hg, hpg⟩ := hgrp p hp
    rw [(postOne_fields gb doPost p).1]
    have e1 : p.lower = (mergeGroup fold g).lower := congrArg Raw.lower hpg
    rw [e1]
    cases g with
    | nil => exact absurd rfl (hgne _ hg)
    | cons x rest =>
      show x.lower ∈ unsigneds
      exact hperm.mem_iff.mp (hall x (hmemflat _ hg x List.mem_cons_self)).2.2
  · -- upper bounds are numbers of the chunk
    intro q hq
    obtain ⟨p, hp, rfl⟩ := hpost q hq
    obtain ⟨g, hg, hpg⟩ := hgrp p hp
    rw [(postOne_fields gb doPost p).2.1]
    have e2 : p.upper = (mergeGroup fold g).upper := congrArg Raw.upper hpg
    obtain ⟨last, hlast⟩ := exists_getLast (hgne g hg)
    rw [e2, (mergeGroup_facts fold g (hgok g hg) last hlast).2.2.2]
    exact hperm.mem_iff.mp (hall2 last (hmemflat g hg last (List.mem_of_getLast? hlast))).1
  · -- jumpstarts
    intro q hq j hj
    obtain ⟨p, hp, rfl⟩ := hpost q hq
    obtain ⟨g, hg, hpg⟩ := hgrp p hp
    rw [(postOne_fields gb doPost p).2.2.2.1] at hj
    have e4 : p.jump = (mergeGroup fold g).jump := congrArg Raw.jump hpg
    obtain ⟨last, hlast⟩ := exists_getLast (hgne g hg)
    have : (mergeGroup fold g).jump = last.jump := by
      simp only [mergeGroup, getLastD_of_getLast? hlast]
    rw [e4, this] at hj
    exact raw_jump_le sorted level gcds last (hmemflat g hg last (List.mem_of_getLast? hlast)) j hj
  · -- the counts add up
    have h1 : (prefixes.map (postOne gb doPost)).map (·.count) = (prefixes.map Raw.ofPrefix).map (·.count) := by
      rw [List.map_map, List.map_map]
      apply List.map_congr_left
      intro p _
      exact (postOne_fields gb doPost p).2.2.1
    rw [h1, hpraw, counts_sum, hflat, hcsum]
    exact hperm.length_eq
  · -- single-valued ranges
    intro q hq hsingle
    obtain ⟨p, hp, rfl⟩ := hpost q hq
    obtain ⟨g, hg, hpg⟩ := hgrp p hp
    rw [(postOne_fields gb doPost p).1, (postOne_fields gb doPost p).2.1] at hsingle
    have e1 : p.lower = (mergeGroup fold g).lower := congrArg Raw.lower hpg
    have e2 : p.upper = (mergeGroup fold g).upper := congrArg Raw.upper hpg
    have e5 : p.gcd = (mergeGroup fold g).gcd := congrArg Raw.gcd hpg
    have := group_single fold g (hgok g hg) (hgne g hg) (by rw [← e1, ← e2]; exact hsingle)
    rcases postOne_gcd gb doPost p with h | h
    · rw [h, e5, this]
    · exact h
  · -- GCDs off
    intro hoff q hq
    obtain ⟨p, hp, rfl⟩ := hpost q hq
    obtain ⟨g, hg, hpg⟩ := hgrp p hp
    have e5 : p.gcd = (mergeGroup fold g).gcd := congrArg Raw.gcd hpg
    have : (mergeGroup fold g).gcd = 1 := by
      rw [hfoldoff hoff]; rfl
    rcases postOne_gcd gb doPost p with h | h
    · rw [h, e5, this]
    · exact h
  · -- no common field: the post-pass ran (or GCDs are off)
    intro hnc q hq
    obtain ⟨p, hp, rfl⟩ := hpost q hq
    rw [hasCommon_postOne] at hnc
    cases hg : gcds with
    | false =>
      left
      obtain ⟨g, hgm, hpg⟩ := hgrp p hp
      have e5 : p.gcd = (mergeGroup fold g).gcd := congrArg Raw.gcd hpg
      have : (mergeGroup fold g).gcd = 1 := by
        rw [hfoldoff hg]; rfl
      rcases postOne_gcd gb doPost p with h | h
      · rw [h, e5, this]
      · exact h
    | true =>
      have hdo' : doPost = true := by
        rw [hdo, hg]
        unfold hasCommonLit at hnc
        rw [hg] at hnc
        simp only [Bool.true_and] at hnc ⊢
        cases hc : GcdLit.commonGcdForChunkMeta (prefixes.map gpOfPrefix) with
        | none => rfl
        | some _ => rw [hc] at hnc; cases hnc
      rw [hdo']
      unfold postOne
      by_cases hfit : gcdFits gb p p.gcd = true
      · right
        simp only [hfit, Bool.not_true, Bool.and_false, Bool.false_eq_true, if_false]
      · left
        have : gcdFits gb p p.gcd = false := by simpa using hfit
        simp only [this, Bool.not_false, Bool.and_self, if_true]
  · intro h
    exact hpne (List.map_eq_nil_iff.mp h)

end E2E
end Qco
