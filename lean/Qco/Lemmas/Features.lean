/-
Helper lemmas for C18 (features: GCD, delta, run-length). Proof-side only; nothing in the model
imports this file.
-/
import Qco.Train.WFc
import Qco.Properties.C12
namespace Qco

/-! ### fold of `Nat.gcd` -/

theorem foldl_gcd_dvd_init (f : Nat → Nat) (l : List Nat) (g0 : Nat) :
    l.foldl (fun g u => Nat.gcd g (f u)) g0 ∣ g0 := by
  induction l generalizing g0 with
  | nil => exact Nat.dvd_refl _
  | cons a l ih =>
    simp only [List.foldl_cons]
    exact Nat.dvd_trans (ih _) (Nat.gcd_dvd_left _ _)

theorem foldl_gcd_dvd_mem (f : Nat → Nat) (l : List Nat) (g0 : Nat) (u : Nat) (hu : u ∈ l) :
    l.foldl (fun g u => Nat.gcd g (f u)) g0 ∣ f u := by
  induction l generalizing g0 with
  | nil => cases hu
  | cons a l ih =>
    simp only [List.foldl_cons]
    rcases List.mem_cons.mp hu with h | h
    · subst h
      exact Nat.dvd_trans (foldl_gcd_dvd_init f l _) (Nat.gcd_dvd_right _ _)
    · exact ih _ h

theorem dvd_foldl_gcd (f : Nat → Nat) (l : List Nat) (g0 d : Nat) (h0 : d ∣ g0)
    (h : ∀ u ∈ l, d ∣ f u) : d ∣ l.foldl (fun g u => Nat.gcd g (f u)) g0 := by
  induction l generalizing g0 with
  | nil => exact h0
  | cons a l ih =>
    simp only [List.foldl_cons]
    exact ih _ (Nat.dvd_gcd h0 (h a List.mem_cons_self)) (fun u hu => h u (List.mem_cons_of_mem _ hu))

/-! ### delta -/

theorem sDiff1_length (ds : DType) (xs : List Nat) : (sDiff1 ds xs).length = xs.length - 1 := by
  induction xs with
  | nil => rfl
  | cons a rest ih =>
    cases rest with
    | nil => rfl
    | cons b rest' => simp only [sDiff1, List.length_cons, ih]; omega

/-! ### varint and offsets -/

theorem encVarintHigh_length_le_feat (m y : Nat) : (encVarintHigh m y).length ≤ 2 * m := by
  induction m generalizing y with
  | zero => simp [encVarintHigh]
  | succ m ih =>
    unfold encVarintHigh
    by_cases hy : y = 0
    · simp [hy]; omega
    · simp only [hy, if_false, List.cons_append, List.nil_append, List.length_cons]
      have := ih (y / 2)
      omega

theorem encOffset_zero : encOffset 0 0 0 = [] := by decide

theorem encOffsets_replicate_zero (i : PInfo) (hr : i.r = 0) (hk : i.k = 0) (m : Nat) :
    encOffsets i (List.replicate m 0) = [] := by
  induction m with
  | zero => rfl
  | succ m ih => simp [List.replicate_succ, encOffsets, hr, hk, encOffset_zero, ih]

/-! ### streaming reconstruction (`reconstruct_nums`) inverts n-th order differencing -/

theorem valid_zero (ds : DType) : C12.valid ds 0 := by
  unfold C12.valid; split
  · omega
  · exact Nat.two_pow_pos _

theorem sSub_valid (ds : DType) (a b : Nat) : C12.valid ds (ds.sSub b a) := by
  have hM : 0 < ds.M := Nat.two_pow_pos _
  unfold C12.valid DType.sSub
  cases hk : ds.kind <;> simp only [reduceCtorEq, if_false, if_true] <;> first
    | exact Nat.mod_lt _ hM
    | (split <;> omega)

theorem sAdd_valid (ds : DType) (a b : Nat) : C12.valid ds (ds.sAdd a b) := by
  have hM : 0 < ds.M := Nat.two_pow_pos _
  unfold C12.valid DType.sAdd
  cases hk : ds.kind <;> simp only [reduceCtorEq, if_false, if_true] <;> first
    | exact Nat.mod_lt _ hM
    | (split <;> omega)

theorem sAdd_zero (ds : DType) (a : Nat) (ha : C12.valid ds a) : ds.sAdd a 0 = a := by
  unfold C12.valid at ha; unfold DType.sAdd
  cases hk : ds.kind <;> simp only [hk, reduceCtorEq, if_false, if_true] at ha ⊢ <;> first
    | exact Nat.mod_eq_of_lt ha
    | (split <;> omega)

private theorem mod_arith (M a b : Nat) (ha : a < M) (hb : b < M) : (a + (b + (M - a % M)) % M) % M = b := by
  rw [Nat.mod_eq_of_lt ha, Nat.add_mod_mod]
  have : a + (b + (M - a)) = b + M := by omega
  rw [this, Nat.add_mod_right, Nat.mod_eq_of_lt hb]

theorem sAdd_sSub (ds : DType) (a b : Nat) (ha : C12.valid ds a) (hb : C12.valid ds b) :
    ds.sAdd a (ds.sSub b a) = b := by
  unfold C12.valid at ha hb; unfold DType.sAdd DType.sSub
  cases hk : ds.kind <;> simp only [hk, reduceCtorEq, if_false, if_true] at ha hb ⊢ <;> first
    | exact mod_arith _ _ _ ha hb
    | (split <;> split <;> omega)

theorem sDiff1_valid (ds : DType) (xs : List Nat) : ∀ y ∈ sDiff1 ds xs, C12.valid ds y := by
  induction xs with
  | nil => intro y hy; cases hy
  | cons a rest ih =>
    cases rest with
    | nil => intro y hy; cases hy
    | cons b rest' =>
      intro y hy
      simp only [sDiff1, List.mem_cons] at hy
      rcases hy with rfl | hy
      · exact sSub_valid ds a b
      · exact ih y hy

theorem sDiffN_valid (ds : DType) (k : Nat) (xs : List Nat) (h : ∀ x ∈ xs, C12.valid ds x) :
    ∀ y ∈ sDiffN ds k xs, C12.valid ds y := by
  induction k generalizing xs with
  | zero => exact h
  | succ k ih => exact ih _ (sDiff1_valid ds xs)

theorem sMoments_valid (ds : DType) (k : Nat) (xs : List Nat) (h : ∀ x ∈ xs, C12.valid ds x) :
    ∀ y ∈ sMoments ds k xs, C12.valid ds y := by
  induction k generalizing xs with
  | zero => intro y hy; cases hy
  | succ k ih =>
    intro y hy
    simp only [sMoments, List.mem_cons] at hy
    rcases hy with rfl | hy
    · cases xs with
      | nil => exact valid_zero ds
      | cons a _ => exact h a List.mem_cons_self
    · exact ih _ (sDiff1_valid ds xs) y hy

/-- integrate one level with the signed companion's wrapping addition -/
def integS (ds : DType) (x0 : Nat) : List Nat → List Nat
  | [] => [x0]
  | d :: dl => x0 :: integS ds (ds.sAdd x0 d) dl

theorem integS_sDiff1 (ds : DType) (x : Nat) (xs : List Nat) (h : ∀ y ∈ x :: xs, C12.valid ds y) :
    integS ds x (sDiff1 ds (x :: xs)) = x :: xs := by
  induction xs generalizing x with
  | nil => rfl
  | cons y ys ih =>
    have hx := h x List.mem_cons_self
    have hy := h y (List.mem_cons_of_mem _ List.mem_cons_self)
    simp only [sDiff1, integS, sAdd_sSub ds x y hx hy]
    rw [ih y (fun z hz => h z (List.mem_cons_of_mem _ hz))]

theorem shiftMoments_ne_nil (ds : DType) (ms : List Nat) (h : ms ≠ []) : shiftMoments ds ms ≠ [] := by
  match ms, h with
  | [_], _ => simp [shiftMoments]
  | _ :: _ :: _, _ => simp [shiftMoments]

theorem addLast_ne_nil (ds : DType) (dl : Nat) (ms : List Nat) (h : ms ≠ []) : addLast ds dl ms ≠ [] := by
  match ms, h with
  | [_], _ => simp [addLast]
  | _ :: _ :: _, _ => simp [addLast]

theorem addLast_cons (ds : DType) (dl a : Nat) (ms : List Nat) (h : ms ≠ []) :
    addLast ds dl (a :: ms) = a :: addLast ds dl ms := by
  match ms, h with
  | _ :: _, _ => simp [addLast]

/-- the stream for `m0 :: ms` is the running sum, from `m0`, of the stream for `ms` -/
theorem reconstructNums_cons (ds : DType) (n m0 : Nat) (ms dls : List Nat) (h : ms ≠ []) :
    reconstructNums ds (n + 1) (m0 :: ms) dls = integS ds m0 (reconstructNums ds n ms dls) := by
  induction n generalizing m0 ms dls with
  | zero => cases dls <;> simp [reconstructNums, integS]
  | succ n ih =>
    match ms, h with
    | m1 :: ms', _ =>
      have hs := shiftMoments_ne_nil ds (m1 :: ms') (by simp)
      cases dls with
      | nil =>
        rw [reconstructNums]
        simp only [List.headD_cons, shiftMoments]
        rw [ih _ _ _ hs]
        conv => rhs; rw [reconstructNums]
        simp only [List.headD_cons, integS]
      | cons dl rest =>
        rw [reconstructNums]
        simp only [List.headD_cons, shiftMoments]
        rw [addLast_cons ds dl _ _ hs, ih _ _ _ (addLast_ne_nil ds dl _ hs)]
        conv => rhs; rw [reconstructNums]
        simp only [List.headD_cons, integS]

theorem reconstructNums_one (ds : DType) (x : Nat) (rest : List Nat) (h : ∀ y ∈ x :: rest, C12.valid ds y) :
    reconstructNums ds (rest.length + 1) [x] (sDiff1 ds (x :: rest)) = x :: rest := by
  induction rest generalizing x with
  | nil => simp [reconstructNums, sDiff1]
  | cons y ys ih =>
    have hx := h x List.mem_cons_self
    have hy := h y (List.mem_cons_of_mem _ List.mem_cons_self)
    show reconstructNums ds (ys.length + 1 + 1) [x] (ds.sSub y x :: sDiff1 ds (y :: ys)) = _
    rw [reconstructNums]
    simp only [List.headD_cons, shiftMoments, addLast, sAdd_sSub ds x y hx hy]
    rw [ih y (fun z hz => h z (List.mem_cons_of_mem _ hz))]

/-- `reconstruct_nums` inverts delta encoding of any order `k ≥ 1`, on every sequence of valid patterns -/
theorem reconstructNums_sDiffN (ds : DType) (k : Nat) (xs : List Nat) (h : ∀ x ∈ xs, C12.valid ds x) :
    reconstructNums ds xs.length (sMoments ds (k + 1) xs) (sDiffN ds (k + 1) xs) = xs := by
  induction k generalizing xs with
  | zero =>
    cases xs with
    | nil => rfl
    | cons x rest => exact reconstructNums_one ds x rest h
  | succ k ih =>
    cases xs with
    | nil => rfl
    | cons x rest =>
      have hl : rest.length = (sDiff1 ds (x :: rest)).length := by rw [sDiff1_length]; simp
      rw [sMoments, sDiffN, List.length_cons, List.headD_cons,
        reconstructNums_cons ds _ _ _ _ (by simp [sMoments]), hl,
        ih _ (sDiff1_valid ds _)]
      exact integS_sDiff1 ds x rest h

theorem shiftMoments_valid (ds : DType) (ms : List Nat) (h : ∀ m ∈ ms, C12.valid ds m) :
    ∀ m ∈ shiftMoments ds ms, C12.valid ds m := by
  induction ms with
  | nil => exact h
  | cons a rest ih =>
    cases rest with
    | nil => exact h
    | cons b r =>
      intro m hm
      simp only [shiftMoments, List.mem_cons] at hm
      rcases hm with rfl | hm
      · exact sAdd_valid ds _ _
      · exact ih (fun z hz => h z (List.mem_cons_of_mem _ hz)) m (by simpa [shiftMoments] using hm)

theorem addLast_zero (ds : DType) (ms : List Nat) (h : ∀ m ∈ ms, C12.valid ds m) : addLast ds 0 ms = ms := by
  induction ms with
  | nil => rfl
  | cons a rest ih =>
    cases rest with
    | nil => simp [addLast, sAdd_zero ds a (h a List.mem_cons_self)]
    | cons b r =>
      rw [addLast_cons ds 0 a _ (by simp), ih (fun z hz => h z (List.mem_cons_of_mem _ hz))]

/-- vanishing deltas need not be present: the moments alone drive the stream -/
theorem reconstructNums_zero_deltas (ds : DType) (n : Nat) (ms dls : List Nat)
    (h : ∀ m ∈ ms, C12.valid ds m) (hz : ∀ d ∈ dls, d = 0) :
    reconstructNums ds n ms dls = reconstructNums ds n ms [] := by
  induction n generalizing ms dls with
  | zero => rfl
  | succ n ih =>
    cases dls with
    | nil => rfl
    | cons dl rest =>
      have hd : dl = 0 := hz dl List.mem_cons_self
      subst hd
      have hv := shiftMoments_valid ds ms h
      simp only [reconstructNums, addLast_zero ds _ hv]
      rw [ih _ rest hv (fun d hd => hz d (List.mem_cons_of_mem _ hd)), ih _ [] hv (by simp)]

end Qco
