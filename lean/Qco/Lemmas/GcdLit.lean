/-
Layer G, proofs: the literal model of `gcd_utils.rs` (`Qco/Op/GcdLit.lean`) computes what the training
model (`Qco/Train/Model.lean`), the body writer (`Qco/Op/BodyWriter.lean`) and the driver
(`Qco/Driver/Cmds.lean`) assume, and does not panic under the conditions its callers guarantee.

  1. `pair_gcd`                   `pairGcd_eq`, `pairGcd_zero`, `pairGcd_unfold`, `pairGcdLoop_fuel`
  2. `gcd`                        `gcdSorted_eq`, `gcdSorted_nil`, `gcdSorted_pos`
  3. `fold_prefix_gcds_left`      `foldPrefixGcdsLeft_eq`, `foldLoop_eq`, `foldPrefixGcdsLeft_panic_iff`
  4. `common_gcd_for_chunk_meta`  `commonGcdForChunkMeta_eq`
  5. `use_gcd_prefix_optimize`    `useGcdPrefixOptimize_eq`
  6. `use_gcd_arithmetic`         `useGcdArithmetic_eq`
  7. `gcd_fits_in_prefix_meta`    `gcdFitsInPrefixMeta_eq`

The property statements are restated in `Qco/Properties/C18g.lean`.
-/
import Qco.Op.GcdLit
import Qco.Train.Model
import Qco.Op.BodyWriter
import Qco.Driver.Cmds
namespace Qco.GcdLit
open Qco

/-! ## 1. `pair_gcd` -/

theorem gcd_mod_left (a b : Nat) : Nat.gcd (a % b) b = Nat.gcd a b := by
  rw [Nat.gcd_comm a b, Nat.gcd_rec b a]

/-- with enough fuel (`b ≤ fuel`) and `b > 0` the loop answers `Nat.gcd a b` -/
theorem pairGcdLoop_eq : ∀ (fuel a b : Nat), b ≤ fuel → 0 < b →
    pairGcdLoop fuel a b = .ok (Nat.gcd a b)
  | 0, a, b, h1, h2 => by omega
  | fuel + 1, a, b, h1, h2 => by
    have hb : b ≠ 0 := by omega
    have hlt : a % b < b := Nat.mod_lt _ h2
    simp only [pairGcdLoop, if_neg hb]
    by_cases ha : a % b = 0
    · simp only [if_pos ha]
      rw [← gcd_mod_left a b, ha, Nat.gcd_zero_left]
    · simp only [if_neg ha]
      have hlt2 : b % (a % b) < a % b := Nat.mod_lt _ (Nat.pos_of_ne_zero ha)
      by_cases hb' : b % (a % b) = 0
      · simp only [if_pos hb']
        rw [← gcd_mod_left a b, Nat.gcd_comm, ← gcd_mod_left b (a % b), hb', Nat.gcd_zero_left]
      · simp only [if_neg hb']
        rw [pairGcdLoop_eq fuel (a % b) (b % (a % b)) (by omega) (Nat.pos_of_ne_zero hb')]
        rw [← gcd_mod_left a b, Nat.gcd_comm (a % b) b, ← gcd_mod_left b (a % b), Nat.gcd_comm]

/-- `pair_gcd(a, b)` for `b > 0` (the documented precondition) is the greatest common divisor -/
theorem pairGcd_eq (a b : Nat) (hb : 0 < b) : pairGcd a b = .ok (Nat.gcd a b) :=
  pairGcdLoop_eq b a b (Nat.le_refl b) hb

/-- `pair_gcd(a, 0)` panics: `a %= 0` -/
theorem pairGcd_zero (a : Nat) : pairGcd a 0 = .panic := rfl

theorem pairGcd_panic_iff (a b : Nat) : pairGcd a b = .panic ↔ b = 0 := by
  constructor
  · intro h
    rcases Nat.eq_zero_or_pos b with hb | hb
    · exact hb
    · rw [pairGcd_eq a b hb] at h; cases h
  · rintro rfl; rfl

/-- the fuel never runs out: any fuel `≥ b` gives the same outcome (termination of the Rust loop:
`b` strictly decreases from one iteration to the next) -/
theorem pairGcdLoop_fuel (fuel a b : Nat) (h : b ≤ fuel) : pairGcdLoop fuel a b = pairGcd a b := by
  rcases Nat.eq_zero_or_pos b with hb | hb
  · subst hb
    cases fuel <;> rfl
  · rw [pairGcdLoop_eq fuel a b h hb, pairGcd_eq a b hb]

/-- the loop equation of `pair_gcd`, free of fuel: exactly the Rust body followed by the next iteration -/
theorem pairGcd_unfold (a b : Nat) :
    pairGcd a b =
      if b = 0 then .panic
      else if a % b = 0 then .ok b
      else if b % (a % b) = 0 then .ok (a % b)
      else pairGcd (a % b) (b % (a % b)) := by
  by_cases hb : b = 0
  · subst hb; rfl
  · have hpos : 0 < b := Nat.pos_of_ne_zero hb
    obtain ⟨f, rfl⟩ : ∃ f, b = f + 1 := ⟨b - 1, by omega⟩
    simp only [if_neg hb]
    show pairGcdLoop (f + 1) a (f + 1) = _
    simp only [pairGcdLoop, if_neg hb]
    by_cases ha : a % (f + 1) = 0
    · simp only [if_pos ha]
    · simp only [if_neg ha]
      by_cases hb' : (f + 1) % (a % (f + 1)) = 0
      · simp only [if_pos hb']
      · simp only [if_neg hb']
        have h1 : a % (f + 1) < f + 1 := Nat.mod_lt _ hpos
        have h2 : (f + 1) % (a % (f + 1)) < a % (f + 1) := Nat.mod_lt _ (Nat.pos_of_ne_zero ha)
        exact pairGcdLoop_fuel f _ _ (by omega)

/-- the measure of the termination argument: the second argument of the next iteration is smaller -/
theorem pairGcd_decreases (a b : Nat) (hb : b ≠ 0) (ha : a % b ≠ 0) : b % (a % b) < b :=
  Nat.lt_trans (Nat.mod_lt _ (Nat.pos_of_ne_zero ha)) (Nat.mod_lt _ (Nat.pos_of_ne_zero hb))

/-! ## 2. `gcd` -/

theorem foldl_gcd_one (f : Nat → Nat) : ∀ (xs : List Nat),
    xs.foldl (fun res x => Nat.gcd res (f x)) 1 = 1
  | [] => rfl
  | x :: xs => by
    simp only [List.foldl_cons, Nat.gcd_one_left]
    exact foldl_gcd_one f xs

/-- the `for` loop with its early `break`: the same value as folding `Nat.gcd` over the whole rest -/
theorem gcdLoop_eq (lower : Nat) : ∀ (xs : List Nat) (res : Nat), 1 ≤ res → (∀ x ∈ xs, lower ≤ x) →
    gcdLoop lower xs res = .ok (xs.foldl (fun res x => Nat.gcd res (x - lower)) res)
  | [], res, _, _ => rfl
  | x :: xs, res, hres, hx => by
    unfold gcdLoop
    by_cases h1 : res = 1
    · subst h1
      simp only [if_true]
      rw [foldl_gcd_one (fun x => x - lower)]
    · have hle : lower ≤ x := hx x (List.mem_cons_self ..)
      have hnl : ¬ x < lower := by omega
      simp only [if_neg h1, if_neg hnl, pairGcd_eq (x - lower) res hres, List.foldl_cons]
      rw [gcdLoop_eq lower xs _ (Nat.gcd_pos_of_pos_right _ hres)
        (fun y hy => hx y (List.mem_cons_of_mem _ hy)), Nat.gcd_comm]

theorem getElem?_length_sub_one (a : Nat) (t : List Nat) :
    (a :: t)[(a :: t).length - 1]? = some ((a :: t).getLastD 0) := by
  rw [← List.getLast?_eq_getElem?, List.getLastD_eq_getLast?]
  simp only [Option.getD_some, List.getLast?_eq_some_getLast (List.cons_ne_nil a t)]

theorem sliceGcd_cons (a : Nat) (t : List Nat) :
    Train.sliceGcd (a :: t) =
      if a = (a :: t).getLastD 0 then 1
      else t.foldl (fun res x => Nat.gcd res (x - a)) ((a :: t).getLastD 0 - a) := rfl

/-- `gcd(sorted)` on a non-empty slice none of whose members is below the first: no panic, and the value the
training model assumes -/
theorem gcdSorted_eq_of_head_le (sorted : List Nat) (hne : sorted ≠ [])
    (hmin : ∀ x ∈ sorted, sorted.headD 0 ≤ x) :
    gcdSorted sorted = .ok (Train.sliceGcd sorted) := by
  cases sorted with
  | nil => exact absurd rfl hne
  | cons a t =>
    have hlast : (a :: t).getLastD 0 ∈ a :: t := by
      rw [List.getLastD_eq_getLast?, List.getLast?_eq_some_getLast (List.cons_ne_nil a t)]
      exact List.getLast_mem _
    have hle : a ≤ (a :: t).getLastD 0 := hmin _ hlast
    rw [sliceGcd_cons]
    unfold gcdSorted
    have h0 : (a :: t)[0]? = some a := rfl
    have hlen : ¬ (a :: t).length < 1 := by simp only [List.length_cons]; omega
    simp only [h0, if_neg hlen, getElem?_length_sub_one, List.drop_one, List.tail_cons]
    by_cases heq : a = (a :: t).getLastD 0
    · simp only [if_pos heq]
    · have hnl : ¬ (a :: t).getLastD 0 < a := by omega
      simp only [if_neg heq, if_neg hnl]
      exact gcdLoop_eq a t _ (by omega) (fun x hx => hmin x (List.mem_cons_of_mem _ hx))

/-- `gcd(sorted)` on a non-empty ascending slice is `Train.sliceGcd sorted`: the early `break` is harmless,
nothing panics, no subtraction underflows -/
theorem gcdSorted_eq (sorted : List Nat) (hne : sorted ≠ []) (hs : sorted.Pairwise (· ≤ ·)) :
    gcdSorted sorted = .ok (Train.sliceGcd sorted) := by
  refine gcdSorted_eq_of_head_le sorted hne ?_
  cases sorted with
  | nil => exact absurd rfl hne
  | cons a t =>
    intro x hx
    rcases List.mem_cons.mp hx with rfl | h
    · exact Nat.le_refl _
    · exact (List.pairwise_cons.mp hs).1 x h

/-- `gcd(&[])` panics: `sorted[0]` -/
theorem gcdSorted_nil : gcdSorted [] = .panic := rfl

theorem gcdLoop_pos (lower : Nat) : ∀ (xs : List Nat) (res v : Nat), 1 ≤ res →
    gcdLoop lower xs res = .ok v → 1 ≤ v
  | [], res, v, hres, h => by
    simp only [gcdLoop, Out.ok.injEq] at h; omega
  | x :: xs, res, v, hres, h => by
    unfold gcdLoop at h
    by_cases h1 : res = 1
    · simp only [if_pos h1, Out.ok.injEq] at h; omega
    · simp only [if_neg h1] at h
      by_cases h2 : x < lower
      · simp only [if_pos h2] at h; cases h
      · simp only [if_neg h2, pairGcd_eq (x - lower) res hres] at h
        exact gcdLoop_pos lower xs _ v (Nat.gcd_pos_of_pos_right _ hres) h

/-- whatever the slice (sorted or not): a value `gcd` returns is never 0 — the raw prefixes' divisors satisfy
`pair_gcd`'s precondition when they are folded -/
theorem gcdSorted_pos (sorted : List Nat) (v : Nat) (h : gcdSorted sorted = .ok v) : 1 ≤ v := by
  cases sorted with
  | nil => cases h
  | cons a t =>
    unfold gcdSorted at h
    have h0 : (a :: t)[0]? = some a := rfl
    have hlen : ¬ (a :: t).length < 1 := by simp only [List.length_cons]; omega
    simp only [h0, if_neg hlen, getElem?_length_sub_one] at h
    by_cases heq : a = (a :: t).getLastD 0
    · simp only [if_pos heq, Out.ok.injEq] at h; omega
    · simp only [if_neg heq] at h
      by_cases hlt : (a :: t).getLastD 0 < a
      · simp only [if_pos hlt] at h; cases h
      · simp only [if_neg hlt] at h
        exact gcdLoop_pos a _ _ v (by omega) h

/-! ## 3. `fold_prefix_gcds_left` -/

/-- `fold_prefix_gcds_left` is `Train.foldGcdLeft` and does not panic when the left range does not end above
the right one and the accumulated divisor, if any, is not 0.  (`left_gcd ≥ 1` is not needed for this call:
`pair_gcd(0, g) = g`; it is needed for the NEXT one, see `foldLoop_eq`.) -/
theorem foldPrefixGcdsLeft_eq (l u g U : Nat) (acc : Option Nat) (hu : u ≤ U)
    (hacc : ∀ d, acc = some d → 1 ≤ d) :
    foldPrefixGcdsLeft l u g U acc = .ok (Train.foldGcdLeft l u g U acc) := by
  unfold foldPrefixGcdsLeft Train.foldGcdLeft
  have hnl : ¬ U < u := by omega
  by_cases h1 : u = U
  · subst h1
    by_cases h2 : u = l
    · subst h2
      simp only [ne_eq, not_true_eq_false, if_false]
    · cases acc with
      | none => simp only [ne_eq, not_true_eq_false, if_false, h2, not_false_eq_true, if_true]
      | some d =>
        simp only [ne_eq, not_true_eq_false, if_false, h2, not_false_eq_true, if_true,
          pairGcd_eq g d (hacc d rfl)]
  · have hpos : 0 < U - u := by omega
    by_cases h2 : u = l
    · subst h2
      cases acc with
      | none => simp only [ne_eq, h1, not_false_eq_true, if_true, if_neg hnl, not_true_eq_false, if_false]
      | some d =>
        simp only [ne_eq, h1, not_false_eq_true, if_true, if_neg hnl, not_true_eq_false, if_false,
          pairGcd_eq (U - u) d (hacc d rfl)]
    · cases acc with
      | none =>
        simp only [ne_eq, h1, h2, not_false_eq_true, if_true, if_neg hnl, pairGcd_eq g (U - u) hpos]
      | some d =>
        simp only [ne_eq, h1, h2, not_false_eq_true, if_true, if_neg hnl,
          pairGcd_eq (U - u) d (hacc d rfl),
          pairGcd_eq g _ (Nat.gcd_pos_of_pos_right (U - u) (hacc d rfl))]

/-- when exactly `fold_prefix_gcds_left` panics (all three ways): the subtraction `right_upper - left_upper`
underflows, or one of the two `pair_gcd` calls gets the accumulated divisor 0 as its second argument.  (After
the first call the accumulator is `gcd(right_upper - left_upper, 0) ≠ 0`, so the second call can only see a
0 when the uppers coincide.) -/
theorem foldPrefixGcdsLeft_panic_iff (l u g U : Nat) (acc : Option Nat) :
    foldPrefixGcdsLeft l u g U acc = .panic ↔
      (U < u) ∨ (acc = some 0 ∧ (u ≠ U ∨ u ≠ l)) := by
  constructor
  · intro h
    by_cases hlt : U < u
    · exact Or.inl hlt
    · refine Or.inr ?_
      by_cases h0 : acc = some 0
      · refine ⟨h0, ?_⟩
        by_cases hc : u ≠ U ∨ u ≠ l
        · exact hc
        · have h1 : u = U := by omega
          have h2 : u = l := by omega
          subst h1; subst h2
          simp [foldPrefixGcdsLeft] at h
      · have hacc : ∀ d, acc = some d → 1 ≤ d := by
          intro d hd
          subst hd
          rcases Nat.eq_zero_or_pos d with rfl | hd
          · exact absurd rfl h0
          · exact hd
        rw [foldPrefixGcdsLeft_eq l u g U acc (by omega) hacc] at h
        cases h
  · rintro (hlt | ⟨rfl, hc⟩)
    · have hne : u ≠ U := by omega
      cases acc <;> simp [foldPrefixGcdsLeft, hne, hlt]
    · by_cases h1 : u = U
      · subst h1
        have h2 : u ≠ l := by omega
        simp [foldPrefixGcdsLeft, h2, pairGcd_zero]
      · by_cases hlt : U < u
        · simp [foldPrefixGcdsLeft, h1, hlt]
        · simp [foldPrefixGcdsLeft, h1, hlt, pairGcd_zero]

/-- the accumulated divisor stays `≥ 1` (same statement as `C10.foldGcdLeft_pos`, proved here so that this
file does not depend on the property files) -/
theorem foldGcdLeft_pos (l u g U : Nat) (acc : Option Nat) (hu : u ≤ U) (hg : 1 ≤ g)
    (h : ∀ d, acc = some d → 1 ≤ d) : ∀ d, Train.foldGcdLeft l u g U acc = some d → 1 ≤ d := by
  intro d hd
  have key : ∀ a b : Nat, 1 ≤ b → 1 ≤ Nat.gcd a b := fun a b hb => Nat.gcd_pos_of_pos_right a hb
  unfold Train.foldGcdLeft at hd
  by_cases h1 : u = U
  · subst h1
    by_cases h2 : u = l
    · subst h2
      simp only [ne_eq, not_true_eq_false, if_false] at hd
      exact h d hd
    · simp only [ne_eq, not_true_eq_false, if_false, h2, not_false_eq_true, if_true,
        Option.some.injEq] at hd
      cases hacc : acc with
      | none => rw [hacc] at hd; simp only at hd; omega
      | some a => rw [hacc] at hd; simp only at hd; subst hd; exact key _ _ (h a hacc)
  · have hpos : 1 ≤ U - u := by omega
    by_cases h2 : u = l
    · subst h2
      simp only [ne_eq, h1, not_false_eq_true, if_true, not_true_eq_false, if_false,
        Option.some.injEq] at hd
      cases hacc : acc with
      | none => rw [hacc] at hd; simp only at hd; omega
      | some a => rw [hacc] at hd; simp only at hd; subst hd; exact key _ _ (h a hacc)
    · simp only [ne_eq, h1, h2, not_false_eq_true, if_true, Option.some.injEq] at hd
      cases hacc : acc with
      | none => rw [hacc] at hd; simp only at hd; subst hd; exact key _ _ hpos
      | some a => rw [hacc] at hd; simp only at hd; subst hd; exact key _ _ (key _ _ (h a hacc))

/-- the three fields of a raw prefix that `gcd_utils.rs` reads -/
def GP.ofRaw (r : Train.Raw) : GP := { lower := r.lower, upper := r.upper, gcd := r.gcd }

/-- the three fields of a prefix that `gcd_utils.rs` reads -/
def GP.ofPrefix (p : Prefix) : GP := { lower := p.lower, upper := p.upper, gcd := p.gcd }

/-- the callers' loop over a group `prefixes[j..=i]`: when no range of the group ends above `upper[i]` and
every divisor is `≥ 1` (what `gcd` returns, `gcdSorted_pos`, or the constant 1), no call panics, both
`pair_gcd` call sites get a second argument `> 0` every time, and the result is `Train.foldAcc` -/
theorem foldLoop_eq (U : Nat) : ∀ (grp : List Train.Raw), (∀ r ∈ grp, r.upper ≤ U ∧ 1 ≤ r.gcd) →
    foldLoop U (grp.map GP.ofRaw) = .ok (Train.foldAcc U grp) ∧
      ∀ d, Train.foldAcc U grp = some d → 1 ≤ d
  | [], _ => ⟨rfl, fun d h => by cases h⟩
  | r :: rest, h => by
    obtain ⟨ih1, ih2⟩ := foldLoop_eq U rest (fun x hx => h x (List.mem_cons_of_mem _ hx))
    obtain ⟨hu, hg⟩ := h r (List.mem_cons_self ..)
    have hcons : Train.foldAcc U (r :: rest)
        = Train.foldGcdLeft r.lower r.upper r.gcd U (Train.foldAcc U rest) := rfl
    constructor
    · simp only [List.map_cons, foldLoop, ih1, GP.ofRaw, hcons]
      exact foldPrefixGcdsLeft_eq _ _ _ _ _ hu ih2
    · rw [hcons]
      exact foldGcdLeft_pos _ _ _ _ _ hu hg ih2

/-! ## 4. `common_gcd_for_chunk_meta` -/

theorem commonLoop_some (g : Nat) : ∀ (ps : List GP) (share : Bool),
    commonLoop ps share (some g) =
      (match ps.filter (fun p => p.lower != p.upper) with
       | [] => (share, some g)
       | _ :: _ => (false, some g))
  | [], share => rfl
  | p :: ps, share => by
    by_cases h : p.upper = p.lower
    · have hb : (p.lower != p.upper) = false := by simp [h]
      have hc : ¬ (p.upper ≠ p.lower) := fun hn => hn h
      simp only [commonLoop, if_neg hc, List.filter_cons, hb, Bool.false_eq_true, if_false]
      exact commonLoop_some g ps share
    · have hb : (p.lower != p.upper) = true := by simp; omega
      have hc : p.upper ≠ p.lower := h
      simp only [commonLoop, if_pos hc, Option.isNone_some, Bool.false_eq_true, if_false,
        List.filter_cons, hb, if_true]
      rw [commonLoop_some g ps false]
      cases List.filter (fun p => p.lower != p.upper) ps <;> rfl

theorem commonLoop_none : ∀ (ps : List GP) (share : Bool),
    commonLoop ps share none =
      (match ps.filter (fun p => p.lower != p.upper) with
       | [] => (share, none)
       | [p] => (share, some p.gcd)
       | p :: _ :: _ => (false, some p.gcd))
  | [], share => rfl
  | p :: ps, share => by
    by_cases h : p.upper = p.lower
    · have hb : (p.lower != p.upper) = false := by simp [h]
      have hc : ¬ (p.upper ≠ p.lower) := fun hn => hn h
      simp only [commonLoop, if_neg hc, List.filter_cons, hb, Bool.false_eq_true, if_false]
      exact commonLoop_none ps share
    · have hb : (p.lower != p.upper) = true := by simp; omega
      have hc : p.upper ≠ p.lower := h
      simp only [commonLoop, if_pos hc, Option.isNone_none, List.filter_cons, hb, if_true]
      rw [commonLoop_some p.gcd ps share]
      cases List.filter (fun p => p.lower != p.upper) ps <;> rfl

/-- `common_gcd_for_chunk_meta` on the `(lower, upper, gcd)` triples, in the shape of `Driver.commonGcdOf` -/
theorem commonGcdForChunkMeta_spec (ps : List GP) :
    commonGcdForChunkMeta ps =
      (match ps, ps.filter (fun p => p.lower != p.upper) with
       | [], _ => none
       | _, [] => some 1
       | _, [p] => some p.gcd
       | _, _ => none) := by
  cases ps with
  | nil => rfl
  | cons q qs =>
    unfold commonGcdForChunkMeta
    rw [commonLoop_none]
    simp only [List.length_cons]
    generalize List.filter (fun p => p.lower != p.upper) (q :: qs) = nt
    match nt with
    | [] => rfl
    | [p] => rfl
    | _ :: _ :: _ => rfl

/-- `common_gcd_for_chunk_meta` is the driver's `commonGcdOf` (the actual definition, not a copy) -/
theorem commonGcdForChunkMeta_eq (ps : List Prefix) :
    commonGcdForChunkMeta (ps.map GP.ofPrefix) = Driver.commonGcdOf ps := by
  rw [commonGcdForChunkMeta_spec]
  unfold Driver.commonGcdOf
  have hf : (ps.map GP.ofPrefix).filter (fun p => p.lower != p.upper)
      = (ps.filter (fun p => p.lower != p.upper)).map GP.ofPrefix := by
    rw [List.filter_map]; rfl
  rw [hf]
  cases ps with
  | nil => rfl
  | cons q qs =>
    simp only [List.map_cons]
    generalize List.filter (fun p : Prefix => p.lower != p.upper) (q :: qs) = nt
    match nt with
    | [] => rfl
    | [p] => rfl
    | _ :: _ :: _ => rfl

/-! ## 5. `use_gcd_prefix_optimize` -/

theorem optLoop1_eq : ∀ (raws : List Train.Raw),
    optLoop1 (raws.map GP.ofRaw) = raws.any (fun p => decide (p.gcd > 1))
  | [] => rfl
  | r :: rest => by
    simp only [List.map_cons, optLoop1, List.any_cons, GP.ofRaw]
    by_cases h : r.gcd > 1
    · simp only [if_pos h, decide_eq_true h, Bool.true_or]
    · simp only [if_neg h, decide_eq_false h, Bool.false_or]
      exact optLoop1_eq rest

/-- the second loop, started after `pre ++ [pj]`: it reads `prefixes[i - 1]` in bounds and answers
`Train.adjSingleGap`, provided `pj.upper + 1` does not overflow for any prefix but the last -/
theorem optLoop2_eq (ub : Nat) : ∀ (rest pre : List Train.Raw) (pj : Train.Raw),
    (∀ p ∈ (pj :: rest).dropLast, p.upper + 1 < 2 ^ ub) →
    optLoop2 ub ((pre ++ pj :: rest).map GP.ofRaw) (enumFrom (pre.length + 1) (rest.map GP.ofRaw))
      = .ok (Train.adjSingleGap (pj :: rest))
  | [], pre, pj, _ => rfl
  | pi :: rest, pre, pj, h => by
    have hj : pj.upper + 1 < 2 ^ ub := h pj (by simp)
    have hrest : ∀ p ∈ (pi :: rest).dropLast, p.upper + 1 < 2 ^ ub := by
      intro p hp
      exact h p (by rw [List.dropLast_cons_cons]; exact List.mem_cons_of_mem _ hp)
    have ih := optLoop2_eq ub rest (pre ++ [pj]) pi hrest
    have hassoc : (pre ++ [pj]) ++ pi :: rest = pre ++ pj :: pi :: rest := by
      rw [List.append_assoc]; rfl
    have hlen : (pre ++ [pj]).length + 1 = pre.length + 1 + 1 := by
      simp only [List.length_append, List.length_cons, List.length_nil]
    rw [hassoc, hlen] at ih
    have hidx : ((pre ++ pj :: pi :: rest).map GP.ofRaw)[pre.length + 1 - 1]? = some (GP.ofRaw pj) := by
      simp only [Nat.add_sub_cancel, List.map_append, List.map_cons]
      rw [List.getElem?_append_right (by simp only [List.length_map]; exact Nat.le_refl _)]
      simp only [List.length_map, Nat.sub_self, List.getElem?_cons_zero]
    have hi : ¬ pre.length + 1 < 1 := by omega
    have hov : ¬ 2 ^ ub ≤ (GP.ofRaw pj).upper + 1 := by show ¬ 2 ^ ub ≤ pj.upper + 1; omega
    simp only [List.map_cons, enumFrom, optLoop2, if_neg hi, hidx, if_neg hov]
    rw [Train.adjSingleGap]
    by_cases h1 : pi.lower = pi.upper
    · have h1' : (GP.ofRaw pi).lower = (GP.ofRaw pi).upper := h1
      by_cases h2 : pj.lower = pj.upper
      · have h2' : (GP.ofRaw pj).lower = (GP.ofRaw pj).upper := h2
        have hb1 : (pi.lower == pi.upper) = true := beq_iff_eq.mpr h1
        have hb2 : (pj.lower == pj.upper) = true := beq_iff_eq.mpr h2
        by_cases h3 : pj.upper + 1 < pi.lower
        · have h3' : (GP.ofRaw pj).upper + 1 < (GP.ofRaw pi).lower := h3
          simp only [if_pos h1', if_pos h2', if_pos h3', hb1, hb2, decide_eq_true h3,
            Bool.and_self, Bool.true_or]
        · have h3' : ¬ (GP.ofRaw pj).upper + 1 < (GP.ofRaw pi).lower := h3
          simp only [if_pos h1', if_pos h2', if_neg h3', decide_eq_false h3, Bool.and_false,
            Bool.false_or]
          exact ih
      · have h2' : ¬ (GP.ofRaw pj).lower = (GP.ofRaw pj).upper := h2
        have hb : (pj.lower == pj.upper) = false := by simp [h2]
        simp only [if_pos h1', if_neg h2', hb, Bool.and_false, Bool.false_and, Bool.false_or]
        exact ih
    · have h1' : ¬ (GP.ofRaw pi).lower = (GP.ofRaw pi).upper := h1
      have hb : (pi.lower == pi.upper) = false := by simp [h1]
      simp only [if_neg h1', hb, Bool.false_and, Bool.false_or]
      exact ih

/-- `use_gcd_prefix_optimize` is `Train.useGcdOptimize` and does not panic, provided `upper + 1` does not
overflow for any prefix but the last -/
theorem useGcdPrefixOptimize_eq (ub : Nat) (raws : List Train.Raw) (gcds : Bool)
    (h : ∀ p ∈ raws.dropLast, p.upper + 1 < 2 ^ ub) :
    useGcdPrefixOptimize ub (raws.map GP.ofRaw) gcds = .ok (Train.useGcdOptimize raws gcds) := by
  unfold useGcdPrefixOptimize Train.useGcdOptimize
  cases gcds with
  | false => rfl
  | true =>
    simp only [Bool.not_true, Bool.false_eq_true, if_false, optLoop1_eq]
    by_cases h1 : (raws.any fun p => decide (p.gcd > 1)) = true
    · simp only [if_pos h1]
    · simp only [if_neg h1]
      cases raws with
      | nil => rfl
      | cons pj rest =>
        have := optLoop2_eq ub rest [] pj h
        simpa only [List.nil_append, List.length_nil, Nat.zero_add, List.map_cons, enumFrom,
          List.drop_succ_cons, List.drop_zero] using this

/-- what the caller guarantees: the raw prefixes are strictly apart and every lower bound is a `U` value, so
`upper + 1` overflows for no prefix but the last -/
theorem noOverflow_of_sep (ub : Nat) : ∀ (raws : List Train.Raw),
    raws.Pairwise (fun a b => a.upper < b.lower) → (∀ p ∈ raws, p.lower < 2 ^ ub) →
    ∀ p ∈ raws.dropLast, p.upper + 1 < 2 ^ ub
  | [], _, _ => by intro p hp; cases hp
  | [_], _, _ => by intro p hp; cases hp
  | a :: b :: rest, hs, hb => by
    intro p hp
    rw [List.dropLast_cons_cons] at hp
    rcases List.mem_cons.mp hp with rfl | hp'
    · have h1 := (List.pairwise_cons.mp hs).1 b (List.mem_cons_self ..)
      have h2 := hb b (List.mem_cons_of_mem _ (List.mem_cons_self ..))
      omega
    · exact noOverflow_of_sep ub (b :: rest) (List.pairwise_cons.mp hs).2
        (fun q hq => hb q (List.mem_cons_of_mem _ hq)) p hp'

/-! ## 6. `use_gcd_arithmetic` -/

/-- `use_gcd_arithmetic` is the `general` selection of the body writer (the two definitions are the same
expression, over different records) -/
theorem useGcdArithmetic_eq (ps : List Prefix) :
    useGcdArithmetic (ps.map GP.ofPrefix) = BodyWriter.useGcdArithmetic ps := by
  unfold useGcdArithmetic BodyWriter.useGcdArithmetic
  rw [List.any_map]
  rfl

/-! ## 7. `gcd_fits_in_prefix_meta` -/

/-- `gcd_fits_in_prefix_meta` is `gcdFits` of the prefix's own divisor and does not panic, for a well-formed
prefix (`lower ≤ upper`, `1 ≤ gcd`) whose divisor is a `U` value -/
theorem gcdFitsInPrefixMeta_eq (ub : Nat) (gb : Nat → Nat) (p : Prefix) (hle : p.lower ≤ p.upper)
    (hg : 1 ≤ p.gcd) (hU : p.gcd ≤ 2 ^ ub) :
    gcdFitsInPrefixMeta ub gb (GP.ofPrefix p) = .ok (gcdFits gb p p.gcd) := by
  unfold gcdFitsInPrefixMeta gcdFits
  have h1 : ¬ (GP.ofPrefix p).upper < (GP.ofPrefix p).lower := by
    show ¬ p.upper < p.lower; omega
  have h2 : ¬ (GP.ofPrefix p).gcd < 1 := by show ¬ p.gcd < 1; omega
  simp only [if_neg h1, if_neg h2]
  show (if gb (p.upper - p.lower) ≥ ub then Out.ok true
        else Out.ok ((p.gcd - 1) >>> gb (p.upper - p.lower) == 0))
      = Out.ok (decide (p.gcd - 1 < 2 ^ gb (p.upper - p.lower)))
  by_cases hb : gb (p.upper - p.lower) ≥ ub
  · simp only [if_pos hb]
    have : 2 ^ ub ≤ 2 ^ gb (p.upper - p.lower) := Nat.pow_le_pow_right (by omega) hb
    have hlt : p.gcd - 1 < 2 ^ gb (p.upper - p.lower) := by omega
    simp only [decide_eq_true hlt]
  · simp only [if_neg hb, Nat.shiftRight_eq_div_pow]
    congr 1
    have hpos : 0 < 2 ^ gb (p.upper - p.lower) := Nat.two_pow_pos _
    by_cases hlt : p.gcd - 1 < 2 ^ gb (p.upper - p.lower)
    · simp only [decide_eq_true hlt, Nat.div_eq_of_lt hlt, beq_self_eq_true]
    · simp only [decide_eq_false hlt]
      have : 1 ≤ (p.gcd - 1) / 2 ^ gb (p.upper - p.lower) :=
        (Nat.le_div_iff_mul_le hpos).mpr (by omega)
      have hne : (p.gcd - 1) / 2 ^ gb (p.upper - p.lower) ≠ 0 := by omega
      simp [hne]

end Qco.GcdLit
