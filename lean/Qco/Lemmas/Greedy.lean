/-
The compressor's greedy grouping (`greedyBlocks`, `Qco/Train/WFc.lean`) covers the numbers exactly:
it succeeds when every number lies in some range, the blocks it answers are legal blocks of the
table, and — when every member of a range is congruent to the range's lower bound modulo the
recorded divisor — the numbers of the blocks are the numbers it was given.
-/
import Qco.Train.WFc
import Qco.Lemmas.Tree
namespace Qco

/-! ### the hypotheses, number by number -/

theorem findPrefix_some {ps : List Prefix} {u i : Nat} (h : findPrefix ps u = some i) :
    ∃ hi : i < ps.length, ps[i].contains u = true := by
  unfold findPrefix at h
  obtain ⟨hi, hc, _⟩ := List.findIdx?_eq_some_iff_getElem.mp h
  exact ⟨hi, hc⟩

theorem findPrefix_isSome_of_any {ps : List Prefix} {u : Nat}
    (h : (ps.any fun p => p.contains u) = true) : ∃ i, findPrefix ps u = some i := by
  unfold findPrefix
  cases hf : ps.findIdx? fun p => p.contains u with
  | some i => exact ⟨i, rfl⟩
  | none =>
    rw [List.findIdx?_eq_none_iff] at hf
    obtain ⟨p, hp, hpu⟩ := List.any_eq_true.mp h
    have := hf p hp
    simp [hpu] at this

theorem coverB_cons (ps : List Prefix) (u : Nat) (us : List Nat) :
    coverB ps (u :: us) = ((ps.any fun p => p.contains u) && coverB ps us) := by
  simp [coverB]

theorem coverB_mem {ps : List Prefix} {us : List Nat} (h : coverB ps us = true) (u : Nat) (hu : u ∈ us) :
    (ps.any fun p => p.contains u) = true := by
  simp only [coverB, List.all_eq_true] at h
  exact h u hu

/-- meaning of `congruentB`, member by member -/
theorem congruentB_mem {ps : List Prefix} {us : List Nat} (h : congruentB ps us = true)
    (p : Prefix) (hp : p ∈ ps) (u : Nat) (hu : u ∈ us) (hc : p.contains u = true) :
    (u - p.lower) % p.gcd = 0 := by
  simp only [congruentB, List.all_eq_true, Bool.and_eq_true, decide_eq_true_eq, beq_iff_eq] at h
  exact (h p hp).2 u (List.mem_filter.mpr ⟨hu, hc⟩)

/-- congruence of a single number to every range that contains it -/
def CongNum (ps : List Prefix) (u : Nat) : Prop :=
  ∀ p ∈ ps, p.contains u = true → (u - p.lower) % p.gcd = 0

theorem congNum_of_congruentB {ps : List Prefix} {us : List Nat} (h : congruentB ps us = true) :
    ∀ u ∈ us, CongNum ps u :=
  fun u hu p hp hc => congruentB_mem h p hp u hu hc

/-! ### offsets -/

/-- `lower + ((u − lower)/gcd)·gcd = u` for a member congruent to the lower bound -/
theorem Prefix.val_off (p : Prefix) (u : Nat) (hc : p.contains u = true)
    (hg : (u - p.lower) % p.gcd = 0) : p.info.val (p.off u) = u := by
  simp only [Prefix.contains, Bool.and_eq_true, decide_eq_true_eq] at hc
  show p.lower + (u - p.lower) / p.gcd * p.gcd = u
  rw [Nat.div_mul_cancel (Nat.dvd_of_mod_eq_zero hg)]
  omega

/-- the offset of a member is at most the range's `r` -/
theorem Prefix.off_le (p : Prefix) (u : Nat) (hc : p.contains u = true) : p.off u ≤ p.info.r := by
  simp only [Prefix.contains, Bool.and_eq_true, decide_eq_true_eq] at hc
  show (u - p.lower) / p.gcd ≤ (p.upper - p.lower) / p.gcd
  exact Nat.div_le_div_right (by omega)

theorem getD_eq_getElem (ps : List Prefix) (i : Nat) (hi : i < ps.length) : ps.getD i default = ps[i] := by
  simp [List.getD_eq_getElem?_getD, hi]

theorem map_val_off (p : Prefix) (run : List Nat) (hc : ∀ v ∈ run, p.contains v = true)
    (hg : ∀ v ∈ run, (v - p.lower) % p.gcd = 0) : (run.map p.off).map p.info.val = run := by
  induction run with
  | nil => rfl
  | cons v vs ih =>
    simp only [List.map_cons]
    rw [p.val_off v (hc v List.mem_cons_self) (hg v List.mem_cons_self),
      ih (fun w hw => hc w (List.mem_cons_of_mem _ hw)) (fun w hw => hg w (List.mem_cons_of_mem _ hw))]

theorem mem_takeWhile {q : Nat → Bool} {l : List Nat} {v : Nat} (h : v ∈ l.takeWhile q) :
    v ∈ l ∧ q v = true :=
  ⟨(List.takeWhile_sublist q).subset h, List.all_eq_true.mp List.all_takeWhile v h⟩

theorem mem_of_mem_dropWhile {q : Nat → Bool} {l : List Nat} {v : Nat} (h : v ∈ l.dropWhile q) : v ∈ l :=
  (List.dropWhile_sublist q).subset h

theorem length_dropWhile_le (q : Nat → Bool) (l : List Nat) : (l.dropWhile q).length ≤ l.length :=
  (List.dropWhile_sublist q).length_le

theorem length_takeWhile_le (q : Nat → Bool) (l : List Nat) : (l.takeWhile q).length ≤ l.length :=
  (List.takeWhile_sublist q).length_le

/-! ### one step of the grouping -/

theorem greedyBlocks_cons_one (ps : List Prefix) (fuel u : Nat) (rest : List Nat) (i : Nat)
    (hf : findPrefix ps u = some i) (hj : (ps.getD i default).jump = none) :
    greedyBlocks ps (fuel + 1) (u :: rest)
      = (greedyBlocks ps fuel rest).map fun bs => Block.one i ((ps.getD i default).off u) :: bs := by
  simp only [greedyBlocks, hf, hj]

theorem greedyBlocks_cons_run (ps : List Prefix) (fuel u : Nat) (rest : List Nat) (i j : Nat)
    (hf : findPrefix ps u = some i) (hj : (ps.getD i default).jump = some j) :
    greedyBlocks ps (fuel + 1) (u :: rest)
      = (greedyBlocks ps fuel (rest.dropWhile (ps.getD i default).contains)).map fun bs =>
          Block.run i ((ps.getD i default).off u)
            ((rest.takeWhile (ps.getD i default).contains).map (ps.getD i default).off) :: bs := by
  simp only [greedyBlocks, hf, hj]

theorem greedyBlocks_cons_none (ps : List Prefix) (fuel u : Nat) (rest : List Nat)
    (hf : findPrefix ps u = none) : greedyBlocks ps (fuel + 1) (u :: rest) = none := by
  simp only [greedyBlocks, hf]

/-! ### success -/

/-- the grouping succeeds with any fuel `≥` the number of numbers when every number is covered -/
theorem greedyBlocks_some_of_fuel (ps : List Prefix) (fuel : Nat) (us : List Nat)
    (hlen : us.length ≤ fuel) (hcov : ∀ u ∈ us, ∃ i, findPrefix ps u = some i) :
    ∃ bs, greedyBlocks ps fuel us = some bs := by
  induction fuel generalizing us with
  | zero =>
    cases us with
    | nil => exact ⟨[], rfl⟩
    | cons u rest => simp at hlen
  | succ fuel ih =>
    cases us with
    | nil => exact ⟨[], rfl⟩
    | cons u rest =>
      obtain ⟨i, hf⟩ := hcov u List.mem_cons_self
      have hlen' : rest.length ≤ fuel := by simpa using hlen
      have hcov' : ∀ v ∈ rest, ∃ i, findPrefix ps v = some i :=
        fun v hv => hcov v (List.mem_cons_of_mem _ hv)
      cases hj : (ps.getD i default).jump with
      | none =>
        obtain ⟨bs, hbs⟩ := ih rest hlen' hcov'
        exact ⟨_, by rw [greedyBlocks_cons_one ps fuel u rest i hf hj, hbs]; rfl⟩
      | some j =>
        obtain ⟨bs, hbs⟩ := ih (rest.dropWhile (ps.getD i default).contains)
          (Nat.le_trans (length_dropWhile_le _ _) hlen')
          (fun v hv => hcov' v (mem_of_mem_dropWhile hv))
        exact ⟨_, by rw [greedyBlocks_cons_run ps fuel u rest i j hf hj, hbs]; rfl⟩

/-- more fuel gives the same answer -/
theorem greedyBlocks_fuel_mono (ps : List Prefix) (fuel fuel' : Nat) (us : List Nat) (bs : List Block)
    (h : greedyBlocks ps fuel us = some bs) (hle : fuel ≤ fuel') : greedyBlocks ps fuel' us = some bs := by
  induction fuel generalizing fuel' us bs with
  | zero =>
    cases us with
    | nil =>
      have : bs = [] := by simpa [greedyBlocks] using h.symm
      subst this
      cases fuel' <;> rfl
    | cons u rest => simp [greedyBlocks] at h
  | succ fuel ih =>
    cases us with
    | nil =>
      have : bs = [] := by simpa [greedyBlocks] using h.symm
      subst this
      cases fuel' <;> rfl
    | cons u rest =>
      obtain ⟨f', rfl⟩ : ∃ f', fuel' = f' + 1 := ⟨fuel' - 1, by omega⟩
      have hle' : fuel ≤ f' := by omega
      cases hf : findPrefix ps u with
      | none => rw [greedyBlocks_cons_none ps fuel u rest hf] at h; cases h
      | some i =>
        cases hj : (ps.getD i default).jump with
        | none =>
          rw [greedyBlocks_cons_one ps fuel u rest i hf hj] at h
          rw [greedyBlocks_cons_one ps f' u rest i hf hj]
          obtain ⟨bs', hbs', rfl⟩ := Option.map_eq_some_iff.mp h
          rw [ih f' rest bs' hbs' hle']; rfl
        | some j =>
          rw [greedyBlocks_cons_run ps fuel u rest i j hf hj] at h
          rw [greedyBlocks_cons_run ps f' u rest i j hf hj]
          obtain ⟨bs', hbs', rfl⟩ := Option.map_eq_some_iff.mp h
          rw [ih f' _ bs' hbs' hle']; rfl

/-! ### what a successful grouping answers -/

/-- the numbers of the blocks are the numbers grouped, under congruence (no covering hypothesis:
success already says every number was found in a range) -/
theorem greedyBlocks_nums_of_some (ps : List Prefix) (fuel : Nat) (us : List Nat) (bs : List Block)
    (h : greedyBlocks ps fuel us = some bs) (hcong : ∀ u ∈ us, CongNum ps u) :
    blocksNums (tableOf ps) bs = us := by
  induction fuel generalizing us bs with
  | zero =>
    cases us with
    | nil =>
      have : bs = [] := by simpa [greedyBlocks] using h.symm
      subst this; rfl
    | cons u rest => simp [greedyBlocks] at h
  | succ fuel ih =>
    cases us with
    | nil =>
      have : bs = [] := by simpa [greedyBlocks] using h.symm
      subst this; rfl
    | cons u rest =>
      cases hf : findPrefix ps u with
      | none => rw [greedyBlocks_cons_none ps fuel u rest hf] at h; cases h
      | some i =>
        obtain ⟨hi, hcu⟩ := findPrefix_some hf
        have hmem : ps[i] ∈ ps := List.getElem_mem hi
        have hgd := getD_eq_getElem ps i hi
        have hinfo := tableOf_info ps i hi
        have hu : ps[i].info.val (ps[i].off u) = u :=
          ps[i].val_off u hcu (hcong u List.mem_cons_self _ hmem hcu)
        have hcong' : ∀ v ∈ rest, CongNum ps v := fun v hv => hcong v (List.mem_cons_of_mem _ hv)
        cases hj : (ps.getD i default).jump with
        | none =>
          rw [greedyBlocks_cons_one ps fuel u rest i hf hj] at h
          obtain ⟨bs', hbs', rfl⟩ := Option.map_eq_some_iff.mp h
          simp only [blocksNums, blockNums, hinfo, hgd, hu, ih rest bs' hbs' hcong',
            List.singleton_append]
        | some j =>
          rw [greedyBlocks_cons_run ps fuel u rest i j hf hj] at h
          obtain ⟨bs', hbs', rfl⟩ := Option.map_eq_some_iff.mp h
          rw [hgd] at hbs'
          have hrun : ((rest.takeWhile ps[i].contains).map ps[i].off).map ps[i].info.val
              = rest.takeWhile ps[i].contains :=
            map_val_off ps[i] _ (fun v hv => (mem_takeWhile hv).2)
              (fun v hv => hcong' v (mem_takeWhile hv).1 _ hmem (mem_takeWhile hv).2)
          simp only [blocksNums, blockNums, hinfo, hgd, hu, hrun,
            ih _ bs' hbs' (fun v hv => hcong' v (mem_of_mem_dropWhile hv)),
            List.cons_append, List.takeWhile_append_dropWhile]

/-- every block answered is a legal block of the table (run lengths `< 2^24` because the input is
that short); needs neither congruence nor covering -/
theorem greedyBlocks_wf_of_some (ps : List Prefix) (fuel : Nat) (us : List Nat) (bs : List Block)
    (h : greedyBlocks ps fuel us = some bs) (hlen : us.length < 2 ^ 24) :
    ∀ b ∈ bs, Block.WF (tableOf ps) b := by
  induction fuel generalizing us bs with
  | zero =>
    cases us with
    | nil =>
      have : bs = [] := by simpa [greedyBlocks] using h.symm
      subst this; intro b hb; cases hb
    | cons u rest => simp [greedyBlocks] at h
  | succ fuel ih =>
    cases us with
    | nil =>
      have : bs = [] := by simpa [greedyBlocks] using h.symm
      subst this; intro b hb; cases hb
    | cons u rest =>
      cases hf : findPrefix ps u with
      | none => rw [greedyBlocks_cons_none ps fuel u rest hf] at h; cases h
      | some i =>
        obtain ⟨hi, hcu⟩ := findPrefix_some hf
        have hgd := getD_eq_getElem ps i hi
        have hinfo := tableOf_info ps i hi
        have hic : i < (tableOf ps).codes.length := by rw [tableOf_codes_length]; exact hi
        have hlen' : rest.length < 2 ^ 24 := by simp only [List.length_cons] at hlen; omega
        cases hj : (ps.getD i default).jump with
        | none =>
          rw [greedyBlocks_cons_one ps fuel u rest i hf hj] at h
          obtain ⟨bs', hbs', rfl⟩ := Option.map_eq_some_iff.mp h
          intro b hb
          rcases List.mem_cons.mp hb with rfl | hb
          · refine ⟨hic, ?_, ?_⟩
            · rw [hinfo]; rw [hgd] at hj; exact hj
            · rw [hinfo, hgd]; exact ps[i].off_le u hcu
          · exact ih rest bs' hbs' hlen' b hb
        | some j =>
          rw [greedyBlocks_cons_run ps fuel u rest i j hf hj] at h
          obtain ⟨bs', hbs', rfl⟩ := Option.map_eq_some_iff.mp h
          intro b hb
          rcases List.mem_cons.mp hb with rfl | hb
          · refine ⟨hic, ?_, ?_, ?_, ?_⟩
            · rw [hinfo]; rw [hgd] at hj; show ps[i].jump.isSome = true; rw [hj]; rfl
            · rw [hinfo, hgd]; exact ps[i].off_le u hcu
            · intro o ho
              rw [hgd] at ho
              obtain ⟨v, hv, rfl⟩ := List.mem_map.mp ho
              rw [hinfo]; exact ps[i].off_le v (mem_takeWhile hv).2
            · rw [List.length_map]
              exact Nat.lt_of_le_of_lt (length_takeWhile_le _ _) hlen'
          · exact ih _ bs' hbs' (Nat.lt_of_le_of_lt (length_dropWhile_le _ _) hlen') b hb

/-! ### the statements in terms of the evaluated predicates -/

/-- fuel `us.length` suffices when every number lies in some range -/
theorem greedyBlocks_some (ps : List Prefix) (us : List Nat) (hcov : coverB ps us = true) :
    ∃ bs, greedyBlocks ps us.length us = some bs :=
  greedyBlocks_some_of_fuel ps us.length us (Nat.le_refl _)
    (fun u hu => findPrefix_isSome_of_any (coverB_mem hcov u hu))

/-- … and any larger fuel gives the same blocks -/
theorem greedyBlocks_some_fuel (ps : List Prefix) (us : List Nat) (hcov : coverB ps us = true) :
    ∃ bs, ∀ fuel, us.length ≤ fuel → greedyBlocks ps fuel us = some bs := by
  obtain ⟨bs, hbs⟩ := greedyBlocks_some ps us hcov
  exact ⟨bs, fun fuel hle => greedyBlocks_fuel_mono ps _ fuel us bs hbs hle⟩

/-- each number is recovered from its block: `lower + ((u − lower)/gcd)·gcd = u` -/
theorem greedyBlocks_nums (ps : List Prefix) (us : List Nat) (fuel : Nat) (bs : List Block)
    (hcong : congruentB ps us = true) (h : greedyBlocks ps fuel us = some bs) :
    blocksNums (tableOf ps) bs = us :=
  greedyBlocks_nums_of_some ps fuel us bs h (congNum_of_congruentB hcong)

theorem greedyBlocks_wf (ps : List Prefix) (us : List Nat) (fuel : Nat) (bs : List Block)
    (hlen : us.length < 2 ^ 24) (h : greedyBlocks ps fuel us = some bs) :
    ∀ b ∈ bs, Block.WF (tableOf ps) b :=
  greedyBlocks_wf_of_some ps fuel us bs h hlen

/-- all three together, as the compressor uses them -/
theorem greedyBlocks_exact (ps : List Prefix) (us : List Nat) (hcov : coverB ps us = true)
    (hcong : congruentB ps us = true) :
    ∃ bs, greedyBlocks ps us.length us = some bs ∧ blocksNums (tableOf ps) bs = us ∧
      (us.length < 2 ^ 24 → ∀ b ∈ bs, Block.WF (tableOf ps) b) := by
  obtain ⟨bs, hbs⟩ := greedyBlocks_some ps us hcov
  exact ⟨bs, hbs, greedyBlocks_nums ps us _ bs hcong hbs, fun hl => greedyBlocks_wf ps us _ bs hl hbs⟩

end Qco
