/-
Helper lemmas for C07 (hostile input): generic facts about the parser monad that hold for
ARBITRARY input bits — every parser of the model returns a suffix of its input, fixed-width fields
are bounded by their width — and the reader-position bookkeeping of the operational model.
Nothing here assumes a well-formed file.
-/
import Qco.Lemmas.OpAtomic
import Qco.Lemmas.Tree
namespace Qco
open Parser

/-! ### inverting `bind` -/

theorem bind_ok_h {α β : Type} {p : Parser α} {f : α → Parser β} {s : Bits} {b : β} {r : Bits}
    (h : Parser.bind p f s = .ok b r) : ∃ a r1, p s = .ok a r1 ∧ f a r1 = .ok b r := by
  unfold Parser.bind at h
  cases hp : p s with
  | ok a r1 => rw [hp] at h; exact ⟨a, r1, rfl, h⟩
  | insufficient => rw [hp] at h; cases h
  | corrupt => rw [hp] at h; cases h
  | compat => rw [hp] at h; cases h

theorem pure_ok {α : Type} {a b : α} {s r : Bits} (h : Parser.pure a s = .ok b r) : b = a ∧ r = s := by
  simp only [Parser.pure, Res.ok.injEq] at h; exact ⟨h.1.symm, h.2.symm⟩

theorem map_ok {α β : Type} {g : α → β} {p : Parser α} {s : Bits} {b : β} {r : Bits}
    (h : Parser.map g p s = .ok b r) : ∃ a, p s = .ok a r ∧ b = g a := by
  obtain ⟨a, r1, h1, h2⟩ := bind_ok_h h
  obtain ⟨rfl, rfl⟩ := pure_ok h2
  exact ⟨a, h1, rfl⟩

/-! ### "returns a suffix of its input" -/

/-- on success the rest is a suffix of the input: no parser ever looks at, or moves the reader to,
a position outside the data -/
def Suf {α : Type} (p : Parser α) : Prop := ∀ s a r, p s = .ok a r → ∃ c, s = c ++ r

theorem Suf.of_safe {α : Type} {p : Parser α} (h : Safe p) : Suf p := h.ok_suffix

theorem suf_pure {α : Type} (a : α) : Suf (Parser.pure a) := (safe_pure a).ok_suffix
theorem suf_corrupt {α : Type} : Suf (Parser.corrupt : Parser α) := safe_corrupt.ok_suffix
theorem suf_compat {α : Type} : Suf (Parser.compat : Parser α) := safe_compat.ok_suffix
theorem suf_readBits (n : Nat) : Suf (readBits n) := (safe_readBits n).ok_suffix
theorem suf_readNat (n : Nat) : Suf (readNat n) := (safe_readNat n).ok_suffix

theorem suf_readBit : Suf readBit := by
  intro s a r h
  cases s with
  | nil => cases h
  | cons b s =>
    simp only [readBit, Res.ok.injEq] at h
    exact ⟨[b], by simp [h.2]⟩

theorem suf_bind {α β : Type} {p : Parser α} {f : α → Parser β} (hp : Suf p) (hf : ∀ a, Suf (f a)) :
    Suf (Parser.bind p f) := by
  intro s b r h
  obtain ⟨a, r1, h1, h2⟩ := bind_ok_h h
  obtain ⟨c1, rfl⟩ := hp s a r1 h1
  obtain ⟨c2, rfl⟩ := hf a r1 b r h2
  exact ⟨c1 ++ c2, by simp⟩

theorem suf_map {α β : Type} (g : α → β) {p : Parser α} (hp : Suf p) : Suf (Parser.map g p) :=
  suf_bind hp (fun a => suf_pure (g a))

theorem suf_ite {α : Type} (c : Prop) [Decidable c] {p q : Parser α} (hp : Suf p) (hq : Suf q) :
    Suf (if c then p else q) := by
  split
  · exact hp
  · exact hq

theorem suf_rep {α : Type} {p : Parser α} (hp : Suf p) (n : Nat) : Suf (Parser.rep p n) := by
  induction n with
  | zero => exact suf_pure []
  | succ n ih => exact suf_bind hp (fun a => suf_bind ih (fun as => suf_pure _))

theorem suf_aligned {α : Type} {p : Parser α} (hp : Suf p) : Suf (Parser.aligned p) := by
  intro s a r h
  unfold Parser.aligned at h
  cases hps : p s with
  | ok a1 r1 =>
    rw [hps] at h
    simp only at h
    obtain ⟨c1, rfl⟩ := hp s a1 r1 hps
    have : Suf (Parser.bind (readBits ((8 - ((c1 ++ r1).length - r1.length) % 8) % 8)) fun z =>
        if z.any id then (Parser.corrupt : Parser α) else Parser.pure a1) :=
      suf_bind (suf_readBits _) (fun z => by
        cases z.any id
        · exact suf_pure a1
        · exact suf_corrupt)
    obtain ⟨c2, rfl⟩ := this r1 a r h
    exact ⟨c1 ++ c2, by simp⟩
  | insufficient => rw [hps] at h; cases h
  | corrupt => rw [hps] at h; cases h
  | compat => rw [hps] at h; cases h

/-- a parser that chooses what to run from the input (fuel from its length) -/
theorem suf_pointwise {α : Type} {p : Parser α} (h : ∀ s, ∃ q : Parser α, Suf q ∧ p s = q s) :
    Suf p := by
  intro s a r hs
  obtain ⟨q, hq, he⟩ := h s
  rw [he] at hs
  exact hq s a r hs

/-! ### the parsers of the format return suffixes -/

theorem suf_decVarintHigh (m : Nat) : Suf (decVarintHigh m) := (safe_decVarintHigh m).ok_suffix

theorem suf_decVarint (N j : Nat) : Suf (decVarint N j) :=
  suf_bind (suf_readNat j) (fun _ => suf_bind (suf_decVarintHigh _) (fun _ => suf_pure _))

theorem suf_decOffset (r k : Nat) : Suf (decOffset r k) :=
  suf_bind (suf_readNat k) (fun _ =>
    suf_ite _ (suf_bind suf_readBit (fun _ => suf_pure _)) (suf_pure _))

theorem suf_decOffsetC (r k : Nat) : Suf (Op.decOffsetC r k) :=
  suf_bind (suf_readNat k) (fun _ =>
    suf_ite _ (suf_bind suf_readBit (fun _ => suf_pure _)) (suf_pure _))

theorem suf_decVarintHighC (m : Nat) : Suf (Op.decVarintHighC m) := by
  induction m with
  | zero => exact suf_pure _
  | succ m ih =>
    unfold Op.decVarintHighC
    refine suf_bind suf_readBit (fun c => ?_)
    cases c
    · exact suf_pure _
    · exact suf_bind suf_readBit (fun _ => suf_bind ih (fun _ => suf_pure _))

theorem suf_decVarintC (N j : Nat) : Suf (Op.decVarintC N j) :=
  suf_bind (suf_readNat j) (fun _ => suf_bind (suf_decVarintHighC _) (fun _ => suf_pure _))

theorem suf_matchCode (codes : List Bits) : Suf (matchCode codes) := by
  intro s i r h
  unfold matchCode at h
  split at h
  · simp only [Res.ok.injEq] at h
    exact ⟨s.take (codes.getD i []).length, by rw [← h.2, h.1, List.take_append_drop]⟩
  · split at h <;> cases h

theorem suf_decFlagBits (fuel : Nat) : Suf (decFlagBits fuel) := by
  induction fuel with
  | zero => intro s a r h; cases h
  | succ fuel ih =>
    unfold decFlagBits
    refine suf_bind (suf_readBits 7) (fun b => suf_bind suf_readBit (fun c => ?_))
    cases c
    · exact suf_pure _
    · exact suf_bind ih (fun _ => suf_pure _)

theorem suf_flagsOfBits (bs : Bits) : Suf (flagsOfBits bs) := by
  unfold flagsOfBits
  split
  · exact suf_compat
  · exact suf_pure _

theorem suf_decFlags : Suf decFlags :=
  suf_pointwise (fun s => ⟨_, suf_bind (suf_decFlagBits (s.length / 8 + 1)) suf_flagsOfBits, rfl⟩)

theorem suf_decHeader (d : DType) : Suf (decHeader d) :=
  suf_bind (suf_readNat 32) (fun _ => suf_ite _ suf_corrupt
    (suf_bind (suf_readNat 8) (fun _ => suf_ite _ suf_corrupt suf_decFlags)))

theorem suf_decGcd (gb : Nat → Nat) (range : Nat) : Suf (decGcd gb range) :=
  suf_bind suf_readBit (fun _ => suf_ite _
    (suf_bind (suf_readNat _) (fun _ => suf_ite _ suf_corrupt (suf_pure _))) (suf_pure _))

theorem suf_decBound (d : DType) : Suf (decBound d) := by
  refine suf_bind (suf_readNat _) (fun raw => ?_)
  split
  · exact suf_pure _
  · exact suf_corrupt

theorem suf_decPrefix (gb : Nat → Nat) (d : DType) (fl : Flags) (n : Nat) (common : Option Nat) :
    Suf (decPrefix gb d fl n common) := by
  refine suf_bind (suf_readNat _) (fun _ => suf_bind (suf_decBound d) (fun _ =>
    suf_bind (suf_decBound d) (fun _ => suf_ite _ suf_corrupt ?_)))
  refine suf_bind (suf_readNat _) (fun _ => suf_bind (suf_readBits _) (fun _ =>
    suf_bind suf_readBit (fun _ => suf_bind ?_ (fun _ => suf_bind ?_ (fun _ => suf_pure _)))))
  · exact suf_ite _ (suf_map _ (suf_readNat _)) (suf_pure _)
  · cases common with
    | none => exact suf_decGcd gb _
    | some g => exact suf_pure g

theorem suf_decPrefixes (gb : Nat → Nat) (d : DType) (fl : Flags) (n : Nat) :
    Suf (decPrefixes gb d fl n) := by
  refine suf_bind (suf_readNat _) (fun _ => suf_bind ?_ (fun _ =>
    suf_bind (suf_rep (suf_decPrefix gb d fl n _) _) (fun _ => suf_pure _)))
  exact suf_ite _ (suf_bind suf_readBit (fun _ =>
    suf_ite _ (suf_map _ (suf_decGcd gb _)) (suf_pure _))) (suf_pure _)

theorem suf_decMoment (ds : DType) : Suf (decMoment ds) :=
  suf_bind (suf_decBound ds) (fun _ => suf_pure _)

theorem suf_decChunkMeta (gb : Nat → Nat) (d : DType) (fl : Flags) : Suf (decChunkMeta gb d fl) :=
  suf_aligned (suf_bind (suf_readNat _) (fun _ => suf_bind (suf_readNat _) (fun _ =>
    suf_bind (suf_rep (suf_decMoment _) _) (fun _ =>
      suf_bind (suf_decPrefixes gb _ fl _) (fun _ => suf_pure _)))))

theorem suf_readChunkMeta (gb : Nat → Nat) (d : DType) (fl : Flags) :
    Suf (Op.readChunkMeta gb d fl) :=
  suf_bind (suf_readNat 8) (fun _ => suf_ite _ (suf_pure _)
    (suf_ite _ (suf_map _ (suf_decChunkMeta gb d fl)) suf_corrupt))

end Qco

namespace Qco
open Parser

/-! ### fixed-width fields are bounded by their width -/

theorem bitsNat_foldl_lt (bs : Bits) (a : Nat) :
    bs.foldl (fun a b => 2 * a + b.toNat) a + 1 ≤ (a + 1) * 2 ^ bs.length := by
  induction bs generalizing a with
  | nil => simp
  | cons b bs ih =>
    simp only [List.foldl_cons, List.length_cons]
    have h1 := ih (2 * a + b.toNat)
    have hb : b.toNat ≤ 1 := by cases b <;> simp
    have h2 : (2 * a + b.toNat + 1) * 2 ^ bs.length ≤ (2 * a + 2) * 2 ^ bs.length :=
      Nat.mul_le_mul_right _ (by omega)
    have h3 : (a + 1) * 2 ^ (bs.length + 1) = (2 * a + 2) * 2 ^ bs.length := by
      rw [Nat.pow_succ, Nat.mul_comm (2 ^ bs.length) 2, ← Nat.mul_assoc]
      congr 1; omega
    omega

theorem bitsNat_lt (bs : Bits) : bitsNat bs < 2 ^ bs.length := by
  have := bitsNat_foldl_lt bs 0
  unfold bitsNat
  omega

theorem readBits_length {n : Nat} {s bs r : Bits} (h : readBits n s = .ok bs r) : bs.length = n := by
  rw [readBits_def] at h
  split at h
  · cases h
  · simp only [Res.ok.injEq] at h
    rw [← h.1, List.length_take]; omega

theorem readNat_ok {w : Nat} {s : Bits} {x : Nat} {r : Bits} (h : readNat w s = .ok x r) :
    ∃ bs, readBits w s = .ok bs r ∧ x = bitsNat bs := by
  unfold readNat at h
  cases hb : readBits w s with
  | ok bs r1 =>
    rw [hb] at h
    simp only [Res.ok.injEq] at h
    exact ⟨bs, by rw [h.2], h.1.symm⟩
  | insufficient => rw [hb] at h; cases h
  | corrupt => rw [hb] at h; cases h
  | compat => rw [hb] at h; cases h

/-- a `w`-bit field is `< 2^w`, whatever the bits -/
theorem readNat_lt {w : Nat} {s : Bits} {x : Nat} {r : Bits} (h : readNat w s = .ok x r) :
    x < 2 ^ w := by
  obtain ⟨bs, hb, rfl⟩ := readNat_ok h
  have := bitsNat_lt bs
  rwa [readBits_length hb] at this

/-! ### varint -/

theorem decVarintHigh_lt (m : Nat) {s : Bits} {y : Nat} {r : Bits}
    (h : decVarintHigh m s = .ok y r) : y < 2 ^ m := by
  induction m generalizing s y r with
  | zero =>
    obtain ⟨rfl, _⟩ := pure_ok h
    simp
  | succ m ih =>
    unfold decVarintHigh at h
    obtain ⟨c, r1, _, h2⟩ := bind_ok_h h
    cases c with
    | false =>
      obtain ⟨rfl, _⟩ := pure_ok h2
      exact Nat.two_pow_pos _
    | true =>
      simp only [if_true] at h2
      obtain ⟨b, r2, _, h3⟩ := bind_ok_h h2
      obtain ⟨y', r3, h4, h5⟩ := bind_ok_h h3
      obtain ⟨rfl, _⟩ := pure_ok h5
      have := ih h4
      have hb : b.toNat ≤ 1 := by cases b <;> simp
      rw [Nat.pow_succ]; omega

/-- the run-length varint with jumpstart `j` decodes to a number below `2^(max N j)`: below
`2^N` for every legal jumpstart `j ≤ N` -/
theorem decVarint_lt_max (N j : Nat) {s : Bits} {x : Nat} {r : Bits}
    (h : decVarint N j s = .ok x r) : x < 2 ^ (max N j) := by
  unfold decVarint at h
  obtain ⟨low, r1, h1, h2⟩ := bind_ok_h h
  obtain ⟨high, r2, h3, h4⟩ := bind_ok_h h2
  obtain ⟨rfl, _⟩ := pure_ok h4
  have hl := readNat_lt h1
  have hh := decVarintHigh_lt _ h3
  have hm : 2 ^ j * (high + 1) ≤ 2 ^ j * 2 ^ (N - j) := Nat.mul_le_mul_left _ hh
  rw [← Nat.pow_add] at hm
  have he : j + (N - j) = max N j := by omega
  rw [he, Nat.mul_add] at hm
  omega

theorem decVarintHighC_fst_h (m : Nat) {s : Bits} {y n : Nat} {r : Bits}
    (h : Op.decVarintHighC m s = .ok (y, n) r) : decVarintHigh m s = .ok y r := by
  induction m generalizing s y n r with
  | zero =>
    obtain ⟨he, rfl⟩ := pure_ok h
    simp only [Prod.mk.injEq] at he
    simp [decVarintHigh, Parser.pure, he.1]
  | succ m ih =>
    unfold Op.decVarintHighC at h
    unfold decVarintHigh
    obtain ⟨c, r1, h1, h2⟩ := bind_ok_h h
    simp only [Parser.bind, h1]
    cases c with
    | false =>
      obtain ⟨he, rfl⟩ := pure_ok h2
      simp only [Prod.mk.injEq] at he
      simp [Parser.pure, he.1]
    | true =>
      simp only [if_true] at h2 ⊢
      obtain ⟨b, r2, h3, h4⟩ := bind_ok_h h2
      obtain ⟨⟨y', n'⟩, r3, h5, h6⟩ := bind_ok_h h4
      obtain ⟨he, rfl⟩ := pure_ok h6
      simp only [Prod.mk.injEq] at he
      simp [Parser.bind, h3, ih h5, Parser.pure, he.1]

theorem decVarintC_fst_h (N j : Nat) {s : Bits} {x n : Nat} {r : Bits}
    (h : Op.decVarintC N j s = .ok (x, n) r) : decVarint N j s = .ok x r := by
  unfold Op.decVarintC at h
  unfold decVarint
  obtain ⟨low, r1, h1, h2⟩ := bind_ok_h h
  obtain ⟨⟨high, cnt⟩, r2, h3, h4⟩ := bind_ok_h h2
  obtain ⟨he, rfl⟩ := pure_ok h4
  simp only [Prod.mk.injEq] at he
  simp [Parser.bind, h1, decVarintHighC_fst_h _ h3, Parser.pure, he.1]

/-! ### offsets -/

/-- the offset never exceeds the range count `r` — for every `r`, every `k` with `2^k ≤ r + 1`,
every input -/
theorem decOffset_le_of_pow (r k : Nat) (hk : 2 ^ k ≤ r + 1) {s : Bits} {off : Nat} {rest : Bits}
    (h : decOffset r k s = .ok off rest) : off ≤ r := by
  unfold decOffset at h
  obtain ⟨low, r1, h1, h2⟩ := bind_ok_h h
  have hl := readNat_lt h1
  split at h2
  · obtain ⟨b, r2, _, h4⟩ := bind_ok_h h2
    obtain ⟨rfl, _⟩ := pure_ok h4
    have hp := Nat.two_pow_pos k
    cases b <;> simp <;> omega
  · obtain ⟨rfl, _⟩ := pure_ok h2
    omega

theorem decOffsetC_fst_h (r k : Nat) {s : Bits} {off n : Nat} {rest : Bits}
    (h : Op.decOffsetC r k s = .ok (off, n) rest) : decOffset r k s = .ok off rest := by
  unfold Op.decOffsetC at h
  unfold decOffset
  obtain ⟨low, r1, h1, h2⟩ := bind_ok_h h
  simp only [Parser.bind, h1]
  split at h2
  · rename_i hc
    obtain ⟨b, r2, h3, h4⟩ := bind_ok_h h2
    obtain ⟨he, rfl⟩ := pure_ok h4
    simp only [Prod.mk.injEq] at he
    simp [Parser.bind, hc, h3, Parser.pure, he.1]
  · rename_i hc
    obtain ⟨he, rfl⟩ := pure_ok h2
    simp only [Prod.mk.injEq] at he
    simp [hc, Parser.pure, he.1]

/-! ### values -/

theorem Prefix.info_r (p : Prefix) : p.info.r = (p.upper - p.lower) / p.gcd := rfl
theorem Prefix.info_k (p : Prefix) : p.info.k = Nat.log2 (p.info.r + 1) := rfl
theorem Prefix.info_val (p : Prefix) (off : Nat) : p.info.val off = p.lower + off * p.gcd := rfl

theorem Prefix.pow_k_le (p : Prefix) : 2 ^ p.info.k ≤ p.info.r + 1 :=
  Nat.log2_self_le (Nat.succ_ne_zero _)

theorem Prefix.r_le (p : Prefix) : p.info.r ≤ p.upper - p.lower := Nat.div_le_self _ _

/-! ### code lookup -/

theorem matchCode_index_lt' (codes : List Bits) {s : Bits} {i : Nat} {r : Bits}
    (h : matchCode codes s = .ok i r) : i < codes.length := by
  unfold matchCode at h
  split at h
  · rename_i j hj
    simp only [Res.ok.injEq] at h
    rw [List.findIdx?_eq_some_iff_getElem] at hj
    obtain ⟨hl, _⟩ := hj
    omega
  · split at h <;> cases h

theorem maxLen_foldl_le (codes : List Bits) (B m : Nat) (hm : m ≤ B) (h : ∀ c ∈ codes, c.length ≤ B) :
    codes.foldl (fun m c => max m c.length) m ≤ B := by
  induction codes generalizing m with
  | nil => simpa using hm
  | cons c cs ih =>
    simp only [List.foldl_cons]
    apply ih
    · have := h c List.mem_cons_self; omega
    · intro c' hc'; exact h c' (List.mem_cons_of_mem _ hc')

theorem maxLen_le (codes : List Bits) (B : Nat) (h : ∀ c ∈ codes, c.length ≤ B) : maxLen codes ≤ B :=
  maxLen_foldl_le codes B 0 (Nat.zero_le _) h

/-! ### `rep` -/

theorem rep_forall {α : Type} {p : Parser α} (P : α → Prop) (hp : ∀ s a r, p s = .ok a r → P a)
    (n : Nat) {s : Bits} {as : List α} {r : Bits} (h : Parser.rep p n s = .ok as r) :
    as.length = n ∧ ∀ a ∈ as, P a := by
  induction n generalizing s as r with
  | zero =>
    obtain ⟨rfl, _⟩ := pure_ok h
    simp
  | succ n ih =>
    unfold Parser.rep at h
    obtain ⟨a, r1, h1, h2⟩ := bind_ok_h h
    obtain ⟨as', r2, h3, h4⟩ := bind_ok_h h2
    obtain ⟨rfl, _⟩ := pure_ok h4
    obtain ⟨hl, hall⟩ := ih h3
    refine ⟨by simp [hl], ?_⟩
    intro a' ha'
    rcases List.mem_cons.1 ha' with rfl | hm
    · exact hp _ _ _ h1
    · exact hall a' hm

theorem aligned_ok {α : Type} {p : Parser α} {s : Bits} {a : α} {r : Bits}
    (h : Parser.aligned p s = .ok a r) : ∃ r1, p s = .ok a r1 := by
  unfold Parser.aligned at h
  cases hps : p s with
  | ok a1 r1 =>
    rw [hps] at h
    simp only at h
    obtain ⟨z, r2, _, h2⟩ := bind_ok_h h
    cases hz : z.any id
    · rw [hz] at h2
      obtain ⟨rfl, _⟩ := pure_ok h2
      exact ⟨r1, rfl⟩
    · rw [hz] at h2; cases h2
  | insufficient => rw [hps] at h; cases h
  | corrupt => rw [hps] at h; cases h
  | compat => rw [hps] at h; cases h

end Qco

namespace Qco
namespace Op
open Parser

/-! ### the code matcher on arbitrary input -/

/-- what the theorems of C07 need from the Huffman lookup, on ARBITRARY code lists and input: a
returned index is an index into the code list and the returned rest is a suffix of the input -/
structure MatcherOk (L : Matcher) : Prop where
  index_lt : ∀ pos codes s i r, L pos codes s = .ok i r → i < codes.length
  suffix : ∀ pos codes, Suf (L pos codes)

theorem eagerMatcher_ok : MatcherOk eagerMatcher :=
  ⟨fun _ codes _ _ _ h => matchCode_index_lt' codes h, fun _ codes => suf_matchCode codes⟩

theorem matchStrideGo_ok (codes : List Bits) (fuel : Nat) (cands : List Nat) (depth j : Nat)
    (s orig : Bits) (i : Nat) (r : Bits) (hc : ∀ i ∈ cands, i < codes.length)
    (h : matchStrideGo codes fuel cands depth j s orig = .ok i r) :
    i < codes.length ∧ ∃ c, orig = c ++ r := by
  induction fuel generalizing cands depth j s with
  | zero => simp [matchStrideGo] at h
  | succ fuel ih =>
    unfold matchStrideGo at h
    split at h
    · cases h
    · rename_i i0
      simp only at h
      split at h
      · cases h
      · simp only [Res.ok.injEq] at h
        obtain ⟨rfl, rfl⟩ := h
        exact ⟨hc i0 (by simp), ⟨orig.take _, (List.take_append_drop _ _).symm⟩⟩
    · simp only at h
      split at h
      · cases h
      · split at h
        · cases h
        · split at h <;>
          · split at h
            · split at h
              · rename_i i0 hf
                split at h
                · simp only [Res.ok.injEq] at h
                  obtain ⟨rfl, rfl⟩ := h
                  refine ⟨hc i0 ?_, ⟨orig.take _, (List.take_append_drop _ _).symm⟩⟩
                  have : i0 ∈ [i0] := by simp
                  rw [← hf] at this
                  exact (List.mem_filter.1 this).1
                · cases h
              · cases h
            · refine ih _ _ _ _ ?_ h
              intro i' hi'
              exact hc i' (List.mem_filter.1 hi').1

theorem matchStride_ok : MatcherOk matchStride := by
  refine ⟨?_, ?_⟩
  · intro pos codes s i r h
    exact (matchStrideGo_ok codes _ _ _ _ _ _ i r (by simp) h).1
  · intro pos codes s i r h
    exact (matchStrideGo_ok codes _ _ _ _ _ _ i r (by simp) h).2

/-! ### units and batches return suffixes -/

theorem suf_unitL (L : Matcher) (hL : ∀ pos codes, Suf (L pos codes)) (t : Table) (st : PState) :
    Suf (unitL L t st) := by
  obtain ⟨st, pos⟩ := st
  cases st with
  | some pr =>
    obtain ⟨p, rem⟩ := pr
    exact suf_bind (suf_decOffsetC _ _) (fun _ => suf_pure _)
  | none =>
    refine suf_bind (hL pos t.codes) (fun p => ?_)
    cases (t.info p).jump with
    | none => exact suf_bind (suf_decOffsetC _ _) (fun _ => suf_pure _)
    | some j =>
      exact suf_bind (suf_decVarintC _ _) (fun _ => suf_bind (suf_decOffsetC _ _) (fun _ => suf_pure _))

theorem suf_unit (t : Table) (st : UState) : Suf (unit t st) := by
  cases st with
  | some pr =>
    obtain ⟨p, rem⟩ := pr
    exact suf_bind (suf_decOffset _ _) (fun _ => suf_pure _)
  | none =>
    refine suf_bind (suf_matchCode t.codes) (fun p => ?_)
    cases (t.info p).jump with
    | none => exact suf_bind (suf_decOffset _ _) (fun _ => suf_pure _)
    | some j =>
      exact suf_bind (suf_decVarint _ _) (fun _ => suf_bind (suf_decOffset _ _) (fun _ => suf_pure _))

/-- a drained batch leaves a suffix of the data, whatever made it stop -/
theorem drainR_suffix {σ : Type} (u : σ → Parser (Nat × σ)) (hu : ∀ st, Suf (u st)) (m : Nat)
    (st : σ) (s : Bits) : ∃ c, s = c ++ (drainR u m st s).2.2.1 := by
  induction m generalizing st s with
  | zero => exact ⟨[], rfl⟩
  | succ m ih =>
    unfold drainR
    split
    · rename_i x st1 r hus
      obtain ⟨c1, rfl⟩ := hu st s _ r hus
      obtain ⟨c2, h2⟩ := ih st1 r
      refine ⟨c1 ++ c2, ?_⟩
      simp only [List.append_assoc]
      rw [← h2]
    · exact ⟨[], rfl⟩
    · exact ⟨[], rfl⟩
    · exact ⟨[], rfl⟩

/-- every number of a drained batch satisfies what every unit's number satisfies, given an
invariant of the unit state -/
theorem drainR_forall {σ : Type} (u : σ → Parser (Nat × σ)) (I : σ → Prop) (P : Nat → Prop)
    (hu : ∀ st s x st' r, I st → u st s = .ok (x, st') r → P x ∧ I st')
    (m : Nat) (st : σ) (s : Bits) (hst : I st) :
    (∀ x ∈ (drainR u m st s).1, P x) ∧ I (drainR u m st s).2.1 := by
  induction m generalizing st s with
  | zero => exact ⟨by simp [drainR], hst⟩
  | succ m ih =>
    unfold drainR
    split
    · rename_i x st1 r hus
      obtain ⟨hx, hst1⟩ := hu st s x st1 r hst hus
      obtain ⟨h1, h2⟩ := ih st1 r hst1
      refine ⟨?_, h2⟩
      intro y hy
      rcases List.mem_cons.1 hy with rfl | hm
      · exact hx
      · exact h1 y hm
    · exact ⟨by simp, hst⟩
    · exact ⟨by simp, hst⟩
    · exact ⟨by simp, hst⟩

/-! ### reader positions -/

/-- the reader moved forward inside its data: the new unread bits are a suffix of the old ones
and the position grew by exactly what was consumed -/
def RdAdv (rd rd' : Rd) : Prop := ∃ c, rd.bits = c ++ rd'.bits ∧ rd'.pos = rd.pos + c.length

theorem RdAdv.refl (rd : Rd) : RdAdv rd rd := ⟨[], rfl, rfl⟩

theorem RdAdv.trans {a b c : Rd} (h1 : RdAdv a b) (h2 : RdAdv b c) : RdAdv a c := by
  obtain ⟨c1, e1, p1⟩ := h1
  obtain ⟨c2, e2, p2⟩ := h2
  refine ⟨c1 ++ c2, by rw [e1, e2, List.append_assoc], ?_⟩
  rw [p2, p1, List.length_append]; omega

/-- `Rd.advance` computes the position from lengths: exact for a suffix -/
theorem RdAdv.advance (rd : Rd) (r : Bits) (h : ∃ c, rd.bits = c ++ r) : RdAdv rd (rd.advance r) := by
  obtain ⟨c, hc⟩ := h
  refine ⟨c, hc, ?_⟩
  simp only [Rd.advance, hc, List.length_append]; omega

theorem runParser_adv {α : Type} (p : Parser α) (hp : Suf p) (rd : Rd) (a : α) (rd' : Rd)
    (h : runParser p rd = .ok (a, rd')) : RdAdv rd rd' := by
  unfold runParser at h
  split at h
  · rename_i a' r hps
    simp only [Out.ok.injEq, Prod.mk.injEq] at h
    rw [← h.2]
    exact RdAdv.advance rd r (hp _ _ _ hps)
  · cases h

theorem runAligned_adv {α : Type} (p : Parser α) (hp : Suf p) (rd : Rd) (a : α) (rd' : Rd)
    (h : runAligned p rd = .ok (a, rd')) : RdAdv rd rd' := by
  unfold runAligned at h
  split at h
  · cases h
  · exact runParser_adv p hp rd a rd' h

theorem drainEmptyByte_adv (rd rd' : Rd) (h : drainEmptyByte rd = .ok rd') : RdAdv rd rd' := by
  unfold drainEmptyByte at h
  simp only at h
  split at h
  · cases h
  · simp only [Out.ok.injEq] at h
    subst h
    exact ⟨rd.bits.take ((8 - rd.pos % 8) % 8), (List.take_append_drop _ _).symm, rfl⟩

theorem numBatchDirty_adv (L : Matcher) (hL : ∀ pos codes, Suf (L pos codes)) (b : Body)
    (limit : Nat) (eoi : Bool) (rd : Rd) : RdAdv rd (numBatchDirty L b limit eoi rd).2.2 := by
  unfold numBatchDirty
  simp only
  split
  · exact RdAdv.refl rd
  · have hs := drainR_suffix (unitL L (tableOf b.ps)) (fun st => suf_unitL L hL _ st)
      (min (b.n - b.st.nProcessed) limit) (b.st.inc, rd.pos) rd.bits
    generalize drainR (unitL L (tableOf b.ps)) (min (b.n - b.st.nProcessed) limit)
      (b.st.inc, rd.pos) rd.bits = res at hs ⊢
    obtain ⟨us, ps', r, why⟩ := res
    simp only at hs ⊢
    have := RdAdv.advance rd r hs
    split
    · exact this
    · split <;> exact this
    · exact this

theorem numBatch_adv (L : Matcher) (hL : ∀ pos codes, Suf (L pos codes)) (b : Body)
    (limit : Nat) (eoi : Bool) (rd : Rd) : RdAdv rd (numBatch L b limit eoi rd).2.2 := by
  have hd := numBatchDirty_adv L hL b limit eoi rd
  unfold numBatch
  simp only
  split
  · rename_i ub st' rd' hnd
    rw [hnd] at hd
    split
    · exact RdAdv.refl rd
    · rename_i rd'' hfin
      split
      · exact RdAdv.refl rd
      · refine RdAdv.trans hd ?_
        split at hfin
        · exact drainEmptyByte_adv _ _ hfin
        · simp only [Out.ok.injEq] at hfin
          rw [← hfin]; exact RdAdv.refl _
  · exact RdAdv.refl rd

theorem nextBatch_adv (L : Matcher) (hL : ∀ pos codes, Suf (L pos codes)) (d : DType) (b : Body)
    (limit : Nat) (eoi : Bool) (rd : Rd) : RdAdv rd (nextBatch L d b limit eoi rd).2.2 := by
  have hd := numBatch_adv L hL b limit eoi rd
  unfold nextBatch
  split
  · rename_i e st' rd' hn
    rw [hn] at hd; exact hd
  · rename_i ub st' rd' hn
    rw [hn] at hd
    simp only
    split
    · exact hd
    · exact hd

end Op
end Qco

namespace Qco
open Parser

/-! ### Kraft's inequality; a complete prefix code has an answer for every input -/

/-- neither is a prefix of the other -/
def Incomparable (a b : Bits) : Prop := ¬ a <+: b ∧ ¬ b <+: a

theorem incomparable_iff (a b : Bits) :
    ((!isPre a b) = true ∧ (!isPre b a) = true) ↔ Incomparable a b := by
  unfold Incomparable isPre
  rw [← List.isPrefixOf_iff_prefix, ← List.isPrefixOf_iff_prefix]
  cases a.isPrefixOf b <;> cases b.isPrefixOf a <;> simp

theorem prefixFreeB_iff (codes : List Bits) :
    prefixFreeB codes = true ↔ codes.Pairwise Incomparable := by
  induction codes with
  | nil => simp [prefixFreeB]
  | cons c cs ih =>
    simp only [prefixFreeB, Bool.and_eq_true, List.all_eq_true, List.pairwise_cons, ih,
      incomparable_iff]

theorem kraftSum_nil_h (L : Nat) : kraftSum L [] = 0 := rfl

theorem kraftSum_cons_h (L : Nat) (c : Bits) (cs : List Bits) :
    kraftSum L (c :: cs) = 2 ^ (L - c.length) + kraftSum L cs := by
  simp [kraftSum]

/-- a prefix-free list containing the empty code is `[[]]` -/
theorem pairwise_nil_mem_h (codes : List Bits) (hp : codes.Pairwise Incomparable)
    (h : [] ∈ codes) : codes = [[]] := by
  cases codes with
  | nil => cases h
  | cons c cs =>
    rw [List.pairwise_cons] at hp
    obtain ⟨h1, _⟩ := hp
    cases cs with
    | nil =>
      simp only [List.mem_singleton] at h
      rw [← h]
    | cons c2 cs2 =>
      exfalso
      rcases List.mem_cons.1 h with rfl | hm
      · exact (h1 c2 (by simp)).1 (List.nil_prefix)
      · exact (h1 [] hm).2 (List.nil_prefix)

/-- the codes starting with `b`, without that bit -/
def tailsOf (b : Bool) : List Bits → List Bits
  | [] => []
  | [] :: cs => tailsOf b cs
  | (b' :: t) :: cs => if b' = b then t :: tailsOf b cs else tailsOf b cs

theorem mem_tailsOf (b : Bool) (cs : List Bits) (t : Bits) : t ∈ tailsOf b cs ↔ (b :: t) ∈ cs := by
  induction cs with
  | nil => simp [tailsOf]
  | cons c cs ih =>
    cases c with
    | nil => simp [tailsOf, ih]
    | cons b' t' =>
      simp only [tailsOf]
      split
      · rename_i hb
        subst hb
        simp [ih]
      · rename_i hb
        simp only [ih, List.mem_cons, List.cons.injEq]
        constructor
        · intro h; exact Or.inr h
        · intro h
          rcases h with ⟨h1, _⟩ | h
          · exact absurd h1.symm hb
          · exact h

theorem pairwise_tailsOf (b : Bool) (cs : List Bits) (hp : cs.Pairwise Incomparable) :
    (tailsOf b cs).Pairwise Incomparable := by
  induction cs with
  | nil => simp [tailsOf]
  | cons c cs ih =>
    rw [List.pairwise_cons] at hp
    obtain ⟨h1, h2⟩ := hp
    cases c with
    | nil => exact ih h2
    | cons b' t' =>
      simp only [tailsOf]
      split
      · rename_i hb
        subst hb
        rw [List.pairwise_cons]
        refine ⟨?_, ih h2⟩
        intro t ht
        have := h1 (b' :: t) ((mem_tailsOf b' cs t).1 ht)
        unfold Incomparable at this ⊢
        simp only [List.cons_prefix_cons, true_and] at this
        exact this
      · exact ih h2

theorem kraftSum_split_h (L : Nat) (cs : List Bits) (h : [] ∉ cs) :
    kraftSum (L + 1) cs = kraftSum L (tailsOf false cs) + kraftSum L (tailsOf true cs) := by
  induction cs with
  | nil => rfl
  | cons c cs ih =>
    have hcs : [] ∉ cs := fun hm => h (List.mem_cons_of_mem _ hm)
    cases c with
    | nil => exact absurd List.mem_cons_self h
    | cons b t =>
      have e : L + 1 - (b :: t).length = L - t.length := by simp
      cases b with
      | false =>
        simp only [tailsOf, kraftSum_cons_h, ih hcs, e, if_true, Bool.false_eq_true, if_false]
        omega
      | true =>
        simp only [tailsOf, kraftSum_cons_h, ih hcs, e, if_true, Bool.true_eq_false, if_false]
        omega

/-- **Kraft's inequality** for a pairwise prefix-free list of codes of length at most `L` -/
theorem kraft_le_h (L : Nat) (codes : List Bits) (hp : codes.Pairwise Incomparable)
    (hl : ∀ c ∈ codes, c.length ≤ L) : kraftSum L codes ≤ 2 ^ L := by
  induction L generalizing codes with
  | zero =>
    cases codes with
    | nil => simp [kraftSum_nil_h]
    | cons c cs =>
      have hc : c = [] := List.eq_nil_of_length_eq_zero (by have := hl c List.mem_cons_self; omega)
      subst hc
      rw [pairwise_nil_mem_h _ hp List.mem_cons_self]
      simp [kraftSum]
  | succ L ih =>
    by_cases hn : [] ∈ codes
    · rw [pairwise_nil_mem_h _ hp hn]
      simp [kraftSum]
    · rw [kraftSum_split_h L codes hn]
      have h0 := ih (tailsOf false codes) (pairwise_tailsOf false codes hp) (by
        intro t ht
        have := hl _ ((mem_tailsOf false codes t).1 ht)
        simp only [List.length_cons] at this; omega)
      have h1 := ih (tailsOf true codes) (pairwise_tailsOf true codes hp) (by
        intro t ht
        have := hl _ ((mem_tailsOf true codes t).1 ht)
        simp only [List.length_cons] at this; omega)
      rw [Nat.pow_succ]; omega

theorem le_maxLen_foldl (codes : List Bits) (m : Nat) :
    m ≤ codes.foldl (fun m c => max m c.length) m ∧
    ∀ c ∈ codes, c.length ≤ codes.foldl (fun m c => max m c.length) m := by
  induction codes generalizing m with
  | nil => simp
  | cons c cs ih =>
    simp only [List.foldl_cons]
    obtain ⟨h1, h2⟩ := ih (max m c.length)
    refine ⟨by omega, ?_⟩
    intro c' hc'
    rcases List.mem_cons.1 hc' with rfl | hm
    · omega
    · exact h2 c' hm

theorem le_maxLen (codes : List Bits) (c : Bits) (h : c ∈ codes) : c.length ≤ maxLen codes :=
  (le_maxLen_foldl codes 0).2 c h

theorem kraftSum_scale (M L : Nat) (hML : M ≤ L) (codes : List Bits) (hl : ∀ c ∈ codes, c.length ≤ M) :
    kraftSum L codes = 2 ^ (L - M) * kraftSum M codes := by
  induction codes with
  | nil => simp [kraftSum_nil_h]
  | cons c cs ih =>
    have hc := hl c List.mem_cons_self
    rw [kraftSum_cons_h, kraftSum_cons_h, ih (fun c' h => hl c' (List.mem_cons_of_mem _ h)), Nat.mul_add,
      ← Nat.pow_add]
    have : L - c.length = L - M + (M - c.length) := by omega
    rw [this]

/-- **a complete prefix code answers every input**: `matchCode` on the codes of a tree that
`validate_prefix_tree` accepts is never `corrupt` — it finds a code or wants more bits -/
theorem matchCode_complete_not_corrupt (codes : List Bits) (h : completeTree codes = true)
    (s : Bits) : matchCode codes s ≠ .corrupt := by
  intro hc
  simp only [completeTree, Bool.and_eq_true, beq_iff_eq] at h
  obtain ⟨hpf, hk⟩ := h
  rw [prefixFreeB_iff] at hpf
  unfold matchCode at hc
  split at hc
  · cases hc
  · rename_i hnone
    split at hc
    · cases hc
    · rename_i hany
      rw [List.findIdx?_eq_none_iff] at hnone
      have hany' : ∀ c ∈ codes, ¬ s <+: c := by
        intro c hcm hpre
        apply hany
        rw [List.any_eq_true]
        exact ⟨c, hcm, List.isPrefixOf_iff_prefix.2 hpre⟩
      have hnone' : ∀ c ∈ codes, ¬ c <+: s := by
        intro c hcm hpre
        have := hnone c hcm
        rw [List.isPrefixOf_iff_prefix.2 hpre] at this
        cases this
      have hp2 : (s :: codes).Pairwise Incomparable := by
        rw [List.pairwise_cons]
        exact ⟨fun c hcm => ⟨hany' c hcm, hnone' c hcm⟩, hpf⟩
      have hM : ∀ c ∈ codes, c.length ≤ maxLen codes := le_maxLen codes
      have hkr := kraft_le_h (max (maxLen codes) s.length) (s :: codes) hp2 (by
        intro c hcm
        rcases List.mem_cons.1 hcm with rfl | hm
        · omega
        · have := hM c hm; omega)
      rw [kraftSum_cons_h, kraftSum_scale (maxLen codes) _ (by omega) codes hM, hk, ← Nat.pow_add] at hkr
      have e : max (maxLen codes) s.length - maxLen codes + maxLen codes = max (maxLen codes) s.length := by
        omega
      rw [e] at hkr
      have := Nat.two_pow_pos (max (maxLen codes) s.length - s.length)
      omega

end Qco
