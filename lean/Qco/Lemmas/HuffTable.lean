/-
The literal Huffman table (`Qco.HT`, `Qco/Op/HuffTable.lean`: `HuffmanTable::from`,
`search_with_reader`, `unchecked_search_with_reader` over the word-level `BitReader`) against the
abstract stride lookup `Qco.Op.matchStride` (`Qco/Op/Decomp.lean`), on complete code tables.

* `rpti_spec`, `rpti_end` — **`read_prefix_table_idx`**: the index is the value of the next
  `table_size_log` bits of the data, zero-padded (`paddedOf`); `bits_read` and the new position in
  the three cases (inside the word: `min tsl left`; crossing with a next word: `tsl`; crossing
  without: `64 - j`, reader parked at `64 * words.len() + 64`).  `urpti_eq`: the unchecked version
  agrees when the stride lies inside the data.
* `buildRec_shape` — **structure of the table** along the data: after `depth` bits the recursion
  of `build_from_prefixes_recursive` holds exactly the candidates `matchStrideGo` keeps; one
  candidate is a leaf (whose code is no longer than `depth`), several are a node with the walk's
  stride, `1 ≤ tsl ≤ 6`, whose child `bitsNat padded` is built from the walk's next candidates.
* `walk`, `search_outcome`, `search_spec` — **HT1**: `litOutcome (search (build codes) w r) =
  absOutcome (matchStride p codes s)`; spelled out for `ok`/`insufficient`, no panic, no other
  error.  `search_rinv`: the reader invariant holds after a lookup that ends inside the data.
* `uwalk`, `uncheckedSearch_eq` — **HT2**: with five bits of data after the code the unchecked
  lookup equals the checked one.
* `#guard`s at the end run both lookups side by side.
-/
import Qco.Op.HuffTable
import Qco.Lemmas.Stride
import Qco.Lemmas.WordsProofs
namespace Qco
namespace HT
open Qco.WB Qco.Op


/-! ### bits -/

theorem natBits_bitsNat (bs : Bits) : natBits bs.length (bitsNat bs) = bs := by
  generalize hn : bs.length = n
  induction n generalizing bs with
  | zero =>
    have : bs = [] := List.eq_nil_of_length_eq_zero hn
    subst this; rfl
  | succ n ih =>
    rcases List.eq_nil_or_concat bs with rfl | ⟨init, b, rfl⟩
    · simp at hn
    · rw [List.concat_eq_append] at hn ⊢
      have hl : init.length = n := by simpa using hn
      rw [natBits, bitsNat_snoc]
      have h1 : (2 * bitsNat init + b.toNat) / 2 = bitsNat init := by cases b <;> simp <;> omega
      have h2 : ((2 * bitsNat init + b.toNat) % 2 == 1) = b := by cases b <;> simp <;> omega
      rw [h1, h2, ih init hl]

theorem subBits_eq (t idx : Nat) : subBits t idx = natBits t idx := by
  apply List.ext_getElem?
  intro k
  by_cases hk : k < t
  · rw [natBits_getElem? hk]
    simp only [subBits, List.getElem?_map, List.getElem?_range hk, Option.map_some,
      Nat.shiftRight_eq_div_pow, Nat.and_one_is_mod]
    congr 1
    have : idx / 2 ^ (t - 1 - k) % 2 = 0 ∨ idx / 2 ^ (t - 1 - k) % 2 = 1 := by omega
    rcases this with h | h <;> simp [h]
  · rw [List.getElem?_eq_none (by simp [subBits]; omega), List.getElem?_eq_none (by simp; omega)]

theorem subBits_bitsNat (bs : Bits) : subBits bs.length (bitsNat bs) = bs := by
  rw [subBits_eq, natBits_bitsNat]

theorem compatible_iff (d : Nat) (sub code : Bits) :
    compatible d sub code = true ↔
      ∀ k, k < sub.length → d + k < code.length → code.getD (d + k) false = sub.getD k false := by
  induction sub generalizing d with
  | nil => simp [compatible]
  | cons bit rest ih =>
    rw [compatible]
    by_cases h : (decide (code.length > d) && code.getD d false != bit) = true
    · rw [if_pos h]
      simp only [Bool.and_eq_true, decide_eq_true_eq, bne_iff_ne, ne_eq] at h
      constructor
      · intro h'; cases h'
      · intro h'
        have := h' 0 (by simp) (by omega)
        simp at this
        exact absurd this h.2
    · rw [if_neg h, ih]
      simp only [Bool.and_eq_true, decide_eq_true_eq, bne_iff_ne, ne_eq, not_and, Decidable.not_not] at h
      constructor
      · intro h' k hk hl
        cases k with
        | zero => simpa using h hl
        | succ k =>
          have := h' k (by simpa using hk) (by omega)
          rw [show d + (k + 1) = d + 1 + k by omega]
          simpa using this
      · intro h' k hk hl
        have := h' (k + 1) (by simpa using hk) (by omega)
        rw [show d + (k + 1) = d + 1 + k by omega] at this
        simpa using this


/-! ### the bits a stride sees: the data, then zeros -/

/-- 64 zero bits after the last word -/
def zeros64 : Bits := List.replicate 64 false

theorem paddedOf_length (s : Bits) (t : Nat) : (paddedOf s t).length = t := by
  simp only [paddedOf, List.length_append, List.length_take, List.length_replicate]; omega

/-- the next `t` bits of the words (followed by zeros) are the data left, zero-padded -/
theorem stride_bits {w : Words} (hw : w.WF) {p t : Nat} (hp : p ≤ w.total)
    (ht : p + t ≤ 64 * w.ws.length + 64) :
    ((flat w.ws ++ zeros64).drop p).take t = paddedOf (w.toBits.drop p) t := by
  have hle := hw.total_le
  have hl := hw.toBits_length
  rw [hw.packed.eq, List.append_assoc, zeros64, List.replicate_append_replicate,
    List.drop_append_of_le_length (by omega), List.take_append, List.take_replicate, paddedOf]
  congr 2
  simp only [List.length_take, List.length_drop, hl]
  omega

theorem flatZ_drop {ws : List Nat} {i j : Nat} (hi : i < ws.length) (hj : j ≤ 64) :
    (flat ws ++ zeros64).drop (64 * i + j)
      = natBits (64 - j) ws[i] ++ (flat (ws.drop (i + 1)) ++ zeros64) := by
  rw [List.drop_append_of_le_length (by rw [flat_length]; omega), flat_drop hi hj,
    natBits_drop hj, List.append_assoc]

theorem rpti_end {w : Words} {r : Reader} {t : Nat} (h : w.total ≤ r.bitIdx) :
    readPrefixTableIdx w r t = (.err "InsufficientData", r) := by
  unfold readPrefixTableIdx
  simp only []
  rw [if_pos h]

/-- **spec of `read_prefix_table_idx`**: the index is the value of the next `t` bits of the data,
zero-padded; `bits_read` and the new position by case -/
theorem rpti_spec {w : Words} {r : Reader} {t : Nat} (hw : w.WF) (hj : r.j ≤ 64)
    (hp : r.bitIdx < w.total) (ht1 : 1 ≤ t) (ht : t ≤ 64) :
    ∃ bitsRead r',
      readPrefixTableIdx w r t = (.ok (bitsRead, bitsNat (paddedOf (w.toBits.drop r.bitIdx) t)), r')
      ∧ r'.j ≤ 64 ∧
      (if r.bitIdx % 64 + t ≤ 64 then
         bitsRead = min t (w.total - r.bitIdx) ∧ r'.bitIdx = r.bitIdx + bitsRead
       else if w.total ≤ 64 * (r.bitIdx / 64 + 1) then
         bitsRead = 64 - r.bitIdx % 64 ∧ r'.bitIdx = 64 * w.ws.length + 64
       else bitsRead = t ∧ r'.bitIdx = r.bitIdx + t) := by
  obtain ⟨hb, hj', hi⟩ := refresh_props hw hj hp
  have hlen := hw.total_le
  have hwl := hw.len
  have hpos : r.bitIdx = 64 * r.refresh.i + r.refresh.j := hb.symm
  have hmod : r.bitIdx % 64 = r.refresh.j := by omega
  have hdiv : r.bitIdx / 64 = r.refresh.i := by omega
  have hx : w.ws[r.refresh.i] < 2^64 := hw.lt _ (List.getElem_mem hi)
  have husz : USIZE = 18446744073709551616 := rfl
  rw [← stride_bits hw (Nat.le_of_lt hp) (by omega)]
  have hdrop := flatZ_drop (ws := w.ws) hi (Nat.le_of_lt hj')
  rw [← hpos] at hdrop
  rw [hdrop, hmod, hdiv]
  unfold readPrefixTableIdx
  simp only []
  rw [if_neg (by omega), if_neg (by omega), List.getElem?_eq_getElem hi]
  have hbi : r.bitIdx = 64 * r.refresh.i + r.refresh.j := hpos
  generalize r.bitIdx = P at *
  generalize r.refresh = r1 at *
  obtain ⟨i, j⟩ := r1
  simp only [] at *
  replace hi : i < w.ws.length := hi
  replace hb : 64 * i + j = P := hb
  have hlow : w.ws[i] % 2^(64 - j) < 2^(64 - j) := Nat.mod_lt _ (Nat.two_pow_pos _)
  by_cases h1 : t + j ≤ 64
  · -- all in the current word
    rw [if_pos h1, if_neg (by omega)]
    refine ⟨min t (w.total - P), { i := i, j := j + min t (w.total - P) }, ?_, ?_, ?_⟩
    · congr 3
      rw [List.take_append_of_le_length (by simp; omega), natBits_take (by omega), bitsNat_natBits,
        ← mod_pow_div]
      simp only [shr, low]
      have e1 : t + (64 - j - t) = 64 - j := by omega
      have e2 : 64 - j - t = 64 - (t + j) := by omega
      rw [e1, e2]
    · show j + min t (w.total - P) ≤ 64
      omega
    · rw [if_pos (by omega)]
      refine ⟨rfl, ?_⟩
      show 64 * i + (j + min t (w.total - P)) = P + min t (w.total - P)
      omega
  · rw [if_neg h1, if_neg (by omega)]
    obtain ⟨rem, hrem⟩ : ∃ rem, rem = t + j - 64 := ⟨_, rfl⟩
    rw [← hrem]
    have hlowt : w.ws[i] % 2^(64 - j) * 2^rem < 2^64 :=
      Nat.lt_of_lt_of_le (mul_pow_lt hlow (c := t) (by omega)) (Nat.pow_le_pow_right (by decide) ht)
    have htake : ∀ rest : Bits, List.take t (natBits (64 - j) w.ws[i] ++ rest)
        = natBits (64 - j) w.ws[i] ++ rest.take rem := by
      intro rest
      rw [List.take_append, List.take_of_length_le (by simp; omega), natBits_length]
      congr 2; omega
    rw [htake]
    simp only [shl64, low]
    rw [Nat.mod_eq_of_lt hlowt]
    by_cases h2 : i + 1 < w.ws.length
    · have hx1 : w.ws[i + 1] < 2^64 := hw.lt _ (List.getElem_mem h2)
      have hy : w.ws[i + 1] / 2^(64 - rem) < 2^rem := div_pow_lt hx1 (by omega)
      rw [if_pos h2, List.getElem?_eq_getElem h2]
      simp only [shr]
      refine ⟨t, { i := i + 1, j := rem }, ?_, ?_, ?_⟩
      · congr 3
        rw [List.drop_eq_getElem_cons h2, flat_cons, List.append_assoc,
          List.take_append_of_le_length (by simp; omega), natBits_take (by omega), bitsNat_append,
          bitsNat_natBits, bitsNat_natBits, natBits_length, Nat.mod_eq_of_lt hy,
          lor_eq_add (Nat.mul_mod_left _ _) hy]
      · show rem ≤ 64
        omega
      · rw [if_neg (by omega), if_neg (by omega)]
        refine ⟨rfl, ?_⟩
        show 64 * (i + 1) + rem = P + t
        omega
    · rw [if_neg h2]
      refine ⟨t - rem, { i := i + 1, j := 64 }, ?_, ?_, ?_⟩
      · congr 3
        rw [List.drop_of_length_le (by omega), flat_nil, List.nil_append, zeros64, List.take_replicate,
          bitsNat_append, bitsNat_natBits, bitsNat_replicate_false, List.length_replicate, Nat.add_zero]
        congr 2; omega
      · show 64 ≤ 64
        omega
      · rw [if_neg (by omega), if_pos (by omega)]
        refine ⟨by omega, ?_⟩
        show 64 * (i + 1) + 64 = 64 * w.ws.length + 64
        omega


/-- `unchecked_read_prefix_table_idx` against the checked version when the stride stays inside the
data: same index, same reader, and the checked version reports a full stride -/
theorem urpti_eq {w : Words} {r : Reader} {t : Nat} (hw : w.WF) (hj : r.j ≤ 64) (ht1 : 1 ≤ t)
    (ht : t ≤ 64) (hfit : r.bitIdx + t ≤ w.total) :
    ∃ idx r', readPrefixTableIdx w r t = (.ok (t, idx), r')
      ∧ uncheckedReadPrefixTableIdx w r t = (.ok idx, r') := by
  obtain ⟨hb, hj', hi⟩ := refresh_props hw hj (by omega : r.bitIdx < w.total)
  have hlen := hw.total_le
  have husz : USIZE = 18446744073709551616 := rfl
  have hbi : 64 * r.refresh.i + r.refresh.j = r.bitIdx := hb
  by_cases h1 : t + r.refresh.j ≤ 64
  · refine ⟨shr (low w.ws[r.refresh.i] (64 - r.refresh.j)) (64 - (t + r.refresh.j)),
      { i := r.refresh.i, j := t + r.refresh.j }, ?_, ?_⟩
    · unfold readPrefixTableIdx
      simp only []
      rw [if_neg (by omega), if_neg (by omega), List.getElem?_eq_getElem hi, if_pos h1]
      simp only []
      rw [if_neg (by omega)]
      have e : min t (w.total - r.bitIdx) = t := by omega
      rw [e, Nat.add_comm r.refresh.j t]
    · unfold uncheckedReadPrefixTableIdx
      simp only []
      rw [if_neg (by omega), if_pos h1, List.getElem?_eq_getElem hi]
      simp only []
      rw [if_neg (by omega)]
  · have h2 : r.refresh.i + 1 < w.ws.length := by omega
    refine ⟨shl64 (low w.ws[r.refresh.i] (64 - r.refresh.j)) (t + r.refresh.j - 64)
        ||| shr w.ws[r.refresh.i + 1] (64 - (t + r.refresh.j - 64)),
      { i := r.refresh.i + 1, j := t + r.refresh.j - 64 }, ?_, ?_⟩
    · unfold readPrefixTableIdx
      simp only []
      rw [if_neg (by omega), if_neg (by omega), List.getElem?_eq_getElem hi, if_neg h1]
      simp only []
      rw [if_neg (by omega), if_pos h2, List.getElem?_eq_getElem h2]
    · unfold uncheckedReadPrefixTableIdx
      simp only []
      rw [if_neg (by omega), if_neg h1, List.getElem?_eq_getElem hi]
      simp only []
      rw [if_neg (by omega), List.getElem?_eq_getElem h2]


/-! ### the table: what `build_from_prefixes_recursive` makes of a candidate list -/

/-- candidate `i` as the recursion carries it -/
def candOf (codes : List Bits) (i : Nat) : Cand := (i, codes.getD i [])

theorem candsOf_eq (codes : List Bits) :
    candsOf codes = (List.range codes.length).map (candOf codes) := by
  apply List.ext_getElem?
  intro k
  simp only [candsOf, List.getElem?_map, List.getElem?_zipIdx]
  by_cases hk : k < codes.length
  · simp [candOf, hk]
  · rw [List.getElem?_eq_none (Nat.le_of_not_lt hk),
      List.getElem?_eq_none (by rw [List.length_range]; exact Nat.le_of_not_lt hk)]
    rfl

theorem maxDepthOf_map (codes : List Bits) (cands : List Nat) :
    maxDepthOf (cands.map (candOf codes)) = cands.foldl (fun m i => max m (codes.getD i []).length) 0 := by
  simp only [maxDepthOf, List.foldl_map, candOf]

/-- the filter of the source keeps the candidates of the abstract walk -/
theorem filter_cands (codes : List Bits) (cands : List Nat) (depth : Nat) (padded : Bits) :
    (cands.map (candOf codes)).filter (fun p => compatible depth padded p.2)
      = (nextCands codes cands depth padded.length padded).map (candOf codes) := by
  rw [List.filter_map, nextCands]
  congr 1
  apply List.filter_congr
  intro i _
  rw [Bool.eq_iff_iff]
  simp only [Function.comp, candOf, compatible_iff, List.all_eq_true, List.mem_range, Bool.or_eq_true,
    Bool.not_eq_true', decide_eq_false_iff_not, beq_iff_eq]
  constructor
  · intro h k hk
    by_cases hl : depth + k < (codes.getD i []).length
    · exact Or.inr (h k hk hl)
    · exact Or.inl hl
  · intro h k hk hl
    rcases h k hk with h' | h'
    · exact absurd hl h'
    · exact h'

theorem buildRec_single (fuel : Nat) (p : Cand) (depth : Nat) :
    buildRec (fuel + 1) [p] depth = .leaf p.1 p.2.length := rfl

theorem buildRec_many (fuel : Nat) (a b : Cand) (rest : List Cand) (depth : Nat) :
    buildRec (fuel + 1) (a :: b :: rest) depth =
      if maxDepthOf (a :: b :: rest) < depth then .bad
      else
        .node (min maxTableSizeLog (maxDepthOf (a :: b :: rest) - depth))
          ((List.range (2 ^ min maxTableSizeLog (maxDepthOf (a :: b :: rest) - depth))).map fun idx =>
            buildRec fuel ((a :: b :: rest).filter fun p =>
              compatible depth (subBits (min maxTableSizeLog (maxDepthOf (a :: b :: rest) - depth)) idx) p.2)
              (depth + min maxTableSizeLog (maxDepthOf (a :: b :: rest) - depth))) := rfl

/-- **the structure of the table along the data** (`orig`): after `depth` bits the recursion holds
exactly the candidates of the abstract walk; one candidate is a leaf, several are a node with the
walk's stride whose child number `bitsNat padded` (for any `padded` of the stride's length) is built
from the walk's next candidates. -/
theorem buildRec_shape (codes : List Bits) (hc : completeTree codes = true) (orig : Bits)
    (bf : Nat) (cands : List Nat) (depth : Nat) (s : Bits) (hinv : Inv codes orig cands depth s) :
    (∃ i, cands = [i] ∧ (codes.getD i []).length ≤ depth ∧
        buildRec (bf + 1) (cands.map (candOf codes)) depth = .leaf i (codes.getD i []).length) ∨
    (∃ children, 2 ≤ cands.length ∧ 1 ≤ tslOf codes cands depth ∧ tslOf codes cands depth ≤ 6 ∧
        depth + tslOf codes cands depth ≤ maxLen codes ∧
        buildRec (bf + 1) (cands.map (candOf codes)) depth = .node (tslOf codes cands depth) children ∧
        ∀ padded : Bits, padded.length = tslOf codes cands depth →
          children[bitsNat padded]? = some (buildRec bf
            ((nextCands codes cands depth (tslOf codes cands depth) padded).map (candOf codes))
            (depth + tslOf codes cands depth))) := by
  match cands, hinv with
  | [], hinv =>
    exfalso
    obtain ⟨i, hi, hag⟩ := exists_agree codes hc orig depth
    have := (hinv.mem i).2 ⟨hi, hag⟩
    simp at this
  | [i], hinv =>
    left
    have hi := (hinv.mem i).1 (by simp)
    have hu : ∀ i', i' < codes.length → Agree (codes.getD i' []) orig depth → i' = i := by
      intro i' h1 h2
      have := (hinv.mem i').2 ⟨h1, h2⟩
      simpa using this
    exact ⟨i, rfl, agree_unique codes hc orig depth i hi.2 hu, rfl⟩
  | a :: b :: rest, hinv =>
    right
    obtain ⟨h1, h2⟩ := tsl_bounds codes hc orig a b rest depth s hinv
    have h6 : tslOf codes (a :: b :: rest) depth ≤ 6 := by unfold tslOf strideLog; omega
    have htsl : min maxTableSizeLog (maxDepthOf ((a :: b :: rest).map (candOf codes)) - depth)
        = tslOf codes (a :: b :: rest) depth := by
      rw [maxDepthOf_map]; rfl
    have hnb : ¬ maxDepthOf ((a :: b :: rest).map (candOf codes)) < depth := by
      intro hlt
      rw [← htsl] at h1
      omega
    refine ⟨(List.range (2 ^ tslOf codes (a :: b :: rest) depth)).map fun idx =>
        buildRec bf (((a :: b :: rest).map (candOf codes)).filter fun p =>
          compatible depth (subBits (tslOf codes (a :: b :: rest) depth) idx) p.2)
          (depth + tslOf codes (a :: b :: rest) depth), by simp, h1, h6, h2, ?_, ?_⟩
    · show buildRec (bf + 1) (candOf codes a :: candOf codes b :: rest.map (candOf codes)) depth = _
      rw [buildRec_many]
      show (if maxDepthOf ((a :: b :: rest).map (candOf codes)) < depth then _ else _) = _
      rw [if_neg hnb]
      have htsl' : min maxTableSizeLog
          (maxDepthOf (candOf codes a :: candOf codes b :: List.map (candOf codes) rest) - depth)
          = tslOf codes (a :: b :: rest) depth := htsl
      rw [htsl']
      rfl
    · intro padded hp
      have hlt : bitsNat padded < 2 ^ tslOf codes (a :: b :: rest) depth := by
        rw [← hp]; exact WB.bitsNat_lt padded
      rw [List.getElem?_map, List.getElem?_range hlt, Option.map_some]
      congr 2
      have := filter_cands codes (a :: b :: rest) depth padded
      rw [hp] at this
      rw [← this, ← hp, subBits_bitsNat]


/-! ### outcomes -/

/-- what a caller can observe of a lookup: the prefix found and the reader position after it, or
"not enough data" -/
inductive Outcome where
  | ok (i : Nat) (pos : Nat)
  | insufficient
  /-- panic, or an error of another kind -/
  | other
  deriving DecidableEq, Repr

/-- outcome of the literal lookup.  An `Ok` that leaves the reader beyond `total_bits` counts as
`insufficient`: every following checked read reports `InsufficientData` (the stride crossed into a
word that does not exist, or zero padding was read as data). -/
def litOutcome (w : Words) (x : R Nat × Reader) : Outcome :=
  match x.1 with
  | .ok i => if x.2.bitIdx ≤ w.total then .ok i x.2.bitIdx else .insufficient
  | .err k => if k = "InsufficientData" then .insufficient else .other
  | .panic => .other

/-- outcome of the abstract lookup started at bit position `p` -/
def absOutcome (p : Nat) (codes : List Bits) : Res Nat → Outcome
  | .ok i _ => .ok i (p + (codes.getD i []).length)
  | .insufficient => .insufficient
  | _ => .other

theorem litOutcome_ok (w : Words) (i : Nat) (r : Reader) :
    litOutcome w (.ok i, r) = if r.bitIdx ≤ w.total then .ok i r.bitIdx else .insufficient := rfl

theorem litOutcome_insuff (w : Words) (r : Reader) :
    litOutcome w (.err "InsufficientData", r) = .insufficient := by
  simp [litOutcome]

theorem seekTo_bitIdx (x : Nat) : (Reader.seekTo x).bitIdx = x := by
  simp only [Reader.seekTo, Reader.bitIdx]; omega

theorem seekTo_j (x : Nat) : (Reader.seekTo x).j ≤ 64 := by
  simp only [Reader.seekTo]; omega

theorem searchChild_eq (w : Words) (cs : List HTable) (k rd : Nat) (r : Reader) (c : HTable)
    (h : cs[k]? = some c) : searchChild w cs k rd r = searchGo w c rd r := by
  induction cs generalizing k with
  | nil => simp at h
  | cons x xs ih =>
    cases k with
    | zero =>
      simp at h; subst h
      rw [searchChild]
    | succ k =>
      rw [searchChild]
      exact ih k (by simpa using h)

theorem uncheckedSearchChild_eq (w : Words) (cs : List HTable) (k rd : Nat) (r : Reader) (c : HTable)
    (h : cs[k]? = some c) : uncheckedSearchChild w cs k rd r = uncheckedSearchGo w c rd r := by
  induction cs generalizing k with
  | nil => simp at h
  | cons x xs ih =>
    cases k with
    | zero =>
      simp at h; subst h
      rw [uncheckedSearchChild]
    | succ k =>
      rw [uncheckedSearchChild]
      exact ih k (by simpa using h)

theorem searchGo_leaf (w : Words) (i len rd : Nat) (r : Reader) :
    searchGo w (.leaf i len) rd r = leafArm i len rd r := by rw [searchGo]

theorem searchGo_node_err (w : Words) (tsl : Nat) (children : List HTable) (rd : Nat) (r r1 : Reader)
    (k : String) (h : readPrefixTableIdx w r tsl = (.err k, r1)) :
    searchGo w (.node tsl children) rd r = (.err k, r1) := by
  rw [searchGo, h]

theorem searchGo_node_full (w : Words) (tsl : Nat) (children : List HTable) (rd : Nat) (r r1 : Reader)
    (idx : Nat) (c : HTable) (h : readPrefixTableIdx w r tsl = (.ok (tsl, idx), r1))
    (hc : children[idx]? = some c) :
    searchGo w (.node tsl children) rd r = searchGo w c (rd + tsl) r1 := by
  rw [searchGo, h]
  simp only [ne_eq, not_true_eq_false, if_false]
  exact searchChild_eq w children idx _ r1 c hc

theorem searchGo_node_short_leaf (w : Words) (tsl : Nat) (children : List HTable) (rd : Nat)
    (r r1 : Reader) (b idx i d : Nat) (h : readPrefixTableIdx w r tsl = (.ok (b, idx), r1))
    (hb : b ≠ tsl) (hc : children[idx]? = some (.leaf i d)) :
    searchGo w (.node tsl children) rd r
      = if d = rd + b then (.ok i, r1) else (.err "InsufficientData", r1) := by
  rw [searchGo, h]
  simp only [ne_eq, hb, not_false_eq_true, if_true, hc]

theorem searchGo_node_short_node (w : Words) (tsl : Nat) (children : List HTable) (rd : Nat)
    (r r1 : Reader) (b idx t' : Nat) (ch' : List HTable)
    (h : readPrefixTableIdx w r tsl = (.ok (b, idx), r1))
    (hb : b ≠ tsl) (hc : children[idx]? = some (.node t' ch')) :
    searchGo w (.node tsl children) rd r = (.err "InsufficientData", r1) := by
  rw [searchGo, h]
  simp only [ne_eq, hb, not_false_eq_true, if_true, hc]

/-- the leaf arm when the code found is no longer than the bits read: the reader ends right after
the code -/
theorem leafArm_ok (i len rd p : Nat) (r : Reader) (hl : len ≤ rd) (hr : r.bitIdx = p + rd) :
    ∃ r', leafArm i len rd r = (.ok i, r') ∧ r'.bitIdx = p + len ∧ r'.j ≤ 64 := by
  unfold leafArm rewind
  rw [if_neg (by omega), if_neg (by omega)]
  refine ⟨_, rfl, ?_, seekTo_j _⟩
  rw [seekTo_bitIdx]; omega


/-- the walk: at every level the literal lookup (on the table built from the walk's candidates) and
the abstract one have the same outcome -/
theorem walk (codes : List Bits) (hc : completeTree codes = true) (w : Words) (hw : w.WF)
    (p : Nat) (hp : p ≤ w.total) :
    ∀ bf cands depth j s (r : Reader), Inv codes (w.toBits.drop p) cands depth s →
      maxLen codes + 1 ≤ bf + depth → r.j ≤ 64 → r.bitIdx = p + depth →
      j % 64 = (p + depth) % 64 →
      litOutcome w (searchGo w (buildRec bf (cands.map (candOf codes)) depth) depth r)
        = absOutcome p codes (matchStrideGo codes (bf + 1) cands depth j s (w.toBits.drop p)) := by
  have hol : (w.toBits.drop p).length = w.total - p := by rw [List.length_drop, hw.toBits_length]
  intro bf
  induction bf with
  | zero =>
    intro cands depth j s r hinv hf
    exfalso; have := hinv.depth_le; omega
  | succ bf ih =>
    intro cands depth j s r hinv hf hj hr hjm
    rcases buildRec_shape codes hc _ bf cands depth s hinv with
      ⟨i, rfl, hlen, hb⟩ | ⟨children, h2, h1, h6, hM, hb, hch⟩
    · -- a leaf
      rw [hb, searchGo_leaf, go_single]
      obtain ⟨r', e, hpos, _⟩ := leafArm_ok i _ depth p r hlen hr
      rw [e, litOutcome_ok, hpos, hol]
      by_cases hgt : (codes.getD i []).length > w.total - p
      · rw [if_pos hgt, if_neg (by omega)]; rfl
      · rw [if_neg hgt, if_pos (by omega)]; rfl
    · -- a node
      match cands, hinv, h2 with
      | a :: b :: rest, hinv, _ =>
      rw [hb, go_many]
      have hnext := inv_step codes _ (a :: b :: rest) depth s _ hinv hM
      have hsl : s.length = w.total - (p + depth) := by
        rw [hinv.s_eq, List.length_drop, hol]; omega
      have hs_eq : s = w.toBits.drop r.bitIdx := by
        rw [hinv.s_eq, List.drop_drop, hr]
      generalize tslOf codes (a :: b :: rest) depth = tsl at *
      simp only []
      by_cases hs : s.isEmpty = true
      · -- no data left
        rw [if_pos hs]
        have hs0 : s.length = 0 := by simpa using hs
        rw [searchGo_node_err w tsl children depth r r _ (rpti_end (by omega)), litOutcome_insuff]
        rfl
      rw [if_neg hs]
      have hs0 : 0 < s.length := by
        cases s with
        | nil => simp at hs
        | cons _ _ => simp
      obtain ⟨bitsRead, r', hrd, hj', hcase⟩ := rpti_spec hw hj (by omega : r.bitIdx < w.total) h1
        (by omega : tsl ≤ 64)
      rw [← hs_eq] at hrd
      have hchild := hch (paddedOf s tsl) (paddedOf_length s tsl)
      have hjm' : j % 64 = r.bitIdx % 64 := by rw [hjm, hr]
      rw [← hjm'] at hcase
      -- the child the short reads look at: a leaf or a node
      have hbf : 1 ≤ bf := by omega
      obtain ⟨bf', rfl⟩ : ∃ bf', bf = bf' + 1 := ⟨bf - 1, by omega⟩
      have hshape := buildRec_shape codes hc _ bf' _ (depth + tsl) (s.drop tsl) hnext
      by_cases hcr : j % 64 + tsl ≤ 64
      · -- the stride stays in the current word
        rw [if_pos hcr] at hcase
        obtain ⟨hbr, hpos⟩ := hcase
        have hdec : decide (j % 64 + tsl > 64) = false := by simp; omega
        rw [hdec]
        simp only [Bool.false_and, Bool.false_eq_true, if_false, List.length_take]
        have hbr' : min tsl s.length = bitsRead := by rw [hbr, hsl, hr]
        rw [hbr']
        by_cases hne : bitsRead ≠ tsl
        · rw [if_pos hne]
          rcases hshape with ⟨i, hci, _, hbi⟩ | ⟨ch', h2', _, _, _, hbi, _⟩
          · rw [hbi] at hchild
            rw [searchGo_node_short_leaf w tsl children depth r r' bitsRead _ i _ hrd hne hchild, hci]
            simp only []
            by_cases hl : (codes.getD i []).length = depth + bitsRead
            · rw [if_pos hl, if_pos hl, litOutcome_ok, if_pos (by omega)]
              show Outcome.ok i r'.bitIdx = Outcome.ok i (p + (codes.getD i []).length)
              rw [hpos, hl, hr]; congr 1; omega
            · rw [if_neg hl, if_neg hl, litOutcome_insuff]; rfl
          · rw [hbi] at hchild
            rw [searchGo_node_short_node w tsl children depth r r' bitsRead _ _ _ hrd hne hchild,
              litOutcome_insuff]
            match hnc : nextCands codes (a :: b :: rest) depth tsl (paddedOf s tsl), h2' with
            | x :: y :: zs, _ => rfl
        · rw [if_neg hne]
          have hfull : bitsRead = tsl := by omega
          rw [hfull] at hrd hpos
          rw [searchGo_node_full w tsl children depth r r' _ _ hrd hchild]
          exact ih _ _ _ _ r' hnext (by omega) hj' (by omega) (by omega)
      · rw [if_neg hcr] at hcase
        have hdec : decide (j % 64 + tsl > 64) = true := by simp; omega
        rw [hdec]
        simp only [Bool.true_and, if_true, ne_eq, not_true_eq_false, if_false]
        have hbi64 : r.bitIdx = 64 * (r.bitIdx / 64) + j % 64 := by omega
        by_cases hlast : w.total ≤ 64 * (r.bitIdx / 64 + 1)
        · -- the stride crosses into a word that does not exist
          rw [if_pos hlast] at hcase
          obtain ⟨hbr, hpos⟩ := hcase
          have hemp : (s.drop (64 - j % 64)).isEmpty = true := by
            simp only [List.isEmpty_iff, List.drop_eq_nil_iff]; omega
          rw [if_pos hemp]
          have hne : bitsRead ≠ tsl := by omega
          have hbeyond : ¬ r'.bitIdx ≤ w.total := by have := hw.total_le; omega
          rcases hshape with ⟨i, hci, _, hbi⟩ | ⟨ch', h2', _, _, _, hbi, _⟩
          · rw [hbi] at hchild
            rw [searchGo_node_short_leaf w tsl children depth r r' bitsRead _ i _ hrd hne hchild]
            split
            · rw [litOutcome_ok, if_neg hbeyond]; rfl
            · rw [litOutcome_insuff]; rfl
          · rw [hbi] at hchild
            rw [searchGo_node_short_node w tsl children depth r r' bitsRead _ _ _ hrd hne hchild,
              litOutcome_insuff]
            rfl
        · -- the stride crosses into the next word (possibly reading padding)
          rw [if_neg hlast] at hcase
          obtain ⟨hbr, hpos⟩ := hcase
          have hemp : ¬ (s.drop (64 - j % 64)).isEmpty = true := by
            simp only [List.isEmpty_iff, List.drop_eq_nil_iff]; omega
          rw [if_neg hemp]
          rw [hbr] at hrd
          rw [searchGo_node_full w tsl children depth r r' _ _ hrd hchild]
          exact ih _ _ _ _ r' hnext (by omega) hj' (by omega) (by omega)


theorem codes_ne_nil_of_complete {codes : List Bits} (hc : completeTree codes = true) : codes ≠ [] := by
  intro h; subst h; revert hc; decide

theorem build_eq {codes : List Bits} (hc : completeTree codes = true) :
    build codes = buildRec (maxLen codes + 1) ((List.range codes.length).map (candOf codes)) 0 := by
  have hne := codes_ne_nil_of_complete hc
  unfold build
  rw [if_neg (by simpa using hne), candsOf_eq]

/-- **HT1**, outcome form: on a complete code table the literal lookup — `search_with_reader` on the
table made by `HuffmanTable::from`, reading the words through `read_prefix_table_idx` — and the
abstract `matchStride` have the same outcome. -/
theorem search_outcome (codes : List Bits) (hc : completeTree codes = true) (w : Words) (hw : w.WF)
    (r : Reader) (hr : RInv w r) :
    litOutcome w (search (build codes) w r)
      = absOutcome r.bitIdx codes (matchStride r.bitIdx codes (w.toBits.drop r.bitIdx)) := by
  rw [build_eq hc]
  exact walk codes hc w hw r.bitIdx hr.pos_le (maxLen codes + 1) (List.range codes.length) 0
    (r.bitIdx % 64) _ r (inv_init codes _) (by omega) hr.j_le rfl (by omega)

/-- **HT1**, spelled out.  With `p` the reader position and `s` the data left:
* `matchStride` answers `ok i rest` iff the literal lookup returns `Ok(prefix i)` with the reader
  right after the code, inside the data; then `rest` is `s` without the code;
* `matchStride` answers `insufficient` iff the literal lookup returns `InsufficientData`, or returns
  `Ok` with the reader beyond `total_bits` (poisoned: every following checked read fails);
* the literal lookup never panics (no index out of range, no overflow) and reports no other error;
  `matchStride` answers nothing else. -/
theorem search_spec (codes : List Bits) (hc : completeTree codes = true) (w : Words) (hw : w.WF)
    (r : Reader) (hr : RInv w r) :
    (∀ i rest, matchStride r.bitIdx codes (w.toBits.drop r.bitIdx) = .ok i rest ↔
      (search (build codes) w r).1 = .ok i
        ∧ (search (build codes) w r).2.bitIdx = r.bitIdx + (codes.getD i []).length
        ∧ (search (build codes) w r).2.bitIdx ≤ w.total
        ∧ rest = (w.toBits.drop r.bitIdx).drop (codes.getD i []).length)
    ∧ (matchStride r.bitIdx codes (w.toBits.drop r.bitIdx) = .insufficient ↔
        (search (build codes) w r).1 = .err "InsufficientData"
          ∨ ∃ i, (search (build codes) w r).1 = .ok i ∧ w.total < (search (build codes) w r).2.bitIdx)
    ∧ (search (build codes) w r).1 ≠ .panic
    ∧ (∀ k, (search (build codes) w r).1 = .err k → k = "InsufficientData")
    ∧ ((∃ i rest, matchStride r.bitIdx codes (w.toBits.drop r.bitIdx) = .ok i rest)
        ∨ matchStride r.bitIdx codes (w.toBits.drop r.bitIdx) = .insufficient) := by
  have ho := search_outcome codes hc w hw r hr
  have hspec := (matchStride_spec r.bitIdx codes hc (w.toBits.drop r.bitIdx)).1
  generalize search (build codes) w r = x at *
  obtain ⟨x1, x2⟩ := x
  generalize w.toBits.drop r.bitIdx = s at *
  generalize hm : matchStride r.bitIdx codes s = m at *
  simp only [litOutcome] at ho
  dsimp only
  rcases hspec with hspec | ⟨i', hi', hpre, hspec⟩
  · -- the abstract lookup says `insufficient`
    subst hspec
    simp only [absOutcome] at ho
    refine ⟨?_, ?_, ?_, ?_, Or.inr rfl⟩
    · intro i rest
      constructor
      · intro h; cases h
      · rintro ⟨h1, _, h3, _⟩
        rw [h1] at ho
        simp only [h3, if_true] at ho
        cases ho
    · constructor
      · intro _
        match x1, ho with
        | .ok i, ho =>
          right
          refine ⟨i, rfl, ?_⟩
          apply Nat.lt_of_not_le
          intro hle
          simp only [hle, if_true] at ho
          cases ho
        | .err k, ho =>
          left
          by_cases hk : k = "InsufficientData"
          · rw [hk]
          · simp only [hk, if_false] at ho
            cases ho
        | .panic, ho => cases ho
      · intro _; rfl
    · intro h; rw [h] at ho; cases ho
    · intro k h
      rw [h] at ho
      by_cases hk : k = "InsufficientData"
      · exact hk
      · simp only [hk, if_false] at ho
        cases ho
  · -- the abstract lookup finds code `i'`
    subst hspec
    simp only [absOutcome] at ho
    have hx : x1 = .ok i' ∧ x2.bitIdx ≤ w.total ∧ x2.bitIdx = r.bitIdx + (codes.getD i' []).length := by
      match x1, ho with
      | .ok i, ho =>
        by_cases hle : x2.bitIdx ≤ w.total
        · simp only [hle, if_true] at ho
          injection ho with h1 h2
          exact ⟨by rw [h1], hle, h2⟩
        · simp only [hle, if_false] at ho
          cases ho
      | .err k, ho =>
        by_cases hk : k = "InsufficientData"
        · simp only [hk, if_true] at ho; cases ho
        · simp only [hk, if_false] at ho; cases ho
      | .panic, ho => cases ho
    obtain ⟨hx1, hx2, hx3⟩ := hx
    subst hx1
    refine ⟨?_, ?_, ?_, ?_, Or.inl ⟨_, _, rfl⟩⟩
    · intro i rest
      constructor
      · intro h
        injection h with h1 h2
        subst h1
        rw [getD_code codes i' hi']
        refine ⟨rfl, ?_, hx2, h2.symm⟩
        rw [hx3, getD_code codes i' hi']
      · rintro ⟨h1, _, _, h4⟩
        injection h1 with h1
        subst h1
        rw [h4, getD_code codes i' hi']
    · constructor
      · intro h; cases h
      · rintro (h | ⟨i, _, h⟩)
        · cases h
        · omega
    · intro h; cases h
    · intro k h; cases h


/-! ### the unchecked lookup -/

theorem uncheckedSearchGo_leaf (w : Words) (i len rd : Nat) (r : Reader) :
    uncheckedSearchGo w (.leaf i len) rd r = leafArm i len rd r := by rw [uncheckedSearchGo]

theorem uncheckedSearchGo_node (w : Words) (tsl : Nat) (children : List HTable) (rd : Nat)
    (r r1 : Reader) (idx : Nat) (c : HTable) (h : uncheckedReadPrefixTableIdx w r tsl = (.ok idx, r1))
    (hc : children[idx]? = some c) :
    uncheckedSearchGo w (.node tsl children) rd r = uncheckedSearchGo w c (rd + tsl) r1 := by
  rw [uncheckedSearchGo, h]
  exact uncheckedSearchChild_eq w children idx _ r1 c hc

/-- along the walk towards a code followed by five more bits, every stride lies inside the data and
the unchecked loop does what the checked one does -/
theorem uwalk (codes : List Bits) (hc : completeTree codes = true) (w : Words) (hw : w.WF)
    (p : Nat) (i0 : Nat) (hi0 : i0 < codes.length) (hpre : codes.getD i0 [] <+: w.toBits.drop p)
    (hslack : (codes.getD i0 []).length + 5 ≤ (w.toBits.drop p).length) :
    ∀ bf cands depth s (r : Reader), Inv codes (w.toBits.drop p) cands depth s →
      maxLen codes + 1 ≤ bf + depth → r.j ≤ 64 → r.bitIdx = p + depth →
      uncheckedSearchGo w (buildRec bf (cands.map (candOf codes)) depth) depth r
        = searchGo w (buildRec bf (cands.map (candOf codes)) depth) depth r := by
  have hol : (w.toBits.drop p).length = w.total - p := by rw [List.length_drop, hw.toBits_length]
  intro bf
  induction bf with
  | zero =>
    intro cands depth s r hinv hf
    exfalso; have := hinv.depth_le; omega
  | succ bf ih =>
    intro cands depth s r hinv hf hj hr
    rcases buildRec_shape codes hc _ bf cands depth s hinv with
      ⟨i, rfl, hlen, hb⟩ | ⟨children, h2, h1, h6, hM, hb, hch⟩
    · rw [hb, searchGo_leaf, uncheckedSearchGo_leaf]
    · match cands, hinv, h2 with
      | a :: b :: rest, hinv, _ =>
      have hab : a ≠ b := by
        have := hinv.nodup
        rw [List.nodup_cons] at this
        intro h; apply this.1; rw [h]; simp
      have ha := (hinv.mem a).1 (by simp)
      have hb' := (hinv.mem b).1 (by simp)
      have hag := agree_of_prefix hpre depth
      have hdeep : depth < (codes.getD i0 []).length := by
        by_cases hia : i0 = a
        · subst hia; exact agree_two codes hc _ depth i0 b hi0 hb'.1 hab hag hb'.2
        · exact agree_two codes hc _ depth i0 a hi0 ha.1 hia hag ha.2
      have hnext := inv_step codes _ (a :: b :: rest) depth s _ hinv hM
      have hs_eq : s = w.toBits.drop r.bitIdx := by
        rw [hinv.s_eq, List.drop_drop, hr]
      rw [hb]
      generalize tslOf codes (a :: b :: rest) depth = tsl at *
      have hfit : r.bitIdx + tsl ≤ w.total := by omega
      obtain ⟨idx, r', hck, hun⟩ := urpti_eq hw hj h1 (by omega : tsl ≤ 64) hfit
      obtain ⟨bitsRead, r'', hrd, hj', hcase⟩ := rpti_spec hw hj (by omega : r.bitIdx < w.total) h1
        (by omega : tsl ≤ 64)
      rw [hck] at hrd
      injection hrd with e1 e2
      injection e1 with e1
      injection e1 with e3 e4
      subst e2; subst e3
      rw [← hs_eq] at e4
      have hchild := hch (paddedOf s tsl) (paddedOf_length s tsl)
      rw [← e4] at hchild
      have hpos : r'.bitIdx = r.bitIdx + tsl := by
        split at hcase
        · omega
        · split at hcase
          · omega
          · exact hcase.2
      rw [searchGo_node_full w tsl children depth r r' idx _ hck hchild,
        uncheckedSearchGo_node w tsl children depth r r' idx _ hun hchild]
      exact ih _ _ _ r' hnext (by omega) hj' (by omega)

/-- **HT2**: when the code at the reader position is followed by at least five more bits of data
(`code ++ 5 bits ≤ data left`; the fast path of the decoder only runs with far more slack), the
unchecked lookup `unchecked_search_with_reader` does exactly what the checked one does — same
prefix, same reader, no index out of range — and both find that code and leave the reader right
after it. -/
theorem uncheckedSearch_eq (codes : List Bits) (hc : completeTree codes = true) (w : Words) (hw : w.WF)
    (r : Reader) (hr : RInv w r) (i : Nat) (hi : i < codes.length)
    (hpre : codes[i] <+: w.toBits.drop r.bitIdx)
    (hslack : r.bitIdx + codes[i].length + 5 ≤ w.total) :
    uncheckedSearch (build codes) w r = search (build codes) w r
    ∧ ∃ r', search (build codes) w r = (.ok i, r') ∧ r'.bitIdx = r.bitIdx + codes[i].length := by
  have hol : (w.toBits.drop r.bitIdx).length = w.total - r.bitIdx := by
    rw [List.length_drop, hw.toBits_length]
  constructor
  · rw [build_eq hc]
    exact uwalk codes hc w hw r.bitIdx i hi (by rw [getD_code codes i hi]; exact hpre)
      (by rw [getD_code codes i hi, hol]; omega) (maxLen codes + 1) (List.range codes.length) 0 _ r
      (inv_init codes _) (by omega) hr.j_le rfl
  · have hm := matchStride_eager_with_slack r.bitIdx codes _ i _ hc
      (matchCode_of_prefix codes hc _ i hi hpre)
      (by rw [List.length_drop, hol]; unfold lookahead; omega)
    obtain ⟨h1, h2, _, _⟩ := ((search_spec codes hc w hw r hr).1 i _).1 hm
    rw [getD_code codes i hi] at h2
    refine ⟨(search (build codes) w r).2, ?_, h2⟩
    rw [← h1]


/-- the reader stays normalised (`j ≤ 64`) through the lookup, whatever the outcome -/
theorem walk_j (codes : List Bits) (hc : completeTree codes = true) (w : Words) (hw : w.WF) (p : Nat) :
    ∀ bf cands depth s (r : Reader), Inv codes (w.toBits.drop p) cands depth s →
      maxLen codes + 1 ≤ bf + depth → r.j ≤ 64 → r.bitIdx = p + depth →
      (searchGo w (buildRec bf (cands.map (candOf codes)) depth) depth r).2.j ≤ 64 := by
  intro bf
  induction bf with
  | zero =>
    intro cands depth s r hinv hf
    exfalso; have := hinv.depth_le; omega
  | succ bf ih =>
    intro cands depth s r hinv hf hj hr
    rcases buildRec_shape codes hc _ bf cands depth s hinv with
      ⟨i, rfl, hlen, hb⟩ | ⟨children, h2, h1, h6, hM, hb, hch⟩
    · rw [hb, searchGo_leaf]
      obtain ⟨r', e, _, hj'⟩ := leafArm_ok i _ depth p r hlen hr
      rw [e]; exact hj'
    · rw [hb]
      have hnext := inv_step codes _ cands depth s _ hinv hM
      have hs_eq : s = w.toBits.drop r.bitIdx := by
        rw [hinv.s_eq, List.drop_drop, hr]
      generalize tslOf codes cands depth = tsl at *
      by_cases hend : w.total ≤ r.bitIdx
      · rw [searchGo_node_err w tsl children depth r r _ (rpti_end hend)]
        exact hj
      obtain ⟨bitsRead, r', hrd, hj', hcase⟩ := rpti_spec hw hj (by omega : r.bitIdx < w.total) h1
        (by omega : tsl ≤ 64)
      rw [← hs_eq] at hrd
      have hchild := hch (paddedOf s tsl) (paddedOf_length s tsl)
      by_cases hne : bitsRead ≠ tsl
      · obtain ⟨bf', rfl⟩ : ∃ bf', bf = bf' + 1 := ⟨bf - 1, by omega⟩
        rcases buildRec_shape codes hc _ bf' _ (depth + tsl) (s.drop tsl) hnext with
          ⟨i, _, _, hbi⟩ | ⟨ch', _, _, _, _, hbi, _⟩
        · rw [hbi] at hchild
          rw [searchGo_node_short_leaf w tsl children depth r r' bitsRead _ i _ hrd hne hchild]
          split <;> exact hj'
        · rw [hbi] at hchild
          rw [searchGo_node_short_node w tsl children depth r r' bitsRead _ _ _ hrd hne hchild]
          exact hj'
      · have hfull : bitsRead = tsl := by omega
        subst hfull
        have hpos : r'.bitIdx = r.bitIdx + bitsRead := by
          split at hcase
          · omega
          · split at hcase
            · omega
            · exact hcase.2
        rw [searchGo_node_full w bitsRead children depth r r' _ _ hrd hchild]
        exact ih _ _ _ r' hnext (by omega) hj' (by omega)

/-- after a lookup that leaves the reader inside the data the reader invariant holds again (the
following reads of the unit — offset bits, run length — start from a good reader) -/
theorem search_rinv (codes : List Bits) (hc : completeTree codes = true) (w : Words) (hw : w.WF)
    (r : Reader) (hr : RInv w r) (h : (search (build codes) w r).2.bitIdx ≤ w.total) :
    RInv w (search (build codes) w r).2 := by
  refine ⟨?_, h⟩
  rw [build_eq hc]
  exact walk_j codes hc w hw r.bitIdx (maxLen codes + 1) (List.range codes.length) 0 _ r
    (inv_init codes _) (by omega) hr.j_le rfl


/-! ### sanity checks: the two lookups run side by side -/

/-- both lookups at bit position `p` of `w` -/
def sideBySide (codes : List Bits) (w : Words) (p : Nat) : Outcome × Outcome :=
  (litOutcome w (search (build codes) w (Reader.seekTo p)),
   absOutcome p codes (matchStride p codes (w.toBits.drop p)))

/-- same outcome at every position of the data -/
def agreeEverywhere (codes : List Bits) (bytes : List Nat) : Bool :=
  let w := Words.extend {} bytes
  (List.range (w.total + 1)).all fun p => (sideBySide codes w p).1 == (sideBySide codes w p).2

/-- unchecked = checked wherever six bits follow -/
def uncheckedAgrees (codes : List Bits) (bytes : List Nat) : Bool :=
  let w := Words.extend {} bytes
  (List.range (w.total + 1)).all fun p =>
    match matchStride p codes (w.toBits.drop p) with
    | .ok _ rest => decide (rest.length < 5) ||
        uncheckedSearch (build codes) w (Reader.seekTo p) == search (build codes) w (Reader.seekTo p)
    | _ => true

/-- codes `0, 10, 110, 111` -/
def cex : List Bits := [[false], [true, false], [true, true, false], [true, true, true]]
/-- a unary code of depth 9: two table levels (6 + 3) -/
def unary9 : List Bits :=
  (List.range 9).map (fun k => List.replicate k true ++ [false]) ++ [List.replicate 9 true]
/-- a balanced code of depth 7: levels 6 + 1 -/
def flat7 : List Bits := (List.range 128).map (natBits 7)

#guard completeTree cex && completeTree unary9 && completeTree flat7

-- the non-monotone example: data `0`, `01`, `010` (one, two, three bits)
#guard sideBySide cex { ws := [0], total := 1 } 0 = (.ok 0 1, .ok 0 1)
#guard sideBySide cex { ws := [2^62], total := 2 } 0 = (.insufficient, .insufficient)
#guard sideBySide cex { ws := [2^62], total := 3 } 0 = (.ok 0 1, .ok 0 1)
#guard search (build cex) { ws := [2^62], total := 2 } {} = (.err "InsufficientData", { i := 0, j := 2 })

-- the stride crosses into a word that does not exist: `Ok`, reader parked beyond the data
#guard search (build cex) (Words.extend {} [0, 0, 0, 0, 0, 0, 0, 2]) (Reader.seekTo 62)
  = (.ok 1, { i := 1, j := 64 })
#guard sideBySide cex (Words.extend {} [0, 0, 0, 0, 0, 0, 0, 2]) 62 = (.insufficient, .insufficient)
-- zero padding read as data (only possible when the data do not end on a byte: with whole bytes a
-- next word holds at least eight bits and a stride puts at most five bits into it): data `11`,
-- stride three across the word boundary reads `110`
#guard search (build cex) { ws := [1, 2^63], total := 65 } (Reader.seekTo 63) = (.ok 2, { i := 1, j := 2 })
#guard sideBySide cex { ws := [1, 2^63], total := 65 } 63 = (.insufficient, .insufficient)

#guard agreeEverywhere cex [0x5a, 0xc3, 0x0f, 0xff, 0x00, 0x81, 0x7e, 0xe7]
#guard agreeEverywhere cex [0x5a, 0xc3, 0x0f, 0xff, 0x00, 0x81, 0x7e, 0xe7, 0x01]
#guard agreeEverywhere cex [0xff, 0xff, 0xff, 0xff, 0xff, 0xff, 0xff, 0xff, 0xff, 0xfe]
#guard agreeEverywhere unary9 [0xff, 0xff, 0xff, 0xff, 0xff, 0xff, 0xff, 0xff, 0xff, 0xfe]
#guard agreeEverywhere unary9 [0xff, 0x7f, 0xbf, 0xff, 0xc0, 0xff, 0xff, 0xfd, 0xff, 0x80, 0x12, 0xff, 0xff, 0xff, 0xff, 0xff]
#guard agreeEverywhere unary9 [0xff, 0xff, 0xff, 0xff, 0xff, 0xff, 0xff, 0xff]
#guard agreeEverywhere flat7 [0x12, 0x34, 0x56, 0x78, 0x9a, 0xbc, 0xde, 0xf0, 0x0f, 0x1e, 0x2d]
#guard agreeEverywhere flat7 [0x12, 0x34, 0x56, 0x78, 0x9a, 0xbc, 0xde, 0xf0]
#guard agreeEverywhere [[]] [0x12, 0x34]
#guard uncheckedAgrees cex [0x5a, 0xc3, 0x0f, 0xff, 0x00, 0x81, 0x7e, 0xe7, 0x01]
#guard uncheckedAgrees unary9 [0xff, 0x7f, 0xbf, 0xff, 0xc0, 0xff, 0xff, 0xfd, 0xff, 0x80, 0x12, 0xff, 0xff, 0xff, 0xff, 0xff]
#guard uncheckedAgrees flat7 [0x12, 0x34, 0x56, 0x78, 0x9a, 0xbc, 0xde, 0xf0, 0x0f, 0x1e, 0x2d]

end HT
end Qco
