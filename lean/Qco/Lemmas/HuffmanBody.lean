/-
Sums over the blocks of a body, grouped by prefix index: with truthful counts,
`Σ_blocks f(prefix of the block) = Σ_prefixes count · f(prefix)`. Used by `Qco/Properties/C14h.lean`
to turn the bits spent on codes in a body into a weighted code length.
-/
import Qco.Lemmas.Sizes
import Qco.Lemmas.Tree
namespace Qco

/-! ### sums over blocks, grouped by prefix -/

theorem sum_range_ite_of_le (f : Nat → Nat) (q : Nat) : ∀ n, n ≤ q →
    ((List.range n).map fun p => if q = p then f p else 0).sum = 0
  | 0, _ => rfl
  | n + 1, h => by
    rw [List.range_succ, List.map_append, List.sum_append, sum_range_ite_of_le f q n (by omega)]
    have : q ≠ n := by omega
    simp [this]

theorem sum_range_ite (f : Nat → Nat) (q : Nat) : ∀ n, q < n →
    ((List.range n).map fun p => if q = p then f p else 0).sum = f q
  | 0, h => by omega
  | n + 1, h => by
    rw [List.range_succ, List.map_append, List.sum_append]
    rcases Nat.lt_or_ge q n with hlt | hge
    · rw [sum_range_ite f q n hlt]
      have : q ≠ n := by omega
      simp [this]
    · have : q = n := by omega
      subst this
      rw [sum_range_ite_of_le f q q (Nat.le_refl _)]
      simp

/-- a sum over blocks of a function of the prefix index, grouped by prefix index -/
theorem sum_by_pidx (n : Nat) (f : Nat → Nat) : ∀ bs : List Block, (∀ b ∈ bs, b.pidx < n) →
    (bs.map fun b => f b.pidx).sum
      = ((List.range n).map fun p => (bs.filter fun b => b.pidx == p).length * f p).sum
  | [], _ => by
    have : ((List.range n).map fun p => ([].filter fun b : Block => b.pidx == p).length * f p)
        = (List.range n).map fun _ => 0 := by
      apply List.map_congr_left; intro p _; simp
    rw [this]
    induction List.range n with
    | nil => rfl
    | cons _ _ ih => simpa using ih
  | b :: bs, h => by
    have ih := sum_by_pidx n f bs fun b' hb' => h b' (List.mem_cons_of_mem _ hb')
    have hb : b.pidx < n := h b List.mem_cons_self
    have e : ((List.range n).map fun p => ((b :: bs).filter fun b => b.pidx == p).length * f p)
        = (List.range n).map fun p =>
            (bs.filter fun b => b.pidx == p).length * f p + (if b.pidx = p then f p else 0) := by
      apply List.map_congr_left
      intro p _
      by_cases hp : b.pidx = p
      · simp [hp, Nat.add_mul]
      · simp [hp]
    rw [e, sum_map_add, ← ih, sum_range_ite f b.pidx n hb]
    simp only [List.map_cons, List.sum_cons]
    omega

theorem range_map_eq {α β : Type} (ps : List α) (F : Nat → β) (G : α → β)
    (h : ∀ i (hi : i < ps.length), F i = G ps[i]) : (List.range ps.length).map F = ps.map G := by
  apply List.ext_getElem
  · simp
  · intro i h1 h2
    have hi : i < ps.length := by simpa using h1
    simp [h i hi]

/-- with truthful counts, a sum over the blocks is a count-weighted sum over the table -/
theorem sum_blocks_eq (ps : List Prefix) (bs : List Block) (f : Nat → Nat) (g : Prefix → Nat)
    (hfg : ∀ p (hp : p < ps.length), f p = g ps[p])
    (hidx : ∀ b ∈ bs, b.pidx < ps.length)
    (hcount : ∀ p (hp : p < ps.length), (bs.filter fun b => b.pidx == p).length = ps[p].count) :
    (bs.map fun b => f b.pidx).sum = (ps.map fun q => q.count * g q).sum := by
  rw [sum_by_pidx ps.length f bs hidx]
  congr 1
  apply range_map_eq
  intro i hi
  rw [hcount i hi, hfg i hi]

theorem tableOf_code (ps : List Prefix) (p : Nat) (hp : p < ps.length) :
    (tableOf ps).code p = ps[p].code := by
  simp [tableOf, Table.code, List.getD_eq_getElem?_getD, hp]

end Qco
