/-
A heavy symbol is shallow in every Huffman run.

For the weights `ws` and a symbol `r` that weighs strictly more than half of all the others together
(`(ws.eraseIdx r).sum < 2 * ws[r]`; NOT "more than the others together"), every tree that
`make_huffman_code` can build (`HuffRun`: any tie-breaking, any order of the forest) has the leaf of
`r` at depth at most 2: its code has at most 2 bits (`HuffCode.heavy_length_le_two`).

Why: as long as `r` is a bare leaf of the forest its depth is 0. At the step that merges it, it is
the minimum `a` (then every other tree weighs at least `ws[r]`) or the second minimum `b` (then every
tree of the rest does). The other trees weigh less than `2 · ws[r]` together, so at most one tree is
left beside the new node: at most one more merge follows.

Also: with at least two symbols every code has at least one bit (`HuffCode.length_pos`).

In the library the only symbol whose weight is not its count is the range with a run-length
jumpstart: its weight is an estimate of its number of runs, which exceeds half the total count of the
other ranges; this file is what bounds its code (see `Qco/Properties/C18s.lean`).
-/
import Qco.Lemmas.HuffmanOpt
namespace Qco
open Huff

/-! ### lists -/

theorem perm_getElem_cons_eraseIdx {α : Type} : ∀ (l : List α) (i : Nat) (h : i < l.length),
    l.Perm (l[i] :: l.eraseIdx i)
  | a :: l, 0, _ => .refl _
  | a :: l, i + 1, h => by
    have ih := perm_getElem_cons_eraseIdx l i (by simpa using h)
    simp only [List.getElem_cons_succ, List.eraseIdx_cons_succ]
    exact (ih.cons a).trans (.swap ..)

theorem map_eraseIdx' {α β : Type} (f : α → β) : ∀ (l : List α) (i : Nat),
    (l.eraseIdx i).map f = (l.map f).eraseIdx i
  | [], _ => rfl
  | a :: l, 0 => rfl
  | a :: l, i + 1 => by simp [map_eraseIdx' f l i]

/-- `Σ ws = ws[r] + Σ_{i ≠ r} ws[i]` -/
theorem sum_eq_getElem_add_eraseIdx (ws : List Nat) (r : Nat) (h : r < ws.length) :
    ws.sum = ws[r] + (ws.eraseIdx r).sum := by
  rw [(perm_getElem_cons_eraseIdx ws r h).sum_nat]; simp

/-- trees that all weigh at least `w > 0`, and together less than `2 w`: at most one -/
theorem length_le_one_of_heavy (w : Nat) : ∀ (R : List HTree), (∀ u ∈ R, w ≤ u.weight) →
    (R.map HTree.weight).sum < 2 * w → R.length ≤ 1
  | [], _, _ => by simp
  | [_], _, _ => by simp
  | a :: b :: R, h, hs => by
    have h1 := h a (by simp)
    have h2 := h b (by simp)
    simp only [List.map_cons, List.sum_cons] at hs
    omega

/-! ### where a symbol sits in a tree -/

namespace HTree

/-- no leaf of `u` carries the symbol `r` -/
def NoId (r : Nat) (u : HTree) : Prop := ∀ acc, ∀ x ∈ u.leaves acc, x.1 ≠ r

/-- every leaf of `u` that carries the symbol `r` is at depth at most `D` -/
def Shallow (r D : Nat) (u : HTree) : Prop :=
  ∀ acc, ∀ x ∈ u.leaves acc, x.1 = r → x.2.2.length ≤ acc.length + D

theorem NoId.shallow {r : Nat} {u : HTree} (h : NoId r u) (D : Nat) : Shallow r D u :=
  fun acc x hx e => absurd e (h acc x hx)

theorem Shallow.mono {r D D' : Nat} {u : HTree} (h : Shallow r D u) (hD : D ≤ D') : Shallow r D' u :=
  fun acc x hx e => Nat.le_trans (h acc x hx e) (by omega)

theorem shallow_leaf (r i w : Nat) : Shallow r 0 (leaf i w) := by
  intro acc x hx _
  simp only [leaves, List.mem_singleton] at hx
  subst hx; simp

theorem noId_leaf {r i : Nat} (w : Nat) (h : i ≠ r) : NoId r (leaf i w) := by
  intro acc x hx
  simp only [leaves, List.mem_singleton] at hx
  subst hx; exact h

theorem NoId.node {r : Nat} {a b : HTree} (ha : NoId r a) (hb : NoId r b) : NoId r (node a b) := by
  intro acc x hx
  simp only [leaves, List.mem_append] at hx
  rcases hx with hx | hx
  · exact ha _ x hx
  · exact hb _ x hx

/-- a merge puts its two trees one level deeper -/
theorem Shallow.node {r D : Nat} {a b : HTree} (ha : Shallow r D a) (hb : Shallow r D b) :
    Shallow r (D + 1) (node a b) := by
  intro acc x hx e
  simp only [leaves, List.mem_append] at hx
  rcases hx with hx | hx
  · have := ha _ x hx e
    simp only [List.length_append, List.length_singleton] at this
    omega
  · have := hb _ x hx e
    simp only [List.length_append, List.length_singleton] at this
    omega

end HTree

open HTree

/-! ### the two phases of a run -/

/-- phase 1: `r` is still a bare leaf of weight `w`, the other trees do not contain it and weigh
less than `2 w` together -/
def HeavyBare (r w : Nat) (F : List HTree) : Prop :=
  ∃ R, F.Perm (HTree.leaf r w :: R) ∧ (∀ u ∈ R, NoId r u) ∧ (R.map HTree.weight).sum < 2 * w

/-- phase 2: at most `3 − D` trees are left, and `r` is at depth at most `D` in each of them -/
def HeavyDone (r : Nat) (F : List HTree) : Prop :=
  ∃ D, F.length + D ≤ 3 ∧ ∀ u ∈ F, Shallow r D u

theorem HeavyDone.step {r : Nat} {F F' : List HTree} (h : HeavyDone r F) (hs : HuffStep F F') :
    HeavyDone r F' := by
  obtain ⟨D, hD, hsh⟩ := h
  obtain ⟨a, b, R, hF, -, -, hF'⟩ := hs
  have hlen := hF.length_eq
  have hlen' := hF'.length_eq
  simp only [List.length_cons] at hlen hlen'
  refine ⟨D + 1, by omega, ?_⟩
  intro u hu
  rcases List.mem_cons.1 (hF'.mem_iff.1 hu) with rfl | hu
  · exact Shallow.node (hsh a (hF.mem_iff.2 (by simp))) (hsh b (hF.mem_iff.2 (by simp)))
  · exact (hsh u (hF.mem_iff.2 (by simp [hu]))).mono (by omega)

/-- the step that matters: while `r` is a bare heavy leaf, a step either leaves it bare or merges it
and leaves at most two trees -/
theorem HeavyBare.step {r w : Nat} {F F' : List HTree} (h : HeavyBare r w F) (hs : HuffStep F F') :
    HeavyBare r w F' ∨ HeavyDone r F' := by
  obtain ⟨R, hFR, hno, hsum⟩ := h
  obtain ⟨a, b, R0, hF, ha, hb, hF'⟩ := hs
  have hp : (HTree.leaf r w :: R).Perm (a :: b :: R0) := hFR.symm.trans hF
  have hmem : HTree.leaf r w ∈ a :: b :: R0 := hp.mem_iff.1 List.mem_cons_self
  have hlen' := hF'.length_eq
  simp only [List.length_cons] at hlen'
  rcases List.mem_cons.1 hmem with rfl | hmem
  · -- `r` is the minimum: every other tree weighs at least `w`
    right
    have hR : R.Perm (b :: R0) := hp.cons_inv
    have hle : (b :: R0).length ≤ 1 := by
      apply length_le_one_of_heavy w _ (fun u hu => ha u hu)
      rw [← (hR.map HTree.weight).sum_nat]; exact hsum
    have hR0 : R0 = [] := by
      cases R0 with
      | nil => rfl
      | cons _ _ => simp at hle
    subst hR0
    simp only [List.length_nil] at hlen'
    refine ⟨1, by omega, ?_⟩
    intro u hu
    have : u = HTree.node (HTree.leaf r w) b := by simpa using hF'.mem_iff.1 hu
    subst this
    exact Shallow.node (shallow_leaf r r w) ((hno b (hR.mem_iff.2 (by simp))).shallow 0)
  rcases List.mem_cons.1 hmem with rfl | hmem
  · -- `r` is the second minimum: every tree of the rest weighs at least `w`
    right
    have hR : R.Perm (a :: R0) := (hp.trans (.swap ..)).cons_inv
    have hle : R0.length ≤ 1 := by
      apply length_le_one_of_heavy w _ (fun u hu => hb u hu)
      have := (hR.map HTree.weight).sum_nat
      simp only [List.map_cons, List.sum_cons] at this
      omega
    refine ⟨1, by omega, ?_⟩
    intro u hu
    rcases List.mem_cons.1 (hF'.mem_iff.1 hu) with rfl | hu
    · exact Shallow.node ((hno a (hR.mem_iff.2 (by simp))).shallow 0) (shallow_leaf r r w)
    · exact (hno u (hR.mem_iff.2 (by simp [hu]))).shallow 1
  · -- `r` is not touched
    left
    have hR0 : R0.Perm (HTree.leaf r w :: R0.erase (HTree.leaf r w)) := List.perm_cons_erase hmem
    have hR : R.Perm (a :: b :: R0.erase (HTree.leaf r w)) := by
      have h1 : (a :: b :: R0).Perm (HTree.leaf r w :: a :: b :: R0.erase (HTree.leaf r w)) :=
        ((hR0.cons b).cons a).trans (((List.Perm.swap ..).cons a).trans (.swap ..))
      exact (hp.trans h1).cons_inv
    refine ⟨HTree.node a b :: R0.erase (HTree.leaf r w), ?_, ?_, ?_⟩
    · exact hF'.trans ((hR0.cons _).trans (.swap ..))
    · intro u hu
      rcases List.mem_cons.1 hu with rfl | hu
      · exact NoId.node (hno a (hR.mem_iff.2 (by simp))) (hno b (hR.mem_iff.2 (by simp)))
      · exact hno u (hR.mem_iff.2 (by simp [hu]))
    · have := (hR.map HTree.weight).sum_nat
      simp only [List.map_cons, List.sum_cons, HTree.weight] at this ⊢
      omega

/-- from either phase, the loop ends with `r` at depth at most 2 -/
theorem HuffReach.heavy_shallow {r w : Nat} {F : List HTree} {t : HTree} (h : HuffReach F t) :
    HeavyBare r w F ∨ HeavyDone r F → Shallow r 2 t := by
  induction h with
  | done t =>
    intro hh
    rcases hh with ⟨R, hp, -, -⟩ | ⟨D, hD, hsh⟩
    · have hlen := hp.length_eq
      simp only [List.length_cons, List.length_nil] at hlen
      have hR : R = [] := List.eq_nil_of_length_eq_zero (by omega)
      subst hR
      have : t = HTree.leaf r w := by simpa using List.perm_singleton.1 hp
      subst this
      exact (shallow_leaf r r w).mono (by omega)
    · simp only [List.length_singleton] at hD
      exact (hsh t (by simp)).mono (by omega)
  | step hs _ ih =>
    intro hh
    rcases hh with hh | hh
    · exact ih (hh.step hs)
    · exact ih (Or.inr (hh.step hs))

/-! ### the initial forest -/

theorem leafForest_length (ws : List Nat) : (leafForest ws).length = ws.length := by simp [leafForest]

theorem leafForest_getElem (ws : List Nat) (i : Nat) (h : i < ws.length) :
    (leafForest ws)[i]'(by rw [leafForest_length]; exact h) = HTree.leaf i ws[i] := by
  simp [leafForest]

theorem leafForest_heavyBare (ws : List Nat) (r : Nat) (hr : r < ws.length)
    (hheavy : (ws.eraseIdx r).sum < 2 * ws[r]) : HeavyBare r ws[r] (leafForest ws) := by
  have hr' : r < (leafForest ws).length := by rw [leafForest_length]; exact hr
  refine ⟨(leafForest ws).eraseIdx r, ?_, ?_, ?_⟩
  · have := perm_getElem_cons_eraseIdx (leafForest ws) r hr'
    rwa [leafForest_getElem ws r hr] at this
  · intro u hu
    obtain ⟨i, hi, hne, rfl⟩ := List.mem_eraseIdx_iff_getElem.1 hu
    rw [leafForest_getElem ws i (by rw [leafForest_length] at hi; exact hi)]
    exact noId_leaf _ hne
  · rw [map_eraseIdx', leafForest_weights]; exact hheavy

/-! ### the theorems -/

/-- **a heavy symbol is shallow in every Huffman run**: if `ws[r]` is more than half the total weight
of the other symbols, the leaf of `r` is at depth at most 2 in every tree the loop can build -/
theorem HuffRun.heavy_shallow {ws : List Nat} {t : HTree} (h : HuffRun ws t) (r : Nat) (hr : r < ws.length)
    (hheavy : (ws.eraseIdx r).sum < 2 * ws[r]) :
    ∀ x ∈ t.leaves [], x.1 = r → x.2.2.length ≤ 2 := by
  intro x hx e
  have := HuffReach.heavy_shallow h (Or.inl (leafForest_heavyBare ws r hr hheavy)) [] x hx e
  simpa using this

/-- the same hypothesis on the total: `Σ ws < 3 · ws[r]` -/
theorem HuffRun.heavy_shallow' {ws : List Nat} {t : HTree} (h : HuffRun ws t) (r : Nat) (hr : r < ws.length)
    (hheavy : ws.sum < 3 * ws[r]) :
    ∀ x ∈ t.leaves [], x.1 = r → x.2.2.length ≤ 2 :=
  h.heavy_shallow r hr (by have := sum_eq_getElem_add_eraseIdx ws r hr; omega)

/-- every symbol has a leaf in the tree of a run -/
theorem HuffRun.exists_leaf {ws : List Nat} {t : HTree} (h : HuffRun ws t) (r : Nat) (hr : r < ws.length) :
    ∃ x ∈ t.leaves [], x.1 = r := by
  have hmem : (r, ws[r]) ∈ symsOf ws := by
    rw [← symsOf_getElem ws r hr]; exact List.getElem_mem _
  have := h.syms_perm.mem_iff.2 hmem
  rw [← leaves_syms t []] at this
  obtain ⟨x, hx, hxe⟩ := List.mem_map.1 this
  exact ⟨x, hx, (Prod.mk.inj hxe).1⟩

/-- **the code of a heavy symbol has at most 2 bits**, for every answer of `make_huffman_code` -/
theorem HuffCode.heavy_length_le_two {ws : List Nat} {codes : List Bits} (h : HuffCode ws codes)
    (r : Nat) (hr : r < ws.length) (hheavy : (ws.eraseIdx r).sum < 2 * ws[r]) :
    (codes[r]'(by rw [h.1]; exact hr)).length ≤ 2 := by
  obtain ⟨hlen, t, hrun, htc⟩ := h
  obtain ⟨x, hx, rfl⟩ := hrun.exists_leaf r hr
  have h1 := htc x hx
  have h2 := hrun.heavy_shallow x.1 hr hheavy x hx rfl
  rw [List.getElem?_eq_getElem (by rw [hlen]; exact hr)] at h1
  rw [Option.some.inj h1]; exact h2

theorem HuffCode.heavy_length_le_two' {ws : List Nat} {codes : List Bits} (h : HuffCode ws codes)
    (r : Nat) (hr : r < ws.length) (hheavy : ws.sum < 3 * ws[r]) :
    (codes[r]'(by rw [h.1]; exact hr)).length ≤ 2 :=
  h.heavy_length_le_two r hr (by have := sum_eq_getElem_add_eraseIdx ws r hr; omega)

/-- in a prefix-free code of at least two words no word is empty -/
theorem PrefixFree.length_pos {codes : List Bits} (h : PrefixFree codes) (h2 : 2 ≤ codes.length)
    (i : Nat) (hi : i < codes.length) : 1 ≤ codes[i].length := by
  cases hc : codes[i] with
  | cons _ _ => simp
  | nil =>
    exfalso
    by_cases h0 : i = 0
    · have := h i 1 hi (by omega) (by rw [hc]; exact List.nil_prefix)
      omega
    · have := h i 0 hi (by omega) (by rw [hc]; exact List.nil_prefix)
      omega

/-- **with at least two symbols every code has at least one bit** -/
theorem HuffCode.length_pos {ws : List Nat} {codes : List Bits} (h : HuffCode ws codes)
    (h2 : 2 ≤ ws.length) (i : Nat) (hi : i < ws.length) :
    1 ≤ (codes[i]'(by rw [h.1]; exact hi)).length :=
  PrefixFree.length_pos h.prefixFree (by rw [h.1]; exact h2) i (by rw [h.1]; exact hi)

/-! ### the hypothesis is satisfiable, and sharp -/

/-- weights 5, 3, 3, 2, 1: `5` is more than half of `9` but less than `9`; its code has 2 bits -/
example : ([5, 3, 3, 2, 1].eraseIdx 0).sum < 2 * [5, 3, 3, 2, 1][0] ∧ [5, 3, 3, 2, 1][0] < ([5, 3, 3, 2, 1].eraseIdx 0).sum ∧
    ((huffCodes [5, 3, 3, 2, 1])[0]!).length = 2 := by
  decide

example := (huffCodes_huffCode [5, 3, 3, 2, 1] (by decide)).heavy_length_le_two 0 (by decide) (by decide)

/-- exactly half is not enough: with the weights 0, 1, 1, 1 the second symbol weighs exactly half of
the others, and the model's run gives it 3 bits -/
example : ([0, 1, 1, 1].eraseIdx 1).sum = 2 * [0, 1, 1, 1][1] ∧ ((huffCodes [0, 1, 1, 1])[1]!).length = 3 := by
  decide

end Qco
