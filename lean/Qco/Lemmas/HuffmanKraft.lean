/-
Huffman optimality at the level of weights and lengths (no trees, no codes, no symbols).

`WRun ws C`: repeatedly replacing two minimum weights of `ws` by their sum (any tie-breaking) until
one weight is left adds up to `C` (the sum of all the sums formed). `wrun_le`: `C ≤ Σ w_i · l_i`
for EVERY assignment of lengths `l_i` that satisfies Kraft's inequality `Σ 2^(L − l_i) ≤ 2^L`.

The proof is the classic one transposed to length vectors: a Kraft-feasible assignment can be
improved until the two minimum weights both carry the maximum length `M ≥ 1` (`normalize`: exchange
lengths with heavier items; if the maximum length occurs once, shorten it — feasible by
divisibility); two lengths `M` merge into one length `M − 1` with the same Kraft sum (`KraftOK.merge`).
Core Lean only.
-/
namespace Qco
namespace Huff

/-! ### pairs `(weight, length)`, Kraft feasibility -/

/-- all lengths at most `L`, and `Σ 2^(L − l) ≤ 2^L` -/
def KraftOK (L : Nat) (ls : List Nat) : Prop :=
  (∀ l ∈ ls, l ≤ L) ∧ (ls.map fun l => 2 ^ (L - l)).sum ≤ 2 ^ L

/-- `Σ weight · length` -/
def pcost (P : List (Nat × Nat)) : Nat := (P.map fun p => p.1 * p.2).sum

theorem pcost_cons (p : Nat × Nat) (P : List (Nat × Nat)) : pcost (p :: P) = p.1 * p.2 + pcost P := by
  simp [pcost]

theorem pcost_perm {P Q : List (Nat × Nat)} (h : P.Perm Q) : pcost P = pcost Q :=
  (h.map _).sum_nat

theorem KraftOK.perm {L : Nat} {ls ls' : List Nat} (h : ls.Perm ls') (hk : KraftOK L ls) : KraftOK L ls' :=
  ⟨fun l hl => hk.1 l (h.mem_iff.2 hl), by rw [← (h.map _).sum_nat]; exact hk.2⟩

theorem KraftOK_cons {L l : Nat} {ls : List Nat} :
    KraftOK L (l :: ls) ↔ l ≤ L ∧ (∀ x ∈ ls, x ≤ L) ∧ 2 ^ (L - l) + (ls.map fun l => 2 ^ (L - l)).sum ≤ 2 ^ L := by
  simp only [KraftOK, List.forall_mem_cons, List.map_cons, List.sum_cons, and_assoc]

/-- a permutation of `l.map f` is the image of a permutation of `l` -/
theorem perm_map_inv {α β : Type} (f : α → β) {m m' : List β} (h : m.Perm m') :
    ∀ l : List α, l.map f = m → ∃ l', l.Perm l' ∧ l'.map f = m' := by
  induction h with
  | nil => intro l hl; exact ⟨l, .refl _, hl⟩
  | cons x _ ih =>
    intro l hl
    cases l with
    | nil => simp at hl
    | cons y ys =>
      simp only [List.map_cons, List.cons.injEq] at hl
      obtain ⟨l', h1, h2⟩ := ih ys hl.2
      exact ⟨y :: l', h1.cons y, by simp [hl.1, h2]⟩
  | swap x y l0 =>
    intro l hl
    cases l with
    | nil => simp at hl
    | cons y' l1 =>
      cases l1 with
      | nil => simp at hl
      | cons x' l2 =>
        simp only [List.map_cons, List.cons.injEq] at hl
        exact ⟨x' :: y' :: l2, .swap .., by simp [hl.1, hl.2.1, hl.2.2]⟩
  | trans _ _ ih1 ih2 =>
    intro l hl
    obtain ⟨l1, p1, e1⟩ := ih1 l hl
    obtain ⟨l2, p2, e2⟩ := ih2 l1 e1
    exact ⟨l2, p1.trans p2, e2⟩

/-! ### arithmetic -/

/-- exchanging the lengths of a lighter and a heavier item so that the lighter gets the longer -/
theorem rearr2 {a w l m : Nat} (h1 : a ≤ w) (h2 : l ≤ m) : a * m + w * l ≤ a * l + w * m := by
  obtain ⟨d, rfl⟩ := Nat.exists_eq_add_of_le h1
  obtain ⟨e, rfl⟩ := Nat.exists_eq_add_of_le h2
  simp only [Nat.mul_add, Nat.add_mul]
  omega

/-- lengths at most `m ≤ L`: the scaled Kraft sum is a multiple of `2^(L − m)` -/
theorem kraft_dvd (L m : Nat) (ls : List Nat) (h : ∀ l ∈ ls, l ≤ m) (hm : m ≤ L) :
    ∃ K, (ls.map fun l => 2 ^ (L - l)).sum = K * 2 ^ (L - m) := by
  induction ls with
  | nil => exact ⟨0, by simp⟩
  | cons l ls ih =>
    obtain ⟨K, hK⟩ := ih fun x hx => h x (List.mem_cons_of_mem _ hx)
    have hl : l ≤ m := h l List.mem_cons_self
    refine ⟨2 ^ (m - l) + K, ?_⟩
    have e : L - l = (m - l) + (L - m) := by omega
    simp only [List.map_cons, List.sum_cons, hK, Nat.add_mul]
    rw [e, Nat.pow_add]

/-- a unique maximum length can be shortened by one -/
theorem KraftOK.shorten {L la : Nat} {ls : List Nat} (hk : KraftOK L (la :: ls)) (hlt : ∀ l ∈ ls, l < la) :
    KraftOK L ((la - 1) :: ls) := by
  rw [KraftOK_cons] at hk ⊢
  obtain ⟨hla, hls, hsum⟩ := hk
  refine ⟨by omega, hls, ?_⟩
  rcases Nat.eq_zero_or_pos la with h0 | hpos
  · subst h0; exact hsum
  · obtain ⟨K, hK⟩ := kraft_dvd L (la - 1) ls (fun l hl => by have := hlt l hl; omega) (by omega)
    have e1 : 2 ^ (L - (la - 1)) = 2 * 2 ^ (L - la) := by
      have : L - (la - 1) = (L - la) + 1 := by omega
      rw [this, Nat.pow_succ, Nat.mul_comm]
    have e2 : 2 ^ L = 2 ^ (la - 1) * 2 ^ (L - (la - 1)) := by
      rw [← Nat.pow_add]; congr 1; omega
    have hpos2 : 0 < 2 ^ (L - la) := Nat.two_pow_pos _
    rw [hK] at hsum ⊢
    rw [e2] at hsum ⊢
    generalize 2 ^ (L - (la - 1)) = d at *
    generalize 2 ^ (la - 1) = T at *
    have hlt' : K < T := by
      apply Nat.lt_of_not_le
      intro hge
      have := Nat.mul_le_mul_right d hge
      omega
    have := Nat.mul_le_mul_right d (Nat.succ_le_of_lt hlt')
    rw [Nat.succ_mul] at this
    omega

/-- two items of length `M ≥ 1` weigh as much in the Kraft sum as one of length `M − 1` -/
theorem KraftOK.merge {L M : Nat} {ls : List Nat} (hk : KraftOK L (M :: M :: ls)) (hM : 1 ≤ M) :
    KraftOK L ((M - 1) :: ls) := by
  simp only [KraftOK, List.forall_mem_cons, List.map_cons, List.sum_cons] at hk
  rw [KraftOK_cons]
  obtain ⟨⟨hl, -, hls⟩, hsum⟩ := hk
  refine ⟨by omega, hls, ?_⟩
  have e1 : 2 ^ (L - (M - 1)) = 2 * 2 ^ (L - M) := by
    have : L - (M - 1) = (L - M) + 1 := by omega
    rw [this, Nat.pow_succ, Nat.mul_comm]
  omega

/-- two items cannot both have length 0 -/
theorem KraftOK.not_zero_zero {L : Nat} {ls : List Nat} (hk : KraftOK L (0 :: 0 :: ls)) : False := by
  simp only [KraftOK, List.map_cons, List.sum_cons, Nat.sub_zero] at hk
  have := Nat.two_pow_pos L
  have h := hk.2
  omega

theorem perm3 {α : Type} (x y z : α) (T : List α) : (x :: y :: z :: T).Perm (z :: y :: x :: T) :=
  ((List.Perm.swap y x _).trans ((List.Perm.swap z x T).cons y)).trans (List.Perm.swap z y _)

/-! ### the exchange argument -/

/-- a Kraft-feasible assignment in which `a ≤ b` are the two lightest items can be turned, without
increasing the cost, into one where both carry the same length `M ≥ 1` (the rest permuted) -/
theorem normalize (L a b : Nat) (hab : a ≤ b) : ∀ (μ la lb : Nat) (R : List (Nat × Nat)),
    la + 2 * lb + 3 * (R.map Prod.snd).sum ≤ μ → (∀ p ∈ R, b ≤ p.1) →
    KraftOK L (la :: lb :: R.map Prod.snd) →
    ∃ M R', 1 ≤ M ∧ (R'.map Prod.fst).Perm (R.map Prod.fst) ∧ KraftOK L (M :: M :: R'.map Prod.snd) ∧
      a * M + b * M + pcost R' ≤ a * la + b * lb + pcost R := by
  intro μ
  induction μ using Nat.strongRecOn with
  | ind μ ih =>
  intro la lb R hμ hb hk
  by_cases h1 : ∃ p ∈ R, la < p.2
  · -- give `a` the longer length of `p`
    obtain ⟨p, hp, hlt⟩ := h1
    have hperm : R.Perm (p :: R.erase p) := List.perm_cons_erase hp
    have hs : (R.map Prod.snd).sum = p.2 + ((R.erase p).map Prod.snd).sum := by
      rw [(hperm.map Prod.snd).sum_nat]; simp
    have hc : pcost R = p.1 * p.2 + pcost (R.erase p) := by rw [pcost_perm hperm, pcost_cons]
    have hk' : KraftOK L (p.2 :: lb :: ((p.1, la) :: R.erase p).map Prod.snd) := by
      refine KraftOK.perm ?_ hk
      exact (((hperm.map Prod.snd).cons lb).cons la).trans (perm3 la lb p.2 _)
    have hb' : ∀ q ∈ (p.1, la) :: R.erase p, b ≤ q.1 := by
      intro q hq
      rcases List.mem_cons.1 hq with rfl | hq
      · exact hb p hp
      · exact hb q (List.mem_of_mem_erase hq)
    obtain ⟨M, R', hM, hp', hK', hcost⟩ := ih (p.2 + 2 * lb + 3 * (((p.1, la) :: R.erase p).map Prod.snd).sum)
      (by simp only [List.map_cons, List.sum_cons]; omega) p.2 lb ((p.1, la) :: R.erase p) (Nat.le_refl _) hb' hk'
    refine ⟨M, R', hM, hp'.trans ?_, hK', ?_⟩
    · exact (hperm.map Prod.fst).symm
    · have := rearr2 (Nat.le_trans hab (hb p hp)) (Nat.le_of_lt hlt)
      rw [pcost_cons] at hcost
      simp only at hcost
      omega
  by_cases h2 : ∃ p ∈ R, lb < p.2
  · -- give `b` the longer length of `p`
    obtain ⟨p, hp, hlt⟩ := h2
    have hperm : R.Perm (p :: R.erase p) := List.perm_cons_erase hp
    have hs : (R.map Prod.snd).sum = p.2 + ((R.erase p).map Prod.snd).sum := by
      rw [(hperm.map Prod.snd).sum_nat]; simp
    have hc : pcost R = p.1 * p.2 + pcost (R.erase p) := by rw [pcost_perm hperm, pcost_cons]
    have hk' : KraftOK L (la :: p.2 :: ((p.1, lb) :: R.erase p).map Prod.snd) := by
      refine KraftOK.perm ?_ hk
      exact (((hperm.map Prod.snd).cons lb).cons la).trans ((List.Perm.swap p.2 lb _).cons la)
    have hb' : ∀ q ∈ (p.1, lb) :: R.erase p, b ≤ q.1 := by
      intro q hq
      rcases List.mem_cons.1 hq with rfl | hq
      · exact hb p hp
      · exact hb q (List.mem_of_mem_erase hq)
    obtain ⟨M, R', hM, hp', hK', hcost⟩ := ih (la + 2 * p.2 + 3 * (((p.1, lb) :: R.erase p).map Prod.snd).sum)
      (by simp only [List.map_cons, List.sum_cons]; omega) la p.2 ((p.1, lb) :: R.erase p) (Nat.le_refl _) hb' hk'
    refine ⟨M, R', hM, hp'.trans ?_, hK', ?_⟩
    · exact (hperm.map Prod.fst).symm
    · have := rearr2 (hb p hp) (Nat.le_of_lt hlt)
      rw [pcost_cons] at hcost
      simp only at hcost
      omega
  have h1' : ∀ p ∈ R, p.2 ≤ la := fun p hp => Nat.le_of_not_lt fun h => h1 ⟨p, hp, h⟩
  have h2' : ∀ p ∈ R, p.2 ≤ lb := fun p hp => Nat.le_of_not_lt fun h => h2 ⟨p, hp, h⟩
  by_cases h3 : la < lb
  · -- exchange the lengths of `a` and `b`
    obtain ⟨M, R', hM, hp', hK', hcost⟩ := ih (lb + 2 * la + 3 * (R.map Prod.snd).sum) (by omega) lb la R
      (Nat.le_refl _) hb (KraftOK.perm (List.Perm.swap lb la _) hk)
    refine ⟨M, R', hM, hp', hK', ?_⟩
    have := rearr2 hab (Nat.le_of_lt h3)
    omega
  by_cases h4 : lb < la
  · -- `la` is the unique maximum: shorten it
    have hk' : KraftOK L ((la - 1) :: lb :: R.map Prod.snd) := by
      apply KraftOK.shorten hk
      intro l hl
      rcases List.mem_cons.1 hl with rfl | hl
      · exact h4
      · obtain ⟨p, hp, rfl⟩ := List.mem_map.1 hl
        exact Nat.lt_of_le_of_lt (h2' p hp) h4
    obtain ⟨M, R', hM, hp', hK', hcost⟩ := ih ((la - 1) + 2 * lb + 3 * (R.map Prod.snd).sum) (by omega) (la - 1) lb R
      (Nat.le_refl _) hb hk'
    refine ⟨M, R', hM, hp', hK', ?_⟩
    have := Nat.mul_le_mul_left a (Nat.sub_le la 1)
    omega
  · -- `la = lb` is the maximum
    have e : lb = la := by omega
    subst e
    refine ⟨lb, R, ?_, .refl _, hk, Nat.le_refl _⟩
    rcases Nat.eq_zero_or_pos lb with h0 | hpos
    · subst h0; exact (hk.not_zero_zero).elim
    · exact hpos

/-! ### the loop on weights -/

/-- the Huffman loop on a list of weights, any tie-breaking; the second component is the sum of
all the sums formed (= `Σ weight · depth` of the tree built) -/
inductive WRun : List Nat → Nat → Prop
  | done (w : Nat) : WRun [w] 0
  | step {ws R : List Nat} {a b C : Nat} : ws.Perm (a :: b :: R) → (∀ x ∈ b :: R, a ≤ x) →
      (∀ x ∈ R, b ≤ x) → WRun ((a + b) :: R) C → WRun ws (C + (a + b))

theorem WRun.perm {ws ws' : List Nat} {C : Nat} (h : WRun ws C) (hp : ws.Perm ws') : WRun ws' C := by
  cases h with
  | done w =>
    have : ws' = [w] := List.perm_singleton.1 hp.symm
    subst this; exact .done w
  | step h1 h2 h3 h4 => exact .step (hp.symm.trans h1) h2 h3 h4

/-- **optimality against Kraft-feasible lengths**, for every tie-breaking -/
theorem wrun_le (L : Nat) {ws : List Nat} {C : Nat} (h : WRun ws C) :
    ∀ P : List (Nat × Nat), (P.map Prod.fst).Perm ws → KraftOK L (P.map Prod.snd) → C ≤ pcost P := by
  induction h with
  | done w => intro P _ _; exact Nat.zero_le _
  | @step ws R a b C hperm ha hb _ ih =>
    intro P hP hK
    obtain ⟨P', hPP', hP'⟩ := perm_map_inv Prod.fst (hP.trans hperm) P rfl
    match P', hPP', hP' with
    | [], _, hP' => simp at hP'
    | [_], _, hP' => simp at hP'
    | (a', la) :: (b', lb) :: R0, hPP', hP' =>
      simp only [List.map_cons, List.cons.injEq] at hP'
      obtain ⟨rfl, rfl, hR0⟩ := hP'
      have hK' : KraftOK L (la :: lb :: R0.map Prod.snd) := KraftOK.perm (hPP'.map Prod.snd) hK
      have hb0 : ∀ p ∈ R0, b' ≤ p.1 := fun p hp => hb p.1 (hR0 ▸ List.mem_map_of_mem hp)
      obtain ⟨M, R', hM, hp', hKM, hcost⟩ := normalize L a' b' (ha b' List.mem_cons_self) _ la lb R0
        (Nat.le_refl _) hb0 hK'
      have hmerge := hKM.merge hM
      have hle := ih ((a' + b', M - 1) :: R')
        (by simp only [List.map_cons]; exact (hR0 ▸ hp').cons _) hmerge
      rw [pcost_perm hPP']
      simp only [pcost_cons] at hle ⊢
      obtain ⟨M', rfl⟩ : ∃ M', M = M' + 1 := ⟨M - 1, by omega⟩
      simp only [Nat.add_sub_cancel, Nat.mul_succ, Nat.add_mul] at hle hcost
      omega

end Huff
end Qco
