/-
Huffman optimality for the model of `make_huffman_code` (`Qco/Train/Huffman.lean`).

* every tie-breaking of the loop (`HuffRun`) builds a tree of the same cost, `huffCost ws`
  (`huffRun_cost`);
* that cost is at most `Σ w_i · l_i` for all lengths satisfying Kraft's inequality
  (`huffman_le_of_kraft`), hence at most the weighted length of every prefix-free code
  (`huffman_optimal`);
* the codes of every run (`HuffCode`), in particular of the deterministic run (`huffCodes`), are a
  complete prefix-free code whose weighted length is `huffCost ws`;
* `huffCostW` (the cost computed on the weights alone) equals `huffCost`.

The combinatorial core is `Huff.wrun_le` (`Qco/Lemmas/HuffmanKraft.lean`); this file links trees,
symbols and codes to it.
-/
import Qco.Train.Huffman
import Qco.Lemmas.HuffmanKraft
import Qco.Lemmas.Kraft
namespace Qco
open Huff

/-! ### trees -/

namespace HTree

def height : HTree → Nat
  | leaf _ _ => 0
  | node l r => max l.height r.height + 1

theorem leaves_syms (t : HTree) : ∀ acc, (t.leaves acc).map (fun x => (x.1, x.2.1)) = t.syms := by
  induction t with
  | leaf i w => intro acc; rfl
  | node l r ihl ihr => intro acc; simp only [leaves, syms, List.map_append, ihl, ihr]

theorem leaves_ne_nil (t : HTree) : ∀ acc, t.leaves acc ≠ [] := by
  induction t with
  | leaf i w => intro acc; simp [leaves]
  | node l r ihl _ => intro acc; simp [leaves, ihl]

theorem leaves_prefix (t : HTree) : ∀ acc, ∀ x ∈ t.leaves acc, acc <+: x.2.2 := by
  induction t with
  | leaf i w =>
    intro acc x hx
    simp only [leaves, List.mem_singleton] at hx
    subst hx; exact List.prefix_refl _
  | node l r ihl ihr =>
    intro acc x hx
    simp only [leaves, List.mem_append] at hx
    rcases hx with hx | hx
    · exact (List.prefix_append acc [false]).trans (ihl _ x hx)
    · exact (List.prefix_append acc [true]).trans (ihr _ x hx)

theorem leaves_length_le (t : HTree) : ∀ acc, ∀ x ∈ t.leaves acc, x.2.2.length ≤ acc.length + t.height := by
  induction t with
  | leaf i w =>
    intro acc x hx
    simp only [leaves, List.mem_singleton] at hx
    subst hx; simp [height]
  | node l r ihl ihr =>
    intro acc x hx
    simp only [leaves, List.mem_append] at hx
    rcases hx with hx | hx
    · have := ihl _ x hx
      simp only [List.length_append, List.length_singleton, height] at this ⊢
      omega
    · have := ihr _ x hx
      simp only [List.length_append, List.length_singleton, height] at this ⊢
      omega

theorem pcost_append (P Q : List (Nat × Nat)) : pcost (P ++ Q) = pcost P + pcost Q := by
  simp [pcost, List.sum_append]

/-- `Σ weight · |code| = cost + weight · |path to the root|` -/
theorem leaves_pcost (t : HTree) : ∀ acc,
    pcost ((t.leaves acc).map fun x => (x.2.1, x.2.2.length)) = t.cost + t.weight * acc.length := by
  induction t with
  | leaf i w => intro acc; simp [leaves, pcost, cost, weight]
  | node l r ihl ihr =>
    intro acc
    have hl := ihl (acc ++ [false])
    have hr := ihr (acc ++ [true])
    simp only [List.length_append, List.length_singleton, Nat.mul_succ] at hl hr
    simp only [leaves, List.map_append, pcost_append, hl, hr, cost, weight, Nat.add_mul]
    omega

/-- codes below different children do not compare -/
theorem PFrel_of_split {acc c c' : Bits} (h : (acc ++ [false]) <+: c) (h' : (acc ++ [true]) <+: c') :
    PFrel c c' := by
  have key : ∀ d : Bits, (acc ++ [false]) <+: d → (acc ++ [true]) <+: d → False := by
    intro d h1 h2
    have h3 := List.prefix_of_prefix_length_le h1 h2 (by simp)
    have h4 := h3.eq_of_length (by simp)
    have := List.append_cancel_left h4
    simp at this
  constructor
  · intro hp; exact key c' (h.trans hp) h'
  · intro hp; exact key c h (h'.trans hp)

theorem PFrel_symm {a b : Bits} (h : PFrel a b) : PFrel b a := ⟨h.2, h.1⟩

/-- the codes of a tree are pairwise incomparable -/
theorem leaves_pairwise (t : HTree) : ∀ acc, (t.leaves acc).Pairwise fun x y => PFrel x.2.2 y.2.2 := by
  induction t with
  | leaf i w => intro acc; simp [leaves]
  | node l r ihl ihr =>
    intro acc
    simp only [leaves, List.pairwise_append]
    refine ⟨ihl _, ihr _, ?_⟩
    intro x hx y hy
    exact PFrel_of_split (leaves_prefix l _ x hx) (leaves_prefix r _ y hy)

/-- Kraft's equality for the codes of a tree -/
theorem leaves_kraft (L : Nat) (t : HTree) : ∀ acc, (∀ x ∈ t.leaves acc, x.2.2.length ≤ L) →
    ((t.leaves acc).map fun x => 2 ^ (L - x.2.2.length)).sum = 2 ^ (L - acc.length) := by
  induction t with
  | leaf i w => intro acc _; simp [leaves]
  | node l r ihl ihr =>
    intro acc h
    have hl := ihl (acc ++ [false]) (fun x hx => h x (by simp only [leaves, List.mem_append]; exact Or.inl hx))
    have hr := ihr (acc ++ [true]) (fun x hx => h x (by simp only [leaves, List.mem_append]; exact Or.inr hx))
    obtain ⟨x, hx⟩ := List.exists_mem_of_ne_nil _ (leaves_ne_nil l (acc ++ [false]))
    have h1 := (leaves_prefix l _ x hx).length_le
    have h2 := h x (by simp only [leaves, List.mem_append]; exact Or.inl hx)
    simp only [List.length_append, List.length_singleton] at h1 hl hr
    simp only [leaves, List.map_append, List.sum_append, hl, hr]
    have e : L - acc.length = (L - (acc.length + 1)) + 1 := by omega
    rw [e, Nat.pow_succ]; omega

theorem syms_ne_nil (t : HTree) : t.syms ≠ [] := by
  rw [← leaves_syms t []]
  simp [leaves_ne_nil]

end HTree

open HTree

/-! ### the relational loop -/

theorem HuffStep.syms_perm {F F' : List HTree} (h : HuffStep F F') :
    (F'.flatMap HTree.syms).Perm (F.flatMap HTree.syms) := by
  obtain ⟨a, b, R, hF, -, -, hF'⟩ := h
  refine (hF'.flatMap_right _).trans (List.Perm.trans ?_ (hF.flatMap_right _).symm)
  simp only [List.flatMap_cons, HTree.syms, List.append_assoc]
  exact .refl _

/-- the symbols (with their weights) of the final tree are those of the forest -/
theorem HuffReach.syms_perm {F : List HTree} {t : HTree} (h : HuffReach F t) :
    t.syms.Perm (F.flatMap HTree.syms) := by
  induction h with
  | done t => simp
  | step hs _ ih => exact ih.trans hs.syms_perm

theorem HuffReach.perm {F F' : List HTree} {t : HTree} (h : HuffReach F t) (hp : F.Perm F') :
    HuffReach F' t := by
  cases h with
  | done t =>
    have : F' = [t] := List.perm_singleton.1 hp.symm
    subst this; exact .done t
  | step hs hr =>
    obtain ⟨a, b, R, hF, ha, hb, hF'⟩ := hs
    exact .step ⟨a, b, R, hp.symm.trans hF, ha, hb, hF'⟩ hr

/-- the loop on trees is the loop on their weights; the cost of the final tree is the cost already
inside the forest plus the sums formed -/
theorem HuffReach.wrun {F : List HTree} {t : HTree} (h : HuffReach F t) :
    ∃ C, WRun (F.map HTree.weight) C ∧ t.cost = (F.map HTree.cost).sum + C := by
  induction h with
  | done t => exact ⟨0, .done _, by simp⟩
  | @step F F' t hs _ ih =>
    obtain ⟨a, b, R, hF, ha, hb, hF'⟩ := hs
    obtain ⟨C, hC, hcost⟩ := ih
    refine ⟨C + (a.weight + b.weight), ?_, ?_⟩
    · refine WRun.step (R := R.map HTree.weight) (hF.map _) ?_ ?_ (hC.perm (hF'.map _))
      · intro x hx
        rw [← List.map_cons] at hx
        obtain ⟨u, hu, rfl⟩ := List.mem_map.1 hx
        exact ha u hu
      · intro x hx
        obtain ⟨u, hu, rfl⟩ := List.mem_map.1 hx
        exact hb u hu
    · rw [hcost, (hF'.map _).sum_nat, (hF.map _).sum_nat]
      simp only [List.map_cons, List.sum_cons, HTree.cost]
      omega

/-! ### the initial forest -/

theorem leafForest_weights (ws : List Nat) : (leafForest ws).map HTree.weight = ws := by
  simp only [leafForest, List.map_map]
  rw [← List.zipIdx_map_fst 0 ws]
  simp [Function.comp_def, HTree.weight]

theorem leafForest_costs (ws : List Nat) : ((leafForest ws).map HTree.cost).sum = 0 := by
  simp only [leafForest, List.map_map]
  have : (HTree.cost ∘ fun p : Nat × Nat => HTree.leaf p.2 p.1) = fun _ => 0 := by
    funext p; rfl
  rw [this]
  induction ws.zipIdx with
  | nil => rfl
  | cons _ _ ih => simpa using ih

/-- the symbols of `ws`: `(i, ws[i])` -/
def symsOf (ws : List Nat) : List (Nat × Nat) := ws.zipIdx.map fun p => (p.2, p.1)

theorem leafForest_syms (ws : List Nat) : (leafForest ws).flatMap HTree.syms = symsOf ws := by
  simp only [leafForest, symsOf, List.flatMap_map, HTree.syms]
  induction ws.zipIdx with
  | nil => rfl
  | cons _ _ ih => simpa using ih

theorem symsOf_snd (ws : List Nat) : (symsOf ws).map Prod.snd = ws := by
  simp only [symsOf, List.map_map]
  rw [← List.zipIdx_map_fst 0 ws]
  simp [Function.comp_def]

theorem symsOf_fst (ws : List Nat) : (symsOf ws).map Prod.fst = List.range' 0 ws.length := by
  simp only [symsOf, List.map_map]
  rw [← List.zipIdx_map_snd 0 ws]
  simp [Function.comp_def]

theorem symsOf_length (ws : List Nat) : (symsOf ws).length = ws.length := by simp [symsOf]

theorem symsOf_getElem (ws : List Nat) (i : Nat) (h : i < ws.length) :
    (symsOf ws)[i]'(by rw [symsOf_length]; exact h) = (i, ws[i]) := by
  simp [symsOf]

theorem HuffRun.syms_perm {ws : List Nat} {t : HTree} (h : HuffRun ws t) : t.syms.Perm (symsOf ws) := by
  have := HuffReach.syms_perm h
  rwa [leafForest_syms] at this

theorem HuffRun.wrun {ws : List Nat} {t : HTree} (h : HuffRun ws t) : WRun ws t.cost := by
  obtain ⟨C, hC, hcost⟩ := HuffReach.wrun h
  rw [leafForest_weights] at hC
  rw [leafForest_costs] at hcost
  have : t.cost = C := by omega
  rw [this]; exact hC

theorem HuffRun.ne_nil {ws : List Nat} {t : HTree} (h : HuffRun ws t) : ws ≠ [] := by
  intro h0
  have := h.syms_perm
  rw [h0] at this
  exact HTree.syms_ne_nil t (by simpa [symsOf] using this)

/-! ### optimality of every run -/

theorem weightedSum_eq_pcost (ws ls : List Nat) : weightedSum ws ls = pcost (ws.zip ls) := rfl

/-- a run costs at most any Kraft-feasible assignment of lengths -/
theorem huffRun_le_of_kraftOK {ws : List Nat} {t : HTree} (h : HuffRun ws t) (L : Nat) (ls : List Nat)
    (hlen : ls.length = ws.length) (hk : KraftOK L ls) : t.cost ≤ weightedSum ws ls := by
  rw [weightedSum_eq_pcost]
  apply wrun_le L h.wrun
  · rw [List.map_fst_zip (by omega)]
  · rw [List.map_snd_zip (by omega)]; exact hk

/-- the depths of the leaves of a run are a Kraft-feasible assignment whose cost is the tree's -/
theorem huffRun_depths {ws : List Nat} {t : HTree} (h : HuffRun ws t) :
    ∃ P : List (Nat × Nat), (P.map Prod.fst).Perm ws ∧ KraftOK t.height (P.map Prod.snd) ∧ pcost P = t.cost := by
  refine ⟨(t.leaves []).map fun x => (x.2.1, x.2.2.length), ?_, ⟨?_, ?_⟩, ?_⟩
  · have e : ((t.leaves []).map fun x => (x.2.1, x.2.2.length)).map Prod.fst = t.syms.map Prod.snd := by
      rw [← leaves_syms t []]; simp [List.map_map, Function.comp_def]
    rw [e, ← symsOf_snd ws]
    exact h.syms_perm.map _
  · intro l hl
    simp only [List.map_map, List.mem_map, Function.comp_def] at hl
    obtain ⟨x, hx, rfl⟩ := hl
    have := leaves_length_le t [] x hx
    simpa using this
  · have := leaves_kraft t.height t [] (fun x hx => by have := leaves_length_le t [] x hx; simpa using this)
    simp only [List.map_map, Function.comp_def]
    simp only [List.length_nil, Nat.sub_zero] at this
    exact Nat.le_of_eq this
  · have := leaves_pcost t []
    simpa using this

/-- **every tie-breaking of the loop gives the same total weighted code length** -/
theorem huffRun_cost_eq {ws : List Nat} {t t' : HTree} (h : HuffRun ws t) (h' : HuffRun ws t') :
    t.cost = t'.cost := by
  obtain ⟨P, hP, hK, hc⟩ := huffRun_depths h
  obtain ⟨P', hP', hK', hc'⟩ := huffRun_depths h'
  have h1 := wrun_le _ h.wrun P' hP' hK'
  have h2 := wrun_le _ h'.wrun P hP hK
  omega

/-! ### the deterministic run -/

def SortedW (F : List HTree) : Prop := F.Pairwise fun x y => x.weight ≤ y.weight

theorem insertT_perm (t : HTree) : ∀ F, (insertT t F).Perm (t :: F)
  | [] => .refl _
  | u :: us => by
    unfold insertT
    split
    · exact .refl _
    · exact ((insertT_perm t us).cons u).trans (.swap ..)

theorem insertT_sorted (t : HTree) : ∀ F, SortedW F → SortedW (insertT t F)
  | [], _ => by simp [insertT, SortedW]
  | u :: us, h => by
    unfold SortedW at h ⊢
    rw [List.pairwise_cons] at h
    unfold insertT
    split
    · rename_i hle
      rw [List.pairwise_cons]
      refine ⟨?_, List.pairwise_cons.2 h⟩
      intro y hy
      rcases List.mem_cons.1 hy with rfl | hy
      · exact hle
      · exact Nat.le_trans hle (h.1 y hy)
    · rename_i hnle
      rw [List.pairwise_cons]
      refine ⟨?_, insertT_sorted t us h.2⟩
      intro y hy
      rcases List.mem_cons.1 ((insertT_perm t us).mem_iff.1 hy) with rfl | hy
      · omega
      · exact h.1 y hy

theorem sortForest_perm : ∀ F, (sortForest F).Perm F
  | [] => .refl _
  | t :: F => (insertT_perm t _).trans ((sortForest_perm F).cons t)

theorem sortForest_sorted : ∀ F, SortedW (sortForest F)
  | [] => List.Pairwise.nil
  | t :: F => insertT_sorted t _ (sortForest_sorted F)

theorem huffLoop_reach : ∀ (n : Nat) (F : List HTree), SortedW F → F ≠ [] → F.length ≤ n + 1 →
    ∃ t, huffLoop n F = some t ∧ HuffReach F t := by
  intro n
  induction n with
  | zero =>
    intro F _ hne hlen
    match F, hne, hlen with
    | [t], _, _ => exact ⟨t, rfl, .done t⟩
    | _ :: _ :: _, _, hlen => simp at hlen
  | succ n ih =>
    intro F hs hne hlen
    match F, hs, hne, hlen with
    | [t], _, _, _ => exact ⟨t, rfl, .done t⟩
    | a :: b :: R, hs, _, hlen =>
      unfold SortedW at hs
      rw [List.pairwise_cons, List.pairwise_cons] at hs
      obtain ⟨t, ht, hr⟩ := ih (insertT (HTree.node a b) R) (insertT_sorted _ _ hs.2.2)
        (fun h0 => by have := (insertT_perm (HTree.node a b) R).length_eq; rw [h0] at this; simp at this)
        (by rw [(insertT_perm (HTree.node a b) R).length_eq]; simp only [List.length_cons] at hlen ⊢; omega)
      refine ⟨t, by simp only [huffLoop]; exact ht, ?_⟩
      exact .step ⟨a, b, R, .refl _, hs.1, hs.2.1, insertT_perm _ _⟩ hr

theorem huffTree_nil : huffTree [] = none := rfl

/-- the deterministic run is one of the runs of the loop -/
theorem huffTree_run (ws : List Nat) (hne : ws ≠ []) : ∃ t, huffTree ws = some t ∧ HuffRun ws t := by
  have hlen : (leafForest ws).length = ws.length := by simp [leafForest]
  have hp := sortForest_perm (leafForest ws)
  obtain ⟨t, ht, hr⟩ := huffLoop_reach ws.length (sortForest (leafForest ws)) (sortForest_sorted _)
    (fun h0 => by
      have := hp.length_eq; rw [h0, hlen] at this
      exact hne (List.eq_nil_of_length_eq_zero this.symm))
    (by rw [hp.length_eq, hlen]; omega)
  exact ⟨t, ht, hr.perm hp⟩

theorem huffCost_of_tree {ws : List Nat} {t : HTree} (h : huffTree ws = some t) : huffCost ws = t.cost := by
  simp [huffCost, h]

theorem huffCost_nil : huffCost [] = 0 := rfl

theorem huffCost_singleton (w : Nat) : huffCost [w] = 0 := rfl

/-- **every tie-breaking of the loop of `make_huffman_code` has cost `huffCost ws`** -/
theorem huffRun_cost {ws : List Nat} {t : HTree} (h : HuffRun ws t) : t.cost = huffCost ws := by
  obtain ⟨t', ht', hr'⟩ := huffTree_run ws h.ne_nil
  rw [huffCost_of_tree ht']
  exact huffRun_cost_eq h hr'

/-! ### the cost computed on weights alone -/

/-- a run on weights can be replayed on any forest with those weights -/
theorem Huff.WRun.lift {ws : List Nat} {C : Nat} (h : WRun ws C) : ∀ F : List HTree, F.map HTree.weight = ws →
    ∃ t, HuffReach F t ∧ t.cost = (F.map HTree.cost).sum + C := by
  induction h with
  | done w =>
    intro F hF
    match F, hF with
    | [t], _ => exact ⟨t, .done t, by simp⟩
  | @step ws R a b C hperm ha hb _ ih =>
    intro F hF
    obtain ⟨F', hFF', hF'⟩ := perm_map_inv HTree.weight hperm F hF
    match F', hFF', hF' with
    | ta :: tb :: FR, hFF', hF' =>
      simp only [List.map_cons, List.cons.injEq] at hF'
      obtain ⟨rfl, rfl, rfl⟩ := hF'
      obtain ⟨t, hr, hcost⟩ := ih (HTree.node ta tb :: FR) rfl
      refine ⟨t, .step ⟨ta, tb, FR, hFF', ?_, ?_, .refl _⟩ hr, ?_⟩
      · intro u hu
        exact ha u.weight (by rw [← List.map_cons]; exact List.mem_map_of_mem hu)
      · intro u hu
        exact hb u.weight (List.mem_map_of_mem hu)
      · rw [hcost, (hFF'.map _).sum_nat]
        simp only [List.map_cons, List.sum_cons, HTree.cost]
        omega

theorem insertN_perm (x : Nat) : ∀ l, (insertN x l).Perm (x :: l)
  | [] => .refl _
  | y :: ys => by
    unfold insertN
    split
    · exact .refl _
    · exact ((insertN_perm x ys).cons y).trans (.swap ..)

theorem insertN_sorted (x : Nat) : ∀ l : List Nat, l.Pairwise (· ≤ ·) → (insertN x l).Pairwise (· ≤ ·)
  | [], _ => by simp [insertN]
  | y :: ys, h => by
    rw [List.pairwise_cons] at h
    unfold insertN
    split
    · rename_i hle
      rw [List.pairwise_cons]
      refine ⟨?_, List.pairwise_cons.2 h⟩
      intro z hz
      rcases List.mem_cons.1 hz with rfl | hz
      · exact hle
      · exact Nat.le_trans hle (h.1 z hz)
    · rename_i hnle
      rw [List.pairwise_cons]
      refine ⟨?_, insertN_sorted x ys h.2⟩
      intro z hz
      rcases List.mem_cons.1 ((insertN_perm x ys).mem_iff.1 hz) with rfl | hz
      · omega
      · exact h.1 z hz

theorem sortN_perm : ∀ l : List Nat, (l.foldr insertN []).Perm l
  | [] => .refl _
  | x :: l => (insertN_perm x _).trans ((sortN_perm l).cons x)

theorem sortN_sorted : ∀ l : List Nat, (l.foldr insertN []).Pairwise (· ≤ ·)
  | [] => List.Pairwise.nil
  | x :: l => insertN_sorted x _ (sortN_sorted l)

theorem costLoop_wrun : ∀ (n : Nat) (l : List Nat) (acc : Nat), l.Pairwise (· ≤ ·) → l ≠ [] →
    l.length ≤ n + 1 → ∃ C, WRun l C ∧ costLoop n l acc = acc + C := by
  intro n
  induction n with
  | zero =>
    intro l acc _ hne hlen
    match l, hne, hlen with
    | [w], _, _ => exact ⟨0, .done w, rfl⟩
    | _ :: _ :: _, _, hlen => simp at hlen
  | succ n ih =>
    intro l acc hs hne hlen
    match l, hs, hne, hlen with
    | [w], _, _, _ => exact ⟨0, .done w, rfl⟩
    | a :: b :: R, hs, _, hlen =>
      rw [List.pairwise_cons, List.pairwise_cons] at hs
      obtain ⟨C, hC, hl⟩ := ih (insertN (a + b) R) (acc + (a + b)) (insertN_sorted _ _ hs.2.2)
        (fun h0 => by have := (insertN_perm (a + b) R).length_eq; rw [h0] at this; simp at this)
        (by rw [(insertN_perm (a + b) R).length_eq]; simp only [List.length_cons] at hlen ⊢; omega)
      refine ⟨C + (a + b), .step (.refl _) hs.1 hs.2.1 (hC.perm (insertN_perm _ _)), ?_⟩
      simp only [costLoop, hl]
      omega

/-- **the cost computed on the weights alone is `huffCost`** -/
theorem huffCostW_eq (ws : List Nat) : huffCostW ws = huffCost ws := by
  by_cases hne : ws = []
  · subst hne; rfl
  · have hp := sortN_perm ws
    obtain ⟨C, hC, hl⟩ := costLoop_wrun ws.length (ws.foldr insertN []) 0 (sortN_sorted ws)
      (fun h0 => by
        have := hp.length_eq; rw [h0] at this
        exact hne (List.eq_nil_of_length_eq_zero this.symm))
      (by rw [hp.length_eq]; omega)
    obtain ⟨t, hr, hcost⟩ := (hC.perm hp).lift (leafForest ws) (leafForest_weights ws)
    rw [leafForest_costs] at hcost
    have := huffRun_cost (ws := ws) hr
    simp only [huffCostW, hl]
    omega

/-! ### optimality -/

/-- **Huffman's cost is minimal among all lengths satisfying Kraft's inequality** -/
theorem huffman_le_of_kraft (ws ls : List Nat) (L : Nat) (hlen : ls.length = ws.length)
    (hle : ∀ l ∈ ls, l ≤ L) (hk : (ls.map fun l => 2 ^ (L - l)).sum ≤ 2 ^ L) :
    huffCost ws ≤ weightedSum ws ls := by
  by_cases hne : ws = []
  · subst hne; simp [huffCost_nil]
  · obtain ⟨t, ht, hr⟩ := huffTree_run ws hne
    rw [huffCost_of_tree ht]
    exact huffRun_le_of_kraftOK hr L ls hlen ⟨hle, hk⟩

theorem prefixFree_pairwise {codes : List Bits} (h : PrefixFree codes) : codes.Pairwise PFrel := by
  rw [List.pairwise_iff_getElem]
  intro i j hi hj hij
  constructor
  · intro hp; have := h i j hi hj hp; omega
  · intro hp; have := h j i hj hi hp; omega

theorem pairwise_prefixFree {codes : List Bits} (h : codes.Pairwise PFrel) : PrefixFree codes := by
  rw [List.pairwise_iff_getElem] at h
  intro i j hi hj hp
  rcases Nat.lt_trichotomy i j with hlt | heq | hgt
  · exact ((h i j hi hj hlt).1 hp).elim
  · exact heq
  · exact ((h j i hj hi hgt).2 hp).elim

theorem weightedLen_eq_weightedSum (ws : List Nat) (codes : List Bits) :
    weightedLen ws codes = weightedSum ws (codes.map List.length) := by
  simp only [weightedLen, weightedSum, List.zip_map_right, List.map_map]
  rfl

/-- the lengths of a pairwise incomparable code are Kraft-feasible -/
theorem kraftOK_of_pairwise {codes : List Bits} (h : codes.Pairwise PFrel) :
    KraftOK (maxLen codes) (codes.map List.length) := by
  constructor
  · intro l hl
    obtain ⟨c, hc, rfl⟩ := List.mem_map.1 hl
    exact length_le_maxLen codes c hc
  · have := kraft_le (maxLen codes) codes h (length_le_maxLen codes)
    simpa [kraftSum, List.map_map, Function.comp_def] using this

/-- **Huffman's cost is minimal among pairwise incomparable codes** -/
theorem huffman_optimal_pairwise (ws : List Nat) (codes : List Bits) (hlen : codes.length = ws.length)
    (hpf : codes.Pairwise PFrel) : huffCost ws ≤ weightedLen ws codes := by
  rw [weightedLen_eq_weightedSum]
  have hk := kraftOK_of_pairwise hpf
  exact huffman_le_of_kraft ws _ (maxLen codes) (by simpa using hlen) hk.1 hk.2

/-- **Huffman's cost is minimal among prefix-free codes** (any number of symbols; the cost is 0 for
at most one symbol) -/
theorem huffman_optimal (ws : List Nat) (codes : List Bits) (hlen : codes.length = ws.length)
    (hpf : PrefixFree codes) : huffCost ws ≤ weightedLen ws codes :=
  huffman_optimal_pairwise ws codes hlen (prefixFree_pairwise hpf)

/-- the same for every run of the loop -/
theorem huffRun_optimal {ws : List Nat} {t : HTree} (h : HuffRun ws t) (codes : List Bits)
    (hlen : codes.length = ws.length) (hpf : PrefixFree codes) : t.cost ≤ weightedLen ws codes := by
  rw [huffRun_cost h]; exact huffman_optimal ws codes hlen hpf

/-! ### the codes of a run -/

/-- the codes read off a run, as a rearrangement of the leaves of its tree by symbol -/
theorem run_codes_spec {ws : List Nat} {t : HTree} {codes : List Bits} (hr : HuffRun ws t)
    (hlen : codes.length = ws.length) (htc : TreeCodes t codes) :
    ∃ Q : List (Nat × Nat × Bits), Q.Perm (t.leaves []) ∧ Q.map (fun x => (x.1, x.2.1)) = symsOf ws ∧
      codes = Q.map fun x => x.2.2 := by
  have hperm : ((t.leaves []).map fun x => (x.1, x.2.1)).Perm (symsOf ws) := by
    rw [leaves_syms]; exact hr.syms_perm
  obtain ⟨Q, hQ, hQm⟩ := perm_map_inv _ hperm _ rfl
  refine ⟨Q, hQ.symm, hQm, ?_⟩
  have hQlen : Q.length = ws.length := by
    have := congrArg List.length hQm
    simpa [symsOf_length] using this
  apply List.ext_getElem
  · simp [hlen, hQlen]
  · intro i h1 h2
    have hi : i < ws.length := by omega
    have hiQ : i < Q.length := by omega
    have hQi : (Q[i].1, Q[i].2.1) = (i, ws[i]) := by
      have := symsOf_getElem ws i hi
      rw [← this]
      simp only [← hQm, List.getElem_map]
    have hid : Q[i].1 = i := (Prod.mk.inj hQi).1
    have hmem : Q[i] ∈ t.leaves [] := hQ.symm.mem_iff.1 (List.getElem_mem hiQ)
    have := htc Q[i] hmem
    rw [hid, List.getElem?_eq_getElem h1] at this
    simpa using this

/-- the weighted length of the codes read off a run is the cost of its tree -/
theorem weightedLen_of_run {ws : List Nat} {t : HTree} {codes : List Bits} (hr : HuffRun ws t)
    (hlen : codes.length = ws.length) (htc : TreeCodes t codes) :
    weightedLen ws codes = t.cost := by
  obtain ⟨Q, hQ, hQm, hc⟩ := run_codes_spec hr hlen htc
  have hw : ws = Q.map fun x => x.2.1 := by
    rw [← symsOf_snd ws, ← hQm]; simp [List.map_map, Function.comp_def]
  have e : weightedLen ws codes = pcost (Q.map fun x => (x.2.1, x.2.2.length)) := by
    rw [hc]
    conv => lhs; rw [hw]
    simp only [weightedLen, List.zip_map', pcost, List.map_map, Function.comp_def]
  rw [e, pcost_perm (hQ.map _), leaves_pcost]
  simp

theorem pairwise_of_run {ws : List Nat} {t : HTree} {codes : List Bits} (hr : HuffRun ws t)
    (hlen : codes.length = ws.length) (htc : TreeCodes t codes) : codes.Pairwise PFrel := by
  obtain ⟨Q, hQ, -, hc⟩ := run_codes_spec hr hlen htc
  rw [hc, List.pairwise_map]
  exact hQ.symm.pairwise (leaves_pairwise t []) (fun h => PFrel_symm h)

theorem pairwise_prefixFreeB : ∀ (codes : List Bits), codes.Pairwise PFrel → prefixFreeB codes = true
  | [], _ => rfl
  | c :: cs, h => by
    rw [List.pairwise_cons] at h
    simp only [prefixFreeB, Bool.and_eq_true, List.all_eq_true, Bool.not_eq_true', isPre]
    refine ⟨?_, pairwise_prefixFreeB cs h.2⟩
    intro c' hc'
    have := h.1 c' hc'
    constructor
    · cases hb : c.isPrefixOf c' with
      | false => rfl
      | true => exact (this.1 (List.isPrefixOf_iff_prefix.1 hb)).elim
    · cases hb : c'.isPrefixOf c with
      | false => rfl
      | true => exact (this.2 (List.isPrefixOf_iff_prefix.1 hb)).elim

theorem kraftSum_perm {L : Nat} {cs cs' : List Bits} (h : cs.Perm cs') : kraftSum L cs = kraftSum L cs' :=
  (h.map _).sum_nat

theorem complete_of_run {ws : List Nat} {t : HTree} {codes : List Bits} (hr : HuffRun ws t)
    (hlen : codes.length = ws.length) (htc : TreeCodes t codes) : completeTree codes = true := by
  obtain ⟨Q, hQ, -, hc⟩ := run_codes_spec hr hlen htc
  simp only [completeTree, Bool.and_eq_true, beq_iff_eq]
  refine ⟨pairwise_prefixFreeB _ (pairwise_of_run hr hlen htc), ?_⟩
  have hp : codes.Perm ((t.leaves []).map fun x => x.2.2) := by rw [hc]; exact hQ.map _
  rw [kraftSum_perm hp]
  have hle : ∀ x ∈ t.leaves [], x.2.2.length ≤ maxLen codes := by
    intro x hx
    exact length_le_maxLen _ _ (hp.mem_iff.2 (List.mem_map_of_mem hx))
  have := leaves_kraft (maxLen codes) t [] hle
  simpa [kraftSum, List.map_map, Function.comp_def] using this

/-! ### every answer of `make_huffman_code` (`HuffCode`: any tie-breaking) -/

/-- **every answer is prefix-free** -/
theorem HuffCode.prefixFree {ws : List Nat} {codes : List Bits} (h : HuffCode ws codes) : PrefixFree codes := by
  obtain ⟨hlen, t, hr, htc⟩ := h
  exact pairwise_prefixFree (pairwise_of_run hr hlen htc)

/-- **every answer is a complete prefix code** (what the decoder's `validate_prefix_tree` accepts) -/
theorem HuffCode.complete {ws : List Nat} {codes : List Bits} (h : HuffCode ws codes) :
    completeTree codes = true := by
  obtain ⟨hlen, t, hr, htc⟩ := h
  exact complete_of_run hr hlen htc

/-- **every answer has the same total weighted length, `huffCost ws`** -/
theorem HuffCode.cost {ws : List Nat} {codes : List Bits} (h : HuffCode ws codes) :
    weightedLen ws codes = huffCost ws := by
  obtain ⟨hlen, t, hr, htc⟩ := h
  rw [weightedLen_of_run hr hlen htc, huffRun_cost hr]

/-- **every answer is optimal among prefix-free codes** -/
theorem HuffCode.optimal {ws : List Nat} {codes : List Bits} (h : HuffCode ws codes) (codes' : List Bits)
    (hlen : codes'.length = ws.length) (hpf : PrefixFree codes') :
    weightedLen ws codes ≤ weightedLen ws codes' := by
  rw [h.cost]; exact huffman_optimal ws codes' hlen hpf

/-! ### the codes of the deterministic run -/

theorem find_of_nodup {β : Type} : ∀ (l : List (Nat × β)) (x : Nat × β), (l.map Prod.fst).Nodup → x ∈ l →
    l.find? (fun y => y.1 == x.1) = some x
  | [], _, _, hx => by cases hx
  | y :: l, x, hnd, hx => by
    simp only [List.map_cons, List.nodup_cons] at hnd
    rcases List.mem_cons.1 hx with rfl | hx
    · simp
    · have hne : y.1 ≠ x.1 := fun e => hnd.1 (e ▸ List.mem_map_of_mem hx)
      rw [List.find?_cons_of_neg (by simpa using hne)]
      exact find_of_nodup l x hnd.2 hx

theorem huffCodes_length (ws : List Nat) : (huffCodes ws).length = ws.length := by
  simp [huffCodes]

theorem huffCodes_nil : huffCodes [] = [] := rfl

theorem huffCodes_singleton (w : Nat) : huffCodes [w] = [[]] := rfl

theorem huffCodes_treeCodes {ws : List Nat} {t : HTree} (ht : huffTree ws = some t) (hr : HuffRun ws t) :
    TreeCodes t (huffCodes ws) := by
  have hperm : ((t.leaves []).map fun x => (x.1, x.2.1)).Perm (symsOf ws) := by
    rw [leaves_syms]; exact hr.syms_perm
  have e : (t.leaves []).map Prod.fst = ((t.leaves []).map fun x => (x.1, x.2.1)).map Prod.fst := by
    simp [List.map_map, Function.comp_def]
  have hfst : ((t.leaves []).map Prod.fst).Perm (List.range' 0 ws.length) := by
    rw [e, ← symsOf_fst]; exact hperm.map Prod.fst
  have hnd : ((t.leaves []).map Prod.fst).Nodup := hfst.symm.nodup List.nodup_range'
  intro x hx
  have hlt : x.1 < ws.length := by
    have := hfst.mem_iff.1 (List.mem_map_of_mem hx)
    simpa [List.mem_range'_1] using this
  have hf := find_of_nodup (t.leaves []) x hnd hx
  simp [huffCodes, ht, hlt, codeOf, hf]

/-- the deterministic run is one of the answers -/
theorem huffCodes_huffCode (ws : List Nat) (hne : ws ≠ []) : HuffCode ws (huffCodes ws) := by
  obtain ⟨t, ht, hr⟩ := huffTree_run ws hne
  exact ⟨huffCodes_length ws, t, hr, huffCodes_treeCodes ht hr⟩

/-- the codes are pairwise incomparable -/
theorem huffCodes_pairwise (ws : List Nat) : (huffCodes ws).Pairwise PFrel := by
  by_cases hne : ws = []
  · subst hne; rw [huffCodes_nil]; exact List.Pairwise.nil
  · exact prefixFree_pairwise (huffCodes_huffCode ws hne).prefixFree

/-- **the codes are prefix-free** -/
theorem huffCodes_prefixFree (ws : List Nat) : PrefixFree (huffCodes ws) :=
  pairwise_prefixFree (huffCodes_pairwise ws)

/-- **the weighted length of the codes is `huffCost`** -/
theorem huffCost_eq_weightedLen (ws : List Nat) : huffCost ws = weightedLen ws (huffCodes ws) := by
  by_cases hne : ws = []
  · subst hne; rfl
  · exact (huffCodes_huffCode ws hne).cost.symm

/-- the codes are optimal among prefix-free codes -/
theorem huffCodes_optimal (ws : List Nat) (codes : List Bits) (hlen : codes.length = ws.length)
    (hpf : PrefixFree codes) : weightedLen ws (huffCodes ws) ≤ weightedLen ws codes := by
  rw [← huffCost_eq_weightedLen]; exact huffman_optimal ws codes hlen hpf

/-- for at least one symbol the codes are a complete prefix code (what the decoder insists on) -/
theorem huffCodes_complete (ws : List Nat) (hne : ws ≠ []) : completeTree (huffCodes ws) = true :=
  (huffCodes_huffCode ws hne).complete

end Qco
