/-
A complete prefix code (pairwise prefix-free, Kraft sum exactly one) covers every bit string:
every string has a code as a prefix or is a prefix of a code. Hence `matchCode` on a table that
passes `completeTree` never answers `corrupt`.
-/
import Qco.Lemmas.SafeFile
namespace Qco
open Parser

/-- neither is a prefix of the other -/
def PFrel (a b : Bits) : Prop := ¬ a <+: b ∧ ¬ b <+: a

theorem prefixFreeB_pairwise (codes : List Bits) (h : prefixFreeB codes = true) : codes.Pairwise PFrel := by
  induction codes with
  | nil => exact List.Pairwise.nil
  | cons c cs ih =>
    simp only [prefixFreeB, Bool.and_eq_true, List.all_eq_true, Bool.not_eq_true', isPre] at h
    obtain ⟨hall, hcs⟩ := h
    rw [List.pairwise_cons]
    refine ⟨?_, ih hcs⟩
    intro c' hc'
    obtain ⟨h1, h2⟩ := hall c' hc'
    constructor
    · intro hp; rw [← List.isPrefixOf_iff_prefix] at hp; rw [hp] at h1; cases h1
    · intro hp; rw [← List.isPrefixOf_iff_prefix] at hp; rw [hp] at h2; cases h2

/-- the tails of the codes that start with `b` -/
def subCodes (b : Bool) : List Bits → List Bits
  | [] => []
  | [] :: cs => subCodes b cs
  | (b' :: r) :: cs => if b' = b then r :: subCodes b cs else subCodes b cs

theorem mem_subCodes (b : Bool) (codes : List Bits) (r : Bits) :
    r ∈ subCodes b codes ↔ (b :: r) ∈ codes := by
  induction codes with
  | nil => simp [subCodes]
  | cons c cs ih =>
    cases c with
    | nil => simp [subCodes, ih]
    | cons b' r' =>
      simp only [subCodes]
      by_cases hb : b' = b
      · subst hb; simp [ih]
      · simp only [hb, if_false, ih, List.mem_cons, List.cons.injEq]
        constructor
        · intro h; exact Or.inr h
        · intro h
          rcases h with ⟨h1, _⟩ | h
          · exact absurd h1.symm hb
          · exact h

theorem PFrel_of_cons {b : Bool} {r r' : Bits} (h : PFrel (b :: r) (b :: r')) : PFrel r r' := by
  constructor
  · intro hp; exact h.1 (List.cons_prefix_cons.mpr ⟨rfl, hp⟩)
  · intro hp; exact h.2 (List.cons_prefix_cons.mpr ⟨rfl, hp⟩)

theorem pairwise_subCodes (b : Bool) (codes : List Bits) (h : codes.Pairwise PFrel) :
    (subCodes b codes).Pairwise PFrel := by
  induction codes with
  | nil => exact List.Pairwise.nil
  | cons c cs ih =>
    rw [List.pairwise_cons] at h
    obtain ⟨hc, hcs⟩ := h
    cases c with
    | nil => simpa [subCodes] using ih hcs
    | cons b' r =>
      simp only [subCodes]
      by_cases hb : b' = b
      · subst hb
        simp only [if_true, List.pairwise_cons]
        refine ⟨?_, ih hcs⟩
        intro r' hr'
        rw [mem_subCodes] at hr'
        exact PFrel_of_cons (hc _ hr')
      · simp only [hb, if_false]; exact ih hcs

theorem subCodes_length_le (b : Bool) (codes : List Bits) (L : Nat) (h : ∀ c ∈ codes, c.length ≤ L + 1) :
    ∀ c ∈ subCodes b codes, c.length ≤ L := by
  intro c hc
  rw [mem_subCodes] at hc
  have := h _ hc
  simp only [List.length_cons] at this
  omega

theorem kraftSum_nil (L : Nat) : kraftSum L [] = 0 := rfl

theorem kraftSum_cons (L : Nat) (c : Bits) (cs : List Bits) :
    kraftSum L (c :: cs) = 2 ^ (L - c.length) + kraftSum L cs := by
  simp [kraftSum]

theorem kraftSum_split (L : Nat) (codes : List Bits) (hn : [] ∉ codes) :
    kraftSum (L + 1) codes = kraftSum L (subCodes false codes) + kraftSum L (subCodes true codes) := by
  induction codes with
  | nil => rfl
  | cons c cs ih =>
    have hn' : [] ∉ cs := fun h => hn (List.mem_cons_of_mem _ h)
    cases c with
    | nil => exact absurd List.mem_cons_self hn
    | cons b r =>
      have e : L + 1 - (b :: r).length = L - r.length := by simp only [List.length_cons]; omega
      rw [kraftSum_cons, ih hn', e]
      cases b
      · simp only [subCodes, if_true, Bool.false_eq_true, if_false, kraftSum_cons]; omega
      · simp only [subCodes, if_true, Bool.true_eq_false, if_false, kraftSum_cons]; omega

theorem pairwise_nil_mem (codes : List Bits) (h : codes.Pairwise PFrel) (hn : [] ∈ codes) :
    codes = [[]] := by
  cases codes with
  | nil => cases hn
  | cons c cs =>
    rw [List.pairwise_cons] at h
    obtain ⟨hc, _⟩ := h
    cases cs with
    | nil => simpa using hn
    | cons c2 cs2 =>
      exfalso
      have h2 := hc c2 List.mem_cons_self
      cases c with
      | nil => exact h2.1 List.nil_prefix
      | cons b r =>
        have : [] ∈ c2 :: cs2 := by
          rcases List.mem_cons.mp hn with h | h
          · cases h
          · exact h
        exact (hc [] this).2 List.nil_prefix

/-- Kraft's inequality for prefix-free codes of bounded length -/
theorem kraft_le (L : Nat) : ∀ codes : List Bits, codes.Pairwise PFrel →
    (∀ c ∈ codes, c.length ≤ L) → kraftSum L codes ≤ 2 ^ L := by
  induction L with
  | zero =>
    intro codes hp hl
    cases codes with
    | nil => simp [kraftSum]
    | cons a cs =>
      cases cs with
      | nil => simp [kraftSum]
      | cons b rest =>
        exfalso
        rw [List.pairwise_cons] at hp
        have ha : a = [] := List.eq_nil_of_length_eq_zero (by have := hl a List.mem_cons_self; omega)
        have := (hp.1 b List.mem_cons_self).1
        rw [ha] at this
        exact this List.nil_prefix
  | succ L ih =>
    intro codes hp hl
    by_cases hn : [] ∈ codes
    · rw [pairwise_nil_mem codes hp hn]; simp [kraftSum]
    · rw [kraftSum_split L codes hn]
      have h0 := ih (subCodes false codes) (pairwise_subCodes _ _ hp) (subCodes_length_le _ _ _ hl)
      have h1 := ih (subCodes true codes) (pairwise_subCodes _ _ hp) (subCodes_length_le _ _ _ hl)
      rw [Nat.pow_succ]; omega

/-- a prefix-free code with Kraft sum one covers every string -/
theorem kraft_complete (L : Nat) : ∀ codes : List Bits, codes.Pairwise PFrel →
    (∀ c ∈ codes, c.length ≤ L) → kraftSum L codes = 2 ^ L →
    ∀ s : Bits, ∃ c ∈ codes, c <+: s ∨ s <+: c := by
  induction L with
  | zero =>
    intro codes hp hl hk s
    cases codes with
    | nil => simp [kraftSum] at hk
    | cons a cs =>
      have ha : a = [] := List.eq_nil_of_length_eq_zero (by have := hl a List.mem_cons_self; omega)
      exact ⟨a, List.mem_cons_self, Or.inl (by rw [ha]; exact List.nil_prefix)⟩
  | succ L ih =>
    intro codes hp hl hk s
    by_cases hn : [] ∈ codes
    · exact ⟨[], hn, Or.inl List.nil_prefix⟩
    · cases s with
      | nil =>
        cases codes with
        | nil =>
          have hpos := Nat.two_pow_pos (L + 1)
          simp [kraftSum] at hk
          omega
        | cons a cs => exact ⟨a, List.mem_cons_self, Or.inr List.nil_prefix⟩
      | cons b s' =>
        have hsplit := kraftSum_split L codes hn
        have h0 := kraft_le L (subCodes false codes) (pairwise_subCodes _ _ hp) (subCodes_length_le _ _ _ hl)
        have h1 := kraft_le L (subCodes true codes) (pairwise_subCodes _ _ hp) (subCodes_length_le _ _ _ hl)
        have hb : kraftSum L (subCodes b codes) = 2 ^ L := by
          rw [Nat.pow_succ] at hk
          cases b <;> omega
        obtain ⟨c', hc', hrel⟩ := ih (subCodes b codes) (pairwise_subCodes _ _ hp)
          (subCodes_length_le _ _ _ hl) hb s'
        rw [mem_subCodes] at hc'
        refine ⟨b :: c', hc', ?_⟩
        rcases hrel with h | h
        · exact Or.inl (List.cons_prefix_cons.mpr ⟨rfl, h⟩)
        · exact Or.inr (List.cons_prefix_cons.mpr ⟨rfl, h⟩)

theorem foldl_max_ge (codes : List Bits) (acc : Nat) :
    acc ≤ codes.foldl (fun m c => max m c.length) acc ∧
      ∀ c ∈ codes, c.length ≤ codes.foldl (fun m c => max m c.length) acc := by
  induction codes generalizing acc with
  | nil => simp
  | cons a cs ih =>
    simp only [List.foldl_cons]
    obtain ⟨h1, h2⟩ := ih (max acc a.length)
    refine ⟨by omega, ?_⟩
    intro c hc
    rcases List.mem_cons.mp hc with h | h
    · subst h; omega
    · exact h2 c h

theorem length_le_maxLen (codes : List Bits) : ∀ c ∈ codes, c.length ≤ maxLen codes :=
  (foldl_max_ge codes 0).2

theorem completeTree_covers (codes : List Bits) (h : completeTree codes = true) (s : Bits) :
    ∃ c ∈ codes, c <+: s ∨ s <+: c := by
  simp only [completeTree, Bool.and_eq_true, beq_iff_eq] at h
  exact kraft_complete (maxLen codes) codes (prefixFreeB_pairwise codes h.1) (length_le_maxLen codes) h.2 s

/-- on a complete prefix code the eager lookup never answers `corrupt` -/
theorem matchCode_complete (codes : List Bits) (h : completeTree codes = true) (s : Bits) :
    matchCode codes s ≠ .corrupt := by
  intro hc
  obtain ⟨h1, h2⟩ := matchCode_corrupt hc
  obtain ⟨c, hmem, hrel⟩ := completeTree_covers codes h s
  rcases hrel with h' | h'
  · exact h1 c hmem h'
  · exact h2 c hmem h'

end Qco
