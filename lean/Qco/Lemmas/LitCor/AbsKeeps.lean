/-
Corollaries of layer DL, part 2: what the operations of the ABSTRACT decompressor do to the `flags` field
(needed to say which `Flags` the literal metadata struct was built with: `RMeta.ofSpec fl`).
-/
import Qco.Lemmas.LitCor.Base
import Qco.Lemmas.OpAtomic
namespace Qco
namespace DecompLit
open Qco.WB Qco.Op Qco.MetaIO

theorem op_withReader_fst {α : Type} (σ : Op.St) (F : Rd → Op.St → Out α × Op.St × Rd) :
    (Op.withReader σ F).1 = (F ⟨σ.rest, σ.pos⟩ σ).1 := by
  unfold Op.withReader
  simp only
  rcases F ⟨σ.rest, σ.pos⟩ σ with ⟨o, s', r'⟩
  cases o <;> rfl

theorem op_withReader_flags {α : Type} (σ : Op.St) (F : Rd → Op.St → Out α × Op.St × Rd) :
    (Op.withReader σ F).2.flags = (F ⟨σ.rest, σ.pos⟩ σ).2.1.flags := by
  unfold Op.withReader
  simp only
  rcases F ⟨σ.rest, σ.pos⟩ σ with ⟨o, s', r'⟩
  cases o <;> rfl

/-- a successful `header` stores the flags it returns -/
theorem op_header_flags (d : DType) (σ : Op.St) (fl : Flags) (h : (Op.header d σ).1 = .ok fl) :
    (Op.header d σ).2.flags = some fl := by
  revert h
  unfold Op.header
  split
  · intro h; cases h
  · split
    · intro h; cases h
    · rw [op_withReader_fst, op_withReader_flags]
      cases runAligned (decHeader d) ⟨σ.rest, σ.pos⟩ with
      | ok v => obtain ⟨fl', rd'⟩ := v; intro h; injection h with h; rw [h]
      | err e => intro h; cases h

theorem op_chunkMetadata_flags (gb : Nat → Nat) (d : DType) (σ : Op.St) :
    (Op.chunkMetadata gb d σ).2.flags = σ.flags := by
  unfold Op.chunkMetadata
  split
  · rfl
  · split
    · rfl
    · split
      · rfl
      · rename_i fl hfl hb
        rw [op_withReader_flags]
        cases runAligned (Op.readChunkMeta gb d fl) ⟨σ.rest, σ.pos⟩ with
        | err e => rfl
        | ok v =>
          obtain ⟨m, rd'⟩ := v
          cases m with
          | none => rfl
          | some m =>
            simp only
            cases newBody fl m <;> rfl

theorem op_chunkBody_flags (L : Matcher) (d : DType) (σ : Op.St) :
    (Op.chunkBody L d σ).2.flags = σ.flags := by
  unfold Op.chunkBody
  split
  · rfl
  · rw [op_withReader_flags]
    cases σ.body with
    | none => rfl
    | some b =>
      simp only
      rcases nextBatch L d b (b.total + b.n + 1) true ⟨σ.rest, σ.pos⟩ with ⟨o, b', rd'⟩
      cases o <;> rfl

theorem op_skipChunkBody_flags (σ : Op.St) : (Op.skipChunkBody σ).2.flags = σ.flags := by
  unfold Op.skipChunkBody
  split
  · rfl
  · split
    · rfl
    · simp only
      split <;> rfl

/-- the flags of the decompressor after `next` answered `it` -/
def flagsAfter (fl : Option Flags) : Option Op.Item → Option Flags
  | some (.flags f) => some f
  | _ => fl

/-- `next` sets the flags exactly when it yields them -/
theorem op_next_flags (L : Matcher) (gb : Nat → Nat) (d : DType) (limit : Nat) (σ : Op.St) :
    (Op.next L gb d limit σ).2.flags =
      match (Op.next L gb d limit σ).1 with
      | .ok it => flagsAfter σ.flags it
      | .err _ => σ.flags := by
  unfold Op.next
  rw [op_withReader_fst, op_withReader_flags]
  generalize (⟨σ.rest, σ.pos⟩ : Rd) = rd
  obtain ⟨rest, pos, freed, flags, body, terminated⟩ := σ
  simp only
  cases terminated with
  | true => rfl
  | false =>
    simp only [Bool.false_eq_true, if_false]
    cases flags with
    | none =>
      simp only
      cases runAligned (decHeader d) rd with
      | ok v => rfl
      | err e => cases e <;> rfl
    | some fl =>
      simp only
      cases body with
      | none =>
        simp only
        cases runAligned (Op.readChunkMeta gb d fl) rd with
        | err e => cases e <;> rfl
        | ok v =>
          obtain ⟨m, rd'⟩ := v
          cases m with
          | none => rfl
          | some m =>
            simp only
            cases newBody fl m with
            | err e => rfl
            | ok b =>
              simp only
              split
              · rcases nextBatch L d b limit false rd' with ⟨o, b', rd''⟩
                cases o <;> rfl
              · rfl
      | some b =>
        simp only
        rcases nextBatch L d b limit false rd with ⟨o, b', rd'⟩
        cases o with
        | err e => rfl
        | ok nb =>
          simp only
          split <;> rfl

end DecompLit
end Qco
