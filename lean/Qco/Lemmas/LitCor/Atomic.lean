/-
Corollaries of layer DL, part 3: failed calls leave the LITERAL state unchanged — proved directly on the literal
model (`Qco/Op/DecompLit.lean`), without the simulation: these are statements about the commit logic of
`with_reader` (the closure's changes to `state` persist also on `Err`, only `bit_idx` is held back), the
snapshot/restore of `decompress_unsigneds_limited` and of `simple_decompress`, and about `reconstruct_nums` never
failing after the `NumDecompressor` has already committed.
-/
import Qco.Lemmas.LitCor.Base
namespace Qco
namespace DecompLit
open Qco.WB Qco.Op Qco.MetaIO Qco.NumDec

/-! ### `reconstruct_nums` has no `Err` exit -/

theorem shiftLoop_no_err (ds : DType) (fuel o : Nat) (ms : List Nat) (k : String) :
    shiftLoop ds fuel o ms ≠ .err k := by
  induction fuel generalizing o ms with
  | zero => intro h; cases h
  | succ fuel ih =>
    unfold shiftLoop
    split
    · exact ih _ _
    · intro h; cases h

theorem reconLoop_no_err (d : DType) (deltas : List Nat) (order n i : Nat) (ms res : List Nat) (k : String) :
    reconLoop d deltas order n i ms res ≠ .err k := by
  induction n generalizing i ms res with
  | zero => intro h; cases h
  | succ n ih =>
    unfold reconLoop
    split
    · intro h; cases h
    · simp only
      split
      · intro h; cases h
      · split
        · intro h; cases h
        · rename_i e he; exact absurd he (shiftLoop_no_err _ _ _ _ _)
        · split
          · split
            · exact ih _ _ _
            · intro h; cases h
          · exact ih _ _ _

theorem reconstructNums_no_err (d : DType) (moments deltas : List Nat) (n : Nat) (k : String) :
    reconstructNums d moments deltas n ≠ .err k :=
  reconLoop_no_err d deltas _ n 0 moments [] k

/-! ### the snapshot/restore of `decompress_unsigneds_limited` -/

theorem dul_err_restores (nd : NumDecSt) (w : Words) (reader : Reader) (limit : Nat) (eoi : Bool)
    (k : String) (nd' : NumDecSt) (r' : Reader)
    (h : decompressUnsignedsLimited nd w reader limit eoi = (.err k, nd', r')) : nd' = nd ∧ r' = reader := by
  unfold decompressUnsignedsLimited at h
  simp only at h
  split at h
  · simp only [Prod.mk.injEq] at h
    exact ⟨h.2.1.symm, h.2.2.symm⟩
  · rename_i out hne
    rw [h] at hne
    exact absurd rfl (hne k nd' r')

/-- a failed `decompress_next_batch` leaves the `ChunkBodyDecompressor` and the reader as they were -/
theorem dnb_err_restores (d : DType) (cbd : CBD) (w : Words) (reader : Reader) (limit : Nat) (eoi : Bool)
    (k : String) (cbd' : CBD) (r' : Reader)
    (h : cbd.decompressNextBatch d w reader limit eoi = (.err k, cbd', r')) : cbd' = cbd := by
  unfold CBD.decompressNextBatch at h
  cases cbd with
  | simple nd =>
    simp only at h
    split at h
    · simp at h
    · rename_i k0 nd0 r0 hd
      obtain ⟨rfl, _⟩ := dul_err_restores _ _ _ _ _ _ _ _ hd
      simp only [Prod.mk.injEq] at h
      exact h.2.1.symm
    · simp at h
  | delta n nd ms np =>
    simp only at h
    split at h
    · rename_i k0 nd0 r0 hd
      obtain ⟨rfl, _⟩ := dul_err_restores _ _ _ _ _ _ _ _ hd
      simp only [Prod.mk.injEq] at h
      exact h.2.1.symm
    · simp at h
    · split at h
      · simp at h
      · split at h
        · simp at h
        · rename_i k0 hr
          exact absurd hr (reconstructNums_no_err _ _ _ _ _)
        · split at h <;> split at h <;> simp at h

/-! ### `with_reader` -/

theorem withReader_err_unchanged {α : Type} (σ : LitSt) (f : Reader → State → R α × State × Reader)
    (hf : ∀ k st' r', f (Reader.seekTo σ.state.bitIdx) σ.state = (.err k, st', r') → st' = σ.state)
    (k : String) (h : (withReader σ f).1 = .err k) : (withReader σ f).2 = σ := by
  unfold withReader at h ⊢
  simp only at h ⊢
  have hf' := hf
  generalize f (Reader.seekTo σ.state.bitIdx) σ.state = X at h hf' ⊢
  obtain ⟨o, st', r'⟩ := X
  cases o with
  | ok a => cases h
  | panic => cases h
  | err k' =>
    have := hf' k' st' r' rfl
    subst this
    cases σ; rfl

theorem withReader_fst {α : Type} (σ : LitSt) (f : Reader → State → R α × State × Reader) :
    (withReader σ f).1 = (f (Reader.seekTo σ.state.bitIdx) σ.state).1 := by
  unfold withReader
  simp only
  rcases f (Reader.seekTo σ.state.bitIdx) σ.state with ⟨o, st', r'⟩
  cases o <;> rfl

/-! ### the operations -/

theorem header_err_unchanged (d : DType) (σ : LitSt) (k : String) (h : (header d σ).1 = .err k) :
    (header d σ).2 = σ := by
  unfold header at h ⊢
  split
  · rfl
  · rfl
  · rename_i hc
    simp only [hc] at h
    split
    · rfl
    · rename_i hfl
      rw [if_neg hfl] at h
      refine withReader_err_unchanged σ _ ?_ k h
      intro k' st' r' hf
      split at hf
      · simp at hf
      · simp only [Prod.mk.injEq] at hf; exact hf.2.1.symm
      · simp at hf

theorem chunkMetadata_err_unchanged (gb : Nat → Nat) (d : DType) (σ : LitSt) (k : String)
    (h : (chunkMetadata gb d σ).1 = .err k) : (chunkMetadata gb d σ).2 = σ := by
  unfold chunkMetadata at h ⊢
  split
  · rfl
  · rfl
  · rename_i hc
    simp only [hc] at h
    split
    · rfl
    · rename_i h1
      rw [if_neg h1] at h
      split
      · rfl
      · rename_i h2
        rw [if_neg h2] at h
        refine withReader_err_unchanged σ _ ?_ k h
        intro k' st' r' hf
        split at hf
        · simp at hf
        · split at hf
          · simp only [Prod.mk.injEq] at hf; exact hf.2.1.symm
          · simp at hf
          · simp at hf
          · split at hf
            · simp only [Prod.mk.injEq] at hf; exact hf.2.1.symm
            · simp at hf
            · simp at hf

theorem skipChunkBody_err_unchanged (σ : LitSt) (k : String) (h : (skipChunkBody σ).1 = .err k) :
    (skipChunkBody σ).2 = σ := by
  unfold skipChunkBody at h ⊢
  split
  · rfl
  · rfl
  · rename_i hc
    simp only [hc] at h
    split
    · rfl
    · rename_i cbd hcbd
      simp only [hcbd] at h
      split
      · rfl
      · rfl
      · rename_i rem hrem
        simp only [hrem] at h
        split
        · rfl
        · rename_i h1
          rw [if_neg h1] at h
          simp only at h ⊢
          split
          · rename_i h2; rw [if_pos h2] at h; cases h
          · rfl

theorem chunkBody_err_unchanged (d : DType) (σ : LitSt) (k : String) (h : (chunkBody d σ).1 = .err k) :
    (chunkBody d σ).2 = σ := by
  unfold chunkBody at h ⊢
  split
  · rfl
  · rfl
  · rename_i hc
    simp only [hc] at h
    refine withReader_err_unchanged σ _ ?_ k h
    intro k' st' r' hf
    split at hf
    · simp at hf
    · rename_i cbd hcbd
      split at hf
      · rename_i k0 cbd0 r0 hd
        have := dnb_err_restores _ _ _ _ _ _ _ _ _ hd
        subst this
        simp only [Prod.mk.injEq] at hf
        rw [← hf.2.1, ← hcbd]
      · simp at hf
      · simp at hf

theorem next_err_unchanged (gb : Nat → Nat) (d : DType) (limit : Nat) (σ : LitSt) (k : String)
    (h : (next gb d limit σ).1 = .err k) : (next gb d limit σ).2 = σ := by
  unfold next at h ⊢
  refine withReader_err_unchanged σ _ ?_ k h
  intro k' st' r' hf
  split at hf
  · simp at hf
  · split at hf
    · split at hf
      · simp at hf
      · split at hf
        · simp at hf
        · simp only [Prod.mk.injEq] at hf; exact hf.2.1.symm
      · simp at hf
    · split at hf
      · split at hf
        · simp at hf
        · split at hf
          · split at hf
            · split at hf
              · split at hf
                · simp only [Prod.mk.injEq] at hf; exact hf.2.1.symm
                · simp at hf
                · simp at hf
              · simp at hf
            · simp only [Prod.mk.injEq] at hf; exact hf.2.1.symm
            · simp at hf
          · simp at hf
          · split at hf
            · simp at hf
            · simp only [Prod.mk.injEq] at hf; exact hf.2.1.symm
          · simp at hf
      · split at hf
        · simp at hf
        · rename_i cbd hcbd
          split at hf
          · split at hf <;> simp at hf
          · rename_i k0 cbd0 r0 hd
            have := dnb_err_restores _ _ _ _ _ _ _ _ _ hd
            subst this
            simp only [Prod.mk.injEq] at hf
            rw [← hf.2.1, ← hcbd]
          · simp at hf

theorem free_err_unchanged (σ : LitSt) (k : String) (h : (free σ).1 = .err k) : (free σ).2 = σ := by
  unfold free at h ⊢
  simp only at h ⊢
  split
  · rename_i hk
    rw [if_pos hk] at h
    split
    · rfl
    · rename_i hp; simp only [hp] at h; cases h
    · rename_i w' hw
      simp only [hw] at h
      split at h <;> cases h
  · rfl

theorem simpleDecompress_words (gb : Nat → Nat) (d : DType) (σ : LitSt) :
    (simpleDecompress gb d σ).2.words = σ.words := by
  unfold simpleDecompress simpleDecompressDirty
  have h1 := header_words d σ
  generalize header d σ = H at h1 ⊢
  obtain ⟨o, σ1⟩ := H
  cases o with
  | err k => exact h1
  | panic => exact h1
  | ok a =>
    simp only at h1 ⊢
    have h2 := simpleLoop_words gb d ((σ.words.total - σ.state.bitIdx) / 8 + 2) σ1 []
    generalize simpleLoop gb d ((σ.words.total - σ.state.bitIdx) / 8 + 2) σ1 [] = SL at h2 ⊢
    obtain ⟨o2, σ2⟩ := SL
    cases o2 <;> exact h2.trans h1

theorem simpleDecompress_err_unchanged (gb : Nat → Nat) (d : DType) (σ : LitSt) (k : String)
    (h : (simpleDecompress gb d σ).1 = .err k) : (simpleDecompress gb d σ).2 = σ := by
  have hw := simpleDecompress_words gb d σ
  unfold simpleDecompress at h hw ⊢
  simp only at h hw ⊢
  generalize simpleDecompressDirty gb d σ = X at h hw ⊢
  obtain ⟨o, σ'⟩ := X
  cases o with
  | ok a => cases h
  | panic => cases h
  | err k' =>
    simp only at hw ⊢
    cases σ; cases σ'
    simp only at hw
    simp only [hw]

/-- **every failed call leaves the literal decompressor exactly as it was**: words, `bit_idx`, flags, body
decompressor, `terminated` -/
theorem litStep_err_unchanged (gb : Nat → Nat) (d : DType) (op : DOp) (σ : LitSt) (k : String)
    (h : (litStep gb d op σ).1 = .err k) : (litStep gb d op σ).2 = σ := by
  have key : ∀ {α : Type} {x : R α} {f : α → LOut}, mapR f x = .err k → x = .err k := by
    intro α x f hx
    cases x with
    | ok a => cases hx
    | err k' => injection hx with hx; rw [hx]
    | panic => cases hx
  cases op with
  | write bytes => cases h
  | header => exact header_err_unchanged d σ k (key h)
  | chunkMetadata => exact chunkMetadata_err_unchanged gb d σ k (key h)
  | skipChunkBody => exact skipChunkBody_err_unchanged σ k (key h)
  | chunkBody => exact chunkBody_err_unchanged d σ k (key h)
  | next limit => exact next_err_unchanged gb d limit σ k (key h)
  | free => exact free_err_unchanged σ k (key h)
  | simpleDecompress => exact simpleDecompress_err_unchanged gb d σ k (key h)
  | bitIdx => cases h

/-! ### the call protocol, on the literal model -/

theorem header_twice (d : DType) (σ : LitSt) (h : σ.state.flags.isSome) :
    header d σ = (.err "InvalidArgument", σ) := by
  unfold header checkNotTerminated
  cases σ.state.terminated <;> simp [h]

theorem chunkMetadata_before_header (gb : Nat → Nat) (d : DType) (σ : LitSt) (h : σ.state.flags = none) :
    chunkMetadata gb d σ = (.err "InvalidArgument", σ) := by
  unfold chunkMetadata checkNotTerminated
  cases σ.state.terminated <;> simp [h]

theorem chunkMetadata_in_body (gb : Nat → Nat) (d : DType) (σ : LitSt) (h : σ.state.chunkBodyDecompressor.isSome) :
    chunkMetadata gb d σ = (.err "InvalidArgument", σ) := by
  unfold chunkMetadata checkNotTerminated
  cases σ.state.terminated
  · cases hf : σ.state.flags <;> simp [h]
  · simp

theorem chunkBody_outside (d : DType) (σ : LitSt) (h : σ.state.chunkBodyDecompressor = none) :
    chunkBody d σ = (.err "InvalidArgument", σ) := by
  unfold chunkBody checkInChunkBody checkNotTerminated
  cases σ.state.terminated <;> simp [h]

theorem skipChunkBody_outside (σ : LitSt) (h : σ.state.chunkBodyDecompressor = none) :
    skipChunkBody σ = (.err "InvalidArgument", σ) := by
  unfold skipChunkBody checkInChunkBody checkNotTerminated
  cases σ.state.terminated <;> simp [h]

theorem header_terminated (d : DType) (σ : LitSt) (h : σ.state.terminated = true) :
    header d σ = (.err "InvalidArgument", σ) := by
  unfold header checkNotTerminated; simp [h]

theorem chunkMetadata_terminated (gb : Nat → Nat) (d : DType) (σ : LitSt) (h : σ.state.terminated = true) :
    chunkMetadata gb d σ = (.err "InvalidArgument", σ) := by
  unfold chunkMetadata checkNotTerminated; simp [h]

theorem chunkBody_terminated (d : DType) (σ : LitSt) (h : σ.state.terminated = true) :
    chunkBody d σ = (.err "InvalidArgument", σ) := by
  unfold chunkBody checkInChunkBody checkNotTerminated; simp [h]

theorem skipChunkBody_terminated (σ : LitSt) (h : σ.state.terminated = true) :
    skipChunkBody σ = (.err "InvalidArgument", σ) := by
  unfold skipChunkBody checkInChunkBody checkNotTerminated; simp [h]

theorem simpleDecompress_of_header_err (gb : Nat → Nat) (d : DType) (σ : LitSt) (k : String)
    (h : header d σ = (.err k, σ)) : simpleDecompress gb d σ = (.err k, σ) := by
  unfold simpleDecompress simpleDecompressDirty
  rw [h]

end DecompLit
end Qco
