/-
Corollaries of layer DL for the literal decompressor, part 1: the vocabulary.

* a file of the specification (`Bits`) as the bytes handed to `Write::write` (`bytesOf`), and back;
* the literal decompressor that has been fed some bytes is in simulation with the abstract one that has been
  fed their bits, and satisfies the size side-condition when the bytes are fewer than `2^56`
  (`sim_written`, `size_written`);
* reading an answer of the literal model off the answer of the abstract model (`ResRel.ok_eq`, `ResRel.err_*`);
* the answers of the literal model along a history (`litOuts`), and `HistRel` says none is a panic.
-/
import Qco.Lemmas.DecompLit.Hist
namespace Qco
namespace DecompLit
open Qco.WB Qco.Op Qco.MetaIO

/-! ### bits as bytes -/

/-- the whole bytes of a bit list (a trailing partial byte is dropped): what is handed to `Write::write` -/
def bytesOf (s : Bits) : List Nat := bitsBytes (s.length / 8) s

theorem bitsBytes_lt (n : Nat) (s : Bits) : ∀ b ∈ bitsBytes n s, b < 256 := by
  induction n generalizing s with
  | zero => intro b hb; cases hb
  | succ n ih =>
    intro b hb
    rw [bitsBytes, List.mem_cons] at hb
    rcases hb with rfl | hb
    · exact bitsNat_take8_lt s
    · exact ih _ b hb

theorem bytesOf_lt (s : Bits) : ∀ b ∈ bytesOf s, b < 256 := bitsBytes_lt _ s

theorem bytesOf_length (s : Bits) : (bytesOf s).length = s.length / 8 := bitsBytes_length _ s

theorem natBits_bitsNat_len (bs : Bits) : natBits bs.length (bitsNat bs) = bs := Qco.HT.natBits_bitsNat bs

theorem bytesBits_bitsBytes (n : Nat) (s : Bits) (h : 8 * n ≤ s.length) :
    bytesBits (bitsBytes n s) = s.take (8 * n) := by
  induction n generalizing s with
  | zero => simp [bitsBytes, bytesBits]
  | succ n ih =>
    rw [bitsBytes]
    show natBits 8 (bitsNat (s.take 8)) ++ bytesBits (bitsBytes n (s.drop 8)) = _
    rw [ih (s.drop 8) (by rw [List.length_drop]; omega)]
    have h8 : (s.take 8).length = 8 := by rw [List.length_take]; omega
    have := natBits_bitsNat_len (s.take 8)
    rw [h8] at this
    rw [this]
    have e : 8 * (n + 1) = 8 + 8 * n := by omega
    rw [e, List.take_add]

/-- a whole number of bytes is recovered from its bytes -/
theorem bytesBits_bytesOf (s : Bits) (h : s.length % 8 = 0) : bytesBits (bytesOf s) = s := by
  unfold bytesOf
  rw [bytesBits_bitsBytes _ s (by omega), List.take_of_length_le (by omega)]

/-! ### the decompressor that has been fed some bytes -/

theorem sim_written (d : DType) (bytes : List Nat) (hb : ∀ b ∈ bytes, b < 256) :
    Sim d (write LitSt.init bytes) (Op.write St.init (bytesBits bytes)) :=
  write_refines (sim_init d) bytes hb

theorem written_total (bytes : List Nat) (hb : ∀ b ∈ bytes, b < 256) :
    (write LitSt.init bytes).words.total = 8 * bytes.length := by
  obtain ⟨e1, e2⟩ := extend_spec wf_default hb
  have := e1.toBits_length
  rw [e2] at this
  have h0 : (Words.toBits {}).length = 0 := rfl
  rw [List.length_append, h0, bytesBits'_length] at this
  show (Words.extend {} bytes).total = 8 * bytes.length
  omega

/-- fewer than `2^56` bytes written: the size side-condition of the refinement holds -/
theorem size_written (d : DType) (bytes : List Nat) (hb : ∀ b ∈ bytes, b < 256) (hlen : bytes.length < 2 ^ 56) :
    SizeOk (write LitSt.init bytes) (Op.write St.init (bytesBits bytes)) := by
  have hl := (sim_written d bytes hb).wf.len
  have ht := written_total bytes hb
  have husz : USIZE = 18446744073709551616 := rfl
  have h56 : (2:Nat) ^ 56 = 72057594037927936 := by decide
  have h36 : (2:Nat) ^ 36 = 68719476736 := by decide
  unfold SizeOk
  show 0 + 128 * (write LitSt.init bytes).words.ws.length + 2 ^ 36 < USIZE
  omega

/-- the size side-condition read off a simulation in which nothing has been freed: fewer than `2^59` bits held -/
theorem size_of_sim {d : DType} {lit : LitSt} {abs : Op.St} (h : Sim d lit abs) (hf : abs.freed = 0)
    (hlen : lit.words.total < 2 ^ 59) : SizeOk lit abs := by
  have hl := h.wf.len
  have husz : USIZE = 18446744073709551616 := rfl
  have h59 : (2:Nat) ^ 59 = 576460752303423488 := by decide
  have h36 : (2:Nat) ^ 36 = 68719476736 := by decide
  unfold SizeOk
  omega

theorem op_write_write (σ : Op.St) (a b : Bits) : Op.write (Op.write σ a) b = Op.write σ (a ++ b) := by
  simp [Op.write, List.append_assoc]

/-- the decompressor that has been fed the bytes in pieces (one `write` per piece) -/
theorem pieces_sim_from {d : DType} (pieces : List (List Nat)) (hb : ∀ p ∈ pieces, ∀ b ∈ p, b < 256) :
    ∀ {lit : LitSt} {abs : Op.St}, Sim d lit abs →
      Sim d (pieces.foldl write lit) (Op.write abs (bytesBits pieces.flatten)) := by
  induction pieces with
  | nil =>
    intro lit abs h
    have : Op.write abs (bytesBits ([] : List (List Nat)).flatten) = abs := by
      simp [Op.write, bytesBits]
    rw [this]; exact h
  | cons p ps ih =>
    intro lit abs h
    have h1 := write_refines h p (hb p (by simp))
    have h2 := ih (fun q hq => hb q (by simp [hq])) h1
    rw [op_write_write] at h2
    have e : bytesBits p ++ bytesBits ps.flatten = bytesBits (p :: ps).flatten := by
      simp [bytesBits, List.flatMap_append]
    rw [e] at h2
    exact h2

theorem foldl_write_state (pieces : List (List Nat)) (σ : LitSt) :
    (pieces.foldl write σ).state = σ.state := by
  induction pieces generalizing σ with
  | nil => rfl
  | cons p ps ih => rw [List.foldl_cons, ih]; rfl

theorem pieces_sim (d : DType) (pieces : List (List Nat)) (hb : ∀ p ∈ pieces, ∀ b ∈ p, b < 256)
    (hlen : pieces.flatten.length < 2 ^ 56) :
    Sim d (pieces.foldl write LitSt.init) (Op.write St.init (bytesBits pieces.flatten)) ∧
      SizeOk (pieces.foldl write LitSt.init) (Op.write St.init (bytesBits pieces.flatten)) := by
  have h := pieces_sim_from (d := d) pieces hb (sim_init d)
  refine ⟨h, size_of_sim h rfl ?_⟩
  have h1 := h.rest
  have h2 := h.wf.toBits_length
  have h0 : (pieces.foldl write LitSt.init).state.bitIdx = 0 := by rw [foldl_write_state]; rfl
  rw [h0, List.drop_zero] at h1
  have h3 : (Op.write St.init (bytesBits pieces.flatten)).rest = bytesBits pieces.flatten := by
    simp [Op.write, St.init]
  rw [h3] at h1
  rw [h1, ← bytesBits'_eq, bytesBits'_length] at h2
  have h56 : (2:Nat) ^ 56 = 72057594037927936 := by decide
  have h59 : (2:Nat) ^ 59 = 576460752303423488 := by decide
  omega

/-! ### reading the literal answer off the abstract answer -/

theorem ResRel.ok_eq {α : Type} {ts : Prop} {x : R α} {b : α}
    (h : ResRel ts (fun a b => a = b) x (.ok b)) : x = .ok b := by
  cases x with
  | ok a => have : a = b := h; rw [this]
  | err k => exact h.elim
  | panic => exact h.elim

theorem ResRel.ok_rel {α β : Type} {ts : Prop} {rel : α → β → Prop} {x : R α} {b : β}
    (h : ResRel ts rel x (.ok b)) : ∃ a, x = .ok a ∧ rel a b := by
  cases x with
  | ok a => exact ⟨a, rfl, h⟩
  | err k => exact h.elim
  | panic => exact h.elim

theorem ResRel.err_rel {α β : Type} {ts : Prop} {rel : α → β → Prop} {x : R α} {e : Op.Err}
    (h : ResRel ts rel x (.err e)) : ∃ k, x = .err k ∧ ErrRel ts k e := by
  cases x with
  | ok a => exact h.elim
  | err k => exact ⟨k, rfl, h⟩
  | panic => exact h.elim

theorem ResRel.err_insufficient {α β : Type} {ts : Prop} {rel : α → β → Prop} {x : R α}
    (h : ResRel ts rel x (.err .insufficient)) : x = .err "InsufficientData" := by
  obtain ⟨k, rfl, hk⟩ := h.err_rel
  have : k = "InsufficientData" := hk
  rw [this]

theorem ResRel.err_compat {α β : Type} {ts : Prop} {rel : α → β → Prop} {x : R α}
    (h : ResRel ts rel x (.err .compat)) : x = .err "Compatibility" := by
  obtain ⟨k, rfl, hk⟩ := h.err_rel
  have : k = "Compatibility" := hk
  rw [this]

theorem ResRel.err_invalid {α β : Type} {ts : Prop} {rel : α → β → Prop} {x : R α}
    (h : ResRel ts rel x (.err .invalid)) : x = .err "InvalidArgument" := by
  obtain ⟨k, rfl, hk⟩ := h.err_rel
  have : k = "InvalidArgument" := hk
  rw [this]

/-! ### the answers along a history -/

/-- the answers of the literal decompressor along a history of operations -/
def litOuts (gb : Nat → Nat) (d : DType) : List DOp → LitSt → List (R LOut)
  | [], _ => []
  | op :: ops, σ => (litStep gb d op σ).1 :: litOuts gb d ops (litStep gb d op σ).2

/-- the state of the literal decompressor after a history of operations -/
def litRun (gb : Nat → Nat) (d : DType) : List DOp → LitSt → LitSt
  | [], σ => σ
  | op :: ops, σ => litRun gb d ops (litStep gb d op σ).2

theorem litStep_mem_litOuts (gb : Nat → Nat) (d : DType) (ops : List DOp) (op : DOp) (σ : LitSt) :
    (litStep gb d op (litRun gb d ops σ)).1 ∈ litOuts gb d (ops ++ [op]) σ := by
  induction ops generalizing σ with
  | nil => simp [litOuts, litRun]
  | cons o ops ih =>
    rw [List.cons_append, litOuts, litRun]
    exact List.mem_cons_of_mem _ (ih _)

/-- the error kinds of the crate (`ErrorKind`) -/
def knownKinds : List String := ["InsufficientData", "Corruption", "Compatibility", "InvalidArgument"]

theorem ErrRel.known {ts : Prop} {k : String} {e : Op.Err} (h : ErrRel ts k e) : k ∈ knownKinds := by
  cases e with
  | insufficient => have : k = "InsufficientData" := h; subst this; decide
  | corrupt =>
    rcases h with h | ⟨_, h⟩ <;> subst h <;> decide
  | compat => have : k = "Compatibility" := h; subst this; decide
  | invalid => have : k = "InvalidArgument" := h; subst this; decide

theorem histRel_outs {gb : Nat → Nat} {d : DType} :
    ∀ (ops : List DOp) {lit : LitSt} {abs : Op.St}, HistRel gb d ops lit abs →
      ∀ r ∈ litOuts gb d ops lit, r ≠ .panic ∧ ∀ k, r = .err k → k ∈ knownKinds := by
  intro ops
  induction ops with
  | nil => intro _ _ _ r hr; cases hr
  | cons op ops ih =>
    intro lit abs h r hr
    obtain ⟨h1, h2⟩ := h
    rw [litOuts, List.mem_cons] at hr
    rcases hr with rfl | hr
    · refine ⟨h1.no_panic, ?_⟩
      intro k hk
      rw [hk] at h1
      cases ha : (absStep gb d op abs).1 with
      | ok b => rw [ha] at h1; exact h1.elim
      | err e => rw [ha] at h1; exact ErrRel.known h1
    · exact ih h2 r hr

end DecompLit
end Qco
