/-
Corollaries of layer DL, part 9: a flag section with an unknown bit, as bytes, and what the abstract decompressor
answers on it.
-/
import Qco.Lemmas.LitCor.File
import Qco.Properties.C16
import Qco.Properties.C02
namespace Qco
namespace DecompLit
open Qco.WB Qco.Op Qco.MetaIO Parser

theorem encGroups_length (gs : List Bits) (h7 : ∀ g ∈ gs, g.length = 7) :
    (C16.encGroups gs).length = 8 * gs.length := by
  induction gs with
  | nil => rfl
  | cons g gs ih =>
    have hg : g.length = 7 := h7 g List.mem_cons_self
    have h7' : ∀ x ∈ gs, x.length = 7 := fun x hx => h7 x (List.mem_cons_of_mem _ hx)
    cases gs with
    | nil => simp [C16.encGroups, hg]
    | cons g2 gs2 =>
      have := ih h7'
      simp only [C16.encGroups, List.length_append, List.length_cons, hg] at this ⊢
      omega

/-- the bytes of a flag section given as 7-bit groups (each followed by its continuation bit: set on all but the
last) -/
def flagBytes (gs : List Bits) : List Nat := bytesOf (C16.encGroups gs)

theorem flagBytes_bits (gs : List Bits) (h7 : ∀ g ∈ gs, g.length = 7) :
    bytesBits (flagBytes gs) = C16.encGroups gs :=
  bytesBits_bytesOf _ (by rw [encGroups_length gs h7]; omega)

theorem flagBytes_lt (gs : List Bits) : ∀ b ∈ flagBytes gs, b < 256 := bytesOf_lt _

theorem flagBytes_length (gs : List Bits) (h7 : ∀ g ∈ gs, g.length = 7) : (flagBytes gs).length = gs.length := by
  unfold flagBytes
  rw [bytesOf_length, encGroups_length gs h7]
  omega

/-- a file that starts with the magic header, the data type byte, and this flag section -/
def headerBytes (d : DType) (gs : List Bits) (tail : List Nat) : List Nat :=
  Frozen.magicHeader ++ [d.headerByte] ++ flagBytes gs ++ tail

theorem headerByte_lt {d : DType} (hd : d ∈ Frozen.dtypes) : d.headerByte < 256 := by
  revert d
  decide

theorem headerBytes_lt {d : DType} (hd : d ∈ Frozen.dtypes) (gs : List Bits) (tail : List Nat)
    (ht : ∀ b ∈ tail, b < 256) : ∀ b ∈ headerBytes d gs tail, b < 256 := by
  intro b hb
  simp only [headerBytes, List.mem_append, List.mem_singleton] at hb
  rcases hb with ((hb | hb) | hb) | hb
  · revert b; decide
  · rw [hb]; exact headerByte_lt hd
  · exact flagBytes_lt gs b hb
  · exact ht b hb

/-- the specification's header parser refuses a flag section with an unknown bit -/
theorem decHeader_unknown_bit {d : DType} (hd : d ∈ Frozen.dtypes) (gs : List Bits) (hne : gs ≠ [])
    (h7 : ∀ g ∈ gs, g.length = 7) (i : Nat) (hi : 6 ≤ i) (hset : gs.flatten.getD i false = true)
    (tail : List Nat) : decHeader d (bytesBits (headerBytes d gs tail)) = .compat := by
  unfold headerBytes
  rw [bytesBits_append, bytesBits_append, bytesBits_append, flagBytes_bits gs h7]
  have hm : bytesBits Frozen.magicHeader = natBits 32 0x71636f21 := by decide
  have hb : bytesBits [d.headerByte] = natBits 8 d.headerByte := by simp [bytesBits]
  rw [hm, hb]
  unfold decHeader
  simp only [List.append_assoc, Parser.bind, Parser.readNat_natBits (by decide : 0x71636f21 < 2^32)]
  simp only [ne_eq, not_true_eq_false, if_false]
  simp only [Parser.bind, Parser.readNat_natBits (show d.headerByte < 2^8 from headerByte_lt hd)]
  simp only [not_true_eq_false, if_false]
  exact C16.unknown_bit_compat gs hne h7 _ i hi hset

/-! ### the abstract decompressor on a header that is a compatibility error -/

theorem op_header_compat (d : DType) (s : Bits) (h : decHeader d s = .compat) :
    Op.header d (Op.write St.init s) = (.err .compat, Op.write St.init s) := by
  rw [header_init, h]

theorem op_next_compat (L : Matcher) (gb : Nat → Nat) (d : DType) (limit : Nat) (s : Bits)
    (h : decHeader d s = .compat) :
    Op.next L gb d limit (Op.write St.init s) = (.err .compat, Op.write St.init s) := by
  unfold Op.next Op.withReader
  simp [Op.write, St.init, runAligned, runParser, h, resErr]

theorem op_simple_compat (L : Matcher) (gb : Nat → Nat) (d : DType) (s : Bits) (h : decHeader d s = .compat) :
    Op.simpleDecompress L gb d (Op.write St.init s) = (.err .compat, Op.write St.init s) := by
  unfold Op.simpleDecompress
  rw [op_header_compat d s h]

end DecompLit
end Qco
