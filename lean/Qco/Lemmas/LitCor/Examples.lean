/-
Corollaries of layer DL, part 6: the concrete files used for the non-vacuity examples of the property files
C03l–C16l: `C08d.deltaFile` (an `i32` file, one chunk of six numbers, delta order 1, written by the specification's
encoder) as an `AFile` of the specification, well-formed.
-/
import Qco.Lemmas.LitCor.File
import Qco.Properties.C08d
import Qco.Properties.C12
namespace Qco
namespace DecompLit
open Qco.WB Qco.Op Qco.MetaIO
open C08d (i32 gbx i32_mem gbx_le deltaFile emptyFile)

/-- the flags of `deltaFile`: 5-bit code lengths, delta order 1, minimal count fields, GCDs -/
def deltaFlags : Flags := { use5 := true, order := 1, minCount := true, gcds := true }

/-- the chunk of `deltaFile`: six numbers `5, 4, 4, 8, 9, 13` as the moment `5` and the five deltas
`-1, 0, 4, 1, 4`, coded with two ranges `[-2, 1]` (code `0`) and `[4, 4]` (code `1`) -/
def deltaChunk : AChunk :=
  { cm := { n := 6, bodyBytes := 2, moments := [5], commonGcd := some 1,
            prefixes := [{ count := 3, lower := 2147483646, upper := 2147483649, code := [false], jump := none, gcd := 1 },
                         { count := 2, lower := 2147483652, upper := 2147483652, code := [true], jump := none, gcd := 1 }] },
    blocks := [.one 0 1, .one 0 2, .one 1 0, .one 0 3, .one 1 0] }

def deltaAFile : AFile := { flags := deltaFlags, chunks := [deltaChunk] }

/-- an `i32` file without chunks (`C08d.emptyFile`) -/
def emptyAFile : AFile := { flags := { use5 := false, order := 0, minCount := false, gcds := false }, chunks := [] }

set_option maxRecDepth 100000 in
theorem deltaAFile_bytes : fileBytes gbx i32 deltaAFile = deltaFile := by decide

set_option maxRecDepth 100000 in
theorem emptyAFile_bytes : fileBytes gbx i32 emptyAFile = emptyFile := by decide

theorem i32_ok : i32.Ok where
  header_lt := by decide
  bits_pos := by decide
  raw_lt := by
    intro u _
    show (u + 2 ^ 31) % 2 ^ 32 < 2 ^ 32
    omega
  raw_inv := fun u hu => C12.rawToU_uToRaw i32 (by decide) (by intro h; cases h) u hu

theorem i32_signed_ok : i32.signed.Ok where
  header_lt := by decide
  bits_pos := by decide
  raw_lt := by
    intro u _
    show (u + 2 ^ 31) % 2 ^ 32 < 2 ^ 32
    omega
  raw_inv := fun u hu => C12.rawToU_uToRaw i32.signed (by decide) (by intro h; cases h) u hu

theorem deltaChunk_wf : deltaChunk.WF gbx i32 deltaFlags where
  n_lt := by decide
  moments_len := by decide
  moments_ok := by
    intro m hm
    simp only [deltaChunk, List.mem_singleton] at hm
    subst hm
    exact ⟨by decide, by decide⟩
  nprefs_lt := by decide
  common_ok := ⟨rfl, by decide, Or.inl rfl⟩
  prefixes_ok := by
    intro p hp
    simp only [deltaChunk, List.mem_cons, List.not_mem_nil, or_false] at hp
    rcases hp with hp | hp <;> subst hp <;>
      exact ⟨by decide, by decide, by decide, by decide, by decide, (by intro j h; cases h),
        by decide, rfl⟩
  tree_ok := Or.inr (by decide)
  empty_ok := by intro h; cases h
  blocks_ok := by
    intro b hb
    simp only [deltaChunk, List.mem_cons, List.not_mem_nil, or_false] at hb
    rcases hb with hb | hb | hb | hb | hb <;> subst hb <;> exact ⟨by decide, rfl, by decide⟩
  count_ok := by decide
  body_lt := by decide

theorem deltaAFile_wf : deltaAFile.WF gbx i32 where
  dtype_ok := i32_ok
  pref_dtype_ok := i32_signed_ok
  signed_ok := i32_signed_ok
  order_le := by decide
  chunks_ok := by
    intro c hc
    simp only [deltaAFile, List.mem_singleton] at hc
    subst hc
    exact deltaChunk_wf

theorem emptyAFile_wf : emptyAFile.WF gbx i32 where
  dtype_ok := i32_ok
  pref_dtype_ok := i32_ok
  signed_ok := i32_signed_ok
  order_le := by decide
  chunks_ok := by intro c hc; cases hc

/-- the numbers of `deltaFile` according to the specification -/
theorem deltaAFile_vals : (fileVals i32 deltaAFile.toD).flatten = [5, 4, 4, 8, 9, 13] := by decide

theorem deltaFile_small : (fileBytes gbx i32 deltaAFile).length < 2 ^ 56 := by
  rw [deltaAFile_bytes]; decide

/-! ### evaluating through the abstract model

The literal model runs under `#guard` but does not reduce in the kernel (`decide`); the abstract model does.  The
examples of the property files prove concrete facts about the literal model by evaluating the abstract model in
the kernel and transporting the answer through the refinement. -/

/-- the error of an abstract answer (`Op.Out` has no decidable equality) -/
def absErr {α : Type} : Op.Out α → Option Op.Err
  | .ok _ => none
  | .err e => some e

theorem absErr_eq {α : Type} {x : Op.Out α} {e : Op.Err} (h : absErr x = some e) : x = .err e := by
  cases x with
  | ok a => cases h
  | err e' => injection h with h; rw [h]

/-- the abstract iterator answered `None` -/
def absIsNone : Op.Out (Option Op.Item) → Bool
  | .ok none => true
  | _ => false

theorem absIsNone_eq {x : Op.Out (Option Op.Item)} (h : absIsNone x = true) : x = .ok none := by
  cases x with
  | ok a => cases a with
    | none => rfl
    | some j => cases h
  | err e => cases h

theorem lit_none_of_abs {ts : Prop} {fl : Option Flags} {x : R (Option Item)}
    (h : ResRel ts (ItemRel fl) x (.ok none)) : x = .ok none := by
  obtain ⟨a, ha, hrel⟩ := h.ok_rel
  cases a with
  | none => exact ha
  | some i => cases i <;> exact hrel.elim

end DecompLit
end Qco
