/-
Corollaries of layer DL, part 5: a well-formed file of the specification as bytes written to the literal
decompressor.
-/
import Qco.Lemmas.LitCor.Loops
import Qco.Properties.C04
namespace Qco
namespace DecompLit
open Qco.WB Qco.Op Qco.MetaIO

/-- the bytes of a file of the specification: what `Write::write` is given -/
def fileBytes (gb : Nat → Nat) (d : DType) (f : AFile) : List Nat := bytesOf (encodeFile gb d f)

variable {gb : Nat → Nat} {d : DType} {f : AFile}

theorem fileBytes_lt : ∀ b ∈ fileBytes gb d f, b < 256 := bytesOf_lt _

theorem fileBytes_bits (h : f.WF gb d) : bytesBits (fileBytes gb d f) = encodeFile gb d f :=
  bytesBits_bytesOf _ (C04.encodeFile_length_mod h)

theorem fileBytes_length (h : f.WF gb d) : 8 * (fileBytes gb d f).length = (encodeFile gb d f).length := by
  have := C04.encodeFile_length_mod h
  unfold fileBytes
  rw [bytesOf_length]
  omega

theorem bytesBits_append (a b : List Nat) : bytesBits (a ++ b) = bytesBits a ++ bytesBits b :=
  List.flatMap_append

theorem bytesBits_length (a : List Nat) : (bytesBits a).length = 8 * a.length := by
  rw [← bytesBits'_eq]; exact bytesBits'_length a

/-- bytes are determined by their bits -/
theorem bytes_eq_of_bits {a b : List Nat} (ha : ∀ x ∈ a, x < 256) (hb : ∀ x ∈ b, x < 256)
    (h : bytesBits a = bytesBits b) : a = b := by
  have hl : a.length = b.length := by
    have := congrArg List.length h
    rw [bytesBits_length, bytesBits_length] at this
    omega
  have e1 := eq_bitsBytes_of_bits (l := a) ha (s := bytesBits a)
    (by rw [bytesBits'_eq, List.take_of_length_le (by rw [bytesBits_length]; omega)])
    (by rw [bytesBits_length]; omega)
  have e2 := eq_bitsBytes_of_bits (l := b) hb (s := bytesBits b)
    (by rw [bytesBits'_eq, List.take_of_length_le (by rw [bytesBits_length]; omega)])
    (by rw [bytesBits_length]; omega)
  rw [e1, e2, h, hl]

/-- the literal decompressor that has been fed the file and `extra` more bytes, against the abstract one -/
theorem file_sim (h : f.WF gb d) (extra : List Nat) (he : ∀ b ∈ extra, b < 256) :
    Sim d (write LitSt.init (fileBytes gb d f ++ extra))
      (Op.write St.init (encodeFile gb d f ++ bytesBits extra)) := by
  have := sim_written d (fileBytes gb d f ++ extra) (by
    intro b hb
    rcases List.mem_append.mp hb with hb | hb
    · exact fileBytes_lt b hb
    · exact he b hb)
  rw [bytesBits_append, fileBytes_bits h] at this
  exact this

theorem file_size (h : f.WF gb d) (extra : List Nat) (he : ∀ b ∈ extra, b < 256)
    (hlen : (fileBytes gb d f ++ extra).length < 2 ^ 56) :
    SizeOk (write LitSt.init (fileBytes gb d f ++ extra))
      (Op.write St.init (encodeFile gb d f ++ bytesBits extra)) := by
  have := size_written d (fileBytes gb d f ++ extra) (by
    intro b hb
    rcases List.mem_append.mp hb with hb | hb
    · exact fileBytes_lt b hb
    · exact he b hb) hlen
  rw [bytesBits_append, fileBytes_bits h] at this
  exact this

theorem file_sim0 (h : f.WF gb d) :
    Sim d (write LitSt.init (fileBytes gb d f)) (Op.write St.init (encodeFile gb d f)) := by
  have := file_sim h [] (fun _ hb => by cases hb)
  simpa [bytesBits] using this

theorem file_size0 (h : f.WF gb d) (hlen : (fileBytes gb d f).length < 2 ^ 56) :
    SizeOk (write LitSt.init (fileBytes gb d f)) (Op.write St.init (encodeFile gb d f)) := by
  have := file_size h [] (fun _ hb => by cases hb) (by simpa using hlen)
  simpa [bytesBits] using this

/-- "everything written has been consumed", read off the simulation -/
theorem Sim.consumed {lit : LitSt} {abs : Op.St} (h : Sim d lit abs) (hr : abs.rest = []) :
    lit.state.bitIdx = lit.words.total := by
  have := h.rest_len
  have := h.idx_le
  rw [hr] at *
  simp only [List.length_nil] at *
  omega

end DecompLit
end Qco
