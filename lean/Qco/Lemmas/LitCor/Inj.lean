/-
Corollaries of layer DL, part 8: the simulation relation determines the literal state from the abstract state and
the words (`sim_inj`), and the abstract invariant `C08.Inv` holds along histories — so statements of C08 that are
equalities of abstract states become equalities of literal states on every reachable state.
-/
import Qco.Lemmas.LitCor.Sched
import Qco.Properties.C08
namespace Qco
namespace DecompLit
open Qco.WB Qco.Op Qco.MetaIO

theorem ndRel_inj {ub : Nat} {nd nd' : NumDecSt} {b : Body} (h : NdRel ub nd b) (h' : NdRel ub nd' b) :
    nd = nd' := by
  obtain ⟨a1, a2, a3, a4, a5⟩ := h
  obtain ⟨b1, b2, b3, b4, b5⟩ := h'
  cases nd; cases nd'
  simp only at a1 a2 a3 a4 a5 b1 b2 b3 b4 b5
  subst a1 a2 a3 a4 a5 b1 b2 b3 b4 b5
  rfl

theorem cRel_inj {ub : Nat} {c c' : CBD} {b : Body} (h : CRel ub c b) (h' : CRel ub c' b) : c = c' := by
  cases c with
  | simple nd =>
    cases c' with
    | simple nd' => rw [ndRel_inj h.2 h'.2]
    | delta n nd' ms np => exact absurd h.1 h'.1
  | delta n nd ms np =>
    cases c' with
    | simple nd' => exact absurd h'.1 h.1
    | delta n' nd' ms' np' =>
      obtain ⟨_, a1, a2, a3, a4⟩ := h
      obtain ⟨_, b1, b2, b3, b4⟩ := h'
      rw [ndRel_inj a4 b4, a1, a2, a3, b1, b2, b3]

/-- two literal states with the same words that simulate the same abstract state are equal -/
theorem sim_inj {d : DType} {lit lit' : LitSt} {abs : Op.St} (h : Sim d lit abs) (h' : Sim d lit' abs)
    (hw : lit'.words = lit.words) : lit' = lit := by
  obtain ⟨w, ⟨bi, fl, cb, t⟩⟩ := lit
  obtain ⟨w', ⟨bi', fl', cb', t'⟩⟩ := lit'
  simp only at hw
  subst hw
  have e1 : bi' = bi := by
    have := h.pos; have := h'.pos
    simp only at *
    omega
  have e2 : fl' = fl := by
    have := h.flags; have := h'.flags
    simp only at *
    rw [‹fl' = abs.flags›, ‹fl = abs.flags›]
  have e3 : t' = t := by
    have := h.term; have := h'.term
    simp only at *
    rw [‹t' = abs.terminated›, ‹t = abs.terminated›]
  have e4 : cb' = cb := by
    have a := h.body; have b := h'.body
    simp only at a b
    cases hb : abs.body with
    | none =>
      rw [hb] at a b
      cases cb with
      | none => cases cb' with
        | none => rfl
        | some c' => exact b.elim
      | some c => exact a.elim
    | some bd =>
      rw [hb] at a b
      cases cb with
      | none => exact a.elim
      | some c => cases cb' with
        | none => exact b.elim
        | some c' => rw [cRel_inj a.1 b.1]
  subst e1 e2 e3 e4
  rfl

/-- the invariant of C08 holds of the abstract state after every history -/
theorem inv_absRun (gb : Nat → Nat) (d : DType) (ops : List DOp) (σ : Op.St) (h : C08.Inv σ) :
    C08.Inv (absRun gb d ops σ) := by
  induction ops generalizing σ with
  | nil => exact h
  | cons op ops ih =>
    apply ih
    cases op with
    | write bytes => exact C08.inv_write σ _ h
    | header => exact C08.inv_header d σ h
    | chunkMetadata => exact C08.inv_chunkMetadata gb d σ h
    | skipChunkBody => exact C08.inv_skipChunkBody σ h
    | chunkBody => exact C08.inv_chunkBody matchStride d σ h
    | next limit => exact C08.inv_next matchStride gb d limit σ h
    | free => exact C08.inv_free σ h
    | simpleDecompress => exact C08.inv_simpleDecompress matchStride gb d σ h
    | bitIdx => exact h

end DecompLit
end Qco
