/-
Corollaries of layer DL, part 4: the caller's loops over the literal API — the chunk loop
(`chunk_metadata` / `chunk_body` until `None`), draining the iterator, schedules of writes / drains / `free` —
refine the same loops over the abstract decompressor.
-/
import Qco.Lemmas.LitCor.AbsKeeps
import Qco.Properties.C03
import Qco.Lemmas.StreamSched
import Qco.Properties.C05
namespace Qco
namespace DecompLit
open Qco.WB Qco.Op Qco.MetaIO

/-! ### items -/

/-- the literal `DecompressedItem` for an item of the abstract iterator; `fl` are the flags of the decompressor
(the literal `ChunkMetadata` struct is `RMeta.ofSpec fl` of the format's metadata) -/
def litItem (fl : Option Flags) : Op.Item → Item
  | .flags f => .flags f
  | .meta_ m => .chunkMetadata (RMeta.ofSpec (fl.getD default) m)
  | .nums xs => .numbers xs
  | .footer => .footer

/-- abstract items as the literal iterator hands them out, from a decompressor with flags `fl` -/
def litItems : Option Flags → List Op.Item → List Item
  | _, [] => []
  | fl, it :: its => litItem fl it :: litItems (flagsAfter fl (some it)) its

/-- the flags after a list of items -/
def flagsAfterAll : Option Flags → List Op.Item → Option Flags
  | fl, [] => fl
  | fl, it :: its => flagsAfterAll (flagsAfter fl (some it)) its

theorem litItems_append (fl : Option Flags) (a b : List Op.Item) :
    litItems fl (a ++ b) = litItems fl a ++ litItems (flagsAfterAll fl a) b := by
  induction a generalizing fl with
  | nil => rfl
  | cons it a ih => simp only [List.cons_append, litItems, flagsAfterAll, ih]

theorem flagsAfterAll_append (fl : Option Flags) (a b : List Op.Item) :
    flagsAfterAll fl (a ++ b) = flagsAfterAll (flagsAfterAll fl a) b := by
  induction a generalizing fl with
  | nil => rfl
  | cons it a ih => simp only [List.cons_append, flagsAfterAll, ih]

theorem itemRel_eq {fl : Option Flags} {i : Item} {j : Op.Item} (h : ItemRel fl (some i) (some j)) :
    i = litItem fl j := by
  cases i <;> cases j <;> try exact h.elim
  · have : _ = _ := h; rw [this]; rfl
  · obtain ⟨f, hf, hm⟩ := h; rw [hm, hf]; rfl
  · have : _ = _ := h; rw [this]; rfl
  · rfl

/-! ### errors of a loop -/

/-- the error a loop stopped with, literal against abstract -/
def ErrORel (ts : Prop) : Option String → Option Op.Err → Prop
  | none, none => True
  | some k, some e => ErrRel ts k e
  | _, _ => False

/-! ### draining the iterator -/

theorem drainIter_refines {d : DType} (hd : DOk d) {gb : Nat → Nat} (hgb : ∀ x, gb x ≤ d.uBits) (limit : Nat) :
    ∀ (fuel : Nat) {lit : LitSt} {abs : Op.St}, Sim d lit abs → SizeOk lit abs →
      ∀ (accL : List Item) (accA : List Op.Item),
      ∃ itsA, (Op.drainIter matchStride gb d limit fuel abs accA).1 = accA.reverse ++ itsA ∧
        (drainIter gb d limit fuel lit accL).1 = accL.reverse ++ litItems abs.flags itsA ∧
        ErrORel (d.kind = .ts96) (drainIter gb d limit fuel lit accL).2.1
          (Op.drainIter matchStride gb d limit fuel abs accA).2.1 ∧
        Sim d (drainIter gb d limit fuel lit accL).2.2 (Op.drainIter matchStride gb d limit fuel abs accA).2.2 ∧
        SizeOk (drainIter gb d limit fuel lit accL).2.2 (Op.drainIter matchStride gb d limit fuel abs accA).2.2 ∧
        (Op.drainIter matchStride gb d limit fuel abs accA).2.2.flags = flagsAfterAll abs.flags itsA := by
  intro fuel
  induction fuel with
  | zero =>
    intro lit abs h hs accL accA
    exact ⟨[], by simp [Op.drainIter], by simp [drainIter, litItems], trivial, h, hs, rfl⟩
  | succ fuel ih =>
    intro lit abs h hs accL accA
    unfold drainIter Op.drainIter
    obtain ⟨c1, c2⟩ := next_refines hd hgb limit h hs
    have hw1 := next_words gb d limit lit
    have hf1 := op_next_freed matchStride gb d limit abs
    have hfl := op_next_flags matchStride gb d limit abs
    generalize next gb d limit lit = N at c1 c2 hw1 ⊢
    generalize Op.next matchStride gb d limit abs = AN at c1 c2 hf1 hfl ⊢
    obtain ⟨lo, lit1⟩ := N
    obtain ⟨ao, abs1⟩ := AN
    simp only at c1 c2 hw1 hf1 hfl
    have hs1 : SizeOk lit1 abs1 := hs.of_eq hw1 hf1
    cases lo with
    | ok a => cases ao with
      | ok b =>
        cases a with
        | none => cases b with
          | none =>
            exact ⟨[], by simp, by simp [litItems], trivial, c2, hs1, hfl⟩
          | some j => exact c1.elim
        | some i => cases b with
          | none => cases i <;> exact c1.elim
          | some j =>
            have hij := itemRel_eq c1
            obtain ⟨itsA, e1, e2, e3, e4, e5, e6⟩ := ih c2 hs1 (i :: accL) (j :: accA)
            refine ⟨j :: itsA, ?_, ?_, e3, e4, e5, ?_⟩
            · simp only; rw [e1]; simp
            · simp only; rw [e2, hfl, hij]; simp [litItems]
            · simp only; rw [e6, hfl]; rfl
      | err e => exact c1.elim
    | err k => cases ao with
      | ok b => exact c1.elim
      | err e =>
        exact ⟨[], by simp, by simp [litItems], c1, c2, hs1, hfl⟩
    | panic => cases ao <;> exact c1.elim

/-! ### the chunk loop of the API -/

/-- `while let Some(meta) = d.chunk_metadata()? { let nums = d.chunk_body()?; .. }` over the literal
decompressor, collecting each chunk's metadata and numbers (fuel bounds the number of chunks; running out of
it is reported like missing data, as in `C03.apiChunks`) -/
def apiChunks (gb : Nat → Nat) (d : DType) : Nat → LitSt → R (List (RMeta × List Nat)) × LitSt
  | 0, σ => (.err "InsufficientData", σ)
  | fuel + 1, σ =>
    match chunkMetadata gb d σ with
    | (.err k, σ') => (.err k, σ')
    | (.panic, σ') => (.panic, σ')
    | (.ok none, σ') => (.ok [], σ')
    | (.ok (some m), σ') =>
      match chunkBody d σ' with
      | (.err k, σ'') => (.err k, σ'')
      | (.panic, σ'') => (.panic, σ'')
      | (.ok xs, σ'') =>
        match apiChunks gb d fuel σ'' with
        | (.err k, σ3) => (.err k, σ3)
        | (.panic, σ3) => (.panic, σ3)
        | (.ok rest, σ3) => (.ok ((m, xs) :: rest), σ3)

theorem apiChunks_words (gb : Nat → Nat) (d : DType) (fuel : Nat) (σ : LitSt) :
    (apiChunks gb d fuel σ).2.words = σ.words := by
  induction fuel generalizing σ with
  | zero => rfl
  | succ fuel ih =>
    unfold apiChunks
    have h1 := chunkMetadata_words gb d σ
    generalize chunkMetadata gb d σ = CM at h1 ⊢
    obtain ⟨o, σ1⟩ := CM
    cases o with
    | err k => exact h1
    | panic => exact h1
    | ok mm =>
      cases mm with
      | none => exact h1
      | some m =>
        simp only at h1 ⊢
        have h2 := chunkBody_words d σ1
        generalize chunkBody d σ1 = CB at h2 ⊢
        obtain ⟨o2, σ2⟩ := CB
        cases o2 with
        | err k => exact h2.trans h1
        | panic => exact h2.trans h1
        | ok xs =>
          simp only at h2 ⊢
          have h3 := ih σ2
          generalize apiChunks gb d fuel σ2 = RL at h3 ⊢
          obtain ⟨o3, σ3⟩ := RL
          cases o3 <;> exact h3.trans (h2.trans h1)

theorem apiChunks_refines {d : DType} (hd : DOk d) {gb : Nat → Nat} (hgb : ∀ x, gb x ≤ d.uBits) (fl : Flags) :
    ∀ (fuel : Nat) {lit : LitSt} {abs : Op.St}, Sim d lit abs → SizeOk lit abs → abs.flags = some fl →
      ResRel (d.kind = .ts96) (fun a b => a = b.map fun mx => (RMeta.ofSpec fl mx.1, mx.2))
          (apiChunks gb d fuel lit).1 (C03.apiChunks matchStride gb d fuel abs).1 ∧
        Sim d (apiChunks gb d fuel lit).2 (C03.apiChunks matchStride gb d fuel abs).2 := by
  intro fuel
  induction fuel with
  | zero => intro lit abs h _ _; exact ⟨rfl, h⟩
  | succ fuel ih =>
    intro lit abs h hs hfl
    unfold apiChunks C03.apiChunks
    obtain ⟨c1, c2⟩ := chunkMetadata_refines hd hgb h hs
    have hw1 := chunkMetadata_words gb d lit
    have hf1 := op_chunkMetadata_freed gb d abs
    have hfl1 := op_chunkMetadata_flags gb d abs
    generalize chunkMetadata gb d lit = CM at c1 c2 hw1 ⊢
    generalize Op.chunkMetadata gb d abs = ACM at c1 c2 hf1 hfl1 ⊢
    obtain ⟨lo, lit1⟩ := CM
    obtain ⟨ao, abs1⟩ := ACM
    simp only at c1 c2 hw1 hf1 hfl1
    cases lo with
    | ok a => cases ao with
      | ok b =>
        obtain ⟨f, hf, hab⟩ := c1
        have hff : f = fl := by rw [hfl] at hf; injection hf with hf; exact hf.symm
        subst hff
        cases b with
        | none =>
          simp only [Option.map_none] at hab
          subst hab
          exact ⟨rfl, c2⟩
        | some m =>
          simp only [Option.map_some] at hab
          subst hab
          simp only
          have hs1 : SizeOk lit1 abs1 := hs.of_eq hw1 hf1
          obtain ⟨b1, b2⟩ := chunkBody_refines c2 hs1
          have hw2 := chunkBody_words d lit1
          have hf2 := op_chunkBody_freed matchStride d abs1
          have hfl2 := op_chunkBody_flags matchStride d abs1
          generalize chunkBody d lit1 = CB at b1 b2 hw2 ⊢
          generalize Op.chunkBody matchStride d abs1 = ACB at b1 b2 hf2 hfl2 ⊢
          obtain ⟨lo2, lit2⟩ := CB
          obtain ⟨ao2, abs2⟩ := ACB
          simp only at b1 b2 hw2 hf2 hfl2
          cases lo2 with
          | ok xs => cases ao2 with
            | ok ys =>
              replace b1 : xs = ys := b1
              subst b1
              simp only
              obtain ⟨r1, r2⟩ := ih b2 (hs1.of_eq hw2 hf2) (by rw [hfl2, hfl1, hfl])
              generalize apiChunks gb d fuel lit2 = RL at r1 r2 ⊢
              generalize C03.apiChunks matchStride gb d fuel abs2 = RA at r1 r2 ⊢
              obtain ⟨lo3, lit3⟩ := RL
              obtain ⟨ao3, abs3⟩ := RA
              simp only at r1 r2
              cases lo3 with
              | ok rs => cases ao3 with
                | ok rs' =>
                  replace r1 : rs = _ := r1
                  subst r1
                  exact ⟨rfl, r2⟩
                | err e => exact r1.elim
              | err k => cases ao3 with
                | ok rs' => exact r1.elim
                | err e => exact ⟨r1, r2⟩
              | panic => cases ao3 <;> exact r1.elim
            | err e => exact b1.elim
          | err k => cases ao2 with
            | ok ys => exact b1.elim
            | err e => exact ⟨ErrRel.mono False.elim b1, b2⟩
          | panic => cases ao2 <;> exact b1.elim
      | err e => exact c1.elim
    | err k => cases ao with
      | ok b => exact c1.elim
      | err e => exact ⟨c1, c2⟩
    | panic => cases ao <;> exact c1.elim

end DecompLit
end Qco

namespace Qco
namespace DecompLit
open Qco.WB Qco.Op Qco.MetaIO

/-! ### the items of a complete file, in the literal vocabulary -/

/-- the items the literal `Iterator::next` yields on a complete file with batch limit `limit`: the flags, then per
chunk its metadata (the literal `ChunkMetadata` struct) and its numbers in consecutive batches of `limit` (the last
one shorter), then the footer -/
def expectedItems (d : DType) (f : AFile) (limit : Nat) : List Item :=
  [.flags f.flags] ++ f.chunks.flatMap (fun c =>
    .chunkMetadata (RMeta.ofSpec f.flags c.fixedMeta) ::
      (C04.splitEvery limit (chunkVals d f.flags c.toD)).map .numbers) ++ [.footer]

/-- the canonical items of a file: per chunk its metadata and (if it has any) all its numbers in one item -/
def canonItems (d : DType) (f : AFile) : List Item :=
  .flags f.flags :: (f.chunks.flatMap fun c =>
    .chunkMetadata (RMeta.ofSpec f.flags c.fixedMeta) ::
      (if chunkVals d f.flags c.toD = [] then [] else [.numbers (chunkVals d f.flags c.toD)])) ++ [.footer]

/-- canonical form of an item sequence: adjacent `Numbers` items merged (where the batches are cut depends on how
the input arrived; nothing else does) -/
def canon : List Item → List Item
  | [] => []
  | .numbers xs :: rest =>
    match canon rest with
    | .numbers ys :: r => .numbers (xs ++ ys) :: r
    | r => .numbers xs :: r
  | .flags f :: rest => .flags f :: canon rest
  | .chunkMetadata m :: rest => .chunkMetadata m :: canon rest
  | .footer :: rest => .footer :: canon rest

theorem litItems_length (fl : Option Flags) (l : List Op.Item) : (litItems fl l).length = l.length := by
  induction l generalizing fl with
  | nil => rfl
  | cons it l ih => simp [litItems, ih]

theorem litItems_noFlags (fl : Option Flags) (l : List Op.Item) (h : ∀ it ∈ l, ∀ f, it ≠ Op.Item.flags f) :
    litItems fl l = l.map (litItem fl) := by
  induction l with
  | nil => rfl
  | cons it l ih =>
    have e : flagsAfter fl (some it) = fl := by
      cases it with
      | flags f => exact absurd rfl (h _ (by simp) f)
      | meta_ m => rfl
      | nums xs => rfl
      | footer => rfl
    rw [litItems, e, ih (fun x hx => h x (by simp [hx]))]
    rfl

theorem litItems_expected (d : DType) (f : AFile) (limit : Nat) :
    litItems none (C04.expectedItems d f limit) = expectedItems d f limit := by
  unfold C04.expectedItems expectedItems
  rw [List.append_assoc, List.singleton_append, litItems]
  show Item.flags f.flags :: litItems (some f.flags) _ = _
  rw [litItems_noFlags]
  · simp only [List.map_append, List.map_flatMap, List.map_cons, List.map_map, List.map_nil, litItem,
      Option.getD_some, List.singleton_append, Function.comp_def]
    rfl
  · intro it hit fl
    simp only [List.mem_append, List.mem_flatMap, List.mem_cons, List.mem_map, List.not_mem_nil, or_false] at hit
    rcases hit with ⟨c, _, hc | ⟨xs, _, hx⟩⟩ | hit
    · rw [hc]; intro e; cases e
    · rw [← hx]; intro e; cases e
    · rw [hit]; intro e; cases e

theorem litItems_canonItems (d : DType) (f : AFile) :
    litItems none (C05.canonItems d f) = canonItems d f := by
  unfold C05.canonItems canonItems
  rw [List.cons_append, litItems]
  show Item.flags f.flags :: litItems (some f.flags) _ = _
  rw [litItems_noFlags]
  · simp only [List.map_append, List.map_flatMap, List.map_cons, List.map_nil, litItem, Option.getD_some,
      List.cons_append]
    congr 2
    congr 1
    funext c
    split <;> simp [litItem]
  · intro it hit fl
    simp only [List.mem_append, List.mem_flatMap, List.mem_cons, List.not_mem_nil, or_false] at hit
    rcases hit with ⟨c, _, hc | hx⟩ | hit
    · rw [hc]; intro e; cases e
    · split at hx
      · cases hx
      · simp only [List.mem_cons, List.not_mem_nil, or_false] at hx; rw [hx]; intro e; cases e
    · rw [hit]; intro e; cases e

/-- merging the batches commutes with the translation of the items -/
theorem canon_litItems (fl : Option Flags) (l : List Op.Item) :
    canon (litItems fl l) = litItems fl (C05.canon l) := by
  induction l generalizing fl with
  | nil => rfl
  | cons it l ih =>
    cases it with
    | flags f => simp only [litItems, litItem, canon, C05.canon, ih]
    | meta_ m => simp only [litItems, litItem, canon, C05.canon, ih]
    | footer => simp only [litItems, litItem, canon, C05.canon, ih]
    | nums xs =>
      have e : flagsAfter fl (some (Op.Item.nums xs)) = fl := rfl
      simp only [litItems, litItem, canon, C05.canon, e, ih]
      cases hc : C05.canon l with
      | nil => rfl
      | cons j r =>
        cases j with
        | nums ys => rfl
        | flags f => rfl
        | meta_ m => rfl
        | footer => rfl

/-! ### what `drainIter` keeps -/

theorem drainIter_words (gb : Nat → Nat) (d : DType) (limit fuel : Nat) (σ : LitSt) (acc : List Item) :
    (drainIter gb d limit fuel σ acc).2.2.words = σ.words := by
  induction fuel generalizing σ acc with
  | zero => rfl
  | succ fuel ih =>
    unfold drainIter
    have h1 := next_words gb d limit σ
    generalize next gb d limit σ = N at h1 ⊢
    obtain ⟨o, σ1⟩ := N
    cases o with
    | err k => exact h1
    | panic => exact h1
    | ok a =>
      cases a with
      | none => exact h1
      | some it => exact (ih σ1 _).trans h1

theorem op_drainIter_freed (L : Matcher) (gb : Nat → Nat) (d : DType) (limit fuel : Nat) (σ : Op.St)
    (acc : List Op.Item) : (Op.drainIter L gb d limit fuel σ acc).2.2.freed = σ.freed := by
  induction fuel generalizing σ acc with
  | zero => rfl
  | succ fuel ih =>
    unfold Op.drainIter
    have h1 := op_next_freed L gb d limit σ
    generalize Op.next L gb d limit σ = N at h1 ⊢
    obtain ⟨o, σ1⟩ := N
    cases o with
    | err e => exact h1
    | ok a =>
      cases a with
      | none => exact h1
      | some it => exact (ih σ1 _).trans h1

end DecompLit
end Qco
