/-
Corollaries of layer DL, part 7: histories keep the simulation (`run_sim`), and schedules of `write` / drain /
`free_compressed_memory` on the literal decompressor refine the schedules of C05 on the abstract one.
-/
import Qco.Lemmas.LitCor.File
namespace Qco
namespace DecompLit
open Qco.WB Qco.Op Qco.MetaIO

/-! ### histories -/

/-- the state of the abstract decompressor after a history of operations -/
def absRun (gb : Nat → Nat) (d : DType) : List DOp → Op.St → Op.St
  | [], σ => σ
  | op :: ops, σ => absRun gb d ops (absStep gb d op σ).2

/-- a history keeps the simulation, with room for `k` more words -/
theorem run_sim {d : DType} (hd : d ∈ Frozen.dtypes) {gb : Nat → Nat} (hgb : ∀ x, gb x ≤ d.uBits) :
    ∀ (ops : List DOp), (∀ op ∈ ops, OpOk op) → ∀ {lit : LitSt} {abs : Op.St} (k : Nat), Sim d lit abs →
      abs.freed + 128 * (lit.words.ws.length + histWords ops + k) + 2 ^ 36 < USIZE →
      Sim d (litRun gb d ops lit) (absRun gb d ops abs) ∧
        (absRun gb d ops abs).freed + 128 * ((litRun gb d ops lit).words.ws.length + k) + 2 ^ 36 < USIZE := by
  intro ops
  induction ops with
  | nil =>
    intro _ lit abs k h hs
    have : histWords [] = 0 := rfl
    rw [this] at hs
    exact ⟨h, by simpa [litRun, absRun] using hs⟩
  | cons op ops ih =>
    intro hops lit abs k h hs
    have hw : histWords (op :: ops) = opWords op + histWords ops := by simp [histWords]
    rw [hw] at hs
    have hs0 : SizeOk lit abs := by unfold SizeOk; omega
    obtain ⟨_, r2⟩ := step_refines hd hgb op (hops op (by simp)) h hs0
    have hsz := step_size (gb := gb) op (hops op (by simp)) h (histWords ops + k) (by omega)
    exact ih (fun o ho => hops o (by simp [ho])) k r2 (by omega)

/-- the states the API can reach from `Decompressor::default()` (with the size side-condition), together with
the abstract state they simulate -/
theorem reach_sim {d : DType} (hd : d ∈ Frozen.dtypes) {gb : Nat → Nat} (hgb : ∀ x, gb x ≤ d.uBits)
    (ops : List DOp) (hops : ∀ op ∈ ops, OpOk op) (hsize : 128 * histWords ops + 2 ^ 36 < USIZE) :
    Sim d (litRun gb d ops LitSt.init) (absRun gb d ops St.init) ∧
      SizeOk (litRun gb d ops LitSt.init) (absRun gb d ops St.init) := by
  obtain ⟨h1, h2⟩ := run_sim hd hgb ops hops 0 (sim_init d) (by
    show 0 + 128 * (0 + histWords ops + 0) + 2 ^ 36 < USIZE
    omega)
  exact ⟨h1, by unfold SizeOk; omega⟩

/-! ### schedules -/

/-- what the user of the decompressor does, one step: write some bytes, drain the iterator, release memory -/
inductive LStep where
  | write (bytes : List Nat)
  | drain
  | free
  deriving Repr

/-- run a schedule on the literal decompressor: `drain` calls `next` until it yields `None` (or the fuel is used
up) and appends what it yields; an error stops the run (a panic is reported as the error `"panic"`) -/
def runSched (gb : Nat → Nat) (d : DType) (limit fuel : Nat) :
    List LStep → LitSt → List Item → List Item × Option String × LitSt
  | [], σ, acc => (acc, none, σ)
  | .write bytes :: rest, σ, acc => runSched gb d limit fuel rest (write σ bytes) acc
  | .free :: rest, σ, acc =>
    match free σ with
    | (.ok (), σ') => runSched gb d limit fuel rest σ' acc
    | (.err k, σ') => (acc, some k, σ')
    | (.panic, σ') => (acc, some "panic", σ')
  | .drain :: rest, σ, acc =>
    match drainIter gb d limit fuel σ [] with
    | (its, none, σ') => runSched gb d limit fuel rest σ' (acc ++ its)
    | (its, some e, σ') => (acc ++ its, some e, σ')

/-- the bytes a schedule writes, in order -/
def writtenBytes : List LStep → List Nat
  | [] => []
  | .write bytes :: rest => bytes ++ writtenBytes rest
  | _ :: rest => writtenBytes rest

/-- what is written are bytes -/
def SchedOk : List LStep → Prop
  | [] => True
  | .write bytes :: rest => (∀ b ∈ bytes, b < 256) ∧ SchedOk rest
  | _ :: rest => SchedOk rest

def SchedOk.dec : (sched : List LStep) → Decidable (SchedOk sched)
  | [] => isTrue trivial
  | .write bytes :: rest =>
    have := SchedOk.dec rest
    inferInstanceAs (Decidable ((∀ b ∈ bytes, b < 256) ∧ SchedOk rest))
  | .drain :: rest => SchedOk.dec rest
  | .free :: rest => SchedOk.dec rest

instance : DecidablePred SchedOk := SchedOk.dec

/-- the words a schedule may add -/
def schedWords : List LStep → Nat
  | [] => 0
  | .write bytes :: rest => bytes.length / 8 + 1 + schedWords rest
  | _ :: rest => schedWords rest

/-- the schedule of C05 (over bits) for a schedule over bytes -/
def absSched : List LStep → List C05.Step
  | [] => []
  | .write bytes :: rest => .write (bytesBits bytes) :: absSched rest
  | .drain :: rest => .drain :: absSched rest
  | .free :: rest => .free :: absSched rest

theorem written_absSched (sched : List LStep) : C05.written (absSched sched) = bytesBits (writtenBytes sched) := by
  induction sched with
  | nil => rfl
  | cons s rest ih =>
    cases s with
    | write bytes => simp only [absSched, C05.written, writtenBytes, ih, bytesBits_append]
    | drain => exact ih
    | free => exact ih

theorem wholeBytes_absSched (sched : List LStep) : C05.wholeBytes (absSched sched) := by
  intro x hx
  induction sched with
  | nil => cases hx
  | cons s rest ih =>
    cases s with
    | write bytes =>
      simp only [absSched, List.mem_cons] at hx
      rcases hx with hx | hx
      · injection hx with hx
        rw [hx, bytesBits_length]; omega
      · exact ih hx
    | drain =>
      simp only [absSched, List.mem_cons] at hx
      rcases hx with hx | hx
      · cases hx
      · exact ih hx
    | free =>
      simp only [absSched, List.mem_cons] at hx
      rcases hx with hx | hx
      · cases hx
      · exact ih hx

/-- a literal schedule refines the abstract schedule: same items (in the literal vocabulary), related error,
related final states -/
theorem runSched_refines {d : DType} (hd : d ∈ Frozen.dtypes) {gb : Nat → Nat} (hgb : ∀ x, gb x ≤ d.uBits)
    (limit fuel : Nat) (fl0 : Option Flags) :
    ∀ (sched : List LStep), SchedOk sched → ∀ {lit : LitSt} {abs : Op.St} (accA : List Op.Item), Sim d lit abs →
      abs.freed + 128 * (lit.words.ws.length + schedWords sched) + 2 ^ 36 < USIZE →
      abs.flags = flagsAfterAll fl0 accA →
      ∃ itemsA, (C05.runSched matchStride gb d limit fuel (absSched sched) abs accA).1 = itemsA ∧
        (runSched gb d limit fuel sched lit (litItems fl0 accA)).1 = litItems fl0 itemsA ∧
        ErrORel (d.kind = .ts96) (runSched gb d limit fuel sched lit (litItems fl0 accA)).2.1
          (C05.runSched matchStride gb d limit fuel (absSched sched) abs accA).2.1 ∧
        Sim d (runSched gb d limit fuel sched lit (litItems fl0 accA)).2.2
          (C05.runSched matchStride gb d limit fuel (absSched sched) abs accA).2.2 := by
  intro sched
  induction sched with
  | nil => intro _ lit abs accA h _ _; exact ⟨accA, rfl, rfl, trivial, h⟩
  | cons s rest ih =>
    intro hok lit abs accA h hs hfl
    cases s with
    | write bytes =>
      have hok' : SchedOk rest := hok.2
      have hb : ∀ b ∈ bytes, b < 256 := hok.1
      have hsz := step_size (gb := gb) (.write bytes) hb h (schedWords rest) (by
        show abs.freed + 128 * (lit.words.ws.length + (bytes.length / 8 + 1) + schedWords rest) + 2 ^ 36 < USIZE
        simp only [schedWords] at hs; omega)
      exact ih hok' accA (write_refines h bytes hb) hsz hfl
    | free =>
      have hok' : SchedOk rest := hok
      obtain ⟨f1, f2⟩ := free_refines h
      have hsz := step_size (gb := gb) .free trivial h (schedWords rest) (by
        show abs.freed + 128 * (lit.words.ws.length + 0 + schedWords rest) + 2 ^ 36 < USIZE
        simp only [schedWords] at hs; omega)
      have hsz' : (Op.free abs).freed + 128 * ((free lit).2.words.ws.length + schedWords rest) + 2 ^ 36 < USIZE := hsz
      have habs : C05.runSched matchStride gb d limit fuel (absSched (LStep.free :: rest)) abs accA =
          C05.runSched matchStride gb d limit fuel (absSched rest) (Op.free abs) accA := rfl
      rw [habs]
      unfold runSched
      generalize free lit = FR at f1 f2 hsz' ⊢
      obtain ⟨o, lit'⟩ := FR
      simp only at f1 f2 hsz'
      subst f1
      exact ih hok' accA f2 hsz' hfl
    | drain =>
      have hok' : SchedOk rest := hok
      have hs0 : SizeOk lit abs := by unfold SizeOk; simp only [schedWords] at hs; omega
      obtain ⟨itsA, e1, e2, e3, e4, _, e6⟩ := drainIter_refines (dok_of_mem hd) hgb limit fuel h hs0 [] []
      have hw := drainIter_words gb d limit fuel lit []
      have hf := op_drainIter_freed matchStride gb d limit fuel abs []
      simp only [List.reverse_nil, List.nil_append] at e1 e2
      have habs : C05.runSched matchStride gb d limit fuel (absSched (LStep.drain :: rest)) abs accA =
          (match Op.drainIter matchStride gb d limit fuel abs [] with
          | (its, none, σ') => C05.runSched matchStride gb d limit fuel (absSched rest) σ' (accA ++ its)
          | (its, some e, σ') => (accA ++ its, some e, σ')) := rfl
      rw [habs]
      unfold runSched
      generalize drainIter gb d limit fuel lit [] = DL at e2 e3 e4 hw ⊢
      generalize Op.drainIter matchStride gb d limit fuel abs [] = DA at e1 e3 e4 e6 hf ⊢
      obtain ⟨itsL, eL, lit'⟩ := DL
      obtain ⟨itsA', eA, abs'⟩ := DA
      simp only at e1 e2 e3 e4 e6 hw hf
      subst e1 e2
      have happ : litItems fl0 accA ++ litItems abs.flags itsA' = litItems fl0 (accA ++ itsA') := by
        rw [litItems_append, hfl]
      cases eL with
      | none => cases eA with
        | none =>
          simp only
          rw [happ]
          exact ih hok' (accA ++ itsA') e4 (by rw [hw, hf]; simp only [schedWords] at hs; exact hs)
            (by rw [e6, hfl, flagsAfterAll_append])
        | some e => exact e3.elim
      | some k => cases eA with
        | none => exact e3.elim
        | some e =>
          simp only
          rw [happ]
          exact ⟨_, rfl, rfl, e3, e4⟩

end DecompLit
end Qco

namespace Qco
namespace DecompLit
open Qco.WB Qco.Op Qco.MetaIO

theorem absSched_append (a b : List LStep) : absSched (a ++ b) = absSched a ++ absSched b := by
  induction a with
  | nil => rfl
  | cons s a ih => cases s <;> simp [absSched, ih]

/-! ### `free_compressed_memory` on a state in simulation -/

/-- `free_compressed_memory` only changes `bit_idx`, to its remainder modulo 64 -/
theorem free_state {d : DType} {lit : LitSt} {abs : Op.St} (h : Sim d lit abs) :
    (free lit).2.state = { lit.state with bitIdx := lit.state.bitIdx % 64 } := by
  have hidx := h.idx_le
  unfold free
  simp only
  by_cases hk : lit.state.bitIdx / 64 > 0
  · rw [if_pos hk, truncateLeftR_ok (by omega) h.wf]
    simp only
    rw [if_neg (by omega)]
    show ({ lit.state with bitIdx := lit.state.bitIdx - lit.state.bitIdx / 64 * 64 } : State) = _
    have e : lit.state.bitIdx - lit.state.bitIdx / 64 * 64 = lit.state.bitIdx % 64 := by omega
    rw [e]
  · rw [if_neg hk]
    have : lit.state.bitIdx % 64 = lit.state.bitIdx := by omega
    rw [this]

/-- … and the unread bits are the same -/
theorem free_unread {d : DType} {lit : LitSt} {abs : Op.St} (h : Sim d lit abs) :
    (free lit).2.words.toBits.drop (free lit).2.state.bitIdx = lit.words.toBits.drop lit.state.bitIdx := by
  obtain ⟨_, f2⟩ := free_refines h
  rw [f2.rest, h.rest]
  rfl

end DecompLit
end Qco
