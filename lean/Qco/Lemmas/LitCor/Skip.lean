/-
Corollaries of layer DL, part 10: skipping whole chunks on the literal decompressor (`chunk_metadata` then
`skip_chunk_body`, `k` times) refines `C11.skipChunks` on the abstract one.
-/
import Qco.Lemmas.LitCor.File
import Qco.Properties.C11
namespace Qco
namespace DecompLit
open Qco.WB Qco.Op Qco.MetaIO

/-- `chunk_metadata()` then `skip_chunk_body()`, `k` times, on the literal decompressor; `none` if any of the calls
does not answer `Ok` (or the metadata call answers `None`) -/
def skipChunks (gb : Nat → Nat) (d : DType) : Nat → LitSt → Option (List RMeta × LitSt)
  | 0, σ => some ([], σ)
  | k + 1, σ =>
    match chunkMetadata gb d σ with
    | (.ok (some m), σ₁) =>
      match skipChunkBody σ₁ with
      | (.ok (), σ₂) => (skipChunks gb d k σ₂).map fun (ms, σ₃) => (m :: ms, σ₃)
      | _ => none
    | _ => none

theorem skipChunks_refines {d : DType} (hd : DOk d) {gb : Nat → Nat} (hgb : ∀ x, gb x ≤ d.uBits) (fl : Flags) :
    ∀ (k : Nat) {lit : LitSt} {abs : Op.St} (ms : List ChunkMeta) (abs' : Op.St), Sim d lit abs → SizeOk lit abs →
      abs.flags = some fl → C11.skipChunks gb d k abs = some (ms, abs') →
      ∃ lit', skipChunks gb d k lit = some (ms.map (RMeta.ofSpec fl), lit') ∧ Sim d lit' abs' ∧
        SizeOk lit' abs' ∧ lit'.words = lit.words ∧ abs'.flags = some fl := by
  intro k
  induction k with
  | zero =>
    intro lit abs ms abs' h hs hfl hk
    simp only [C11.skipChunks, Option.some.injEq, Prod.mk.injEq] at hk
    obtain ⟨rfl, rfl⟩ := hk
    exact ⟨lit, rfl, h, hs, rfl, hfl⟩
  | succ k ih =>
    intro lit abs ms abs' h hs hfl hk
    unfold C11.skipChunks at hk
    unfold skipChunks
    obtain ⟨c1, c2⟩ := chunkMetadata_refines hd hgb h hs
    have hw1 := chunkMetadata_words gb d lit
    have hf1 := op_chunkMetadata_freed gb d abs
    have hfl1 := op_chunkMetadata_flags gb d abs
    generalize chunkMetadata gb d lit = CM at c1 c2 hw1 ⊢
    generalize Op.chunkMetadata gb d abs = ACM at c1 c2 hf1 hfl1 hk
    obtain ⟨lo, lit1⟩ := CM
    obtain ⟨ao, abs1⟩ := ACM
    simp only at c1 c2 hw1 hf1 hfl1
    cases ao with
    | err e => simp at hk
    | ok b =>
      cases b with
      | none => simp at hk
      | some m =>
        simp only at hk
        obtain ⟨a, rfl, f, hf, hab⟩ := c1.ok_rel
        have hff : f = fl := by rw [hfl] at hf; injection hf with hf; exact hf.symm
        subst hff
        simp only [Option.map_some] at hab
        subst hab
        simp only
        have hs1 : SizeOk lit1 abs1 := hs.of_eq hw1 hf1
        obtain ⟨b1, b2⟩ := skipChunkBody_refines c2 hs1
        have hw2 := skipChunkBody_words lit1
        have hf2 := op_skipChunkBody_freed abs1
        have hfl2 := op_skipChunkBody_flags abs1
        generalize skipChunkBody lit1 = SK at b1 b2 hw2 ⊢
        generalize Op.skipChunkBody abs1 = ASK at b1 b2 hf2 hfl2 hk
        obtain ⟨lo2, lit2⟩ := SK
        obtain ⟨ao2, abs2⟩ := ASK
        simp only at b1 b2 hw2 hf2 hfl2
        cases ao2 with
        | err e => simp at hk
        | ok u =>
          simp only at hk
          obtain ⟨u', rfl, _⟩ := b1.ok_rel
          cases hrec : C11.skipChunks gb d k abs2 with
          | none => rw [hrec] at hk; simp at hk
          | some res =>
            obtain ⟨ms', abs3⟩ := res
            rw [hrec] at hk
            simp only [Option.map_some, Option.some.injEq, Prod.mk.injEq] at hk
            obtain ⟨rfl, rfl⟩ := hk
            obtain ⟨lit3, q1, q2, q3, q4, q5⟩ := ih ms' abs3 b2 (hs1.of_eq hw2 hf2)
              (by rw [hfl2, hfl1, hfl]) hrec
            refine ⟨lit3, ?_, q2, q3, by rw [q4, hw2, hw1], q5⟩
            simp only [q1, Option.map_some, List.map_cons]

end DecompLit
end Qco
