/-
Field-by-field round trips of the chunk metadata.
-/
import Qco.Lemmas.Align
import Qco.Spec.WF
namespace Qco
open Parser

theorem decBound_enc (d : DType) (hd : d.Ok) (u : Nat) (hu : d.uValid u) (rest : Bits) :
    decBound d (natBits d.physBits (d.uToRaw u) ++ rest) = .ok u rest := by
  simp only [decBound, Parser.bind, readNat_natBits (hd.raw_lt u hu), hd.raw_inv u hu, Parser.pure]

theorem decMoment_enc (ds : DType) (hd : ds.Ok) (m : Nat) (hm : momentOk ds m) (rest : Bits) :
    decMoment ds (encMoment ds m ++ rest) = .ok m rest := by
  simp only [decMoment, encMoment, Parser.bind, decBound_enc ds hd _ hm.1, Parser.pure, hm.2]

theorem decGcd_enc (gb : Nat → Nat) (range g : Nat) (hg : 1 ≤ g)
    (h : g = 1 ∨ (g - 1 < 2 ^ gb range ∧ g - 1 < range)) (rest : Bits) :
    decGcd gb range (encGcd gb range g ++ rest) = .ok g rest := by
  unfold decGcd encGcd
  by_cases h1 : g = 1
  · subst h1; simp [Parser.bind, readBit, Parser.pure]
  · obtain ⟨ha, hb⟩ := h.resolve_left h1
    simp only [h1, if_false, List.cons_append, Parser.bind, readBit_cons, if_true, readNat_natBits ha]
    have : ¬ (g - 1 ≥ range) := by omega
    simp only [this, if_false, Parser.pure]
    congr 1; omega

theorem decPrefix_enc (gb : Nat → Nat) (d : DType) (fl : Flags) (n : Nat) (common : Option Nat)
    (hd : d.Ok) (p : Prefix) (hp : p.WF gb d fl n common)
    (hcommon : fl.gcds = false → common = some 1) (rest : Bits) :
    decPrefix gb d fl n common (encPrefix gb d fl n common.isSome p ++ rest) = .ok p rest := by
  have hsome : ∀ g, common = some g → p.gcd = g := by
    intro g hg
    have := hp.gcd_ok
    cases hgc : fl.gcds with
    | true => simpa [hgc, hg] using this
    | false =>
      have h1 := hcommon hgc
      rw [hg] at h1
      simp [hgc] at this
      injection h1 with h1; omega
  have hnone : common = none →
      p.gcd = 1 ∨ (p.gcd - 1 < 2 ^ gb (p.upper - p.lower) ∧ p.gcd - 1 < p.upper - p.lower) := by
    intro hg
    have := hp.gcd_ok
    cases hgc : fl.gcds with
    | true => simpa [hgc, hg] using this
    | false => have h1 := hcommon hgc; rw [hg] at h1; cases h1
  have hle : ¬ (p.lower > p.upper) := by have := hp.le; omega
  have hcount := hp.count_lt
  have hcode := hp.code_lt
  have hlo := decBound_enc d hd _ hp.lower_ok
  have hup := decBound_enc d hd _ hp.upper_ok
  have hjump := hp.jump_le
  have hgpos := hp.gcd_pos
  obtain ⟨count, lower, upper, code, jump, gcd⟩ := p
  simp only at hsome hnone hle hcount hcode hlo hup hjump hgpos
  unfold decPrefix encPrefix
  simp only [List.append_assoc, Parser.bind, readNat_natBits hcount, hlo, hup, hle, if_false,
    readNat_natBits hcode, readBits_append]
  cases jump with
  | none =>
    simp only [List.cons_append, List.nil_append, readBit_cons, Bool.false_eq_true, if_false, Parser.pure]
    cases common with
    | none =>
      simp only [Option.isSome_none, Bool.false_eq_true, if_false,
        decGcd_enc gb _ gcd hgpos (hnone rfl)]
    | some g =>
      simp only [Option.isSome_some, if_true, List.nil_append, Parser.pure, hsome g rfl]
  | some j =>
    have hj : j < 2 ^ Frozen.bitsJumpstart := by
      have := hjump j rfl
      simp only [Frozen.bitsJumpstart]; omega
    simp only [List.cons_append, readBit_cons, if_true, Parser.map, Parser.bind,
      readNat_natBits hj, Parser.pure]
    cases common with
    | none =>
      simp only [Option.isSome_none, Bool.false_eq_true, if_false,
        decGcd_enc gb _ gcd hgpos (hnone rfl)]
    | some g =>
      simp only [Option.isSome_some, if_true, List.nil_append, Parser.pure, hsome g rfl]

theorem rep_decPrefix_enc (gb : Nat → Nat) (d : DType) (fl : Flags) (n : Nat) (common : Option Nat)
    (hd : d.Ok) (ps : List Prefix) (hps : ∀ p ∈ ps, p.WF gb d fl n common)
    (hcommon : fl.gcds = false → common = some 1) (rest : Bits) :
    Parser.rep (decPrefix gb d fl n common) ps.length
      (ps.flatMap (encPrefix gb d fl n common.isSome) ++ rest) = .ok ps rest := by
  have := rep_flatMap (decPrefix gb d fl n common) (encPrefix gb d fl n common.isSome) id ps
    (fun p hp r => decPrefix_enc gb d fl n common hd p (hps p hp) hcommon r) rest
  simpa using this

theorem decPrefixes_enc (gb : Nat → Nat) (d : DType) (fl : Flags) (n : Nat) (cg : Option Nat)
    (ps : List Prefix) (hd : d.Ok) (hn : ps.length < 2 ^ 15)
    (hcg : ∀ g, cg = some g →
      fl.gcds = true ∧ 1 ≤ g ∧ (g = 1 ∨ (g - 1 < 2 ^ gb (d.M - 1) ∧ g - 1 < d.M - 1)))
    (hps : ∀ p ∈ ps, p.WF gb d fl n (if fl.gcds then cg else some 1)) (rest : Bits) :
    decPrefixes gb d fl n (encPrefixes gb d fl n cg ps ++ rest) = .ok (cg, ps) rest := by
  unfold decPrefixes encPrefixes
  have hn' : ps.length < 2 ^ Frozen.bitsNPrefixes := hn
  simp only [List.append_assoc, Parser.bind, readNat_natBits hn']
  cases hg : fl.gcds with
  | false =>
    have hcgn : cg = none := by
      cases cg with
      | none => rfl
      | some g => have := (hcg g rfl).1; rw [hg] at this; cases this
    subst hcgn
    simp only [hg] at hps
    have := rep_decPrefix_enc gb d fl n (some 1) hd ps hps (fun _ => rfl) rest
    simp only [Option.isSome_some] at this
    simp only [Bool.false_eq_true, if_false, List.nil_append, Parser.pure, Bool.not_false,
      Bool.true_or, this]
  | true =>
    simp only [hg, if_true] at hps
    cases cg with
    | none =>
      have := rep_decPrefix_enc gb d fl n none hd ps hps (fun h => by rw [hg] at h; cases h) rest
      simp only [Option.isSome_none] at this
      simp only [if_true, List.cons_append, List.nil_append, Parser.bind, readBit_cons, Bool.false_eq_true,
        if_false, Parser.pure, Bool.not_true, Bool.false_or, Option.isSome_none, this]
    | some g =>
      have := rep_decPrefix_enc gb d fl n (some g) hd ps hps (fun h => by rw [hg] at h; cases h) rest
      simp only [Option.isSome_some] at this
      have hcg := hcg g rfl
      simp only [if_true, List.cons_append, readBit_cons, Parser.map, Parser.bind,
        decGcd_enc gb (d.M - 1) g hcg.2.1 hcg.2.2, Parser.pure, Bool.not_true, Bool.false_or,
        Option.isSome_some, this]

theorem rep_decMoment_enc (ds : DType) (hd : ds.Ok) (ms : List Nat) (hms : ∀ m ∈ ms, momentOk ds m)
    (rest : Bits) :
    Parser.rep (decMoment ds) ms.length (ms.flatMap (encMoment ds) ++ rest) = .ok ms rest := by
  have := rep_flatMap (decMoment ds) (encMoment ds) id ms
    (fun m hm r => decMoment_enc ds hd m (hms m hm) r) rest
  simpa using this

/-- the chunk metadata reader inverts the chunk metadata writer -/
theorem decChunkMeta_enc (gb : Nat → Nat) (d : DType) (fl : Flags) (m : ChunkMeta)
    (hp : (prefDType d fl).Ok) (hs : d.signed.Ok)
    (hn : m.n < 2 ^ 24) (hb : m.bodyBytes < 2 ^ 32)
    (hml : m.moments.length = fl.order) (hmo : ∀ x ∈ m.moments, momentOk d.signed x)
    (hnp : m.prefixes.length < 2 ^ 15)
    (hcg : ∀ g, m.commonGcd = some g → fl.gcds = true ∧ 1 ≤ g ∧
      (g = 1 ∨ (g - 1 < 2 ^ gb ((prefDType d fl).M - 1) ∧ g - 1 < (prefDType d fl).M - 1)))
    (hps : ∀ p ∈ m.prefixes,
      p.WF gb (prefDType d fl) fl m.n (if fl.gcds then m.commonGcd else some 1))
    (rest : Bits) :
    decChunkMeta gb d fl (encChunkMeta gb d fl m ++ rest) = .ok m rest := by
  unfold decChunkMeta encChunkMeta
  apply aligned_padToByte
  intro r
  have hn' : m.n < 2 ^ Frozen.bitsNEntries := hn
  have hb' : m.bodyBytes < 2 ^ Frozen.bitsBodySize := hb
  have hmom := rep_decMoment_enc d.signed hs m.moments hmo
  rw [hml] at hmom
  simp only [List.append_assoc, Parser.bind, readNat_natBits hn', readNat_natBits hb', hmom,
    decPrefixes_enc gb (prefDType d fl) fl m.n m.commonGcd m.prefixes hp hnp hcg hps, Parser.pure]

end Qco
