/-
Layer M: the literal metadata reader and writer of `q_compress` (`Qco.Op.MetaIO`) against the
specification of the format (`Qco.Spec.File`).  Main results (details in `Qco/Lemmas/MetaIO/*.lean`):

* `parseFrom_spec`      `ChunkMetadata::parse_from` + `drain_empty_byte` = `decChunkMeta`
* `parseFrom_raw_spec`  `ChunkMetadata::parse_from` alone = the parser before the alignment
* `writeTo_spec`        `ChunkMetadata::write_to` appends `encChunkMeta` (Write.lean)
* `flags_parse_spec`, `flags_write_spec`, `flags_write_all_false` (Flags.lean)
* `parse_write_roundtrip`
* `update_spec`          `update_write_compressed_body_size` patches the zero body-size field (Update.lean)
* `std_of_mem`          the hypotheses on the data type hold for all 15 types and their signed companions
-/
import Qco.Lemmas.MetaIO.Parse
import Qco.Lemmas.MetaIO.Write
import Qco.Lemmas.MetaIO.Flags
import Qco.Lemmas.MetaIO.Update
import Qco.Lemmas.Meta
namespace Qco.MetaIO
open Qco Qco.WB Qco.Parser

/-! ### the data types -/

theorem signed_uBits (d : DType) : d.signed.uBits = d.uBits := by
  unfold DType.signed
  cases d.kind <;> rfl

theorem M_eq_two_H {d : DType} (h : 1 ≤ d.uBits) : d.M = 2 * d.H := by
  unfold DType.M DType.H
  obtain ⟨k, hk⟩ : ∃ k, d.uBits = k + 1 := ⟨d.uBits - 1, by omega⟩
  rw [hk, Nat.pow_succ]
  simp only [Nat.add_sub_cancel]
  omega

/-- `Std` from the shape of the row -/
theorem std_of_kind (d : DType) (hP0 : 0 < d.physBits) (hP : d.physBits ≤ 128) (hU0 : 1 ≤ d.uBits)
    (hU : d.uBits ≤ 128)
    (hk : match d.kind with
      | .bool => True
      | .ts96 => d.tsHalf ≤ d.H
      | _ => d.physBits = d.uBits) : Std d := by
  refine ⟨hP0, hP, hU, ?_⟩
  intro raw u hraw h
  have hM := M_eq_two_H hU0
  have hMpos : 0 < d.M := Nat.two_pow_pos _
  unfold DType.rawToU at h
  cases hkind : d.kind with
  | uint =>
    rw [hkind] at h hk
    simp only [DType.toU, hkind] at h hk
    cases h
    unfold DType.M; rw [← hk]; exact hraw
  | int =>
    rw [hkind] at h
    simp only [DType.toU, hkind] at h
    cases h
    exact Nat.mod_lt _ hMpos
  | float =>
    rw [hkind] at h
    simp only [DType.toU, hkind] at h
    cases h
    split <;> omega
  | bool =>
    rw [hkind] at h
    simp only at h
    cases h
    have : 2 ≤ d.M := by have := Nat.two_pow_pos (d.uBits - 1); unfold DType.H at hM; omega
    split <;> omega
  | ts96 =>
    rw [hkind] at h hk
    simp only at h hk
    split at h
    · cases h; omega
    · cases h

theorem std_signed {d : DType} (hd : Std d) (hU0 : 1 ≤ d.uBits) : Std d.signed := by
  have hU := hd.ubits_le
  unfold DType.signed
  cases hk : d.kind with
  | bool => exact hd
  | uint => exact std_of_kind _ hU0 hU hU0 hU rfl
  | int => exact std_of_kind _ hU0 hU hU0 hU rfl
  | float => exact std_of_kind _ hU0 hU hU0 hU rfl
  | ts96 => exact std_of_kind _ hU0 hU hU0 hU rfl

/-- the 15 data types of the library and their signed companions satisfy the hypotheses -/
theorem std_of_mem {d : DType} (h : d ∈ Frozen.dtypes) : Std d ∧ Std d.signed := by
  have key : Std d ∧ 1 ≤ d.uBits := by
    simp only [Frozen.dtypes, List.mem_cons, List.not_mem_nil, or_false] at h
    rcases h with rfl | rfl | rfl | rfl | rfl | rfl | rfl | rfl | rfl | rfl | rfl | rfl | rfl | rfl | rfl <;>
      exact ⟨std_of_kind _ (by decide) (by decide) (by decide) (by decide) (by decide), by decide⟩
  exact ⟨key.1, std_signed key.1 key.2⟩

/-! ### (a) `ChunkMetadata::parse_from` -/

/-- **`ChunkMetadata::parse_from` alone** (any reader position inside the data, no alignment):
it answers what the specification's parser before the alignment answers on the remaining bits. -/
theorem parseFrom_raw_spec {w : Words} (hw : w.WF) (hsz : w.total + 256 < USIZE) {gb : Nat → Nat}
    {d : DType} (hd : Std d) (hds : Std d.signed) (hgb : ∀ x, gb x ≤ d.uBits) (fl : Flags)
    {r : Reader} (hr : RInv w r) :
    RInv w (parseFrom gb d fl w r).2 ∧ r.bitIdx ≤ (parseFrom gb d fl w r).2.bitIdx ∧
    match decChunkMetaRaw gb d fl (w.toBits.drop r.bitIdx) with
    | .ok m rest => (parseFrom gb d fl w r).1 = .ok (RMeta.ofSpec fl m)
        ∧ rest = w.toBits.drop (parseFrom gb d fl w r).2.bitIdx
    | .insufficient => (parseFrom gb d fl w r).1 = .err "InsufficientData"
    | .corrupt => (parseFrom gb d fl w r).1 = .err "Corruption"
        ∨ (d.kind = .ts96 ∧ fl.order = 0 ∧ (parseFrom gb d fl w r).1 = .err "InvalidArgument")
    | .compat => (parseFrom gb d fl w r).1 = .err "Compatibility" := by
  have h := refines_parseFrom hw hsz hd hds hgb (fun x => by rw [signed_uBits]; exact hgb x) fl r hr
  obtain ⟨h1, h2, h3⟩ := h
  refine ⟨h1, h2, ?_⟩
  unfold Parser.map Parser.bind at h3
  cases hp : decChunkMetaRaw gb d fl (w.toBits.drop r.bitIdx) with
  | ok m rest => rw [hp] at h3; exact h3
  | insufficient => rw [hp] at h3; exact h3
  | corrupt =>
    rw [hp] at h3
    obtain ⟨k, hk, e⟩ := h3
    rcases hk with rfl | ⟨⟨t1, t2⟩, rfl⟩
    · exact Or.inl e
    · exact Or.inr ⟨t1, t2, e⟩
  | compat => rw [hp] at h3; exact h3

/-- **(a) `ChunkMetadata::parse_from` followed by `drain_empty_byte`** (what `read_chunk_meta` runs after
the magic byte), from any byte-aligned position of any well-formed word buffer, **is `decChunkMeta`**
on the remaining bits:

* the same metadata (`RMeta.ofSpec`: the common-GCD field is not kept) and the same end position;
* `InsufficientData` exactly when the specification says `insufficient`;
* `Corruption` when the specification says `corrupt` — except that an out-of-range bound of a 96-bit
  timestamp type (no delta encoding) is reported by `Timestamp96::new` as `InvalidArgument`;
* never `panic`.

On an error the reader is *not* restored: it stays where the last successful read left it
(`r.bitIdx ≤ out.2.bitIdx ≤ w.total`); `Decompressor::with_reader` commits the position only on `Ok`. -/
theorem parseFrom_spec {w : Words} (hw : w.WF) (hsz : w.total + 256 < USIZE) {gb : Nat → Nat}
    {d : DType} (hd : Std d) (hds : Std d.signed) (hgb : ∀ x, gb x ≤ d.uBits) (fl : Flags)
    {r : Reader} (hr : RInv w r) (hal : r.bitIdx % 8 = 0) :
    RInv w (parseFromDrain gb d fl w r).2 ∧ r.bitIdx ≤ (parseFromDrain gb d fl w r).2.bitIdx ∧
    match decChunkMeta gb d fl (w.toBits.drop r.bitIdx) with
    | .ok m rest => (parseFromDrain gb d fl w r).1 = .ok (RMeta.ofSpec fl m)
        ∧ rest = w.toBits.drop (parseFromDrain gb d fl w r).2.bitIdx
    | .insufficient => (parseFromDrain gb d fl w r).1 = .err "InsufficientData"
    | .corrupt => (parseFromDrain gb d fl w r).1 = .err "Corruption"
        ∨ (d.kind = .ts96 ∧ fl.order = 0 ∧ (parseFromDrain gb d fl w r).1 = .err "InvalidArgument")
    | .compat => (parseFromDrain gb d fl w r).1 = .err "Compatibility" := by
  have h := matches_parseFromDrain hw hsz hd hds hgb (fun x => by rw [signed_uBits]; exact hgb x) fl hr hal
  obtain ⟨h1, h2, h3⟩ := h
  refine ⟨h1, h2, ?_⟩
  unfold Parser.map Parser.bind at h3
  cases hp : decChunkMeta gb d fl (w.toBits.drop r.bitIdx) with
  | ok m rest => rw [hp] at h3; exact h3
  | insufficient => rw [hp] at h3; exact h3
  | corrupt =>
    rw [hp] at h3
    obtain ⟨k, hk, e⟩ := h3
    rcases hk with rfl | ⟨⟨t1, t2⟩, rfl⟩
    · exact Or.inl e
    · exact Or.inr ⟨t1, t2, e⟩
  | compat => rw [hp] at h3; exact h3

/-- errors never panic (and neither does success) -/
theorem parseFrom_no_panic {w : Words} (hw : w.WF) (hsz : w.total + 256 < USIZE) {gb : Nat → Nat}
    {d : DType} (hd : Std d) (hds : Std d.signed) (hgb : ∀ x, gb x ≤ d.uBits) (fl : Flags)
    {r : Reader} (hr : RInv w r) :
    (parseFrom gb d fl w r).1 ≠ .panic ∧
      (r.bitIdx % 8 = 0 → (parseFromDrain gb d fl w r).1 ≠ .panic) :=
  ⟨(refines_parseFrom hw hsz hd hds hgb (fun x => by rw [signed_uBits]; exact hgb x) fl r hr).no_panic,
   fun hal => (matches_parseFromDrain hw hsz hd hds hgb
      (fun x => by rw [signed_uBits]; exact hgb x) fl hr hal).no_panic⟩

/-! ### (d) write, then parse -/

/-- the "fits its field" hypotheses under which the bytes written by `write_to` read back as the same
metadata (exactly those of `decChunkMeta_enc` for the metadata as the writer sees it) -/
structure RMeta.Fits (gb : Nat → Nat) (d : DType) (fl : Flags) (m : RMeta) : Prop where
  pref_ok : (prefDType d fl).Ok
  signed_ok : d.signed.Ok
  n_lt : m.n < 2 ^ 24
  body_lt : m.compressedBodySize < 2 ^ 32
  variant : m.prefixMetadata.isDelta = decide (fl.order ≠ 0)
  moments_len : m.prefixMetadata.moments.length = fl.order
  moments_ok : ∀ x ∈ m.prefixMetadata.moments, momentOk d.signed x
  nprefs_lt : m.prefixMetadata.prefixes.length < 2 ^ 15
  common_ok : ∀ g, commonField fl m.prefixMetadata.prefixes = some g → fl.gcds = true ∧ 1 ≤ g ∧
    (g = 1 ∨ (g - 1 < 2 ^ gb ((prefDType d fl).M - 1) ∧ g - 1 < (prefDType d fl).M - 1))
  /-- in particular: with a common GCD every prefix (also a single-valued one) carries it -/
  prefixes_ok : ∀ p ∈ m.prefixMetadata.prefixes, p.WF gb (prefDType d fl) fl m.n
    (if fl.gcds then commonField fl m.prefixMetadata.prefixes else some 1)

theorem ofSpec_toSpec (fl : Flags) (m : RMeta)
    (hvar : m.prefixMetadata.isDelta = decide (fl.order ≠ 0)) :
    RMeta.ofSpec fl (m.toSpec fl) = m := by
  obtain ⟨n, b, pm⟩ := m
  unfold RMeta.ofSpec RMeta.toSpec
  cases pm with
  | simple ps =>
    have ho : fl.order = 0 := by
      simp only [PrefixMeta.isDelta] at hvar
      have := hvar.symm
      simpa using this
    simp only [ho, if_true, PrefixMeta.prefixes]
  | delta ps ms =>
    have ho : ¬ fl.order = 0 := by
      simp only [PrefixMeta.isDelta] at hvar
      have := hvar.symm
      simpa using this
    simp only [ho, if_false, PrefixMeta.prefixes, PrefixMeta.moments]

/-- **(d)** what `write_to` writes into an empty `BitWriter`, drained and fed to a `BitWords`
(`drain_bytes` → `extend_bytes`), is parsed by `parse_from` + `drain_empty_byte` to the same metadata,
ending exactly at the end of the data -/
theorem parse_write_roundtrip {gb : Nat → Nat} {d : DType} (hd : Std d) (hds : Std d.signed)
    (hgb : ∀ x, gb x ≤ d.uBits) (fl : Flags) (m : RMeta) (hfit : m.Fits gb d fl)
    (hsz : (encChunkMeta gb d fl (m.toSpec fl)).length + 256 < USIZE) :
    ∃ wr', writeTo gb d fl m {} = .ok wr' ∧
      ∃ r', parseFromDrain gb d fl (Words.extend {} wr'.drainBytes.1) {} = (.ok m, r')
        ∧ r'.bitIdx = (Words.extend {} wr'.drainBytes.1).total := by
  have hps : ∀ p ∈ m.prefixMetadata.prefixes, PrefixNoPanic p := fun p hp =>
    ⟨(hfit.prefixes_ok p hp).le, (hfit.prefixes_ok p hp).gcd_pos⟩
  have hn64 : m.n < 2 ^ 64 := Nat.lt_of_lt_of_le hfit.n_lt (by decide)
  have hb0 : Writer.bits {} = [] := rfl
  obtain ⟨wr', e, b, i, j8⟩ := writeTo_spec hd.ubits_le hds.ubits_le
    (fun x => Nat.le_trans (hgb x) (Nat.le_max_left _ _))
    (fun x => by rw [signed_uBits]; exact Nat.le_trans (hgb x) (Nat.le_max_left _ _))
    fl m hn64 hfit.variant hps winv_default (by rw [hb0]; rfl)
  refine ⟨wr', e, ?_⟩
  obtain ⟨hw, htb⟩ := drain_then_words i j8
  obtain ⟨w, hwdef⟩ : ∃ w, w = Words.extend {} wr'.drainBytes.1 := ⟨_, rfl⟩
  rw [← hwdef] at hw htb ⊢
  rw [b, hb0, List.nil_append] at htb
  have htot : w.total = (encChunkMeta gb d fl (m.toSpec fl)).length := by
    rw [← hw.toBits_length, htb]
  have hr0 : RInv w {} := rinv_start w
  have hspec := parseFrom_spec hw (by rw [htot]; exact hsz) hd hds hgb fl hr0 (by rfl)
  have hdec := decChunkMeta_enc gb d fl (m.toSpec fl) hfit.pref_ok hfit.signed_ok hfit.n_lt
    hfit.body_lt hfit.moments_len hfit.moments_ok hfit.nprefs_lt hfit.common_ok hfit.prefixes_ok []
  rw [List.append_nil] at hdec
  have hdrop : w.toBits.drop (Reader.bitIdx {}) = encChunkMeta gb d fl (m.toSpec fl) := by
    show w.toBits.drop 0 = _
    rw [List.drop_zero, htb]
  rw [hdrop, hdec] at hspec
  obtain ⟨h1, _, h3, h4⟩ := hspec
  rw [ofSpec_toSpec fl m hfit.variant] at h3
  refine ⟨(parseFromDrain gb d fl w {}).2, Prod.ext h3 rfl, ?_⟩
  have hle := h1.pos_le
  have : (w.toBits.drop (parseFromDrain gb d fl w {}).2.bitIdx).length = 0 := by rw [← h4]; rfl
  rw [List.length_drop, hw.toBits_length] at this
  omega

end Qco.MetaIO
