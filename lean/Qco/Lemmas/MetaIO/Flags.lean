/-
Layer M, part 5: `Flags::parse_from` + `TryFrom<Vec<bool>>` = `decFlags`; `Flags::write` +
`TryInto<Vec<bool>>` = `encFlags` (with one exception: the all-false flags, for which the source writes
*no byte at all*).
-/
import Qco.Lemmas.MetaIO.Parse
import Qco.Lemmas.BodyWriterTable
namespace Qco.MetaIO
open Qco Qco.WB Qco.Parser

/-! ### `TryFrom<Vec<bool>> for Flags` -/

/-- the iterator code of `try_from` is positional access with default `false` -/
theorem flagsTryFrom_shape (bools : List Bool) :
    flagsTryFrom bools =
      match BodyWriter.bitsToUsize [bools.getD 1 false, bools.getD 2 false, bools.getD 3 false] with
      | .panic => .panic
      | .err k => .err k
      | .ok order =>
        if (bools.drop 6).any id then .err "Compatibility"
        else .ok { use5 := bools.getD 0 false, order := order, minCount := bools.getD 4 false,
                   gcds := bools.getD 5 false } := by
  rcases bools with _ | ⟨a, _ | ⟨b, _ | ⟨c, _ | ⟨d, _ | ⟨e, _ | ⟨f, rest⟩⟩⟩⟩⟩⟩
  · rfl
  · cases a <;> rfl
  · cases a <;> rfl
  · cases a <;> rfl
  · cases a <;> rfl
  · cases a <;> cases e <;> rfl
  · cases a <;> cases e <;> cases f <;> rfl

theorem bitsNat3 (b c d : Bool) : bitsNat [b, c, d] = b.toNat * 4 + c.toNat * 2 + d.toNat := by
  cases b <;> cases c <;> cases d <;> rfl

/-- **`Flags::try_from(bools)` is `flagsOfBits`**: any set bit beyond the six known ones, in any byte,
is a `Compatibility` error; never a panic -/
theorem flagsTryFrom_eq (bools : List Bool) :
    flagsTryFrom bools = match flagsFields bools with
      | none => .err "Compatibility"
      | some f => .ok f := by
  rw [flagsTryFrom_shape, BodyWriter.bitsToUsize_eq _ (by show 3 ≤ 64; omega), bitsNat3]
  unfold flagsFields
  simp only
  split <;> rfl

/-! ### `Flags::parse_from` -/

theorem readBits_len {n : Nat} {s bs rest : Bits} (h : readBits n s = .ok bs rest) :
    rest.length + n = s.length := by
  rw [readBits_def] at h
  by_cases hl : s.length < n
  · rw [if_pos hl] at h; cases h
  · rw [if_neg hl] at h; cases h; rw [List.length_drop]; omega

theorem readBit_len {s rest : Bits} {b : Bool} (h : readBit s = .ok b rest) :
    rest.length + 1 = s.length := by
  cases s with
  | nil => cases h
  | cons x xs => cases h; rfl

/-- the `loop` of `Flags::parse_from` is `decFlagBits`; the fuel is never exhausted -/
theorem matches_flagsLoop {w : Words} (hw : w.WF) (hsz : w.total + 256 < USIZE) :
    ∀ (fuel : Nat) (bools : List Bool) (r : Reader), RInv w r → w.total - r.bitIdx < 8 * fuel →
      Matches w False r
        ((Parser.bind (decFlagBits fuel) fun bs => Parser.pure (bools ++ bs)) (w.toBits.drop r.bitIdx))
        (flagsLoop w fuel bools r) := by
  intro fuel
  induction fuel with
  | zero => intro bools r _ h; omega
  | succ fuel ih =>
    intro bools r hr hfuel
    have e : (Parser.bind (decFlagBits (fuel + 1)) fun bs => Parser.pure (bools ++ bs))
        = Parser.bind (readBits 7) fun b => Parser.bind readBit fun c =>
            if c then Parser.bind (decFlagBits fuel) fun rest => Parser.pure ((bools ++ b) ++ rest)
            else Parser.pure (bools ++ b) := by
      show Parser.bind (Parser.bind (readBits 7) fun b => Parser.bind readBit fun c =>
        if c then Parser.bind (decFlagBits fuel) fun rest => Parser.pure (b ++ rest)
        else Parser.pure b) _ = _
      rw [pbind_assoc]
      congr 1; funext b
      rw [pbind_assoc]
      congr 1; funext c
      rw [pbind_ite, pbind_assoc, pure_pbind]
      cases c
      · rfl
      · simp only [if_true]
        congr 1; funext rest
        rw [pure_pbind, List.append_assoc]
    rw [e]
    unfold flagsLoop
    refine matches_bind (refines_read hw hsz False (by decide) (by decide) r hr) ?_
    intro bs r1 hr1 _ hp1
    refine matches_bind (refines_readOne hw hsz False r1 hr1) ?_
    intro c r2 hr2 _ hp2
    cases c with
    | false => exact refines_pure w False _ r2 hr2
    | true =>
      simp only [Bool.not_true, Bool.false_eq_true, if_false, if_true]
      have l1 := readBits_len hp1
      have l2 := readBit_len hp2
      rw [List.length_drop, List.length_drop, hw.toBits_length] at l1
      rw [List.length_drop, List.length_drop, hw.toBits_length] at l2
      exact ih (bools ++ bs) r2 hr2 (by omega)

/-- **`Flags::parse_from` is `decFlags`** from every byte-aligned position: the same flags and end
position, `InsufficientData` when the section is cut, `Compatibility` when an unknown bit is set
anywhere in any continuation byte, never `Corruption`, never a panic -/
theorem flags_parse_spec {w : Words} (hw : w.WF) (hsz : w.total + 256 < USIZE) {r : Reader}
    (hr : RInv w r) (hal : r.j % 8 = 0) :
    Matches w False r (decFlags (w.toBits.drop r.bitIdx)) (flagsParseFrom w r) := by
  have hlen : (w.toBits.drop r.bitIdx).length = w.total - r.bitIdx := by
    rw [List.length_drop, hw.toBits_length]
  have e1 : flagsParseFrom w r
      = RM.bind (flagsLoop w ((w.total - r.bitIdx) / 8 + 1) []) (fun bools r' => (flagsTryFrom bools, r')) r := by
    unfold flagsParseFrom alignedByteIdxM
    show RM.bind (fun r => (alignedByteIdx r, r)) _ r = _
    unfold alignedByteIdx RM.bind
    simp only [hal, if_true]
  have e2 : decFlags (w.toBits.drop r.bitIdx)
      = Parser.bind (Parser.bind (decFlagBits ((w.total - r.bitIdx) / 8 + 1)) fun bs =>
          Parser.pure ([] ++ bs)) flagsOfBits (w.toBits.drop r.bitIdx) := by
    unfold decFlags
    rw [hlen]
    simp only [List.nil_append, pbind_pure]
  rw [e1, e2]
  refine matches_bind (matches_flagsLoop hw hsz _ [] r hr (by omega)) ?_
  intro bools r1 hr1 _ _
  rw [flagsTryFrom_eq]
  unfold flagsOfBits
  cases flagsFields bools with
  | none => exact ⟨hr1, Nat.le_refl _, rfl⟩
  | some f => exact ⟨hr1, Nat.le_refl _, rfl, rfl⟩

/-- a misaligned reader is refused before anything is read -/
theorem flags_parse_misaligned (w : Words) {r : Reader} (hal : r.j % 8 ≠ 0) :
    flagsParseFrom w r = (.err "InvalidArgument", r) := by
  unfold flagsParseFrom alignedByteIdxM
  show RM.bind (fun r => (alignedByteIdx r, r)) _ r = _
  unfold alignedByteIdx RM.bind
  simp only [hal, if_false]

/-! ### `TryInto<Vec<bool>>`, `Flags::write` -/

/-- `try_into` yields the six flag bits without their trailing zeros -/
theorem flagsTryInto_eq : ∀ (u : Bool) (o : Fin 8) (m g : Bool),
    flagsTryInto ⟨u, o.val, m, g⟩ = .ok (trimFalse (Flags.bits ⟨u, o.val, m, g⟩)) := by
  decide

theorem trimFalse_len : ∀ (u : Bool) (o : Fin 8) (m g : Bool),
    (trimFalse (Flags.bits ⟨u, o.val, m, g⟩)).length ≤ 6 := by
  decide

theorem flagsTryInto_order_gt (f : Flags) (h : f.order > 7) : flagsTryInto f = .err "InvalidArgument" := by
  unfold flagsTryInto
  have : f.order > Frozen.maxDeltaOrder := h
  simp only [this, if_true]

/-- at most six bits: the loop of `Flags::write` runs once and writes them all -/
theorem flagsWriteLoop_short (bools : List Bool) (h : bools.length ≤ 6) (wr : Writer) :
    flagsWriteLoop bools (List.range (bools.length / 7 + 1)) wr = wr.write bools := by
  have h0 : bools.length / 7 = 0 := by omega
  rw [h0]
  show flagsWriteLoop bools [0] wr = _
  unfold flagsWriteLoop
  simp only [Nat.zero_mul, Nat.zero_add, List.drop_zero, flagsWriteLoop]
  have hm : min 7 bools.length = bools.length := by omega
  rw [hm, List.take_length, if_neg (by omega)]

/-- **`Flags::write` appends `encFlags`** — for every flags value with order ≤ 7 except the all-false
one — from a byte-aligned writer; never a panic -/
theorem flags_write_spec (f : Flags) (ho : f.order ≤ 7) (hne : trimFalse f.bits ≠ [])
    {wr : Writer} (h : WInv wr) (hal : wr.bits.length % 8 = 0) :
    ∃ wr', flagsWrite f wr = .ok wr' ∧ wr'.bits = wr.bits ++ encFlags f ∧ WInv wr' ∧ wr'.j % 8 = 0 := by
  obtain ⟨u, o, m, g⟩ := f
  have hi := flagsTryInto_eq u ⟨o, by simp at ho; omega⟩ m g
  have hl := trimFalse_len u ⟨o, by simp at ho; omega⟩ m g
  simp only at hi hl
  obtain ⟨t, ht⟩ : ∃ t, t = trimFalse (Flags.bits ⟨u, o, m, g⟩) := ⟨_, rfl⟩
  rw [← ht] at hi hl hne
  unfold flagsWrite
  rw [hi]
  simp only
  rw [flagsWriteLoop_short t hl]
  obtain ⟨b1, i1⟩ := write_spec t h
  obtain ⟨f1, f2, f3⟩ := finishByte_spec i1
  refine ⟨_, rfl, ?_, f2, f3⟩
  rw [f1, b1]
  unfold encFlags
  simp only
  rw [← ht, List.append_assoc, List.length_append]
  have hpos : 0 < t.length := List.length_pos_iff.mpr hne
  have : (8 - (wr.bits.length + t.length) % 8) % 8 = 8 - t.length := by omega
  rw [this]

/-- **finding**: for the all-false flags (`use_5_bit_code_len = false`, order 0, no min-count, no GCDs)
`Flags::write` writes nothing at all — `finish_byte` on an aligned writer adds no byte — whereas the
format (and `Flags::parse_from`) needs one zero byte.  Unreachable through `Compressor`
(`Flags::from(&config)` sets `use_5_bit_code_len`). -/
theorem flags_write_all_false {wr : Writer} (h : WInv wr) (hal : wr.bits.length % 8 = 0) :
    ∃ wr', flagsWrite ⟨false, 0, false, false⟩ wr = .ok wr' ∧ wr'.bits = wr.bits
      ∧ encFlags ⟨false, 0, false, false⟩ = List.replicate 8 false := by
  have hi : flagsTryInto ⟨false, 0, false, false⟩ = .ok [] := by decide
  unfold flagsWrite
  rw [hi]
  simp only
  rw [flagsWriteLoop_short [] (by decide)]
  obtain ⟨b1, i1⟩ := write_spec [] h
  obtain ⟨f1, _, _⟩ := finishByte_spec i1
  refine ⟨_, rfl, ?_, by decide⟩
  rw [f1, b1, List.append_nil]
  have : (8 - wr.bits.length % 8) % 8 = 0 := by omega
  rw [this]
  simp

/-- an order above 7 is refused, nothing is written -/
theorem flags_write_order_gt (f : Flags) (h : f.order > 7) (wr : Writer) :
    flagsWrite f wr = .err "InvalidArgument" := by
  unfold flagsWrite
  rw [flagsTryInto_order_gt f h]

end Qco.MetaIO
