/-
Layer M, part 3: `parse_prefixes`, `DeltaMoments::parse_from`, `ChunkMetadata::parse_from` and the tail
of `read_chunk_meta` refine the specification's `decPrefix`, `decPrefixes`, `decMoment`, `decChunkMeta`.
-/
import Qco.Lemmas.MetaIO.ParseBasics
namespace Qco.MetaIO
open Qco Qco.WB Qco.Parser

/-! ### widths -/

theorem clog2_le_24 {n : Nat} (hn : n < 2 ^ 24) : clog2 (n + 1) ≤ 24 := by
  unfold clog2
  by_cases h : n + 1 ≤ 1
  · rw [if_pos h]; omega
  · rw [if_neg h]
    have h0 : n + 1 - 1 ≠ 0 := by omega
    have : (n + 1 - 1).log2 < 24 := (Nat.log2_lt h0).2 (by omega)
    omega

theorem countBits_le (fl : Flags) {n : Nat} (hn : n < 2 ^ 24) : fl.countBits n ≤ 24 := by
  unfold Flags.countBits
  split
  · exact clog2_le_24 hn
  · exact Nat.le_refl _

theorem codeLenBits_pos (fl : Flags) : 0 < fl.codeLenBits := by unfold Flags.codeLenBits; split <;> omega
theorem codeLenBits_le (fl : Flags) : fl.codeLenBits ≤ 6 := by unfold Flags.codeLenBits; split <;> omega

/-! ### one prefix -/

/-- one iteration of the loop of `parse_prefixes` is `decPrefix` -/
theorem refines_parsePrefix {w : Words} (hw : w.WF) (hsz : w.total + 256 < USIZE) {gb : Nat → Nat}
    {d : DType} (hd : Std d) (hgb : ∀ x, gb x ≤ d.uBits) (fl : Flags) {n : Nat} (hn : n < 2 ^ 24)
    (common : Option Nat) :
    Refines w (d.kind = .ts96) (parsePrefix gb d fl w n common) (decPrefix gb d fl n common) := by
  unfold parsePrefix decPrefix
  refine refines_bind (refines_readUsize hw hsz _ (by have := countBits_le fl hn; omega)) ?_
  intro count
  refine refines_bind_val (fun u => u < d.M) (refines_readFrom hw hsz hd)
    (fun s a rest h => decBound_lt hd h) ?_
  intro lower _
  refine refines_bind_val (fun u => u < d.M) (refines_readFrom hw hsz hd)
    (fun s a rest h => decBound_lt hd h) ?_
  intro upper hu
  by_cases hlu : lower > upper
  · rw [if_pos hlu, if_pos hlu]; exact refines_corrupt _ _
  · rw [if_neg hlu, if_neg hlu, if_neg hlu, ← bind_assoc, ← pbind_assoc]
    refine refines_bind (refines_readCode hw hsz _ (codeLenBits_pos fl) (codeLenBits_le fl)) ?_
    intro code
    refine refines_bind (refines_readOne hw hsz _) ?_
    intro hj
    refine refines_bind ?_ ?_
    · exact refines_ite (refines_map some (refines_readUsize hw hsz _ (by decide))) (refines_pure _ _ none)
    intro jump
    refine refines_bind ?_ (fun gcd => refines_pure _ _ _)
    cases common with
    | some g => exact refines_pure _ _ g
    | none =>
      simp only
      exact refines_readGcd hw hsz _ hd.ubits_le (hgb _) (by unfold DType.M at hu; omega)

/-! ### loops that push onto a vector -/

/-- `for _ in 0..k { v.push(m?) }` -/
def genLoop {α : Type} (m : RM α) : Nat → List α → RM (List α)
  | 0, acc => RM.pure acc
  | k + 1, acc => RM.bind m fun a => genLoop m k (acc ++ [a])

theorem refines_genLoop {α : Type} {w : Words} {ts : Prop} {m : RM α} {p : Parser α}
    (hm : Refines w ts m p) : ∀ (k : Nat) (acc : List α),
    Refines w ts (genLoop m k acc) (Parser.bind (Parser.rep p k) fun as => Parser.pure (acc ++ as)) := by
  intro k
  induction k with
  | zero =>
    intro acc
    have : (Parser.bind (Parser.rep p 0) fun as => Parser.pure (acc ++ as)) = Parser.pure acc := by
      show Parser.pure (acc ++ []) = Parser.pure acc
      rw [List.append_nil]
    rw [this]
    exact refines_pure _ _ acc
  | succ k ih =>
    intro acc
    have : (Parser.bind (Parser.rep p (k + 1)) fun as => Parser.pure (acc ++ as))
        = Parser.bind p fun a => Parser.bind (Parser.rep p k) fun as => Parser.pure ((acc ++ [a]) ++ as) := by
      show Parser.bind (Parser.bind p fun a => Parser.bind (Parser.rep p k) fun as => Parser.pure (a :: as)) _ = _
      rw [pbind_assoc]
      congr 1; funext a
      rw [pbind_assoc]
      congr 1; funext as
      rw [pure_pbind, List.append_assoc]; rfl
    rw [this]
    exact refines_bind hm fun a => ih (acc ++ [a])

theorem prefixLoop_eq (gb : Nat → Nat) (d : DType) (fl : Flags) (w : Words) (n : Nat) (c : Option Nat) :
    ∀ (k : Nat) (acc : List Prefix),
      prefixLoop gb d fl w n c k acc = genLoop (parsePrefix gb d fl w n c) k acc := by
  intro k
  induction k with
  | zero => intro acc; rfl
  | succ k ih => intro acc; simp only [prefixLoop, genLoop, ih]

theorem momentsLoop_eq (ds : DType) (w : Words) : ∀ (k : Nat) (acc : List Nat),
    momentsLoop ds w k acc
      = genLoop (RM.bind (readFrom ds w) fun u => RM.pure (ds.fromU u)) k acc := by
  intro k
  induction k with
  | zero => intro acc; rfl
  | succ k ih =>
    intro acc
    simp only [momentsLoop, genLoop, ih, bind_assoc, pure_bind]

/-- `bind p pure = p` -/
theorem pbind_pure {α : Type} (p : Parser α) : (Parser.bind p fun a => Parser.pure a) = p := by
  funext s
  unfold Parser.bind
  cases p s <;> rfl

theorem rep_nil_append {α : Type} (p : Parser α) (k : Nat) :
    (Parser.bind (Parser.rep p k) fun as => Parser.pure ([] ++ as)) = Parser.rep p k := by
  simp only [List.nil_append]
  exact pbind_pure _

/-! ### `DeltaMoments::parse_from` -/

theorem refines_parseMoments {w : Words} (hw : w.WF) (hsz : w.total + 256 < USIZE) {ds : DType}
    (hd : Std ds) (order : Nat) :
    Refines w (ds.kind = .ts96) (parseMoments ds w order) (Parser.rep (decMoment ds) order) := by
  unfold parseMoments
  rw [momentsLoop_eq, ← rep_nil_append]
  exact refines_genLoop (refines_bind (refines_readFrom hw hsz hd) fun u => refines_pure _ _ _) order []

/-! ### `parse_prefixes` -/

/-- `parse_prefixes::<T>` is `decPrefixes` (which also reports the common-GCD field it has read) -/
theorem refines_parsePrefixes {w : Words} (hw : w.WF) (hsz : w.total + 256 < USIZE) {gb : Nat → Nat}
    {d : DType} (hd : Std d) (hgb : ∀ x, gb x ≤ d.uBits) (fl : Flags) {n : Nat} (hn : n < 2 ^ 24) :
    Refines w (d.kind = .ts96) (parsePrefixes gb d fl w n)
      (Parser.map Prod.snd (decPrefixes gb d fl n)) := by
  have hM : d.M - 1 < 2 ^ d.uBits := by
    have := Nat.two_pow_pos d.uBits
    unfold DType.M; omega
  unfold parsePrefixes decPrefixes Parser.map
  rw [pbind_assoc]
  refine refines_bind (refines_readUsize hw hsz _ (by decide)) ?_
  intro nPref
  rw [pbind_assoc]
  unfold parseCommonGcd
  by_cases hg : fl.gcds = true
  · simp only [hg, if_true]
    refine refines_bind ?_ ?_
    · refine refines_bind (refines_readOne hw hsz _) ?_
      intro hc
      exact refines_ite (refines_map some (refines_readGcd hw hsz _ hd.ubits_le (hgb _) hM))
        (refines_pure _ _ none)
    · intro common
      rw [pbind_assoc, prefixLoop_eq]
      exact refines_genLoop (refines_parsePrefix hw hsz hd hgb fl hn common) nPref []
  · have hg' : fl.gcds = false := by cases h : fl.gcds <;> simp_all
    simp only [hg', Bool.false_eq_true, if_false]
    rw [pure_bind, pure_pbind, pbind_assoc, prefixLoop_eq]
    exact refines_genLoop (refines_parsePrefix hw hsz hd hgb fl hn (some 1)) nPref []

/-! ### `ChunkMetadata::parse_from` -/

/-- what `ChunkMetadata::parse_from` keeps of the specification's metadata: the common-GCD field is
forgotten (it lives on in the `gcd` of every prefix), the variant is decided by the flags -/
def RMeta.ofSpec (fl : Flags) (m : ChunkMeta) : RMeta :=
  { n := m.n, compressedBodySize := m.bodyBytes,
    prefixMetadata := if fl.order = 0 then .simple m.prefixes else .delta m.prefixes m.moments }

/-- the specification's chunk metadata parser before alignment -/
def decChunkMetaRaw (gb : Nat → Nat) (d : DType) (fl : Flags) : Parser ChunkMeta :=
  Parser.bind (readNat Frozen.bitsNEntries) fun n =>
  Parser.bind (readNat Frozen.bitsBodySize) fun bodyBytes =>
  Parser.bind (Parser.rep (decMoment d.signed) fl.order) fun moments =>
  Parser.bind (decPrefixes gb (prefDType d fl) fl n) fun (commonGcd, prefixes) =>
  Parser.pure { n, bodyBytes, moments, commonGcd, prefixes }

theorem decChunkMeta_eq (gb : Nat → Nat) (d : DType) (fl : Flags) :
    decChunkMeta gb d fl = Parser.aligned (decChunkMetaRaw gb d fl) := rfl

theorem signed_kind_ne (d : DType) : d.signed.kind ≠ .ts96 := by
  unfold DType.signed
  cases h : d.kind <;> simp [h]

/-- the error kinds of the chunk metadata parser where the specification says `corrupt`:
`InvalidArgument` can only come from a bound of a 96-bit timestamp type without delta encoding -/
def TsSimple (d : DType) (fl : Flags) : Prop := d.kind = .ts96 ∧ fl.order = 0

/-- **`ChunkMetadata::parse_from` is the specification's parser (before the alignment)** -/
theorem refines_parseFrom {w : Words} (hw : w.WF) (hsz : w.total + 256 < USIZE) {gb : Nat → Nat}
    {d : DType} (hd : Std d) (hds : Std d.signed)
    (hgb : ∀ x, gb x ≤ d.uBits) (hgbs : ∀ x, gb x ≤ d.signed.uBits) (fl : Flags) :
    Refines w (TsSimple d fl) (parseFrom gb d fl w)
      (Parser.map (RMeta.ofSpec fl) (decChunkMetaRaw gb d fl)) := by
  unfold parseFrom decChunkMetaRaw Parser.map
  rw [pbind_assoc]
  refine refines_bind_val (fun n => n < 2 ^ 24) (refines_readUsize hw hsz _ (by decide))
    (fun s a rest h => readNat_lt h) ?_
  intro n hn
  rw [pbind_assoc]
  refine refines_bind (refines_readUsize hw hsz _ (by decide)) ?_
  intro body
  by_cases ho : fl.order = 0
  · have hp : prefDType d fl = d := by unfold prefDType; rw [if_pos ho]
    rw [if_pos ho, hp, ho]
    show Refines w _ _ (Parser.bind (Parser.bind (Parser.pure []) _) _)
    rw [pure_pbind, pbind_assoc, bind_assoc]
    have hps := (refines_parsePrefixes hw hsz hd hgb fl hn).mono (ts' := TsSimple d fl)
      (fun h => ⟨h, ho⟩)
    unfold Parser.map at hps
    have e : (Parser.bind (decPrefixes gb d fl n) fun a =>
          Parser.bind ((fun (x : Option Nat × List Prefix) => match x with
            | (commonGcd, prefixes) => Parser.pure
                ({ n := n, bodyBytes := body, moments := [], commonGcd := commonGcd,
                   prefixes := prefixes } : ChunkMeta)) a)
            fun a => Parser.pure (RMeta.ofSpec fl a))
        = Parser.bind (Parser.bind (decPrefixes gb d fl n) fun a => Parser.pure a.2) fun ps =>
            Parser.pure ({ n := n, compressedBodySize := body, prefixMetadata := .simple ps } : RMeta) := by
      rw [pbind_assoc]
      congr 1; funext a
      obtain ⟨cg, ps⟩ := a
      simp only [pure_pbind, RMeta.ofSpec, ho, if_true]
    rw [e]
    refine refines_bind hps ?_
    intro ps
    exact refines_pure _ _ _
  · have hp : prefDType d fl = d.signed := by unfold prefDType; rw [if_neg ho]
    rw [if_neg ho, hp, pbind_assoc, bind_assoc]
    have hnts : d.signed.kind = .ts96 → TsSimple d fl := fun h => absurd h (signed_kind_ne d)
    refine refines_bind ((refines_parseMoments hw hsz hds fl.order).mono hnts) ?_
    intro moments
    rw [pbind_assoc, bind_assoc]
    have hps := (refines_parsePrefixes hw hsz hds hgbs fl hn).mono hnts
    unfold Parser.map at hps
    have e : (Parser.bind (decPrefixes gb d.signed fl n) fun a =>
          Parser.bind ((fun (x : Option Nat × List Prefix) => match x with
            | (commonGcd, prefixes) => Parser.pure
                ({ n := n, bodyBytes := body, moments := moments, commonGcd := commonGcd,
                   prefixes := prefixes } : ChunkMeta)) a)
            fun a => Parser.pure (RMeta.ofSpec fl a))
        = Parser.bind (Parser.bind (decPrefixes gb d.signed fl n) fun a => Parser.pure a.2) fun ps =>
            Parser.pure ({ n := n, compressedBodySize := body,
                           prefixMetadata := .delta ps moments } : RMeta) := by
      rw [pbind_assoc]
      congr 1; funext a
      obtain ⟨cg, ps⟩ := a
      simp only [pure_pbind, RMeta.ofSpec, ho, if_false]
    rw [e]
    refine refines_bind hps ?_
    intro ps
    rw [pure_bind]
    exact refines_pure _ _ _

/-! ### `parse_from` followed by `drain_empty_byte` -/

/-- composition from one given position: the continuation may use that the reader has not moved
backwards -/
theorem matches_bind {α β : Type} {w : Words} {ts : Prop} {m : RM α} {p : Parser α} {f : α → RM β}
    {g : α → Parser β} {r : Reader}
    (h : Matches w ts r (p (w.toBits.drop r.bitIdx)) (m r))
    (hf : ∀ a r1, RInv w r1 → r.bitIdx ≤ r1.bitIdx →
      p (w.toBits.drop r.bitIdx) = .ok a (w.toBits.drop r1.bitIdx) →
      Matches w ts r1 (g a (w.toBits.drop r1.bitIdx)) (f a r1)) :
    Matches w ts r (Parser.bind p g (w.toBits.drop r.bitIdx)) (RM.bind m f r) := by
  unfold Matches at h
  obtain ⟨h1, h2, h3⟩ := h
  unfold RM.bind Parser.bind
  rcases hmr : m r with ⟨o, r1⟩
  rw [hmr] at h1 h2 h3
  simp only at h1 h2 h3
  cases hp : p (w.toBits.drop r.bitIdx) with
  | ok a rest =>
    rw [hp] at h3
    obtain ⟨e1, e2⟩ := h3
    subst e1
    simp only
    have h' := hf a r1 h1 h2 (e2 ▸ hp)
    rw [← e2] at h'
    obtain ⟨g1, g2, g3⟩ := h'
    exact ⟨g1, Nat.le_trans h2 g2, g3⟩
  | insufficient =>
    rw [hp] at h3
    replace h3 : o = .err "InsufficientData" := h3
    subst h3
    exact ⟨h1, h2, rfl⟩
  | corrupt =>
    rw [hp] at h3
    obtain ⟨k, hk, e⟩ := h3
    replace e : o = .err k := e
    subst e
    exact ⟨h1, h2, k, hk, rfl⟩
  | compat =>
    rw [hp] at h3
    replace h3 : o = .err "Compatibility" := h3
    subst h3
    exact ⟨h1, h2, rfl⟩

/-- the padding check of `Parser.aligned`, for a parse that started with `len` bits left -/
def alignTail {β : Type} (len : Nat) (b : β) : Parser β := fun rest =>
  (Parser.bind (readBits ((8 - (len - rest.length) % 8) % 8)) fun z =>
    if z.any id then Parser.corrupt else Parser.pure b) rest

theorem map_aligned {α β : Type} (F : α → β) (P : Parser α) (s : Bits) :
    Parser.map F (Parser.aligned P) s = Parser.bind (Parser.map F P) (alignTail s.length) s := by
  simp only [Parser.map, Parser.aligned, Parser.bind, alignTail]
  cases hP : P s with
  | ok a rest =>
    simp only [Parser.pure]
    cases hR : readBits ((8 - (s.length - rest.length) % 8) % 8) rest with
    | ok z r2 =>
      simp only
      by_cases hz : z.any id = true
      · simp only [hz, if_true, Parser.corrupt]
      · simp only [hz, Bool.false_eq_true, if_false, Parser.pure]
    | insufficient => rfl
    | corrupt => rfl
    | compat => rfl
  | insufficient => rfl
  | corrupt => rfl
  | compat => rfl

/-- **`parse_from` followed by `drain_empty_byte` (the tail of `read_chunk_meta`), started at a byte
boundary, is `decChunkMeta`** -/
theorem matches_parseFromDrain {w : Words} (hw : w.WF) (hsz : w.total + 256 < USIZE) {gb : Nat → Nat}
    {d : DType} (hd : Std d) (hds : Std d.signed)
    (hgb : ∀ x, gb x ≤ d.uBits) (hgbs : ∀ x, gb x ≤ d.signed.uBits) (fl : Flags)
    {r : Reader} (hr : RInv w r) (hal : r.bitIdx % 8 = 0) :
    Matches w (TsSimple d fl) r
      (Parser.map (RMeta.ofSpec fl) (decChunkMeta gb d fl) (w.toBits.drop r.bitIdx))
      (parseFromDrain gb d fl w r) := by
  rw [decChunkMeta_eq, map_aligned]
  unfold parseFromDrain
  refine matches_bind (refines_parseFrom hw hsz hd hds hgb hgbs fl r hr) ?_
  intro b r1 hr1 hle _
  have hpad : (8 - ((w.toBits.drop r.bitIdx).length - (w.toBits.drop r1.bitIdx).length) % 8) % 8
      = (8 - r1.bitIdx % 8) % 8 := by
    rw [List.length_drop, List.length_drop, hw.toBits_length]
    have := hr1.pos_le
    have := hr.pos_le
    omega
  unfold alignTail
  rw [hpad]
  have e : (Parser.bind (readBits ((8 - r1.bitIdx % 8) % 8)) fun z =>
        if z.any id then Parser.corrupt else Parser.pure b)
      = Parser.bind (Parser.bind (readBits ((8 - r1.bitIdx % 8) % 8)) fun z =>
          if z.any id then Parser.corrupt else Parser.pure ()) fun _ => Parser.pure b := by
    rw [pbind_assoc]
    congr 1; funext z
    rw [pbind_ite, pbind_corrupt, pure_pbind]
  rw [e]
  refine matches_bind (matches_drain hw _ hr1) ?_
  intro _ r2 hr2 _ _
  exact refines_pure w _ b r2 hr2

end Qco.MetaIO
