/-
Layer M, part 2: parser/`RM` monad laws, the general composition lemma, and the refinements of
`T::read_from`, the `code_len`/`code` pair, `read_gcd` and `drain_empty_byte`.
-/
import Qco.Lemmas.MetaIO.Refine
namespace Qco.MetaIO
open Qco Qco.WB Qco.Parser

/-! ### monad laws -/

theorem pbind_assoc {α β γ : Type} (p : Parser α) (f : α → Parser β) (g : β → Parser γ) :
    Parser.bind (Parser.bind p f) g = Parser.bind p fun a => Parser.bind (f a) g := by
  funext s
  unfold Parser.bind
  cases p s <;> rfl

theorem pure_pbind {α β : Type} (a : α) (f : α → Parser β) : Parser.bind (Parser.pure a) f = f a := rfl

theorem pbind_corrupt {α β : Type} (f : α → Parser β) :
    Parser.bind (Parser.corrupt : Parser α) f = Parser.corrupt := rfl

theorem pure_bind {α β : Type} (a : α) (f : α → RM β) : RM.bind (RM.pure a) f = f a := rfl

theorem fail_bind {α β : Type} (k : String) (f : α → RM β) : RM.bind (RM.fail k : RM α) f = RM.fail k := rfl

theorem pbind_ite {α β : Type} (c : Prop) [Decidable c] (p q : Parser α) (f : α → Parser β) :
    Parser.bind (if c then p else q) f = if c then Parser.bind p f else Parser.bind q f := by
  split <;> rfl

theorem bind_ite {α β : Type} (c : Prop) [Decidable c] (p q : RM α) (f : α → RM β) :
    RM.bind (if c then p else q) f = if c then RM.bind p f else RM.bind q f := by
  split <;> rfl

/-! ### composition with what is known about the value and the reader after the first step -/

/-- `refines_bind` where the continuation may use a property `V` of every value the first parser can
return and a property `Q` of the reader after every successful first step -/
theorem refines_bind_post {α β : Type} {w : Words} {ts : Prop} {m : RM α} {p : Parser α}
    {f : α → RM β} {g : α → Parser β} (V : α → Prop) (Q : Reader → Prop)
    (hm : Refines w ts m p)
    (hV : ∀ s a rest, p s = .ok a rest → V a)
    (hQ : ∀ r a, RInv w r → (m r).1 = .ok a → Q (m r).2)
    (hf : ∀ a r1, V a → RInv w r1 → Q r1 →
      Matches w ts r1 (g a (w.toBits.drop r1.bitIdx)) (f a r1)) :
    Refines w ts (RM.bind m f) (Parser.bind p g) := by
  intro r hr
  have h := hm r hr
  have hq := hQ r
  unfold Matches at h
  obtain ⟨h1, h2, h3⟩ := h
  unfold RM.bind Parser.bind
  rcases hmr : m r with ⟨o, r1⟩
  rw [hmr] at h1 h2 h3 hq
  simp only at h1 h2 h3 hq
  cases hp : p (w.toBits.drop r.bitIdx) with
  | ok a rest =>
    rw [hp] at h3
    obtain ⟨e1, e2⟩ := h3
    subst e1
    simp only
    have h' := hf a r1 (hV _ _ _ hp) h1 (hq a hr rfl)
    rw [← e2] at h'
    obtain ⟨g1, g2, g3⟩ := h'
    exact ⟨g1, Nat.le_trans h2 g2, g3⟩
  | insufficient =>
    rw [hp] at h3
    replace h3 : o = .err "InsufficientData" := h3
    subst h3
    exact ⟨h1, h2, rfl⟩
  | corrupt =>
    rw [hp] at h3
    obtain ⟨k, hk, e⟩ := h3
    replace e : o = .err k := e
    subst e
    exact ⟨h1, h2, k, hk, rfl⟩
  | compat =>
    rw [hp] at h3
    replace h3 : o = .err "Compatibility" := h3
    subst h3
    exact ⟨h1, h2, rfl⟩

/-- `refines_bind` with a property of the values -/
theorem refines_bind_val {α β : Type} {w : Words} {ts : Prop} {m : RM α} {p : Parser α}
    {f : α → RM β} {g : α → Parser β} (V : α → Prop)
    (hm : Refines w ts m p)
    (hV : ∀ s a rest, p s = .ok a rest → V a)
    (hf : ∀ a, V a → Refines w ts (f a) (g a)) :
    Refines w ts (RM.bind m f) (Parser.bind p g) :=
  refines_bind_post V (fun _ => True) hm hV (fun _ _ _ _ => trivial)
    (fun a r1 hv hr1 _ => hf a hv r1 hr1)

theorem readNat_lt {n : Nat} {s : Bits} {v : Nat} {rest : Bits} (h : readNat n s = .ok v rest) :
    v < 2 ^ n := by
  unfold readNat at h
  rw [readBits_def] at h
  by_cases hl : s.length < n
  · rw [if_pos hl] at h; cases h
  · rw [if_neg hl] at h
    cases h
    have := bitsNat_lt (s.take n)
    rw [List.length_take] at this
    exact Nat.lt_of_lt_of_le this (Nat.pow_le_pow_right (by decide) (Nat.min_le_left _ _))

/-! ### after a successful non-empty `read_usize` the current word exists -/

theorem diffTail_j_pos (ub : Nat) (ws : List Nat) :
    ∀ (rem i res v : Nat), (diffTail ub ws i rem res).1 = .ok v → 0 < (diffTail ub ws i rem res).2.j := by
  intro rem
  induction rem using Nat.strongRecOn with
  | _ rem ih =>
    intro i res v
    rw [diffTail]
    by_cases h64 : rem ≥ 64
    · rw [dif_pos h64]
      cases hws : ws[i + 1]? with
      | none => intro h; cases h
      | some word =>
        simp only
        by_cases hub : rem - 64 ≥ ub
        · rw [if_pos hub]; intro h; cases h
        · rw [if_neg hub]; exact ih (rem - 64) (by omega) _ _ _
    · rw [dif_neg h64]
      by_cases h0 : rem > 0
      · rw [if_pos h0]
        cases hws : ws[i + 1]? with
        | none => intro h; cases h
        | some word => intro _; exact h0
      · rw [if_neg h0]; intro _; show 0 < 64; omega

theorem readDiff_ok_j_pos {ub : Nat} {w : Words} {r : Reader} {n v : Nat} (hn0 : 0 < n)
    (h : (readDiff ub w r n).1 = .ok v) : 0 < (readDiff ub w r n).2.j := by
  revert h
  unfold readDiff
  cases insufficientDataCheck w r n with
  | err k => intro h; cases h
  | panic => intro h; cases h
  | ok u =>
    simp only
    unfold uncheckedReadDiff
    rw [if_neg (by omega)]
    simp only
    by_cases h1 : n + r.refresh.j ≥ USIZE
    · rw [if_pos h1]; intro h; cases h
    · rw [if_neg h1]
      by_cases h2 : n + r.refresh.j ≤ 64
      · rw [if_pos h2]
        cases w.ws[r.refresh.i]? with
        | none => intro h; cases h
        | some word => intro _; show 0 < n + r.refresh.j; omega
      · rw [if_neg h2]
        cases w.ws[r.refresh.i]? with
        | none => intro h; cases h
        | some word =>
          simp only
          by_cases h3 : n + r.refresh.j - 64 ≥ ub
          · rw [if_pos h3]; intro h; cases h
          · rw [if_neg h3]; exact diffTail_j_pos ub w.ws _ _ _ v

theorem rinv_i_lt {w : Words} {r : Reader} (hw : w.WF) (hr : RInv w r) (hj : 0 < r.j) :
    r.i < w.ws.length := by
  have h1 := hr.pos_le
  have h2 := hw.total_le
  unfold Reader.bitIdx at h1
  omega

/-! ### `code_len` and `code` -/

/-- `let code_len = reader.read_usize(b)?; let code = reader.read(code_len)?;` for `0 < b ≤ 6`:
`read` finds its current word because a non-empty `read_usize` has just succeeded -/
theorem refines_readCode {w : Words} (hw : w.WF) (hsz : w.total + 256 < USIZE) (ts : Prop) {b : Nat}
    (hb0 : 0 < b) (hb : b ≤ 6) :
    Refines w ts (RM.bind (readUsizeM w b) fun codeLen => readM w codeLen)
      (Parser.bind (readNat b) fun codeLen => readBits codeLen) := by
  refine refines_bind_post (fun v => v < 2 ^ b) (fun r => 0 < r.j)
    (refines_readUsize hw hsz ts (by omega)) (fun s a rest h => readNat_lt h) ?_ ?_
  · intro r a _ h
    exact readDiff_ok_j_pos hb0 h
  · intro a r1 ha hr1 hj
    have : (2:Nat) ^ b ≤ 2 ^ 6 := Nat.pow_le_pow_right (by decide) hb
    exact matches_read hw hsz ts (by omega) hr1 (rinv_i_lt hw hr1 hj)

/-! ### `T::read_from` -/

theorem rawToU_none {d : DType} {raw : Nat} (h : d.rawToU raw = none) : d.kind = .ts96 := by
  unfold DType.rawToU at h
  cases hk : d.kind <;> rw [hk] at h <;> first | rfl | (simp at h)

theorem pbind_readNat {β : Type} (n : Nat) (k : Nat → Parser β) :
    Parser.bind (readNat n) k = Parser.bind (readBits n) fun bs => k (bitsNat bs) := by
  rw [Parser.readNat_eq, pbind_assoc]
  rfl

/-- `T::read_from` (as an unsigned image) is `decBound`; the only difference is the error kind of a
rejected 96-bit timestamp -/
theorem refines_readFrom {w : Words} (hw : w.WF) (hsz : w.total + 256 < USIZE) {d : DType} (hd : Std d) :
    Refines w (d.kind = .ts96) (readFrom d w) (decBound d) := by
  unfold readFrom decBound
  rw [pbind_readNat]
  refine refines_bind (refines_read hw hsz _ hd.phys_pos hd.phys_le) ?_
  intro bools
  cases h : d.rawToU (bitsNat bools) with
  | some u => exact refines_pure w _ u
  | none =>
    intro r hr
    exact ⟨hr, Nat.le_refl _, "InvalidArgument", Or.inr ⟨rawToU_none h, rfl⟩, rfl⟩

theorem decBound_lt {d : DType} (hd : Std d) {s : Bits} {u : Nat} {rest : Bits}
    (h : decBound d s = .ok u rest) : u < d.M := by
  unfold decBound Parser.bind at h
  cases h1 : readNat d.physBits s with
  | ok raw r1 =>
    rw [h1] at h
    simp only at h
    cases h2 : d.rawToU raw with
    | some u' =>
      rw [h2] at h
      simp only [Parser.pure] at h
      cases h
      exact hd.u_lt _ _ (readNat_lt h1) h2
    | none => rw [h2] at h; cases h
  | insufficient => rw [h1] at h; cases h
  | corrupt => rw [h1] at h; cases h
  | compat => rw [h1] at h; cases h

/-! ### `read_gcd` -/

/-- `read_gcd::<U>(range, reader)` is `decGcd gb range`: `gcd_bits_required(range) ≤ U::BITS`, and
`gcd_minus_one + U::ONE` cannot overflow because `gcd_minus_one < range ≤ U::MAX` -/
theorem refines_readGcd {w : Words} (hw : w.WF) (hsz : w.total + 256 < USIZE) (ts : Prop)
    {gb : Nat → Nat} {ub range : Nat} (hub : ub ≤ 128) (hgb : gb range ≤ ub) (hrange : range < 2 ^ ub) :
    Refines w ts (readGcd gb ub w range) (decGcd gb range) := by
  unfold readGcd decGcd
  refine refines_bind (refines_readOne hw hsz ts) ?_
  intro nt
  refine refines_ite ?_ (refines_pure w ts 1)
  refine refines_bind (refines_readDiff hw hsz ts hgb hub) ?_
  intro g1
  by_cases h : g1 ≥ range
  · rw [if_pos h, if_pos h]; exact refines_corrupt w ts
  · rw [if_neg h, if_neg h, if_neg (by omega)]; exact refines_pure w ts _

/-! ### `drain_empty_byte` -/

theorem bitsNat_eq_zero_iff (bs : Bits) : bitsNat bs = 0 ↔ bs.any id = false := by
  induction bs with
  | nil => simp
  | cons b bs ih =>
    rw [bitsNat_cons, List.any_cons]
    cases b
    · simpa using ih
    · have := Nat.two_pow_pos bs.length
      simp

/-- `drain_empty_byte` skips the zero bits up to the next byte boundary; a set bit is `Corruption` -/
theorem matches_drain {w : Words} (hw : w.WF) (ts : Prop) {r : Reader} (hr : RInv w r) :
    Matches w ts r
      ((Parser.bind (readBits ((8 - r.bitIdx % 8) % 8)) fun z =>
          if z.any id then Parser.corrupt else Parser.pure ()) (w.toBits.drop r.bitIdx))
      (drainM w r) := by
  have hp := hr.pos_le
  have hj := hr.j_le
  have hb := hw.bytes
  have hlen := hw.total_le
  have hmod : r.bitIdx % 8 = r.j % 8 := by unfold Reader.bitIdx; omega
  unfold drainM drainEmptyByte Parser.bind
  by_cases h0 : r.j % 8 = 0
  · have : ¬ (r.j % 8 ≠ 0) := by omega
    rw [if_neg this, hmod, h0]
    exact ⟨hr, Nat.le_refl _, rfl, rfl⟩
  · rw [if_pos h0]
    simp only
    have hjlt : r.j < 64 := by omega
    have hi : r.i < w.ws.length := rinv_i_lt hw hr (by omega)
    rw [List.getElem?_eq_getElem hi]
    simp only
    obtain ⟨pad, hpad⟩ : ∃ pad, pad = (8 - r.bitIdx % 8) % 8 := ⟨_, rfl⟩
    have hend : 8 * ceilDiv r.j 8 = r.j + pad := by unfold ceilDiv; omega
    have hpad8 : pad < 8 := by omega
    have hfit : r.bitIdx + pad ≤ w.total := by unfold Reader.bitIdx at hp ⊢; omega
    rw [← hpad, hend, readBits_def, if_neg (by rw [List.length_drop, hw.toBits_length]; omega)]
    simp only
    have hbits : (w.toBits.drop r.bitIdx).take pad = ((natBits 64 w.ws[r.i]).drop r.j).take pad := by
      rw [toBits_drop_take hfit]
      exact flat_drop_take_word hi (by omega)
    have hval : bitsNat ((w.toBits.drop r.bitIdx).take pad)
        = shr (low w.ws[r.i] (64 - r.j)) (64 - (r.j + pad)) := by
      rw [hbits, bitsNat_natBits_slice (by omega)]
      unfold shr low
      have : 64 - r.j - pad = 64 - (r.j + pad) := by omega
      rw [this]
    by_cases hz : shr (low w.ws[r.i] (64 - r.j)) (64 - (r.j + pad)) > 0
    · rw [if_pos hz]
      have hany : ((w.toBits.drop r.bitIdx).take pad).any id = true := by
        cases hc : ((w.toBits.drop r.bitIdx).take pad).any id with
        | true => rfl
        | false => rw [← bitsNat_eq_zero_iff, hval] at hc; omega
      rw [hany]
      exact ⟨hr, Nat.le_refl _, "Corruption", Or.inl rfl, rfl⟩
    · rw [if_neg hz]
      have hany : ((w.toBits.drop r.bitIdx).take pad).any id = false := by
        rw [← bitsNat_eq_zero_iff, hval]; omega
      rw [hany]
      refine ⟨⟨by show r.j + pad ≤ 64; omega, ?_⟩, ?_, rfl, ?_⟩
      · show 64 * r.i + (r.j + pad) ≤ w.total
        unfold Reader.bitIdx at hfit; omega
      · show 64 * r.i + r.j ≤ 64 * r.i + (r.j + pad); omega
      · show (w.toBits.drop r.bitIdx).drop pad = w.toBits.drop (64 * r.i + (r.j + pad))
        rw [List.drop_drop]; unfold Reader.bitIdx; congr 1; omega

end Qco.MetaIO
