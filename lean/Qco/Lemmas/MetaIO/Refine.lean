/-
Layer M, part 1: the refinement relation between a literal reader computation (`Qco.MetaIO.RM`, over
the word-level `BitReader`) and a parser of the specification (`Qco.Parser`, over bit lists), its
composition lemma, and the refinement of every `BitReader` primitive the metadata parser uses.
-/
import Qco.Op.MetaIO
import Qco.Lemmas.WordsProofs
namespace Qco.MetaIO
open Qco Qco.WB Qco.Parser

/-! ### what the metadata layer needs from a data-type descriptor -/

/-- true of all 15 rows and their signed companions (`std_of_mem`) -/
structure Std (d : DType) : Prop where
  phys_pos : 0 < d.physBits
  phys_le : d.physBits ≤ 128
  ubits_le : d.uBits ≤ 128
  /-- `to_unsigned` yields a `T::Unsigned` -/
  u_lt : ∀ raw u, raw < 2 ^ d.physBits → d.rawToU raw = some u → u < d.M

/-! ### the relation -/

/-- the error kinds the real code answers where the specification says `corrupt`:
`Corruption`, and — only for the 96-bit timestamps (`ts`), whose `from_bytes` goes through
`Timestamp96::new` — `InvalidArgument` -/
def CorruptKind (ts : Prop) (k : String) : Prop := k = "Corruption" ∨ (ts ∧ k = "InvalidArgument")

/-- the literal outcome `out` (from reader `r`) is the specification's result `res`:
same value and the rest is what lies after the new position; the same error kind; never `panic`.
In every case the reader stays inside the data and never moves backwards. -/
def Matches {α : Type} (w : Words) (ts : Prop) (r : Reader) (res : Res α) (out : R α × Reader) : Prop :=
  RInv w out.2 ∧ r.bitIdx ≤ out.2.bitIdx ∧
  match res with
  | .ok a rest => out.1 = .ok a ∧ rest = w.toBits.drop out.2.bitIdx
  | .insufficient => out.1 = .err "InsufficientData"
  | .corrupt => ∃ k, CorruptKind ts k ∧ out.1 = .err k
  | .compat => out.1 = .err "Compatibility"

/-- `m` refines `p`: from every position inside the data, `m` answers what `p` answers on the
remaining bits -/
def Refines {α : Type} (w : Words) (ts : Prop) (m : RM α) (p : Parser α) : Prop :=
  ∀ r, RInv w r → Matches w ts r (p (w.toBits.drop r.bitIdx)) (m r)

theorem CorruptKind.mono {ts ts' : Prop} (h : ts → ts') {k : String} (hk : CorruptKind ts k) :
    CorruptKind ts' k := by
  rcases hk with hk | ⟨h1, h2⟩
  · exact Or.inl hk
  · exact Or.inr ⟨h h1, h2⟩

theorem Matches.mono {α : Type} {w : Words} {ts ts' : Prop} (h : ts → ts') {r : Reader} {res : Res α}
    {out : R α × Reader} (hm : Matches w ts r res out) : Matches w ts' r res out := by
  obtain ⟨h1, h2, h3⟩ := hm
  refine ⟨h1, h2, ?_⟩
  cases res with
  | ok a rest => exact h3
  | insufficient => exact h3
  | corrupt => obtain ⟨k, hk, e⟩ := h3; exact ⟨k, hk.mono h, e⟩
  | compat => exact h3

theorem Refines.mono {α : Type} {w : Words} {ts ts' : Prop} (h : ts → ts') {m : RM α} {p : Parser α}
    (hm : Refines w ts m p) : Refines w ts' m p := fun r hr => (hm r hr).mono h

/-- a literal outcome that matches a specification result is not a panic -/
theorem Matches.no_panic {α : Type} {w : Words} {ts : Prop} {r : Reader} {res : Res α}
    {out : R α × Reader} (hm : Matches w ts r res out) : out.1 ≠ .panic := by
  obtain ⟨_, _, h3⟩ := hm
  cases res with
  | ok a rest => rw [h3.1]; intro h; cases h
  | insufficient => rw [h3]; intro h; cases h
  | corrupt => obtain ⟨k, _, e⟩ := h3; rw [e]; intro h; cases h
  | compat => rw [h3]; intro h; cases h

/-! ### composition -/

theorem refines_pure {α : Type} (w : Words) (ts : Prop) (a : α) : Refines w ts (RM.pure a) (Parser.pure a) :=
  fun r hr => ⟨hr, Nat.le_refl _, rfl, rfl⟩

theorem refines_corrupt {α : Type} (w : Words) (ts : Prop) :
    Refines w ts (RM.fail "Corruption" : RM α) (Parser.corrupt : Parser α) :=
  fun r hr => ⟨hr, Nat.le_refl _, "Corruption", Or.inl rfl, rfl⟩

theorem refines_bind {α β : Type} {w : Words} {ts : Prop} {m : RM α} {p : Parser α} {f : α → RM β}
    {g : α → Parser β} (hm : Refines w ts m p) (hf : ∀ a, Refines w ts (f a) (g a)) :
    Refines w ts (RM.bind m f) (Parser.bind p g) := by
  intro r hr
  have h := hm r hr
  unfold Matches at h
  obtain ⟨h1, h2, h3⟩ := h
  unfold RM.bind Parser.bind
  rcases hmr : m r with ⟨o, r1⟩
  rw [hmr] at h1 h2 h3
  simp only at h1 h2 h3
  cases hp : p (w.toBits.drop r.bitIdx) with
  | ok a rest =>
    rw [hp] at h3
    obtain ⟨e1, e2⟩ := h3
    subst e1
    simp only
    have h' := hf a r1 h1
    rw [← e2] at h'
    obtain ⟨g1, g2, g3⟩ := h'
    exact ⟨g1, Nat.le_trans h2 g2, g3⟩
  | insufficient =>
    rw [hp] at h3
    replace h3 : o = .err "InsufficientData" := h3
    subst h3
    exact ⟨h1, h2, rfl⟩
  | corrupt =>
    rw [hp] at h3
    obtain ⟨k, hk, e⟩ := h3
    replace e : o = .err k := e
    subst e
    exact ⟨h1, h2, k, hk, rfl⟩
  | compat =>
    rw [hp] at h3
    replace h3 : o = .err "Compatibility" := h3
    subst h3
    exact ⟨h1, h2, rfl⟩

theorem refines_map {α β : Type} {w : Words} {ts : Prop} {m : RM α} {p : Parser α} (g : α → β)
    (hm : Refines w ts m p) :
    Refines w ts (RM.bind m fun a => RM.pure (g a)) (Parser.map g p) :=
  refines_bind hm fun a => refines_pure w ts (g a)

theorem refines_ite {α : Type} {w : Words} {ts : Prop} {c : Prop} [Decidable c] {m1 m2 : RM α}
    {p1 p2 : Parser α} (h1 : Refines w ts m1 p1) (h2 : Refines w ts m2 p2) :
    Refines w ts (if c then m1 else m2) (if c then p1 else p2) := by
  by_cases h : c
  · rw [if_pos h, if_pos h]; exact h1
  · rw [if_neg h, if_neg h]; exact h2

theorem bind_assoc {α β γ : Type} (m : RM α) (f : α → RM β) (g : β → RM γ) :
    RM.bind (RM.bind m f) g = RM.bind m fun a => RM.bind (f a) g := by
  funext r
  unfold RM.bind
  rcases m r with ⟨o, r1⟩
  cases o <;> rfl

/-! ### the primitives -/

theorem readNat_rest {n : Nat} {s : Bits} {v : Nat} {rest : Bits} (h : readNat n s = .ok v rest) :
    rest = s.drop n := by
  unfold readNat at h
  rw [readBits_def] at h
  by_cases hl : s.length < n
  · rw [if_pos hl] at h; cases h
  · rw [if_neg hl] at h; cases h; rfl

theorem readNat_cases (n : Nat) (s : Bits) :
    readNat n s = .insufficient ∨ ∃ v, readNat n s = .ok v (s.drop n) := by
  unfold readNat
  rw [readBits_def]
  by_cases h : s.length < n
  · rw [if_pos h]; exact Or.inl rfl
  · rw [if_neg h]; exact Or.inr ⟨_, rfl⟩

theorem readBits_cases (n : Nat) (s : Bits) :
    readBits n s = .insufficient ∨ readBits n s = .ok (s.take n) (s.drop n) := by
  rw [readBits_def]
  split
  · exact Or.inl rfl
  · exact Or.inr rfl

/-- the common shape of the `*_spec` lemmas of Layer B -/
theorem matches_of_spec {w : Words} (ts : Prop) {α : Type} {r : Reader} {out : R α × Reader} {res : Res α} {n : Nat}
    (hok : ∀ v rest, res = .ok v rest → (out.1, out.2.bitIdx) = (.ok v, r.bitIdx + n))
    (hins : res = .insufficient → (out.1, out.2.bitIdx) = (.err "InsufficientData", r.bitIdx))
    (hres : res = .insufficient ∨ ∃ v, res = .ok v ((w.toBits.drop r.bitIdx).drop n))
    (hinv : RInv w out.2) : Matches w ts r res out := by
  rcases hres with e | ⟨v, e⟩
  · have hspec := hins e
    subst e
    have e1 : out.1 = .err "InsufficientData" := congrArg Prod.fst hspec
    have e2 : out.2.bitIdx = r.bitIdx := congrArg Prod.snd hspec
    exact ⟨hinv, by omega, e1⟩
  · have hspec := hok _ _ e
    subst e
    have e1 : out.1 = .ok v := congrArg Prod.fst hspec
    have e2 : out.2.bitIdx = r.bitIdx + n := congrArg Prod.snd hspec
    exact ⟨hinv, by omega, e1, by rw [e2, List.drop_drop]⟩

/-- `read_one` is `readBit` -/
theorem refines_readOne {w : Words} (hw : w.WF) (hsz : w.total + 256 < USIZE) (ts : Prop) : Refines w ts (readOneM w) readBit := by
  intro r hr
  have hp := hr.pos_le
  obtain ⟨h1, h2, _⟩ := readOne_spec hw hr (by omega)
  rw [specReadOne_eq_readBit] at h1
  have hres : readBit (w.toBits.drop r.bitIdx) = .insufficient
      ∨ ∃ v, readBit (w.toBits.drop r.bitIdx) = .ok v ((w.toBits.drop r.bitIdx).drop 1) := by
    cases w.toBits.drop r.bitIdx with
    | nil => exact Or.inl rfl
    | cons b s => exact Or.inr ⟨b, rfl⟩
  exact matches_of_spec ts (fun v rest e => by rw [e] at h1; exact h1) (fun e => by rw [e] at h1; exact h1) hres h2

/-- `read_usize(n)`, `n ≤ 64`, is `readNat n` -/
theorem refines_readUsize {w : Words} (hw : w.WF) (hsz : w.total + 256 < USIZE) (ts : Prop) {n : Nat} (hn : n ≤ 64) : Refines w ts (readUsizeM w n) (readNat n) := by
  intro r hr
  have hp := hr.pos_le
  obtain ⟨h1, h2, _⟩ := readUsize_spec hw hr hn (by omega)
  rw [specReadNat_eq_readNat _ _ _ (by rw [hw.toBits_length]; exact hp)] at h1
  exact matches_of_spec ts (fun v rest e => by rw [e] at h1; exact h1) (fun e => by rw [e] at h1; exact h1) (readNat_cases n _) h2

/-- `read_diff::<U>(n)`, `n ≤ U::BITS ≤ 128`, is `readNat n` -/
theorem refines_readDiff {w : Words} (hw : w.WF) (hsz : w.total + 256 < USIZE) (ts : Prop) {ub n : Nat} (hn : n ≤ ub) (hub : ub ≤ 128) :
    Refines w ts (readDiffM ub w n) (readNat n) := by
  intro r hr
  have hp := hr.pos_le
  obtain ⟨h1, h2, _⟩ := readDiff_spec hw hr hn (by omega)
  rw [specReadNat_eq_readNat _ _ _ (by rw [hw.toBits_length]; exact hp)] at h1
  exact matches_of_spec ts (fun v rest e => by rw [e] at h1; exact h1) (fun e => by rw [e] at h1; exact h1) (readNat_cases n _) h2

/-- `read(n)` from a reader whose current word exists -/
theorem matches_read {w : Words} (hw : w.WF) (hsz : w.total + 256 < USIZE) (ts : Prop) {n : Nat} (hn : n ≤ 128) {r : Reader} (hr : RInv w r) (hi : r.i < w.ws.length) :
    Matches w ts r (readBits n (w.toBits.drop r.bitIdx)) (readM w n r) := by
  have hp := hr.pos_le
  obtain ⟨h1, h2, _⟩ := read_spec (n := n) hw hr hi (by omega)
  rw [specReadBits_eq_readBits _ _ _ (by rw [hw.toBits_length]; exact hp)] at h1
  have hres : readBits n (w.toBits.drop r.bitIdx) = .insufficient
      ∨ ∃ v, readBits n (w.toBits.drop r.bitIdx) = .ok v ((w.toBits.drop r.bitIdx).drop n) := by
    rcases readBits_cases n (w.toBits.drop r.bitIdx) with h | h
    · exact Or.inl h
    · exact Or.inr ⟨_, h⟩
  exact matches_of_spec ts (fun v rest e => by rw [e] at h1; exact h1) (fun e => by rw [e] at h1; exact h1) hres h2

/-- `read(n)`, `0 < n`, is `readBits n`: either the data is insufficient or the current word exists
(`read` panics on `n = 0` at the very end of word-aligned data, `Qco.WB.read_panics`) -/
theorem refines_read {w : Words} (hw : w.WF) (hsz : w.total + 256 < USIZE) (ts : Prop) {n : Nat} (hn0 : 0 < n) (hn : n ≤ 128) : Refines w ts (readM w n) (readBits n) := by
  intro r hr
  have hp := hr.pos_le
  by_cases hi : r.i < w.ws.length
  · exact matches_read hw hsz ts hn hr hi
  · -- then the position is at (or beyond) the end of the data
    have hlen := hw.total_le
    have hpos : w.total ≤ r.bitIdx := by unfold Reader.bitIdx; omega
    have e1 : readBits n (w.toBits.drop r.bitIdx) = .insufficient := by
      rw [readBits_def, if_pos (by rw [List.length_drop, hw.toBits_length]; omega)]
    have e2 : readM w n r = (.err "InsufficientData", r) := by
      unfold readM WB.read insufficientDataCheck
      rw [if_neg (by omega), if_pos (by omega)]
    rw [e1, e2]
    exact ⟨hr, Nat.le_refl _, rfl⟩

end Qco.MetaIO
