/-
Layer M, part 6: `update_write_compressed_body_size` — the compressor's later patch of the body-size
field that `write_to` wrote as zero.
-/
import Qco.Lemmas.MetaIO.Write
namespace Qco.MetaIO
open Qco Qco.WB

/-- `update_write_compressed_body_size(writer, bit_idx)`: if the 32 bits after the 24-bit `n` field that
starts at `bit_idx` are zero (as `write_to` leaves them for `compressed_body_size = 0`), they are replaced
by the low 32 bits of `compressed_body_size` (*silently truncated* beyond `2^32`); nothing else changes.
(`overwrite_usize` ORs: over a non-zero field the result would be the OR, `overwriteUsize_keeps_ones`.) -/
theorem update_spec {wr : Writer} (h : WInv wr) (m : RMeta) {A T : Bits} {bitIdx : Nat}
    (hA : A.length = bitIdx + Frozen.bitsNEntries)
    (hbits : wr.bits = A ++ natBits Frozen.bitsBodySize 0 ++ T) (hsz : bitIdx + 24 < USIZE) :
    ∃ wr', updateWriteCompressedBodySize m wr bitIdx = .ok wr' ∧ wr'.j = wr.j
      ∧ wr'.bits = A ++ natBits Frozen.bitsBodySize m.compressedBodySize ++ T ∧ WInv wr' := by
  have hlen : wr.bits.length = A.length + 32 + T.length := by
    rw [hbits]; simp [Frozen.bitsBodySize]; omega
  have hfit : bitIdx + Frozen.bitsNEntries + Frozen.bitsBodySize ≤ wr.bitSize := by
    rw [← h.bits_length, hlen, hA]
    show bitIdx + Frozen.bitsNEntries + 32 ≤ _
    omega
  have hdrop : wr.bits.drop (bitIdx + Frozen.bitsNEntries) = natBits Frozen.bitsBodySize 0 ++ T := by
    rw [hbits, List.append_assoc, ← hA, List.drop_left]
  have hzero : (wr.bits.drop (bitIdx + Frozen.bitsNEntries)).take Frozen.bitsBodySize
      = List.replicate Frozen.bitsBodySize false := by
    rw [hdrop, List.take_left' (natBits_length _ _), natBits_zero]
  obtain ⟨wr', e, hj, hb, hi⟩ := overwriteUsize_replaces h (x := m.compressedBodySize)
    (n := Frozen.bitsBodySize) (by decide) hfit hzero
  refine ⟨wr', ?_, hj, ?_, hi⟩
  · unfold updateWriteCompressedBodySize
    rw [if_neg (by show ¬ bitIdx + 24 ≥ USIZE; omega)]
    exact e
  · rw [hb]
    have htake : wr.bits.take (bitIdx + Frozen.bitsNEntries) = A := by
      rw [hbits, List.append_assoc, ← hA, List.take_left]
    have hdrop2 : wr.bits.drop (bitIdx + Frozen.bitsNEntries + Frozen.bitsBodySize) = T := by
      rw [← List.drop_drop, hdrop, List.drop_left' (natBits_length _ _)]
    rw [htake, hdrop2]

end Qco.MetaIO
