/-
Layer M, part 4: the literal metadata *writer* (`write_gcd`, `write_prefixes`,
`DeltaMoments::write_to`, `ChunkMetadata::write_to`) appends exactly the specification's encoding.

No "fits its width" hypothesis is needed for that: `write_usize(x, n)` keeps the low `n` bits of `x`
and so does `natBits n x` in `encChunkMeta` — the source *silently truncates* oversized fields (see the
findings at the end of this file).  What is needed is the absence of the three panics of the writer:
`gcd - U::ONE` (a `gcd` of 0), `upper - lower` (bounds out of order) and a GCD field wider than `U`.
-/
import Qco.Op.MetaIO
import Qco.Lemmas.WordsProofs
namespace Qco.MetaIO
open Qco Qco.WB

/-! ### writer computations that append -/

/-- `f` never fails on a well-formed writer and appends exactly `bits` -/
def Appends (f : Writer → R Writer) (bits : Bits) : Prop :=
  ∀ wr, WInv wr → ∃ wr', f wr = .ok wr' ∧ wr'.bits = wr.bits ++ bits ∧ WInv wr'

theorem appends_bind {f g : Writer → R Writer} {a b : Bits} (hf : Appends f a) (hg : Appends g b) :
    Appends (fun wr => R.bind (f wr) g) (a ++ b) := by
  intro wr h
  obtain ⟨wr1, e1, b1, i1⟩ := hf wr h
  obtain ⟨wr2, e2, b2, i2⟩ := hg wr1 i1
  refine ⟨wr2, ?_, ?_, i2⟩
  · simp only [e1]; exact e2
  · rw [b2, b1, List.append_assoc]

theorem appends_total {h : Writer → Writer} {a : Bits}
    (hh : ∀ wr, WInv wr → (h wr).bits = wr.bits ++ a ∧ WInv (h wr)) :
    Appends (fun wr => .ok (h wr)) a := by
  intro wr hi
  exact ⟨h wr, rfl, (hh wr hi).1, (hh wr hi).2⟩

theorem appends_nil : Appends (fun wr => .ok wr) [] := by
  intro wr hi
  exact ⟨wr, rfl, by simp, hi⟩

theorem appends_congr {f : Writer → R Writer} {a b : Bits} (h : Appends f a) (e : a = b) : Appends f b :=
  e ▸ h

theorem appends_writeUsize (x : Nat) {n : Nat} (hn : n ≤ 64) :
    Appends (fun wr => wr.writeUsize x n) (natBits n x) :=
  fun _ h => writeUsize_spec h x hn

theorem appends_writeOne (b : Bool) : Appends (fun wr => .ok (wr.writeOne b)) [b] :=
  appends_total fun _ h => writeOne_spec h b

theorem appends_write (bs : List Bool) : Appends (fun wr => .ok (wr.write bs)) bs :=
  appends_total fun _ h => write_spec bs h

theorem appends_writeNum (d : DType) (u : Nat) :
    Appends (fun wr => .ok (writeNum d u wr)) (natBits d.physBits (d.uToRaw u)) :=
  appends_write _

/-- a total step followed by the rest -/
theorem appends_let {h : Writer → Writer} {g : Writer → R Writer} {a b : Bits}
    (hh : Appends (fun wr => .ok (h wr)) a) (hg : Appends g b) :
    Appends (fun wr => g (h wr)) (a ++ b) := by
  have := appends_bind hh hg
  exact this

/-! ### `write_gcd` -/

/-- `write_gcd::<U>(range, gcd, writer)` appends `encGcd gb range gcd` when `gcd ≥ 1` and the field is
not wider than `U` (or 64 bits) -/
theorem appends_writeGcd {gb : Nat → Nat} {ub range g : Nat} (hg : 1 ≤ g) (hgb : gb range ≤ max ub 64)
    (hub : ub ≤ 128) :
    Appends (writeGcd gb ub range g) (encGcd gb range g) := by
  intro wr h
  unfold writeGcd encGcd
  obtain ⟨h1, h2⟩ := writeOne_spec h (g != 1)
  by_cases h1g : g = 1
  · subst h1g
    simp only [bne_self_eq_false, Bool.false_eq_true, if_false, if_true] at h1 h2 ⊢
    exact ⟨_, rfl, h1, h2⟩
  · have hne : (g != 1) = true := by simp [h1g]
    rw [hne] at h1 h2
    simp only [hne, if_true, h1g, if_false]
    rw [if_neg (by omega)]
    obtain ⟨wr', e, b, i⟩ := writeDiff_spec (ub := ub) h2 (g - 1) hgb
      (by have : USIZE = 18446744073709551616 := rfl; omega)
    exact ⟨wr', e, by rw [b, h1, List.append_assoc]; rfl, i⟩

/-- without the hypotheses: a `gcd` of 0 panics (`gcd - U::ONE` with overflow checks) -/
theorem writeGcd_zero_panics (gb : Nat → Nat) (ub range : Nat) (wr : Writer) :
    writeGcd gb ub range 0 wr = .panic := rfl

/-! ### `common_gcd_for_chunk_meta` -/

theorem commonGcdLoop_inv (P : Nat → Prop) (ps : List Prefix) (hps : ∀ p ∈ ps, P p.gcd) :
    ∀ (share : Bool) (gcd : Option Nat), (∀ g, gcd = some g → P g) →
    ∀ g, (commonGcdLoop ps share gcd).2 = some g → P g := by
  induction ps with
  | nil => intro share gcd h g hg; exact h g hg
  | cons p ps ih =>
    intro share gcd h g
    have hps' : ∀ q ∈ ps, P q.gcd := fun q hq => hps q (List.mem_cons_of_mem _ hq)
    unfold commonGcdLoop
    by_cases hne : (p.upper != p.lower) = true
    · rw [if_pos hne]
      by_cases hn : gcd.isNone = true
      · rw [if_pos hn]
        exact ih hps' share (some p.gcd) (fun g' hg' => by cases hg'; exact hps p List.mem_cons_self) g
      · rw [if_neg hn]
        exact ih hps' false gcd h g
    · rw [if_neg hne]
      exact ih hps' share gcd h g

/-- the common GCD chosen by the writer is 1 or the `gcd` of one of the prefixes -/
theorem commonGcdForChunkMeta_inv (P : Nat → Prop) (h1 : P 1) (ps : List Prefix)
    (hps : ∀ p ∈ ps, P p.gcd) {g : Nat} (hg : commonGcdForChunkMeta ps = some g) : P g := by
  unfold commonGcdForChunkMeta at hg
  have hinv := commonGcdLoop_inv P ps hps true none (fun g h => by cases h)
  rcases hl : commonGcdLoop ps true none with ⟨share, gcd⟩
  rw [hl] at hg hinv
  simp only at hg hinv
  cases hlen : ps.length with
  | zero => rw [hlen] at hg; cases hg
  | succ k =>
    rw [hlen] at hg
    cases share with
    | false => cases hg
    | true =>
      cases gcd with
      | none => simp only at hg; cases hg; exact h1
      | some g' => simp only at hg; cases hg; exact hinv _ rfl

/-! ### `write_prefixes` -/

theorem clog2_le {n k : Nat} (hn : n < 2 ^ k) : clog2 (n + 1) ≤ k := by
  unfold clog2
  by_cases h : n + 1 ≤ 1
  · rw [if_pos h]; omega
  · rw [if_neg h]
    have h0 : n + 1 - 1 ≠ 0 := by omega
    have : (n + 1 - 1).log2 < k := (Nat.log2_lt h0).2 (by omega)
    omega

/-- `bits_to_encode_count(n) ≤ 64` for every `usize` `n` -/
theorem countBits_le_64 (fl : Flags) {n : Nat} (hn : n < 2 ^ 64) : fl.countBits n ≤ 64 := by
  unfold Flags.countBits
  split
  · exact clog2_le hn
  · decide

/-- what the writer needs of a prefix in order not to panic -/
structure PrefixNoPanic (p : Prefix) : Prop where
  le : p.lower ≤ p.upper
  gcd_pos : 1 ≤ p.gcd

/-- the body of the loop of `write_prefixes` appends `encPrefix` -/
theorem appends_writePrefix {gb : Nat → Nat} {d : DType} (hub : d.uBits ≤ 128)
    (hgb : ∀ x, gb x ≤ max d.uBits 64) (fl : Flags) {n : Nat} (hn : n < 2 ^ 64)
    (mc : Option Nat) {p : Prefix} (hp : PrefixNoPanic p) :
    Appends (writePrefix gb d fl n mc p) (encPrefix gb d fl n mc.isSome p) := by
  unfold writePrefix encPrefix
  have hcl : fl.codeLenBits ≤ 64 := by unfold Flags.codeLenBits; split <;> omega
  have hjump : Appends (fun wr5 => match p.jump with
      | none => .ok (wr5.writeOne false)
      | some jumpstart => (wr5.writeOne true).writeUsize jumpstart Frozen.bitsJumpstart)
      (match p.jump with
        | none => [false]
        | some j => true :: natBits Frozen.bitsJumpstart j) := by
    cases p.jump with
    | none => exact appends_writeOne false
    | some j => exact appends_let (appends_writeOne true) (appends_writeUsize j (by decide))
  have hgcd : Appends (fun wr6 => if mc.isNone then
        if p.upper < p.lower then .panic else writeGcd gb d.uBits (p.upper - p.lower) p.gcd wr6
      else .ok wr6) (if mc.isSome then [] else encGcd gb (p.upper - p.lower) p.gcd) := by
    cases mc with
    | some g => exact appends_nil
    | none =>
      have := hp.le
      simp only [Option.isNone_none, if_true, Option.isSome_none, Bool.false_eq_true, if_false,
        if_neg (show ¬ p.upper < p.lower by omega)]
      exact appends_writeGcd hp.gcd_pos (hgb _) hub
  have := appends_bind (appends_writeUsize p.count (countBits_le_64 fl hn))
    (appends_let (appends_writeNum d p.lower) (appends_let (appends_writeNum d p.upper)
      (appends_bind (appends_writeUsize p.code.length hcl)
        (appends_let (appends_write p.code) (appends_bind hjump hgcd)))))
  refine appends_congr this ?_
  simp only [List.append_assoc]
  cases p.jump <;> rfl

theorem appends_writePrefixLoop {gb : Nat → Nat} {d : DType} (hub : d.uBits ≤ 128)
    (hgb : ∀ x, gb x ≤ max d.uBits 64) (fl : Flags) {n : Nat} (hn : n < 2 ^ 64) (mc : Option Nat) :
    ∀ (ps : List Prefix), (∀ p ∈ ps, PrefixNoPanic p) →
      Appends (writePrefixLoop gb d fl n mc ps) (ps.flatMap (encPrefix gb d fl n mc.isSome)) := by
  intro ps
  induction ps with
  | nil => intro _; exact appends_nil
  | cons p ps ih =>
    intro hps
    have h1 := appends_writePrefix hub hgb fl hn mc (hps p List.mem_cons_self)
    have h2 := ih fun q hq => hps q (List.mem_cons_of_mem _ hq)
    exact appends_bind h1 h2

/-- the common-GCD field the writer emits: decided by `common_gcd_for_chunk_meta` when GCDs are on -/
def commonField (fl : Flags) (ps : List Prefix) : Option Nat :=
  if fl.gcds then commonGcdForChunkMeta ps else none

/-- `write_prefixes::<T>` appends `encPrefixes` with the writer's own choice of the common-GCD field -/
theorem appends_writePrefixes {gb : Nat → Nat} {d : DType} (hub : d.uBits ≤ 128)
    (hgb : ∀ x, gb x ≤ max d.uBits 64) (fl : Flags) {n : Nat} (hn : n < 2 ^ 64)
    {ps : List Prefix} (hps : ∀ p ∈ ps, PrefixNoPanic p) :
    Appends (writePrefixes gb d fl n ps) (encPrefixes gb d fl n (commonField fl ps) ps) := by
  intro wr h
  obtain ⟨wr1, e1, b1, i1⟩ := writeUsize_spec h ps.length (n := Frozen.bitsNPrefixes) (by decide)
  unfold writePrefixes encPrefixes commonField
  rw [e1]
  simp only [R.bind]
  by_cases hg : fl.gcds = true
  · simp only [hg, if_true, Bool.not_true, Bool.false_or]
    cases hc : commonGcdForChunkMeta ps with
    | none =>
      simp only [Option.isSome_none, R.bind]
      obtain ⟨wr', e, b, i⟩ := appends_let (appends_writeOne false)
        (appends_writePrefixLoop hub hgb fl hn none ps hps) wr1 i1
      exact ⟨wr', e, by rw [b, b1]; simp only [List.append_assoc, Option.isSome_none], i⟩
    | some g =>
      simp only [Option.isSome_some]
      have hg1 : 1 ≤ g := commonGcdForChunkMeta_inv (fun x => 1 ≤ x) (Nat.le_refl 1) ps
        (fun p hp => (hps p hp).gcd_pos) hc
      obtain ⟨wr2, e2, b2, i2⟩ := appends_let (appends_writeOne true)
        (appends_writeGcd (gb := gb) (ub := d.uBits) (range := d.M - 1) hg1 (hgb _) hub) wr1 i1
      replace e2 : writeGcd gb d.uBits (d.M - 1) g (wr1.writeOne true) = .ok wr2 := e2
      rw [e2]
      simp only [R.bind]
      obtain ⟨wr', e, b, i⟩ := appends_writePrefixLoop hub hgb fl hn (some g) ps hps wr2 i2
      exact ⟨wr', e, by
        rw [b, b2, b1]
        simp only [List.cons_append, List.nil_append, List.append_assoc, Option.isSome_some], i⟩
  · have hg' : fl.gcds = false := by cases h : fl.gcds <;> simp_all
    simp only [hg', Bool.false_eq_true, if_false, Bool.not_false, Bool.true_or, List.append_nil, R.bind]
    obtain ⟨wr', e, b, i⟩ := appends_writePrefixLoop hub hgb fl hn (some 1) ps hps wr1 i1
    exact ⟨wr', e, by rw [b, b1]; simp only [List.append_assoc, Option.isSome_some], i⟩

/-! ### `DeltaMoments::write_to` -/

theorem appends_writeMoments (ds : DType) : ∀ (ms : List Nat),
    Appends (fun wr => .ok (writeMoments ds ms wr)) (ms.flatMap (encMoment ds)) := by
  intro ms
  induction ms with
  | nil => exact appends_nil
  | cons m ms ih =>
    have h1 : Appends (fun wr => .ok (writeNum ds (ds.toU m) wr)) (encMoment ds m) := appends_writeNum ds _
    exact appends_let (h := writeNum ds (ds.toU m)) (g := fun wr => .ok (writeMoments ds ms wr)) h1 ih

/-! ### `ChunkMetadata::write_to` -/

/-- the specification's view of a `ChunkMetadata<T>` as the writer will emit it -/
def RMeta.toSpec (fl : Flags) (m : RMeta) : ChunkMeta :=
  { n := m.n, bodyBytes := m.compressedBodySize, moments := m.prefixMetadata.moments,
    commonGcd := commonField fl m.prefixMetadata.prefixes, prefixes := m.prefixMetadata.prefixes }

/-- `write_to` without the final `finish_byte` -/
theorem appends_writeTo_body {gb : Nat → Nat} {d : DType} (hub : d.uBits ≤ 128)
    (hubs : d.signed.uBits ≤ 128)
    (hgb : ∀ x, gb x ≤ max d.uBits 64) (hgbs : ∀ x, gb x ≤ max d.signed.uBits 64)
    (fl : Flags) (m : RMeta) (hn : m.n < 2 ^ 64)
    (hvar : m.prefixMetadata.isDelta = decide (fl.order ≠ 0))
    (hps : ∀ p ∈ m.prefixMetadata.prefixes, PrefixNoPanic p) :
    Appends (fun wr =>
      R.bind (wr.writeUsize m.n Frozen.bitsNEntries) fun wr1 =>
      R.bind (wr1.writeUsize m.compressedBodySize Frozen.bitsBodySize) fun wr2 =>
      match m.prefixMetadata with
      | .simple prefixes => writePrefixes gb d fl m.n prefixes wr2
      | .delta prefixes deltaMoments =>
        writePrefixes gb d.signed fl m.n prefixes (writeMoments d.signed deltaMoments wr2))
      (natBits Frozen.bitsNEntries m.n ++ natBits Frozen.bitsBodySize m.compressedBodySize
        ++ m.prefixMetadata.moments.flatMap (encMoment d.signed)
        ++ encPrefixes gb (prefDType d fl) fl m.n (commonField fl m.prefixMetadata.prefixes)
            m.prefixMetadata.prefixes) := by
  have h1 := appends_writeUsize m.n (n := Frozen.bitsNEntries) (by decide)
  have h2 := appends_writeUsize m.compressedBodySize (n := Frozen.bitsBodySize) (by decide)
  cases hpm : m.prefixMetadata with
  | simple ps =>
    rw [hpm] at hvar hps
    have ho : fl.order = 0 := by
      simp only [PrefixMeta.isDelta] at hvar
      have := hvar.symm
      simpa using this
    have hp : prefDType d fl = d := by unfold prefDType; rw [if_pos ho]
    rw [hp]
    have h3 := appends_writePrefixes hub hgb fl hn hps
    have := appends_bind h1 (appends_bind h2 h3)
    refine appends_congr this ?_
    simp only [PrefixMeta.moments, PrefixMeta.prefixes, List.flatMap_nil, List.append_nil,
      List.append_assoc]
  | delta ps ms =>
    rw [hpm] at hvar hps
    have ho : ¬ fl.order = 0 := by
      simp only [PrefixMeta.isDelta] at hvar
      have := hvar.symm
      simpa using this
    have hp : prefDType d fl = d.signed := by unfold prefDType; rw [if_neg ho]
    rw [hp]
    have h3 := appends_writePrefixes hubs hgbs fl hn hps
    have := appends_bind h1 (appends_bind h2 (appends_let (appends_writeMoments d.signed ms) h3))
    refine appends_congr this ?_
    simp only [PrefixMeta.moments, PrefixMeta.prefixes, List.append_assoc]

theorem append_pad (a X : Bits) (ha : a.length % 8 = 0) :
    (a ++ X) ++ List.replicate ((8 - (a ++ X).length % 8) % 8) false = a ++ padToByte X := by
  unfold padToByte
  rw [List.append_assoc, List.length_append]
  have : (a.length + X.length) % 8 = X.length % 8 := by omega
  rw [this]

theorem R.bind_assoc {α β γ : Type} (x : R α) (f : α → R β) (g : β → R γ) :
    R.bind (R.bind x f) g = R.bind x fun a => R.bind (f a) g := by
  cases x <;> rfl

/-- **`ChunkMetadata::write_to` appends exactly `encChunkMeta`** of the metadata as the writer sees it
(`RMeta.toSpec`: the common-GCD field is the writer's own choice), for *every* value of the `usize`
fields — there is no range check in the source: `n`, `compressed_body_size`, `count`, `code.len()`,
`jumpstart`, the number of prefixes and the GCDs are cut to the low bits of their field.
Needed: the writer starts at a byte boundary, the variant matches the flags, and the three panics are
excluded (`PrefixNoPanic`, GCD field not wider than `max U::BITS 64`). -/
theorem writeTo_spec {gb : Nat → Nat} {d : DType} (hub : d.uBits ≤ 128) (hubs : d.signed.uBits ≤ 128)
    (hgb : ∀ x, gb x ≤ max d.uBits 64) (hgbs : ∀ x, gb x ≤ max d.signed.uBits 64)
    (fl : Flags) (m : RMeta) (hn : m.n < 2 ^ 64)
    (hvar : m.prefixMetadata.isDelta = decide (fl.order ≠ 0))
    (hps : ∀ p ∈ m.prefixMetadata.prefixes, PrefixNoPanic p)
    {wr : Writer} (h : WInv wr) (hal : wr.bits.length % 8 = 0) :
    ∃ wr', writeTo gb d fl m wr = .ok wr'
      ∧ wr'.bits = wr.bits ++ encChunkMeta gb d fl (m.toSpec fl)
      ∧ WInv wr' ∧ wr'.j % 8 = 0 := by
  obtain ⟨wr3, e, b, i⟩ := appends_writeTo_body hub hubs hgb hgbs fl m hn hvar hps wr h
  obtain ⟨f1, f2, f3⟩ := finishByte_spec i
  refine ⟨wr3.finishByte, ?_, ?_, f2, f3⟩
  · have : writeTo gb d fl m wr = R.bind (R.bind (wr.writeUsize m.n Frozen.bitsNEntries) fun wr1 =>
        R.bind (wr1.writeUsize m.compressedBodySize Frozen.bitsBodySize) fun wr2 =>
        match m.prefixMetadata with
        | .simple prefixes => writePrefixes gb d fl m.n prefixes wr2
        | .delta prefixes deltaMoments =>
          writePrefixes gb d.signed fl m.n prefixes (writeMoments d.signed deltaMoments wr2))
        fun wr3 => .ok wr3.finishByte := by
      unfold writeTo
      rw [R.bind_assoc]
      congr 1; funext wr1
      rw [R.bind_assoc]
      rfl
    rw [this]
    simp only at e
    rw [e]
    rfl
  · rw [f1, b]
    exact append_pad _ _ hal

/-! ### findings: silent truncation, panics -/

/-- `write_usize(x, n)` writes `x mod 2^n`: an oversized field is cut, not rejected -/
theorem writeUsize_truncates (x k : Nat) {n : Nat} (hn : n ≤ 64) :
    Appends (fun wr => wr.writeUsize (x + 2 ^ n * k) n) (natBits n x) := by
  have := appends_writeUsize (x + 2 ^ n * k) hn
  refine appends_congr this ?_
  rw [natBits_mod, Nat.add_mul_mod_self_left, ← natBits_mod]

/-- the encoding of a chunk metadata does not change when `2^24` is added to `n` (fixed-width counts)
or `2^32` to the body size: `write_to` emits the same bytes for both, the reader sees the small values -/
theorem encChunkMeta_truncates_body (gb : Nat → Nat) (d : DType) (fl : Flags) (m : ChunkMeta) (k : Nat) :
    encChunkMeta gb d fl { m with bodyBytes := m.bodyBytes + 2 ^ Frozen.bitsBodySize * k }
      = encChunkMeta gb d fl m := by
  have e : natBits Frozen.bitsBodySize (m.bodyBytes + 2 ^ Frozen.bitsBodySize * k)
      = natBits Frozen.bitsBodySize m.bodyBytes := by
    rw [natBits_mod, Nat.add_mul_mod_self_left, ← natBits_mod]
  unfold encChunkMeta
  simp only [e]

/-- bounds out of order panic when the prefix writes its own GCD (`upper - lower` on `U`) -/
theorem writePrefix_unordered_panics (gb : Nat → Nat) (d : DType) (fl : Flags) (n : Nat) (p : Prefix)
    (hlt : p.upper < p.lower) (hn : n < 2 ^ 64) {wr : Writer} (h : WInv wr) :
    writePrefix gb d fl n none p wr = .panic := by
  have hcl : fl.codeLenBits ≤ 64 := by unfold Flags.codeLenBits; split <;> omega
  unfold writePrefix
  obtain ⟨wr1, e1, _, i1⟩ := writeUsize_spec h p.count (countBits_le_64 fl hn)
  rw [e1]
  simp only [R.bind]
  have i3 : WInv (writeNum d p.upper (writeNum d p.lower wr1)) :=
    (write_spec (natBits d.physBits (d.uToRaw p.upper))
      (write_spec (natBits d.physBits (d.uToRaw p.lower)) i1).2).2
  obtain ⟨wr4, e4, _, i4⟩ := writeUsize_spec (wr := writeNum d p.upper (writeNum d p.lower wr1)) i3
    p.code.length hcl
  rw [e4]
  simp only
  have i5 := (write_spec p.code i4).2
  cases hj : p.jump with
  | none => simp only [Option.isNone_none, if_true, if_pos hlt]
  | some j =>
    simp only
    obtain ⟨wr6, e6, _, _⟩ := writeUsize_spec (writeOne_spec i5 true).2 j (n := Frozen.bitsJumpstart)
      (by decide)
    rw [e6]
    simp only [Option.isNone_none, if_true, if_pos hlt]

end Qco.MetaIO
