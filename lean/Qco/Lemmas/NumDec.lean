/-
The fast path of `NumDecompressor` verified: the literal model `Qco.NumDec` (`Qco/Op/NumDec.lean`)
against the abstract batch decoder `Qco.Op.numBatchDirty matchStride`.

* **(a)** `unchecked_block_eq` — with `max_bits_read p + max_bits_overshot p` bits left at the reader
  position, `unchecked_decompress_num_block` does not panic and is `decompress_num_block`
  (`Qco/Lemmas/NumDec/Block.lean`: `nd_unchecked_block_core`).
* **(b)** `guard_sound` — the guard `guaranteed_safe_num_blocks = min(remaining, (bits_remaining -
  max_overshoot) / max_bits_per_num_block)` guarantees that hypothesis for each of the next
  `guaranteed_safe_num_blocks` blocks (`Qco/Lemmas/NumDec/Guard.lean`).
* **(c)** `numDecDirty_eq`, `numDecDirty_no_panic` — the whole
  `decompress_unsigneds_limited_dirty` (`Qco/Lemmas/NumDec/Dirty.lean`).

Proof layers: `Abs` (the abstract drain block by block), `Offsets`, `Block`, `BlockAbs`, `Guard`,
`Loops` (the loop invariant `J`), `Dirty`.
-/
import Qco.Lemmas.NumDec.Dirty
namespace Qco
namespace NumDec
open Qco.WB Qco.HT Qco.Op

/-- **(a)** `i` is the prefix whose code stands at the reader position.  If at least
`max_bits_read(prefix i) + max_bits_overshot(prefix i)` bits are left there (and the batch still
misses numbers, `batch_size ≤ MAX_ENTRIES`), `unchecked_decompress_num_block` yields exactly what
`decompress_num_block` yields — same numbers appended, same reader, same `incomplete_prefix` — the
result is `Ok` (in particular not a panic: no word is indexed out of bounds), and the reader ends
inside the data, at most `max_bits_read` bits further. -/
theorem unchecked_block_eq (ub n : Nat) (ps : List Prefix) (hps : PsOk ub ps) (w : Words)
    (hw : w.WF) (hsz : 64 * w.ws.length + 1024 < USIZE) (r : Reader) (hr : RInv w r)
    (us : List Nat) (inc : UState) (batchSize : Nat) (hlt : us.length < batchSize)
    (hbatch : batchSize ≤ maxEntries)
    (i : Nat) (hi : i < ps.length) (hpre : ps[i].code <+: w.toBits.drop r.bitIdx)
    (hslack : r.bitIdx + maxBitsRead ps[i] + maxBitsOvershot ps[i] ≤ w.total) :
    uncheckedDecompressNumBlock (mkDec ub n ps) w r us inc batchSize
      = decompressNumBlock (mkDec ub n ps) w r us inc batchSize
    ∧ (uncheckedDecompressNumBlock (mkDec ub n ps) w r us inc batchSize).res = .ok ()
    ∧ RInv w (uncheckedDecompressNumBlock (mkDec ub n ps) w r us inc batchSize).rd
    ∧ (uncheckedDecompressNumBlock (mkDec ub n ps) w r us inc batchSize).rd.bitIdx
        ≤ r.bitIdx + maxBitsRead ps[i] := by
  obtain ⟨xs, inc', r', e1, e2, _, _, e5, e6⟩ :=
    nd_unchecked_block_core ub n ps hps w hw hsz r hr us inc batchSize hlt hbatch i hi hpre hslack
  rw [e1, e2]
  exact ⟨rfl, rfl, e5, e6⟩

/-- the blocks of the inner `while` of the fast path keep the budget -/
theorem nd_uncheckedBlocks_budget (ub n : Nat) (ps : List Prefix) (hps : PsOk ub ps) (w : Words)
    (hw : w.WF) (hsz : 64 * w.ws.length + 1024 < USIZE) (batchSize : Nat)
    (hbatch : batchSize ≤ maxEntries) :
    ∀ (k c : Nat) (r : Reader) (us : List Nat) (inc : UState), RInv w r → us.length ≤ batchSize →
      Budget (mkDec ub n ps) w r.bitIdx (k + c) →
      let b := uncheckedBlocks (mkDec ub n ps) w batchSize k r us inc
      b.res = .ok () ∧ RInv w b.rd ∧ b.us.length ≤ batchSize
        ∧ Budget (mkDec ub n ps) w b.rd.bitIdx c := by
  intro k
  induction k with
  | zero =>
    intro c r us inc hr hle hB
    rw [Nat.zero_add] at hB
    exact ⟨rfl, hr, hle, hB⟩
  | succ k ih =>
    intro c r us inc hr hle hB
    by_cases hlt : us.length < batchSize
    · rw [show k + 1 + c = (k + c) + 1 by omega] at hB
      obtain ⟨xs, inc', r', e1, _, _, e4, e5, e6⟩ :=
        nd_fast_block ub n ps hps w hw hsz r hr us inc batchSize hlt hbatch (k + c) hB
      have := ih c r' (us ++ xs) inc' e5 (by simp only [List.length_append]; omega) e6
      simp only at this
      rw [nd_uncheckedBlocks_succ _ w batchSize k r us inc hlt _ e1 rfl]
      exact this
    · have hb : uncheckedBlocks (mkDec ub n ps) w batchSize (k + 1) r us inc = ⟨.ok (), us, inc, r⟩ := by
        simp only [uncheckedBlocks, if_neg hlt]
      rw [hb]
      refine ⟨rfl, hr, hle, ?_⟩
      show Budget (mkDec ub n ps) w r.bitIdx c
      unfold Budget at hB ⊢
      have : c * (mkDec ub n ps).maxBitsPerNumBlock ≤ (k + 1 + c) * (mkDec ub n ps).maxBitsPerNumBlock :=
        Nat.mul_le_mul_right _ (by omega)
      omega

/-- **(b)** With `g = min(remaining, (bits_remaining - max_overshoot) / max_bits_per_num_block)` and
`g ≥ 30` (`UNCHECKED_NUM_THRESHOLD`), after any `k < g` turns of the inner `while` of the fast path
the blocks so far returned `Ok`, the reader is inside the data, and — if the batch still misses
numbers, i.e. the loop runs another block — the hypothesis of (a) holds there: some code `i`
stands at the reader position with `max_bits_read + max_bits_overshot` bits left. -/
theorem guard_sound (ub n : Nat) (ps : List Prefix) (hps : PsOk ub ps) (w : Words) (hw : w.WF)
    (hsz : 64 * w.ws.length + 1024 < USIZE) (r : Reader) (hr : RInv w r) (us : List Nat) (inc : UState)
    (batchSize : Nat) (hle : us.length ≤ batchSize) (hbatch : batchSize ≤ maxEntries)
    (hM : (mkDec ub n ps).maxBitsPerNumBlock ≠ 0) (bitsRem g : Nat)
    (hbr : bitsRemaining w r = .ok bitsRem)
    (hg : g = min (batchSize - us.length)
      ((bitsRem - (mkDec ub n ps).maxOvershootPerNumBlock) / (mkDec ub n ps).maxBitsPerNumBlock))
    (h30 : uncheckedNumThreshold ≤ g) (k : Nat) (hk : k < g) :
    let b := uncheckedBlocks (mkDec ub n ps) w batchSize k r us inc
    b.res = .ok () ∧ RInv w b.rd
      ∧ (b.us.length < batchSize →
          ∃ i, ∃ hi : i < ps.length, ps[i].code <+: w.toBits.drop b.rd.bitIdx
            ∧ b.rd.bitIdx + maxBitsRead ps[i] + maxBitsOvershot ps[i] ≤ w.total) := by
  intro b
  have h30' : 30 ≤ g := h30
  have hB := nd_guard_init (mkDec ub n ps) w r _ bitsRem g hbr hM hg (by omega)
  rw [show g = k + ((g - k - 1) + 1) by omega] at hB
  have := nd_uncheckedBlocks_budget ub n ps hps w hw hsz batchSize hbatch k _ r us inc hr hle hB
  simp only at this
  obtain ⟨h1, h2, _, h4⟩ := this
  refine ⟨h1, h2, fun _ => ?_⟩
  obtain ⟨i, hi, hpre, hslack, _⟩ := nd_guard_step ub n ps hps w hw _ _ h4
  exact ⟨i, hi, hpre, hslack⟩

/-! ### sanity checks: the literal and the abstract batch decoder side by side -/

/-- the outcome of the literal function in the shape of the abstract one -/
def litView (o : DirtyOut) : R (List Nat × Bool) × UState × Nat := (o.res, o.inc, o.rd.bitIdx)

/-- the outcome of the abstract function in the same shape -/
def absView (o : Out UBatch × NumSt × Rd) : R (List Nat × Bool) × UState × Nat :=
  (outToR o.1, o.2.1.inc, o.2.2.pos)

/-- both decoders on the same prefixes, state and data (`bytes` through `BitWords::extend`) -/
def sideBySideDirty (ub : Nat) (ps : List Prefix) (n nProcessed : Nat) (inc : UState) (limit : Nat)
    (eoi : Bool) (bytes : List Nat) (bitIdx : Nat) : Bool :=
  let w := Words.extend {} bytes
  let st0 : NumSt := ⟨nProcessed, 0, inc⟩
  let b : Body := ⟨n, bytes.length, ps, st0, n, 0, [], 0⟩
  litView (decompressUnsignedsLimitedDirty (mkDec ub n ps) nProcessed inc limit eoi w (Reader.seekTo bitIdx))
    == absView (numBatchDirty matchStride b limit eoi { bits := w.toBits.drop bitIdx, pos := bitIdx })

/-- codes `0`, `10`, `110`, `111`; the second prefix has run lengths, the third a GCD -/
def cexPs : List Prefix :=
  [ { count := 5, lower := 0, upper := 12, code := [false], jump := none, gcd := 1 },
    { count := 5, lower := 100, upper := 100, code := [true, false], jump := some 2, gcd := 1 },
    { count := 5, lower := 1000, upper := 1090, code := [true, true, false], jump := none, gcd := 10 },
    { count := 5, lower := 5000, upper := 5255, code := [true, true, true], jump := none, gcd := 1 } ]

def cexBytes : List Nat :=
  [0x5a, 0xc3, 0x0f, 0xff, 0x00, 0x81, 0x7e, 0xe7, 0x12, 0x34, 0x56, 0x78, 0x9a, 0xbc, 0xde, 0xf0,
   0x0f, 0x1e, 0x2d, 0x3c, 0x4b, 0x5a, 0x69, 0x78, 0x87, 0x96, 0xa5, 0xb4, 0xc3, 0xd2, 0xe1, 0xf0]

/-- the same codes without run lengths: `max_bits_per_num_block = 11` -/
def noJumpPs : List Prefix := cexPs.map fun p => { p with jump := none }

/-- 400 pseudo-random bytes -/
def rndBytes : List Nat := (List.range 400).map fun i => ((i * i * 31 + i * 17 + 5) * 2654435761 / 65536) % 256

/-- `guaranteed_safe_num_blocks` of the first turn of the `loop` -/
def firstGuard (ub : Nat) (ps : List Prefix) (n : Nat) (bytes : List Nat) (bitIdx : Nat) : Nat :=
  let dec := mkDec ub n ps
  min n ((8 * bytes.length - bitIdx - dec.maxOvershootPerNumBlock) / dec.maxBitsPerNumBlock)

/-- a single prefix with the empty code and a single value: `max_bits_per_num_block == 0` -/
def constPs : List Prefix :=
  [ { count := 7, lower := 42, upper := 42, code := [], jump := none, gcd := 1 } ]

-- whole batches, partial batches, every start position of the first bytes, both `eoi`
#guard (List.range 40).all fun p => sideBySideDirty 64 cexPs 200 0 none 200 true cexBytes p
#guard (List.range 40).all fun p => sideBySideDirty 64 cexPs 200 0 none 200 false cexBytes p
#guard (List.range 20).all fun l => sideBySideDirty 64 cexPs 50 3 none l false cexBytes 5
-- resuming a run
#guard (List.range 12).all fun l => sideBySideDirty 64 cexPs 50 3 (some (1, 7)) l true cexBytes 9
#guard sideBySideDirty 64 cexPs 50 3 (some (0, 70)) 100 false cexBytes 9
-- too little data for the fast path, data ending inside a block
#guard (List.range 24).all fun k => sideBySideDirty 64 cexPs 200 0 none 200 false (cexBytes.take k) 0
#guard (List.range 24).all fun k => sideBySideDirty 64 cexPs 200 0 none 200 true (cexBytes.take k) 0
-- the fast path is taken: pseudo-random data, long enough for `guaranteed_safe_num_blocks ≥ 30`
#guard firstGuard 64 cexPs 300 rndBytes 0 ≥ 30 && firstGuard 64 noJumpPs 300 (rndBytes.take 64) 0 ≥ 30
#guard (List.range 70).all fun p => sideBySideDirty 64 cexPs 300 0 none 300 true rndBytes p
#guard (List.range 20).all fun p => sideBySideDirty 64 cexPs 300 0 none 300 false rndBytes (8 * p + 3)
#guard (List.range 40).all fun l => sideBySideDirty 64 cexPs 300 0 none (30 + l) false rndBytes 1
#guard (List.range 70).all fun p => sideBySideDirty 64 noJumpPs 300 0 none 300 false (rndBytes.take 64) p
#guard (List.range 16).all fun k => sideBySideDirty 64 noJumpPs 300 0 none 300 true (rndBytes.take (56 + k)) 7
#guard sideBySideDirty 64 noJumpPs 45 0 none 300 true (rndBytes.take 96) 0
-- the constant branch
#guard sideBySideDirty 64 constPs 7 0 none 100 true [] 0
#guard sideBySideDirty 64 constPs 7 2 none 3 false [0xff] 8

end NumDec
end Qco
